(* C07 -- Every join carries a gap and retained neighbours keep their input gap.
   Only statements, each closed by [exact] of a lemma from Proofs/JoinGaps.v.
   Proved: the structure of every fused output scaffold.  The provenance of
   each gap row on PretextView-model maps (input gap of the same neighbours or
   the join gap) is decided by the correspondence + oracle only. *)
From Tola Require Import Py.Base Model.Fragment Model.Scaffold Model.OverlapResult Model.OvrSpec
  Model.Namer Model.Remap Proofs.JoinGaps.

(* every fused scaffold is the join, with the join gap between consecutive
   pieces, of the rows of the non-empty pieces carrying its key, in fusion order *)
Theorem C07_fuse_is_join : forall g pieces k b,
  aget fuse_key_eqb (fold_left (fuse_step repaired g) pieces []) k = Some b ->
  sc_rows b = join_rows g (map (fun p => sc_rows (fst p))
                               (filter (fun p => match sc_rows (fst p) with
                                                 | [] => false
                                                 | _ => fuse_key_eqb (piece_key repaired (fst p)) k
                                                 end) pieces)).
Proof. exact fuse_fold_is_join. Qed.
Print Assumptions C07_fuse_is_join.

(* every fusion boundary carries the join gap, for overlap results and for
   left-over scaffolds alike *)
Theorem C07_fusion_boundary_has_gap : forall g acc sc isr b,
  sc_rows sc <> [] ->
  aget fuse_key_eqb acc (piece_key repaired sc) = Some b -> sc_rows b <> [] ->
  exists b', aget fuse_key_eqb (fuse_step repaired g acc (sc, isr)) (piece_key repaired sc) = Some b'
             /\ sc_rows b' = sc_rows b ++ RG g :: sc_rows sc.
Proof. exact fuse_step_boundary. Qed.
Print Assumptions C07_fusion_boundary_has_gap.

(* no output scaffold begins or ends with a gap, provided no piece does ... *)
Theorem C07_no_terminal_gap : forall g pieces k b,
  Forall (fun p => sc_rows (fst p) = [] \/ no_terminal_gap (sc_rows (fst p))) pieces ->
  aget fuse_key_eqb (fold_left (fuse_step repaired g) pieces []) k = Some b ->
  no_terminal_gap (sc_rows b).
Proof. exact fused_no_terminal_gap. Qed.
Print Assumptions C07_no_terminal_gap.

(* ... and no piece does: overlap results (by the C18 invariant, in either
   orientation) and left-over scaffolds begin and end with a fragment *)
Theorem C07_results_have_no_terminal_gap : forall r,
  consistent r -> o_rows r = [] \/ no_terminal_gap (to_scaffold_rows r).
Proof. exact to_scaffold_rows_ok. Qed.
Print Assumptions C07_results_have_no_terminal_gap.
Theorem C07_leftovers_have_no_terminal_gap : forall c found g rows,
  missing_rows c found g rows [] 0 None = []
  \/ no_terminal_gap (missing_rows c found g rows [] 0 None).
Proof. exact missing_rows_no_terminal_gap. Qed.
Print Assumptions C07_leftovers_have_no_terminal_gap.

(* two fragments are directly adjacent in an output scaffold only inside one
   piece: inside one overlap result (a contiguous run of an input scaffold,
   C18) or inside the left-over rows of one input scaffold, where direct
   adjacency means they were adjacent rows of the input *)
Theorem C07_adjacent_only_within_piece : forall g pieces k b x y,
  Forall (fun p => sc_rows (fst p) = [] \/ no_terminal_gap (sc_rows (fst p))) pieces ->
  aget fuse_key_eqb (fold_left (fuse_step repaired g) pieces []) k = Some b ->
  adjacent_frags (sc_rows b) x y ->
  exists p, In p pieces /\ adjacent_frags (sc_rows (fst p)) x y.
Proof. exact fused_adjacent_only_within_piece. Qed.
Print Assumptions C07_adjacent_only_within_piece.
Theorem C07_leftover_adjacency_is_input_adjacency : forall c found g rows a b,
  adjacent_frags (missing_rows c found g rows [] 0 None) a b -> adjacent_frags rows a b.
Proof. exact missing_rows_adjacent. Qed.
Print Assumptions C07_leftover_adjacency_is_input_adjacency.

(* the pinned commit appended left-over pieces without the gap (repaired by a fix: commit) *)
Theorem C07_legacy_refuted : exists g p1 p2 k b x y,
  let c := mkCfg true false true true true in
  aget fuse_key_eqb (fold_left (fuse_step c g) [p1; p2] []) k = Some b
  /\ adjacent_frags (sc_rows b) x y
  /\ ~ adjacent_frags (sc_rows (fst p1)) x y /\ ~ adjacent_frags (sc_rows (fst p2)) x y.
Proof. exact legacy_leftover_refuted. Qed.
Print Assumptions C07_legacy_refuted.

(* GAP PROVENANCE, end to end through [remap], for EVERY input, EVERY Pretext
   map (garbage included), every texel size and every configuration: a gap row
   of an output scaffold is either the configured join gap or a gap row (same
   length, same type) of the input assembly -- the program never invents,
   resizes or retypes a gap *)
From Tola Require Proofs.GapProvenance.
Theorem C07_gap_provenance : forall c g prefix bpt input pretext o,
  remap c g prefix bpt input pretext = Ok o ->
  forall a sc gp, In a (out_asms o) -> In sc (oa_scaffolds a) -> In (RG gp) (sc_rows sc) ->
    gp = g \/ exists isc, In isc input /\ In (RG gp) (snd isc).
Proof. exact Proofs.GapProvenance.gap_provenance. Qed.
Print Assumptions C07_gap_provenance.

(* the overlap results themselves (before fusing) hold input gaps only *)
Theorem C07_results_hold_input_gaps : forall c g prefix bpt input pretext rs,
  remap_to_input c g prefix bpt input pretext = Ok rs ->
  forall r gp, In r (b_store (rs_b rs)) -> In (RG gp) (o_rows r) ->
    exists isc, In isc input /\ In (RG gp) (snd isc).
Proof. exact Proofs.GapProvenance.gap_provenance_results. Qed.
Print Assumptions C07_results_hold_input_gaps.

(* "no output scaffold begins or ends with a gap", END TO END: every output
   scaffold of every completed run -- any input, any Pretext map, any
   configuration, no hypothesis at all -- is non-empty and begins and ends
   with a fragment *)
From Tola Require Proofs.PipelineInv.
Theorem C07_output_scaffolds_well_formed : forall c g prefix bpt input pretext o,
  remap c g prefix bpt input pretext = Ok o ->
  forall a sc, In a (out_asms o) -> In sc (oa_scaffolds a) ->
    sc_rows sc <> [] /\ (exists f t, sc_rows sc = RF f :: t) /\ (exists f t, sc_rows sc = t ++ [RF f]).
Proof. exact Proofs.PipelineInv.output_scaffolds_well_formed. Qed.
Print Assumptions C07_output_scaffolds_well_formed.

(* NEIGHBOUR GAPS, end to end through [remap], for EVERY input (rows >= 1 bp)
   and EVERY Pretext map: when two fragments follow each other in an output
   scaffold with only the gap rows [mid] between them (mid = []: directly
   adjacent), then mid is exactly the join gap, or the two fragments are pieces
   of two input contigs that followed each other in ONE input scaffold with
   exactly the same gap rows between them (in the same direction, or -- a piece
   presented reversed -- in the opposite direction, strands inverted), or
   (third case, left-over scaffolds only) they are two never-found contigs of
   one input scaffold with a found contig between them, separated by the single
   input gap that directly preceded the second one.  Hence: directly adjacent
   output fragments were directly adjacent in the input; a gap run that is not
   the join gap is an input gap run. *)
From Tola Require Proofs.NeighbourGaps.
Theorem C07_neighbour_gaps : forall g prefix bpt input pretext o,
  Forall (fun isc => Model.Lookup.pos_rows (snd isc)) input ->
  remap repaired g prefix bpt input pretext = Ok o ->
  forall a sc x mid y,
    In a (out_asms o) -> In sc (oa_scaffolds a) ->
    Proofs.NeighbourGaps.consecutive (sc_rows sc) x mid y ->
    mid = [g] \/ Proofs.NeighbourGaps.same_neighbours input x mid y
    \/ Proofs.NeighbourGaps.skipped_neighbours input x mid y.
Proof. exact Proofs.NeighbourGaps.neighbour_gaps_end_to_end. Qed.
Print Assumptions C07_neighbour_gaps.

(* the third case is real (found while proving: the two-case statement is
   refuted by input A -100- B -57- C with a map that shows only B: the output
   holds A -57- C), and it occurs only inside one left-over scaffold -- never
   inside a placed piece, never across a fusion boundary.  Maps PretextView can
   produce tile every scaffold, so a found contig between two never-found ones
   does not occur there (DESIGN 13.5). *)
Theorem C07_two_case_statement_refuted : ~ Proofs.NeighbourGaps.neighbour_gaps_original_statement.
Proof. exact Proofs.NeighbourGaps.neighbour_gaps_original_refuted. Qed.
Print Assumptions C07_two_case_statement_refuted.

(* with the original two-way conclusion when every input gap equals the join gap *)
Theorem C07_neighbour_gaps_uniform : forall g prefix bpt input pretext o,
  Forall (fun isc => Model.Lookup.pos_rows (snd isc)) input ->
  (forall isc gp, In isc input -> In (RG gp) (snd isc) -> gp = g) ->
  remap repaired g prefix bpt input pretext = Ok o ->
  forall a sc x mid y,
    In a (out_asms o) -> In sc (oa_scaffolds a) ->
    Proofs.NeighbourGaps.consecutive (sc_rows sc) x mid y ->
    mid = [g] \/ Proofs.NeighbourGaps.same_neighbours input x mid y.
Proof. exact Proofs.NeighbourGaps.neighbour_gaps_uniform_gaps. Qed.
Print Assumptions C07_neighbour_gaps_uniform.

(* THE SECOND SENTENCE for maps PretextView can produce: on every map that tiles
   the scaffolds it shows (the hypotheses of C02_completion) the third case
   cannot arise -- a contig no bait found lies beyond the last texel of its
   scaffold, so the never-found contigs of a scaffold are a suffix of its rows
   -- and every gap run between two consecutive fragments of an output scaffold
   is EXACTLY the join gap or EXACTLY the input gap run that separated the same
   two contigs (same lengths, same types, either reading direction); directly
   adjacent fragments were directly adjacent in the input; a junction between
   contigs that were not neighbours in the input carries the join gap. *)
From Tola Require Proofs.PretextViewGaps.
Theorem C07_pretextview_gaps : forall g prefix n d input pretext o,
  0 < d -> d <= n ->
  Forall Proofs.Completion.input_ok input ->
  NoDup (map fst input) ->
  NoDup (map key_of (Model.RemapSpec.in_frags input)) ->
  Forall (fun f => f_tags f = []) (Model.RemapSpec.in_frags input) ->
  Forall (fun p => exists b t, snd p = RF b :: t) pretext ->
  Forall (fun b => f_tags b = [] /\ (f_strand b = 1 \/ f_strand b = -1)
                   /\ In (f_name b) (map fst input)) (Proofs.CoreKept.baits_of pretext) ->
  Forall (Proofs.Completion.scaffold_tiled n d (Proofs.CoreKept.baits_of pretext)) input ->
  remap repaired g prefix (n, d) input pretext = Ok o ->
  forall a sc x mid y,
    In a (out_asms o) -> In sc (oa_scaffolds a) ->
    Proofs.NeighbourGaps.consecutive (sc_rows sc) x mid y ->
    mid = [g] \/ Proofs.NeighbourGaps.same_neighbours input x mid y.
Proof. exact Proofs.PretextViewGaps.pretextview_gaps. Qed.
Print Assumptions C07_pretextview_gaps.

(* ... and the same for maps with ANY tags (Painted chromosomes, haplotypes,
   Unloc, Haplotig, name tags ...): the proof of C07_pretextview_gaps never used
   that the baits are untagged -- on every map that TILES the scaffolds it
   shows, whenever the run completes, every gap run between two consecutive
   output fragments is exactly the join gap or exactly the input gap run between
   the same two input neighbours.  (Whether the run completes is C02's matter:
   C02_painted_maps_complete for Painted maps.) *)
From Tola Require Proofs.PretextViewGapsPainted.
Theorem C07_pretextview_gaps_any_tags : forall g prefix n d input pretext o,
  0 < d -> d <= n ->
  Forall Proofs.Completion.input_ok input ->
  NoDup (map fst input) ->
  NoDup (map key_of (Model.RemapSpec.in_frags input)) ->
  Forall (Proofs.Completion.scaffold_tiled n d (Proofs.CoreKept.baits_of pretext)) input ->
  remap repaired g prefix (n, d) input pretext = Ok o ->
  forall a sc x mid y,
    In a (out_asms o) -> In sc (oa_scaffolds a) ->
    Proofs.NeighbourGaps.consecutive (sc_rows sc) x mid y ->
    mid = [g] \/ Proofs.NeighbourGaps.same_neighbours input x mid y.
Proof. exact Proofs.PretextViewGapsPainted.pretextview_gaps_any_tags. Qed.
Print Assumptions C07_pretextview_gaps_any_tags.
