(* C07 -- placeholder until the lemmas land *)
From Tola Require Import Py.Base Model.Fragment Model.Scaffold Model.Namer Model.Remap.

Lemma C07_canon_example :
  canon_junction (JSIIS (s "b") 5 9 (s "a")) = JSIIS (s "a") 9 5 (s "b").
Proof. vm_compute. reflexivity. Qed.
Print Assumptions C07_canon_example.
