(* C12 -- placeholder until Proofs/Lookup.v lands *)
From Tola Require Import Py.Base Model.Fragment Model.Lookup.

Lemma C12_legacy_refuted :
  find_overlaps_legacy [RF (mkFrag 0 (s "c") 1 10 1 []); RG (mkGap 10 (s "scaffold"))] 11 20
  = Err IndexError.
Proof. vm_compute. reflexivity. Qed.
Print Assumptions C12_legacy_refuted.
