(* C12 -- Overlap lookup equals a brute-force scan of the scaffold.
   Only statements, each closed by [exact] of a lemma from Proofs/Lookup.v. *)
From Tola Require Import Py.Base Model.Fragment Model.Lookup Proofs.Lookup.
From Tola Require Proofs.Fuel.

(* For every non-empty scaffold whose rows are at least 1 bp long and every
   query 1 <= a <= b (including queries ending past the scaffold end) the
   lookup does not fail and returns what [lookup_spec] describes: None when no
   fragment row meets the query; otherwise the contiguous run of rows from the
   first to the last fragment row meeting the query, with the scaffold
   coordinates of those two rows. *)
Theorem C12_lookup_spec : forall rows bs be,
  rows <> [] -> pos_rows rows -> 1 <= bs <= be ->
  exists r, find_overlaps rows bs be = Ok r /\ lookup_spec rows bs be r.
Proof. exact find_overlaps_spec. Qed.
Print Assumptions C12_lookup_spec.

(* the relational spec determines the answer ... *)
Theorem C12_spec_unique : forall rows bs be r1 r2,
  pos_rows rows -> lookup_spec rows bs be r1 -> lookup_spec rows bs be r2 -> r1 = r2.
Proof. exact lookup_spec_unique. Qed.
Print Assumptions C12_spec_unique.

(* ... every row between the first and the last returned row meets the query ... *)
Theorem C12_convex : forall rows bs be fo,
  pos_rows rows -> lookup_spec rows bs be (Some fo) ->
  exists i j, (i <= j < length rows)%nat /\ fo_rows fo = firstn (S j - i) (skipn i rows)
    /\ forall k, (i <= k <= j)%nat -> meets rows bs be k.
Proof. exact lookup_spec_convex. Qed.
Print Assumptions C12_convex.

(* ... and the function equals the executable linear scan (filter rows whose
   span meets the query, strip gaps at both ends) on every input. *)
Theorem C12_equals_brute_force : forall rows bs be,
  rows <> [] -> pos_rows rows -> 1 <= bs <= be ->
  find_overlaps rows bs be = Ok (brute_force rows bs be).
Proof. exact find_overlaps_eq_brute_force. Qed.
Print Assumptions C12_equals_brute_force.

Theorem C12_brute_force_spec : forall rows bs be,
  pos_rows rows -> lookup_spec rows bs be (brute_force rows bs be).
Proof. exact brute_force_spec. Qed.
Print Assumptions C12_brute_force_spec.

(* for EVERY row list (zero-length rows included) and every query the fuelled
   loops of the model terminate within their fuel *)
Theorem C12_never_out_of_fuel : forall rows a b, find_overlaps rows a b <> Err OutOfFuel.
Proof. exact Proofs.Fuel.find_overlaps_never_out_of_fuel. Qed.
Print Assumptions C12_never_out_of_fuel.

(* the code at the pinned commit (gap-stripping loops not bounded) fails on a
   query touching only a trailing gap: the defect repaired by the fix commit *)
Theorem C12_legacy_refuted :
  exists rows bs be, rows <> [] /\ pos_rows rows /\ 1 <= bs <= be /\
    find_overlaps_legacy rows bs be = Err IndexError.
Proof. exact find_overlaps_legacy_refuted. Qed.
Print Assumptions C12_legacy_refuted.

(* non-vacuity: a 5-row scaffold with gaps at both ends *)
Example C12_nonvacuous :
  let F n := RF (mkFrag 0 (s "c") 1 n 1 []) in
  let G n := RG (mkGap n (s "scaffold")) in
  let rows := [G 3; F 10; G 10; F 5; G 2] in
  find_overlaps rows 5 25 = Ok (brute_force rows 5 25) /\ brute_force rows 5 25 <> None
  /\ find_overlaps rows 29 40 = Ok None.
Proof. vm_compute. repeat split; discriminate. Qed.
