(* C06 -- Every AGP the tools write is coordinate-valid.
   Only statements, each closed by [exact] of a lemma from Proofs/AgpValid.v.
   Every AGP (asm-format, pretext-to-asm, the .agp cache) is written by
   format_agp from an assembly value, so the law is stated for all assemblies. *)
From Tola Require Import Py.Base Py.Dec Model.Fragment Model.Fasta Model.AgpTpf Model.AgpTpfSpec
  Proofs.AgpValid.

(* the text lines of a scaffold are the rendering (decimal, injective) of its
   numeric view [agp_nums] *)
Theorem C06_lines_are_rendered_nums : forall name rows p i,
  agp_rows name rows p i = mapM (render_num name) (agp_nums rows p i).
Proof. exact agp_rows_render. Qed.
Print Assumptions C06_lines_are_rendered_nums.

(* the rows of each object tile it from 1 with no hole or overlap, part numbers
   count 1,2,3..., a sequence row's object span equals its component span and a
   gap row's span equals its stated length (format_agp starts at p = 0, i = 0) *)
Theorem C06_tiles : forall rows p i, tiles (agp_nums rows p i) (p + 1) (i + 1).
Proof. exact agp_nums_tiles. Qed.
Print Assumptions C06_tiles.

(* the last object end equals the scaffold's length (= the FASTA record length, C03) *)
Theorem C06_last_end : forall rows p i, last_end (agp_nums rows p i) p = p + rows_len rows.
Proof. exact agp_nums_last_end. Qed.
Print Assumptions C06_last_end.

(* one line per row, in order *)
Theorem C06_one_line_per_row : forall rows p i, map an_row (agp_nums rows p i) = rows.
Proof. exact agp_nums_rows. Qed.
Print Assumptions C06_one_line_per_row.

(* gap rows carry U, their length, their gap type and linkage yes; sequence rows carry W *)
Theorem C06_gap_columns : forall name l g cols, an_row l = RG g -> render_num name l = Ok cols ->
  nth_error cols 4 = Some (s "U") /\ nth_error cols 5 = Some (str_of_Z (g_len g))
  /\ nth_error cols 6 = Some (g_type g)
  /\ nth_error cols 7 = Some (s "yes") /\ length cols = 9%nat.
Proof. exact render_num_gap. Qed.
Print Assumptions C06_gap_columns.

Theorem C06_frag_columns : forall name l f cols, an_row l = RF f -> render_num name l = Ok cols ->
  nth_error cols 4 = Some (s "W") /\ nth_error cols 5 = Some (f_name f)
  /\ nth_error cols 6 = Some (str_of_Z (f_start f)) /\ nth_error cols 7 = Some (str_of_Z (f_end f)).
Proof. exact render_num_frag. Qed.
Print Assumptions C06_frag_columns.

(* format_agp succeeds on every assembly whose fragment strands are 0, 1 or -1
   (what Fragment.__init__ enforces) *)
Theorem C06_format_total : forall a,
  Forall (fun sc => Forall (fun r => match r with
                                     | RF f => f_strand f = 0 \/ f_strand f = 1 \/ f_strand f = -1
                                     | RG _ => True end) (snd sc)) (a_scaffolds a) ->
  exists t, format_agp a = Ok t.
Proof. exact format_agp_total. Qed.
Print Assumptions C06_format_total.

(* non-vacuity: the numeric view of a concrete scaffold *)
Example C06_example :
  map (fun l => (an_beg l, an_end l, an_part l))
      (agp_nums [RF (mkFrag (-1) (s "c") 5 9 (-1) []); RG (mkGap 200 (s "scaffold")); RF (mkFrag (-1) (s "d") 1 1 1 [])] 0 0)
  = [(1, 5, 1); (6, 205, 2); (206, 206, 3)].
Proof. vm_compute. reflexivity. Qed.
