(* C02 -- placeholder until the lemmas land *)
From Tola Require Import Py.Base Model.Fragment Model.Scaffold Model.Namer Model.Remap.

Lemma C02_error_length_example : error_length (2300000000, 1000000) = 2301.
Proof. vm_compute. reflexivity. Qed.
Print Assumptions C02_error_length_example.
