(* C02 -- Curated layout follows the Pretext edits to within three texel widths.
   Only statements, each closed by [exact] of a lemma from Proofs/.  PARTIAL:
   proved here are the ingredients named in the property's anchors (error
   length, exact cuts at the bait coordinate with strand-aware trimming, the
   keep-flag order).  The global statement over a whole edit script (affine
   core map, orientation, Pretext order, completion) is decided by the
   correspondence of the whole pipeline model and the oracle on every run. *)
From Tola Require Import Py.Base Model.Fragment Model.Scaffold Model.Lookup Model.OverlapResult
  Model.Namer Model.Remap Proofs.NullMapAndCuts.

(* error length = 1 + floor(bp per texel): strictly above the texel size, by at most one *)
Theorem C02_error_length_spec : forall n d, 0 <= n -> 0 < d ->
  d * (error_length (n, d) - 1) <= n < d * error_length (n, d).
Proof. exact error_length_spec. Qed.
Print Assumptions C02_error_length_spec.

(* a cut trims the first row of a result exactly to the bait start: the result
   then starts at the bait start; a forward contig loses its first bases, a
   reverse (or unstranded) contig its last bases *)
Theorem C02_trim_first_exact : forall r f t new r',
  o_rows r = RF f :: t -> t <> [] ->
  (forall g, last_opt (o_rows r) = Some (RF g) -> f_id g <> f_id f) ->
  0 < start_overhang r ->
  trim_fragment r f false true = Ok (new, r') ->
  o_start r' = f_start (o_bait r)
  /\ o_end r' = o_end r
  /\ f_len new = f_len f - start_overhang r
  /\ (if f_strand f =? 1 then f_start new = f_start f + start_overhang r /\ f_end new = f_end f
      else f_end new = f_end f - start_overhang r /\ f_start new = f_start f)
  /\ o_rows r' = RF new :: t.
Proof. exact trim_first_exact. Qed.
Print Assumptions C02_trim_first_exact.

Theorem C02_trim_last_exact : forall r f t new r',
  o_rows r = t ++ [RF f] -> t <> [] ->
  (forall g, hd_error (o_rows r) = Some (RF g) -> f_id g <> f_id f) ->
  0 < end_overhang r ->
  trim_fragment r f true false = Ok (new, r') ->
  o_end r' = f_end (o_bait r)
  /\ o_start r' = o_start r
  /\ f_len new = f_len f - end_overhang r
  /\ (if f_strand f =? 1 then f_end new = f_end f - end_overhang r /\ f_start new = f_start f
      else f_start new = f_start f + end_overhang r /\ f_end new = f_end f)
  /\ o_rows r' = t ++ [RF new].
Proof. exact trim_last_exact. Qed.
Print Assumptions C02_trim_last_exact.

(* the first / last piece keeps the outer contig end *)
Theorem C02_trim_first_kept : forall r f t new r',
  o_rows r = RF f :: t -> t <> [] -> (forall g, last_opt (o_rows r) = Some (RF g) -> f_id g <> f_id f) ->
  trim_fragment r f true true = Ok (new, r') ->
  f_start new = f_start f /\ f_end new = f_end f /\ o_start r' = o_start r /\ o_end r' = o_end r.
Proof. exact trim_first_kept. Qed.
Print Assumptions C02_trim_first_kept.

(* the order in which the pieces of a cut contig are visited is the order of
   the coordinates the trimmed copies will actually have *)
Theorem C02_start_if_trimmed_agrees : forall r f t new r' st,
  o_rows r = RF f :: t -> t <> [] ->
  (forall g, last_opt (o_rows r) = Some (RF g) -> f_id g <> f_id f) ->
  f_strand f = 1 -> 0 < start_overhang r ->
  fragment_start_if_trimmed r f = Ok st -> trim_fragment r f false true = Ok (new, r') ->
  f_start new = st.
Proof. exact start_if_trimmed_agrees. Qed.
Print Assumptions C02_start_if_trimmed_agrees.
Theorem C02_start_if_trimmed_agrees_rev : forall r f t new r' st,
  o_rows r = t ++ [RF f] -> t <> [] ->
  (forall g, hd_error (o_rows r) = Some (RF g) -> f_id g <> f_id f) ->
  f_strand f <> 1 -> 0 < end_overhang r ->
  fragment_start_if_trimmed r f = Ok st -> trim_fragment r f true false = Ok (new, r') ->
  f_start new = st.
Proof. exact start_if_trimmed_agrees_rev. Qed.
Print Assumptions C02_start_if_trimmed_agrees_rev.

(* the keep-flag order of the pinned commit fails on every cut of a
   reverse-strand contig; the repaired order cuts it at the bait boundary
   (repaired by a fix: commit) *)
Theorem C02_legacy_refuted :
  exists (b : bstate) (k : fkey), cut_fragments (mkCfg false true true true true) b k = Err ValueError
    /\ exists b', cut_fragments repaired b k = Ok b' /\ b_cuts b' = b_cuts b + 1.
Proof. exact legacy_keep_flags_refuted. Qed.
Print Assumptions C02_legacy_refuted.
