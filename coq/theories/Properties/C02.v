(* C02 -- Curated layout follows the Pretext edits to within three texel widths.
   Only statements, each closed by [exact] of a lemma from Proofs/.  PARTIAL:
   proved end to end is the property's last clause for the simplest complete
   edit script (one scaffold cut once, the two pieces oriented and placed at
   will): a cut at least three error lengths inside a contig splits it exactly
   at the Pretext coordinate, with the margin shown to be sharp; plus the
   ingredients named in the anchors (error length, exact trims, keep-flag
   order).  The statement over arbitrary edit scripts (several cuts, regrouping,
   Pretext order) is decided by the correspondence of the whole pipeline model
   and the oracle on every run. *)
From Tola Require Import Py.Base Model.Fragment Model.Scaffold Model.Lookup Model.OverlapResult
  Model.Namer Model.Remap Proofs.NullMapAndCuts.
From Tola Require Proofs.TwoPieceCut.

(* END TO END through remap_to_input (lookups, overhang resolver, cuts,
   left-overs), for every texel size n/d, every scaffold pr ++ [f] ++ po of
   distinct well-formed contigs (gaps anywhere, pr / po possibly empty, f on
   either strand), every cut coordinate k with both pieces of f at least
   3 * error_length long, every orientation s1, s2 of the two Pretext
   scaffolds and every rounding E of the scaffold end by less than a texel:
   exactly one cut is counted, nothing is left over, and the two results are
   (oriented as chosen) pr ++ [left piece of f] and [right piece of f] ++ po,
   f being split exactly at scaffold coordinate k -- the left piece of a
   reverse-strand contig is its high end.  The pieces carry the tag "Cut". *)
Theorem C02_two_piece_cut : forall g prefix n d name pr f po k E s1 s2 p1 p2,
  0 <= n -> 0 < d ->
  let rows := pr ++ RF f :: po in
  let err := error_length (n, d) in
  let Sp := rows_len pr in
  Proofs.TwoPieceCut.sc_ok (name, rows) ->
  NoDup (map key_of (frags_of rows)) ->
  Sp + 3 * err <= k ->
  k + 3 * err <= Sp + f_len f ->
  rows_len (removelast rows) < E -> d * (rows_len rows - E) < n ->
  exists rs ra rb,
    remap_to_input repaired g prefix (n, d) [(name, rows)]
       [(p1, [RF (mkFrag (-1) name 1 k s1 [])]); (p2, [RF (mkFrag (-1) name (k+1) E s2 [])])] = Ok rs
    /\ b_cuts (rs_b rs) = 1 /\ rs_left rs = []
    /\ mapM (get_ovr (b_store (rs_b rs))) (b_added (rs_b rs)) = Ok [ra; rb]
    /\ map Proofs.TwoPieceCut.erase_id (to_scaffold_rows ra)
       = Proofs.TwoPieceCut.orient s1 (map Proofs.TwoPieceCut.erase_id pr ++ [RF (Proofs.TwoPieceCut.cut_left f (k - Sp))])
    /\ map Proofs.TwoPieceCut.erase_id (to_scaffold_rows rb)
       = Proofs.TwoPieceCut.orient s2 (RF (Proofs.TwoPieceCut.cut_right f (k - Sp)) :: map Proofs.TwoPieceCut.erase_id po)
    /\ (o_name ra = name /\ o_orig ra = Some p1 /\ o_start ra = 1 /\ o_end ra = k)
    /\ (o_name rb = name /\ o_orig rb = Some p2 /\ o_start rb = k+1 /\ o_end rb = rows_len rows).
Proof. exact Proofs.TwoPieceCut.two_piece_cut. Qed.
Print Assumptions C02_two_piece_cut.

(* non-vacuity: texel 7/2, a reverse-strand contig between gaps cut at 60, the
   first piece presented reversed -- obtained by applying the theorem *)
Theorem C02_two_piece_cut_instance : Proofs.TwoPieceCut.instance_statement.
Proof. exact Proofs.TwoPieceCut.two_piece_cut_instance_by_theorem. Qed.
Print Assumptions C02_two_piece_cut_instance.

(* the margin of three error lengths is sharp: one base less on either side and
   the contig goes whole to one piece, no cut is made (by computation) *)
Theorem C02_margin_sharp_left :
  rows_len Proofs.TwoPieceCut.sh_pre + 3 * error_length (7, 2) = 31 + 1
  /\ 31 + 3 * error_length (7, 2) <= rows_len Proofs.TwoPieceCut.sh_pre + f_len Proofs.TwoPieceCut.sh_f
  /\ exists rs ra rb,
    remap_to_input repaired Proofs.TwoPieceCut.ex_dg (s "SUPER_") (7, 2)
       [(s "scaffold_1", Proofs.TwoPieceCut.sh_pre ++ RF Proofs.TwoPieceCut.sh_f :: Proofs.TwoPieceCut.sh_post)]
       (Proofs.TwoPieceCut.ex_ptx 31 150 1 1) = Ok rs
    /\ b_cuts (rs_b rs) = 0
    /\ mapM (get_ovr (b_store (rs_b rs))) (b_added (rs_b rs)) = Ok [ra; rb]
    /\ map Proofs.TwoPieceCut.erase_id (to_scaffold_rows ra) = [Proofs.TwoPieceCut.ex_F "ctg1" 1 20 1]
    /\ map Proofs.TwoPieceCut.erase_id (to_scaffold_rows rb)
       = [Proofs.TwoPieceCut.ex_F "ctg2" 101 200 1; Proofs.TwoPieceCut.ex_F "ctg3" 1 30 1].
Proof. exact Proofs.TwoPieceCut.margin_sharp_left. Qed.
Print Assumptions C02_margin_sharp_left.

(* error length = 1 + floor(bp per texel): strictly above the texel size, by at most one *)
Theorem C02_error_length_spec : forall n d, 0 <= n -> 0 < d ->
  d * (error_length (n, d) - 1) <= n < d * error_length (n, d).
Proof. exact error_length_spec. Qed.
Print Assumptions C02_error_length_spec.

(* a cut trims the first row of a result exactly to the bait start: the result
   then starts at the bait start; a forward contig loses its first bases, a
   reverse (or unstranded) contig its last bases *)
Theorem C02_trim_first_exact : forall r f t new r',
  o_rows r = RF f :: t -> t <> [] ->
  (forall g, last_opt (o_rows r) = Some (RF g) -> f_id g <> f_id f) ->
  0 < start_overhang r ->
  trim_fragment r f false true = Ok (new, r') ->
  o_start r' = f_start (o_bait r)
  /\ o_end r' = o_end r
  /\ f_len new = f_len f - start_overhang r
  /\ (if f_strand f =? 1 then f_start new = f_start f + start_overhang r /\ f_end new = f_end f
      else f_end new = f_end f - start_overhang r /\ f_start new = f_start f)
  /\ o_rows r' = RF new :: t.
Proof. exact trim_first_exact. Qed.
Print Assumptions C02_trim_first_exact.

Theorem C02_trim_last_exact : forall r f t new r',
  o_rows r = t ++ [RF f] -> t <> [] ->
  (forall g, hd_error (o_rows r) = Some (RF g) -> f_id g <> f_id f) ->
  0 < end_overhang r ->
  trim_fragment r f true false = Ok (new, r') ->
  o_end r' = f_end (o_bait r)
  /\ o_start r' = o_start r
  /\ f_len new = f_len f - end_overhang r
  /\ (if f_strand f =? 1 then f_end new = f_end f - end_overhang r /\ f_start new = f_start f
      else f_start new = f_start f + end_overhang r /\ f_end new = f_end f)
  /\ o_rows r' = t ++ [RF new].
Proof. exact trim_last_exact. Qed.
Print Assumptions C02_trim_last_exact.

(* the first / last piece keeps the outer contig end *)
Theorem C02_trim_first_kept : forall r f t new r',
  o_rows r = RF f :: t -> t <> [] -> (forall g, last_opt (o_rows r) = Some (RF g) -> f_id g <> f_id f) ->
  trim_fragment r f true true = Ok (new, r') ->
  f_start new = f_start f /\ f_end new = f_end f /\ o_start r' = o_start r /\ o_end r' = o_end r.
Proof. exact trim_first_kept. Qed.
Print Assumptions C02_trim_first_kept.

(* the order in which the pieces of a cut contig are visited is the order of
   the coordinates the trimmed copies will actually have *)
Theorem C02_start_if_trimmed_agrees : forall r f t new r' st,
  o_rows r = RF f :: t -> t <> [] ->
  (forall g, last_opt (o_rows r) = Some (RF g) -> f_id g <> f_id f) ->
  f_strand f = 1 -> 0 < start_overhang r ->
  fragment_start_if_trimmed r f = Ok st -> trim_fragment r f false true = Ok (new, r') ->
  f_start new = st.
Proof. exact start_if_trimmed_agrees. Qed.
Print Assumptions C02_start_if_trimmed_agrees.
Theorem C02_start_if_trimmed_agrees_rev : forall r f t new r' st,
  o_rows r = t ++ [RF f] -> t <> [] ->
  (forall g, hd_error (o_rows r) = Some (RF g) -> f_id g <> f_id f) ->
  f_strand f <> 1 -> 0 < end_overhang r ->
  fragment_start_if_trimmed r f = Ok st -> trim_fragment r f true false = Ok (new, r') ->
  f_start new = st.
Proof. exact start_if_trimmed_agrees_rev. Qed.
Print Assumptions C02_start_if_trimmed_agrees_rev.

(* the keep-flag order of the pinned commit fails on every cut of a
   reverse-strand contig; the repaired order cuts it at the bait boundary
   (repaired by a fix: commit) *)
Theorem C02_legacy_refuted :
  exists (b : bstate) (k : fkey), cut_fragments (mkCfg false true true true true) b k = Err ValueError
    /\ exists b', cut_fragments repaired b k = Ok b' /\ b_cuts b' = b_cuts b + 1.
Proof. exact legacy_keep_flags_refuted. Qed.
Print Assumptions C02_legacy_refuted.

(* ========================================================================
   THE MAIN CLAUSE, for EVERY map whose baits are pairwise disjoint -- in
   particular every edit script PretextView can produce, whatever the number
   of cuts, the order, orientation and grouping of the pieces -- and every
   configuration: whenever remapping completes, the result stored for a bait
   (piece) satisfies the C18 invariant against its source scaffold (its rows
   are ONE contiguous run of the source scaffold's rows, collinear, with the
   input's internal gaps, only the terminal contigs possibly shortened,
   covering exactly o_start .. o_end) AND still holds every contig base of the
   source that lies at least 3 error lengths inside the bait; a bait for which
   no result is stored has no such base.  (Orientation input x piece:
   to_scaffold_rows reverses exactly the pieces whose bait is on the minus
   strand, C14.)  What is NOT proved here is that remapping completes on every
   PretextView script (decided by the oracle on every run). *)
From Tola Require Proofs.CoreKept Proofs.CoreKeptDeepCut.
Theorem C02_core_kept : forall c g prefix bpt input pretext rs,
  0 <= fst bpt -> 0 < snd bpt ->
  Forall (fun isc => Model.Lookup.pos_rows (snd isc)) input ->
  NoDup (map key_of (Model.RemapSpec.in_frags input)) ->
  Forall (fun b => 1 <= f_start b <= f_end b) (Proofs.CoreKept.baits_of pretext) ->
  Proofs.CoreKept.disjoint_baits (Proofs.CoreKept.baits_of pretext) ->
  remap_to_input c g prefix bpt input pretext = Ok rs ->
  let err := error_length bpt in
  (forall r, In r (b_store (rs_b rs)) ->
     exists src, In (f_name (o_bait r), src) (number_input input 0)
                 /\ In (o_bait r) (Proofs.CoreKept.baits_of pretext)
                 /\ Model.OvrSpec.Inv src r /\ Proofs.CoreKept.core_kept err src r)
  /\ (forall bait src, In bait (Proofs.CoreKept.baits_of pretext) ->
        In (f_name bait, src) (number_input input 0) ->
        (forall r, In r (b_store (rs_b rs)) -> o_bait r <> bait) ->
        forall x, Proofs.CoreKept.in_core err bait x -> ~ Proofs.CoreKept.contig_base src x).
Proof. exact Proofs.CoreKept.core_kept_end_to_end. Qed.
Print Assumptions C02_core_kept.

(* THE LAST CLAUSE in general: two abutting baits of one input scaffold and a
   contig overlapping each of them in at least 3 error lengths: both results
   exist, the first ends exactly at the boundary with the contig's near part
   as its last row, the second starts exactly after it with the far part as
   its first row -- the contig is split exactly at the position the Pretext
   coordinate designates, whatever else the map contains (other cuts of the
   same contig included). *)
Theorem C02_deep_cut_exact : forall g prefix bpt input pretext rs b1 b2 src k f,
  0 <= fst bpt -> 0 < snd bpt ->
  Forall (fun isc => Model.Lookup.pos_rows (snd isc)) input ->
  NoDup (map key_of (Model.RemapSpec.in_frags input)) ->
  Forall (fun b => 1 <= f_start b <= f_end b) (Proofs.CoreKept.baits_of pretext) ->
  Proofs.CoreKept.disjoint_baits (Proofs.CoreKept.baits_of pretext) ->
  remap_to_input repaired g prefix bpt input pretext = Ok rs ->
  let err := error_length bpt in
  In b1 (Proofs.CoreKept.baits_of pretext) -> In b2 (Proofs.CoreKept.baits_of pretext) ->
  f_name b1 = f_name b2 -> f_end b1 + 1 = f_start b2 ->
  In (f_name b1, src) (number_input input 0) ->
  nth_error src k = Some (RF f) ->
  3 * err <= Z.min (f_end b1) (Model.Lookup.span_end src k) - Z.max (f_start b1) (Model.Lookup.span_start src k) + 1 ->
  3 * err <= Z.min (f_end b2) (Model.Lookup.span_end src k) - Z.max (f_start b2) (Model.Lookup.span_start src k) + 1 ->
  exists r1 r2 t1 f1 f2 t2 ls le,
    In r1 (b_store (rs_b rs)) /\ In r2 (b_store (rs_b rs))
    /\ o_bait r1 = b1 /\ o_bait r2 = b2
    /\ o_rows r1 = t1 ++ [RF f1] /\ o_rows r2 = RF f2 :: t2
    /\ o_end r1 = f_end b1 /\ o_start r2 = f_start b2
    /\ Model.OvrSpec.trimmed f f1 ls (Model.Lookup.span_end src k - f_end b1)
    /\ Model.OvrSpec.trimmed f f2 (f_start b2 - Model.Lookup.span_start src k) le.
Proof. exact Proofs.CoreKeptDeepCut.deep_cut_exact_repaired. Qed.
Print Assumptions C02_deep_cut_exact.

(* non-vacuity of both: scaffold A(100) -10- B(200, minus strand) -10- C(100) cut
   by the map 1..200 | 201..420 at a 1-bp texel (error length 2): the hypotheses
   hold, the run completes, B is cut exactly at scaffold coordinate 200 *)
Theorem C02_core_and_cut_instance :
  (Forall (fun isc => Model.Lookup.pos_rows (snd isc)) Proofs.CoreKeptDeepCut.DeepCutExample.input
   /\ NoDup (map key_of (Model.RemapSpec.in_frags Proofs.CoreKeptDeepCut.DeepCutExample.input))
   /\ Forall (fun b => 1 <= f_start b <= f_end b) (Proofs.CoreKept.baits_of Proofs.CoreKeptDeepCut.DeepCutExample.pretext)
   /\ Proofs.CoreKept.disjoint_baits (Proofs.CoreKept.baits_of Proofs.CoreKeptDeepCut.DeepCutExample.pretext)
   /\ exists rs, remap_to_input repaired Proofs.CoreKeptDeepCut.DeepCutExample.g10 (s "SUPER_") (1, 1)
                   Proofs.CoreKeptDeepCut.DeepCutExample.input Proofs.CoreKeptDeepCut.DeepCutExample.pretext = Ok rs).
Proof. exact Proofs.CoreKeptDeepCut.DeepCutExample.hyps. Qed.
Print Assumptions C02_core_and_cut_instance.

(* ========================================================================
   THE FIRST CLAUSE: "for every edit script PretextView can produce remapping
   completes without error".  Maps that TILE every scaffold they show: the
   baits naming one input scaffold, in ascending order, cover 1..E without hole
   or overlap and -- when the scaffold is shown in more than one piece -- every
   piece is at least two texels long; the pieces in ANY order, orientation and
   grouping into Pretext scaffolds; any subset of scaffolds absent; texel size
   n/d >= 1 bp; untagged baits; input with distinct scaffold names, distinct
   contigs, every row >= 1 bp, scaffolds beginning and ending with a contig,
   contigs on strand +1, -1 or 0 and untagged.  Then remap_to_input returns Ok:
   no lookup fails, the "while multi" loop ends, every contig shared by several
   pieces is cut into abutting parts that pass the QC, and re-adding what no
   bait found succeeds.  With C02_core_kept, C02_deep_cut_exact and the C18
   pipeline invariant this is the property's statement for the remapping stage
   of every PretextView-model edit script (the two-texel hypothesis is used: with
   pieces of one texel about 3% of generated scripts end in the QC error). *)
From Tola Require Proofs.Completion.
Theorem C02_completion : forall g prefix n d input pretext,
  0 < d -> d <= n ->
  Forall Proofs.Completion.input_ok input ->
  NoDup (map fst input) ->
  NoDup (map key_of (Model.RemapSpec.in_frags input)) ->
  Forall (fun f => f_tags f = []) (Model.RemapSpec.in_frags input) ->
  Forall (fun p => exists b t, snd p = RF b :: t) pretext ->
  Forall (fun b => f_tags b = [] /\ (f_strand b = 1 \/ f_strand b = -1)
                   /\ In (f_name b) (map fst input)) (Proofs.CoreKept.baits_of pretext) ->
  Forall (Proofs.Completion.scaffold_tiled n d (Proofs.CoreKept.baits_of pretext)) input ->
  exists rs, remap_to_input repaired g prefix (n, d) input pretext = Ok rs.
Proof. exact Proofs.Completion.completion_of_tiling_maps. Qed.
Print Assumptions C02_completion.

(* the hypothesis "input contigs untagged" was FORCED BY THE PROOF: without it the
   statement is false -- a tagged input contig that no bait finds (here: 1 bp beyond
   the last texel, carrying two chromosome-name tags) makes the re-adding step raise
   TaggingError (reproduced on /repo; DESIGN 13.5) *)
Theorem C02_completion_needs_untagged_input : ~ Proofs.Completion.completion_statement.
Proof. exact Proofs.Completion.completion_statement_refuted. Qed.
Print Assumptions C02_completion_needs_untagged_input.

(* non-vacuity: A(100,+) -10- B(300,-) -10- C(100,+), texel 3.5 bp, pieces
   1-200 | 201-350 | 351-520 shown out of order, two of them reversed, in two
   Pretext scaffolds; B spans all three pieces -- obtained by applying the theorem *)
Theorem C02_completion_instance :
  exists rs, remap_to_input repaired Proofs.Completion.ThreePieces.g10 (s "SUPER_") (7, 2)
               Proofs.Completion.ThreePieces.input Proofs.Completion.ThreePieces.pretext = Ok rs.
Proof. exact Proofs.Completion.three_piece_map_completes. Qed.
Print Assumptions C02_completion_instance.

(* ========================================================================
   THE PRETEXT-ORDER CLAUSE and the layout of the output, for EVERY map: the
   results that take part in the output are, in store order, a SUB-SEQUENCE of
   the baits of the map in file order (Pretext scaffolds in file order, baits
   in row order), and every fused output scaffold is the join -- join gap
   between consecutive pieces -- of the pieces carrying its key in that order,
   the left-over scaffolds last.  Hence two pieces that share a destination
   follow each other in Pretext order (pair form below). *)
From Tola Require Proofs.PretextOrder.
Theorem C02_pretext_order : forall g prefix bpt input pretext rs fused,
  remap_to_input repaired g prefix bpt input pretext = Ok rs ->
  fuse_all repaired g rs = Ok fused ->
  exists results,
    mapM (get_ovr (b_store (rs_b rs))) (b_added (rs_b rs)) = Ok results
    /\ Proofs.PretextOrder.subseq (map o_bait results) (Proofs.CoreKept.baits_of pretext)
    /\ let pieces := map piece_of_result results ++ map (fun sc => (sc, false)) (rs_left rs) in
       forall b, In b fused ->
         sc_rows b = Proofs.JoinGaps.join_rows g (map (fun p => sc_rows (fst p))
                       (filter (fun p => match sc_rows (fst p) with
                                         | [] => false
                                         | _ => fuse_key_eqb (Proofs.JoinGaps.piece_key repaired (fst p))
                                                             (Proofs.JoinGaps.piece_key repaired b)
                                         end) pieces)).
Proof. exact Proofs.PretextOrder.pretext_order. Qed.
Print Assumptions C02_pretext_order.

Theorem C02_pretext_order_pairs : forall g prefix bpt input pretext rs fused l1 id1 l2 id2 l3 r1 r2,
  remap_to_input repaired g prefix bpt input pretext = Ok rs ->
  fuse_all repaired g rs = Ok fused ->
  b_added (rs_b rs) = l1 ++ id1 :: l2 ++ id2 :: l3 ->
  get_ovr (b_store (rs_b rs)) id1 = Ok r1 ->
  get_ovr (b_store (rs_b rs)) id2 = Ok r2 ->
  o_rows r1 <> [] -> o_rows r2 <> [] ->
  Proofs.PretextOrder.result_key r1 = Proofs.PretextOrder.result_key r2 ->
  exists results b,
    mapM (get_ovr (b_store (rs_b rs))) (b_added (rs_b rs)) = Ok results
    /\ In b fused /\ Proofs.JoinGaps.piece_key repaired b = Proofs.PretextOrder.result_key r1
    /\ (exists pre mid post,
          sc_rows b = pre ++ to_scaffold_rows r1 ++ mid ++ to_scaffold_rows r2 ++ post)
    /\ (exists p1 p2 p3,
          map o_bait results = p1 ++ o_bait r1 :: p2 ++ o_bait r2 :: p3
          /\ length p1 = length l1 /\ length p2 = length l2)
    /\ Proofs.PretextOrder.subseq (map o_bait results) (Proofs.CoreKept.baits_of pretext)
    /\ (exists q1 q2 q3, Proofs.CoreKept.baits_of pretext = q1 ++ o_bait r1 :: q2 ++ o_bait r2 :: q3).
Proof. exact Proofs.PretextOrder.pretext_order_pairs. Qed.
Print Assumptions C02_pretext_order_pairs.

(* ========================================================================
   THE CAPSTONE: ONE statement about the FINAL output of [remap] -- the
   renamed, sorted assemblies that are written -- for every untagged map that
   tiles the scaffolds it shows (the hypotheses of C02_completion; pieces in
   any order / orientation / grouping, any texel size >= 1 bp, scaffolds absent
   at will): the WHOLE pipeline completes (remapping, fusion, naming, sorting,
   statistics), and every piece with a contig base in its core has a result
   satisfying the C18 invariant against its source scaffold (one contiguous
   collinear run, the input's internal gaps) and core_kept (every contig base
   >= 3 error lengths inside the piece), whose rows -- reversed and
   complemented exactly when the piece is on the minus strand
   (to_scaffold_rows) -- sit as ONE contiguous block in a scaffold of an output
   assembly.  Composes C02_completion, C02_core_kept, C09_routing_end_to_end
   and the totality of the rest of the pipeline (Proofs/EndToEndC02Total.v).
   One hypothesis was FORCED BY THE PROOF: input contigs on strand +1 or -1
   (an unstranded input contig makes make_stats raise; refuted below). *)
From Tola Require Proofs.EndToEndC02.
Theorem C02_end_to_end : forall g prefix n d input pretext,
  0 < d -> d <= n ->
  Forall Proofs.Completion.input_ok input ->
  NoDup (map fst input) ->
  NoDup (map key_of (Model.RemapSpec.in_frags input)) ->
  Forall (fun f => f_tags f = []) (Model.RemapSpec.in_frags input) ->
  Forall (fun f => f_strand f = 1 \/ f_strand f = -1) (Model.RemapSpec.in_frags input) ->
  Forall (fun p => exists b t, snd p = RF b :: t) pretext ->
  Forall (fun b => f_tags b = [] /\ (f_strand b = 1 \/ f_strand b = -1)
                   /\ In (f_name b) (map fst input)) (Proofs.CoreKept.baits_of pretext) ->
  Forall (Proofs.Completion.scaffold_tiled n d (Proofs.CoreKept.baits_of pretext)) input ->
  exists rs o,
    remap_to_input repaired g prefix (n, d) input pretext = Ok rs
    /\ remap repaired g prefix (n, d) input pretext = Ok o
    /\ let err := error_length (n, d) in
       forall bait src x,
         In bait (Proofs.CoreKept.baits_of pretext) ->
         In (f_name bait, src) (number_input input 0) ->
         Proofs.CoreKept.in_core err bait x -> Proofs.CoreKept.contig_base src x ->
         exists r a sc pre suf,
           In r (b_store (rs_b rs)) /\ o_bait r = bait
           /\ Model.OvrSpec.Inv src r /\ Proofs.CoreKept.core_kept err src r
           /\ In a (out_asms o) /\ In sc (oa_scaffolds a)
           /\ sc_rows sc = pre ++ to_scaffold_rows r ++ suf.
Proof. exact Proofs.EndToEndC02.c02_end_to_end. Qed.
Print Assumptions C02_end_to_end.

(* ... and the Pretext-order clause on the final output: two pieces of ONE
   Pretext scaffold, the first before the second in its rows, both with a
   contig base in their cores, lie in the SAME output scaffold in that order *)
Theorem C02_end_to_end_order : forall g prefix n d input pretext,
  0 < d -> d <= n ->
  Forall Proofs.Completion.input_ok input ->
  NoDup (map fst input) ->
  NoDup (map key_of (Model.RemapSpec.in_frags input)) ->
  Forall (fun f => f_tags f = []) (Model.RemapSpec.in_frags input) ->
  Forall (fun f => f_strand f = 1 \/ f_strand f = -1) (Model.RemapSpec.in_frags input) ->
  Forall (fun p => exists b t, snd p = RF b :: t) pretext ->
  Forall (fun b => f_tags b = [] /\ (f_strand b = 1 \/ f_strand b = -1)
                   /\ In (f_name b) (map fst input)) (Proofs.CoreKept.baits_of pretext) ->
  Forall (Proofs.Completion.scaffold_tiled n d (Proofs.CoreKept.baits_of pretext)) input ->
  exists rs o,
    remap_to_input repaired g prefix (n, d) input pretext = Ok rs
    /\ remap repaired g prefix (n, d) input pretext = Ok o
    /\ let err := error_length (n, d) in
       forall pname prows l1 b1 l2 b2 l3 src1 x1 src2 x2,
         In (pname, prows) pretext ->
         frags_of prows = l1 ++ b1 :: l2 ++ b2 :: l3 ->
         In (f_name b1, src1) (number_input input 0) ->
         Proofs.CoreKept.in_core err b1 x1 -> Proofs.CoreKept.contig_base src1 x1 ->
         In (f_name b2, src2) (number_input input 0) ->
         Proofs.CoreKept.in_core err b2 x2 -> Proofs.CoreKept.contig_base src2 x2 ->
         exists r1 r2 a sc pre mid post,
           In r1 (b_store (rs_b rs)) /\ o_bait r1 = b1
           /\ Model.OvrSpec.Inv src1 r1 /\ Proofs.CoreKept.core_kept err src1 r1
           /\ In r2 (b_store (rs_b rs)) /\ o_bait r2 = b2
           /\ Model.OvrSpec.Inv src2 r2 /\ Proofs.CoreKept.core_kept err src2 r2
           /\ In a (out_asms o) /\ In sc (oa_scaffolds a)
           /\ sc_rows sc = pre ++ to_scaffold_rows r1 ++ mid ++ to_scaffold_rows r2 ++ post.
Proof. exact Proofs.EndToEndC02.c02_end_to_end_order. Qed.
Print Assumptions C02_end_to_end_order.

(* without "input contigs stranded" the capstone is false: scaffold [cA(strand 0);
   gap; cB(+)] shown whole -- remap_to_input completes, make_stats raises
   ValueError in junction_tuple on the INPUT assembly (DESIGN 13.5) *)
Theorem C02_end_to_end_needs_stranded_input : ~ Proofs.EndToEndC02.c02_end_to_end_original.
Proof. exact Proofs.EndToEndC02.c02_end_to_end_original_refuted. Qed.
Print Assumptions C02_end_to_end_needs_stranded_input.

(* non-vacuity: the three-piece map of C02_completion_instance run through the capstone *)
Theorem C02_end_to_end_instance :
  exists o, remap repaired Proofs.Completion.ThreePieces.g10 (s "SUPER_") (7, 2)
              Proofs.Completion.ThreePieces.input Proofs.Completion.ThreePieces.pretext = Ok o.
Proof. exact Proofs.EndToEndC02.c02_end_to_end_instance. Qed.
Print Assumptions C02_end_to_end_instance.

(* ========================================================================
   PAINTED MAPS (what a curator really produces: scaffolds painted as
   chromosomes).  C02_completion for tiling maps whose baits are untagged or
   tagged Painted, and the WHOLE pipeline (fusion, chromosome naming by size,
   sorting, statistics) completes as well under three further hypotheses,
   each shown necessary by a computed counterexample: input contigs stranded,
   painted Pretext scaffolds have a non-empty name, no bait name has the shape
   <hap>_<anything>_<digits> (13.5).  No bound on the number of painted
   scaffolds, no condition on input contig names, Pretext scaffold names need
   not be distinct. *)
From Tola Require Proofs.CompletionPainted.
Theorem C02_completion_painted : forall g prefix n d input pretext,
  0 < d -> d <= n ->
  Forall Proofs.Completion.input_ok input -> NoDup (map fst input) ->
  NoDup (map key_of (Model.RemapSpec.in_frags input)) ->
  Forall (fun f => f_tags f = []) (Model.RemapSpec.in_frags input) ->
  Forall (fun p => exists b t, snd p = RF b :: t) pretext ->
  Forall (fun b => (f_tags b = [] \/ f_tags b = [s "Painted"]) /\ (f_strand b = 1 \/ f_strand b = -1)
                   /\ In (f_name b) (map fst input)) (Proofs.CoreKept.baits_of pretext) ->
  Forall (Proofs.Completion.scaffold_tiled n d (Proofs.CoreKept.baits_of pretext)) input ->
  exists rs, remap_to_input repaired g prefix (n, d) input pretext = Ok rs.
Proof. exact Proofs.CompletionPainted.completion_of_painted_tiling_maps. Qed.
Print Assumptions C02_completion_painted.

Theorem C02_painted_maps_complete : forall g prefix n d input pretext,
  0 < d -> d <= n ->
  Forall Proofs.Completion.input_ok input -> NoDup (map fst input) ->
  NoDup (map key_of (Model.RemapSpec.in_frags input)) ->
  Forall (fun f => f_tags f = []) (Model.RemapSpec.in_frags input) ->
  Forall (fun p => exists b t, snd p = RF b :: t) pretext ->
  Forall (fun b => (f_tags b = [] \/ f_tags b = [s "Painted"]) /\ (f_strand b = 1 \/ f_strand b = -1)
                   /\ In (f_name b) (map fst input)) (Proofs.CoreKept.baits_of pretext) ->
  Forall (Proofs.Completion.scaffold_tiled n d (Proofs.CoreKept.baits_of pretext)) input ->
  Forall (fun f => f_strand f = 1 \/ f_strand f = -1) (Model.RemapSpec.in_frags input) ->
  Forall (fun p => Proofs.UniqueNames.painted_b p = true -> fst p <> []) pretext ->
  Proofs.UniqueNames.no_haplotypes pretext ->
  exists o, remap repaired g prefix (n, d) input pretext = Ok o.
Proof. exact Proofs.CompletionPainted.painted_tiling_maps_complete. Qed.
Print Assumptions C02_painted_maps_complete.

Theorem C02_painted_needs_stranded_contigs : ~ Proofs.CompletionPainted.painted_statement false true true.
Proof. exact Proofs.CompletionPainted.painted_tiling_maps_complete_needs_stranded_contigs. Qed.
Theorem C02_painted_needs_named_scaffolds : ~ Proofs.CompletionPainted.painted_statement true false true.
Proof. exact Proofs.CompletionPainted.painted_tiling_maps_complete_needs_named_painted_scaffolds. Qed.
Theorem C02_painted_needs_no_haplotype_names : ~ Proofs.CompletionPainted.painted_statement true true false.
Proof. exact Proofs.CompletionPainted.painted_tiling_maps_complete_needs_no_haplotypes. Qed.
Print Assumptions C02_painted_needs_stranded_contigs.
Print Assumptions C02_painted_needs_named_scaffolds.
Print Assumptions C02_painted_needs_no_haplotype_names.

(* ========================================================================
   THE CAPSTONE FOR PAINTED MAPS (Proofs/EndToEndC02Painted*.v): the same ONE
   statement about the final output of [remap] for tiling maps whose baits are
   untagged or Painted (hypotheses of C02_painted_maps_complete): the whole
   pipeline completes and every piece with a contig base in its core lands,
   whole and oriented, as one block in a scaffold of an output assembly; two
   such pieces of one Pretext scaffold lie in the same output scaffold in
   Pretext order. *)
From Tola Require Proofs.EndToEndC02Painted Proofs.EndToEndC02PaintedRank.
Theorem C02_end_to_end_painted : forall g prefix n d input pretext,
  0 < d -> d <= n ->
  Forall Proofs.Completion.input_ok input -> NoDup (map fst input) ->
  NoDup (map key_of (Model.RemapSpec.in_frags input)) ->
  Forall (fun f => f_tags f = []) (Model.RemapSpec.in_frags input) ->
  Forall (fun p => exists b t, snd p = RF b :: t) pretext ->
  Forall (fun b => (f_tags b = [] \/ f_tags b = [s "Painted"]) /\ (f_strand b = 1 \/ f_strand b = -1)
                   /\ In (f_name b) (map fst input)) (Proofs.CoreKept.baits_of pretext) ->
  Forall (Proofs.Completion.scaffold_tiled n d (Proofs.CoreKept.baits_of pretext)) input ->
  Forall (fun f => f_strand f = 1 \/ f_strand f = -1) (Model.RemapSpec.in_frags input) ->
  Forall (fun p => Proofs.UniqueNames.painted_b p = true -> fst p <> []) pretext ->
  Proofs.UniqueNames.no_haplotypes pretext ->
  exists rs o,
    remap_to_input repaired g prefix (n, d) input pretext = Ok rs
    /\ remap repaired g prefix (n, d) input pretext = Ok o
    /\ let err := error_length (n, d) in
       forall bait src x,
         In bait (Proofs.CoreKept.baits_of pretext) ->
         In (f_name bait, src) (number_input input 0) ->
         Proofs.CoreKept.in_core err bait x -> Proofs.CoreKept.contig_base src x ->
         exists r a sc pre suf,
           In r (b_store (rs_b rs)) /\ o_bait r = bait
           /\ Model.OvrSpec.Inv src r /\ Proofs.CoreKept.core_kept err src r
           /\ In a (out_asms o) /\ In sc (oa_scaffolds a)
           /\ sc_rows sc = pre ++ to_scaffold_rows r ++ suf.
Proof. exact Proofs.EndToEndC02Painted.c02_end_to_end_painted. Qed.
Print Assumptions C02_end_to_end_painted.

Theorem C02_end_to_end_painted_order : forall g prefix n d input pretext,
  0 < d -> d <= n ->
  Forall Proofs.Completion.input_ok input -> NoDup (map fst input) ->
  NoDup (map key_of (Model.RemapSpec.in_frags input)) ->
  Forall (fun f => f_tags f = []) (Model.RemapSpec.in_frags input) ->
  Forall (fun p => exists b t, snd p = RF b :: t) pretext ->
  Forall (fun b => (f_tags b = [] \/ f_tags b = [s "Painted"]) /\ (f_strand b = 1 \/ f_strand b = -1)
                   /\ In (f_name b) (map fst input)) (Proofs.CoreKept.baits_of pretext) ->
  Forall (Proofs.Completion.scaffold_tiled n d (Proofs.CoreKept.baits_of pretext)) input ->
  Forall (fun f => f_strand f = 1 \/ f_strand f = -1) (Model.RemapSpec.in_frags input) ->
  Forall (fun p => Proofs.UniqueNames.painted_b p = true -> fst p <> []) pretext ->
  Proofs.UniqueNames.no_haplotypes pretext ->
  exists rs o,
    remap_to_input repaired g prefix (n, d) input pretext = Ok rs
    /\ remap repaired g prefix (n, d) input pretext = Ok o
    /\ let err := error_length (n, d) in
       forall pname prows l1 b1 l2 b2 l3 src1 x1 src2 x2,
         In (pname, prows) pretext ->
         frags_of prows = l1 ++ b1 :: l2 ++ b2 :: l3 ->
         In (f_name b1, src1) (number_input input 0) ->
         Proofs.CoreKept.in_core err b1 x1 -> Proofs.CoreKept.contig_base src1 x1 ->
         In (f_name b2, src2) (number_input input 0) ->
         Proofs.CoreKept.in_core err b2 x2 -> Proofs.CoreKept.contig_base src2 x2 ->
         exists r1 r2 a sc pre mid post,
           In r1 (b_store (rs_b rs)) /\ o_bait r1 = b1
           /\ Model.OvrSpec.Inv src1 r1 /\ Proofs.CoreKept.core_kept err src1 r1
           /\ In r2 (b_store (rs_b rs)) /\ o_bait r2 = b2
           /\ Model.OvrSpec.Inv src2 r2 /\ Proofs.CoreKept.core_kept err src2 r2
           /\ In a (out_asms o) /\ In sc (oa_scaffolds a)
           /\ sc_rows sc = pre ++ to_scaffold_rows r1 ++ mid ++ to_scaffold_rows r2 ++ post.
Proof. exact Proofs.EndToEndC02Painted.c02_end_to_end_painted_order. Qed.
Print Assumptions C02_end_to_end_painted_order.

(* ... and WHERE a painted piece lands: in a rank-1 scaffold made from its own
   Pretext scaffold, named <prefix><k>[_unloc_<m>] (with the hypotheses of
   C10_chromosome_numbers).  "A painted Pretext scaffold is not named like an
   input scaffold" was FORCED BY THE PROOF (an unpainted Pretext scaffold showing
   input scaffold Xa whole keeps the name Xa at rank 3; a later painted Pretext
   scaffold that is itself called Xa fuses under the same key and inherits rank 3) *)
Theorem C02_end_to_end_painted_named : forall g prefix n d input pretext,
  0 < d -> d <= n ->
  Forall Proofs.Completion.input_ok input -> NoDup (map fst input) ->
  NoDup (map key_of (Model.RemapSpec.in_frags input)) ->
  Forall (fun f => f_tags f = []) (Model.RemapSpec.in_frags input) ->
  Forall (fun p => exists b t, snd p = RF b :: t) pretext ->
  Forall (fun b => (f_tags b = [] \/ f_tags b = [s "Painted"]) /\ (f_strand b = 1 \/ f_strand b = -1)
                   /\ In (f_name b) (map fst input)) (Proofs.CoreKept.baits_of pretext) ->
  Forall (Proofs.Completion.scaffold_tiled n d (Proofs.CoreKept.baits_of pretext)) input ->
  Forall (fun f => f_strand f = 1 \/ f_strand f = -1) (Model.RemapSpec.in_frags input) ->
  Forall (fun p => Proofs.UniqueNames.painted_b p = true -> fst p <> []) pretext ->
  Proofs.UniqueNames.no_haplotypes pretext ->
  Forall (fun p => Proofs.UniqueNames.painted_b p = true -> ~ In (fst p) (map fst input)) pretext ->
  Proofs.UniqueNames.input_namespace_ok prefix input pretext ->
  (length (filter Proofs.UniqueNames.painted_b pretext) <= 191)%nat ->
  Proofs.UniqueNames.no_haplotypes input ->
  NoDup (map fst pretext) ->
  exists rs o,
    remap_to_input repaired g prefix (n, d) input pretext = Ok rs
    /\ remap repaired g prefix (n, d) input pretext = Ok o
    /\ let err := error_length (n, d) in
       forall bait src x,
         In bait (Proofs.CoreKept.baits_of pretext) ->
         In (f_name bait, src) (number_input input 0) ->
         Proofs.CoreKept.in_core err bait x -> Proofs.CoreKept.contig_base src x ->
         f_tags bait = [s "Painted"] ->
         exists r a sc pre suf,
           In r (b_store (rs_b rs)) /\ o_bait r = bait
           /\ Model.OvrSpec.Inv src r /\ Proofs.CoreKept.core_kept err src r
           /\ In a (out_asms o) /\ In sc (oa_scaffolds a)
           /\ sc_rows sc = pre ++ to_scaffold_rows r ++ suf
           /\ sc_rank sc = 1
           /\ (exists pname prows, In (pname, prows) pretext /\ In bait (frags_of prows)
                                   /\ sc_orig sc = Some pname)
           /\ exists k sfx, sc_name sc = prefix ++ Py.Dec.str_of_Z (Z.of_nat k + 1) ++ sfx
                            /\ Proofs.UniqueNames.unloc_sfx sfx = true.
Proof. exact Proofs.EndToEndC02PaintedRank.c02_end_to_end_painted_named. Qed.
Print Assumptions C02_end_to_end_painted_named.

Theorem C02_painted_rank_needs_fresh_names : ~ Proofs.EndToEndC02PaintedRank.painted_rank_statement false.
Proof. exact Proofs.EndToEndC02PaintedRank.painted_rank_needs_fresh_names. Qed.
Print Assumptions C02_painted_rank_needs_fresh_names.

(* ========================================================================
   TAGGED MAPS: the FIRST half of the pipeline (remap_to_input: lookups,
   labelling, overhang resolution, cuts, QC, renaming of haplotigs / unlocs,
   left-overs) completes on every TILING map whose tags are CONSISTENT per
   Pretext scaffold -- at most one chromosome-name tag, at most one haplotype
   tag, Primary only together with a haplotype tag, Unloc only in a painted
   scaffold; any of Painted / Target / Haplotig / Contaminant / FalseDuplicate /
   Singleton / Cut besides.  A decidable condition on the tags alone
   (Proofs.CompletionTagged.scaffold_tags_consistentb), each clause shown
   necessary by a computed run that ends in TaggingError / ValueError.  (The
   second half -- pairing chromosomes of several haplotypes -- legitimately
   refuses badly paired maps; for Painted maps see C02_painted_maps_complete.) *)
From Tola Require Proofs.CompletionTagged.
Theorem C02_completion_tagged : forall g prefix n d input pretext,
  0 < d -> d <= n ->
  Forall Proofs.Completion.input_ok input -> NoDup (map fst input) ->
  NoDup (map key_of (Model.RemapSpec.in_frags input)) ->
  Forall (fun f => f_tags f = []) (Model.RemapSpec.in_frags input) ->
  Forall (fun p => exists b t, snd p = RF b :: t) pretext ->
  Forall (fun b => (f_strand b = 1 \/ f_strand b = -1) /\ In (f_name b) (map fst input))
         (Proofs.CoreKept.baits_of pretext) ->
  Forall (fun p => Proofs.CompletionTagged.scaffold_tags_consistent (map f_tags (frags_of (snd p)))) pretext ->
  Forall (Proofs.Completion.scaffold_tiled n d (Proofs.CoreKept.baits_of pretext)) input ->
  exists rs, remap_to_input repaired g prefix (n, d) input pretext = Ok rs.
Proof. exact Proofs.CompletionTagged.completion_of_tagged_tiling_maps. Qed.
Print Assumptions C02_completion_tagged.

Theorem C02_tagged_needs_one_name_tag :
  ~ Proofs.CompletionTagged.tagged_statement
      (fun ls => Proofs.CompletionTagged.one_hap_tag (concat ls) /\ Proofs.CompletionTagged.primary_has_hap (concat ls)
                 /\ Proofs.CompletionTagged.unloc_is_painted ls).
Proof. exact Proofs.CompletionTagged.completion_tagged_needs_one_name_tag. Qed.
Theorem C02_tagged_needs_one_hap_tag :
  ~ Proofs.CompletionTagged.tagged_statement
      (fun ls => Proofs.CompletionTagged.one_name_tag (concat ls) /\ Proofs.CompletionTagged.primary_has_hap (concat ls)
                 /\ Proofs.CompletionTagged.unloc_is_painted ls).
Proof. exact Proofs.CompletionTagged.completion_tagged_needs_one_hap_tag. Qed.
Theorem C02_tagged_needs_primary_has_hap :
  ~ Proofs.CompletionTagged.tagged_statement
      (fun ls => Proofs.CompletionTagged.one_name_tag (concat ls) /\ Proofs.CompletionTagged.one_hap_tag (concat ls)
                 /\ Proofs.CompletionTagged.unloc_is_painted ls).
Proof. exact Proofs.CompletionTagged.completion_tagged_needs_primary_has_hap. Qed.
Theorem C02_tagged_needs_unloc_is_painted :
  ~ Proofs.CompletionTagged.tagged_statement
      (fun ls => Proofs.CompletionTagged.one_name_tag (concat ls) /\ Proofs.CompletionTagged.one_hap_tag (concat ls)
                 /\ Proofs.CompletionTagged.primary_has_hap (concat ls)).
Proof. exact Proofs.CompletionTagged.completion_tagged_needs_unloc_is_painted. Qed.
Print Assumptions C02_tagged_needs_one_name_tag.
Print Assumptions C02_tagged_needs_one_hap_tag.
Print Assumptions C02_tagged_needs_primary_has_hap.
Print Assumptions C02_tagged_needs_unloc_is_painted.

(* non-vacuity: a two-haplotype map -- Painted+HAP1+X, an Unloc piece, a reversed
   Haplotig piece, Painted+HAP2, a Contaminant piece, Painted+HAP1, one untagged
   scaffold -- meets every hypothesis; run through the theorem *)
Theorem C02_completion_tagged_instance :
  exists rs, remap_to_input repaired Proofs.CompletionTagged.TwoHaps.g10 (s "SUPER_") (7, 2)
               Proofs.CompletionTagged.TwoHaps.input Proofs.CompletionTagged.TwoHaps.pretext = Ok rs.
Proof. exact Proofs.CompletionTagged.two_haplotype_map_completes. Qed.
Print Assumptions C02_completion_tagged_instance.

(* ========================================================================
   THE LANDING CLAUSE FOR ANY TAGS (haplotypes, Unloc, Haplotig, Contaminant,
   name tags ...): on every map that tiles the scaffolds it shows, whenever the
   whole run completes, every piece with a contig base in its core has a result
   (C18 invariant, core_kept) whose rows sit as ONE contiguous block in a
   scaffold of an output assembly, carrying the result's tag and haplotype --
   the capstone's steps never look at tags.  Completion itself:
   C02_completion_tagged (first half), C02_painted_maps_complete (all of it). *)
From Tola Require Proofs.EndToEndC02AnyTags.
Theorem C02_cores_land_any_tags : forall g prefix n d input pretext o,
  0 < d -> d <= n ->
  Forall Proofs.Completion.input_ok input -> NoDup (map fst input) ->
  NoDup (map key_of (Model.RemapSpec.in_frags input)) ->
  Forall (fun b => In (f_name b) (map fst input)) (Proofs.CoreKept.baits_of pretext) ->
  Forall (Proofs.Completion.scaffold_tiled n d (Proofs.CoreKept.baits_of pretext)) input ->
  remap repaired g prefix (n, d) input pretext = Ok o ->
  exists rs,
    remap_to_input repaired g prefix (n, d) input pretext = Ok rs
    /\ let err := error_length (n, d) in
       forall bait src x,
         In bait (Proofs.CoreKept.baits_of pretext) ->
         In (f_name bait, src) (number_input input 0) ->
         Proofs.CoreKept.in_core err bait x -> Proofs.CoreKept.contig_base src x ->
         exists r a sc pre suf,
           In r (b_store (rs_b rs)) /\ o_bait r = bait
           /\ Model.OvrSpec.Inv src r /\ Proofs.CoreKept.core_kept err src r
           /\ In a (out_asms o) /\ In sc (oa_scaffolds a)
           /\ sc_rows sc = pre ++ to_scaffold_rows r ++ suf
           /\ sc_tag sc = o_tag r /\ sc_hap sc = o_hap r.
Proof. exact Proofs.EndToEndC02AnyTags.c02_cores_land_any_tags. Qed.
Print Assumptions C02_cores_land_any_tags.

(* ========================================================================
   TWO HAPLOTYPES, the WHOLE pipeline: on every tiling map painted and tagged
   as the curation discipline asks -- every bait of Pretext scaffold nm carries
   exactly [Painted; hap(nm)], the haplotypes alternate h1, h2, h1, h2, ... down
   the map (each H1 chromosome followed by its H2 homologue), h1 and h2 differ
   beyond letter case, scaffold names non-empty and pairwise different, every
   Pretext scaffold has a piece with a contig base in its core -- the whole of
   [remap] completes (the chromosome namer pairs the homologues and raises
   nothing).  The pairing is needed: HAP1, HAP1, HAP2 ends in ChrNamerError
   although the first half completes. *)
From Tola Require Proofs.CompletionTwoHaps.
Theorem C02_two_haplotype_maps_complete :
  forall g prefix n d input pretext h1 h2 (hapf : str -> str) k,
  0 < d -> d <= n ->
  Forall Proofs.Completion.input_ok input -> NoDup (map fst input) ->
  NoDup (map key_of (Model.RemapSpec.in_frags input)) ->
  Forall (fun f => f_tags f = []) (Model.RemapSpec.in_frags input) ->
  Forall (fun f => f_strand f = 1 \/ f_strand f = -1) (Model.RemapSpec.in_frags input) ->
  Forall (fun p => exists b t, snd p = RF b :: t) pretext ->
  Forall (fun b => (f_strand b = 1 \/ f_strand b = -1) /\ In (f_name b) (map fst input))
         (Proofs.CoreKept.baits_of pretext) ->
  Forall (Proofs.Completion.scaffold_tiled n d (Proofs.CoreKept.baits_of pretext)) input ->
  lower h1 <> lower h2 ->
  Proofs.CompletionTagged.is_hap_tag h1 = true -> Proofs.CompletionTagged.is_hap_tag h2 = true ->
  Proofs.CompletionTwoHaps.hap_baits hapf pretext ->
  map hapf (map fst pretext) = Proofs.CompletionTwoHapsGlue.alternating h1 h2 (S k) ->
  NoDup (map fst pretext) -> Forall (fun p => fst p <> []) pretext ->
  Forall (fun p => exists b src x, In b (frags_of (snd p)) /\ In (f_name b, src) (number_input input 0)
                     /\ Proofs.CoreKept.in_core (error_length (n, d)) b x /\ Proofs.CoreKept.contig_base src x) pretext ->
  exists o, remap repaired g prefix (n, d) input pretext = Ok o.
Proof. exact Proofs.CompletionTwoHaps.two_haplotype_maps_complete. Qed.
Print Assumptions C02_two_haplotype_maps_complete.

Theorem C02_two_haplotype_maps_need_pairing :
  (exists rs, remap_to_input repaired Proofs.CompletionTwoHaps.TwoHapEx.g10 (s "SUPER_") (2, 1)
                Proofs.CompletionTwoHaps.TwoHapEx.input3 Proofs.CompletionTwoHaps.TwoHapEx.pretext_bad = Ok rs)
  /\ remap repaired Proofs.CompletionTwoHaps.TwoHapEx.g10 (s "SUPER_") (2, 1)
       Proofs.CompletionTwoHaps.TwoHapEx.input3 Proofs.CompletionTwoHaps.TwoHapEx.pretext_bad = Err ChrNamerError.
Proof. exact Proofs.CompletionTwoHaps.two_haplotype_maps_need_pairing. Qed.
Print Assumptions C02_two_haplotype_maps_need_pairing.

Theorem C02_two_haplotype_instance :
  exists o, remap repaired Proofs.CompletionTwoHaps.TwoHapEx.g10 (s "SUPER_") (2, 1)
              Proofs.CompletionTwoHaps.TwoHapEx.input Proofs.CompletionTwoHaps.TwoHapEx.pretext_ok = Ok o.
Proof. exact Proofs.CompletionTwoHaps.two_pair_map_completes_by_theorem. Qed.
Print Assumptions C02_two_haplotype_instance.
