(* C14 -- Reversal and reverse-complement are involutions that commute with
   output.  Only statements, each closed by [exact] of a lemma from Proofs/. *)
From Tola Require Import Py.Base Model.Fragment Model.Scaffold Model.Fasta Model.FastaSpec
  Proofs.Chunks Proofs.StreamFinal.
From Tola Require Model.Stream Proofs.Stream.

(* reversing a scaffold twice gives back the original rows *)
Theorem C14_rows_reverse_involutive : forall rows, rows_reverse (rows_reverse rows) = rows.
Proof. exact rows_reverse_involutive. Qed.
Print Assumptions C14_rows_reverse_involutive.

(* one reversal preserves row count and length, inverts the row order ... *)
Theorem C14_rows_reverse_spec : forall rows,
  length (rows_reverse rows) = length rows
  /\ rows_len (rows_reverse rows) = rows_len rows
  /\ forall k r, nth_error rows k = Some r ->
       nth_error (rows_reverse rows) (length rows - 1 - k)%nat = Some (row_reverse r).
Proof. exact rows_reverse_spec. Qed.
Print Assumptions C14_rows_reverse_spec.

(* ... keeps gap rows, contig intervals, names and tags and negates every strand *)
Theorem C14_row_reverse_spec : forall r,
  match r, row_reverse r with
  | RF f, RF g => f_name g = f_name f /\ f_start g = f_start f /\ f_end g = f_end f
                  /\ f_tags g = f_tags f /\ f_strand g = - f_strand f
  | RG g, RG h => h = g
  | _, _ => False
  end.
Proof. exact row_reverse_spec. Qed.
Print Assumptions C14_row_reverse_spec.

(* the complement table is an involution on all 256 byte values, and the
   reverse complement of any byte string, applied twice, is the identity *)
Theorem C14_complement_involutive : forall c, complement (complement c) = c.
Proof. exact complement_involutive. Qed.
Print Assumptions C14_complement_involutive.

Theorem C14_revcomp_involutive : forall x, reverse_complement (reverse_complement x) = x.
Proof. exact reverse_complement_involutive. Qed.
Print Assumptions C14_revcomp_involutive.

Theorem C14_revcomp_app : forall a b,
  reverse_complement (a ++ b) = reverse_complement b ++ reverse_complement a.
Proof. exact reverse_complement_app. Qed.
Print Assumptions C14_revcomp_app.

(* what the minus-strand iterator delivers is the reverse complement of what
   the forward iterator delivers, for every buffer size >= 1; chunk by chunk it
   is the forward chunk list reversed with each chunk reverse-complemented *)
Theorem C14_rev_chunks_is_revcomp_of_fwd : forall file buf i residues s e cf cr,
  good_access file i residues -> 1 <= buf -> 1 <= s -> s <= e -> e <= zlen residues ->
  fwd_chunks file buf i s e = Ok cf -> rev_chunks file buf i s e = Ok cr ->
  concat cr = reverse_complement (concat cf).
Proof. exact rev_chunks_is_revcomp_of_fwd. Qed.
Print Assumptions C14_rev_chunks_is_revcomp_of_fwd.

Theorem C14_rev_chunks_chunkwise : forall file buf i residues s e cf cr,
  good_access file i residues -> 1 <= buf -> 1 <= s -> s <= e -> e <= zlen residues ->
  fwd_chunks file buf i s e = Ok cf -> rev_chunks file buf i s e = Ok cr ->
  cr = rev (map reverse_complement cf).
Proof. exact rev_chunks_chunkwise. Qed.
Print Assumptions C14_rev_chunks_chunkwise.

(* Streaming a reversed scaffold yields the header followed by the wrapped
   reverse complement of the body streamed for the original, for every buffer
   size and line length, for rows whose fragments have strand +1 or -1 and a
   gap character that is its own complement (N is).  Strand 0 is excluded: see
   C14_strand0_refuted. *)
Theorem C14_stream_reverse : forall file idx seqs buf L gap_char name rows body,
  1 <= buf -> (1 <= L)%nat ->
  Proofs.Stream.seqs_accessible file idx seqs ->
  gaps_nonneg rows ->
  complement gap_char = gap_char ->
  Forall (fun r => match r with RF f => f_strand f = 1 \/ f_strand f = -1 | RG _ => True end) rows ->
  rows_bytes seqs gap_char rows = Some body ->
  Model.Stream.write_scaffold file idx buf (Z.of_nat L) gap_char name (rows_reverse rows)
  = Ok (GT :: name ++ LF :: wrap_body L (reverse_complement body)).
Proof. exact stream_reverse. Qed.
Print Assumptions C14_stream_reverse.

(* the known finding: a strand-0 fragment is unchanged by reversal (hence read
   forward in both orientations) *)
Theorem C14_strand0_refuted :
  exists f, f_strand f = 0 /\ frag_reverse f = f.
Proof. exists (mkFrag 0 (s "a") 1 4 0 []). split; reflexivity. Qed.
Print Assumptions C14_strand0_refuted.

(* non-vacuity: good_access holds for a concrete file (Proofs/Chunks.v) *)
Theorem C14_good_access_satisfiable : good_access ex_file ex_info ex_residues.
Proof. exact ex_good_access. Qed.
Print Assumptions C14_good_access_satisfiable.
