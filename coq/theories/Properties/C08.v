(* C08 -- An unedited Pretext map reproduces the input assembly.
   Only statements, each closed by [exact] of a lemma from Proofs/.  The first
   theorem is the property end to end through the whole pipeline model; the
   others are the ingredients it is built from. *)
From Tola Require Import Py.Base Model.Fragment Model.Scaffold Model.Lookup Model.OverlapResult
  Model.Namer Model.Remap Proofs.NullMapAndCuts Proofs.Junctions.
From Tola Require Proofs.NullMap.
From Coq Require Import Permutation.

(* END TO END.  [null_map n d input ptx]: the Pretext map presents input
   scaffolds whole, forward, unpainted and untagged, each as a bait [1, E]
   whose end E reaches into the scaffold's last row and falls short of (or
   overshoots) the scaffold end by less than one texel n/d; any subset of the
   scaffolds may be absent from the map (not only sub-texel ones).  For every
   such map over every input of well-formed scaffolds (sc_ok: non-empty, first
   and last rows fragments, positive lengths, untagged stranded contigs, no
   haplotype prefix in the names) with distinct scaffold names and distinct
   contigs, for every texel size: remapping succeeds, the ONLY output assembly
   is the primary one, it is flagged curated, cuts = breaks = joins = 0, every
   per-assembly count is (0, 0), and its scaffolds are exactly the input's
   (same names; same fragments, gaps, order and orientation of rows -- row
   ids, the model's stand-in for Python object identity, erased), unplaced
   (rank 3), untagged, without haplotype. *)
Theorem C08_null_map_identity : forall g prefix n d input ptx,
  0 <= n -> 0 < d -> input <> [] ->
  NoDup (map fst input) -> Forall Proofs.NullMap.sc_ok input ->
  NoDup (map key_of (flat_map (fun p => frags_of (snd p)) input)) ->
  Proofs.NullMap.null_map n d input ptx ->
  exists scs per,
    remap repaired g prefix (n, d) input ptx = Ok (mkOut [mkOutAsm None true scs] 0 0 0 per)
    /\ Forall (fun p => snd p = (0, 0)) per
    /\ Permutation (map (fun sc => (sc_name sc, map Proofs.NullMap.erase_id (sc_rows sc))) scs)
                   (map (fun p => (fst p, map Proofs.NullMap.erase_id (snd p))) input)
    /\ Forall (fun sc => sc_tag sc = None /\ sc_hap sc = None /\ sc_rank sc = 3) scs.
Proof. exact Proofs.NullMap.null_map_identity. Qed.
Print Assumptions C08_null_map_identity.

(* the hypotheses are satisfiable: three scaffolds, the middle one absent from
   the map and containing two consecutive gap rows, a reverse-strand contig *)
Theorem C08_hypotheses_satisfiable :
  Proofs.NullMap.ok_input <> [] /\ NoDup (map fst Proofs.NullMap.ok_input)
  /\ Forall Proofs.NullMap.sc_ok Proofs.NullMap.ok_input
  /\ NoDup (map key_of (flat_map (fun p => frags_of (snd p)) Proofs.NullMap.ok_input))
  /\ Proofs.NullMap.null_map 10 1 Proofs.NullMap.ok_input Proofs.NullMap.ok_ptx
  /\ ~ Proofs.NullMap.no_gap_pair (snd (nth 1 Proofs.NullMap.ok_input ([], []))).
Proof. exact Proofs.NullMap.null_map_hypotheses_satisfiable. Qed.
Print Assumptions C08_hypotheses_satisfiable.

(* before the fix: commit the re-adding of an absent scaffold kept only the
   last gap of a run of consecutive gap rows, so the identity failed *)
Theorem C08_legacy_refuted :
  0 <= 10 /\ 0 < 1 /\ Proofs.NullMap.cex_input <> []
  /\ NoDup (map fst Proofs.NullMap.cex_input) /\ Forall Proofs.NullMap.sc_ok Proofs.NullMap.cex_input
  /\ NoDup (map key_of (flat_map (fun p => frags_of (snd p)) Proofs.NullMap.cex_input))
  /\ Proofs.NullMap.null_map 10 1 Proofs.NullMap.cex_input Proofs.NullMap.cex_ptx
  /\ exists o, remap (mkCfg true true true true false) (mkGap 200 (s "scaffold")) (s "SUPER_") (10, 1)
                     Proofs.NullMap.cex_input Proofs.NullMap.cex_ptx = Ok o
     /\ map (fun sc => (sc_name sc, map Proofs.NullMap.erase_id (sc_rows sc))) (flat_map oa_scaffolds (out_asms o))
        = [ (s "scaffold_1", [Proofs.NullMap.cex_F "ctg1" 1 100 1; RG (mkGap 50 (s "scaffold")); Proofs.NullMap.cex_F "ctg2" 1 200 (-1)]);
            (s "scaffold_2", [Proofs.NullMap.cex_F "ctg3" 1 5 1; RG (mkGap 3 (s "y")); Proofs.NullMap.cex_F "ctg4" 1 3 1]) ].
Proof. exact Proofs.NullMap.null_map_legacy_refuted. Qed.
Print Assumptions C08_legacy_refuted.

(* a bait [1, E] whose end lies inside or beyond the last row of a scaffold
   without terminal gaps returns ALL its rows, with start 1 and end = length *)
Theorem C08_whole_scaffold_bait : forall rows E,
  rows <> [] -> pos_rows rows ->
  (exists f t, rows = RF f :: t) -> (exists f t, rows = t ++ [RF f]) ->
  rows_len (removelast rows) < E ->
  find_overlaps rows 1 E = Ok (Some (mkFound 1 (rows_len rows) rows)).
Proof. exact whole_scaffold_bait. Qed.
Print Assumptions C08_whole_scaffold_bait.

(* nothing is trimmed when the bait end is within one error length of the scaffold end *)
Theorem C08_trim_large_noop : forall bait fo err,
  f_start bait = fo_start fo -> 0 <= err -> fo_end fo - f_end bait <= err ->
  trim_large_overhangs (ovr_of_found bait fo) err = Ok (ovr_of_found bait fo).
Proof. exact trim_large_noop. Qed.
Print Assumptions C08_trim_large_noop.

(* combined, for every texel size n/d and Pretext's rounding of the scaffold
   end by less than one texel: the overlap result is the whole scaffold *)
Theorem C08_null_bait_result : forall rows name E strand tags n d,
  rows <> [] -> pos_rows rows -> (exists f t, rows = RF f :: t) -> (exists f t, rows = t ++ [RF f]) ->
  1 <= E -> rows_len (removelast rows) < E -> 0 <= n -> 0 < d ->
  d * (rows_len rows - E) < n ->
  let bait := mkFrag (-1) name 1 E strand tags in
  exists fo, find_overlaps rows 1 E = Ok (Some fo) /\ fo_rows fo = rows /\ fo_start fo = 1
    /\ fo_end fo = rows_len rows
    /\ trim_large_overhangs (ovr_of_found bait fo) (error_length (n, d)) = Ok (ovr_of_found bait fo).
Proof. exact null_bait_result. Qed.
Print Assumptions C08_null_bait_result.

(* unchanged scaffolds have unchanged junction sets (also when presented
   reversed), so the statistics see no break and no join *)
Theorem C08_junction_set_reverse : forall rows js jr,
  Forall pm (frags_of rows) ->
  junction_set repaired rows = Ok js -> junction_set repaired (rows_reverse rows) = Ok jr ->
  forall j, In j js <-> In j jr.
Proof. exact junction_set_reverse. Qed.
Print Assumptions C08_junction_set_reverse.

(* non-vacuity *)
Example C08_example :
  let rows := [RF (mkFrag 0 (s "c1") 1 1000 1 []); RG (mkGap 200 (s "scaffold")); RF (mkFrag 1 (s "c2") 1 30 (-1) [])] in
  find_overlaps rows 1 1221 = Ok (Some (mkFound 1 1230 rows)) /\ error_length (198700, 10000) = 20.
Proof. vm_compute. split; reflexivity. Qed.

(* ---- "Painting every scaffold changes only names (prefix + rank by size)
   and order, not content."  END TO END through [remap]: the same null maps
   with every bait tagged Painted (Pretext scaffold names pairwise distinct
   and not the names of input scaffolds absent from the map -- both shown
   necessary by computed counterexamples in Proofs/NullMapPainted.v), in ANY
   Pretext order: still one primary curated assembly and zero statistics; the
   multiset of row lists is the input's; the scaffolds shown in the map are the
   autosomes prefix1 .. prefixk, rank 1, numbered by non-increasing SEQUENCE
   length (gaps not counted), ties in Pretext order, each the rows of the
   scaffold it paints; absent scaffolds keep name and rows at rank 3. *)
From Tola Require Proofs.NullMapPainted Proofs.Naming Py.Sort Py.Dec.
Theorem C08_painted_null_map : forall g prefix n d input ptx,
  0 <= n -> 0 < d -> input <> [] ->
  NoDup (map fst input) -> Forall Proofs.NullMap.sc_ok input ->
  NoDup (map key_of (flat_map (fun p => frags_of (snd p)) input)) ->
  NoDup (map fst ptx) ->
  Proofs.NullMapPainted.pnames_fresh input ptx ->
  Proofs.NullMapPainted.painted_null_map_any n d input ptx ->
  exists scs per,
    remap repaired g prefix (n, d) input ptx = Ok (mkOut [mkOutAsm None true scs] 0 0 0 per)
    /\ Forall (fun p => snd p = (0, 0)) per
    /\ Permutation (map (fun sc => map Proofs.NullMap.erase_id (sc_rows sc)) scs)
                   (map (fun p => map Proofs.NullMap.erase_id (snd p)) input)
    /\ Forall (fun sc => sc_tag sc = None /\ sc_hap sc = None) scs
    /\ exists pieces present absent,
         Permutation scs (present ++ absent)
         /\ Forall2 (Proofs.NullMapPainted.piece_for input) pieces ptx
         /\ Forall2 Proofs.Naming.same_but_name
                    (Py.Sort.sort_by_Z_desc Proofs.NullMapPainted.seq_len pieces) present
         /\ map sc_name present
            = map (fun i => prefix ++ Py.Dec.str_of_Z (Z.of_nat i)) (seq 1 (length present))
         /\ length present = length ptx
         /\ Forall (fun sc => sc_rank sc = 1) present
         /\ Proofs.NullMapPainted.Sorted_desc (map Proofs.NullMapPainted.seq_len present)
         /\ (forall z, map sc_orig (filter (fun sc => Proofs.NullMapPainted.seq_len sc =? z) present)
                       = map sc_orig (filter (fun sc => Proofs.NullMapPainted.seq_len sc =? z) pieces))
         /\ Forall (Proofs.NullMapPainted.absent_ok input ptx) absent.
Proof. exact Proofs.NullMapPainted.painted_null_map_identity_any. Qed.
Print Assumptions C08_painted_null_map.

(* non-vacuity, and the tie rule on a concrete map: two 300 bp scaffolds shown
   in reverse input order -- the one first in the MAP gets number 1 *)
Theorem C08_painted_tie_break :
  Proofs.NullMapPainted.painted_null_map_any 10 1 Proofs.NullMapPainted.tie_input Proofs.NullMapPainted.tie_ptx
  /\ exists scs per,
       remap repaired Proofs.NullMapPainted.pi_gap (s "SUPER_") (10, 1)
             Proofs.NullMapPainted.tie_input Proofs.NullMapPainted.tie_ptx
         = Ok (mkOut [mkOutAsm None true scs] 0 0 0 per)
       /\ map Proofs.NullMapPainted.view_sc scs
          = [ (s "SUPER_1", [Proofs.NullMap.cex_F "ctg5" 1 300 1], 1, Some (s "Scaffold_2"));
              (s "SUPER_2", [Proofs.NullMap.cex_F "ctg3" 1 300 1], 1, Some (s "Scaffold_3"));
              (s "SUPER_3", [Proofs.NullMap.cex_F "ctg1" 1 100 1], 1, Some (s "Scaffold_1")) ].
Proof. exact Proofs.NullMapPainted.painted_tie_break_instance. Qed.
Print Assumptions C08_painted_tie_break.
