(* C08 -- An unedited Pretext map reproduces the input assembly.
   Only statements, each closed by [exact] of a lemma from Proofs/.  PARTIAL:
   proved here are the ingredients that make a null map a no-op for each
   scaffold; the end-to-end identity (names, order, single primary assembly,
   zero statistics) is decided by the correspondence of the whole pipeline
   model and the oracle on every run. *)
From Tola Require Import Py.Base Model.Fragment Model.Scaffold Model.Lookup Model.OverlapResult
  Model.Namer Model.Remap Proofs.NullMapAndCuts Proofs.Junctions.

(* a bait [1, E] whose end lies inside or beyond the last row of a scaffold
   without terminal gaps returns ALL its rows, with start 1 and end = length *)
Theorem C08_whole_scaffold_bait : forall rows E,
  rows <> [] -> pos_rows rows ->
  (exists f t, rows = RF f :: t) -> (exists f t, rows = t ++ [RF f]) ->
  rows_len (removelast rows) < E ->
  find_overlaps rows 1 E = Ok (Some (mkFound 1 (rows_len rows) rows)).
Proof. exact whole_scaffold_bait. Qed.
Print Assumptions C08_whole_scaffold_bait.

(* nothing is trimmed when the bait end is within one error length of the scaffold end *)
Theorem C08_trim_large_noop : forall bait fo err,
  f_start bait = fo_start fo -> 0 <= err -> fo_end fo - f_end bait <= err ->
  trim_large_overhangs (ovr_of_found bait fo) err = Ok (ovr_of_found bait fo).
Proof. exact trim_large_noop. Qed.
Print Assumptions C08_trim_large_noop.

(* combined, for every texel size n/d and Pretext's rounding of the scaffold
   end by less than one texel: the overlap result is the whole scaffold *)
Theorem C08_null_bait_result : forall rows name E strand tags n d,
  rows <> [] -> pos_rows rows -> (exists f t, rows = RF f :: t) -> (exists f t, rows = t ++ [RF f]) ->
  1 <= E -> rows_len (removelast rows) < E -> 0 <= n -> 0 < d ->
  d * (rows_len rows - E) < n ->
  let bait := mkFrag (-1) name 1 E strand tags in
  exists fo, find_overlaps rows 1 E = Ok (Some fo) /\ fo_rows fo = rows /\ fo_start fo = 1
    /\ fo_end fo = rows_len rows
    /\ trim_large_overhangs (ovr_of_found bait fo) (error_length (n, d)) = Ok (ovr_of_found bait fo).
Proof. exact null_bait_result. Qed.
Print Assumptions C08_null_bait_result.

(* unchanged scaffolds have unchanged junction sets (also when presented
   reversed), so the statistics see no break and no join *)
Theorem C08_junction_set_reverse : forall rows js jr,
  Forall pm (frags_of rows) ->
  junction_set repaired rows = Ok js -> junction_set repaired (rows_reverse rows) = Ok jr ->
  forall j, In j js <-> In j jr.
Proof. exact junction_set_reverse. Qed.
Print Assumptions C08_junction_set_reverse.

(* non-vacuity *)
Example C08_example :
  let rows := [RF (mkFrag 0 (s "c1") 1 1000 1 []); RG (mkGap 200 (s "scaffold")); RF (mkFrag 1 (s "c2") 1 30 (-1) [])] in
  find_overlaps rows 1 1221 = Ok (Some (mkFound 1 1230 rows)) /\ error_length (198700, 10000) = 20.
Proof. vm_compute. split; reflexivity. Qed.
