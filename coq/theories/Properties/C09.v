(* C09 -- placeholder until the lemmas land *)
From Tola Require Import Py.Base Model.Fragment Model.Scaffold Model.Namer Model.Remap.

Lemma C09_label_example :
  match label_scaffold (new_namer (s "SUPER_")) 0 [s "Painted"; s "Contaminant"; s "Haplotig"] [s "Painted"] with
  | Ok (_, l) => lb_tag l = Some (s "Haplotig") /\ lb_rank l = 3
  | Err _ => False
  end.
Proof. vm_compute. split; reflexivity. Qed.
Print Assumptions C09_label_example.
