(* C09 -- Tags route sequence to the documented destination assembly.
   Only statements, each closed by [exact] of a lemma from Proofs/Routing.v. *)
From Tola Require Import Py.Base Model.Fragment Model.Scaffold Model.Namer Model.Remap
  Proofs.Routing.

(* which tag a piece gets: FalseDuplicate > Haplotig > Contaminant (explicit, or
   Target mode active and the Pretext scaffold has no Target tag) > none; its
   haplotype is the current one; a tagged piece is unplaced (rank 3) *)
Theorem C09_label_tag_spec : forall nm id ft st nm' l,
  label_scaffold nm id ft st = Ok (nm', l) ->
  lb_tag l = expected_tag (nm_target nm) ft st
  /\ lb_hap l = nm_cur_hap nm
  /\ (lb_tag l <> None -> lb_rank l = 3)
  /\ nm_target nm' = nm_target nm /\ nm_cur_hap nm' = nm_cur_hap nm
  /\ nm_cur_name nm' = nm_cur_name nm /\ nm_cur_rank nm' = nm_cur_rank nm.
Proof. exact label_tag_spec. Qed.
Print Assumptions C09_label_tag_spec.

(* labelling fails only for an Unloc piece in an unpainted scaffold (an error,
   not a misrouting) *)
Theorem C09_label_fails_only_unloc_unpainted : forall nm id ft st,
  label_scaffold nm id ft st = Err ValueError <->
  (mem_str (s "FalseDuplicate") ft = false /\ mem_str (s "Haplotig") ft = false
   /\ mem_str (s "Unloc") ft = true /\ mem_str (s "Painted") st = false).
Proof. exact label_fails_only_unloc_unpainted. Qed.
Print Assumptions C09_label_fails_only_unloc_unpainted.

(* once a Target tag has been seen, Target mode stays on for every later
   Pretext scaffold and for the left-over sequence *)
Theorem C09_target_set_by_tag : forall nm n rows tags nm',
  make_scaffold_name nm n rows tags = Ok nm' -> tags <> [] -> In (s "Target") tags -> nm_target nm' = true.
Proof. exact target_set_by_tag. Qed.
Print Assumptions C09_target_set_by_tag.
Theorem C09_target_monotone_make : forall nm n rows tags nm',
  make_scaffold_name nm n rows tags = Ok nm' -> nm_target nm = true -> nm_target nm' = true.
Proof. exact target_monotone_make. Qed.
Print Assumptions C09_target_monotone_make.
Theorem C09_target_monotone_label : forall nm id ft st nm' l,
  label_scaffold nm id ft st = Ok (nm', l) -> nm_target nm = true -> nm_target nm' = true.
Proof. exact target_monotone_label. Qed.
Print Assumptions C09_target_monotone_label.

(* routing through the (repaired) fusion key: every piece with rows ends up, as
   a contiguous block of rows, in the fused scaffold stored under its own
   (tag, haplotype, name), which goes to the assembly keyed by that tag, else
   that haplotype, else the primary *)
Theorem C09_routing : forall g pieces sc isr, In (sc, isr) pieces -> sc_rows sc <> [] ->
  exists b pre suf,
    aget fuse_key_eqb (fold_left (fuse_step repaired g) pieces []) (key_of_piece sc) = Some b
    /\ sc_rows b = pre ++ sc_rows sc ++ suf /\ fst (asm_key_of b) = fst (asm_key_of sc).
Proof. exact routing. Qed.
Print Assumptions C09_routing.

Theorem C09_asm_key_of_tagged : forall sc t, sc_tag sc = Some t -> t <> [] -> asm_key_of sc = (Some t, false).
Proof. exact asm_key_of_tagged. Qed.
Print Assumptions C09_asm_key_of_tagged.
Theorem C09_asm_key_of_untagged : forall sc, truthy (sc_tag sc) = false ->
  asm_key_of sc = (if truthy (sc_hap sc) then (sc_hap sc, true) else (None, true)).
Proof. exact asm_key_of_untagged. Qed.
Print Assumptions C09_asm_key_of_untagged.

(* the fusion key of the pinned commit (no tag) is refuted: a Contaminant piece
   fused into an untagged scaffold of the same name (repaired by a fix: commit) *)
Theorem C09_legacy_refuted : exists g p1 p2 b, let c := mkCfg true true false true true in
  sc_tag (fst p2) = Some (s "Contaminant") /\ sc_rows (fst p2) <> [] /\
  aget fuse_key_eqb (fold_left (fuse_step c g) [p1; p2] []) (None, sc_hap (fst p2), sc_name (fst p2)) = Some b
  /\ sc_tag b = None /\ (exists pre, sc_rows b = pre ++ sc_rows (fst p2)).
Proof. exact legacy_fusion_refuted. Qed.
Print Assumptions C09_legacy_refuted.

(* ---- from assembly key to output file (pretext_to_asm.name_assemblies) *)
From Tola Require Model.Stats Proofs.StatsSpec.
From Coq Require Import Permutation.

(* closed form of the three branches: a map with a "Primary" assembly, a
   single-haplotype map (key None present), a multi-haplotype map *)
Theorem C09_name_assemblies_spec : forall asms root v,
  Model.Stats.name_assemblies asms root v =
  if Proofs.StatsSpec.has_key (Some (s "Primary")) asms then
    if existsb Proofs.StatsSpec.none_uncurated asms then Err AttributeError
    else Ok (Proofs.StatsSpec.primary_result root v asms)
  else if Proofs.StatsSpec.has_key None asms then Ok (map (Proofs.StatsSpec.single_na root v) asms)
  else Ok (map (Proofs.StatsSpec.multi_na root v) asms).
Proof. exact Proofs.StatsSpec.name_assemblies_spec. Qed.
Print Assumptions C09_name_assemblies_spec.

(* no scaffold is lost or written twice by the renaming / merging *)
Theorem C09_named_preserves_scaffolds : forall asms root v l,
  Model.Stats.name_assemblies asms root v = Ok l ->
  Permutation (flat_map Model.Stats.na_scaffolds l) (flat_map oa_scaffolds asms).
Proof. exact Proofs.StatsSpec.name_assemblies_preserves_scaffolds_strong. Qed.
Print Assumptions C09_named_preserves_scaffolds.

(* it fails exactly when a "Primary" assembly coexists with an un-curated
   assembly without key *)
Theorem C09_name_assemblies_error_iff : forall asms root v e,
  Model.Stats.name_assemblies asms root v = Err e
  <-> e = AttributeError
      /\ Proofs.StatsSpec.has_key (Some (s "Primary")) asms = true
      /\ exists a, In a asms /\ oa_key a = None /\ oa_curated a = false.
Proof. exact Proofs.StatsSpec.name_assemblies_error_iff. Qed.
Print Assumptions C09_name_assemblies_error_iff.

(* single-haplotype maps: two assemblies get the same file name exactly when
   their keys agree after lower-casing ("Haplotig" counting as
   "additional_haplotig") *)
Theorem C09_single_names_nodup_iff : forall asms root v,
  NoDup (map Model.Stats.na_name (map (Proofs.StatsSpec.single_na root v) asms))
  <-> NoDup (map Proofs.StatsSpec.single_norm (map oa_key asms)).
Proof. exact Proofs.StatsSpec.single_names_nodup_iff. Qed.
Print Assumptions C09_single_names_nodup_iff.

(* "Primary" maps: every other curated assembly ends up, in order, in the one
   all_haplotigs assembly, which is written last *)
Theorem C09_primary_all_haplotigs_last : forall asms root v l,
  Proofs.StatsSpec.has_key (Some (s "Primary")) asms = true ->
  Model.Stats.name_assemblies asms root v = Ok l ->
  Proofs.StatsSpec.merged asms <> [] ->
  exists l0,
    l = l0 ++ [Model.Stats.mkNamed (Some (s "all_haplotigs")) (root ++ s "." ++ v ++ s ".all_haplotigs") true
                       (flat_map oa_scaffolds
                          (filter (fun a => negb (Model.Stats.is_primary_key (oa_key a)) && oa_curated a) asms))]
    /\ map Model.Stats.na_key l0 = map oa_key (Proofs.StatsSpec.kept asms)
    /\ map Model.Stats.na_scaffolds l0 = map oa_scaffolds (Proofs.StatsSpec.kept asms).
Proof. exact Proofs.StatsSpec.primary_all_haplotigs_last. Qed.
Print Assumptions C09_primary_all_haplotigs_last.

(* ---- "Unplaced scaffolds ... are identified by their names beginning with
   the haplotype's name followed by an underscore": the haplotype read off a
   scaffold name, re.search(r"^([^_]+)_.+_\d+$", name) *)
From Tola Require Proofs.HapPrefix.
Theorem C09_hap_prefix_of_shaped_name : forall h mid ds,
  h <> [] -> forallb Proofs.HapPrefix.not_us h = true ->
  mid <> [] -> forallb Proofs.HapPrefix.not_nl mid = true ->
  ds <> [] -> forallb is_digit ds = true ->
  haplotype_prefix_of_name (h ++ Proofs.HapPrefix.us :: mid ++ Proofs.HapPrefix.us :: ds) = Some h.
Proof. exact Proofs.HapPrefix.hap_prefix_of_shaped_name. Qed.
Print Assumptions C09_hap_prefix_of_shaped_name.

Theorem C09_hap_prefix_some_shape : forall name h,
  haplotype_prefix_of_name name = Some h ->
  h <> [] /\ forallb Proofs.HapPrefix.not_us h = true
  /\ exists after, name = h ++ Proofs.HapPrefix.us :: after
     /\ exists mid ds, List.rev after = ds ++ Proofs.HapPrefix.us :: mid /\ ds <> []
                       /\ forallb is_digit ds = true /\ mid <> [].
Proof. exact Proofs.HapPrefix.hap_prefix_some_shape. Qed.
Print Assumptions C09_hap_prefix_some_shape.

Theorem C09_hap_prefix_examples :
  haplotype_prefix_of_name (s "Hap2_scaffold_17") = Some (s "Hap2")
  /\ haplotype_prefix_of_name (s "HAP1_SUPER_3_unloc_2") = Some (s "HAP1")
  /\ haplotype_prefix_of_name (s "scaffold_17") = None
  /\ haplotype_prefix_of_name (s "ptg000012l") = None
  /\ haplotype_prefix_of_name (s "_x_1") = None
  /\ haplotype_prefix_of_name (s "Hap2_scaffold_17b") = None.
Proof. exact Proofs.HapPrefix.hap_prefix_examples. Qed.
Print Assumptions C09_hap_prefix_examples.

(* ROUTING, END TO END through [remap]: every stored result that still has rows
   is written, whole and contiguous, into a scaffold (same tag, same haplotype)
   of the output assembly keyed by its tag if it has one, else by its haplotype
   if it has one, else None (the primary assembly); the same for left-over
   scaffolds (sequence absent from the map); conversely every scaffold of an
   output assembly carries that assembly's key. *)
From Tola Require Proofs.RoutingEndToEnd.
From Tola Require Import Model.OverlapResult.
Theorem C09_routing_end_to_end : forall g prefix bpt input pretext o rs,
  remap_to_input repaired g prefix bpt input pretext = Ok rs ->
  remap repaired g prefix bpt input pretext = Ok o ->
  (forall id r, In id (b_added (rs_b rs)) -> get_ovr (b_store (rs_b rs)) id = Ok r -> o_rows r <> [] ->
     exists a sc pre suf,
       In a (out_asms o) /\ In sc (oa_scaffolds a)
       /\ sc_rows sc = pre ++ to_scaffold_rows r ++ suf
       /\ sc_tag sc = o_tag r /\ sc_hap sc = o_hap r
       /\ oa_key a = Proofs.RoutingEndToEnd.dest_key (o_tag r) (o_hap r))
  /\ (forall l, In l (rs_left rs) -> sc_rows l <> [] ->
     exists a sc pre suf,
       In a (out_asms o) /\ In sc (oa_scaffolds a)
       /\ sc_rows sc = pre ++ sc_rows l ++ suf
       /\ sc_tag sc = sc_tag l /\ sc_hap sc = sc_hap l
       /\ oa_key a = Proofs.RoutingEndToEnd.dest_key (sc_tag l) (sc_hap l))
  /\ (forall a sc, In a (out_asms o) -> In sc (oa_scaffolds a) ->
        oa_key a = Proofs.RoutingEndToEnd.dest_key (sc_tag sc) (sc_hap sc)).
Proof. exact Proofs.RoutingEndToEnd.routing_end_to_end. Qed.
Print Assumptions C09_routing_end_to_end.

(* ... in terms of the tags in the Pretext file: a piece whose bait is tagged
   Haplotig (and not FalseDuplicate) is written to the assembly keyed Haplotig,
   a piece tagged Contaminant (and neither of the other two) to the assembly keyed
   Contaminant -- wherever in its Pretext scaffold it sits and whatever the other
   scaffolds are called *)
Theorem C09_haplotig_bait_routed : forall g prefix bpt input pretext o rs id r,
  remap_to_input repaired g prefix bpt input pretext = Ok rs ->
  remap repaired g prefix bpt input pretext = Ok o ->
  In id (b_added (rs_b rs)) -> get_ovr (b_store (rs_b rs)) id = Ok r -> o_rows r <> [] ->
  In (s "Haplotig") (f_tags (o_bait r)) -> ~ In (s "FalseDuplicate") (f_tags (o_bait r)) ->
  exists a sc pre suf,
    In a (out_asms o) /\ oa_key a = Some (s "Haplotig") /\ In sc (oa_scaffolds a)
    /\ sc_tag sc = Some (s "Haplotig")
    /\ sc_rows sc = pre ++ to_scaffold_rows r ++ suf.
Proof. exact Proofs.RoutingEndToEnd.haplotig_bait_routed. Qed.
Print Assumptions C09_haplotig_bait_routed.
Theorem C09_contaminant_bait_routed : forall g prefix bpt input pretext o rs id r,
  remap_to_input repaired g prefix bpt input pretext = Ok rs ->
  remap repaired g prefix bpt input pretext = Ok o ->
  In id (b_added (rs_b rs)) -> get_ovr (b_store (rs_b rs)) id = Ok r -> o_rows r <> [] ->
  In (s "Contaminant") (f_tags (o_bait r)) ->
  ~ In (s "FalseDuplicate") (f_tags (o_bait r)) -> ~ In (s "Haplotig") (f_tags (o_bait r)) ->
  exists a sc pre suf,
    In a (out_asms o) /\ oa_key a = Some (s "Contaminant") /\ In sc (oa_scaffolds a)
    /\ sc_tag sc = Some (s "Contaminant")
    /\ sc_rows sc = pre ++ to_scaffold_rows r ++ suf.
Proof. exact Proofs.RoutingEndToEnd.contaminant_bait_routed. Qed.
Print Assumptions C09_contaminant_bait_routed.
