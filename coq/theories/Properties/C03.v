(* C03 -- FASTA output is exactly the output AGP applied to the input FASTA.
   Only statements, each closed by [exact] of a lemma from Proofs/. *)
From Tola Require Import Py.Base Model.Fragment Model.Scaffold Model.Fasta Model.Stream Model.FastaSpec
  Proofs.StreamFinal.
From Tola Require Proofs.Stream Proofs.FastaEndToEnd Proofs.FastaIndex.

(* For every file/index through which the records named by the rows can be
   read (good_access, proved for every well-formed rendered FASTA under C04),
   every buffer size >= 1 and line length >= 1: the bytes written for a
   scaffold are ">" name LF followed by the concatenation, in row order, of
   the interval of each fragment row (reverse-complemented for strand -1) and
   gap-length gap characters for each gap row, wrapped at L. *)
Theorem C03_write_scaffold_spec : forall file idx seqs buf L gap_char name rows body,
  1 <= buf -> (1 <= L)%nat ->
  Proofs.Stream.seqs_accessible file idx seqs ->
  gaps_nonneg rows ->
  rows_bytes seqs gap_char rows = Some body ->
  write_scaffold file idx buf (Z.of_nat L) gap_char name rows
  = Ok (GT :: name ++ LF :: wrap_body L body).
Proof. exact write_scaffold_final. Qed.
Print Assumptions C03_write_scaffold_spec.

(* End to end with C04: for every well-formed rendered FASTA, the index the
   real indexer builds from it (any index buffer), every stream buffer and line
   length, any scaffold whose rows name records of that file is written as the
   rows applied to the RECORDS' residues -- no access premise left *)
Theorem C03_index_then_stream : forall w eol final_nl recs ibuf idx asm peak buf L gap_char name rows body,
  fasta_wf w eol recs ->
  index_fasta (render w eol final_nl recs) ibuf = Ok (idx, asm, peak) ->
  1 <= buf -> (1 <= L)%nat -> gaps_nonneg rows ->
  rows_bytes (Proofs.FastaEndToEnd.seqs_of recs) gap_char rows = Some body ->
  write_scaffold (render w eol final_nl recs) idx buf (Z.of_nat L) gap_char name rows
  = Ok (GT :: name ++ LF :: wrap_body L body).
Proof. exact Proofs.FastaEndToEnd.index_then_stream. Qed.
Print Assumptions C03_index_then_stream.

(* the wrapped body consists of lines of exactly L residues, a last line of
   1..L, each followed by LF -- never an empty or over-long line -- and
   removing the line feeds gives back the body *)
Theorem C03_wrap_lines : forall L x, (1 <= L)%nat ->
  exists lines, wrap_body L x = concat (map (fun l => l ++ [LF]) lines) /\ concat lines = x
    /\ Forall (fun l => (1 <= length l <= L)%nat) lines
    /\ (forall k l, nth_error lines k = Some l -> (S k < length lines)%nat -> length l = L).
Proof. exact Proofs.Stream.wrap_body_lines. Qed.
Print Assumptions C03_wrap_lines.

(* records are written in scaffold order *)
Theorem C03_write_assembly_spec : forall file idx seqs buf L gap_char scs out,
  1 <= buf -> (1 <= L)%nat ->
  Proofs.Stream.seqs_accessible file idx seqs ->
  Forall (fun sc => gaps_nonneg (snd sc)) scs ->
  Proofs.Stream.expected_assembly seqs gap_char L scs = Some out ->
  write_assembly file idx buf (Z.of_nat L) gap_char scs = Ok out.
Proof. exact write_assembly_final. Qed.
Print Assumptions C03_write_assembly_spec.

(* the number of residues written for a scaffold equals the sum of its row
   lengths = Scaffold.length = the last object end of the AGP written from the
   same assembly value (C06) *)
Theorem C03_record_length : forall seqs gap_char rows body,
  gaps_nonneg rows ->
  rows_bytes seqs gap_char rows = Some body -> zlen body = rows_len rows.
Proof. exact Proofs.Stream.rows_bytes_length. Qed.
Print Assumptions C03_record_length.

(* non-vacuity: the access premise holds for a concrete file, and a scaffold
   with a forward fragment, a gap and a reverse fragment is streamed as
   expected (Proofs/Stream.v, by computation) *)
Theorem C03_premises_satisfiable :
  Proofs.Stream.seqs_accessible Proofs.Stream.ex_file Proofs.Stream.ex_idx Proofs.Stream.ex_seqs.
Proof. exact Proofs.Stream.ex_good_access. Qed.
Print Assumptions C03_premises_satisfiable.
