(* C20 -- Scaffold ordering is total, numeric-aware and never fails.
   Only statements, each closed by [exact] of a lemma from Proofs/NaturalKey.v. *)
From Tola Require Import Py.Base Py.Dec Py.Sort Model.NaturalKey Proofs.NaturalKey.
From Coq Require Import Permutation Sorted.

(* the sort key exists for every name (never an exception) ... *)
Theorem C20_key_total : forall x, exists k, natural_key x = Ok k.
Proof. exact natural_key_total. Qed.
Print Assumptions C20_key_total.

(* ... and is text, number, text, ..., text, so that comparing two keys never
   compares a text with a number (no TypeError from sort) *)
Theorem C20_key_shape : forall x k, natural_key x = Ok k -> alternating true k.
Proof. exact natural_key_shape. Qed.
Print Assumptions C20_key_shape.

Theorem C20_no_mixed_comparison : forall a b, alternating true a -> alternating true b ->
  forall i x y, nth_error a i = Some x -> nth_error b i = Some y ->
  (exists u v, x = KS u /\ y = KS v) \/ (exists n m, x = KI n /\ y = KI m).
Proof. exact alternating_no_mixed. Qed.
Print Assumptions C20_no_mixed_comparison.

(* sorting by name and the rank-then-name sort succeed on every list and
   return a permutation of it *)
Theorem C20_sorted_by_name_total : forall (A : Type) (name_of : A -> str) (l : list A),
  exists r, sorted_by_name name_of l = Ok r /\ Permutation r l.
Proof. exact @sorted_by_name_total. Qed.
Print Assumptions C20_sorted_by_name_total.

Theorem C20_smart_sort_total : forall (A : Type) (rank_of : A -> Z) (name_of : A -> str) (l : list A),
  exists r, smart_sort rank_of name_of l = Ok r /\ Permutation r l.
Proof. exact @smart_sort_total. Qed.
Print Assumptions C20_smart_sort_total.

(* the key order is a total order on keys *)
Theorem C20_key_le_trans : forall a b c, key_le a b = true -> key_le b c = true -> key_le a c = true.
Proof. exact key_le_trans. Qed.
Print Assumptions C20_key_le_trans.
Theorem C20_key_le_total : forall a b, key_le a b = true \/ key_le b a = true.
Proof. exact key_le_total. Qed.
Print Assumptions C20_key_le_total.
Theorem C20_key_le_antisym : forall a b, key_le a b = true -> key_le b a = true -> a = b.
Proof. exact key_le_antisym. Qed.
Print Assumptions C20_key_le_antisym.

(* consistency: the same multiset of names always comes out with the same
   sequence of keys, whatever the initial order; the output is sorted; names
   with equal keys keep their input order *)
Theorem C20_sort_consistent : forall (A : Type) (l l' : list (list kelt * A)),
  Permutation l l' ->
  map fst (stable_sort (fun a b => key_le (fst a) (fst b)) l)
  = map fst (stable_sort (fun a b => key_le (fst a) (fst b)) l').
Proof. exact sort_consistent. Qed.
Print Assumptions C20_sort_consistent.

Theorem C20_sort_sorted : forall (A : Type) (l : list (list kelt * A)),
  StronglySorted (fun a b => key_le (fst a) (fst b) = true)
    (stable_sort (fun a b => key_le (fst a) (fst b)) l).
Proof. exact sort_sorted. Qed.
Print Assumptions C20_sort_sorted.

(* rank takes precedence over name: the smart sort is consistent and sorted
   with respect to (rank, key) *)
Theorem C20_smart_sort_consistent : forall (A : Type) (rank_of : A -> Z) (l l' : list (list kelt * A)),
  Permutation l l' ->
  map (rk rank_of) (stable_sort (fun a b => rank_key_le (rank_of (snd a), fst a) (rank_of (snd b), fst b)) l)
  = map (rk rank_of) (stable_sort (fun a b => rank_key_le (rank_of (snd a), fst a) (rank_of (snd b), fst b)) l').
Proof. exact @smart_sort_consistent. Qed.
Print Assumptions C20_smart_sort_consistent.

(* embedded decimal numbers compare by value: SUPER_2 before SUPER_10 *)
Theorem C20_numeric_order : forall p n m, clean p -> 0 <= n < m ->
  exists kn km, natural_key (p ++ str_of_Z n) = Ok kn /\ natural_key (p ++ str_of_Z m) = Ok km
    /\ key_cmp kn km = Lt.
Proof. exact numeric_order. Qed.
Print Assumptions C20_numeric_order.

(* the nematode numerals compare by value *)
Theorem C20_roman_order :
  natural_key (s "I") = Ok [KS []; KI 1; KS []] /\
  natural_key (s "II") = Ok [KS []; KI 2; KS []] /\
  natural_key (s "III") = Ok [KS []; KI 3; KS []] /\
  natural_key (s "IV") = Ok [KS []; KI 4; KS []] /\
  key_cmp [KS []; KI 1; KS []] [KS []; KI 2; KS []] = Lt /\
  key_cmp [KS []; KI 2; KS []] [KS []; KI 3; KS []] = Lt /\
  key_cmp [KS []; KI 3; KS []] [KS []; KI 4; KS []] = Lt.
Proof. exact roman_order. Qed.
Print Assumptions C20_roman_order.

(* an unloc sorts directly after its own chromosome and before the next one *)
Theorem C20_unloc_between : forall p n n' sfx m,
  clean p -> clean sfx -> 0 <= n < n' -> 0 <= m ->
  exists kc ku kn, natural_key (p ++ str_of_Z n ++ sfx) = Ok kc
    /\ natural_key (p ++ str_of_Z n ++ sfx ++ s "_unloc_" ++ str_of_Z m) = Ok ku
    /\ natural_key (p ++ str_of_Z n') = Ok kn /\ key_cmp kc ku = Lt /\ key_cmp ku kn = Lt.
Proof. exact unloc_between. Qed.
Print Assumptions C20_unloc_between.

Theorem C20_unloc_before_later_suffix : forall p n a b m,
  clean p -> clean [a] -> clean [b] -> (code a < code b)%N -> 0 <= n -> 0 <= m ->
  exists ku kb, natural_key (p ++ str_of_Z n ++ [a] ++ s "_unloc_" ++ str_of_Z m) = Ok ku
    /\ natural_key (p ++ str_of_Z n ++ [b]) = Ok kb /\ key_cmp ku kb = Lt.
Proof. exact unloc_before_later_suffix. Qed.
Print Assumptions C20_unloc_before_later_suffix.

(* the repair changed no key the pinned commit could compute, and the pinned
   commit's key fails on IIII *)
Theorem C20_new_key_extends_old : forall x k, natural_key_legacy x = Ok k -> natural_key x = Ok k.
Proof. exact new_key_extends_old. Qed.
Print Assumptions C20_new_key_extends_old.

Theorem C20_legacy_refuted : natural_key_legacy (s "IIII") = Err ValueError.
Proof. exact natural_key_legacy_refuted. Qed.
Print Assumptions C20_legacy_refuted.

(* non-vacuity of [clean]: the prefixes the tool generates are clean *)
Example C20_clean_examples : clean (s "SUPER_") /\ clean (s "_unloc_") /\ clean (s "A") /\ clean (s "chr").
Proof. vm_compute. repeat split. Qed.
