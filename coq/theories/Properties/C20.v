(* C20 -- placeholder until Proofs/NaturalKey.v lands *)
From Tola Require Import Py.Base Model.NaturalKey.

Lemma C20_legacy_refuted : natural_key_legacy (s "IIII") = Err ValueError.
Proof. vm_compute. reflexivity. Qed.
Print Assumptions C20_legacy_refuted.
