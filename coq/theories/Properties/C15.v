(* C15 -- placeholder until Proofs/CacheFS.v lands *)
From Tola Require Import Py.Base Model.CacheFS.

(* the protocol of the pinned commit (cache files truncated and rewritten in
   place) lets a reader load a half-written cache: a second process passes both
   freshness checks after the first has opened (truncated) the .agp *)
Lemma C15_legacy_race_refuted :
  match run false init_world
    [HTick; HSpawn; HSpawn;
     HOp 0 OExistsFasta; HOp 0 OStatFasta; HOp 0 (OExists Fai); HOp 0 OReadFasta;
     HOp 0 (OExists Fai); HOp 0 (OOpenWrite Fai); HOp 0 (OWriteBlock Fai); HOp 0 (OClose Fai);
     HOp 0 (OExists Agp); HOp 0 (OOpenWrite Agp);
     HTick;
     HOp 1 OExistsFasta; HOp 1 OStatFasta; HOp 1 (OExists Fai); HOp 1 (OStat Fai);
     HOp 1 (OExists Agp); HOp 1 (OStat Agp);
     HOp 1 (OOpenRead Fai); HOp 1 (ORead Fai); HOp 1 (OOpenRead Agp); HOp 1 (ORead Agp)] with
  | Some w => world_ok w = false
  | None => False
  end.
Proof. vm_compute. reflexivity. Qed.
Print Assumptions C15_legacy_race_refuted.
