(* C15 -- A stale, partial or concurrently rewritten index cache is never
   silently used.  Only statements, each closed by [exact] of a lemma from
   Proofs/CacheFS.v.  The theorems are about the protocol model
   (Model/CacheFS.v: any number of processes, any interleaving at
   file-operation granularity, crashes at any point, any history of FASTA
   rewrites / cache deletions / clock ticks); that the code in /repo follows
   this protocol is checked on every run by validating the operation traces of
   real executions against the model. *)
From Tola Require Import Py.Base Model.CacheFS Proofs.CacheFS.

(* whenever an operation makes a process complete auto_load, what it holds is
   exactly the index and assembly of the FASTA's current content *)
Theorem C15_safety_at_completion : forall w pid o w' p',
  reachable w -> env_step true w (HOp pid o) = Some w' ->
  nth_error (w_procs w') pid = Some p' -> pr_pc p' = PDone ->
  (match nth_error (w_procs w) pid with Some p => pr_pc p <> PDone | None => True end) ->
  proc_ok (w_fs w') p' = true.
Proof. exact safety_at_completion. Qed.
Print Assumptions C15_safety_at_completion.

(* a reader never observes a half-written cache file, and a cache file strictly
   newer than the FASTA was derived from its current content *)
Theorem C15_visible_files_complete : forall w f pl,
  reachable w -> get_file (w_fs w) f = Some pl ->
  p_complete pl = true /\ (p_stamp pl > fasta_stamp (w_fs w) -> p_content pl = fasta_content (w_fs w)).
Proof. exact visible_files_complete. Qed.
Print Assumptions C15_visible_files_complete.

(* cache files that are missing or not strictly newer than the FASTA are rebuilt ... *)
Theorem C15_check_rejects_stale : forall s p f pl s' p',
  pr_pc p = PCheck f true -> get_file s f = Some pl -> p_stamp pl <= pr_fasta_stamp p ->
  step true s p (OStat f) = Some (s', p') -> pr_pc p' = PIndexRead.
Proof. exact check_rejects_stale. Qed.
Print Assumptions C15_check_rejects_stale.
Theorem C15_check_rejects_missing : forall s p f s' p',
  pr_pc p = PCheck f false -> get_file s f = None ->
  step true s p (OExists f) = Some (s', p') -> pr_pc p' = PIndexRead.
Proof. exact check_rejects_missing. Qed.
Print Assumptions C15_check_rejects_missing.

(* ... both together *)
Theorem C15_indexing_installs_both : forall w pid w' p p',
  reachable w -> nth_error (w_procs w) pid = Some p -> pr_pc p = PReplace Agp ->
  env_step true w (HOp pid (OReplace Agp)) = Some w' -> nth_error (w_procs w') pid = Some p' ->
  pr_pc p' = PDone
  /\ (exists a b, fai (w_fs w') = Some a /\ agp (w_fs w') = Some b /\ p_complete a = true /\ p_complete b = true
        /\ p_content a = fasta_content (w_fs w') /\ p_content b = fasta_content (w_fs w')).
Proof. exact indexing_installs_both. Qed.
Print Assumptions C15_indexing_installs_both.

(* the protocol of the pinned commit (truncate and rewrite in place) is refuted
   by a crash history and by a race history (repaired by a fix: commit) *)
Theorem C15_legacy_crash_refuted : exists h w, run false init_world h = Some w /\ world_ok w = false.
Proof. exact legacy_crash_refuted. Qed.
Print Assumptions C15_legacy_crash_refuted.
Theorem C15_legacy_race_refuted : exists h w, run false init_world h = Some w /\ world_ok w = false.
Proof. exact legacy_race_refuted. Qed.
Print Assumptions C15_legacy_race_refuted.

(* non-vacuity: two racing processes under the repaired protocol, both done and correct *)
Theorem C15_atomic_race_safe : exists w,
  run true init_world atomic_race_history = Some w /\ world_ok w = true
  /\ outcome w = [(PDone, HGood 1, HGood 1); (PDone, HGood 1, HGood 1)].
Proof. exact atomic_race_safe. Qed.
Print Assumptions C15_atomic_race_safe.
