(* C01 -- Remapping conserves sequence: outputs exactly partition the input
   contigs.  Only statements, each closed by [exact] of a lemma from Proofs/. *)
From Tola Require Import Py.Base Model.Fragment Model.Scaffold Model.Lookup Model.OverlapResult
  Model.Namer Model.Remap Model.RemapSpec Proofs.RemapFinal.
From Tola Require Proofs.RemapTail Proofs.RemapHead Proofs.Fuel.

(* For EVERY input assembly whose contigs are well-formed intervals with
   pairwise distinct (name, start, end), EVERY Pretext assembly (edit scripts
   PretextView can produce, the same with perturbed / dropped / duplicated /
   overlapping / out-of-range pieces, arbitrary bait lists), every texel size,
   autosome prefix, join gap and tag combination: if the whole pipeline
   (lookups, overhang trimming and resolution, cuts with their QC, re-adding
   what was never found, fusing, naming, sorting, statistics) returns without
   an error, then for every contig name n and base x the number of output
   fragments (over all output assemblies) covering (n, x) equals the number of
   input contigs covering it, and every output fragment is a sub-interval of
   an input contig of that name.  No size bound; no hypothesis on the Pretext
   file: a file that cannot be honoured consistently ends in [Err]. *)
Theorem C01_conservation : forall c g prefix bpt input pretext o,
  input_ok input ->
  remap c g prefix bpt input pretext = Ok o ->
  conserved input o.
Proof. exact remap_conserves. Qed.
Print Assumptions C01_conservation.

(* with disjoint input contigs: every base in exactly one output fragment *)
Theorem C01_exactly_once : forall c g prefix bpt input pretext o n x,
  input_ok input ->
  remap c g prefix bpt input pretext = Ok o ->
  coverage (in_frags input) n x = 1%nat ->
  coverage (out_frags o) n x = 1%nat.
Proof. exact remap_exactly_once. Qed.
Print Assumptions C01_exactly_once.

(* the mechanisms named in the property *)
(* -- the QC after a cut: pieces that are sub-intervals of the contig and pass
      the QC partition it *)
Theorem C01_qc_partition : forall orig subs,
  f_start orig <= f_end orig ->
  Forall (fun f => f_name f = f_name orig /\ f_start orig <= f_start f /\ f_start f <= f_end f
                   /\ f_end f <= f_end orig) subs ->
  qc_sub_fragments orig subs = Ok tt ->
  forall n x, coverage subs n x = coverage [orig] n x.
Proof. exact Proofs.RemapTail.qc_partition. Qed.
Print Assumptions C01_qc_partition.

(* -- the first half: lookups + overhang resolution + cuts leave the overlap
      results covering exactly the found contigs, and the left-over scaffolds
      hold exactly the contigs never found *)
Theorem C01_first_half : forall c g prefix bpt input pretext rs,
  input_ok input ->
  remap_to_input c g prefix bpt input pretext = Ok rs ->
  let inp := number_input input 0 in
  Post inp (rs_b rs)
  /\ map key_of (flat_map (fun sc => frags_of (sc_rows sc)) (rs_left rs))
     = map key_of (filter (fun f => negb (is_found (rs_b rs) f)) (in_frags inp)).
Proof. exact (Proofs.RemapHead.remap_head qc_ok). Qed.
Print Assumptions C01_first_half.

(* -- the second half: fusing, naming and sorting only permute fragments *)
Theorem C01_second_half_keys : forall c g prefix input rs o,
  assemblies_with_scaffolds_fused c g prefix input rs = Ok o ->
  Permutation.Permutation
    (map key_of (out_frags o))
    (map key_of (result_frags (rs_b rs) ++ flat_map (fun sc => frags_of (sc_rows sc)) (rs_left rs))).
Proof. exact Proofs.RemapTail.assemblies_keys. Qed.
Print Assumptions C01_second_half_keys.

(* the model's fuelled loops (binary search, gap stripping, the "while multi"
   resolver loop) never run out of fuel: [Err OutOfFuel], a value the Python
   program cannot produce, is unreachable, so "remap = Err e" always stands for
   a Python exception and the resolver loop terminates on every input *)
Theorem C01_never_out_of_fuel : forall c g prefix bpt input pretext,
  remap c g prefix bpt input pretext <> Err OutOfFuel.
Proof. exact Proofs.Fuel.remap_never_out_of_fuel. Qed.
Print Assumptions C01_never_out_of_fuel.

(* non-vacuity: a contig painted by two baits is cut in two and conserved *)
Example C01_example :
  let input := [(s "S1", [RF (mkFrag 0 (s "c1") 1 1000 1 [])])] in
  let pretext := [(s "Scaffold_1", [RF (mkFrag 0 (s "S1") 1 600 1 [])]);
                  (s "Scaffold_2", [RF (mkFrag 0 (s "S1") 601 1000 1 [])])] in
  match remap repaired (mkGap 200 (s "scaffold")) (s "SUPER_") (10, 1) input pretext with
  | Ok o => map key_of (out_frags o) = [(s "c1", 1, 600); (s "c1", 601, 1000)] /\ out_cuts o = 1
  | Err _ => False
  end.
Proof. vm_compute. split; reflexivity. Qed.
