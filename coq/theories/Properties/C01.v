(* C01 -- placeholder until the conservation lemmas land *)
From Tola Require Import Py.Base Model.Fragment Model.Scaffold Model.Namer Model.Remap.

Lemma C01_qc_rejects_gap :
  qc_sub_fragments (mkFrag 0 (s "c") 1 10 1 [])
                   [mkFrag (-1) (s "c") 1 4 1 []; mkFrag (-2) (s "c") 6 10 1 []] = Err ValueError.
Proof. vm_compute. reflexivity. Qed.
Print Assumptions C01_qc_rejects_gap.
