(* C17 -- Outputs are a deterministic function of the input files.
   Only statements, each closed by [exact] of a lemma from Proofs/.  The model
   is a function of its arguments, so "earlier runs in the same process" has no
   model-level content; the only place where Python iterates a set (whose
   order depends on PYTHONHASHSEED) is the tag set of a Pretext scaffold. *)
From Tola Require Import Py.Base Model.Fragment Model.Scaffold Model.Namer Model.Fasta Model.FastaSpec
  Model.AgpTpf Model.AgpTpfSpec Proofs.Routing Proofs.FastaIndex Proofs.CacheRoundTrip.
From Coq Require Import Permutation.

(* the namer's result (Ok/Err and every field) does not depend on the order in
   which the tag set is iterated, for every reachable namer state (lc_ok is an
   invariant, see the two lc_ok theorems below) *)
Theorem C17_tags_perm_invariant : forall nm n rows tags tags',
  lc_ok (nm_hap_lc nm) ->
  Permutation tags tags' ->
  match make_scaffold_name nm n rows tags, make_scaffold_name nm n rows tags' with
  | Ok a, Ok b => a = b | Err _, Err _ => True | _, _ => False end.
Proof. exact tags_perm_invariant. Qed.
Print Assumptions C17_tags_perm_invariant.

Theorem C17_lc_ok_initial : forall prefix, lc_ok (nm_hap_lc (new_namer prefix)).
Proof. exact lc_ok_new_namer. Qed.
Print Assumptions C17_lc_ok_initial.

Theorem C17_lc_ok_preserved : forall nm n rows tags nm',
  lc_ok (nm_hap_lc nm) -> make_scaffold_name nm n rows tags = Ok nm' -> lc_ok (nm_hap_lc nm').
Proof. exact make_scaffold_name_lc_ok. Qed.
Print Assumptions C17_lc_ok_preserved.

(* the code of the pinned commit took the empty tag (an empty AGP column) for a
   falsy haplotype, which made the outcome order- i.e. hash-seed-dependent
   (repaired by a fix: commit) *)
Theorem C17_legacy_order_dependent : exists nm n rows t1 t2,
  Permutation t1 t2 /\ is_ok (make_scaffold_name_legacy nm n rows t1) = true
  /\ is_ok (make_scaffold_name_legacy nm n rows t2) = false.
Proof. exact tags_order_matters_with_empty_tag. Qed.
Print Assumptions C17_legacy_order_dependent.

(* indexing does not depend on the buffer size (C13) *)
Theorem C17_index_buffer_independent : forall file b1 b2,
  drop_peak (index_fasta file b1) = drop_peak (index_fasta file b2).
Proof. exact index_buffer_independent. Qed.
Print Assumptions C17_index_buffer_independent.

(* whether the FASTA index cache was freshly built or loaded from disk makes no
   difference: for every well-formed FASTA, loading the written .fai gives the
   index back, and parsing the written .agp gives the derived assembly back *)
Theorem C17_cold_warm_index : forall w eol final_nl recs buf idx asm,
  fasta_wf w eol recs -> Forall (fun r => name_loadable (r_name r)) recs ->
  drop_peak (index_fasta (render w eol final_nl recs) buf) = Ok (idx, asm) ->
  load_index (write_index idx) = Ok idx.
Proof. exact cold_warm_index. Qed.
Print Assumptions C17_cold_warm_index.

Theorem C17_cache_roundtrip_assembly : forall w eol recs h, fasta_wf w eol recs -> header_ok h ->
  Forall (fun r => match r_name r with c :: _ => c <> "#"%char | [] => False end) recs ->
  exists t, format_agp (mkAsm [h] (expected_asm recs)) = Ok t
            /\ parse_agp t = Ok (mkAsm [h] (expected_asm recs)).
Proof. exact cache_roundtrip_assembly. Qed.
Print Assumptions C17_cache_roundtrip_assembly.
