(* C13 -- Streaming is buffer-size independent and memory-bounded.
   Only statements, each closed by [exact] of a lemma from Proofs/. *)
From Tola Require Import Py.Base Model.Fragment Model.Scaffold Model.Fasta Model.Stream Model.FastaSpec
  Proofs.Chunks Proofs.StreamFinal Proofs.FastaIndex.
From Tola Require Proofs.Stream.

(* chunk arithmetic: for every buffer size >= 1 the forward / reverse iterators
   deliver ceil(len/buf) chunks of 1..buf residues whose concatenation is the
   interval (its reverse complement); the gap iterator delivers len/buf + 1
   chunks of at most buf characters (the last one possibly empty) *)
Theorem C13_fwd_chunks : forall file buf i residues s e,
  good_access file i residues -> 1 <= buf -> 1 <= s -> s <= e -> e <= zlen residues ->
  exists cs, fwd_chunks file buf i s e = Ok cs
    /\ concat cs = slice1 residues s e
    /\ Forall (fun c => 1 <= zlen c <= buf) cs
    /\ zlen cs = (e - s) / buf + 1.
Proof. exact fwd_chunks_spec. Qed.
Print Assumptions C13_fwd_chunks.

Theorem C13_rev_chunks : forall file buf i residues s e,
  good_access file i residues -> 1 <= buf -> 1 <= s -> s <= e -> e <= zlen residues ->
  exists cs, rev_chunks file buf i s e = Ok cs
    /\ concat cs = reverse_complement (slice1 residues s e)
    /\ Forall (fun c => 1 <= zlen c <= buf) cs
    /\ zlen cs = (e - s) / buf + 1.
Proof. exact rev_chunks_spec. Qed.
Print Assumptions C13_rev_chunks.

Theorem C13_gap_chunks : forall buf c len,
  1 <= buf -> 0 <= len ->
  exists cs, gap_chunks buf c len = Ok cs
    /\ concat cs = repeat c (Z.to_nat len)
    /\ Forall (fun x => zlen x <= buf) cs
    /\ zlen cs = len / buf + 1.
Proof. exact gap_chunks_spec. Qed.
Print Assumptions C13_gap_chunks.

(* the consumer: feeding any chunking of the same bytes through the
   line-wrapping state machine writes the same output (so it never needs more
   than the chunk at hand) *)
Theorem C13_emit_chunks_concat : forall L want c1 c2, 1 <= L -> 1 <= want <= L ->
  concat c1 = concat c2 -> emit_chunks L want c1 = emit_chunks L want c2.
Proof. exact Proofs.Stream.emit_chunks_concat. Qed.
Print Assumptions C13_emit_chunks_concat.

(* bytes written for a scaffold do not depend on the buffer size *)
Theorem C13_stream_buffer_independent : forall file idx seqs b1 b2 L gap_char name rows body,
  1 <= b1 -> 1 <= b2 -> (1 <= L)%nat ->
  Proofs.Stream.seqs_accessible file idx seqs ->
  gaps_nonneg rows ->
  rows_bytes seqs gap_char rows = Some body ->
  write_scaffold file idx b1 (Z.of_nat L) gap_char name rows
  = write_scaffold file idx b2 (Z.of_nat L) gap_char name rows.
Proof. exact write_scaffold_buffer_independent_final. Qed.
Print Assumptions C13_stream_buffer_independent.

(* indexing gives the same index and assembly for EVERY byte string and all
   buffer sizes (the third component of the model's result is the ghost peak
   buffer length, which does depend on the buffer size) *)
Theorem C13_index_buffer_independent : forall file b1 b2,
  drop_peak (index_fasta file b1) = drop_peak (index_fasta file b2).
Proof. exact index_buffer_independent. Qed.
Print Assumptions C13_index_buffer_independent.

(* ghost bound: the sequence buffer never holds more than buffer-size residues
   plus one input line *)
Theorem C13_index_peak_bounded : forall file buf idx asm peak,
  0 <= buf -> index_fasta file buf = Ok (idx, asm, peak) ->
  peak <= buf + max_line file.
Proof. exact index_peak_bounded. Qed.
Print Assumptions C13_index_peak_bounded.
