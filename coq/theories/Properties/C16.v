(* C16 -- --no-clobber never alters an existing file.
   Only statements, each closed by [exact] of a lemma from Proofs/Clobber.v.
   The theorems are about the open protocol (every output opened in mode 'x'
   when not clobbering, in a fixed order, first failure = exit 1); that
   Python's 'x' is an atomic exclusive create (O_EXCL) is trusted. *)
From Tola Require Import Py.Base Model.Clobber Proofs.Clobber.

(* with --no-clobber: every pre-existing file keeps its bytes; the run fails
   exactly at the first output (in open order) that pre-exists and names it;
   outputs opened before it were newly created, nothing after it is touched;
   paths that are not outputs are untouched *)
Theorem C16_noclobber_spec : forall opens fs fs' st,
  NoDup (map fst opens) ->
  run_opens true fs opens = (fs', st) ->
  (forall p c, lookup fs p = Some c -> lookup fs' p = Some c)
  /\ match st with
     | ExitCollision p =>
         exists pre c post, opens = pre ++ (p, c) :: post /\ exists_in fs p
           /\ Forall (fun o => lookup fs (fst o) = None) pre
           /\ Forall (fun o => lookup fs' (fst o) = Some (snd o)) pre
           /\ Forall (fun o => lookup fs' (fst o) = lookup fs (fst o)) post
     | ExitOk =>
         Forall (fun o => lookup fs (fst o) = None) opens
         /\ Forall (fun o => lookup fs' (fst o) = Some (snd o)) opens
     end
  /\ (forall q, ~ In q (map fst opens) -> lookup fs' q = lookup fs q).
Proof. exact noclobber_spec. Qed.
Print Assumptions C16_noclobber_spec.

(* for every subset of pre-existing outputs: non-zero exit iff the subset is non-empty *)
Theorem C16_noclobber_fails_iff : forall opens fs,
  NoDup (map fst opens) ->
  (exists p, snd (run_opens true fs opens) = ExitCollision p)
  <-> Exists (fun o => exists_in fs (fst o)) opens.
Proof. exact noclobber_fails_iff. Qed.
Print Assumptions C16_noclobber_fails_iff.

(* with the default --clobber the run succeeds and every output file holds
   exactly what the run writes *)
Theorem C16_clobber_spec : forall opens fs fs' st,
  NoDup (map fst opens) ->
  run_opens false fs opens = (fs', st) ->
  st = ExitOk
  /\ Forall (fun o => lookup fs' (fst o) = Some (snd o)) opens
  /\ (forall q, ~ In q (map fst opens) -> lookup fs' q = lookup fs q).
Proof. exact clobber_spec. Qed.
Print Assumptions C16_clobber_spec.

(* non-vacuity *)
Example C16_example :
  run_opens true [(s "b", s "old")] [(s "a", s "1"); (s "b", s "2"); (s "c", s "3")]
  = ([(s "b", s "old"); (s "a", s "1")], ExitCollision (s "b")).
Proof. vm_compute. reflexivity. Qed.
