(* C04 -- FASTA index and derived assembly describe the file exactly.
   Only statements, each closed by [exact] of a lemma from Proofs/. *)
From Tola Require Import Py.Base Model.Fragment Model.Scaffold Model.Fasta Model.Stream Model.FastaSpec
  Proofs.FastaIndex Proofs.StreamFinal.
From Tola Require Proofs.Stream Proofs.FastaEndToEnd.

(* For every well-formed FASTA layout (>= 1 record, distinct non-empty names
   without blanks, optional description, >= 1 residue per record, residues free
   of CR/LF/'>', any uniform line width >= 1, LF or CRLF, final newline present
   or absent) and every buffer size, indexing yields per record the faidx
   quintuple (name, residue count, offset of the first residue, residues per
   full line, bytes per full line) and the derived assembly tiles each record
   with one forward fragment per maximal ACGT/acgt run and one gap per other
   maximal run, in order. *)
Theorem C04_index_spec : forall w eol final_nl recs buf,
  fasta_wf w eol recs ->
  drop_peak (index_fasta (render w eol final_nl recs) buf)
  = Ok (expected_index w eol recs, expected_asm recs).
Proof. exact index_spec. Qed.
Print Assumptions C04_index_spec.

(* random access through that index returns exactly residues s..e, for every
   1 <= s <= e <= n of every record *)
Theorem C04_random_access : forall w eol final_nl recs k r off,
  fasta_wf w eol recs -> nth_error recs k = Some r -> nth_error (offsets w eol recs 0) k = Some off ->
  good_access (render w eol final_nl recs) (expected_info w eol r off) (r_seq r).
Proof. exact random_access_spec. Qed.
Print Assumptions C04_random_access.

(* duplicate record names and files without records are rejected *)
Theorem C04_duplicate_names_rejected : forall w eol final_nl recs buf,
  (1 <= w)%nat -> eol_ok eol -> recs <> [] -> Forall record_ok recs -> ~ NoDup (map r_name recs) ->
  index_fasta (render w eol final_nl recs) buf = Err ValueError.
Proof. exact duplicate_names_rejected. Qed.
Print Assumptions C04_duplicate_names_rejected.

Theorem C04_empty_file_rejected : forall buf, index_fasta [] buf = Err ValueError.
Proof. exact empty_file_rejected. Qed.
Print Assumptions C04_empty_file_rejected.

(* End to end, for EVERY well-formed rendered file, every index buffer, every
   stream buffer and every line length: index the file, stream the DERIVED
   assembly back through the index just built -- the output is, record by
   record and in file order, ">" name LF and the record's residues wrapped at
   L, where every residue outside ACGTacgt (the gap rows) is replaced by the
   gap character.  Nothing is lost, duplicated or shifted. *)
Theorem C04_stream_back : forall w eol final_nl recs ibuf idx asm peak buf L gap_char,
  fasta_wf w eol recs ->
  index_fasta (render w eol final_nl recs) ibuf = Ok (idx, asm, peak) ->
  1 <= buf -> (1 <= L)%nat ->
  write_assembly (render w eol final_nl recs) idx buf (Z.of_nat L) gap_char asm
  = Ok (concat (map (fun r => GT :: r_name r ++ LF
                       :: wrap_body L (Proofs.FastaEndToEnd.mask gap_char (r_seq r))) recs)).
Proof. exact Proofs.FastaEndToEnd.stream_back. Qed.
Print Assumptions C04_stream_back.

(* every record of a well-formed rendered file is readable through the index
   the spec predicts (the access premise of C03 is discharged for all of them) *)
Theorem C04_rendered_accessible : forall w eol final_nl recs,
  fasta_wf w eol recs ->
  Proofs.Stream.seqs_accessible (render w eol final_nl recs) (expected_index w eol recs)
    (Proofs.FastaEndToEnd.seqs_of recs).
Proof. exact Proofs.FastaEndToEnd.rendered_accessible. Qed.
Print Assumptions C04_rendered_accessible.

(* non-vacuity of C04_stream_back: a CRLF file without final newline, streamed
   back with buffer 3 and line length 4 *)
Theorem C04_stream_back_instance :
  match index_fasta Proofs.FastaEndToEnd.e2e_file 4 with
  | Ok (idx, asm, _) => write_assembly Proofs.FastaEndToEnd.e2e_file idx 3 4 "-"%char asm
  | Err e => Err e
  end
  = Ok (s ">chr1" ++ LF :: s "ACGT" ++ LF :: s "----" ++ LF :: s "acgt" ++ LF :: s "--AC" ++ [LF]
        ++ s ">scaffold_2" ++ LF :: s "--AC" ++ LF :: s "GTAC" ++ LF :: s "GTA-" ++ [LF]).
Proof. exact Proofs.FastaEndToEnd.e2e_stream_back_computed. Qed.
Print Assumptions C04_stream_back_instance.

(* the scanner of the pinned commit dropped the last residue of a file without
   a final newline (repaired by a fix: commit) *)
Theorem C04_legacy_refuted : exists file, file = s ">a
ACGT" /\
  (match index_fasta_legacy file 250000 with
   | Ok (idx, _, _) => map (fun p => fi_length (snd p)) idx | Err _ => [] end) = [3]
  /\ (match index_fasta file 250000 with
      | Ok (idx, _, _) => map (fun p => fi_length (snd p)) idx | Err _ => [] end) = [4].
Proof. exact index_legacy_refuted. Qed.
Print Assumptions C04_legacy_refuted.

(* non-vacuity: a two-record CRLF layout without final newline is well formed *)
Example C04_wf_example :
  fasta_wf 3 [CR; LF] [mkRecord (s "a") (s " d") (s "ACGTNNAC"); mkRecord (s "b") [] (s "NNAC")].
Proof.
  unfold fasta_wf. split; [auto|]. split; [right; reflexivity|]. split; [discriminate|]. split.
  - repeat constructor; try discriminate; cbn; auto.
  - repeat constructor; cbn; intuition discriminate.
Qed.
