(* C04 -- placeholder until Proofs/Fasta.v lands *)
From Tola Require Import Py.Base Model.Fragment Model.Fasta.

(* the pinned commit silently dropped the last residue of a file without a
   final newline; the repaired index does not *)
Lemma C04_legacy_refuted :
  (match index_fasta_legacy (s ">a
ACGT") 250000 with Ok (idx, _, _) => map (fun p => fi_length (snd p)) idx | Err _ => [] end) = [3]
  /\ (match index_fasta (s ">a
ACGT") 250000 with Ok (idx, _, _) => map (fun p => fi_length (snd p)) idx | Err _ => [] end) = [4].
Proof. vm_compute. split; reflexivity. Qed.
Print Assumptions C04_legacy_refuted.
