(* C05 -- placeholder until the proofs land *)
From Tola Require Import Py.Base Model.Fragment Model.Fasta Model.AgpTpf.

Lemma C05_format_example :
  format_agp (mkAsm [] [(s "s1", [RF (mkFrag (-1) (s "c") 5 9 (-1) [s "Painted"]); RG (mkGap 200 (s "scaffold"))])])
  = Ok (s "s1	1	5	1	W	c	5	9	-	Painted
s1	6	205	2	U	200	scaffold	yes	proximity_ligation
").
Proof. vm_compute. reflexivity. Qed.
Print Assumptions C05_format_example.
