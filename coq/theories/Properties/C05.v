(* C05 -- AGP and TPF parse/format round-trip without loss.
   Only statements, each closed by [exact] of a lemma from Proofs/AgpTpfRoundTrip.v. *)
From Tola Require Import Py.Base Model.Fragment Model.Fasta Model.AgpTpf Model.AgpTpfSpec
  Proofs.AgpTpfRoundTrip.

(* formatting any well-formed assembly as AGP and parsing it back yields the
   same header lines, scaffolds, rows, coordinates, strands, tags, gap lengths
   and gap types (agp_wf: Model/AgpTpfSpec.v) *)
Theorem C05_parse_format_agp : forall a, agp_wf a ->
  exists t, format_agp a = Ok t /\ parse_agp t = Ok a.
Proof. exact parse_format_agp. Qed.
Print Assumptions C05_parse_format_agp.

(* re-formatting parsed canonical AGP text reproduces it byte for byte *)
Theorem C05_format_parse_agp : forall a t, agp_wf a -> format_agp a = Ok t ->
  exists a', parse_agp t = Ok a' /\ format_agp a' = Ok t.
Proof. exact format_parse_agp. Qed.
Print Assumptions C05_format_parse_agp.

(* the same for TPF for what TPF can carry (no tags, strands PLUS/MINUS,
   non-negative coordinates, every scaffold starting with a fragment, gap types
   the TYPE-2/TYPE-3/upper-case-dash tables map back to themselves) *)
Theorem C05_parse_format_tpf : forall a, tpf_wf a ->
  exists t, format_tpf a = Ok t /\ parse_tpf t = Ok a.
Proof. exact parse_format_tpf. Qed.
Print Assumptions C05_parse_format_tpf.

(* converting to TPF and back changes nothing except dropping tags *)
Theorem C05_agp_tpf_agp : forall a, agp_wf a -> tpf_wf (drop_tags a) ->
  exists t, format_tpf a = Ok t /\ parse_tpf t = Ok (drop_tags a).
Proof. exact agp_tpf_agp. Qed.
Print Assumptions C05_agp_tpf_agp.

(* every non-blank, non-comment line yields exactly one row (or the parse is
   an error): no line is silently skipped or merged *)
Theorem C05_agp_rows_eq_lines : forall t a, parse_agp t = Ok a -> n_rows a = length (data_lines t).
Proof. exact parse_agp_rows_eq_lines. Qed.
Print Assumptions C05_agp_rows_eq_lines.

Theorem C05_tpf_rows_eq_lines : forall t a, parse_tpf t = Ok a -> n_rows a = length (data_lines t).
Proof. exact parse_tpf_rows_eq_lines. Qed.
Print Assumptions C05_tpf_rows_eq_lines.

Theorem C05_gap_type_tables :
  tpf_gap_type_in (tpf_gap_type_out (s "scaffold")) = s "scaffold"
  /\ tpf_gap_type_in (tpf_gap_type_out (s "contig")) = s "contig"
  /\ tpf_gap_type_in (tpf_gap_type_out (s "short_arm")) = s "short_arm"
  /\ tpf_gap_type_out (s "scaffold") = s "TYPE-2"
  /\ tpf_gap_type_out (s "contig") = s "TYPE-3".
Proof. exact gap_type_roundtrip_examples. Qed.
Print Assumptions C05_gap_type_tables.

(* non-vacuity: concrete assemblies meeting the hypotheses *)
Theorem C05_wf_satisfiable : agp_wf ex_agp /\ tpf_wf ex_tpf /\ agp_wf ex_both /\ tpf_wf (drop_tags ex_both).
Proof. exact (conj ex_agp_wf (conj ex_tpf_wf ex_both_wf)). Qed.
Print Assumptions C05_wf_satisfiable.

(* ------------------------------------------------------------------------
   THE COMMAND: asm-format as a whole (Model/AsmFormat.v: cli, process_fh,
   report_overlaps; compared with the real command byte for byte -- written
   output and STDERR -- on every generated invocation).  On any number of
   canonical AGP files, whatever their names, --name and --qc-overlaps, what it
   writes (to -o or STDOUT) is their concatenation, byte for byte, and it does
   not raise. *)
From Tola Require Import Model.OutputPlan Model.AsmFormat.
From Tola Require Proofs.AsmFormat.
Theorem C05_asm_format_identity : forall o files stdin,
  files <> [] ->
  out_format o = s "AGP" ->
  Forall (fun f => in_format o (Some (fst f)) = s "AGP"
                   /\ exists a, agp_wf a /\ format_agp a = Ok (snd f)) files ->
  exists err, run o files stdin = mkAFR (concat (map snd files)) err None.
Proof. exact Proofs.AsmFormat.asm_format_identity_on_canonical_agp. Qed.
Print Assumptions C05_asm_format_identity.

(* several input files: each is converted on its own, the results are written
   one after the other in command-line order (no row re-homed across files) *)
Theorem C05_asm_format_concatenates : forall o files stdin outs,
  files <> [] ->
  Forall2 (fun f tr => Proofs.AsmFormat.file_result o f = Ok tr) files outs ->
  run o files stdin = mkAFR (concat (map fst outs)) (concat (map snd outs)) None.
Proof. exact Proofs.AsmFormat.asm_format_concatenates. Qed.
Print Assumptions C05_asm_format_concatenates.

(* the diagnostics flag never changes what is written *)
Theorem C05_qc_flag_does_not_change_output : forall in_fmt nm text out_fmt t r,
  process_fh in_fmt nm text out_fmt true = Ok (t, r) ->
  process_fh in_fmt nm text out_fmt false = Ok (t, []).
Proof. exact Proofs.AsmFormat.qc_flag_does_not_change_output. Qed.
Print Assumptions C05_qc_flag_does_not_change_output.

(* the property's last clause at the level of the COMMAND: asm-format AGP -> TPF,
   then asm-format TPF -> AGP on what it wrote, gives the canonical AGP of the
   same assembly without its tags -- nothing else changes *)
Theorem C05_asm_format_agp_tpf_agp : forall nm nm' a t,
  agp_wf a -> tpf_wf (drop_tags a) -> format_agp a = Ok t ->
  exists t_tpf t2,
    process_fh (s "AGP") nm t (s "TPF") false = Ok (t_tpf, [])
    /\ process_fh (s "TPF") nm' t_tpf (s "AGP") false = Ok (t2, [])
    /\ format_agp (drop_tags a) = Ok t2.
Proof. exact Proofs.AsmFormat.asm_format_agp_tpf_agp. Qed.
Print Assumptions C05_asm_format_agp_tpf_agp.
