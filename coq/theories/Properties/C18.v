(* C18 -- placeholder until Proofs/OverlapResult.v lands *)
From Tola Require Import Py.Base Model.Fragment Model.Lookup Model.OverlapResult Model.OvrSpec.

Lemma C18_discard_start_agrees_example :
  let r := mkOvr (mkFrag 0 (s "b") 4 9 1 []) 1 9
             [RF (mkFrag 1 (s "c") 1 3 1 []); RG (mkGap 2 (s "scaffold")); RF (mkFrag 2 (s "d") 1 4 1 [])]
             [] None None 0 None [] in
  match discard_start r with
  | Ok r' => overhang_if_start_removed r = Ok (start_overhang r')
  | Err _ => False
  end.
Proof. vm_compute. reflexivity. Qed.
Print Assumptions C18_discard_start_agrees_example.
