(* C18 -- Overlap results keep span and content consistent under every edit
   sequence.  Only statements, each closed by [exact] of a lemma from
   Proofs/OverlapResult.v. *)
From Tola Require Import Py.Base Model.Fragment Model.Lookup Model.OverlapResult Model.OvrSpec
  Proofs.OverlapResult.
Import Proofs.OverlapResult.Example.

(* Every result the lookup returns satisfies the invariant [Inv]: its rows are
   a contiguous run src[i .. i+n) of the source scaffold in which only the
   first / last fragment may be a shortened copy (same name and strand, the
   scaffold-inner end kept), and start / end are the scaffold coordinates of
   what is left. *)
Theorem C18_init : forall src bait bs be fo,
  pos_rows src -> lookup_spec src bs be (Some fo) -> Inv src (ovr_of_found bait fo).
Proof. exact Inv_init. Qed.
Print Assumptions C18_init.

(* ... and every finite sequence of operations the methods accept preserves it
   (no bound on the length of the sequence or the size of the scaffold). *)
Theorem C18_invariant_all_sequences : forall src bait bs be fo ops r,
  pos_rows src -> ids_distinct src ->
  lookup_spec src bs be (Some fo) ->
  foldM apply_op ops (ovr_of_found bait fo) = Ok r ->
  Inv src r.
Proof. exact C18_invariant. Qed.
Print Assumptions C18_invariant_all_sequences.

(* what the invariant means for the observable attributes: end - start + 1 =
   total row length, first and last rows are fragments (no terminal gap),
   every row at least 1 bp *)
Theorem C18_consistent : forall src r, pos_rows src -> Inv src r -> consistent r.
Proof. exact Inv_consistent. Qed.
Print Assumptions C18_consistent.

(* the "what if" overhangs equal the overhang after actually discarding *)
Theorem C18_if_start_removed : forall r r',
  discard_start r = Ok r' -> overhang_if_start_removed r = Ok (start_overhang r').
Proof. exact overhang_if_start_removed_agrees. Qed.
Print Assumptions C18_if_start_removed.

Theorem C18_if_end_removed : forall r r',
  discard_end r = Ok r' -> overhang_if_end_removed r = Ok (end_overhang r').
Proof. exact overhang_if_end_removed_agrees. Qed.
Print Assumptions C18_if_end_removed.

(* bait overlaps are the plain interval arithmetic between bait and first /
   last row (start_overhang and end_overhang are so by definition) *)
Theorem C18_start_row_bait_overlap : forall r x v,
  first_row r = Ok x -> start_row_bait_overlap r = Ok v ->
  v = Z.max 0 (Z.min (f_end (o_bait r)) (o_start r + row_len x - 1)
               - Z.max (f_start (o_bait r)) (o_start r) + 1).
Proof. exact start_row_bait_overlap_spec. Qed.
Print Assumptions C18_start_row_bait_overlap.

Theorem C18_end_row_bait_overlap : forall r x v,
  last_row r = Ok x -> end_row_bait_overlap r = Ok v ->
  v = Z.max 0 (Z.min (f_end (o_bait r)) (o_end r)
               - Z.max (f_start (o_bait r)) (o_end r - row_len x + 1) + 1).
Proof. exact end_row_bait_overlap_spec. Qed.
Print Assumptions C18_end_row_bait_overlap.

(* an emptied result stays empty under every accepted operation *)
Theorem C18_empty_stays_empty : forall r o r',
  o_rows r = [] -> apply_op r o = Ok r' -> o_rows r' = [].
Proof. exact empty_stays_empty. Qed.
Print Assumptions C18_empty_stays_empty.

(* non-vacuity: a concrete 5-row source, lookup and 3-op sequence meeting all
   hypotheses with a non-empty result (Proofs/OverlapResult.v: C18_nonvacuous) *)
Theorem C18_hypotheses_satisfiable : exists src bait fo ops r,
  pos_rows src /\ ids_distinct src /\ length src = 5%nat
  /\ find_overlaps src (f_start bait) (f_end bait) = Ok (Some fo)
  /\ lookup_spec src (f_start bait) (f_end bait) (Some fo)
  /\ ops = [TrimFrag false false false; DiscardEnd; TrimLarge 2]
  /\ foldM apply_op ops (ovr_of_found bait fo) = Ok r
  /\ o_rows r = [RF a'; RG g10; RF b] /\ o_start r = 95 /\ o_end r = 160
  /\ Inv src r.
Proof. exact C18_nonvacuous. Qed.
Print Assumptions C18_hypotheses_satisfiable.

(* ---- the invariant holds in REAL runs: every overlap result stored by the
   remapping pipeline -- after all lookups, every round of the overhang
   resolver and all cuts, for every Pretext map over every input whose rows are
   at least 1 bp long -- satisfies Inv for the (numbered) input scaffold it was
   taken from, hence is consistent (the pipeline edits a stored result only
   through the four operations, or relabels it) *)
From Tola Require Model.Remap Proofs.PipelineInv.
Theorem C18_pipeline_Inv : forall c g prefix bpt input pretext rs,
  Forall (fun isc => pos_rows (snd isc)) input ->
  Model.Remap.remap_to_input c g prefix bpt input pretext = Ok rs ->
  forall r, In r (Model.Remap.b_store (Model.Remap.rs_b rs)) ->
    exists name src, In (name, src) (Model.Remap.number_input input 0) /\ Inv src r.
Proof. exact Proofs.PipelineInv.pipeline_Inv. Qed.
Print Assumptions C18_pipeline_Inv.

Theorem C18_pipeline_consistent : forall c g prefix bpt input pretext rs,
  Forall (fun isc => pos_rows (snd isc)) input ->
  Model.Remap.remap_to_input c g prefix bpt input pretext = Ok rs ->
  forall r, In r (Model.Remap.b_store (Model.Remap.rs_b rs)) -> consistent r.
Proof. exact Proofs.PipelineInv.pipeline_consistent. Qed.
Print Assumptions C18_pipeline_consistent.
