(* C11 -- Curation statistics count the real cuts, breaks and joins.
   Only statements, each closed by [exact] of a lemma from Proofs/Junctions.v.
   the cut counter is proved from the pipeline invariant of C01) *)
From Tola Require Import Py.Base Model.Fragment Model.Scaffold Model.Namer Model.Remap
  Proofs.Junctions.
From Tola Require Import Model.Lookup Model.OverlapResult Model.RemapSpec Proofs.RemapFinal.
From Coq Require Import Permutation.

(* an adjacency is the unordered pair of the two facing contig ends: the
   canonical junction of (a,b) equals that of (c,d) exactly when they are the
   same pair of ends (each end = name, coordinate, which end of the contig) *)
Theorem C11_junction_is_unordered_pair : forall a b c d j1 j2, pm a -> pm b -> pm c -> pm d ->
  junction_tuple a b = Ok j1 -> junction_tuple c d = Ok j2 ->
  (canon_junction j1 = canon_junction j2 <->
   (tail_end a = tail_end c /\ head_end b = head_end d) \/
   (tail_end a = head_end d /\ head_end b = tail_end c)).
Proof. exact junction_injective. Qed.
Print Assumptions C11_junction_is_unordered_pair.

(* reading a junction from the other side of the scaffold gives the same
   canonical junction ... *)
Theorem C11_junction_reverse_pair : forall a b ja jb, pm a -> pm b ->
  junction_tuple a b = Ok ja -> junction_tuple (frag_reverse b) (frag_reverse a) = Ok jb ->
  canon_junction ja = canon_junction jb.
Proof. exact junction_reverse_pair. Qed.
Print Assumptions C11_junction_reverse_pair.

(* ... so reversing a whole scaffold (in input or output) changes no junction
   set, hence neither breaks nor joins *)
Theorem C11_junction_set_reverse : forall rows js jr,
  Forall pm (frags_of rows) ->
  junction_set repaired rows = Ok js -> junction_set repaired (rows_reverse rows) = Ok jr ->
  forall j, In j js <-> In j jr.
Proof. exact junction_set_reverse. Qed.
Print Assumptions C11_junction_set_reverse.

Theorem C11_junction_set_reverse_same_size : forall rows js jr,
  Forall pm (frags_of rows) ->
  junction_set repaired rows = Ok js -> junction_set repaired (rows_reverse rows) = Ok jr ->
  Permutation js jr.
Proof. exact junction_set_reverse_perm. Qed.
Print Assumptions C11_junction_set_reverse_same_size.

(* junction sets exist whenever all strands are +1/-1, and fail (an error, not
   a wrong count) when a strand-0 fragment has a neighbour *)
Theorem C11_junction_set_ok : forall c rows, Forall pm (frags_of rows) ->
  exists js, junction_set c rows = Ok js.
Proof. exact junction_set_ok. Qed.
Print Assumptions C11_junction_set_ok.

Theorem C11_strand0_is_an_error : forall c rows a b, adjacent (frags_of rows) a b ->
  f_strand a = 0 \/ f_strand b = 0 -> junction_set c rows = Err ValueError.
Proof. exact junction_set_err_strand0. Qed.
Print Assumptions C11_strand0_is_an_error.

(* breaks = |In \ Out| and joins = |Out \ In| are computed with list functions
   that have their set meaning on duplicate-free lists *)
Theorem C11_diff_is_set_difference : forall a b x, In x (diff_j a b) <-> In x a /\ ~ In x b.
Proof. exact diff_j_in. Qed.
Print Assumptions C11_diff_is_set_difference.
Theorem C11_union_is_set_union : forall a b x, In x (union_j a b) <-> In x a \/ In x b.
Proof. exact union_j_in. Qed.
Print Assumptions C11_union_is_set_union.
Theorem C11_inter_is_set_intersection : forall a b x, In x (inter_j a b) <-> In x a /\ In x b.
Proof. exact inter_j_in. Qed.
Print Assumptions C11_inter_is_set_intersection.
Theorem C11_junction_sets_duplicate_free : forall c rows js, junction_set c rows = Ok js -> NoDup js.
Proof. exact junction_set_nodup. Qed.
Print Assumptions C11_junction_sets_duplicate_free.
Theorem C11_union_duplicate_free : forall a b, NoDup a -> NoDup b -> NoDup (union_j a b).
Proof. exact union_j_nodup. Qed.
Print Assumptions C11_union_duplicate_free.

(* the encoding of the pinned commit is refuted: [A+, B-] and its reverse have
   different junction sets (repaired by a fix: commit) *)
Theorem C11_legacy_refuted : exists rows js jr,
  Forall pm (frags_of rows) /\ junction_set (mkCfg true true true false true) rows = Ok js
  /\ junction_set (mkCfg true true true false true) (rows_reverse rows) = Ok jr
  /\ ~ (forall j, In j js <-> In j jr).
Proof. exact legacy_junction_refuted. Qed.
Print Assumptions C11_legacy_refuted.

(* the reported number of cuts equals the number of output fragments minus the
   number of input contigs, for every run of the whole pipeline that completes *)
Theorem C11_cuts_spec : forall c g prefix bpt input pretext o,
  input_ok input ->
  remap c g prefix bpt input pretext = Ok o ->
  Z.of_nat (length (out_frags o)) = Z.of_nat (length (in_frags input)) + out_cuts o.
Proof. exact cuts_spec. Qed.
Print Assumptions C11_cuts_spec.

(* "The haplotig-removal count equals the number of haplotig scaffolds
   written": the count reported in info.yaml is the number of scaffolds of the
   assembly keyed "Haplotig"; for every completed run each of them has rows
   (begins and ends with a fragment), so each is written; there is at most one
   such assembly; without one the count is 0 *)
From Tola Require Proofs.PipelineInv.
Theorem C11_haplotig_count : forall c g prefix bpt input pretext o,
  remap c g prefix bpt input pretext = Ok o ->
  (forall sc, In sc (Proofs.PipelineInv.haplotig_scaffolds o) ->
     sc_rows sc <> [] /\ (exists f t, sc_rows sc = RF f :: t) /\ (exists f t, sc_rows sc = t ++ [RF f]))
  /\ Proofs.PipelineInv.haplotig_removals o
     = zlen (filter Proofs.PipelineInv.has_rows (Proofs.PipelineInv.haplotig_scaffolds o))
  /\ ((forall a, In a (out_asms o) -> oa_key a <> Some (s "Haplotig")) -> Proofs.PipelineInv.haplotig_removals o = 0)
  /\ (forall a, In a (out_asms o) -> oa_key a = Some (s "Haplotig") ->
        Proofs.PipelineInv.haplotig_scaffolds o = oa_scaffolds a).
Proof. exact Proofs.PipelineInv.haplotig_count. Qed.
Print Assumptions C11_haplotig_count.

(* BREAKS AND JOINS, END TO END through [remap]: the reported number of manual
   breaks is the number of DISTINCT input adjacencies (canonical junctions --
   unordered pairs of facing contig ends -- between consecutive contigs of an
   input scaffold) that occur in no scaffold of any output assembly; the reported
   number of manual joins is the number of distinct output adjacencies that occur
   in no input scaffold. *)
From Tola Require Proofs.BreaksJoins.
Theorem C11_breaks_joins : forall g prefix bpt input pretext o,
  remap repaired g prefix bpt input pretext = Ok o ->
  exists broken joined : list junction,
    NoDup broken /\ NoDup joined
    /\ (forall j, In j broken <-> Proofs.BreaksJoins.input_adjacency input j /\ ~ Proofs.BreaksJoins.output_adjacency o j)
    /\ (forall j, In j joined <-> Proofs.BreaksJoins.output_adjacency o j /\ ~ Proofs.BreaksJoins.input_adjacency input j)
    /\ out_breaks o = zlen broken /\ out_joins o = zlen joined.
Proof. exact Proofs.BreaksJoins.breaks_joins_end_to_end. Qed.
Print Assumptions C11_breaks_joins.

(* "reversing a whole scaffold, in input ..., changes neither count": the set of
   input adjacencies is the same for the input with one scaffold reversed (and
   renamed at will) *)
Theorem C11_input_adjacency_reversal_invariant : forall l1 l2 name name' rows j,
  Proofs.BreaksJoins.input_adjacency (l1 ++ (name, rows) :: l2) j
  <-> Proofs.BreaksJoins.input_adjacency (l1 ++ (name', rows_reverse rows) :: l2) j.
Proof. exact Proofs.BreaksJoins.input_adjacency_reverse. Qed.
Print Assumptions C11_input_adjacency_reversal_invariant.
