(* C10 -- placeholder until the lemmas land *)
From Tola Require Import Py.Base Model.Fragment Model.Scaffold Model.Namer Model.Remap.

Lemma C10_multi_chr_list_example :
  multi_chr_list (s "SUPER_9") 2 = [s "SUPER_9A"; s "SUPER_9B"] /\ multi_chr_list (s "SUPER_9") 1 = [s "SUPER_9"].
Proof. vm_compute. split; reflexivity. Qed.
Print Assumptions C10_multi_chr_list_example.
