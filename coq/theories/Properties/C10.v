(* C10 -- Chromosome, unloc and haplotig names are unique and ranked by size.
   Only statements, each closed by [exact] of a lemma from Proofs/Naming.v (and
   Proofs/NaturalKey.v for the output order).  Proved here: the renaming /
   ranking / numbering mechanics for every input; name uniqueness across a
   whole run and the multi-haplotype grouping are decided by the
   correspondence + oracle only (see DESIGN.md). *)
From Tola Require Import Py.Base Py.Dec Py.Sort Model.Fragment Model.Scaffold Model.NaturalKey
  Model.Namer Model.Remap Proofs.Naming Proofs.NaturalKey.
From Coq Require Import Permutation Sorted.

(* rename_by_size (haplotigs after all cuts, unlocs per Pretext scaffold): the
   same names in the same order, objects permuted so that lengths are
   non-increasing along the names, ties in creation order *)
Theorem C10_rename_by_size_spec : forall (A : Type) (ids : list A) (name_of : A -> str) (length_of : A -> Z),
  let r := rename_by_size ids name_of length_of in
  map snd r = map name_of ids
  /\ Permutation (map fst r) ids
  /\ StronglySorted (fun a b => length_of a >= length_of b) (map fst r)
  /\ (forall z, filter (fun a => length_of a =? z) (map fst r) = filter (fun a => length_of a =? z) ids).
Proof. exact rename_by_size_spec. Qed.
Print Assumptions C10_rename_by_size_spec.

(* H_1, H_2, ... and <chr>_unloc_1, _2, ... are handed out without holes *)
Theorem C10_haplotig_names_sequential : forall nm id ft st nm' l,
  label_scaffold nm id ft st = Ok (nm', l) -> mem_str (s "FalseDuplicate") ft = false ->
  mem_str (s "Haplotig") ft = true ->
  nm_hap_n nm' = nm_hap_n nm + 1 /\ lb_name l = s "H_" ++ str_of_Z (nm_hap_n nm + 1)
  /\ nm_hap_scaffolds nm' = nm_hap_scaffolds nm ++ [id].
Proof. exact haplotig_names_sequential. Qed.
Print Assumptions C10_haplotig_names_sequential.

Theorem C10_unloc_names_sequential : forall nm id ft st nm' l n0,
  label_scaffold nm id ft st = Ok (nm', l) -> mem_str (s "FalseDuplicate") ft = false ->
  mem_str (s "Haplotig") ft = false -> mem_str (s "Unloc") ft = true -> nm_cur_name nm = Some n0 ->
  nm_unloc_n nm' = nm_unloc_n nm + 1 /\ lb_name l = n0 ++ s "_unloc_" ++ str_of_Z (nm_unloc_n nm + 1)
  /\ nm_unloc_scaffolds nm' = nm_unloc_scaffolds nm ++ [id].
Proof. exact unloc_names_sequential. Qed.
Print Assumptions C10_unloc_names_sequential.

Theorem C10_other_labels_keep_counters : forall nm id ft st nm' l,
  label_scaffold nm id ft st = Ok (nm', l) ->
  (mem_str (s "FalseDuplicate") ft = true \/ (mem_str (s "Haplotig") ft = false /\ mem_str (s "Unloc") ft = false)) ->
  nm' = nm.
Proof. exact other_labels_keep_counters. Qed.
Print Assumptions C10_other_labels_keep_counters.

(* chromosome groups are numbered 1..n in order of non-increasing length
   (chromosome plus its unlocs), stable on ties *)
Theorem C10_groups_sorted_desc : forall fused haps (groups : list chr_group),
  StronglySorted (fun a b => group_length fused haps a >= group_length fused haps b)
                 (sort_by_Z_desc (group_length fused haps) groups)
  /\ Permutation (sort_by_Z_desc (group_length fused haps) groups) groups.
Proof. exact groups_sorted_desc. Qed.
Print Assumptions C10_groups_sorted_desc.

Theorem C10_numbering : forall prefix fused haps (groups : list chr_group),
  let sorted := sort_by_Z_desc (group_length fused haps) groups in
  fst (fold_left (fun '(fs, n) g => (name_group prefix n fs g, n + 1)) sorted (fused, 1))
  = fold_left (fun fs '(k, g) => name_group prefix (Z.of_nat k + 1) fs g)
              (combine (seq 0 (length sorted)) sorted) fused.
Proof. exact name_chromosomes_numbering. Qed.
Print Assumptions C10_numbering.

(* single haplotype: one group per run of equal Pretext scaffold name, never an
   error, and naming changes names only, of the listed scaffolds only *)
Theorem C10_single_hap_groups : forall fused h items st,
  Forall (fun it => fst it = h) items -> items <> [] ->
  Forall (fun it => exists sc o, nth_error fused (snd it) = Some sc /\ sc_orig sc = Some o /\ o <> []) items ->
  foldM (build_groups_step fused [h] false) items (mkCg [new_group [h]] None None) = Ok st ->
  Forall (fun g => exists o idxs, group_hap g h = [(o, idxs)] /\ idxs <> []) (cg_groups st)
  /\ flat_map (fun g => flat_map snd (group_hap g h)) (cg_groups st) = map snd items
  /\ existsb (group_bad [h]) (cg_groups st) = false.
Proof. exact single_hap_groups. Qed.
Print Assumptions C10_single_hap_groups.

Theorem C10_name_chromosomes_single_total : forall prefix fused h items,
  Forall (fun it => fst it = h) items ->
  Forall (fun it => exists sc o, nth_error fused (snd it) = Some sc /\ sc_orig sc = Some o /\ o <> []) items ->
  exists fused', name_chromosomes prefix fused items = Ok fused'
    /\ length fused' = length fused
    /\ (forall i sc, nth_error fused i = Some sc -> exists sc', nth_error fused' i = Some sc'
          /\ sc_rows sc' = sc_rows sc /\ sc_tag sc' = sc_tag sc /\ sc_hap sc' = sc_hap sc
          /\ sc_rank sc' = sc_rank sc /\ sc_orig sc' = sc_orig sc)
    /\ (forall i, ~ In i (map snd items) -> nth_error fused' i = nth_error fused i).
Proof. exact name_chromosomes_single_total. Qed.
Print Assumptions C10_name_chromosomes_single_total.

(* a member named <Pretext name><suffix> becomes <prefix><n><suffix>
   (suffix = "" for the chromosome, "_unloc_k" for its unlocs) *)
Theorem C10_name_group_effect : forall prefix n fs h o idxs i sc sfx,
  NoDup idxs -> In i idxs -> nth_error fs i = Some sc ->
  o <> [] -> sc_name sc = o ++ sfx ->
  (forall j, (j < length sfx)%nat -> starts_with o (skipn j sfx) = false) ->
  nth_error (name_group prefix n fs [(h, [(o, idxs)])]) i
  = Some (with_name sc (prefix ++ str_of_Z n ++ sfx)).
Proof. exact name_group_single_effect. Qed.
Print Assumptions C10_name_group_effect.

(* homologues grouped with one number get the suffixes A, B, C, ... *)
Theorem C10_multi_chr_list : forall name n, length (multi_chr_list name n) = n
  /\ (n = 1%nat -> multi_chr_list name n = [name])
  /\ (n <> 1%nat -> forall k, (k < n)%nat ->
        nth_error (multi_chr_list name n) k = Some (name ++ [ascii_of_N (65 + N.of_nat k)])).
Proof. exact multi_chr_list_spec. Qed.
Print Assumptions C10_multi_chr_list.

(* output order: rank first, then numeric-aware name (C20), an autosome's
   unlocs directly after it *)
Theorem C10_output_order_total : forall (A : Type) (rank_of : A -> Z) (name_of : A -> str) (l : list A),
  exists r, smart_sort rank_of name_of l = Ok r /\ Permutation r l.
Proof. exact @smart_sort_total. Qed.
Print Assumptions C10_output_order_total.

Theorem C10_unloc_between : forall p n n' sfx m,
  clean p -> clean sfx -> 0 <= n < n' -> 0 <= m ->
  exists kc ku kn, natural_key (p ++ str_of_Z n ++ sfx) = Ok kc
    /\ natural_key (p ++ str_of_Z n ++ sfx ++ s "_unloc_" ++ str_of_Z m) = Ok ku
    /\ natural_key (p ++ str_of_Z n') = Ok kn /\ key_cmp kc ku = Lt /\ key_cmp ku kn = Lt.
Proof. exact unloc_between. Qed.
Print Assumptions C10_unloc_between.

(* ---- the chromosome list (chromosome.list.csv) *)
From Tola Require Model.Stats Proofs.StatsSpec.

(* one line per scaffold of rank 1 (autosome) or 2 (named chromosome), unlocs
   included, none for anything else; no file when there is no such scaffold *)
Theorem C10_csv_line_count : forall prefix scs lo cn,
  length (Model.Stats.chr_csv_lines prefix scs lo cn)
  = length (filter (fun sc => (sc_rank sc =? 1) || (sc_rank sc =? 2)) scs).
Proof. exact Proofs.StatsSpec.csv_line_count. Qed.
Print Assumptions C10_csv_line_count.

Theorem C10_csv_none_iff : forall prefix scs,
  Model.Stats.chromosome_name_csv prefix scs = None
  <-> (forall sc, In sc scs -> (sc_rank sc =? 1) || (sc_rank sc =? 2) = false).
Proof. exact Proofs.StatsSpec.csv_none_iff. Qed.
Print Assumptions C10_csv_none_iff.

(* every line is name,chromosome,yes|no LF for the rank 1/2 scaffolds in order *)
Theorem C10_csv_lines_shape : forall prefix scs lo cn,
  Forall2 Proofs.StatsSpec.is_csv_line_of (filter Proofs.StatsSpec.rank12 scs)
          (Model.Stats.chr_csv_lines prefix scs lo cn).
Proof. exact Proofs.StatsSpec.csv_lines_shape. Qed.
Print Assumptions C10_csv_lines_shape.

(* localised = no exactly for the unlocs: when the assembly lists each
   chromosome as its main scaffold followed by its unlocs (all carrying the
   same, non-empty Pretext scaffold name, different from the neighbouring
   chromosomes'), the file is, chromosome by chromosome, the main scaffold's
   line with "yes" and one line with "no" and the SAME chromosome name per
   unloc; the chromosome name is the scaffold name minus the autosome prefix *)
Theorem C10_csv_groups : forall prefix groups,
  Forall Proofs.StatsSpec.grp_ok groups -> Proofs.StatsSpec.adjacent_differ groups ->
  Model.Stats.chr_csv_lines prefix
    (flat_map (fun g => Proofs.StatsSpec.g_main g :: Proofs.StatsSpec.g_unlocs g) groups) None []
  = flat_map (fun g =>
      let chr := replace prefix [] (sc_name (Proofs.StatsSpec.g_main g)) (Some 1%nat) in
      (sc_name (Proofs.StatsSpec.g_main g) ++ s "," ++ chr ++ s ",yes
")
        :: map (fun u => sc_name u ++ s "," ++ chr ++ s ",no
") (Proofs.StatsSpec.g_unlocs g)) groups.
Proof. exact Proofs.StatsSpec.csv_groups. Qed.
Print Assumptions C10_csv_groups.

Theorem C10_chr_of_prefixed : forall prefix x, prefix <> [] ->
  Proofs.StatsSpec.chr_of prefix (prefix ++ x) = x.
Proof. exact Proofs.StatsSpec.chr_of_prefixed. Qed.
Print Assumptions C10_chr_of_prefixed.

(* the recorded known finding, on the model: an unloc whose chromosome has no
   main scaffold in the assembly is listed as localised *)
Theorem C10_csv_orphan_unloc_refuted :
  Model.Stats.chr_csv_lines (s "SUPER_") [Proofs.StatsSpec.mk_sc "SUPER_4_unloc_1" 2 "Scaffold_4"] None []
  = [s "SUPER_4_unloc_1,4_unloc_1,yes
"].
Proof. exact Proofs.StatsSpec.csv_orphan_unloc. Qed.
Print Assumptions C10_csv_orphan_unloc_refuted.

(* non-vacuity (Proofs/Naming.v, by computation): Scaffold_1 (100 bp),
   Scaffold_2 (500 bp), Scaffold_2_unloc_1 (50 bp) become SUPER_2, SUPER_1,
   SUPER_1_unloc_1 *)
Theorem C10_example : name_chromosomes (s "SUPER_") ex_fused ex_items
  = Ok (map (fun '(sc, n) => with_name sc n)
            (combine ex_fused [s "SUPER_2"; s "SUPER_1"; s "SUPER_1_unloc_1"])).
Proof. vm_compute. reflexivity. Qed.
Print Assumptions C10_example.

(* ---- scaffold names are unique within each output assembly *)
From Tola Require Proofs.UniqueNames Proofs.RemapTail.

(* END TO END, single-haplotype maps, every hypothesis on the input and the
   map: if the generated namespaces are respected (input_namespace_ok: neither
   the autosome prefix nor "H_" is a prefix of, or prefixed by, an input
   scaffold name, a Pretext scaffold name or a chromosome-name tag; Pretext
   scaffold names start with an upper-case letter; chromosome-name tags do not
   start with a digit), at most 191 painted scaffolds (the model's characters
   are bytes: 65 + k wraps there, Python's chr does not), and no haplotype
   anywhere (no haplotype tag, no HAP_..._n names), then every output assembly
   of every completed run has pairwise distinct scaffold names *)
Theorem C10_names_unique_single_haplotype : forall g prefix bpt input pretext o,
  remap repaired g prefix bpt input pretext = Ok o ->
  Proofs.UniqueNames.input_namespace_ok prefix input pretext ->
  (length (filter Proofs.UniqueNames.painted_b pretext) <= 191)%nat ->
  Proofs.UniqueNames.no_haplotypes input -> Proofs.UniqueNames.no_haplotypes pretext ->
  forall a, In a (out_asms o) -> NoDup (map sc_name (oa_scaffolds a)).
Proof. exact Proofs.UniqueNames.names_nodup_no_haplotypes. Qed.
Print Assumptions C10_names_unique_single_haplotype.

(* with haplotypes: the same conclusion when, in addition, on the fused
   scaffolds (1) no untagged scaffold's haplotype is spelled like another's tag
   and (2) scaffolds with the same tag and name have the same haplotype.
   (2) is exactly what the known finding violates. *)
Theorem C10_names_unique : forall g prefix bpt input pretext o,
  remap repaired g prefix bpt input pretext = Ok o ->
  Proofs.UniqueNames.input_namespace_ok prefix input pretext ->
  (length (filter Proofs.UniqueNames.painted_b pretext) <= 191)%nat ->
  Proofs.UniqueNames.no_tag_hap_clash (Proofs.UniqueNames.fused_of_run g prefix bpt input pretext) ->
  Proofs.UniqueNames.tagged_same_hap (Proofs.UniqueNames.fused_of_run g prefix bpt input pretext) ->
  forall a, In a (out_asms o) -> NoDup (map sc_name (oa_scaffolds a)).
Proof. exact Proofs.UniqueNames.names_nodup_observable. Qed.
Print Assumptions C10_names_unique.

(* fusing leaves pairwise distinct (tag, haplotype, name) keys, for every run *)
Theorem C10_fuse_keys_nodup : forall g rs fused,
  fuse_all repaired g rs = Ok fused -> NoDup (map Proofs.UniqueNames.fuse_key_of fused).
Proof. exact Proofs.UniqueNames.fuse_keys_nodup. Qed.
Print Assumptions C10_fuse_keys_nodup.

(* and a repeated name inside one assembly can only be one of three collisions
   (same tag / different haplotypes; a tag spelled like a haplotype; an empty
   label) *)
Theorem C10_duplicate_is_collision : forall l, NoDup (map Proofs.UniqueNames.fuse_key_of l) ->
  forall k cur scs, In (k, (cur, scs)) (fold_left Proofs.RemapTail.group_step l []) ->
  forall i j a b, i <> j -> nth_error scs i = Some a -> nth_error scs j = Some b ->
    sc_name a = sc_name b -> Proofs.UniqueNames.collision a b.
Proof. exact Proofs.UniqueNames.assembly_duplicate_is_collision. Qed.
Print Assumptions C10_duplicate_is_collision.

(* the recorded known finding, on the model (and reproduced on /repo): X
   painted in HAP1 and in HAP2, one piece of each tagged Contaminant -- the
   Contaminant assembly holds two scaffolds named X *)
Theorem C10_duplicate_names_refuted :
  Proofs.UniqueNames.names_of (remap repaired Proofs.UniqueNames.ex_gap (s "SUPER_") (10, 1)
                                 Proofs.UniqueNames.dupX_input Proofs.UniqueNames.dupX_pretext)
  = [(Some (s "HAP1"), [s "SUPER_X"]);
     (Some (s "Contaminant"), [s "X"; s "X"]);
     (Some (s "HAP2"), [s "SUPER_X"])].
Proof. exact Proofs.UniqueNames.duplicate_names_in_contaminants_chrX. Qed.
Print Assumptions C10_duplicate_names_refuted.

(* non-vacuity: two painted chromosomes (one with an unloc), a haplotig, a
   contaminant and a left-over scaffold satisfy all hypotheses of the first theorem *)
Theorem C10_names_unique_instance : forall o,
  remap repaired Proofs.UniqueNames.ex_gap (s "SUPER_") (10, 1)
        Proofs.UniqueNames.nv_input Proofs.UniqueNames.nv_pretext = Ok o ->
  forall a, In a (out_asms o) -> NoDup (map sc_name (oa_scaffolds a)).
Proof. exact Proofs.UniqueNames.unique_names_example_no_haplotypes. Qed.
Print Assumptions C10_names_unique_instance.

(* ---- multi-haplotype maps: "the first haplotype decides and homologues
   grouped with it share the number" *)
From Tola Require Proofs.MultiHap.

(* a well-interleaved two-haplotype map (for each chromosome its h1 Pretext
   scaffold with unlocs, then its h2 one) is sorted into exactly one group per
   chromosome, none flagged as an error *)
Theorem C10_two_hap_groups : forall fused h1 h2 (pairs : list (Proofs.MultiHap.sub * Proofs.MultiHap.sub)),
  h1 <> h2 -> pairs <> [] ->
  Forall (fun p => Proofs.MultiHap.sub_ok fused (fst p) /\ Proofs.MultiHap.sub_ok fused (snd p)) pairs ->
  exists st,
    foldM (build_groups_step fused [h1; h2] true)
          (Proofs.MultiHap.items_of (map (Proofs.MultiHap.chrom2 h1 h2) pairs))
          (mkCg [new_group [h1; h2]] None None) = Ok st
    /\ cg_groups st = map (Proofs.MultiHap.chrom2 h1 h2) pairs
    /\ existsb (group_bad [h1; h2]) (cg_groups st) = false.
Proof. exact Proofs.MultiHap.two_hap_groups. Qed.
Print Assumptions C10_two_hap_groups.

(* ... and both homologues of the chromosome at rank k by H1 sequence length
   (ties in map order), with their unlocs, are named prefix ++ (k+1) (++ the
   _unloc_ suffix); nothing but names changes *)
Theorem C10_two_hap_names : forall prefix fused h1 h2 (p0 : Proofs.MultiHap.sub * Proofs.MultiHap.sub) pairs,
  h1 <> h2 ->
  Forall (fun p => Proofs.MultiHap.sub_ok fused (fst p) /\ Proofs.MultiHap.sub_ok fused (snd p)) (p0 :: pairs) ->
  NoDup (map snd (Proofs.MultiHap.items_of (map (Proofs.MultiHap.chrom2 h1 h2) (p0 :: pairs)))) ->
  exists fused',
    name_chromosomes prefix fused (Proofs.MultiHap.items_of (map (Proofs.MultiHap.chrom2 h1 h2) (p0 :: pairs))) = Ok fused'
    /\ Proofs.Naming.upd_ok (map snd (Proofs.MultiHap.items_of (map (Proofs.MultiHap.chrom2 h1 h2) (p0 :: pairs)))) fused fused'
    /\ forall k p, nth_error (sort_by_Z_desc (fun p => sumZ (map (Proofs.MultiHap.member_len fused) (snd (fst p)))) (p0 :: pairs)) k = Some p ->
       forall sb i sc sfx, sb = fst p \/ sb = snd p -> In i (snd sb) ->
         nth_error fused i = Some sc -> sc_name sc = fst sb ++ sfx ->
         (forall j, (j < length sfx)%nat -> starts_with (fst sb) (skipn j sfx) = false) ->
         nth_error fused' i = Some (with_name sc (prefix ++ str_of_Z (Z.of_nat k + 1) ++ sfx)).
Proof. exact Proofs.MultiHap.two_hap_names. Qed.
Print Assumptions C10_two_hap_names.

(* the first haplotype decides: two runs that differ only in the lengths of
   scaffolds of the OTHER haplotypes hand out the same names *)
Theorem C10_first_haplotype_decides : forall prefix fusedA fusedB h0 hs c0 chrs,
  hs <> [] ->
  Forall (Proofs.MultiHap.chrom_ok fusedA (h0 :: hs)) (c0 :: chrs) -> Proofs.MultiHap.seps fusedA (c0 :: chrs) ->
  dedup str_eqb (map fst (Proofs.MultiHap.items_of (c0 :: chrs))) = h0 :: hs ->
  Forall (Proofs.MultiHap.first_hap_single (h0 :: hs)) (c0 :: chrs) ->
  Forall2 Proofs.MultiHap.same_labels fusedA fusedB ->
  (forall i, In (h0, i) (Proofs.MultiHap.items_of (c0 :: chrs)) ->
             Proofs.MultiHap.member_len fusedB i = Proofs.MultiHap.member_len fusedA i) ->
  exists fa fb,
    name_chromosomes prefix fusedA (Proofs.MultiHap.items_of (c0 :: chrs)) = Ok fa
    /\ name_chromosomes prefix fusedB (Proofs.MultiHap.items_of (c0 :: chrs)) = Ok fb
    /\ map sc_name fa = map sc_name fb.
Proof. exact Proofs.MultiHap.first_haplotype_decides. Qed.
Print Assumptions C10_first_haplotype_decides.

(* CHROMOSOME NUMBERS, END TO END through [remap] for single-haplotype maps (the
   hypotheses of C10_names_unique_single_haplotype plus pairwise distinct Pretext
   scaffold names): the painted scaffolds without a name tag (rank 1) are named
   <prefix><k><suffix> with suffix "" or "_unloc_<m>"; the chromosomes -- one per
   Pretext scaffold name: the chromosome together with its unloc pieces -- are
   numbered k = 1..n without holes in order of non-increasing sequence length
   (fragment bases of all rank-1 scaffolds from that Pretext scaffold). *)
From Tola Require Proofs.ChromosomeNumbers.
Theorem C10_chromosome_numbers : forall g prefix bpt input pretext o,
  remap repaired g prefix bpt input pretext = Ok o ->
  Proofs.UniqueNames.input_namespace_ok prefix input pretext ->
  (length (filter Proofs.UniqueNames.painted_b pretext) <= 191)%nat ->
  Proofs.UniqueNames.no_haplotypes input -> Proofs.UniqueNames.no_haplotypes pretext ->
  NoDup (map fst pretext) ->
  Proofs.ChromosomeNumbers.numbered_by_length prefix o.
Proof. exact Proofs.ChromosomeNumbers.chromosome_numbers_end_to_end. Qed.
Print Assumptions C10_chromosome_numbers.

(* "distinct Pretext scaffold names" was FORCED BY THE PROOF: a map that lists
   Scaffold_1, Scaffold_2 and then Scaffold_1 again gives the pieces of Scaffold_1
   two different chromosome numbers (refutation by computation; DESIGN 13.5) *)
Theorem C10_chromosome_numbers_need_distinct_map_names :
  ~ Proofs.ChromosomeNumbers.chromosome_numbers_statement_original.
Proof. exact Proofs.ChromosomeNumbers.chromosome_numbers_original_refuted. Qed.
Print Assumptions C10_chromosome_numbers_need_distinct_map_names.

(* TWO HAPLOTYPES, END TO END through [remap] (Proofs/CompletionTwoHaps*.v): on
   every well-paired painted two-haplotype tiling map (the hypotheses of
   C02_two_haplotype_maps_complete) the run completes and there is one pair of
   rank-1 output scaffolds per pair of Pretext scaffolds -- the first in an
   assembly keyed h1, the second in an assembly keyed h2, each made from its own
   Pretext scaffold -- and the pair at rank kk by non-increasing FIRST-haplotype
   sequence length (ties in map order) is named <prefix><kk+1> in BOTH
   haplotypes: homologues share their number, the first haplotype decides it. *)
From Tola Require Proofs.CompletionTwoHapsNames.
From Tola Require Import Py.Sort.
Theorem C10_two_haplotype_names_end_to_end :
  forall g prefix n d input pretext h1 h2 (hapf : str -> str) k,
  0 < d -> d <= n ->
  Forall Proofs.Completion.input_ok input -> NoDup (map fst input) ->
  NoDup (map key_of (Model.RemapSpec.in_frags input)) ->
  Forall (fun f => f_tags f = []) (Model.RemapSpec.in_frags input) ->
  Forall (fun f => f_strand f = 1 \/ f_strand f = -1) (Model.RemapSpec.in_frags input) ->
  Forall (fun p => exists b t, snd p = RF b :: t) pretext ->
  Forall (fun b => (f_strand b = 1 \/ f_strand b = -1) /\ In (f_name b) (map fst input))
         (Proofs.CoreKept.baits_of pretext) ->
  Forall (Proofs.Completion.scaffold_tiled n d (Proofs.CoreKept.baits_of pretext)) input ->
  lower h1 <> lower h2 ->
  Proofs.CompletionTagged.is_hap_tag h1 = true -> Proofs.CompletionTagged.is_hap_tag h2 = true ->
  Proofs.CompletionTwoHaps.hap_baits hapf pretext ->
  map hapf (map fst pretext) = Proofs.CompletionTwoHapsGlue.alternating h1 h2 (S k) ->
  NoDup (map fst pretext) -> Forall (fun p => fst p <> []) pretext ->
  Forall (fun p => exists b src x, In b (frags_of (snd p)) /\ In (f_name b, src) (number_input input 0)
                     /\ Proofs.CoreKept.in_core (error_length (n, d)) b x /\ Proofs.CoreKept.contig_base src x) pretext ->
  exists o (homs : list (scaffold * scaffold)),
    remap repaired g prefix (n, d) input pretext = Ok o
    /\ length homs = S k
    /\ (forall j sc1 sc2, nth_error homs j = Some (sc1, sc2) ->
          sc_orig sc1 = nth_error (map fst pretext) (2 * j)
          /\ sc_orig sc2 = nth_error (map fst pretext) (2 * j + 1)
          /\ sc_rank sc1 = 1 /\ sc_rank sc2 = 1
          /\ (exists a, In a (out_asms o) /\ oa_key a = Some h1 /\ In sc1 (oa_scaffolds a))
          /\ (exists a, In a (out_asms o) /\ oa_key a = Some h2 /\ In sc2 (oa_scaffolds a)))
    /\ (forall kk sc1 sc2,
          nth_error (sort_by_Z_desc (fun p => frags_length (sc_rows (fst p))) homs) kk = Some (sc1, sc2) ->
          sc_name sc1 = prefix ++ Py.Dec.str_of_Z (Z.of_nat kk + 1)
          /\ sc_name sc2 = prefix ++ Py.Dec.str_of_Z (Z.of_nat kk + 1)).
Proof. exact Proofs.CompletionTwoHapsNames.two_haplotype_maps_names. Qed.
Print Assumptions C10_two_haplotype_names_end_to_end.
