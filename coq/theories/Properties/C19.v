(* C19 -- Overlap QC reports exactly the overlapping contig pairs.
   Only statements, each closed by [exact] of a lemma from Proofs/C19.v. *)
From Tola Require Import Py.Base Model.Fragment Model.Scaffold Proofs.C19.

(* overlap is symmetric *)
Theorem C19_overlaps_sym : forall a b, overlaps a b = overlaps b a.
Proof. exact overlaps_sym. Qed.
Print Assumptions C19_overlaps_sym.

(* a pair is an overlap iff same contig name and a common base *)
Theorem C19_overlaps_iff_common_base : forall a b,
  wf a -> wf b ->
  (overlaps a b = true <-> same_name a b /\ exists x, in_frag x a /\ in_frag x b).
Proof. exact overlaps_iff_common_base. Qed.
Print Assumptions C19_overlaps_iff_common_base.

(* overlap length = size of the intersection; absent when there is none *)
Theorem C19_overlap_length_spec : forall a b,
  wf a -> wf b ->
  match overlap_length a b with
  | Some n => overlaps a b = true /\ n >= 1 /\
              n = Z.min (f_end a) (f_end b) - Z.max (f_start a) (f_start b) + 1 /\
              (forall x, in_frag x a /\ in_frag x b <->
                         Z.max (f_start a) (f_start b) <= x < Z.max (f_start a) (f_start b) + n)
  | None => overlaps a b = false
  end.
Proof. exact overlap_length_spec. Qed.
Print Assumptions C19_overlap_length_spec.

Theorem C19_abuts_iff_gap0 : forall a b,
  wf a -> wf b -> (abuts a b = true <-> gap_between a b = Some 0).
Proof. exact abuts_iff_gap0. Qed.
Print Assumptions C19_abuts_iff_gap0.

(* exactly one of overlap / abut / positive gap *)
Theorem C19_trichotomy : forall a b,
  wf a -> wf b -> same_name a b ->
  (overlaps a b = true /\ abuts a b = false /\ gap_between a b = None)
  \/ (overlaps a b = false /\ abuts a b = true /\ gap_between a b = Some 0)
  \/ (overlaps a b = false /\ abuts a b = false /\ exists g, g > 0 /\ gap_between a b = Some g).
Proof. exact trichotomy. Qed.
Print Assumptions C19_trichotomy.

Theorem C19_different_names : forall a b,
  ~ same_name a b ->
  overlaps a b = false /\ abuts a b = false /\ overlap_length a b = None /\ gap_between a b = None.
Proof. exact different_names. Qed.
Print Assumptions C19_different_names.

(* the scan reports a pair iff the two fragments sit at positions i < j of the
   flattened fragment list and overlap ... *)
Theorem C19_scan_spec : forall (B : Type) (l : list (frag * B)) x y,
  In (x, y) (scan_pairs l) <->
  (exists i j, (i < j)%nat /\ nth_error l i = Some x /\ nth_error l j = Some y)
  /\ overlaps (fst x) (fst y) = true.
Proof. exact @scan_pairs_spec. Qed.
Print Assumptions C19_scan_spec.

(* ... and each unordered pair once (fragments made distinct by their position) *)
Theorem C19_scan_once : forall (B : Type) (l : list (frag * B)),
  NoDup l -> NoDup (scan_pairs l).
Proof. exact @scan_pairs_NoDup. Qed.
Print Assumptions C19_scan_once.

(* non-vacuity: two well-formed same-named fragments sharing a base *)
Example C19_nonvacuous :
  let a := mkFrag 0 (s "c") 1 10 1 [] in
  let b := mkFrag 1 (s "c") 10 12 (-1) [] in
  wf a /\ wf b /\ same_name a b /\ overlaps a b = true /\ overlap_length a b = Some 1.
Proof. vm_compute. repeat split; discriminate. Qed.

(* THE REPORT of asm-format --qc-overlaps (Model/AsmFormat.v, compared with the
   real command's STDERR byte for byte): silent exactly when the scan finds no
   pair; otherwise the header line and ONE block "\nOverlap:\n..." per pair of
   the scan (C19_scan_spec / C19_scan_once: each unordered overlapping pair
   once), in scan order -- blocks with identical text are not merged. *)
From Tola Require Import Model.AgpTpf Model.AsmFormat.
From Tola Require Proofs.AsmFormat.
Theorem C19_report_blocks : forall in_fmt nm text out_fmt t rep,
  process_fh in_fmt nm text out_fmt true = Ok (t, rep) ->
  exists a, Proofs.AsmFormat.parse_as in_fmt text = Ok a
    /\ let pairs := scan_pairs (flat_frags (map snd (a_scaffolds a))) in
       (pairs = [] /\ rep = [])
       \/ (pairs <> []
           /\ exists blocks, rep = Proofs.AsmFormat.report_header nm ++ concat blocks
                /\ length blocks = length pairs
                /\ Forall (fun b => exists rest, b = Proofs.AsmFormat.block_head ++ rest) blocks).
Proof. exact Proofs.AsmFormat.qc_report_blocks. Qed.
Print Assumptions C19_report_blocks.
