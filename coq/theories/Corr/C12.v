(* C12 correspondence: one case = one scaffold and a batch of queries *)
From Tola Require Import Py.Base Model.Fragment Model.Lookup.

(* observation of IndexedAssembly.find_overlaps: None | OverlapResult(start,
   end, rows = rows[i : i+n]) | an exception *)
Inductive obs := ONone | OSome (st en i n : Z) | OErr.

Record case := mkCase { c_rows : list row; c_queries : list (Z * Z * obs) }.

Definition obs_ok (rows : list row) (q : Z * Z * obs) : bool :=
  let '(a, b, o) := q in
  match find_overlaps rows a b, o with
  | Ok None, ONone => true
  | Ok (Some fo), OSome st en i n =>
      (fo_start fo =? st) && (fo_end fo =? en)
      && rows_eqb (fo_rows fo) (py_slice rows i (i + n))
      && (zlen (fo_rows fo) =? n)
  | Err _, OErr => true
  | _, _ => false
  end.

Definition check (c : case) : bool := forallb (obs_ok (c_rows c)) (c_queries c).

Definition show (c : case) :=
  map (fun '(a, b, _) =>
         (a, b, match find_overlaps (c_rows c) a b with
                | Ok None => Ok None
                | Ok (Some fo) => Ok (Some (fo_start fo, fo_end fo, zlen (fo_rows fo)))
                | Err e => Err e
                end)) (c_queries c).
