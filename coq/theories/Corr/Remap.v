(* correspondence cases for the pipeline properties (C01 C02 C07-C11, C17) *)
From Tola Require Import Py.Base Model.Fragment Model.Scaffold Model.Namer Model.Remap.

(* observed output scaffold: name, tag, haplotype, rank, original_name, rows *)
Record oscaffold := mkOS {
  os_name : str; os_tag : option str; os_hap : option str; os_rank : Z;
  os_orig : option str; os_rows : list row
}.
Record oasm := mkOA { oa_k : option str; oa_cur : bool; oa_scs : list oscaffold }.
Record oout := mkOO {
  oo_asms : list oasm; oo_cuts : Z; oo_breaks : Z; oo_joins : Z; oo_per : list (str * (Z * Z))
}.

Record case := mkCase {
  c_input : list (str * list row);
  c_pretext : list (str * list row);
  c_bpt : Z * Z;                       (* bp per texel as an exact fraction *)
  c_prefix : str;
  c_obs : option oout                  (* None = an exception escaped *)
}.

Definition os_eqb (m : scaffold) (o : oscaffold) : bool :=
  str_eqb (sc_name m) (os_name o) && opt_eqb str_eqb (sc_tag m) (os_tag o)
  && opt_eqb str_eqb (sc_hap m) (os_hap o) && (sc_rank m =? os_rank o)
  && opt_eqb str_eqb (sc_orig m) (os_orig o) && rows_eqb (sc_rows m) (os_rows o).

Fixpoint list_eqb2 {A B} (eqb : A -> B -> bool) (a : list A) (b : list B) : bool :=
  match a, b with
  | [], [] => true
  | x :: a', y :: b' => eqb x y && list_eqb2 eqb a' b'
  | _, _ => false
  end.

Definition oa_eqb (m : out_asm) (o : oasm) : bool :=
  opt_eqb str_eqb (oa_key m) (oa_k o) && Bool.eqb (oa_curated m) (oa_cur o)
  && list_eqb2 os_eqb (oa_scaffolds m) (oa_scs o).

Definition out_eqb (m : outputs) (o : oout) : bool :=
  list_eqb2 oa_eqb (out_asms m) (oo_asms o)
  && (out_cuts m =? oo_cuts o) && (out_breaks m =? oo_breaks o) && (out_joins m =? oo_joins o)
  && list_eqb (fun x y => str_eqb (fst x) (fst y) && (fst (snd x) =? fst (snd y))
                          && (snd (snd x) =? snd (snd y))) (out_per_asm m) (oo_per o).

Definition default_gap : gap := mkGap 200 (s "scaffold").

Definition run (c : case) : res outputs :=
  remap repaired default_gap (c_prefix c) (c_bpt c) (c_input c) (c_pretext c).

Definition check (c : case) : bool :=
  match run c, c_obs c with
  | Ok m, Some o => out_eqb m o
  | Err _, None => true
  | _, _ => false
  end.

Definition show (c : case) :=
  match run c with
  | Ok m => Ok (map (fun a => (oa_key a, oa_curated a,
                               map (fun sc => (sc_name sc, sc_tag sc, sc_hap sc, sc_rank sc, sc_orig sc, sc_rows sc))
                                   (oa_scaffolds a))) (out_asms m),
                out_cuts m, out_breaks m, out_joins m, out_per_asm m)
  | Err e => Err e
  end.

(* diagnosis for replay files: which component differs *)
Definition os_diag (m : scaffold) (o : oscaffold) :=
  (sc_name m, str_eqb (sc_name m) (os_name o), opt_eqb str_eqb (sc_tag m) (os_tag o),
   opt_eqb str_eqb (sc_hap m) (os_hap o), (sc_rank m =? os_rank o),
   opt_eqb str_eqb (sc_orig m) (os_orig o), rows_eqb (sc_rows m) (os_rows o)).
Definition diag (c : case) :=
  match run c, c_obs c with
  | Ok m, Some o =>
      Some (length (out_asms m), length (oo_asms o),
            (out_cuts m, oo_cuts o), (out_breaks m, oo_breaks o), (out_joins m, oo_joins o),
            map (fun '(a, b) => (oa_key a, opt_eqb str_eqb (oa_key a) (oa_k b), Bool.eqb (oa_curated a) (oa_cur b),
                                 length (oa_scaffolds a), length (oa_scs b),
                                 map (fun '(x, y) => os_diag x y) (combine (oa_scaffolds a) (oa_scs b))))
                (combine (out_asms m) (oo_asms o)),
            out_per_asm m)
  | _, _ => None
  end.
