(* correspondence cases for the pipeline properties (C01 C02 C07-C11, C17) *)
From Tola Require Import Py.Base Model.Fragment Model.Scaffold Model.Namer Model.Remap Model.Stats Model.OutputPlan.

(* observed output scaffold: name, tag, haplotype, rank, original_name, rows *)
Record oscaffold := mkOS {
  os_name : str; os_tag : option str; os_hap : option str; os_rank : Z;
  os_orig : option str; os_rows : list row
}.
Record oasm := mkOA { oa_k : option str; oa_cur : bool; oa_scs : list oscaffold }.
(* --output name, FASTA index available, names of the files opened in order,
   how the run ended (0 = to the end, 1 = sys.exit, 2 = another exception),
   text written to the chromosome report, (file name, text) of the
   chromosome lists *)
Record oplan := mkOP {
  op_name : str; op_fai : bool; op_opens : list str; op_end : Z;
  op_report : option str; op_csvs : list (str * str)
}.

Record oout := mkOO {
  oo_asms : list oasm; oo_cuts : Z; oo_breaks : Z; oo_joins : Z; oo_per : list (str * (Z * Z));
  (* chromosome_name_csv of every curated assembly, in dict order (None = no line) *)
  oo_csv : list (option str * option str);
  (* name_assemblies(out, "rt", "2"): (key, stem, curated, scaffold names); None = it raised *)
  oo_named : option (list (option str * str * bool * list str));
  (* the same case run through pretext_to_asm.cli with a recording
     get_output_filehandle: None = not observed *)
  oo_plan : option oplan
}.

Record case := mkCase {
  c_input : list (str * list row);
  c_pretext : list (str * list row);
  c_bpt : Z * Z;                       (* bp per texel as an exact fraction *)
  c_prefix : str;
  c_obs : option oout                  (* None = an exception escaped *)
}.

Definition os_eqb (m : scaffold) (o : oscaffold) : bool :=
  str_eqb (sc_name m) (os_name o) && opt_eqb str_eqb (sc_tag m) (os_tag o)
  && opt_eqb str_eqb (sc_hap m) (os_hap o) && (sc_rank m =? os_rank o)
  && opt_eqb str_eqb (sc_orig m) (os_orig o) && rows_eqb (sc_rows m) (os_rows o).

Fixpoint list_eqb2 {A B} (eqb : A -> B -> bool) (a : list A) (b : list B) : bool :=
  match a, b with
  | [], [] => true
  | x :: a', y :: b' => eqb x y && list_eqb2 eqb a' b'
  | _, _ => false
  end.

Definition oa_eqb (m : out_asm) (o : oasm) : bool :=
  opt_eqb str_eqb (oa_key m) (oa_k o) && Bool.eqb (oa_curated m) (oa_cur o)
  && list_eqb2 os_eqb (oa_scaffolds m) (oa_scs o).

Definition out_eqb (m : outputs) (o : oout) : bool :=
  list_eqb2 oa_eqb (out_asms m) (oo_asms o)
  && (out_cuts m =? oo_cuts o) && (out_breaks m =? oo_breaks o) && (out_joins m =? oo_joins o)
  && list_eqb (fun x y => str_eqb (fst x) (fst y) && (fst (snd x) =? fst (snd y))
                          && (snd (snd x) =? snd (snd y))) (out_per_asm m) (oo_per o).

Definition csv_of (prefix : str) (m : outputs) : list (option str * option str) :=
  map (fun a => (oa_key a, chromosome_name_csv prefix (oa_scaffolds a)))
      (filter oa_curated (out_asms m)).

Definition named_of (m : outputs) : option (list (option str * str * bool * list str)) :=
  match name_assemblies (out_asms m) (s "rt") (s "2") with
  | Ok l => Some (map (fun n => (na_key n, na_name n, na_curated n, map sc_name (na_scaffolds n))) l)
  | Err _ => None
  end.

Definition named_eqb (a b : option str * str * bool * list str) : bool :=
  let '(k1, n1, c1, l1) := a in let '(k2, n2, c2, l2) := b in
  opt_eqb str_eqb k1 k2 && str_eqb n1 n2 && Bool.eqb c1 c2 && list_eqb str_eqb l1 l2.

Definition extras_eqb (prefix : str) (m : outputs) (o : oout) : bool :=
  list_eqb (fun x y => opt_eqb str_eqb (fst x) (fst y) && opt_eqb str_eqb (snd x) (snd y))
           (csv_of prefix m) (oo_csv o)
  && opt_eqb (list_eqb named_eqb) (named_of m) (oo_named o).

Definition end_code (e : plan_end) : Z :=
  match e with PlanDone => 0 | PlanExit1 => 1 | PlanRaised => 2 end.

Definition model_csvs (prefix : str) (named : list named_asm) : list (str * str) :=
  flat_map (fun n => if na_curated n
                     then match chromosome_name_csv prefix (na_scaffolds n) with
                          | Some t => [(na_name n ++ s ".chromosome.list.csv", t)]
                          | None => []
                          end
                     else []) named.

Definition plan_eqb (prefix : str) (m : outputs) (o : oplan) : bool :=
  let '(opens, e) := output_plan prefix (op_name o) (op_fai o) (out_asms m) in
  list_eqb str_eqb opens (op_opens o) && (end_code e =? op_end o)
  && match e, parse_output_file (op_name o) with
     | PlanDone, Ok f =>
         match name_assemblies (out_asms m) (of_root f) (of_version f) with
         | Ok named =>
             opt_eqb str_eqb (chromosomes_report_csv prefix named) (op_report o)
             && list_eqb (fun x y => str_eqb (fst x) (fst y) && str_eqb (snd x) (snd y))
                         (model_csvs prefix named) (op_csvs o)
         | Err _ => false
         end
     | _, _ => true
     end.

Definition default_gap : gap := mkGap 200 (s "scaffold").

Definition run (c : case) : res outputs :=
  remap repaired default_gap (c_prefix c) (c_bpt c) (c_input c) (c_pretext c).

Definition check (c : case) : bool :=
  match run c, c_obs c with
  | Ok m, Some o => out_eqb m o && extras_eqb (c_prefix c) m o
                     && match oo_plan o with Some pl => plan_eqb (c_prefix c) m pl | None => true end
  | Err _, None => true
  | _, _ => false
  end.

Definition show (c : case) :=
  match run c with
  | Ok m => Ok (map (fun a => (oa_key a, oa_curated a,
                               map (fun sc => (sc_name sc, sc_tag sc, sc_hap sc, sc_rank sc, sc_orig sc, sc_rows sc))
                                   (oa_scaffolds a))) (out_asms m),
                out_cuts m, out_breaks m, out_joins m, out_per_asm m)
  | Err e => Err e
  end.

(* diagnosis for replay files: which component differs *)
Definition os_diag (m : scaffold) (o : oscaffold) :=
  (sc_name m, str_eqb (sc_name m) (os_name o), opt_eqb str_eqb (sc_tag m) (os_tag o),
   opt_eqb str_eqb (sc_hap m) (os_hap o), (sc_rank m =? os_rank o),
   opt_eqb str_eqb (sc_orig m) (os_orig o), rows_eqb (sc_rows m) (os_rows o)).
Definition diag (c : case) :=
  match run c, c_obs c with
  | Ok m, Some o =>
      Some (length (out_asms m), length (oo_asms o),
            (out_cuts m, oo_cuts o), (out_breaks m, oo_breaks o), (out_joins m, oo_joins o),
            map (fun '(a, b) => (oa_key a, opt_eqb str_eqb (oa_key a) (oa_k b), Bool.eqb (oa_curated a) (oa_cur b),
                                 length (oa_scaffolds a), length (oa_scs b),
                                 map (fun '(x, y) => os_diag x y) (combine (oa_scaffolds a) (oa_scs b))))
                (combine (out_asms m) (oo_asms o)),
            out_per_asm m, csv_of (c_prefix c) m, named_of m,
            match oo_plan o with
            | Some pl => Some (output_plan (c_prefix c) (op_name pl) (op_fai pl) (out_asms m),
                               match parse_output_file (op_name pl) with
                               | Ok f => match name_assemblies (out_asms m) (of_root f) (of_version f) with
                                         | Ok named => Some (chromosomes_report_csv (c_prefix c) named, model_csvs (c_prefix c) named)
                                         | Err _ => None end
                               | Err _ => None end)
            | None => None
            end)
  | _, _ => None
  end.
