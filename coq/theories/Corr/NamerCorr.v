(* C17 correspondence for ScaffoldNamer.make_scaffold_name called with the tag
   set in an explicit order: every order the (hash-seed dependent) set
   iteration could produce *)
From Tola Require Import Py.Base Model.Fragment Model.Scaffold Model.Namer.

(* what is observed of the namer afterwards: current name, rank, haplotype,
   target flag, primary haplotype; None = an exception *)
Record nobs := mkNObs { no_name : option str; no_rank : Z; no_hap : option str; no_target : bool; no_primary : option str }.

Record case := mkCase {
  c_first_row : row;            (* scaffold.rows[0] *)
  c_scaffold_name : str;
  c_orders : list (list str * option nobs)   (* the same tag set in several orders *)
}.

Definition obs_ok (nm : res namer) (o : option nobs) : bool :=
  match nm, o with
  | Ok n, Some x =>
      opt_eqb str_eqb (nm_cur_name n) (no_name x) && (nm_cur_rank n =? no_rank x)
      && opt_eqb str_eqb (nm_cur_hap n) (no_hap x) && Bool.eqb (nm_target n) (no_target x)
      && opt_eqb str_eqb (nm_primary n) (no_primary x)
  | Err _, None => true
  | _, _ => false
  end.

Definition check (c : case) : bool :=
  forallb (fun '(tags, o) =>
             obs_ok (make_scaffold_name (new_namer (s "SUPER_")) (c_scaffold_name c) [c_first_row c] tags) o)
          (c_orders c).

Definition show (c : case) :=
  map (fun '(tags, _) =>
         match make_scaffold_name (new_namer (s "SUPER_")) (c_scaffold_name c) [c_first_row c] tags with
         | Ok n => Ok (nm_cur_name n, nm_cur_rank n, nm_cur_hap n, nm_target n, nm_primary n)
         | Err e => Err e
         end) (c_orders c).
