(* C16 correspondence: predicted vs observed directory after one CLI run *)
From Tola Require Import Py.Base Model.Clobber.

Record case := mkCase {
  c_noclobber : bool;
  c_pre : list (str * str);       (* files present before the run: path, content digest *)
  c_opens : list (str * str);     (* output opens of the run in order: path, digest of what it writes *)
  c_exit_ok : bool;               (* observed exit status 0 *)
  c_named : option str;           (* path named in the error message *)
  c_after : list (str * str)      (* files present after the run *)
}.

Definition same_fs (a b : fsys) : bool :=
  Nat.eqb (length a) (length b)
  && forallb (fun '(p, c) => opt_eqb str_eqb (lookup b p) (Some c)) a.

Definition check (c : case) : bool :=
  let '(fs', st) := run_opens (c_noclobber c) (c_pre c) (c_opens c) in
  same_fs fs' (c_after c)
  && match st, c_exit_ok c, c_named c with
     | ExitOk, true, None => true
     | ExitCollision p, false, Some q => str_eqb p q
     | _, _, _ => false
     end.

Definition show (c : case) := run_opens (c_noclobber c) (c_pre c) (c_opens c).
