(* C18 correspondence: a source scaffold, a bait, an operation sequence, and
   the OverlapResult attributes observed after the lookup and after each op *)
From Tola Require Import Py.Base Model.Fragment Model.Lookup Model.OverlapResult.

Record snap := mkSnap {
  sn_start : Z; sn_end : Z; sn_rows : list row;
  (* start_overhang, end_overhang, start_row_bait_overlap, end_row_bait_overlap,
     overhang_if_start_removed, overhang_if_end_removed; None = raised *)
  sn_figs : list (option Z)
}.
Inductive step_obs := SOk (sn : snap) | SErr.

Record case := mkCase {
  c_src : list row; c_bait : frag; c_ops : list op;
  c_init : option snap;            (* None: the lookup returned None *)
  c_steps : list step_obs          (* observation after each op, up to and including the first error *)
}.

Definition res_opt {A} (r : res A) : option A := match r with Ok a => Some a | Err _ => None end.

Definition figures (r : ovr) : list (option Z) :=
  [ Some (start_overhang r); Some (end_overhang r);
    res_opt (start_row_bait_overlap r); res_opt (end_row_bait_overlap r);
    res_opt (overhang_if_start_removed r); res_opt (overhang_if_end_removed r) ].

Definition snap_ok (r : ovr) (sn : snap) : bool :=
  (o_start r =? sn_start sn) && (o_end r =? sn_end sn)
  && rows_eqb (o_rows r) (sn_rows sn)
  && list_eqb (opt_eqb Z.eqb) (figures r) (sn_figs sn).

Fixpoint steps_ok (r : ovr) (ops : list op) (obs : list step_obs) : bool :=
  match ops, obs with
  | [], [] => true
  | o :: ops', SOk sn :: obs' =>
      match apply_op r o with
      | Ok r' => snap_ok r' sn && steps_ok r' ops' obs'
      | Err _ => false
      end
  | o :: _, [SErr] => match apply_op r o with Err _ => true | Ok _ => false end
  | _, _ => false
  end.

Definition check (c : case) : bool :=
  match find_overlaps (c_src c) (f_start (c_bait c)) (f_end (c_bait c)), c_init c with
  | Ok None, None => match c_steps c with [] => true | _ => false end
  | Ok (Some fo), Some sn =>
      let r := ovr_of_found (c_bait c) fo in
      snap_ok r sn && steps_ok r (firstn (length (c_steps c)) (c_ops c)) (c_steps c)
  | _, _ => false
  end.

Fixpoint run_show (r : ovr) (ops : list op) :=
  match ops with
  | [] => []
  | o :: t => match apply_op r o with
              | Ok r' => Ok (o_start r', o_end r', o_rows r', figures r') :: run_show r' t
              | Err e => [Err e]
              end
  end.
Definition show (c : case) :=
  match find_overlaps (c_src c) (f_start (c_bait c)) (f_end (c_bait c)) with
  | Ok (Some fo) => let r := ovr_of_found (c_bait c) fo in
                    Some (o_start r, o_end r, figures r, run_show r (c_ops c))
  | _ => None
  end.
