(* comparison functions for the C19 correspondence cases *)
From Tola Require Import Py.Base Model.Fragment Model.Scaffold Model.AsmFormat Corr.AsmFormatCorr.

Inductive case :=
  | CPred (a b : frag) (ov : bool) (ol : option Z) (ab : bool) (gb : option Z)
  (* scan: fragments carry their global index as f_id; observation = list of
     ((frag id, scaffold index), (frag id, scaffold index)) or None *)
  | CScan (scs : list (list row)) (obs : option (list ((Z * nat) * (Z * nat))))
  (* one invocation of asm-format (--qc-overlaps): output and STDERR report byte for byte *)
  | CAsmFormat (o : af_opts) (files : list (str * str)) (stdin : str) (raised : bool) (out err : str).

Definition optZ_eqb := opt_eqb Z.eqb.

Definition scan_ids (scs : list (list row)) : option (list ((Z * nat) * (Z * nat))) :=
  match find_overlapping_fragments scs with
  | None => None
  | Some l => Some (map (fun '((f1, i1), (f2, i2)) => ((f_id f1, i1), (f_id f2, i2))) l)
  end.

Definition pair_eqb (a b : (Z * nat) * (Z * nat)) : bool :=
  let '((x1, i1), (x2, i2)) := a in let '((y1, j1), (y2, j2)) := b in
  (x1 =? y1) && Nat.eqb i1 j1 && (x2 =? y2) && Nat.eqb i2 j2.

Definition check (c : case) : bool :=
  match c with
  | CPred a b ov ol ab gb =>
      Bool.eqb (overlaps a b) ov && optZ_eqb (overlap_length a b) ol
      && Bool.eqb (abuts a b) ab && optZ_eqb (gap_between a b) gb
  | CScan scs obs => opt_eqb (list_eqb pair_eqb) (scan_ids scs) obs
  | CAsmFormat o files stdin raised out err => af_check o files stdin raised out err
  end.

Definition show (c : case) :=
  match c with
  | CPred a b _ _ _ _ =>
      (Some (overlaps a b, overlap_length a b, abuts a b, gap_between a b), None)
  | CScan scs _ => (None, scan_ids scs)
  | CAsmFormat _ _ _ _ _ _ => (None, None)
  end.
