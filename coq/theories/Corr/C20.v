(* C20 correspondence *)
From Tola Require Import Py.Base Model.NaturalKey.

Inductive case :=
  (* names with the key Assembly.name_natural_key returned (None = it raised) *)
  | CKeys (l : list (str * option (list kelt)))
  (* (rank, name) items; observed order (indices into items) after
     smart_sort_scaffolds and after scaffolds_sorted_by_name; None = raised *)
  | CSort (items : list (Z * str)) (smart : option (list nat)) (byname : option (list nat)).

Definition kelt_eqb (a b : kelt) : bool :=
  match a, b with
  | KS x, KS y => str_eqb x y
  | KI n, KI m => n =? m
  | _, _ => false
  end.

Definition key_obs_ok (p : str * option (list kelt)) : bool :=
  match natural_key (fst p), snd p with
  | Ok k, Some k' => list_eqb kelt_eqb k k'
  | Err _, None => true
  | _, _ => false
  end.

Definition indexed {A} (l : list A) : list (nat * A) := combine (seq 0 (length l)) l.

Definition order_ok (r : res (list (nat * (Z * str)))) (o : option (list nat)) : bool :=
  match r, o with
  | Ok l, Some idx => list_eqb Nat.eqb (map fst l) idx
  | Err _, None => true
  | _, _ => false
  end.

Definition check (c : case) : bool :=
  match c with
  | CKeys l => forallb key_obs_ok l
  | CSort items smart byname =>
      order_ok (smart_sort (fun x => fst (snd x)) (fun x => snd (snd x)) (indexed items)) smart
      && order_ok (sorted_by_name (fun x => snd (snd x)) (indexed items)) byname
  end.

Definition show (c : case) :=
  match c with
  | CKeys l => (map (fun p => natural_key (fst p)) l, None)
  | CSort items _ _ =>
      ([], Some (smart_sort (fun x => fst (snd x)) (fun x => snd (snd x)) (indexed items)))
  end.
