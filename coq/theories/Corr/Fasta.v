(* correspondence cases shared by the FASTA properties C03 C04 C13 C14 *)
From Tola Require Import Py.Base Model.Fragment Model.Scaffold Model.Fasta Model.Stream.

Definition info_t := (str * (Z * Z * Z * Z))%type.   (* name, (length, offset, rpl, mll) *)
Definition mk_idx (l : list info_t) : list (str * finfo) :=
  map (fun '(n, (a, b, c, d)) => (n, mkInfo a b c d)) l.

Inductive case :=
  (* index_fasta_file(file, buf): None = raised *)
  | CIndex (file : str) (buf : Z) (obs : option (list info_t * list (str * list row)))
  (* FastaIndex.sequence_bytes(info, start, end) for a batch of intervals *)
  | CSeqBytes (file : str) (info : Z * Z * Z * Z) (qs : list (Z * Z * option str))
  (* get_sequence_iter(frag) chunk list *)
  | CSeqChunks (file : str) (idx : list info_t) (buf : Z) (f : frag) (obs : option (list str))
  (* get_gap_iter(gap) chunk list *)
  | CGapChunks (buf : Z) (len : Z) (obs : option (list str))
  (* FastaStream(out, index, line_length).write_assembly *)
  | CStream (file : str) (idx : list info_t) (buf L : Z) (scs : list (str * list row)) (obs : option str)
  (* reverse_complement(bytes) *)
  | CRevcomp (x : str) (obs : str)
  (* IUPAC_COMPLEMENT over all byte values: codes in, codes out *)
  | CTable (obs : list N)
  (* Scaffold.reverse().rows *)
  | CReverse (rows : list row) (obs : list row)
  (* FastaSeq(name, seq, desc).fasta_bytes(L) *)
  | CFastaBytes (name : str) (desc : option str) (x : str) (L : Z) (obs : option str)
  (* load_index of a written .fai *)
  | CFai (idx : list info_t) (text : str) (loaded : option (list info_t)).

Definition info_eqb (a b : info_t) : bool :=
  let '(n, (a1, a2, a3, a4)) := a in let '(m, (b1, b2, b3, b4)) := b in
  str_eqb n m && (a1 =? b1) && (a2 =? b2) && (a3 =? b3) && (a4 =? b4).
Definition infos_of (l : list (str * finfo)) : list info_t :=
  map (fun '(n, i) => (n, (fi_length i, fi_offset i, fi_rpl i, fi_mll i))) l.
Definition asm_eqb (a b : list (str * list row)) : bool :=
  list_eqb (fun x y => str_eqb (fst x) (fst y) && rows_eqb (snd x) (snd y)) a b.

Definition res_eq {A} (eqb : A -> A -> bool) (r : res A) (o : option A) : bool :=
  match r, o with
  | Ok a, Some b => eqb a b
  | Err _, None => true
  | _, _ => false
  end.

Definition check (c : case) : bool :=
  match c with
  | CIndex file buf obs =>
      match index_fasta file buf, obs with
      | Ok (idx, asm, _), Some (oidx, oasm) =>
          list_eqb info_eqb (infos_of idx) oidx && asm_eqb asm oasm
      | Err _, None => true
      | _, _ => false
      end
  | CSeqBytes file (a, b, c', d) qs =>
      forallb (fun '(st, en, o) => res_eq str_eqb (sequence_bytes file (mkInfo a b c' d) st en) o) qs
  | CSeqChunks file idx buf f obs =>
      res_eq (list_eqb str_eqb) (sequence_chunks file (mk_idx idx) buf f) obs
  | CGapChunks buf len obs =>
      res_eq (list_eqb str_eqb) (gap_chunks buf "N"%char len) obs
  | CStream file idx buf L scs obs =>
      res_eq str_eqb (write_assembly file (mk_idx idx) buf L "N"%char scs) obs
  | CRevcomp x obs => str_eqb (reverse_complement x) obs
  | CTable obs =>
      list_eqb N.eqb (map (fun n => code (complement (ascii_of_N n))) (map N.of_nat (seq 0 256))) obs
  | CReverse rows obs => rows_eqb (rows_reverse rows) obs
  | CFastaBytes name desc x L obs => res_eq str_eqb (fasta_bytes name desc x L) obs
  | CFai idx text loaded =>
      str_eqb (write_index (mk_idx idx)) text
      && res_eq (list_eqb info_eqb)
                (match load_index text with Ok l => Ok (infos_of l) | Err e => Err e end) loaded
  end.

Definition show (c : case) :=
  match c with
  | CIndex file buf _ =>
      (match index_fasta file buf with
       | Ok (idx, asm, pk) => Ok (infos_of idx, asm, pk) | Err e => Err e end, [], Ok [])
  | CSeqBytes file (a, b, c', d) qs =>
      (Err OutOfFuel, map (fun '(st, en, _) => sequence_bytes file (mkInfo a b c' d) st en) qs, Ok [])
  | CSeqChunks file idx buf f _ => (Err OutOfFuel, [], sequence_chunks file (mk_idx idx) buf f)
  | CGapChunks buf len _ => (Err OutOfFuel, [], gap_chunks buf "N"%char len)
  | CStream file idx buf L scs _ =>
      (Err OutOfFuel, [write_assembly file (mk_idx idx) buf L "N"%char scs], Ok [])
  | CRevcomp x _ => (Err OutOfFuel, [Ok (reverse_complement x)], Ok [])
  | CTable _ => (Err OutOfFuel, [], Ok [])
  | CReverse rows _ => (Err OutOfFuel, [], Ok [])
  | CFastaBytes name desc x L _ => (Err OutOfFuel, [fasta_bytes name desc x L], Ok [])
  | CFai idx text _ => (Err OutOfFuel, [Ok (write_index (mk_idx idx))], Ok [])
  end.
