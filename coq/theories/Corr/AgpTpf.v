(* correspondence cases for the text formats (C05 C06, cache round trip) *)
From Tola Require Import Py.Base Model.Fragment Model.Scaffold Model.Fasta Model.AgpTpf Model.AsmFormat Corr.AsmFormatCorr.

Inductive case :=
  | CFormatAgp (a : assembly) (obs : option str)
  | CFormatTpf (a : assembly) (obs : option str)
  | CParseAgp (text : str) (obs : option assembly)
  | CParseTpf (text : str) (obs : option assembly)
  (* Assembly.bp_per_texel from header lines: None = raised; Some None = no
     resolution line; Some (Some (floor, num, den)) observed float as
     1 + floor(x) and the exact decimal num/den *)
  | CBpt (headers : list str) (obs : option (option Z))
  (* one invocation of asm-format *)
  | CAsmFormat (o : af_opts) (files : list (str * str)) (stdin : str) (raised : bool) (out err : str).

Definition asm_eqb (a b : assembly) : bool :=
  strs_eqb (a_header a) (a_header b)
  && list_eqb (fun x y => str_eqb (fst x) (fst y) && rows_eqb (snd x) (snd y))
              (a_scaffolds a) (a_scaffolds b).

Definition res_eq {A} (eqb : A -> A -> bool) (r : res A) (o : option A) : bool :=
  match r, o with
  | Ok a, Some b => eqb a b
  | Err _, None => true
  | _, _ => false
  end.

Definition check (c : case) : bool :=
  match c with
  | CFormatAgp a obs => res_eq str_eqb (format_agp a) obs
  | CFormatTpf a obs => res_eq str_eqb (format_tpf a) obs
  | CParseAgp t obs => res_eq asm_eqb (parse_agp t) obs
  | CParseTpf t obs => res_eq asm_eqb (parse_tpf t) obs
  | CBpt hs obs =>
      res_eq (opt_eqb Z.eqb)
        (match bp_per_texel hs None with
         | Ok (Some (n, d)) => Ok (Some (1 + n / d))
         | Ok None => Ok None
         | Err e => Err e
         end) obs
  | CAsmFormat o files stdin raised out err => af_check o files stdin raised out err
  end.

Definition show (c : case) :=
  match c with
  | CFormatAgp a _ => (format_agp a, Ok (mkAsm [] []))
  | CFormatTpf a _ => (format_tpf a, Ok (mkAsm [] []))
  | CParseAgp t _ => (Ok [], parse_agp t)
  | CParseTpf t _ => (Ok [], parse_tpf t)
  | CBpt hs _ => (Ok [], Ok (mkAsm hs []))
  | CAsmFormat o files stdin _ _ _ =>
      let r := run o files stdin in
      (match afr_exn r with Some e => Err e | None => Ok (afr_out r ++ afr_err r) end, Ok (mkAsm [] []))
  end.
