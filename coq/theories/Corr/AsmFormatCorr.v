(* comparison of the asm-format model with one observed invocation (used by the
   C05, C06 and C19 correspondence files) *)
From Tola Require Import Py.Base Model.Fragment Model.Scaffold Model.Fasta Model.AgpTpf Model.AsmFormat.

(* raised: the command ended in an exception; otherwise what it wrote (to -o or
   STDOUT) and what it reported on STDERR, byte for byte *)
Definition af_check (o : af_opts) (files : list (str * str)) (stdin : str)
           (raised : bool) (out err : str) : bool :=
  let r := run o files stdin in
  match afr_exn r with
  | Some _ => raised
  | None => negb raised && str_eqb (afr_out r) out && str_eqb (afr_err r) err
  end.

Definition af_show (o : af_opts) (files : list (str * str)) (stdin : str) :=
  let r := run o files stdin in (afr_out r, afr_err r, afr_exn r).
