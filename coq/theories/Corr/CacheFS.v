(* C15 correspondence: a history of environment steps and per-process file
   operations as observed on the implementation, and what each process ended
   up with *)
From Tola Require Import Py.Base Model.CacheFS.

Inductive outcome := OGood | OBad | OFailed.

Record case := mkCase { c_history : list hop; c_outcomes : list outcome }.

Definition outcome_of (s : fs) (p : proc) : option outcome :=
  match pr_pc p with
  | PDone => Some (if proc_ok s p then OGood else OBad)
  | PFailed => Some OFailed
  | _ => None
  end.

Definition outcome_eqb (a : option outcome) (b : outcome) : bool :=
  match a, b with
  | Some OGood, OGood => true | Some OBad, OBad => true | Some OFailed, OFailed => true
  | _, _ => false
  end.

Fixpoint outcomes_ok (s : fs) (ps : list proc) (os : list outcome) : bool :=
  match ps, os with
  | [], [] => true
  | p :: ps', o :: os' => outcome_eqb (outcome_of s p) o && outcomes_ok s ps' os'
  | _, _ => false
  end.

(* outcomes are judged when a process finishes; the FASTA may be rewritten
   later, so each process is compared against the content current at its end:
   the harness closes every history before the next rewrite, and the check
   replays prefixes *)
Fixpoint run_check (w : world) (h : list hop) (os : list outcome) (done : nat) : bool :=
  match h with
  | [] => outcomes_ok (w_fs w) (skipn done (w_procs w)) (skipn done os)
  | HRewrite t :: rest =>
      (* processes finished so far are judged against the content before the rewrite *)
      let n := length (w_procs w) in
      outcomes_ok (w_fs w) (skipn done (w_procs w)) (firstn (n - done) (skipn done os))
      && match env_step true w (HRewrite t) with
         | Some w' => run_check w' rest os n
         | None => false
         end
  | x :: rest =>
      match env_step true w x with
      | Some w' => run_check w' rest os done
      | None => false
      end
  end.

Definition check (c : case) : bool := run_check init_world (c_history c) (c_outcomes c) 0.

Definition show (c : case) :=
  (* the longest prefix of the history the protocol accepts, and the final world *)
  let fix go (w : world) (h : list hop) (n : nat) :=
    match h with
    | [] => (n, w)
    | x :: t => match env_step true w x with Some w' => go w' t (S n) | None => (n, w) end
    end in
  go init_world (c_history c) 0%nat.
