(* Python's sorted()/list.sort(): a stable sort.  [le x y] says that x, which
   comes earlier in the input, may stay in front of y.
   Ascending by key: le x y := key x <=? key y.
   reverse=True (which also keeps equal keys in input order):
   le x y := key x >=? key y. *)
From Tola Require Import Py.Base.

Section Sort.
  Context {A : Type} (le : A -> A -> bool).

  (* x precedes, in the input, every element of l *)
  Fixpoint insert_front (x : A) (l : list A) : list A :=
    match l with
    | [] => [x]
    | y :: t => if le x y then x :: y :: t else y :: insert_front x t
    end.

  Fixpoint stable_sort (l : list A) : list A :=
    match l with
    | [] => []
    | x :: t => insert_front x (stable_sort t)
    end.
End Sort.

Definition sort_by_Z {A} (key : A -> Z) : list A -> list A :=
  stable_sort (fun x y => key x <=? key y).
Definition sort_by_Z_desc {A} (key : A -> Z) : list A -> list A :=
  stable_sort (fun x y => key x >=? key y).
