(* str(int) and int(str) for ASCII text, through the standard library's
   Decimal.uint so that DecimalZ.of_to gives the round trip. *)
From Tola Require Import Py.Base.
From Coq Require Import Decimal DecimalZ.

Fixpoint chars_of_uint (u : Decimal.uint) : str :=
  match u with
  | Nil => []
  | D0 u => "0"%char :: chars_of_uint u
  | D1 u => "1"%char :: chars_of_uint u
  | D2 u => "2"%char :: chars_of_uint u
  | D3 u => "3"%char :: chars_of_uint u
  | D4 u => "4"%char :: chars_of_uint u
  | D5 u => "5"%char :: chars_of_uint u
  | D6 u => "6"%char :: chars_of_uint u
  | D7 u => "7"%char :: chars_of_uint u
  | D8 u => "8"%char :: chars_of_uint u
  | D9 u => "9"%char :: chars_of_uint u
  end.

(* Python's str(z) *)
Definition str_of_Z (z : Z) : str :=
  match Z.to_int z with
  | Decimal.Pos u => chars_of_uint u
  | Decimal.Neg u => "-"%char :: chars_of_uint u
  end.

Definition digit_cons (c : ascii) (u : Decimal.uint) : option Decimal.uint :=
  match (code c - 48)%N with
  | 0%N => if (48 <=? code c)%N then Some (D0 u) else None
  | 1%N => Some (D1 u) | 2%N => Some (D2 u) | 3%N => Some (D3 u)
  | 4%N => Some (D4 u) | 5%N => Some (D5 u) | 6%N => Some (D6 u)
  | 7%N => Some (D7 u) | 8%N => Some (D8 u) | 9%N => Some (D9 u)
  | _ => None
  end.

(* a non-empty run of digits only *)
Fixpoint uint_of_digits (x : str) : option Decimal.uint :=
  match x with
  | [] => Some Nil
  | c :: t => do' u <- uint_of_digits t; digit_cons c u
  end.

Definition Z_of_digits (x : str) : option Z :=
  match x with
  | [] => None
  | _ => do' u <- uint_of_digits x; Some (Z.of_uint u)
  end.

(* digits with single underscores allowed between digits (PEP 515) *)
Fixpoint strip_underscores (prev_digit : bool) (x : str) : option str :=
  match x with
  | [] => if prev_digit then Some [] else None
  | c :: t =>
      if Ascii.eqb c "_"%char then
        if prev_digit then
          match t with
          | d :: _ => if is_digit d then strip_underscores false t else None
          | [] => None
          end
        else None
      else if is_digit c then
        do' r <- strip_underscores true t; Some (c :: r)
      else None
  end.

Fixpoint lstrip_space (x : str) : str :=
  match x with
  | c :: t => if is_space c then lstrip_space t else x
  | [] => []
  end.
Definition rstrip_space (x : str) : str := List.rev (lstrip_space (List.rev x)).
Definition strip_space (x : str) : str := rstrip_space (lstrip_space x).

(* Python's int(text) for ASCII text *)
Definition int_of_str (x : str) : res Z :=
  let y := strip_space x in
  let '(neg, body) :=
    match y with
    | c :: t => if Ascii.eqb c "-"%char then (true, t)
                else if Ascii.eqb c "+"%char then (false, t) else (false, y)
    | [] => (false, [])
    end in
  match body with
  | [] => Err ValueError
  | c :: _ =>
      if is_digit c then
        match strip_underscores false body with
        | Some ds =>
            match Z_of_digits ds with
            | Some z => Ok (if neg then - z else z)
            | None => Err ValueError
            end
        | None => Err ValueError
        end
      else Err ValueError
  end.
