(* Python-semantics prelude: result monad, strings as [list ascii], list
   indexing with Python's negative-index and IndexError behaviour, association
   lists standing for insertion-ordered dicts.  Definitions only; lemmas about
   them live in Proofs/. *)
From Coq Require Export ZArith List Bool Ascii.
From Coq Require String.
Export String.StringSyntax.
Notation string := String.string.
Notation list_ascii_of_string := String.list_ascii_of_string.
Export ListNotations.
Open Scope Z_scope.

(* ---------------------------------------------------------------- errors *)
Inductive exn :=
  | IndexError | KeyError | ValueError | TypeError | AttributeError
  | ZeroDivisionError | TaggingError | ChrNamerError | SystemExit | OutOfFuel.

Inductive res (A : Type) := Ok (a : A) | Err (e : exn).
Arguments Ok {A} a.
Arguments Err {A} e.

Definition bind {A B} (r : res A) (f : A -> res B) : res B :=
  match r with Ok a => f a | Err e => Err e end.
Notation "'do' x <- r ; k" := (bind r (fun x => k))
  (at level 200, x pattern, r at level 100, k at level 200).
Notation "'do'' x <- r ; k" := (match r with Some x => k | None => None end)
  (at level 200, x pattern, r at level 100, k at level 200).

Definition is_ok {A} (r : res A) : bool := match r with Ok _ => true | Err _ => false end.

Fixpoint mapM {A B} (f : A -> res B) (l : list A) : res (list B) :=
  match l with
  | [] => Ok []
  | x :: t => do y <- f x; do ys <- mapM f t; Ok (y :: ys)
  end.

Fixpoint foldM {A S} (f : S -> A -> res S) (l : list A) (s : S) : res S :=
  match l with
  | [] => Ok s
  | x :: t => do s' <- f s x; foldM f t s'
  end.

(* --------------------------------------------------------------- strings *)
Definition str := list ascii.
Definition s (x : string) : str := list_ascii_of_string x.
Arguments s x%string_scope.

Fixpoint list_eqb {A} (eqb : A -> A -> bool) (a b : list A) : bool :=
  match a, b with
  | [], [] => true
  | x :: a', y :: b' => if eqb x y then list_eqb eqb a' b' else false   (* lazy under vm_compute *)
  | _, _ => false
  end.

Definition str_eqb : str -> str -> bool := list_eqb Ascii.eqb.
Definition strs_eqb : list str -> list str -> bool := list_eqb str_eqb.

Definition opt_eqb {A} (eqb : A -> A -> bool) (a b : option A) : bool :=
  match a, b with
  | None, None => true
  | Some x, Some y => eqb x y
  | _, _ => false
  end.

Definition code (c : ascii) : N := N_of_ascii c.

(* Python's str comparison for ASCII text: lexicographic by code point,
   a proper prefix is smaller. *)
Fixpoint str_cmp (a b : str) : comparison :=
  match a, b with
  | [], [] => Eq
  | [], _ :: _ => Lt
  | _ :: _, [] => Gt
  | x :: a', y :: b' =>
      match N.compare (code x) (code y) with
      | Eq => str_cmp a' b'
      | c => c
      end
  end.

Definition mem_str (x : str) (l : list str) : bool := existsb (str_eqb x) l.

Fixpoint starts_with (p x : str) : bool :=
  match p, x with
  | [], _ => true
  | c :: p', d :: x' => Ascii.eqb c d && starts_with p' x'
  | _ :: _, [] => false
  end.

Definition is_digit (c : ascii) : bool := (48 <=? code c)%N && (code c <=? 57)%N.
Definition is_upper (c : ascii) : bool := (65 <=? code c)%N && (code c <=? 90)%N.
Definition is_lower (c : ascii) : bool := (97 <=? code c)%N && (code c <=? 122)%N.
Definition is_alpha (c : ascii) : bool := is_upper c || is_lower c.
(* ASCII members of Python's str.isspace / regex \s: \t \n \v \f \r, FS GS RS US, space *)
Definition is_space (c : ascii) : bool :=
  ((9 <=? code c)%N && (code c <=? 13)%N) || ((28 <=? code c)%N && (code c <=? 32)%N).

Definition lower_char (c : ascii) : ascii :=
  if is_upper c then ascii_of_N (code c + 32) else c.
Definition upper_char (c : ascii) : ascii :=
  if is_lower c then ascii_of_N (code c - 32) else c.
Definition lower (x : str) : str := map lower_char x.

(* str.replace(old, new) for a non-empty [old]: all non-overlapping
   occurrences, left to right.  [count = None] means all, [Some n] at most n. *)
Fixpoint replace_fuel (fuel : nat) (old new x : str) (count : option nat) : str :=
  match fuel with
  | O => x
  | S fuel' =>
      match x with
      | [] => []
      | c :: x' =>
          let stop := match count with Some O => true | _ => false end in
          if negb stop && starts_with old x then
            new ++ replace_fuel fuel' old new (skipn (length old) x)
                     (match count with Some (S n) => Some n | o => o end)
          else c :: replace_fuel fuel' old new x' count
      end
  end.
Definition replace (old new x : str) (count : option nat) : str :=
  match old with
  | [] => x                      (* callers never pass an empty pattern *)
  | _ => replace_fuel (S (length x)) old new x count
  end.

(* -------------------------------------------------- Python list indexing *)
Definition zlen {A} (l : list A) : Z := Z.of_nat (length l).

(* l[i] with negative indices counting from the end; out of range -> IndexError *)
Definition py_nth {A} (l : list A) (i : Z) : res A :=
  let n := zlen l in
  let j := if i <? 0 then i + n else i in
  if (j <? 0) || (n <=? j) then Err IndexError
  else match nth_error l (Z.to_nat j) with Some x => Ok x | None => Err IndexError end.

(* l[i:j] for 0 <= i, any j (clamped) *)
Definition py_slice {A} (l : list A) (i j : Z) : list A :=
  firstn (Z.to_nat (j - i)) (skipn (Z.to_nat i) l).

Definition last_opt {A} (l : list A) : option A :=
  match rev l with [] => None | x :: _ => Some x end.

Fixpoint set_nth {A} (l : list A) (n : nat) (x : A) : list A :=
  match l, n with
  | [], _ => []
  | _ :: t, O => x :: t
  | y :: t, S n' => y :: set_nth t n' x
  end.

Definition set_last {A} (l : list A) (x : A) : list A :=
  match l with [] => [] | _ => removelast l ++ [x] end.

(* --------------------------------------------- insertion-ordered "dicts" *)
Section Assoc.
  Context {K V : Type} (keqb : K -> K -> bool).

  Fixpoint aget (d : list (K * V)) (k : K) : option V :=
    match d with
    | [] => None
    | (k', v) :: t => if keqb k k' then Some v else aget t k
    end.

  (* d[k] = v : re-assignment keeps the key's position *)
  Fixpoint aset (d : list (K * V)) (k : K) (v : V) : list (K * V) :=
    match d with
    | [] => [(k, v)]
    | (k', v') :: t => if keqb k k' then (k', v) :: t else (k', v') :: aset t k v
    end.

  Fixpoint adel (d : list (K * V)) (k : K) : list (K * V) :=
    match d with
    | [] => []
    | (k', v') :: t => if keqb k k' then t else (k', v') :: adel t k
    end.
End Assoc.

(* list.remove(x): first element equal to x *)
Fixpoint remove_first {A} (eqb : A -> A -> bool) (x : A) (l : list A) : list A :=
  match l with
  | [] => []
  | y :: t => if eqb x y then t else y :: remove_first eqb x t
  end.

(* duplicates removed, first occurrence kept *)
Fixpoint dedup_acc {A} (eqb : A -> A -> bool) (seen l : list A) : list A :=
  match l with
  | [] => []
  | x :: t => if existsb (eqb x) seen then dedup_acc eqb seen t
              else x :: dedup_acc eqb (x :: seen) t
  end.
Definition dedup {A} (eqb : A -> A -> bool) (l : list A) : list A := dedup_acc eqb [] l.

Definition sumZ (l : list Z) : Z := fold_left Z.add l 0.

(* indices (as nat) of the elements of [l] failing [ok] -- used by generated
   correspondence files: the only thing Coq prints is this list. *)
Fixpoint mismatches_from {A} (ok : A -> bool) (l : list A) (i : nat) : list nat :=
  match l with
  | [] => []
  | x :: t => if ok x then mismatches_from ok t (S i) else i :: mismatches_from ok t (S i)
  end.
Definition mismatches {A} (ok : A -> bool) (l : list A) : list nat := mismatches_from ok l 0.
