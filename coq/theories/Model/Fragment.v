(* tola.assembly.fragment.Fragment, tola.assembly.gap.Gap, and rows.
   [f_id] stands for Python object identity ([x is y]); it plays no part in
   [Fragment.__eq__], which compares name, start, end, strand and tags. *)
From Tola Require Import Py.Base.

Record frag := mkFrag {
  f_id : Z;
  f_name : str;
  f_start : Z;
  f_end : Z;
  f_strand : Z;
  f_tags : list str
}.

Record gap := mkGap { g_len : Z; g_type : str }.

Inductive row := RF (f : frag) | RG (g : gap).

(* Fragment.__init__ : strand in (0, 1, -1), start <= end, else ValueError *)
Definition strand_ok (st : Z) : bool := (st =? 0) || (st =? 1) || (st =? -1).
Definition new_frag (id : Z) (name : str) (st en strand : Z) (tags : list str) : res frag :=
  if negb (strand_ok strand) then Err ValueError
  else if st >? en then Err ValueError
  else Ok (mkFrag id name st en strand tags).

Definition frag_wf (f : frag) : bool := strand_ok (f_strand f) && (f_start f <=? f_end f).

Definition f_len (f : frag) : Z := f_end f - f_start f + 1.
Definition row_len (r : row) : Z :=
  match r with RF f => f_len f | RG g => g_len g end.
Definition is_gap (r : row) : bool := match r with RG _ => true | RF _ => false end.

Definition rows_len (rows : list row) : Z := sumZ (map row_len rows).

Definition frags_of (rows : list row) : list frag :=
  flat_map (fun r => match r with RF f => [f] | RG _ => [] end) rows.

(* key_tuple *)
Definition fkey := (str * Z * Z)%type.
Definition key_of (f : frag) : fkey := (f_name f, f_start f, f_end f).
Definition key_eqb (a b : fkey) : bool :=
  let '(n1, s1, e1) := a in let '(n2, s2, e2) := b in
  if s1 =? s2 then if e1 =? e2 then str_eqb n1 n2 else false else false.

(* Fragment.__eq__ *)
Definition frag_eqb (a b : frag) : bool :=
  str_eqb (f_name a) (f_name b) && (f_start a =? f_start b) && (f_end a =? f_end b)
  && (f_strand a =? f_strand b) && strs_eqb (f_tags a) (f_tags b).
Definition gap_eqb (a b : gap) : bool := (g_len a =? g_len b) && str_eqb (g_type a) (g_type b).
Definition row_eqb (a b : row) : bool :=
  match a, b with
  | RF x, RF y => frag_eqb x y
  | RG x, RG y => gap_eqb x y
  | _, _ => false
  end.
Definition rows_eqb : list row -> list row -> bool := list_eqb row_eqb.

(* ------------------------------------------------- interval predicates *)
Definition overlaps (a b : frag) : bool :=
  if negb (str_eqb (f_name a) (f_name b)) then false
  else (f_end a >=? f_start b) && (f_start a <=? f_end b).

Definition overlap_length (a b : frag) : option Z :=
  if negb (str_eqb (f_name a) (f_name b)) then None
  else
    let os := Z.max (f_start a) (f_start b) in
    let oe := Z.min (f_end a) (f_end b) in
    if os >? oe then None else Some (oe - os + 1).

Definition abuts (a b : frag) : bool :=
  if negb (str_eqb (f_name a) (f_name b)) then false
  else (f_end a + 1 =? f_start b) || (f_end b + 1 =? f_start a).

Definition gap_between (a b : frag) : option Z :=
  if negb (str_eqb (f_name a) (f_name b)) then None
  else
    let gs := Z.min (f_end a) (f_end b) in
    let ge := Z.max (f_start a) (f_start b) in
    if gs <? ge then Some (ge - gs - 1) else None.

(* Fragment.reverse: strand negated, everything else (and tags) kept.  The
   constructor re-validates, which cannot fail on a valid fragment. *)
Definition frag_reverse (f : frag) : frag :=
  mkFrag (f_id f) (f_name f) (f_start f) (f_end f) (- f_strand f) (f_tags f).

(* ---------------------------------------------------------- junctions *)
(* The three tuple shapes junction_tuple can return.  Python tuples of
   different shapes never compare equal because a str never equals an int. *)
Inductive junction :=
  | JSISI (n1 : str) (p1 : Z) (n2 : str) (p2 : Z)   (* fwd,fwd and rev,rev *)
  | JSIIS (n1 : str) (p1 : Z) (p2 : Z) (n2 : str)   (* fwd,rev *)
  | JISSI (p1 : Z) (n1 : str) (n2 : str) (p2 : Z).  (* rev,fwd *)

Definition junction_tuple (a b : frag) : res junction :=
  if f_strand a =? 1 then
    if f_strand b =? 1 then Ok (JSISI (f_name a) (f_end a) (f_name b) (f_start b))
    else if f_strand b =? -1 then Ok (JSIIS (f_name a) (f_end a) (f_end b) (f_name b))
    else Err ValueError
  else if f_strand a =? -1 then
    if f_strand b =? 1 then Ok (JISSI (f_start a) (f_name a) (f_name b) (f_start b))
    else if f_strand b =? -1 then Ok (JSISI (f_name b) (f_end b) (f_name a) (f_start a))
    else Err ValueError
  else Err ValueError.

Definition junction_eqb (a b : junction) : bool :=
  (* coordinates first, names last, each test only if the previous held
     (cheap rejection under call-by-value evaluation) *)
  match a, b with
  | JSISI n1 p1 n2 p2, JSISI m1 q1 m2 q2 =>
      if p1 =? q1 then if p2 =? q2 then if str_eqb n1 m1 then str_eqb n2 m2 else false else false else false
  | JSIIS n1 p1 p2 n2, JSIIS m1 q1 q2 m2 =>
      if p1 =? q1 then if p2 =? q2 then if str_eqb n1 m1 then str_eqb n2 m2 else false else false else false
  | JISSI p1 n1 n2 p2, JISSI q1 m1 m2 q2 =>
      if p1 =? q1 then if p2 =? q2 then if str_eqb n1 m1 then str_eqb n2 m2 else false else false else false
  | _, _ => false
  end.
