(* assembly_stats.AssemblyStats.chromosome_name_csv and
   pretext_to_asm.name_assemblies: the chromosome list and the file-name stems
   of the output assemblies. *)
From Tola Require Import Py.Base Py.Dec Model.Fragment Model.Scaffold Model.Namer Model.Remap.

Definition comma : str := s ",".

(* one pass over the scaffolds of an assembly: rank 1 / 2 scaffolds give one
   line "name,chromosome,localised"; a scaffold whose original (Pretext) name
   repeats the previous line's is an unloc of that chromosome *)
Fixpoint chr_csv_lines (prefix : str) (scs : list scaffold) (last_orig : option str) (chr_name : str)
  : list str :=
  match scs with
  | [] => []
  | sc :: t =>
      if (sc_rank sc =? 1) || (sc_rank sc =? 2) then
        let same := truthy last_orig && opt_eqb str_eqb (sc_orig sc) last_orig in
        if same then
          (sc_name sc ++ comma ++ chr_name ++ comma ++ s "no" ++ [ascii_of_N 10])
            :: chr_csv_lines prefix t last_orig chr_name
        else
          let cn := replace prefix [] (sc_name sc) (Some 1%nat) in
          (sc_name sc ++ comma ++ cn ++ comma ++ s "yes" ++ [ascii_of_N 10])
            :: chr_csv_lines prefix t (sc_orig sc) cn
      else chr_csv_lines prefix t last_orig chr_name
  end.

(* None when there is no line (csv_str.tell() == 0) *)
Definition chromosome_name_csv (prefix : str) (scs : list scaffold) : option str :=
  match chr_csv_lines prefix scs None [] with
  | [] => None
  | l => Some (concat l)
  end.

(* name_assemblies(asm_dict, root, version): the assemblies as they are written,
   in output order: (new key, file-name stem, curated flag, scaffolds).  Every
   Assembly object is truthy, so asm_dict.get(k) tests presence of the key. *)
Definition dot : str := s ".".
Definition stem (root version : str) (what : str) : str := root ++ dot ++ version ++ dot ++ what.

Record named_asm := mkNamed {
  na_key : option str; na_name : str; na_curated : bool; na_scaffolds : list scaffold
}.

Definition is_primary_key (k : option str) : bool := opt_eqb str_eqb k (Some (s "Primary")).

(* asm_key.lower() on the key None raises AttributeError *)
Definition key_lower (k : option str) : res str :=
  match k with Some t => Ok (lower t) | None => Err AttributeError end.

Definition name_assemblies (asms : list out_asm) (root version : str) : res (list named_asm) :=
  let has (k : option str) := existsb (fun a => opt_eqb str_eqb (oa_key a) k) asms in
  if has (Some (s "Primary")) then
    do named <- foldM (fun acc a =>
        if is_primary_key (oa_key a)
        then Ok (acc ++ [mkNamed (oa_key a) (stem root version (s "primary")) (oa_curated a) (oa_scaffolds a)])
        else if oa_curated a then Ok acc
        else do l <- key_lower (oa_key a);
             Ok (acc ++ [mkNamed (oa_key a) (stem root version (l ++ s "s")) false (oa_scaffolds a)]))
      asms [];
    let others := filter (fun a => negb (is_primary_key (oa_key a)) && oa_curated a) asms in
    match others with
    | [] => Ok named
    | _ => Ok (named ++ [mkNamed (Some (s "all_haplotigs")) (stem root version (s "all_haplotigs")) true
                           (flat_map oa_scaffolds others)])
    end
  else if has None then
    foldM (fun acc a =>
        match oa_key a with
        | None => Ok (acc ++ [mkNamed None (stem root version (s "primary")) (oa_curated a) (oa_scaffolds a)])
        | Some t =>
            if str_eqb t (s "Haplotig")
            then Ok (acc ++ [mkNamed (Some (s "additional_haplotigs"))
                               (stem root version (s "additional_haplotigs")) true (oa_scaffolds a)])
            else Ok (acc ++ [mkNamed (oa_key a) (stem root version (lower t ++ s "s")) (oa_curated a) (oa_scaffolds a)])
        end) asms []
  else
    foldM (fun acc a =>
        do l <- key_lower (oa_key a);
        if oa_curated a
        then Ok (acc ++ [mkNamed (oa_key a) (root ++ dot ++ l ++ dot ++ version ++ dot ++ s "primary") true (oa_scaffolds a)])
        else Ok (acc ++ [mkNamed (oa_key a) (stem root version (l ++ s "s")) false (oa_scaffolds a)]))
      asms [].
