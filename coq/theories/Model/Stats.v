(* assembly_stats.AssemblyStats.chromosome_name_csv and
   pretext_to_asm.name_assemblies: the chromosome list and the file-name stems
   of the output assemblies. *)
From Tola Require Import Py.Base Py.Dec Model.Fragment Model.Scaffold Model.Namer Model.Remap.

Definition comma : str := s ",".

(* one pass over the scaffolds of an assembly: rank 1 / 2 scaffolds give one
   line "name,chromosome,localised"; a scaffold whose original (Pretext) name
   repeats the previous line's is an unloc of that chromosome *)
Fixpoint chr_csv_lines (prefix : str) (scs : list scaffold) (last_orig : option str) (chr_name : str)
  : list str :=
  match scs with
  | [] => []
  | sc :: t =>
      if (sc_rank sc =? 1) || (sc_rank sc =? 2) then
        let same := truthy last_orig && opt_eqb str_eqb (sc_orig sc) last_orig in
        if same then
          (sc_name sc ++ comma ++ chr_name ++ comma ++ s "no" ++ [ascii_of_N 10])
            :: chr_csv_lines prefix t last_orig chr_name
        else
          let cn := replace prefix [] (sc_name sc) (Some 1%nat) in
          (sc_name sc ++ comma ++ cn ++ comma ++ s "yes" ++ [ascii_of_N 10])
            :: chr_csv_lines prefix t (sc_orig sc) cn
      else chr_csv_lines prefix t last_orig chr_name
  end.

(* None when there is no line (csv_str.tell() == 0) *)
Definition chromosome_name_csv (prefix : str) (scs : list scaffold) : option str :=
  match chr_csv_lines prefix scs None [] with
  | [] => None
  | l => Some (concat l)
  end.

(* name_assemblies(asm_dict, root, version): (new key, assembly name, curated) in output order *)
Definition dot : str := s ".".
Definition stem (root version : str) (what : str) : str := root ++ dot ++ version ++ dot ++ what.

Definition name_assemblies (asms : list (option str * bool)) (root version : str)
  : list (option str * str * bool) :=
  let has (k : option str) := existsb (fun a : option str * bool => opt_eqb str_eqb (fst a) k) asms in
  if has (Some (s "Primary")) then
    let named :=
      flat_map (fun (a : option str * bool) => let '(k, cur) := a in
                  if opt_eqb str_eqb k (Some (s "Primary")) then [(k, stem root version (s "primary"), cur)]
                  else if cur then []
                  else match k with
                       | Some t => [(k, stem root version (lower t ++ s "s"), cur)]
                       | None => []          (* asm_key.lower() on None raises; cannot occur with a curated flag false *)
                       end) asms in
    let others := filter (fun (a : option str * bool) => let '(k, cur) := a in cur && negb (opt_eqb str_eqb k (Some (s "Primary")))) asms in
    match others with
    | [] => named
    | _ => named ++ [(Some (s "all_haplotigs"), stem root version (s "all_haplotigs"), true)]
    end
  else if has None then
    map (fun (a : option str * bool) => let '(k, cur) := a in
           match k with
           | None => (None, stem root version (s "primary"), cur)
           | Some t =>
               if str_eqb t (s "Haplotig")
               then (Some (s "additional_haplotigs"), stem root version (s "additional_haplotigs"), true)
               else (k, stem root version (lower t ++ s "s"), cur)
           end) asms
  else
    map (fun (a : option str * bool) => let '(k, cur) := a in
           match k with
           | Some t => if cur then (k, root ++ dot ++ lower t ++ dot ++ version ++ dot ++ s "primary", cur)
                       else (k, stem root version (lower t ++ s "s"), cur)
           | None => (k, [], cur)
           end) asms.
