(* scripts/asm_format.py: the asm-format command as a function from its options
   and the texts of its inputs to what it writes (the -o file or STDOUT), what
   it reports on STDERR and whether it raises.  cli, process_fh, report_overlaps
   and Fragment.__str__ (the report prints fragments with it).  Not modelled:
   the output formats STR and REPR (Assembly.__str__/__repr__), click's own
   option validation (a --input-format outside AGP/TPF never reaches cli). *)
From Tola Require Import Py.Base Py.Dec Model.Fragment Model.Scaffold Model.Fasta Model.AgpTpf Model.OutputPlan.

Record af_opts := mkAF {
  af_in_fmt : option str;     (* --input-format: click hands over "AGP" / "TPF" *)
  af_out_name : option str;   (* --output-file (last path component) *)
  af_out_fmt : option str;    (* --format *)
  af_name : option str;       (* --name *)
  af_qc : bool                (* --qc-overlaps *)
}.

(* Fragment.STRAND_STR[self.strand] with STRAND_STR = (".", "+", "-"): Python
   indexing, so -1 is the last element and anything else outside -3..2 raises *)
Definition strand_str (st : Z) : res str :=
  if (st =? 0) || (st =? -3) then Ok (s ".")
  else if (st =? 1) || (st =? -2) then Ok (s "+")
  else if (st =? 2) || (st =? -1) then Ok (s "-")
  else Err IndexError.

(* Fragment.__str__ *)
Definition frag_str (f : frag) : res str :=
  do sd <- strand_str (f_strand f);
  Ok (f_name f ++ s ":" ++ str_of_Z (f_start f) ++ s "-" ++ str_of_Z (f_end f) ++ s "(" ++ sd ++ s ")"
      ++ match f_tags f with [] => [] | tags => s " " ++ join (s " ") tags end).

(* one "Overlap:" block; click.echo appends the newline *)
Definition overlap_block (names : list str) (p : (frag * nat) * (frag * nat)) : res str :=
  let '((f1, i1), (f2, i2)) := p in
  do t1 <- frag_str f1;
  do t2 <- frag_str f2;
  Ok ([LF] ++ s "Overlap:" ++ [LF] ++ nth i1 names [] ++ s " " ++ t1 ++ [LF]
      ++ nth i2 names [] ++ s " " ++ t2 ++ [LF]).

Definition report_blocks (names : list str) (pairs : list ((frag * nat) * (frag * nat))) : res (list str) :=
  mapM (overlap_block names) pairs.

Definition report_overlaps (asm_name : str) (names : list str) (pairs : list ((frag * nat) * (frag * nat)))
  : res str :=
  do blocks <- report_blocks names pairs;
  Ok ([LF] ++ s "Overlaps detected in assembly '" ++ asm_name ++ s "'" ++ [LF] ++ concat blocks).

(* process_fh: parse, optional QC report, format.  Returns (output, stderr). *)
Definition process_fh (in_fmt : str) (asm_name : str) (text : str) (out_fmt : str) (qc : bool)
  : res (str * str) :=
  do a <- (if str_eqb in_fmt (s "AGP") then parse_agp text
           else if str_eqb in_fmt (s "TPF") then parse_tpf text
           else Err ValueError);
  do rep <- (if qc then
               match find_overlapping_fragments (map snd (a_scaffolds a)) with
               | Some pairs => report_overlaps asm_name (map fst (a_scaffolds a)) pairs
               | None => Ok []
               end
             else Ok []);
  do out <- (if str_eqb out_fmt (s "AGP") then format_agp a
             else if str_eqb out_fmt (s "TPF") then format_tpf a
             else Err ValueError);   (* STR / REPR are outside the model; FASTA etc. raise ValueError *)
  Ok (out, rep).

(* the formats cli settles on *)
Definition out_format (o : af_opts) : str :=
  match af_out_fmt o with
  | Some f => f
  | None =>
      match af_out_name o with
      | Some n => match format_from_extn (path_suffix n) with Some f => f | None => s "AGP" end
      | None => s "AGP"
      end
  end.

Definition in_format (o : af_opts) (file : option str) : str :=
  match af_in_fmt o with
  | Some f => f
  | None =>
      match file with
      | Some n => match format_from_extn (path_suffix n) with Some f => f | None => s "AGP" end
      | None => s "AGP"
      end
  end.

Definition asm_name_of (o : af_opts) (file : option str) : str :=
  match af_name o with
  | Some (c :: n) => c :: n
  | Some [] => match file with Some f => path_stem f | None => s "stdin" end   (* "" is falsy *)
  | None => match file with Some f => path_stem f | None => s "stdin" end
  end.

(* cli: files in order, or STDIN when none; what was written and reported before an
   exception stays written.  An exception while processing a FILE is re-raised as
   ValueError("Error processing file ..."); from STDIN it propagates as it is. *)
Record af_result := mkAFR { afr_out : str; afr_err : str; afr_exn : option exn }.

Fixpoint run_files (o : af_opts) (files : list (str * str)) (out err : str) : af_result :=
  match files with
  | [] => mkAFR out err None
  | (name, text) :: rest =>
      match process_fh (in_format o (Some name)) (asm_name_of o (Some name)) text (out_format o) (af_qc o) with
      | Ok (t, r) => run_files o rest (out ++ t) (err ++ r)
      | Err _ => mkAFR out err (Some ValueError)
      end
  end.

Definition run (o : af_opts) (files : list (str * str)) (stdin : str) : af_result :=
  match files with
  | [] =>
      match process_fh (in_format o None) (asm_name_of o None) stdin (out_format o) (af_qc o) with
      | Ok (t, r) => mkAFR t r None
      | Err e => mkAFR [] [] (Some e)
      end
  | _ => run_files o files [] []
  end.
