(* pretext_to_asm: which output files one run opens, in which order, and what
   the chromosome report contains.  pathlib names (suffix / stem /
   with_suffix / with_name), parser.format_from_file_extn,
   parse_output_file, write_info_yaml, write_assemblies, write_chr_csv_files,
   write_chr_report_csv and AssemblyStats.chromosomes_report_csv.  All output
   files of a run live in the directory of the --output argument, so the model
   works on file NAMES (the last path component). *)
From Tola Require Import Py.Base Py.Dec Model.Fragment Model.Scaffold Model.Namer Model.Remap Model.Stats.

Definition dot_c : ascii := "."%char.

(* index of the last '.' of a name, if it is neither the first nor the last
   character (pathlib: i = name.rfind('.'); 0 < i < len(name) - 1) *)
Fixpoint rfind_dot (x : str) (i : nat) (acc : option nat) : option nat :=
  match x with
  | [] => acc
  | c :: t => rfind_dot t (S i) (if Ascii.eqb c dot_c then Some i else acc)
  end.

Definition split_suffix (name : str) : str * str :=
  match rfind_dot name 0 None with
  | Some i => if (0 <? i)%nat && (i <? length name - 1)%nat then (firstn i name, skipn i name) else (name, [])
  | None => (name, [])
  end.
Definition path_stem (name : str) : str := fst (split_suffix name).
Definition path_suffix (name : str) : str := snd (split_suffix name).
Definition with_suffix (name sfx : str) : str := path_stem name ++ sfx.

(* [A-Za-z0-9_] *)
Definition is_word (c : ascii) : bool := is_alpha c || is_digit c || Ascii.eqb c "_"%char.

(* re.match(r"\.(agp|tpf|fa(?:sta)?)\w*$", suffix, re.IGNORECASE) *)
Definition format_from_extn (suffix : str) : option str :=
  match lower suffix with
  | "."%char :: r =>
      if starts_with (s "agp") r && forallb is_word (skipn 3 r) then Some (s "AGP")
      else if starts_with (s "tpf") r && forallb is_word (skipn 3 r) then Some (s "TPF")
      else if starts_with (s "fa") r && forallb is_word (skipn 2 r) then Some (s "FASTA")
      else None
  | _ => None
  end.

(* re.search(r"\.(\d+)$", x): the digits after the last '.', when they reach the end *)
Definition version_suffix (x : str) : option (str * str) :=
  match rfind_dot x 0 None with
  | Some i =>
      let v := skipn (S i) x in
      match v with
      | [] => None
      | _ => if forallb is_digit v then Some (firstn i x, v) else None
      end
  | None => None
  end.

Record out_file := mkOutFile { of_fmt : str; of_root : str; of_version : str; of_sfx : str }.

(* parse_output_file: format None makes out_fmt.lower() raise *)
Definition parse_output_file (name : str) : res out_file :=
  match format_from_extn (path_suffix name) with
  | None => Err AttributeError
  | Some fmt =>
      let sfx0 := dot_c :: lower fmt in
      let '(root, sfx) := if starts_with (lower (path_suffix name)) sfx0
                          then (path_stem name, path_suffix name) else (name, sfx0) in
      match version_suffix root with
      | Some (_, v) => Ok (mkOutFile fmt (path_stem root) v sfx)     (* Path(out_root).stem *)
      | None => Ok (mkOutFile fmt root (s "1") sfx)
      end
  end.

(* ---------------------------------------------- chromosomes_report_csv *)
Definition dq : ascii := """"%char.
Definition quoted (x : str) : str := dq :: replace [dq] [dq; dq] x None ++ [dq].
Definition crlf : str := [ascii_of_N 13; ascii_of_N 10].

Definition report_header : str :=
  s """assembly"",""seq_name"",""chromosome"",""localised"",""pretext_scaffold"",""length"",""length_minus_gaps""" ++ crlf.

Fixpoint report_lines (prefix hap : str) (scs : list scaffold) (last_orig : option str) (chr_name : option str)
  : list str * (option str * option str) :=
  match scs with
  | [] => ([], (last_orig, chr_name))
  | sc :: t =>
      if (sc_rank sc =? 1) || (sc_rank sc =? 2) then
        let same := truthy last_orig && opt_eqb str_eqb (sc_orig sc) last_orig in
        let '(loc, lo, cn) :=
          if same then (s "false", last_orig, chr_name)
          else (s "true", sc_orig sc, Some (replace prefix [] (sc_name sc) (Some 1%nat))) in
        let line := quoted hap ++ comma ++ quoted (sc_name sc) ++ comma
                    ++ quoted (match cn with Some c => c | None => [] end) ++ comma
                    ++ quoted loc ++ comma
                    ++ quoted (match sc_orig sc with Some o => o | None => [] end) ++ comma
                    ++ str_of_Z (sc_length sc) ++ comma ++ str_of_Z (frags_length (sc_rows sc)) ++ crlf in
        let '(rest, st) := report_lines prefix hap t lo cn in
        (line :: rest, st)
      else report_lines prefix hap t last_orig chr_name
  end.

Fixpoint report_asms (prefix : str) (asms : list named_asm) (last_orig chr_name : option str) : list str :=
  match asms with
  | [] => []
  | a :: t =>
      let hap := match na_key a with Some (c :: k) => c :: k | _ => s "Primary" end in
      let '(lines, (lo, cn)) := report_lines prefix hap (na_scaffolds a) last_orig chr_name in
      lines ++ report_asms prefix t lo cn
  end.

Definition chromosomes_report_csv (prefix : str) (asms : list named_asm) : option str :=
  match report_asms prefix asms None None with
  | [] => None
  | l => Some (report_header ++ concat l)
  end.

(* ------------------------------------------------------ the output plan *)
(* names of the files opened through get_output_filehandle, in order; the
   second component says how the run ends: None = it goes on to the end,
   Some e = it stops there (sys.exit(1) for FASTA output without FASTA input,
   or an exception) *)
Definition asm_file_name (n : named_asm) (sfx : str) : str :=
  na_name n ++ (if na_curated n then s ".curated" else []) ++ sfx.

Definition assembly_opens (fmt sfx : str) (have_fai : bool) (named : list named_asm) : list str * bool :=
  if str_eqb fmt (s "FASTA") then
    if have_fai then
      (flat_map (fun n => [asm_file_name n sfx; with_suffix (asm_file_name n sfx) (s ".agp")]) named, true)
    else match named with
         | [] => ([], true)
         | n :: _ => ([asm_file_name n sfx], false)      (* opened, then "Cannot write FASTA" exit(1) *)
         end
  else (map (fun n => asm_file_name n sfx) named, true).

Definition csv_opens (prefix : str) (named : list named_asm) : list str :=
  flat_map (fun n => if na_curated n
                     then match chromosome_name_csv prefix (na_scaffolds n) with
                          | Some _ => [na_name n ++ s ".chromosome.list.csv"]
                          | None => []
                          end
                     else []) named.

Inductive plan_end := PlanDone | PlanExit1 | PlanRaised.

Definition output_plan (prefix : str) (output_name : str) (have_fai : bool) (asms : list out_asm)
  : list str * plan_end :=
  match parse_output_file output_name with
  | Err _ => ([], PlanRaised)
  | Ok f =>
      let yaml := path_stem output_name ++ s ".info.yaml" in
      match name_assemblies asms (of_root f) (of_version f) with
      | Err _ => ([yaml], PlanRaised)
      | Ok named =>
          let '(aopens, ok) := assembly_opens (of_fmt f) (of_sfx f) have_fai named in
          if ok then
            (yaml :: aopens ++ csv_opens prefix named
               ++ (match chromosomes_report_csv prefix named with
                   | Some _ => [with_suffix output_name (s ".chr_report.csv")]
                   | None => []
                   end), PlanDone)
          else (yaml :: aopens, PlanExit1)
      end
  end.
