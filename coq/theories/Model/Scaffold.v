(* tola.assembly.scaffold.Scaffold and the parts of tola.assembly.assembly.Assembly
   that do not involve naming. *)
From Tola Require Import Py.Base Model.Fragment.

Record scaffold := mkScaffold {
  sc_name : str;
  sc_rows : list row;
  sc_tag : option str;
  sc_hap : option str;
  sc_rank : Z;
  sc_orig : option str;
  sc_orig_tags : list str
}.

Definition plain_scaffold (name : str) (rows : list row) : scaffold :=
  mkScaffold name rows None None 0 None [].

Definition sc_length (sc : scaffold) : Z := rows_len (sc_rows sc).
Definition sc_frags (sc : scaffold) : list frag := frags_of (sc_rows sc).
Definition frags_length (rows : list row) : Z := sumZ (map f_len (frags_of rows)).

(* Scaffold.fragment_tags(): a set; modelled as the duplicate-free list in
   first-occurrence order (every consumer is shown order-independent, C17). *)
Definition fragment_tags (rows : list row) : list str :=
  dedup str_eqb (flat_map f_tags (frags_of rows)).

Definition row_reverse (r : row) : row :=
  match r with RF f => RF (frag_reverse f) | RG g => RG g end.

(* Scaffold.reverse(): rows[::-1] with every fragment reversed.  The new
   object keeps name, original_name and original_tags; tag, haplotype and
   rank fall back to the constructor defaults. *)
Definition rows_reverse (rows : list row) : list row := map row_reverse (rev rows).
Definition scaffold_reverse (sc : scaffold) : scaffold :=
  mkScaffold (sc_name sc) (rows_reverse (sc_rows sc)) None None 0 (sc_orig sc) (sc_orig_tags sc).

(* Scaffold.append_scaffold(othr, gap): the gap is added only if one is
   given and self already has rows. *)
Definition append_rows (self : list row) (othr : list row) (g : option gap) : list row :=
  match g, self with
  | Some g', _ :: _ => self ++ [RG g'] ++ othr
  | _, _ => self ++ othr
  end.

(* Scaffold.fragment_junction_set(), as the list of junctions of consecutive
   fragments (gaps skipped); a set in Python, de-duplicated by the caller. *)
Fixpoint junctions_of_frags (prev : frag) (l : list frag) : res (list junction) :=
  match l with
  | [] => Ok []
  | f :: t =>
      do j <- junction_tuple prev f;
      do js <- junctions_of_frags f t;
      Ok (j :: js)
  end.
Definition scaffold_junctions (rows : list row) : res (list junction) :=
  match frags_of rows with
  | [] => Ok []
  | f :: t => junctions_of_frags f t
  end.

(* ------------------------------------------------ all-against-all scan *)
Fixpoint pairs_from {A} (l : list A) : list (A * A) :=
  match l with
  | [] => []
  | x :: t => map (pair x) t ++ pairs_from t
  end.

(* Assembly.find_overlapping_fragments(): fragments are flattened together
   with the index of their scaffold; the pairs (i < j) that overlap, in scan
   order.  Python returns None instead of an empty list. *)
Definition flat_frags (scs : list (list row)) : list (frag * nat) :=
  flat_map (fun '(i, rows) => map (fun f => (f, i)) (frags_of rows))
           (combine (seq 0 (length scs)) scs).

Definition scan_pairs {B} (l : list (frag * B)) : list ((frag * B) * (frag * B)) :=
  filter (fun p => overlaps (fst (fst p)) (fst (snd p))) (pairs_from l).

Definition find_overlapping_fragments (scs : list (list row))
  : option (list ((frag * nat) * (frag * nat))) :=
  match scan_pairs (flat_frags scs) with
  | [] => None
  | l => Some l
  end.
