(* Specifications for the FASTA properties (C03 C04 C13 C14): what a
   well-formed FASTA file is, what its index and derived assembly must be,
   what random access, chunking and streaming must return.  Definitions only. *)
From Tola Require Import Py.Base Model.Fragment Model.Scaffold Model.Fasta Model.Stream.

(* ---- layout of a well-formed FASTA file *)
Record record := mkRecord { r_name : str; r_desc : str; r_seq : str }.

(* residues split into lines of [w] (last one shorter), each followed by eol *)
Fixpoint seq_lines (fuel : nat) (w : nat) (x : str) (eol : str) : str :=
  match fuel with
  | O => []
  | S f => match x with
           | [] => []
           | _ => firstn w x ++ eol ++ seq_lines f w (skipn w x) eol
           end
  end.
Definition render_record (w : nat) (eol : str) (r : record) : str :=
  GT :: r_name r ++ r_desc r ++ eol ++ seq_lines (S (length (r_seq r))) w (r_seq r) eol.
Definition render_all (w : nat) (eol : str) (recs : list record) : str :=
  concat (map (render_record w eol) recs).
(* without a final newline the very last eol is dropped *)
Definition render (w : nat) (eol : str) (final_nl : bool) (recs : list record) : str :=
  let all := render_all w eol recs in
  if final_nl then all else firstn (length all - length eol) all.

Definition eol_ok (eol : str) : Prop := eol = [LF] \/ eol = [CR; LF].
Definition residue_ok (c : ascii) : bool :=
  negb (Ascii.eqb c LF) && negb (Ascii.eqb c CR) && negb (Ascii.eqb c GT).
(* a record name is what bytes.split() takes as one word: no TAB LF VT FF CR or space
   (FS GS RS US are ordinary bytes there; they only matter when the .fai cache is read back
   with str.split(): [name_loadable]) *)
Definition name_ok (n : str) : Prop :=
  n <> [] /\ forallb (fun c => negb (is_bspace c)) n = true.
Definition name_loadable (n : str) : Prop :=
  forallb (fun c => negb (is_space c)) n = true.
(* description: empty, or starts with a blank and has no line break *)
Definition desc_ok (d : str) : Prop :=
  match d with
  | [] => True
  | c :: _ => (c = " "%char \/ c = TAB) /\
              forallb (fun c => negb (Ascii.eqb c LF) && negb (Ascii.eqb c CR)) d = true
  end.
Definition record_ok (r : record) : Prop :=
  name_ok (r_name r) /\ desc_ok (r_desc r) /\ r_seq r <> []
  /\ forallb residue_ok (r_seq r) = true.
Definition fasta_wf (w : nat) (eol : str) (recs : list record) : Prop :=
  (1 <= w)%nat /\ eol_ok eol /\ recs <> [] /\ Forall record_ok recs
  /\ NoDup (map r_name recs).

(* ---- what the index must be *)
(* byte offset of the first residue of the k-th record *)
Fixpoint offsets (w : nat) (eol : str) (recs : list record) (pos : Z) : list Z :=
  match recs with
  | [] => []
  | r :: t =>
      let hdr := zlen (GT :: r_name r ++ r_desc r ++ eol) in
      (pos + hdr) :: offsets w eol t (pos + zlen (render_record w eol r))
  end.
Definition expected_info (w : nat) (eol : str) (r : record) (off : Z) : finfo :=
  let n := zlen (r_seq r) in
  let rpl := Z.min (Z.of_nat w) n in
  mkInfo n off rpl (rpl + zlen eol).
Definition expected_index (w : nat) (eol : str) (recs : list record) : list (str * finfo) :=
  map (fun '(r, off) => (r_name r, expected_info w eol r off)) (combine recs (offsets w eol recs 0)).

(* maximal runs: ACGT (either case) -> one forward fragment, anything else ->
   one gap of the same length, tiling the record in order *)
Fixpoint tile_rows (fuel : nat) (name : str) (x : str) (pos : Z) : list row :=
  match fuel with
  | O => []
  | S f =>
      match x with
      | [] => []
      | c :: _ =>
          if is_acgt c then
            let '(run, rest) := (fix tw (l : str) : str * str :=
                                   match l with
                                   | d :: t => if is_acgt d then let '(a, b) := tw t in (d :: a, b) else ([], l)
                                   | [] => ([], [])
                                   end) x in
            RF (mkFrag (-1) name (pos + 1) (pos + zlen run) 1 []) :: tile_rows f name rest (pos + zlen run)
          else
            let '(run, rest) := (fix tw (l : str) : str * str :=
                                   match l with
                                   | d :: t => if is_acgt d then ([], l) else let '(a, b) := tw t in (d :: a, b)
                                   | [] => ([], [])
                                   end) x in
            RG (mkGap (zlen run) scaffold_gap) :: tile_rows f name rest (pos + zlen run)
      end
  end.
Definition expected_asm (recs : list record) : list (str * list row) :=
  map (fun r => (r_name r, tile_rows (S (length (r_seq r))) (r_name r) (r_seq r) 0)) recs.

(* ---- random access, chunking *)
(* residues s..e, 1-based inclusive *)
Definition slice1 (x : str) (s e : Z) : str := py_slice x (s - 1) e.

Definition good_access (file : str) (i : finfo) (residues : str) : Prop :=
  fi_length i = zlen residues /\
  forall s e, 1 <= s -> s <= e -> e <= zlen residues ->
    sequence_bytes file i s e = Ok (slice1 residues s e).

Definition chunks_bounded (buf : Z) (cs : list str) : Prop :=
  Forall (fun c => zlen c <= buf) cs.

(* ---- streaming *)
(* body wrapped at L: lines of exactly L, a last one of 1..L, each followed by LF *)
Fixpoint wrap (fuel : nat) (L : nat) (x : str) : str :=
  match fuel with
  | O => []
  | S f => match x with
           | [] => []
           | _ => firstn L x ++ LF :: wrap f L (skipn L x)
           end
  end.
Definition wrap_body (L : nat) (x : str) : str := wrap (S (length x)) L x.

(* what a row contributes, given the residues of each record *)
Definition row_bytes (seqs : list (str * str)) (gap_char : ascii) (r : row) : option str :=
  match r with
  | RG g => Some (repeat gap_char (Z.to_nat (g_len g)))
  | RF f =>
      match aget str_eqb seqs (f_name f) with
      | None => None
      | Some x =>
          if (1 <=? f_start f) && (f_start f <=? f_end f) && (f_end f <=? zlen x) then
            let piece := slice1 x (f_start f) (f_end f) in
            Some (if f_strand f =? -1 then reverse_complement piece else piece)
          else None
      end
  end.
Fixpoint rows_bytes (seqs : list (str * str)) (gap_char : ascii) (rows : list row) : option str :=
  match rows with
  | [] => Some []
  | r :: t => do' a <- row_bytes seqs gap_char r; do' b <- rows_bytes seqs gap_char t; Some (a ++ b)
  end.
Definition expected_scaffold (seqs : list (str * str)) (gap_char : ascii) (L : nat)
           (name : str) (rows : list row) : option str :=
  do' body <- rows_bytes seqs gap_char rows;
  Some (GT :: name ++ LF :: wrap_body L body).
