(* tola.fasta.stream.FastaStream: the line-wrapping state machine carried
   across rows and chunks. *)
From Tola Require Import Py.Base Model.Fragment Model.Fasta.

(* chunk.read(want): want < 0 reads everything *)
Definition cread (chunk : str) (want : Z) : str * str :=
  if want <? 0 then (chunk, []) else (firstn (Z.to_nat want) chunk, skipn (Z.to_nat want) chunk).

(* the "while True" loop over one chunk: returns bytes written and new [want] *)
Fixpoint emit_chunk (fuel : nat) (L want : Z) (chunk : str) : res (str * Z) :=
  match fuel with
  | O => Err OutOfFuel
  | S fuel' =>
      let '(seq, rest) := cread chunk want in
      match seq with
      | [] => Ok ([], want)
      | _ =>
          let want' := want - zlen seq in
          if want' =? 0 then
            do r <- emit_chunk fuel' L L rest;
            Ok (seq ++ LF :: fst r, snd r)
          else
            do r <- emit_chunk fuel' L want' rest;
            Ok (seq ++ fst r, snd r)
      end
  end.

Fixpoint emit_chunks (L want : Z) (chunks : list str) : res (str * Z) :=
  match chunks with
  | [] => Ok ([], want)
  | c :: t =>
      do r1 <- emit_chunk (S (S (length c))) L want c;
      do r2 <- emit_chunks L (snd r1) t;
      Ok (fst r1 ++ fst r2, snd r2)
  end.

Definition row_chunks (file : str) (idx : list (str * finfo)) (buf : Z) (gap_char : ascii) (r : row)
  : res (list str) :=
  match r with
  | RG g => gap_chunks buf gap_char (g_len g)
  | RF f => sequence_chunks file idx buf f
  end.

Fixpoint emit_rows (file : str) (idx : list (str * finfo)) (buf L : Z) (gap_char : ascii)
         (rows : list row) (want : Z) : res (str * Z) :=
  match rows with
  | [] => Ok ([], want)
  | r :: t =>
      do cs <- row_chunks file idx buf gap_char r;
      do r1 <- emit_chunks L want cs;
      do r2 <- emit_rows file idx buf L gap_char t (snd r1);
      Ok (fst r1 ++ fst r2, snd r2)
  end.

Definition write_scaffold (file : str) (idx : list (str * finfo)) (buf L : Z) (gap_char : ascii)
           (name : str) (rows : list row) : res str :=
  do r <- emit_rows file idx buf L gap_char rows L;
  Ok (GT :: name ++ LF :: fst r ++ (if snd r =? L then [] else [LF])).

Fixpoint write_assembly (file : str) (idx : list (str * finfo)) (buf L : Z) (gap_char : ascii)
         (scs : list (str * list row)) : res str :=
  match scs with
  | [] => Ok []
  | (name, rows) :: t =>
      do a <- write_scaffold file idx buf L gap_char name rows;
      do b <- write_assembly file idx buf L gap_char t;
      Ok (a ++ b)
  end.

