(* Well-formedness predicates and numeric views for the text-format
   properties C05 / C06.  Definitions only. *)
From Tola Require Import Py.Base Py.Dec Model.Fragment Model.Fasta Model.AgpTpf.

Definition no_tab_lf (x : str) : Prop :=
  forallb (fun c => negb (Ascii.eqb c TAB) && negb (Ascii.eqb c LF)) x = true.
Definition no_trailing_space (x : str) : Prop :=
  match last_opt x with Some c => is_space c = false | None => True end.

(* what a header line must look like to survive "# h" + re.match(r"[#\s]+(.+)") *)
Definition header_ok (h : str) : Prop :=
  match h with
  | [] => False
  | c :: _ => is_hash_or_space c = false /\ forallb not_lf h = true
  end.

(* tags: no TAB/LF anywhere; only the LAST tag must be non-empty and must not
   end in white space (the line is rstrip()ped before it is split, so a
   trailing empty column is lost) -- empty columns between tags survive *)
Definition tags_ok (tags : list str) : Prop :=
  Forall no_tab_lf tags
  /\ match tags with
     | [] => True
     | _ => last tags [] <> [] /\ no_trailing_space (last tags [])
     end.
Definition frag_ok_agp (f : frag) : Prop :=
  f_id f = -1 /\ no_tab_lf (f_name f) /\ f_start f <= f_end f
  /\ (f_strand f = 0 \/ f_strand f = 1 \/ f_strand f = -1)
  /\ tags_ok (f_tags f).
Definition row_ok_agp (r : row) : Prop :=
  match r with
  | RF f => frag_ok_agp f
  | RG g => no_tab_lf (g_type g)
  end.
Definition scaffold_name_ok (n : str) : Prop :=
  match n with
  | [] => False
  | c :: _ => c <> hash /\ no_tab_lf n
  end.
Fixpoint adjacent_distinct (l : list str) : Prop :=
  match l with
  | a :: ((b :: _) as t) => a <> b /\ adjacent_distinct t
  | _ => True
  end.
Definition agp_wf (a : assembly) : Prop :=
  Forall header_ok (a_header a)
  /\ Forall (fun sc => scaffold_name_ok (fst sc) /\ snd sc <> [] /\ Forall row_ok_agp (snd sc)) (a_scaffolds a)
  /\ adjacent_distinct (map fst (a_scaffolds a)).

(* TPF carries: no tags, strands PLUS/MINUS, coordinates >= 0 (no sign in the
   name:start-end field), every scaffold starts with a fragment, gap types the
   translation tables map back to themselves *)
Definition frag_ok_tpf (f : frag) : Prop :=
  f_id f = -1 /\ f_name f <> [] /\ no_tab_lf (f_name f) /\ 0 <= f_start f <= f_end f
  /\ (f_strand f = 1 \/ f_strand f = -1) /\ f_tags f = [].
Definition gap_type_ok_tpf (t : str) : Prop :=
  tpf_gap_type_in (tpf_gap_type_out t) = t /\ no_tab_lf (tpf_gap_type_out t)
  /\ forallb (fun c => negb (Ascii.eqb c CR)) (tpf_gap_type_out t) = true.
Definition row_ok_tpf (r : row) : Prop :=
  match r with
  | RF f => frag_ok_tpf f
  | RG g => gap_type_ok_tpf (g_type g)
  end.
Definition tpf_scaffold_name_ok (n : str) : Prop := n <> [] /\ no_tab_lf n.
Definition tpf_wf (a : assembly) : Prop :=
  Forall header_ok (a_header a)
  /\ Forall (fun sc => tpf_scaffold_name_ok (fst sc)
                       /\ (exists f t, snd sc = RF f :: t) /\ Forall row_ok_tpf (snd sc)) (a_scaffolds a)
  /\ adjacent_distinct (map fst (a_scaffolds a)).

Definition drop_tags_row (r : row) : row :=
  match r with
  | RF f => RF (mkFrag (f_id f) (f_name f) (f_start f) (f_end f) (f_strand f) [])
  | RG g => RG g
  end.
Definition drop_tags (a : assembly) : assembly :=
  mkAsm (a_header a) (map (fun sc => (fst sc, map drop_tags_row (snd sc))) (a_scaffolds a)).

(* ---- numeric view of the AGP lines of one scaffold (C06) *)
Record agp_num := mkAgpNum { an_beg : Z; an_end : Z; an_part : Z; an_row : row }.
Fixpoint agp_nums (rows : list row) (p i : Z) : list agp_num :=
  match rows with
  | [] => []
  | r :: t => mkAgpNum (p + 1) (p + row_len r) (i + 1) r :: agp_nums t (p + row_len r) (i + 1)
  end.
Definition render_num (name : str) (l : agp_num) : res (list str) :=
  let cols0 := [name; str_of_Z (an_beg l); str_of_Z (an_end l); str_of_Z (an_part l)] in
  match an_row l with
  | RG g => Ok (cols0 ++ [s "U"; str_of_Z (g_len g); g_type g; s "yes"; s "proximity_ligation"])
  | RF f => do sd <- strand_str_agp (f_strand f);
            Ok (cols0 ++ [s "W"; f_name f; str_of_Z (f_start f); str_of_Z (f_end f); sd] ++ f_tags f)
  end.

(* the coordinate law of one object *)
Fixpoint tiles (l : list agp_num) (next_beg next_part : Z) : Prop :=
  match l with
  | [] => True
  | x :: t =>
      an_beg x = next_beg /\ an_part x = next_part
      /\ match an_row x with
         | RF f => an_end x - an_beg x = f_end f - f_start f
         | RG g => an_end x - an_beg x + 1 = g_len g
         end
      /\ tiles t (an_end x + 1) (next_part + 1)
  end.
Definition last_end (l : list agp_num) (dflt : Z) : Z :=
  match last_opt l with Some x => an_end x | None => dflt end.

(* number of non-blank, non-comment lines of a text *)
Definition data_lines (text : str) : list str :=
  filter (fun l => negb (is_blank l) && negb (starts_with (s "#") l)) (split_lines text).
Definition n_rows (a : assembly) : nat := length (concat (map snd (a_scaffolds a))).
