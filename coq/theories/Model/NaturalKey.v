(* Assembly.name_natural_key, scaffolds_sorted_by_name, smart_sort_scaffolds.
   [natural_key] follows the split regex as repaired, (IV|I{1,3}|\d+);
   [natural_key_legacy] the regex of the pinned commit, (I+V?|\d+). *)
From Tola Require Import Py.Base Py.Dec Py.Sort.

Inductive kelt := KS (x : str) | KI (n : Z).

Fixpoint take_while (p : ascii -> bool) (x : str) : str * str :=
  match x with
  | c :: t => if p c then let '(a, b) := take_while p t in (c :: a, b) else ([], x)
  | [] => ([], [])
  end.

Definition is_I (c : ascii) : bool := Ascii.eqb c "I"%char.
Definition is_V (c : ascii) : bool := Ascii.eqb c "V"%char.

(* one attempt of the regex at the head of x: Some (token, rest) *)
Definition match_tok (x : str) : option (str * str) :=
  match x with
  | c1 :: t1 =>
      if is_I c1 then
        match t1 with
        | c2 :: t2 =>
            if is_V c2 then Some ([c1; c2], t2)                       (* IV *)
            else if is_I c2 then
              match t2 with
              | c3 :: t3 => if is_I c3 then Some ([c1; c2; c3], t3)    (* III *)
                            else Some ([c1; c2], t2)                   (* II *)
              | [] => Some ([c1; c2], [])
              end
            else Some ([c1], t1)                                       (* I *)
        | [] => Some ([c1], [])
        end
      else if is_digit c1 then Some (take_while is_digit x)            (* \d+ *)
      else None
  | [] => None
  end.

Definition match_tok_legacy (x : str) : option (str * str) :=
  match x with
  | c1 :: _ =>
      if is_I c1 then
        let '(is, r) := take_while is_I x in
        match r with
        | c :: r' => if is_V c then Some (is ++ [c], r') else Some (is, r)
        | [] => Some (is, [])
        end
      else if is_digit c1 then Some (take_while is_digit x)
      else None
  | [] => None
  end.

(* NEMATODE_CHR_INT.get(x) or int(x) *)
Definition tok_value (t : str) : res Z :=
  if str_eqb t (s "I") then Ok 1
  else if str_eqb t (s "II") then Ok 2
  else if str_eqb t (s "III") then Ok 3
  else if str_eqb t (s "IV") then Ok 4
  else int_of_str t.

(* re.split with one capture group: text pieces at even positions (possibly
   empty), tokens at odd positions.  [acc] is the current text piece, reversed. *)
Fixpoint split_fuel (m : str -> option (str * str)) (fuel : nat) (x : str) (acc : str)
  : res (list kelt) :=
  match fuel with
  | O => Err OutOfFuel
  | S fuel' =>
      match x with
      | [] => Ok [KS (rev acc)]
      | c :: t =>
          match m x with
          | Some (tok, rest) =>
              do v <- tok_value tok;
              do k <- split_fuel m fuel' rest [];
              Ok (KS (rev acc) :: KI v :: k)
          | None => split_fuel m fuel' t (c :: acc)
          end
      end
  end.

Definition natural_key (name : str) : res (list kelt) :=
  split_fuel match_tok (S (length name)) name [].
Definition natural_key_legacy (name : str) : res (list kelt) :=
  split_fuel match_tok_legacy (S (length name)) name [].

(* Python's tuple comparison restricted to what can occur: same-kind elements
   at the same position (key_shape shows mixed kinds never meet) *)
Definition kelt_cmp (a b : kelt) : comparison :=
  match a, b with
  | KS x, KS y => str_cmp x y
  | KI n, KI m => Z.compare n m
  | KS _, KI _ => Lt     (* unreachable: TypeError in Python *)
  | KI _, KS _ => Gt
  end.
Fixpoint key_cmp (a b : list kelt) : comparison :=
  match a, b with
  | [], [] => Eq
  | [], _ :: _ => Lt
  | _ :: _, [] => Gt
  | x :: a', y :: b' => match kelt_cmp x y with Eq => key_cmp a' b' | c => c end
  end.
Definition key_le (a b : list kelt) : bool :=
  match key_cmp a b with Gt => false | _ => true end.

(* sorted(scaffolds, key=name_natural_key): keys are computed for every
   element first (any failure aborts the sort) *)
Definition with_keys {A} (name_of : A -> str) (l : list A) : res (list (list kelt * A)) :=
  mapM (fun x => do k <- natural_key (name_of x); Ok (k, x)) l.

Definition sorted_by_name {A} (name_of : A -> str) (l : list A) : res (list A) :=
  do kl <- with_keys name_of l;
  Ok (map snd (stable_sort (fun a b => key_le (fst a) (fst b)) kl)).

(* smart_sort_scaffolds: key = (rank, natural key) *)
Definition rank_key_le (a b : Z * list kelt) : bool :=
  match Z.compare (fst a) (fst b) with
  | Lt => true
  | Gt => false
  | Eq => key_le (snd a) (snd b)
  end.
Definition smart_sort {A} (rank_of : A -> Z) (name_of : A -> str) (l : list A) : res (list A) :=
  do kl <- with_keys name_of l;
  Ok (map snd (stable_sort (fun a b => rank_key_le (rank_of (snd a), fst a) (rank_of (snd b), fst b)) kl)).
