(* tola.assembly.parser (parse_agp, parse_tpf) and tola.assembly.format
   (format_agp, format_tpf), plus the Pretext resolution header
   (Assembly.bp_per_texel).  Text is [list ascii]; a file is iterated as the
   lines Python yields (each keeps its LF). *)
From Tola Require Import Py.Base Py.Dec Model.Fragment Model.Fasta.

Record assembly := mkAsm { a_header : list str; a_scaffolds : list (str * list row) }.

(* str.split("\t") *)
Fixpoint split_on (sep : ascii) (x : str) (cur : str) : list str :=
  match x with
  | [] => [rev cur]
  | c :: t => if Ascii.eqb c sep then rev cur :: split_on sep t [] else split_on sep t (c :: cur)
  end.
Definition split_tab (x : str) : list str := split_on TAB x [].

Fixpoint join (sep : str) (l : list str) : str :=
  match l with
  | [] => []
  | [x] => x
  | x :: t => x ++ sep ++ join sep t
  end.

Definition is_blank (line : str) : bool := forallb is_space line.

Definition hash : ascii := "#"%char.
Definition is_hash_or_space (c : ascii) : bool := Ascii.eqb c hash || is_space c.
Definition not_lf (c : ascii) : bool := negb (Ascii.eqb c LF).

Fixpoint span (p : ascii -> bool) (x : str) : str * str :=
  match x with
  | c :: t => if p c then let '(a, b) := span p t in (c :: a, b) else ([], x)
  | [] => ([], [])
  end.

(* group 1 of re.match(r"[#\s]+(.+)", line) on a line that starts with "#" *)
Definition header_text (line : str) : option str :=
  let '(r, rest) := span is_hash_or_space line in
  match rest with
  | _ :: _ => Some (fst (span not_lf rest))
  | [] =>
      (* backtracking: give characters back until one is not a line feed;
         the first character can never be given back *)
      match r with
      | [] => None
      | _ :: r' =>
          match snd (span (fun c => negb (not_lf c)) (rev r')) with
          | c :: _ => Some [c]
          | [] => None
          end
      end
  end.

Definition nth_field (fields : list str) (n : nat) : res str :=
  match nth_error fields n with Some x => Ok x | None => Err IndexError end.

(* the scaffold list is built in order; rows are appended to the last one *)
Fixpoint add_row_last (scs : list (str * list row)) (r : row) : list (str * list row) :=
  match scs with
  | [] => []
  | [(n, rows)] => [(n, rows ++ [r])]
  | x :: t => x :: add_row_last t r
  end.

Record pstate := mkP {
  p_header : list str;
  p_scs : list (str * list row);
  p_name : str;            (* scaffold_name, "" initially *)
  p_have : bool            (* scaffold is not None *)
}.

Definition strand_of_agp (x : str) : res Z :=
  if str_eqb x (s "?") then Ok 0
  else if str_eqb x (s "+") then Ok 1
  else if str_eqb x (s "-") then Ok (-1)
  else Err KeyError.

Definition agp_line (st : pstate) (line : str) : res pstate :=
  if is_blank line then Ok st
  else if starts_with (s "##") line then Ok st
  else if starts_with (s "#") line then
    match header_text line with
    | Some h => Ok (mkP (p_header st ++ [h]) (p_scs st) (p_name st) (p_have st))
    | None => Ok st
    end
  else
    let fields := split_tab (rstrip_space line) in
    do f0 <- nth_field fields 0;
    let st1 := if str_eqb f0 (p_name st) then st
               else mkP (p_header st) (p_scs st ++ [(f0, [])]) f0 true in
    do f4 <- nth_field fields 4;
    if str_eqb f4 (s "U") || str_eqb f4 (s "N") then
      if negb (p_have st1) then Err AttributeError else
      do f5 <- nth_field fields 5;
      do f6 <- nth_field fields 6;
      do len <- int_of_str f5;
      Ok (mkP (p_header st1) (add_row_last (p_scs st1) (RG (mkGap len f6))) (p_name st1) true)
    else
      if negb (p_have st1) then
        (* arguments are evaluated before scaffold.add_row fails on None *)
        do f5 <- nth_field fields 5; do f6 <- nth_field fields 6; do f7 <- nth_field fields 7;
        do f8 <- nth_field fields 8; do sd <- strand_of_agp f8;
        do a <- int_of_str f6; do b <- int_of_str f7; do f <- new_frag (-1) f5 a b sd (skipn 9 fields);
        Err AttributeError
      else
      do f5 <- nth_field fields 5;
      do f6 <- nth_field fields 6;
      do f7 <- nth_field fields 7;
      do f8 <- nth_field fields 8;
      do sd <- strand_of_agp f8;
      do a <- int_of_str f6;
      do b <- int_of_str f7;
      do f <- new_frag (-1) f5 a b sd (skipn 9 fields);
      Ok (mkP (p_header st1) (add_row_last (p_scs st1) (RF f)) (p_name st1) true).

Definition parse_agp (text : str) : res assembly :=
  do st <- foldM agp_line (split_lines text) (mkP [] [] [] false);
  Ok (mkAsm (p_header st) (p_scs st)).

(* ------------------------------------------------------------------ TPF *)
Definition lc_dash (c : ascii) : ascii :=
  if Ascii.eqb c "-"%char then "_"%char else lower_char c.
Definition uc_underscore (c : ascii) : ascii :=
  if Ascii.eqb c "_"%char then "-"%char else upper_char c.

Definition tpf_gap_type_in (x : str) : str :=
  if str_eqb x (s "TYPE-2") then s "scaffold"
  else if str_eqb x (s "TYPE-3") then s "contig"
  else map lc_dash x.
Definition tpf_gap_type_out (x : str) : str :=
  if str_eqb x (s "scaffold") then s "TYPE-2"
  else if str_eqb x (s "contig") then s "TYPE-3"
  else map uc_underscore x.

Definition rstrip_eol (x : str) : str := rstrip_crlf x.

(* re.match(r"(.+):(\d+)-(\d+)$", field): name (greedy), start digits, end digits *)
Definition tpf_name (x : str) : option (str * str * str) :=
  let r := rev x in
  let '(d2r, r1) := span is_digit r in
  match d2r, r1 with
  | _ :: _, c1 :: r2 =>
      if Ascii.eqb c1 "-"%char then
        let '(d1r, r3) := span is_digit r2 in
        match d1r, r3 with
        | _ :: _, c2 :: r4 =>
            if Ascii.eqb c2 ":"%char then
              match r4 with
              | [] => None
              | _ => if forallb not_lf r4 then Some (rev r4, rev d1r, rev d2r) else None
              end
            else None
        | _, _ => None
        end
      else None
  | _, _ => None
  end.

Definition strand_of_tpf (x : str) : res Z :=
  if str_eqb x (s "PLUS") then Ok 1
  else if str_eqb x (s "MINUS") then Ok (-1)
  else Err KeyError.

Definition tpf_line (st : pstate) (line : str) : res pstate :=
  if is_blank line then Ok st
  else if starts_with (s "#") line then
    match header_text line with
    | Some h => Ok (mkP (p_header st ++ [h]) (p_scs st) (p_name st) (p_have st))
    | None => Ok st
    end
  else
    let fields := split_tab (rstrip_eol line) in
    do f0 <- nth_field fields 0;
    if str_eqb f0 (s "GAP") then
      if p_have st then
        do f2 <- nth_field fields 2;
        do f1 <- nth_field fields 1;
        do len <- int_of_str f2;
        Ok (mkP (p_header st) (add_row_last (p_scs st) (RG (mkGap len (tpf_gap_type_in f1)))) (p_name st) true)
      else Err ValueError
    else if Nat.eqb (length fields) 4 then
      do f2 <- nth_field fields 2;
      let st1 := if str_eqb f2 (p_name st) then st
                 else mkP (p_header st) (p_scs st ++ [(f2, [])]) f2 true in
      do f1 <- nth_field fields 1;
      match tpf_name f1 with
      | Some (name, d1, d2) =>
          do f3 <- nth_field fields 3;
          do sd <- strand_of_tpf f3;
          do a <- int_of_str d1;
          do b <- int_of_str d2;
          do f <- new_frag (-1) name a b sd [];
          if negb (p_have st1) then Err AttributeError
          else Ok (mkP (p_header st1) (add_row_last (p_scs st1) (RF f)) (p_name st1) true)
      | None => Err ValueError
      end
    else Err ValueError.

Definition parse_tpf (text : str) : res assembly :=
  do st <- foldM tpf_line (split_lines text) (mkP [] [] [] false);
  Ok (mkAsm (p_header st) (p_scs st)).

(* -------------------------------------------------------------- writers *)
Definition strand_str_agp (st : Z) : res str :=
  if st =? 0 then Ok (s "?") else if st =? 1 then Ok (s "+") else if st =? -1 then Ok (s "-")
  else Err IndexError.
Definition strand_str_tpf (st : Z) : res str :=
  if st =? 0 then Ok (s "UNKNOWN") else if st =? 1 then Ok (s "PLUS") else if st =? -1 then Ok (s "MINUS")
  else Err IndexError.

(* structured AGP line: the columns before joining *)
Fixpoint agp_rows (name : str) (rows : list row) (p : Z) (i : Z) : res (list (list str)) :=
  match rows with
  | [] => Ok []
  | r :: t =>
      let cols0 := [name; str_of_Z (p + 1); str_of_Z (p + row_len r); str_of_Z (i + 1)] in
      do cols <-
        match r with
        | RG g => Ok (cols0 ++ [s "U"; str_of_Z (g_len g); g_type g; s "yes"; s "proximity_ligation"])
        | RF f => do sd <- strand_str_agp (f_strand f);
                  Ok (cols0 ++ [s "W"; f_name f; str_of_Z (f_start f); str_of_Z (f_end f); sd] ++ f_tags f)
        end;
      do rest <- agp_rows name t (p + row_len r) (i + 1);
      Ok (cols :: rest)
  end.

Definition agp_lines (a : assembly) : res (list (list str)) :=
  do ls <- mapM (fun '(n, rows) => agp_rows n rows 0 0) (a_scaffolds a);
  Ok (concat ls).

Definition format_agp (a : assembly) : res str :=
  do ls <- agp_lines a;
  Ok (concat (map (fun h => hash :: " "%char :: h ++ [LF]) (a_header a))
      ++ concat (map (fun cols => join [TAB] cols ++ [LF]) ls)).

Definition tpf_row (scname : str) (r : row) : res str :=
  match r with
  | RG g => Ok (join [TAB] [s "GAP"; tpf_gap_type_out (g_type g); str_of_Z (g_len g)] ++ [LF])
  | RF f =>
      do sd <- strand_str_tpf (f_strand f);
      Ok (join [TAB] [s "?"; f_name f ++ ":"%char :: str_of_Z (f_start f) ++ "-"%char :: str_of_Z (f_end f);
                      scname; sd] ++ [LF])
  end.

Definition format_tpf (a : assembly) : res str :=
  do ls <- mapM (fun '(n, rows) => do l <- mapM (tpf_row n) rows; Ok (concat l)) (a_scaffolds a);
  Ok (concat (map (fun h => hash :: hash :: " "%char :: h ++ [LF]) (a_header a)) ++ concat ls).

(* ------------------------------------------- Pretext resolution header *)
(* re.match(r"HiC MAP RESOLUTION: ([\d\.]+) bp/texel", txt); float(group) as an
   exact fraction (numerator, denominator = power of ten) *)
Definition is_digit_or_dot (c : ascii) : bool := is_digit c || Ascii.eqb c "."%char.

Fixpoint pow10 (n : nat) : Z := match n with O => 1 | S n' => 10 * pow10 n' end.

Definition float_of_digits_dots (x : str) : res (Z * Z) :=
  let '(ip, rest) := span is_digit x in
  match rest with
  | [] => match Z_of_digits ip with Some n => Ok (n, 1) | None => Err ValueError end
  | c :: fp =>
      (* c is "." ; a second "." makes float() fail *)
      if forallb is_digit fp then
        match ip, fp with
        | [], [] => Err ValueError
        | _, _ =>
            match Z_of_digits (ip ++ fp) with
            | Some n => Ok (n, pow10 (length fp))
            | None => Err ValueError
            end
        end
      else Err ValueError
  end.

Definition resolution_prefix : str := s "HiC MAP RESOLUTION: ".
Definition resolution_suffix : str := s " bp/texel".

Definition header_resolution (h : str) : option (res (Z * Z)) :=
  if starts_with resolution_prefix h then
    let body := skipn (length resolution_prefix) h in
    (* greedy [\d\.]+ then the literal suffix; the class cannot eat a space,
       so no backtracking can help *)
    let '(num, rest) := span is_digit_or_dot body in
    match num with
    | [] => None
    | _ => if starts_with resolution_suffix rest then Some (float_of_digits_dots num) else None
    end
  else None.

(* the last matching header line wins; None = no resolution line *)
Fixpoint bp_per_texel (hs : list str) (acc : option (Z * Z)) : res (option (Z * Z)) :=
  match hs with
  | [] => Ok acc
  | h :: t =>
      match header_resolution h with
      | Some (Ok v) => bp_per_texel t (Some v)
      | Some (Err e) => Err e
      | None => bp_per_texel t acc
      end
  end.
