(* tola.assembly.indexed_assembly.IndexedAssembly: the cumulative index of
   add_scaffold and find_overlaps, for the rows of the scaffold the bait names.
   Indices are Z so that Python's negative-index behaviour is kept. *)
From Tola Require Import Py.Base Model.Fragment.

(* add_scaffold: idx[k] = end position of row k in the scaffold *)
Fixpoint cum_index (rows : list row) (acc : Z) : list Z :=
  match rows with
  | [] => []
  | r :: t => (acc + row_len r) :: cum_index t (acc + row_len r)
  end.
Definition make_index (rows : list row) : list Z := cum_index rows 0.

(* idx[i] for an index the surrounding code keeps inside range(len(idx)) *)
Definition idx_at (idx : list Z) (i : Z) : Z := nth (Z.to_nat i) idx 0.
Definition row_start (idx : list Z) (m : Z) : Z :=
  if m =? 0 then 1 else 1 + idx_at idx (m - 1).

(* while a < z: ... ; fuel bounds the number of iterations *)
Fixpoint bsearch (idx : list Z) (bs be : Z) (fuel : nat) (a z : Z) : res (option Z) :=
  match fuel with
  | O => Err OutOfFuel
  | S fuel' =>
      if a <? z then
        let m := a + (z - a) / 2 in
        if idx_at idx m <? bs then bsearch idx bs be fuel' (m + 1) z
        else if row_start idx m >? be then bsearch idx bs be fuel' a m
        else Ok (Some m)
      else Ok None
  end.

(* for i in range(ovr - 1, -1, -1): if idx[i] < bait_start: break; i_ovr = i
   [n] = number of candidates still to visit (n-1, n-2, ... 0) *)
Fixpoint extend_left (idx : list Z) (bs : Z) (n : nat) (cur : Z) : Z :=
  match n with
  | O => cur
  | S n' =>
      if idx_at idx (Z.of_nat n') <? bs then cur
      else extend_left idx bs n' (Z.of_nat n')
  end.

(* for j in range(ovr + 1, len(idx)): if 1 + idx[j-1] > bait_end: break; j_ovr = j
   [n] = number of candidates still to visit, [j] the next one *)
Fixpoint extend_right (idx : list Z) (be : Z) (n : nat) (j cur : Z) : Z :=
  match n with
  | O => cur
  | S n' =>
      if row_start idx j >? be then cur
      else extend_right idx be n' (j + 1) j
  end.

(* while [i <= j and] isinstance(rows[i], Gap): i += 1
   [bounded] = the loop carries the i <= j guard (repaired code); without it
   the loop runs until a non-gap row or an IndexError. *)
Fixpoint strip_left (bounded : bool) (rows : list row) (fuel : nat) (i j : Z) : res Z :=
  match fuel with
  | O => Err OutOfFuel
  | S fuel' =>
      if bounded && negb (i <=? j) then Ok i
      else
        do r <- py_nth rows i;
        if is_gap r then strip_left bounded rows fuel' (i + 1) j else Ok i
  end.

Fixpoint strip_right (bounded : bool) (rows : list row) (fuel : nat) (i j : Z) : res Z :=
  match fuel with
  | O => Err OutOfFuel
  | S fuel' =>
      if bounded && negb (i <=? j) then Ok j
      else
        do r <- py_nth rows j;
        if is_gap r then strip_right bounded rows fuel' i (j - 1) else Ok j
  end.

Record found := mkFound { fo_start : Z; fo_end : Z; fo_rows : list row }.

Definition find_overlaps_gen (bounded : bool) (rows : list row) (bs be : Z) : res (option found) :=
  match rows with
  | [] => Err ValueError                      (* "Scaffold is empty" *)
  | _ =>
      let idx := make_index rows in
      let n := length idx in
      do ovr <- bsearch idx bs be (S n) 0 (Z.of_nat n);
      match ovr with
      | None => Ok None
      | Some m =>
          let i0 := extend_left idx bs (Z.to_nat m) m in
          let j0 := extend_right idx be (n - S (Z.to_nat m)) (m + 1) m in
          do i1 <- strip_left bounded rows (S (S n)) i0 j0;
          do j1 <- strip_right bounded rows (S (S (n + n))) i1 j0;
          if negb (i1 <=? j1) then Ok None
          else Ok (Some (mkFound (row_start idx i1) (idx_at idx j1)
                                 (py_slice rows i1 (j1 + 1))))
      end
  end.

(* the code as repaired (both stripping loops bounded by i_ovr <= j_ovr) *)
Definition find_overlaps := find_overlaps_gen true.
(* the code as found at the pinned commit *)
Definition find_overlaps_legacy := find_overlaps_gen false.

(* every row at least one base long *)
Definition pos_rows (rows : list row) : Prop := Forall (fun r => 1 <= row_len r) rows.

(* ---------------------------------------------------- brute-force spec *)
(* scaffold coordinates of row k, straight from the row lengths *)
Definition span_start (rows : list row) (k : nat) : Z := 1 + rows_len (firstn k rows).
Definition span_end (rows : list row) (k : nat) : Z := rows_len (firstn (S k) rows).
Definition meets (rows : list row) (bs be : Z) (k : nat) : Prop :=
  span_start rows k <= be /\ bs <= span_end rows k.
Definition frag_at (rows : list row) (k : nat) : Prop :=
  exists f, nth_error rows k = Some (RF f).

Definition lookup_spec (rows : list row) (bs be : Z) (r : option found) : Prop :=
  match r with
  | None => forall k, frag_at rows k -> ~ meets rows bs be k
  | Some fo =>
      exists i j, (i <= j < length rows)%nat
        /\ fo_rows fo = firstn (S j - i) (skipn i rows)
        /\ fo_start fo = span_start rows i /\ fo_end fo = span_end rows j
        /\ frag_at rows i /\ frag_at rows j
        /\ meets rows bs be i /\ meets rows bs be j
        /\ (forall k, frag_at rows k -> meets rows bs be k -> (i <= k <= j)%nat)
  end.

(* executable brute force: linear scan, then strip gaps at both ends *)
Fixpoint scan_rows (rows : list row) (pos : Z) (bs be : Z) : list (Z * Z * row) :=
  match rows with
  | [] => []
  | r :: t =>
      let st := pos + 1 in
      let en := pos + row_len r in
      (if (st <=? be) && (bs <=? en) then [(st, en, r)] else []) ++ scan_rows t en bs be
  end.
Fixpoint drop_gaps (l : list (Z * Z * row)) : list (Z * Z * row) :=
  match l with
  | (_, _, RG _) :: t => drop_gaps t
  | _ => l
  end.
Definition brute_force (rows : list row) (bs be : Z) : option found :=
  let core := rev (drop_gaps (rev (drop_gaps (scan_rows rows 0 bs be)))) in
  match core, last_opt core with
  | (st, _, _) :: _, Some (_, en, _) => Some (mkFound st en (map snd core))
  | _, _ => None
  end.
