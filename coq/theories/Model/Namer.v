(* tola.assembly.build_utils.ScaffoldNamer: tag classification, haplotype
   detection, Target / Primary state, H_n and _unloc_n counters, rename by
   size.  Overlap results are referred to by their index (rid) in the store
   of results. *)
From Tola Require Import Py.Base Py.Dec Py.Sort Model.Fragment Model.Scaffold.

Definition rid := Z.

Record namer := mkNamer {
  nm_prefix : str;
  nm_cur_name : option str;
  nm_cur_rank : Z;
  nm_cur_hap : option str;
  nm_hap_n : Z;
  nm_hap_scaffolds : list rid;
  nm_primary : option str;
  nm_target : bool;
  nm_unloc_n : Z;
  nm_unloc_scaffolds : list rid;
  nm_hap_lc : list (str * str)        (* lower-case haplotype -> first spelling seen *)
}.

Definition new_namer (prefix : str) : namer :=
  mkNamer prefix None 0 None 0 [] None false 0 [] [].

(* Python truthiness of an Optional[str] *)
Definition truthy (o : option str) : bool :=
  match o with Some (_ :: _) => true | _ => false end.

(* re.fullmatch(r"([A-Z]\d*|[IVX_]+|\d+[A-Z]+)", tag) *)
Definition is_IVX_ (c : ascii) : bool :=
  Ascii.eqb c "I"%char || Ascii.eqb c "V"%char || Ascii.eqb c "X"%char || Ascii.eqb c "_"%char.
Fixpoint span' (p : ascii -> bool) (x : str) : str * str :=
  match x with
  | c :: t => if p c then let '(a, b) := span' p t in (c :: a, b) else ([], x)
  | [] => ([], [])
  end.
Definition looks_like_chr_name (tag : str) : bool :=
  match tag with
  | [] => false
  | c :: t =>
      (is_upper c && forallb is_digit t)
      || forallb is_IVX_ tag
      || (let '(ds, rest) := span' is_digit tag in
          match ds, rest with
          | _ :: _, _ :: _ => forallb is_upper rest
          | _, _ => false
          end)
  end.

Definition other_known_tags : list str :=
  [s "Contaminant"; s "Cut"; s "FalseDuplicate"; s "Haplotig"; s "Singleton"; s "Unloc"].

(* haplotype_lc_dict.setdefault(h.lower(), h) *)
Definition get_set_haplotype (nm : list (str * str)) (h : str) : str * list (str * str) :=
  match aget str_eqb nm (lower h) with
  | Some v => (v, nm)
  | None => (h, nm ++ [(lower h, h)])
  end.

(* re.search(r"^([^_]+)_.+_\d+$", name): group 1 *)
Definition haplotype_prefix_of_name (name : str) : option str :=
  let '(p, rest) := span' (fun c => negb (Ascii.eqb c "_"%char)) name in
  match p, rest with
  | _ :: _, _ :: after =>                       (* after the first underscore *)
      let '(dr, r1) := span' is_digit (rev after) in
      match dr, r1 with
      | _ :: _, u :: mid =>
          if Ascii.eqb u "_"%char then
            match mid with
            | [] => None
            | _ => if forallb (fun c => negb (Ascii.eqb c (ascii_of_N 10))) after then Some p else None
            end
          else None
      | _, _ => None
      end
  | _, _ => None
  end.

(* scaffold.rows[0].name *)
Definition first_row_name (rows : list row) : res str :=
  match rows with
  | [] => Err IndexError
  | RG _ :: _ => Err AttributeError
  | RF f :: _ => Ok (f_name f)
  end.

Record tagscan := mkScan {
  ts_name : option str; ts_hap : option str; ts_painted : bool; ts_rank : option Z;
  ts_primary : bool; ts_target : bool; ts_lc : list (str * str)
}.

Definition scan_tag (st : tagscan) (tag : str) : res tagscan :=
  (* "if not tag: continue": an empty AGP column is not a tag (repaired; the
     pinned commit took it for a falsy haplotype, which made the outcome depend
     on the iteration order of the tag set) *)
  match tag with [] => Ok st | _ :: _ =>
  if str_eqb tag (s "Painted") then
    Ok (mkScan (ts_name st) (ts_hap st) true (ts_rank st) (ts_primary st) (ts_target st) (ts_lc st))
  else if str_eqb tag (s "Target") then
    Ok (mkScan (ts_name st) (ts_hap st) (ts_painted st) (ts_rank st) (ts_primary st) true (ts_lc st))
  else if str_eqb tag (s "Primary") then
    Ok (mkScan (ts_name st) (ts_hap st) (ts_painted st) (ts_rank st) true (ts_target st) (ts_lc st))
  else if looks_like_chr_name tag then
    match ts_name st with
    | Some n => if negb (str_eqb tag n) then Err TaggingError
                else Ok (mkScan (Some tag) (ts_hap st) (ts_painted st) (Some 2) (ts_primary st) (ts_target st) (ts_lc st))
    | None => Ok (mkScan (Some tag) (ts_hap st) (ts_painted st) (Some 2) (ts_primary st) (ts_target st) (ts_lc st))
    end
  else if negb (mem_str tag other_known_tags) then
    if truthy (ts_hap st) then Err TaggingError
    else
      let '(h, lc) := get_set_haplotype (ts_lc st) tag in
      Ok (mkScan (ts_name st) (Some h) (ts_painted st) (ts_rank st) (ts_primary st) (ts_target st) lc)
  else Ok st
  end.

(* make_scaffold_name(scaffold, fragment_tags): [sc_name0] = scaffold.name,
   [rows] = scaffold.rows, [tags] = the tag set (as a duplicate-free list) *)
Definition make_scaffold_name (nm : namer) (sc_name0 : str) (rows : list row) (tags : list str) : res namer :=
  let tags' := match tags with [] => fragment_tags rows | _ => tags end in
  do sc <- foldM scan_tag tags' (mkScan None None false None false (nm_target nm) (nm_hap_lc nm));
  do hap_lc <-
    (if truthy (ts_hap sc) then Ok (ts_hap sc, ts_lc sc)
     else
       do fn <- first_row_name rows;
       match haplotype_prefix_of_name fn with
       | Some p => let '(h, lc) := get_set_haplotype (ts_lc sc) p in Ok (Some h, lc)
       | None => Ok (None, ts_lc sc)
       end);
  let '(hap, lc1) := hap_lc in
  do prim_lc <-
    (if ts_primary sc && negb (truthy (nm_primary nm)) then
       match hap with
       | Some (c :: h') =>
           let '(p, lc2) := get_set_haplotype lc1 (c :: h') in Ok (Some p, lc2)
       | _ => Err TaggingError
       end
     else Ok (nm_primary nm, lc1));
  let '(prim, lc2) := prim_lc in
  do nr <-
    (match ts_name sc with
     | Some n => Ok (n, match ts_rank sc with Some r => r | None => 2 end)
     | None =>
         if ts_painted sc then Ok (sc_name0, match ts_rank sc with Some r => r | None => 1 end)
         else do fn <- first_row_name rows; Ok (fn, 3)
     end);
  let '(name, rank) := nr in
  let cur_hap :=
    if truthy prim then
      (if opt_eqb str_eqb hap prim then Some (s "Primary") else hap)
    else hap in
  Ok (mkNamer (nm_prefix nm) (Some name) rank cur_hap (nm_hap_n nm) (nm_hap_scaffolds nm)
              prim (ts_target sc) 0 [] lc2).

(* what label_scaffold decides for one overlap result *)
Record label := mkLabel {
  lb_name : str; lb_tag : option str; lb_hap : option str; lb_rank : Z
}.

Definition label_scaffold (nm : namer) (id : rid) (frag_tags scaffold_tags : list str)
  : res (namer * label) :=
  let name0 := match nm_cur_name nm with Some n => n | None => [] end in
  let contaminant := mem_str (s "Contaminant") frag_tags
                     || (nm_target nm && negb (mem_str (s "Target") scaffold_tags)) in
  let tag1 := if contaminant then Some (s "Contaminant") else None in
  let rank1 := if contaminant then 3 else nm_cur_rank nm in
  if mem_str (s "FalseDuplicate") frag_tags then
    Ok (nm, mkLabel name0 (Some (s "FalseDuplicate")) (nm_cur_hap nm) 3)
  else if mem_str (s "Haplotig") frag_tags then
    let n := nm_hap_n nm + 1 in
    let nm' := mkNamer (nm_prefix nm) (nm_cur_name nm) (nm_cur_rank nm) (nm_cur_hap nm) n
                       (nm_hap_scaffolds nm ++ [id]) (nm_primary nm) (nm_target nm)
                       (nm_unloc_n nm) (nm_unloc_scaffolds nm) (nm_hap_lc nm) in
    Ok (nm', mkLabel (s "H_" ++ str_of_Z n) (Some (s "Haplotig")) (nm_cur_hap nm) 3)
  else if mem_str (s "Unloc") frag_tags then
    if negb (mem_str (s "Painted") scaffold_tags) then Err ValueError
    else
      let n := nm_unloc_n nm + 1 in
      let nm' := mkNamer (nm_prefix nm) (nm_cur_name nm) (nm_cur_rank nm) (nm_cur_hap nm) (nm_hap_n nm)
                         (nm_hap_scaffolds nm) (nm_primary nm) (nm_target nm)
                         n (nm_unloc_scaffolds nm ++ [id]) (nm_hap_lc nm) in
      Ok (nm', mkLabel (name0 ++ s "_unloc_" ++ str_of_Z n) tag1 (nm_cur_hap nm) rank1)
  else Ok (nm, mkLabel name0 tag1 (nm_cur_hap nm) rank1).

(* rename_by_size: the existing names are handed out again in order of
   non-increasing length (stable on ties) *)
Definition rename_by_size {A} (ids : list A) (name_of : A -> str) (length_of : A -> Z)
  : list (A * str) :=
  combine (sort_by_Z_desc length_of ids) (map name_of ids).
