(* tola.fasta.index.FastaIndex cache protocol (check_for_index_files,
   auto_load, load_index, load_assembly, run_indexing, write_index,
   write_assembly) as a transition system over an abstract file system with
   logical time stamps.  A file's payload is abstracted to (the FASTA content
   version it was derived from, how many of its blocks have reached the file
   system, how many blocks it has when complete).

   [atomic = true]  : the repaired protocol -- cache files are written to a
                      private temporary file and renamed into place;
   [atomic = false] : the protocol of the pinned commit -- cache files are
                      truncated and rewritten in place.

   The system is driven by the trace of file operations the processes perform
   (each with the process id): the model checks that every operation is the
   one the protocol performs next and predicts what each process ends up
   holding. *)
From Tola Require Import Py.Base.

Inductive cfile := Fai | Agp.
Definition cfile_eqb (a b : cfile) : bool :=
  match a, b with Fai, Fai => true | Agp, Agp => true | _, _ => false end.

Record payload := mkPayload { p_content : Z; p_written : Z; p_complete : bool; p_stamp : Z }.
Definition complete (p : payload) : bool := p_complete p.

(* what a process holds after loading / indexing one of the two structures *)
Inductive held := HNone | HGood (content : Z) | HPartial (content : Z).

Inductive pc :=
  | PStart                       (* FastaIndex(path): fasta_file.exists() *)
  | PStatFasta                   (* check_for_index_files: fasta mtime *)
  | PCheck (f : cfile) (exists_done : bool)     (* exists() then stat() of each cache file *)
  | PLoadOpen (f : cfile) | PLoadRead (f : cfile)
  | PIndexRead                   (* index_fasta_file opens and reads the FASTA *)
  | PWarnExists (f : cfile)      (* write_*: "if file.exists(): warn" *)
  | PWriteOpen (f : cfile)       (* open the cache (or its temporary) for writing *)
  | PWriteBlocks (f : cfile)     (* any number of block writes, then close *)
  | PReplace (f : cfile)         (* os.replace(tmp, file)  -- atomic protocol only *)
  | PDone
  | PFailed.

Record proc := mkProc {
  pr_pc : pc;
  pr_fasta_stamp : Z;            (* mtime read by check_for_index_files *)
  pr_index : held; pr_asm : held;
  pr_content : Z;                (* FASTA content read by index_fasta_file *)
  pr_tmp : Z                     (* time stamp of the private temporary (last write) *)
}.

Record fs := mkFs {
  fasta_content : Z; fasta_stamp : Z;
  fai : option payload; agp : option payload;
  clock : Z
}.

Definition get_file (s : fs) (f : cfile) : option payload :=
  match f with Fai => fai s | Agp => agp s end.
Definition set_file (s : fs) (f : cfile) (p : option payload) : fs :=
  match f with
  | Fai => mkFs (fasta_content s) (fasta_stamp s) p (agp s) (clock s)
  | Agp => mkFs (fasta_content s) (fasta_stamp s) (fai s) p (clock s)
  end.

(* operations observed in the trace *)
Inductive fop :=
  | OExistsFasta | OStatFasta
  | OExists (f : cfile) | OStat (f : cfile)
  | OOpenRead (f : cfile) | ORead (f : cfile)
  | OReadFasta
  | OOpenWrite (f : cfile) | OWriteBlock (f : cfile) | OClose (f : cfile) | OReplace (f : cfile)
  | OCrash.

Definition with_pc (p : proc) (c : pc) : proc :=
  mkProc c (pr_fasta_stamp p) (pr_index p) (pr_asm p) (pr_content p) (pr_tmp p).

Definition next_check (f : cfile) : pc :=
  match f with Fai => PCheck Agp false | Agp => PLoadOpen Fai end.
Definition after_write (f : cfile) : pc :=
  match f with Fai => PWarnExists Agp | Agp => PDone end.

Definition held_of (pl : payload) : held :=
  if complete pl then HGood (p_content pl) else HPartial (p_content pl).

(* one operation of one process; None = the operation is not what the protocol does next *)
Definition step (atomic : bool) (s : fs) (p : proc) (o : fop) : option (fs * proc) :=
  match pr_pc p, o with
  | _, OCrash => Some (s, with_pc p PFailed)
  | PStart, OExistsFasta => Some (s, with_pc p PStatFasta)
  | PStatFasta, OStatFasta =>
      Some (s, mkProc (PCheck Fai false) (fasta_stamp s) HNone HNone 0 0)
  | PCheck f false, OExists f' =>
      if cfile_eqb f f' then
        match get_file s f with
        | Some _ => Some (s, with_pc p (PCheck f true))
        | None => Some (s, with_pc p PIndexRead)
        end
      else None
  | PCheck f true, OStat f' =>
      if cfile_eqb f f' then
        match get_file s f with
        | Some pl => if p_stamp pl >? pr_fasta_stamp p then Some (s, with_pc p (next_check f))
                     else Some (s, with_pc p PIndexRead)
        | None => Some (s, with_pc p PFailed)      (* deleted between exists() and stat(): FileNotFoundError *)
        end
      else None
  | PLoadOpen f, OOpenRead f' =>
      if cfile_eqb f f' then
        match get_file s f with
        | Some _ => Some (s, with_pc p (PLoadRead f))
        | None => Some (s, with_pc p PFailed)
        end
      else None
  | PLoadRead f, ORead f' =>
      if cfile_eqb f f' then
        match get_file s f with
        | Some pl =>
            match f with
            | Fai => Some (s, mkProc (PLoadOpen Agp) (pr_fasta_stamp p) (held_of pl) (pr_asm p) (pr_content p) (pr_tmp p))
            | Agp => Some (s, mkProc PDone (pr_fasta_stamp p) (pr_index p) (held_of pl) (pr_content p) (pr_tmp p))
            end
        | None => Some (s, with_pc p PFailed)
        end
      else None
  | PIndexRead, OReadFasta =>
      Some (s, mkProc (PWarnExists Fai) (pr_fasta_stamp p) (HGood (fasta_content s)) (HGood (fasta_content s))
                      (fasta_content s) 0)
  | PWarnExists f, OExists f' =>
      if cfile_eqb f f' then Some (s, with_pc p (PWriteOpen f)) else None
  | PWriteOpen f, OOpenWrite f' =>
      if cfile_eqb f f' then
        if atomic then
          Some (s, mkProc (PWriteBlocks f) (pr_fasta_stamp p) (pr_index p) (pr_asm p) (pr_content p) (clock s))
        else (* truncate in place: visible at once, empty *)
          Some (set_file s f (Some (mkPayload (pr_content p) 0 false (clock s))), with_pc p (PWriteBlocks f))
      else None
  | PWriteBlocks f, OWriteBlock f' =>
      if cfile_eqb f f' then
        if atomic then
          Some (s, mkProc (PWriteBlocks f) (pr_fasta_stamp p) (pr_index p) (pr_asm p) (pr_content p) (clock s))
        else
          match get_file s f with
          | Some pl =>
              Some (set_file s f (Some (mkPayload (p_content pl) (p_written pl + 1) false (clock s))),
                    with_pc p (PWriteBlocks f))
          | None => Some (s, p)       (* unlinked meanwhile: the writes go to the orphaned inode *)
          end
      else None
  | PWriteBlocks f, OClose f' =>
      if cfile_eqb f f' then
        if atomic then Some (s, with_pc p (PReplace f))
        else
          match get_file s f with
          | Some pl =>
              Some (set_file s f (Some (mkPayload (p_content pl) (p_written pl) true (p_stamp pl))),
                    with_pc p (after_write f))
          | None => Some (s, with_pc p (after_write f))
          end
      else None
  | PReplace f, OReplace f' =>
      if cfile_eqb f f' then
        Some (set_file s f (Some (mkPayload (pr_content p) 0 true (pr_tmp p))), with_pc p (after_write f))
      else None
  | _, _ => None
  end.

(* environment operations of a history *)
Inductive hop :=
  | HRewrite (tick : bool)       (* new FASTA content; mtime = clock (after an optional tick) *)
  | HDelete (f : cfile)
  | HTick
  | HSpawn                       (* a new process starts auto-loading *)
  | HOp (pid : nat) (o : fop).

Record world := mkWorld { w_fs : fs; w_procs : list proc }.

Definition new_proc : proc := mkProc PStart 0 HNone HNone 0 0.

Definition live (p : proc) : bool :=
  match pr_pc p with PDone | PFailed => false | _ => true end.

Definition env_step (atomic : bool) (w : world) (h : hop) : option world :=
  let s := w_fs w in
  match h with
  | HRewrite tick =>
      if existsb live (w_procs w) then None
      else let c := if tick then clock s + 1 else clock s in
           Some (mkWorld (mkFs (fasta_content s + 1) c (fai s) (agp s) c) (w_procs w))
  | HDelete f =>
      if existsb live (w_procs w) then None else Some (mkWorld (set_file s f None) (w_procs w))
  | HTick => Some (mkWorld (mkFs (fasta_content s) (fasta_stamp s) (fai s) (agp s) (clock s + 1)) (w_procs w))
  | HSpawn => Some (mkWorld s (w_procs w ++ [new_proc]))
  | HOp pid o =>
      match nth_error (w_procs w) pid with
      | Some p =>
          if live p then
            match step atomic s p o with
            | Some (s', p') => Some (mkWorld s' (set_nth (w_procs w) pid p'))
            | None => None
            end
          else None
      | None => None
      end
  end.

Fixpoint run (atomic : bool) (w : world) (h : list hop) : option world :=
  match h with
  | [] => Some w
  | x :: t => match env_step atomic w x with Some w' => run atomic w' t | None => None end
  end.

Definition init_world : world := mkWorld (mkFs 1 1 None None 1) [].

(* what the property demands of a process that completed auto_load *)
Definition proc_ok (s : fs) (p : proc) : bool :=
  match pr_pc p with
  | PDone =>
      match pr_index p, pr_asm p with
      | HGood a, HGood b => (a =? fasta_content s) && (b =? fasta_content s)
      | _, _ => false
      end
  | _ => true
  end.
Definition world_ok (w : world) : bool := forallb (proc_ok (w_fs w)) (w_procs w).
