(* pretext_to_asm.get_output_filehandle / setup_logging: how one run opens its
   output files.  A file system is a map path -> bytes; a run is the ordered
   list of (path, content it would write) of its output opens, the log first
   when --write-log.  With --no-clobber every open uses mode 'x' (exclusive
   create) and the first failure ends the run with exit status 1; with
   --clobber every open uses mode 'w'. *)
From Tola Require Import Py.Base.

Definition fsys := list (str * str).
Definition lookup (fs : fsys) (p : str) : option str := aget str_eqb fs p.
Definition write (fs : fsys) (p c : str) : fsys := aset str_eqb fs p c.

Inductive status := ExitOk | ExitCollision (p : str).

Fixpoint run_opens (noclobber : bool) (fs : fsys) (opens : list (str * str)) : fsys * status :=
  match opens with
  | [] => (fs, ExitOk)
  | (p, c) :: t =>
      match lookup fs p with
      | Some _ => if noclobber then (fs, ExitCollision p) else run_opens noclobber (write fs p c) t
      | None => run_opens noclobber (write fs p c) t
      end
  end.
