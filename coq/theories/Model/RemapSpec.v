(* C01: what "remapping conserves sequence" means on the model.  Definitions only. *)
From Tola Require Import Py.Base Model.Fragment Model.Scaffold Model.Lookup Model.OverlapResult
  Model.Namer Model.Remap.

(* base x of contig n is covered by fragment f *)
Definition covers (f : frag) (n : str) (x : Z) : bool :=
  str_eqb (f_name f) n && (f_start f <=? x) && (x <=? f_end f).
Definition coverage (l : list frag) (n : str) (x : Z) : nat :=
  length (filter (fun f => covers f n x) l).

Definition in_frags (input : list (str * list row)) : list frag :=
  flat_map (fun p => frags_of (snd p)) input.
Definition out_frags (o : outputs) : list frag :=
  flat_map (fun a => flat_map (fun sc => frags_of (sc_rows sc)) (oa_scaffolds a)) (out_asms o).

(* f is a sub-interval of one input contig, under that contig's name *)
Definition sub_of_input (input : list (str * list row)) (f : frag) : Prop :=
  exists c, In c (in_frags input) /\ f_name f = f_name c
            /\ f_start c <= f_start f /\ f_start f <= f_end f /\ f_end f <= f_end c.

(* every base of every input contig lies in exactly as many output fragments
   as input contigs (= exactly one when the input contigs are disjoint), and
   nothing else is in the output *)
Definition conserved (input : list (str * list row)) (o : outputs) : Prop :=
  (forall n x, coverage (out_frags o) n x = coverage (in_frags input) n x)
  /\ Forall (sub_of_input input) (out_frags o).

(* input assemblies the theorem speaks about: contigs are well-formed
   intervals with pairwise distinct (name, start, end) *)
Definition input_ok (input : list (str * list row)) : Prop :=
  Forall (fun f => f_start f <= f_end f) (in_frags input)
  /\ NoDup (map key_of (in_frags input)).

(* ---- the interface between the first half of the pipeline (lookups,
   overhang resolution, cuts) and the second half (re-adding what was never
   found, fusing, naming, sorting) *)
Definition result_frags (b : bstate) : list frag :=
  flat_map (fun id => match get_ovr (b_store b) id with
                      | Ok r => frags_of (o_rows r) | Err _ => [] end) (b_added b).
Definition is_found (b : bstate) (f : frag) : bool :=
  match aget key_eqb (b_found b) (key_of f) with Some _ => true | None => false end.

(* after the cuts: the fragments held by the overlap results cover exactly the
   input contigs that were found, each base once per contig, and are
   sub-intervals of input contigs *)
Definition Post (input : list (str * list row)) (b : bstate) : Prop :=
  (forall n x, coverage (result_frags b) n x
               = coverage (filter (is_found b) (in_frags input)) n x)
  /\ Forall (sub_of_input input) (result_frags b).
