(* tola.assembly.build_assembly.BuildAssembly with build_utils (FoundFragment,
   OverhangPremise, OverhangResolver, ChrGroup, ChrNamer) and
   assembly_stats.AssemblyStats.make_stats: the whole remapping pipeline of
   pretext-to-asm as one function [remap].

   Mutable OverlapResults shared between BuildAssembly.scaffolds,
   FoundFragment.scaffolds and premises live in a store indexed by result id;
   dicts are association lists in insertion order.

   [cfg] carries four switches that select, for each defect repaired by a
   "fix:" commit, the repaired (true) or the pinned-commit (false) behaviour,
   so that the refutation of the old behaviour stays machine-checked. *)
From Tola Require Import Py.Base Py.Dec Py.Sort Model.Fragment Model.Scaffold Model.Lookup
  Model.OverlapResult Model.NaturalKey Model.Namer.

Record cfg := mkCfg {
  fix_swap_keep : bool;      (* C02: keep flags follow the contig strand *)
  fix_leftover_gap : bool;   (* C07: join gap when appending left-over contigs *)
  fix_tag_key : bool;        (* C09: tag is part of the fusion key *)
  fix_canon_junction : bool; (* C11: mixed-strand junctions canonicalised *)
  fix_gap_run : bool         (* C08: every gap of a run between two left-over contigs is kept *)
}.
Definition repaired : cfg := mkCfg true true true true true.

(* ------------------------------------------------------------- state *)
Record bstate := mkB {
  b_store : list ovr;                              (* every result created, by rid *)
  b_added : list rid;                              (* BuildAssembly.scaffolds (results) *)
  b_found : list (fkey * (frag * list rid));       (* found_fragments *)
  b_multi : list fkey;                             (* fragments_found_more_than_once *)
  b_namer : namer;
  b_cuts : Z
}.

Definition get_ovr (store : list ovr) (id : rid) : res ovr :=
  match nth_error store (Z.to_nat id) with Some r => Ok r | None => Err IndexError end.
Definition put_ovr (store : list ovr) (id : rid) (r : ovr) : list ovr :=
  set_nth store (Z.to_nat id) r.

Definition with_store (b : bstate) (st : list ovr) : bstate :=
  mkB st (b_added b) (b_found b) (b_multi b) (b_namer b) (b_cuts b).
Definition with_namer (b : bstate) (nm : namer) : bstate :=
  mkB (b_store b) (b_added b) (b_found b) (b_multi b) nm (b_cuts b).

Definition set_labels (r : ovr) (l : label) (orig : str) (orig_tags : list str) : ovr :=
  mkOvr (o_bait r) (o_start r) (o_end r) (o_rows r) (lb_name l) (lb_tag l) (lb_hap l) (lb_rank l)
        (Some orig) orig_tags.
Definition set_name (r : ovr) (n : str) : ovr :=
  mkOvr (o_bait r) (o_start r) (o_end r) (o_rows r) n (o_tag r) (o_hap r) (o_rank r)
        (o_orig r) (o_orig_tags r).

(* error_length = 1 + floor(bp_per_texel), bp_per_texel = num / den *)
Definition error_length (bpt : Z * Z) : Z := 1 + fst bpt / snd bpt.

(* rename_by_size over results in the store *)
Definition rename_results (store : list ovr) (ids : list rid) : res (list ovr) :=
  do rs <- mapM (fun id => do r <- get_ovr store id; Ok (id, r)) ids;
  let pairs := rename_by_size rs (fun p => o_name (snd p)) (fun p => o_length (snd p)) in
  Ok (fold_left (fun st '((id, r), n) => put_ovr st id (set_name r n)) pairs store).

(* store_fragments_found *)
Definition store_found_one (id : rid) (acc : list (fkey * (frag * list rid)) * list fkey) (f : frag) :=
  let '(found, multi) := acc in
  let k := key_of f in
  match aget key_eqb found k with
  | Some (f0, ids) =>
      (aset key_eqb found k (f0, ids ++ [id]),
       if existsb (key_eqb k) multi then multi else multi ++ [k])
  | None => (found ++ [(k, (f, [id]))], multi)
  end.
Definition store_fragments_found (b : bstate) (id : rid) (rows : list row) : bstate :=
  let '(found, multi) := fold_left (store_found_one id) (frags_of rows) (b_found b, b_multi b) in
  mkB (b_store b) (b_added b) found multi (b_namer b) (b_cuts b).

(* ---------------------------------------------- find_assembly_overlaps *)
Definition input_rows (input : list (str * list row)) (name : str) : res (list row) :=
  match aget str_eqb input name with
  | Some rows => Ok rows
  | None => Err ValueError            (* "No such Scaffold" *)
  end.

Definition one_bait (input : list (str * list row)) (err : Z) (sc_tags : list str) (orig : str)
           (b : bstate) (bait : frag) : res bstate :=
  do rows <- input_rows input (f_name bait);
  do fo <- find_overlaps rows (f_start bait) (f_end bait);
  match fo with
  | None => Ok b
  | Some fo' =>
      let id := zlen (b_store b) in
      do nl <- label_scaffold (b_namer b) id (f_tags bait) sc_tags;
      let '(nm, lab) := nl in
      let r0 := set_labels (ovr_of_found bait fo') lab orig sc_tags in
      do r1 <- trim_large_overhangs r0 err;
      let b1 := mkB (b_store b ++ [r1]) (b_added b) (b_found b) (b_multi b) nm (b_cuts b) in
      match o_rows r1 with
      | [] => Ok b1
      | rows1 =>
          Ok (store_fragments_found
                (mkB (b_store b1) (b_added b1 ++ [id]) (b_found b1) (b_multi b1) (b_namer b1) (b_cuts b1))
                id rows1)
      end
  end.

Definition one_pretext_scaffold (input : list (str * list row)) (err : Z) (b : bstate)
           (psc : str * list row) : res bstate :=
  let '(pname, prows) := psc in
  let tags := fragment_tags prows in
  do nm <- make_scaffold_name (b_namer b) pname prows tags;
  do b1 <- foldM (one_bait input err tags pname) (frags_of prows) (with_namer b nm);
  do st <- rename_results (b_store b1) (nm_unloc_scaffolds (b_namer b1));
  Ok (with_store b1 st).

(* ------------------------------------------------ OverhangResolver *)
Inductive pkind := PStart | PEnd.
Record premise := mkPrem { pr_kind : pkind; pr_rid : rid; pr_frag : frag }.

Definition premise_for (store : list ovr) (f : frag) (id : rid) : res (option premise) :=
  do r <- get_ovr store id;
  do r0 <- first_row r;
  if row_is r0 f then Ok (Some (mkPrem PStart id f))
  else
    do rl <- last_row r;
    if row_is rl f then Ok (Some (mkPrem PEnd id f)) else Ok None.

Fixpoint premises_of (store : list ovr) (f : frag) (ids : list rid) : res (list premise) :=
  match ids with
  | [] => Ok []
  | id :: t =>
      do p <- premise_for store f id;
      do ps <- premises_of store f t;
      Ok (match p with Some x => x :: ps | None => ps end)
  end.

Definition p_bait_overlap (store : list ovr) (p : premise) : res Z :=
  do r <- get_ovr store (pr_rid p);
  match pr_kind p with PStart => start_row_bait_overlap r | PEnd => end_row_bait_overlap r end.
Definition p_overhang_if_applied (store : list ovr) (p : premise) : res Z :=
  do r <- get_ovr store (pr_rid p);
  match pr_kind p with PStart => overhang_if_start_removed r | PEnd => overhang_if_end_removed r end.
Definition p_delta (store : list ovr) (p : premise) : res Z :=
  do r <- get_ovr store (pr_rid p);
  do o <- p_overhang_if_applied store p;
  Ok (Z.abs o - Z.abs (match pr_kind p with PStart => start_overhang r | PEnd => end_overhang r end)).
Definition p_improves (store : list ovr) (err : Z) (p : premise) : res bool :=
  do r <- get_ovr store (pr_rid p);
  if zlen (o_rows r) =? 1 then Ok false
  else
    do d <- p_delta store p;
    if d <? 0 then do o <- p_overhang_if_applied store p; Ok (o >? -3 * err)
    else Ok false.
Definition p_apply (store : list ovr) (p : premise) : res (list ovr) :=
  do r <- get_ovr store (pr_rid p);
  do r' <- match pr_kind p with PStart => discard_start r | PEnd => discard_end r end;
  Ok (put_ovr store (pr_rid p) r').

(* one premise list of make_fixes: returns the new store and the fix made *)
Definition fix_one (err : Z) (store : list ovr) (pl : list premise)
  : res (list ovr * option premise) :=
  let general :=
    match pl with
    | _ :: _ :: _ =>
        do ds <- mapM (fun p => do d <- p_delta store p; Ok (d, p)) pl;
        match sort_by_Z fst ds with
        | (_, bst) :: (_, nxt) :: _ =>
            do i <- p_improves store err bst;
            if i then
              do j <- p_improves store err nxt;
              if negb j then do st <- p_apply store bst; Ok (st, Some bst)
              else Ok (store, None)
            else Ok (store, None)
        | _ => Ok (store, None)
        end
    | _ => Ok (store, None)
    end in
  match pl with
  | [frst; scnd] =>
      do b1 <- p_bait_overlap store frst;
      if b1 <? err then
        do b2 <- p_bait_overlap store scnd;
        if b2 <? err then
          if b1 <? b2 then do st <- p_apply store frst; Ok (st, Some frst)
          else do st <- p_apply store scnd; Ok (st, Some scnd)
        else general
      else general
  | _ => general
  end.

Fixpoint make_fixes (err : Z) (store : list ovr) (pls : list (list premise))
  : res (list ovr * list premise) :=
  match pls with
  | [] => Ok (store, [])
  | pl :: t =>
      do r <- fix_one err store pl;
      let '(st, fx) := r in
      do r2 <- make_fixes err st t;
      let '(st2, fxs) := r2 in
      Ok (st2, match fx with Some p => p :: fxs | None => fxs end)
  end.

Definition apply_fix_bookkeeping (acc : list (fkey * (frag * list rid)) * list fkey) (p : premise)
  : res (list (fkey * (frag * list rid)) * list fkey) :=
  let '(found, multi) := acc in
  let k := key_of (pr_frag p) in
  if existsb (key_eqb k) multi then
    match aget key_eqb found k with
    | Some (f0, ids) =>
        if existsb (Z.eqb (pr_rid p)) ids then
          let ids' := remove_first Z.eqb (pr_rid p) ids in
          Ok (aset key_eqb found k (f0, ids'),
              if zlen ids' <=? 1 then filter (fun k' => negb (key_eqb k k')) multi else multi)
        else Err ValueError                 (* list.remove(x): x not in list *)
    | None => Err KeyError
    end
  else Ok acc.

(* the "while multi" loop; fuel bounds the number of productive rounds *)
Fixpoint discard_loop (fuel : nat) (err : Z) (b : bstate) : res bstate :=
  match fuel with
  | O => Err OutOfFuel
  | S fuel' =>
      match b_multi b with
      | [] => Ok b
      | multi =>
          do pls <- mapM (fun k =>
                     match aget key_eqb (b_found b) k with
                     | Some (f, ids) => premises_of (b_store b) f ids
                     | None => Err KeyError
                     end) multi;
          let pls' := filter (fun pl => match pl with [] => false | _ => true end) pls in
          do r <- make_fixes err (b_store b) pls';
          let '(st, fixes) := r in
          match fixes with
          | [] => Ok (with_store b st)
          | _ =>
              do fm <- foldM apply_fix_bookkeeping fixes (b_found b, b_multi b);
              let '(found, multi') := fm in
              discard_loop fuel' err (mkB st (b_added b) found multi' (b_namer b) (b_cuts b))
          end
      end
  end.

(* ------------------------------------------------------- cut_fragments *)
Definition qc_sub_fragments (orig : frag) (subs : list frag) : res unit :=
  let srtd := stable_sort (fun a b => (f_start a <? f_start b)
                                      || ((f_start a =? f_start b) && (f_end a <=? f_end b))) subs in
  let pairs := combine srtd (tl srtd) in
  let abut_count := zlen (filter (fun '(a, b) => abuts a b) pairs) in
  let overlap_count := zlen (filter (fun '(a, b) => overlaps a b) pairs) in
  let gaps := filter (fun '(a, b) => match gap_between a b with Some g => negb (g =? 0) | None => false end) pairs in
  let total := sumZ (map f_len subs) in
  if negb (f_len orig =? total) then Err ValueError
  else if negb (overlap_count =? 0) then Err ValueError
  else if negb (abut_count =? zlen subs - 1) then Err ValueError
  else match gaps with [] => Ok tt | _ => Err ValueError end.

Fixpoint trim_all (c : cfg) (store : list ovr) (f : frag) (ids : list rid) (i last_i : Z)
  : res (list ovr * list frag) :=
  match ids with
  | [] => Ok (store, [])
  | id :: t =>
      let ks := i =? 0 in
      let ke := i =? last_i in
      let swap := fix_swap_keep c && negb (f_strand f =? 1) in
      do r <- get_ovr store id;
      do fr <- trim_fragment r f (if swap then ke else ks) (if swap then ks else ke);
      let '(new, r') := fr in
      do rest <- trim_all c (put_ovr store id r') f t (i + 1) last_i;
      Ok (fst rest, new :: snd rest)
  end.

Definition cut_fragments (c : cfg) (b : bstate) (k : fkey) : res bstate :=
  match aget key_eqb (b_found b) k with
  | None => Err KeyError
  | Some (f, ids) =>
      do keyed <- mapM (fun id => do r <- get_ovr (b_store b) id;
                                  do st <- fragment_start_if_trimmed r f; Ok (st, id)) ids;
      let ordered := map snd (sort_by_Z fst keyed) in
      do r <- trim_all c (b_store b) f ordered 0 (zlen ordered - 1);
      let '(st, subs) := r in
      do _ <- qc_sub_fragments f subs;
      Ok (mkB st (b_added b) (b_found b) (b_multi b) (b_namer b) (b_cuts b + zlen subs - 1))
  end.

Definition cut_remaining_overhangs (c : cfg) (b : bstate) : res bstate :=
  do b' <- foldM (cut_fragments c) (b_multi b) b;
  Ok (mkB (b_store b') (b_added b') (b_found b') [] (b_namer b') (b_cuts b')).

(* ------------------------------------ add_missing_scaffolds_from_input *)
(* [between] = scffld.rows[last_added_i + 1 : i], the rows passed over since the
   last fragment that was added (only meaningful when [last_added] is set) *)
Definition is_gap_row (r : row) : bool := match r with RG _ => true | RF _ => false end.

Definition missing_sep (c : cfg) (default_gap : gap) (between : list row) : list row :=
  if fix_gap_run c && forallb is_gap_row between then between
  else match last between (RF (mkFrag 0 [] 0 0 0 [])) with
       | RG g => [RG g]
       | RF _ => [RG default_gap]
       end.

Fixpoint missing_rows (c : cfg) (found : list (fkey * (frag * list rid))) (default_gap : gap)
         (rows : list row) (between : list row) (i : Z) (last_added : option Z) : list row :=
  match rows with
  | [] => []
  | r :: t =>
      match r with
      | RF f =>
          match aget key_eqb found (key_of f) with
          | Some _ => missing_rows c found default_gap t (between ++ [r]) (i + 1) last_added
          | None =>
              let sep :=
                match last_added with
                | Some la => if negb (la =? i - 1) then missing_sep c default_gap between else []
                | None => []
                end in
              sep ++ r :: missing_rows c found default_gap t [] (i + 1) (Some i)
          end
      | RG _ => missing_rows c found default_gap t (between ++ [r]) (i + 1) last_added
      end
  end.

Definition add_missing_one (c : cfg) (default_gap : gap) (found : list (fkey * (frag * list rid)))
           (acc : namer * list scaffold) (isc : str * list row) : res (namer * list scaffold) :=
  let '(nm, leftovers) := acc in
  let '(name, rows) := isc in
  match missing_rows c found default_gap rows [] 0 None with
  | [] => Ok acc
  | new_rows =>
      do nm' <- make_scaffold_name nm name new_rows [];
      let tag := if nm_target nm' && negb (mem_str (s "Target") (fragment_tags rows))
                 then Some (s "Contaminant") else None in
      Ok (nm', leftovers ++ [mkScaffold name new_rows tag (nm_cur_hap nm') 3 None []])
  end.

(* ---------------------------------------------- scaffolds_fused_by_name *)
Definition fuse_key := (option str * option str * str)%type.
Definition fuse_key_eqb (a b : fuse_key) : bool :=
  let '(t1, h1, n1) := a in let '(t2, h2, n2) := b in
  opt_eqb str_eqb t1 t2 && opt_eqb str_eqb h1 h2 && str_eqb n1 n2.

Definition fuse_step (c : cfg) (default_gap : gap) (acc : list (fuse_key * scaffold))
           (piece : scaffold * bool (* is an OverlapResult *)) : list (fuse_key * scaffold) :=
  let '(sc, is_result) := piece in
  match sc_rows sc with
  | [] => acc
  | _ =>
      let k : fuse_key := (if fix_tag_key c then sc_tag sc else None, sc_hap sc, sc_name sc) in
      let build := match aget fuse_key_eqb acc k with
                   | Some bsc => bsc
                   | None => mkScaffold (sc_name sc) [] (sc_tag sc) (sc_hap sc) (sc_rank sc)
                                        (sc_orig sc) (sc_orig_tags sc)
                   end in
      let g := if is_result || fix_leftover_gap c then Some default_gap else None in
      let build' := mkScaffold (sc_name build) (append_rows (sc_rows build) (sc_rows sc) g)
                               (sc_tag build) (sc_hap build) (sc_rank build)
                               (sc_orig build) (sc_orig_tags build) in
      aset fuse_key_eqb acc k build'
  end.

Definition piece_of_result (r : ovr) : scaffold * bool :=
  (mkScaffold (o_name r) (to_scaffold_rows r) (o_tag r) (o_hap r) (o_rank r) (o_orig r) (o_orig_tags r),
   true).

(* ----------------------------------------------------------- ChrNamer *)
Definition with_name (sc : scaffold) (n : str) : scaffold :=
  mkScaffold n (sc_rows sc) (sc_tag sc) (sc_hap sc) (sc_rank sc) (sc_orig sc) (sc_orig_tags sc).

(* a ChrGroup: haplotype -> (original name -> indices of fused scaffolds) *)
Definition chr_group := list (str * list (str * list nat)).
Definition new_group (haps : list str) : chr_group := map (fun h => (h, [])) haps.
Definition group_hap (g : chr_group) (h : str) : list (str * list nat) :=
  match aget str_eqb g h with Some d => d | None => [] end.
Definition group_add (g : chr_group) (h orig : str) (i : nat) : chr_group :=
  let d := group_hap g h in
  let l := match aget str_eqb d orig with Some l => l | None => [] end in
  aset str_eqb g h (aset str_eqb d orig (l ++ [i])).

Definition hap_str (k : option str) : str := match k with Some x => x | None => s "None" end.

Definition set_last_group (gs : list chr_group) (g : chr_group) : list chr_group :=
  match gs with [] => [g] | _ => removelast gs ++ [g] end.

Record cg_state := mkCg { cg_groups : list chr_group; cg_last_hap : option str; cg_last_orig : option str }.

Definition build_groups_step (fused : list scaffold) (haps : list str) (multi_hap : bool)
           (st : cg_state) (item : str * nat) : res cg_state :=
  let '(hap, i) := item in
  match nth_error fused i with
  | None => Err IndexError
  | Some sc =>
      match sc_orig sc with
      | None => Err ValueError
      | Some [] => Err ValueError
      | Some orig =>
          let cur := match last_opt (cg_groups st) with Some g => g | None => new_group haps end in
          let need_new :=
            match group_hap cur hap with
            | [] => false
            | _ =>
                if multi_hap then
                  if negb (opt_eqb str_eqb (Some hap) (cg_last_hap st)) then true
                  else
                    negb (opt_eqb str_eqb (Some orig) (cg_last_orig st))
                    && (match cg_last_orig st with
                        | Some lo =>
                            match aget str_eqb (group_hap cur hap) lo with
                            | Some (j :: _) =>
                                match nth_error fused j with
                                | Some sj => mem_str (s "Singleton") (sc_orig_tags sj)
                                | None => false
                                end
                            | _ => false
                            end
                        | None => false
                        end)
                else negb (opt_eqb str_eqb (Some orig) (cg_last_orig st))
            end in
          let groups := if need_new then cg_groups st ++ [new_group haps] else cg_groups st in
          let cur' := match last_opt groups with Some g => g | None => new_group haps end in
          Ok (mkCg (set_last_group groups (group_add cur' hap orig i)) (Some hap) (Some orig))
      end
  end.

(* check_groups: error flag only *)
Definition group_bad (haps : list str) (g : chr_group) : bool :=
  match haps with
  | [] => false
  | h0 :: _ =>
      match group_hap g h0 with
      | [] => true                  (* <empty> *)
      | [_] => false
      | _ => true                   (* <Consecutive ...> *)
      end
  end.

Definition group_length (fused : list scaffold) (haps : list str) (g : chr_group) : Z :=
  match haps with
  | [] => 0
  | h0 :: _ =>
      match group_hap g h0 with
      | (_, idxs) :: _ =>
          sumZ (map (fun i => match nth_error fused i with
                              | Some sc => frags_length (sc_rows sc) | None => 0 end) idxs)
      | [] => 0
      end
  end.

Definition multi_chr_list (name : str) (count : nat) : list str :=
  match count with
  | 1%nat => [name]
  | _ => map (fun k => name ++ [ascii_of_N (65 + N.of_nat k)]) (seq 0 count)
  end.

Definition name_group (prefix : str) (n : Z) (fused : list scaffold) (g : chr_group) : list scaffold :=
  fold_left
    (fun fs '(_, hap_set) =>
       let names := multi_chr_list (prefix ++ str_of_Z n) (length hap_set) in
       fold_left
         (fun fs' '((orig, idxs), this_chr) =>
            fold_left (fun fs'' i =>
                         match nth_error fs'' i with
                         | Some sc => set_nth fs'' i (with_name sc (replace orig this_chr (sc_name sc) None))
                         | None => fs''
                         end) idxs fs')
         (combine hap_set names) fs)
    g fused.

Definition name_chromosomes (prefix : str) (fused : list scaffold) (items : list (str * nat))
  : res (list scaffold) :=
  let haps := dedup str_eqb (map fst items) in
  match haps with
  | [] => Ok fused
  | _ =>
      let multi_hap := (1 <? zlen haps) in
      do st <- foldM (build_groups_step fused haps multi_hap) items (mkCg [new_group haps] None None);
      let groups := cg_groups st in
      if existsb (group_bad haps) groups then Err ChrNamerError
      else
        let sorted := sort_by_Z_desc (group_length fused haps) groups in
        Ok (fst (fold_left (fun '(fs, n) g => (name_group prefix n fs g, n + 1)) sorted (fused, 1)))
  end.

(* ------------------------------------------------------------- stats *)
Definition str_lt (a b : str) : bool := match str_cmp a b with Lt => true | _ => false end.

(* min(jt, jt[::-1]) for the two mixed shapes *)
Definition canon_junction (j : junction) : junction :=
  match j with
  | JSIIS n1 p1 p2 n2 =>
      (* (n1,p1,p2,n2) vs (n2,p2,p1,n1) *)
      match str_cmp n1 n2 with
      | Lt => j
      | Gt => JSIIS n2 p2 p1 n1
      | Eq => if p1 <=? p2 then j else JSIIS n2 p2 p1 n1
      end
  | JISSI p1 n1 n2 p2 =>
      (* (p1,n1,n2,p2) vs (p2,n2,n1,p1) *)
      if p1 <? p2 then j
      else if p2 <? p1 then JISSI p2 n2 n1 p1
      else match str_cmp n1 n2 with Gt => JISSI p2 n2 n1 p1 | _ => j end
  | _ => j
  end.

Definition junction_set (c : cfg) (rows : list row) : res (list junction) :=
  do js <- scaffold_junctions rows;
  Ok (dedup junction_eqb (if fix_canon_junction c then map canon_junction js else js)).

(* set union of two duplicate-free lists (keeps [a], appends what is new in [b]) *)
Definition union_j (a b : list junction) : list junction :=
  a ++ filter (fun x => negb (existsb (junction_eqb x) a)) b.
Definition diff_j (a b : list junction) : list junction :=
  filter (fun x => negb (existsb (junction_eqb x) b)) a.
Definition inter_j (a b : list junction) : list junction :=
  filter (fun x => existsb (junction_eqb x) b) a.

(* re.match(r"([A-Za-z]+\d+)_", name): group 1, lower-cased *)
Definition asm_prefix_of (name : str) : option str :=
  let '(ls, r1) := span' is_alpha name in
  match ls with
  | [] => None
  | _ =>
      let '(ds, r2) := span' is_digit r1 in
      match ds, r2 with
      | _ :: _, u :: _ => if Ascii.eqb u "_"%char then Some (lower (ls ++ ds)) else None
      | _, _ => None
      end
  end.

Definition input_junctions_by_prefix (c : cfg) (input : list (str * list row))
  : res (list (option str * list junction)) :=
  foldM (fun acc '(_, rows) =>
           match frags_of rows with
           | [] => Ok acc
           | f :: _ =>
               let k := asm_prefix_of (f_name f) in
               do js <- junction_set c rows;
               let old := match aget (opt_eqb str_eqb) acc k with Some l => l | None => [] end in
               Ok (aset (opt_eqb str_eqb) acc k (union_j old js))
           end) input [].

Record out_asm := mkOutAsm { oa_key : option str; oa_curated : bool; oa_scaffolds : list scaffold }.
Record outputs := mkOut {
  out_asms : list out_asm;
  out_cuts : Z; out_breaks : Z; out_joins : Z;
  out_per_asm : list (str * (Z * Z))
}.

Definition asm_junctions (c : cfg) (scs : list scaffold) : res (list junction) :=
  foldM (fun acc sc => do js <- junction_set c (sc_rows sc); Ok (union_j acc js)) scs [].

Definition make_stats (c : cfg) (input : list (str * list row)) (asms : list out_asm)
  : res (Z * Z * list (str * (Z * Z))) :=
  do ijs <- input_junctions_by_prefix c input;
  let input_set := fold_left (fun acc p => union_j acc (snd p)) ijs [] in
  do ojs <- mapM (fun a => do js <- asm_junctions c (oa_scaffolds a); Ok (oa_key a, js)) asms;
  let output_set := fold_left (fun acc p => union_j acc (snd p)) ojs [] in
  let total_breaks := diff_j input_set output_set in
  let total_joins := diff_j output_set input_set in
  let per :=
    fold_left
      (fun acc '(k, js) =>
         let jkey := match k with Some (c0 :: n) => Some (lower (c0 :: n)) | _ => None end in
         match aget (opt_eqb str_eqb) ijs jkey with
         | Some ((_ :: _) as iset) =>
             let name := match k with Some (c0 :: n) => c0 :: n | _ => s "Primary" end in
             aset str_eqb acc name
                  (zlen (inter_j (diff_j iset js) total_breaks),
                   zlen (inter_j (diff_j js iset) total_joins))
         | _ => acc
         end) ojs [] in
  Ok (zlen total_breaks, zlen total_joins, per).

(* ---------------------------------------------------------- the whole run *)
(* object ids: every input row gets its global position *)
Fixpoint number_rows (rows : list row) (n : Z) : list row * Z :=
  match rows with
  | [] => ([], n)
  | RF f :: t =>
      let '(t', n') := number_rows t (n + 1) in
      (RF (mkFrag n (f_name f) (f_start f) (f_end f) (f_strand f) (f_tags f)) :: t', n')
  | RG g :: t => let '(t', n') := number_rows t (n + 1) in (RG g :: t', n')
  end.
Fixpoint number_input (input : list (str * list row)) (n : Z) : list (str * list row) :=
  match input with
  | [] => []
  | (name, rows) :: t => let '(rows', n') := number_rows rows n in (name, rows') :: number_input t n'
  end.

Fixpoint has_dup_names (names : list str) : bool :=
  match names with
  | [] => false
  | n :: t => mem_str n t || has_dup_names t
  end.

Definition total_rows (input : list (str * list row)) : nat :=
  length (concat (map snd input)).

Record run_state := mkRun { rs_b : bstate; rs_left : list scaffold }.

(* remap_to_input_assembly *)
Definition remap_to_input (c : cfg) (default_gap : gap) (prefix : str) (bpt : Z * Z)
           (input0 : list (str * list row)) (pretext : list (str * list row)) : res run_state :=
  if has_dup_names (map fst input0) then Err ValueError     (* IndexedAssembly.add_scaffold *)
  else
    let input := number_input input0 0 in
    let err := error_length bpt in
    let b0 := mkB [] [] [] [] (new_namer prefix) 0 in
    (* an empty input scaffold named by a bait makes find_overlaps raise *)
    do b1 <- foldM (one_pretext_scaffold input err) pretext b0;
    do b2 <- discard_loop (S (S (total_rows pretext + length (b_store b1)
                                 + length (concat (map o_rows (b_store b1)))))) err b1;
    do b3 <- cut_remaining_overhangs c b2;
    do st <- rename_results (b_store b3) (nm_hap_scaffolds (b_namer b3));
    let b4 := with_store b3 st in
    do nl <- foldM (add_missing_one c default_gap (b_found b4)) input (b_namer b4, []);
    Ok (mkRun (with_namer b4 (fst nl)) (snd nl)).

(* assemblies_with_scaffolds_fused *)
Definition fuse_all (c : cfg) (default_gap : gap) (rs : run_state) : res (list scaffold) :=
  do results <- mapM (get_ovr (b_store (rs_b rs))) (b_added (rs_b rs));
  let pieces := map piece_of_result results ++ map (fun sc => (sc, false)) (rs_left rs) in
  Ok (map snd (fold_left (fuse_step c default_gap) pieces [])).

Definition asm_key_of (sc : scaffold) : option str * bool :=
  if truthy (sc_tag sc) then (sc_tag sc, false)
  else if truthy (sc_hap sc) then (sc_hap sc, true)
  else (None, true).

Definition assemblies_with_scaffolds_fused (c : cfg) (default_gap : gap) (prefix : str)
           (input0 : list (str * list row)) (rs : run_state) : res outputs :=
  do fused0 <- fuse_all c default_gap rs;
  (* add_chr_prefix for rank 2, ChrNamer items for rank 1, in fused order *)
  let fused1 := map (fun sc => if (sc_rank sc =? 2) && negb (starts_with prefix (sc_name sc))
                               then with_name sc (prefix ++ sc_name sc) else sc) fused0 in
  let items := flat_map (fun '(i, sc) => if sc_rank sc =? 1 then [(hap_str (fst (asm_key_of sc)), i)] else [])
                        (combine (seq 0 (length fused1)) fused1) in
  do fused <- name_chromosomes prefix fused1 items;
  (* group into assemblies by key, first occurrence fixes the curated flag *)
  let asms0 :=
    fold_left
      (fun acc sc =>
         let '(k, curated) := asm_key_of sc in
         match aget (opt_eqb str_eqb) acc k with
         | Some (cur, scs) => aset (opt_eqb str_eqb) acc k (cur, scs ++ [sc])
         | None => acc ++ [(k, (curated, [sc]))]
         end) fused [] in
  do asms <- mapM (fun '(k, (curated, scs)) =>
                     do sorted <- smart_sort sc_rank sc_name scs;
                     Ok (mkOutAsm k curated sorted)) asms0;
  do stt <- make_stats c (number_input input0 0) asms;
  let '(breaks, joins, per) := stt in
  Ok (mkOut asms (b_cuts (rs_b rs)) breaks joins per).

Definition remap (c : cfg) (default_gap : gap) (prefix : str) (bpt : Z * Z)
           (input : list (str * list row)) (pretext : list (str * list row)) : res outputs :=
  do rs <- remap_to_input c default_gap prefix bpt input pretext;
  assemblies_with_scaffolds_fused c default_gap prefix input rs.
