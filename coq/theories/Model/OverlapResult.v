(* tola.assembly.overlap_result.OverlapResult (a mutable Scaffold subclass):
   every property and method except __str__/__repr__.  Mutation becomes a
   function returning the new value. *)
From Tola Require Import Py.Base Model.Fragment Model.Scaffold Model.Lookup.

Record ovr := mkOvr {
  o_bait : frag;
  o_start : Z;
  o_end : Z;
  o_rows : list row;
  (* labels set by ScaffoldNamer.label_scaffold *)
  o_name : str;
  o_tag : option str;
  o_hap : option str;
  o_rank : Z;
  o_orig : option str;
  o_orig_tags : list str
}.

Definition set_span_rows (r : ovr) (st en : Z) (rows : list row) : ovr :=
  mkOvr (o_bait r) st en rows (o_name r) (o_tag r) (o_hap r) (o_rank r) (o_orig r) (o_orig_tags r).

(* OverlapResult(bait, rows, start, end) as built by find_overlaps; the
   default name is never observed (label_scaffold overwrites it) *)
Definition ovr_of_found (bait : frag) (fo : found) : ovr :=
  mkOvr bait (fo_start fo) (fo_end fo) (fo_rows fo) [] None None 0 None [].

Definition o_length (r : ovr) : Z := o_end r - o_start r + 1.
Definition start_overhang (r : ovr) : Z := f_start (o_bait r) - o_start r.
Definition end_overhang (r : ovr) : Z := o_end r - f_end (o_bait r).

(* rows[0] / rows[-1]: IndexError on an empty result *)
Definition first_row (r : ovr) : res row := py_nth (o_rows r) 0.
Definition last_row (r : ovr) : res row := py_nth (o_rows r) (-1).

Definition start_row_bait_overlap (r : ovr) : res Z :=
  do r0 <- first_row r;
  let st := Z.max (f_start (o_bait r)) (o_start r) in
  let en := Z.min (f_end (o_bait r)) (o_start r + row_len r0 - 1) in
  Ok (if en <? st then 0 else en - st + 1).

Definition end_row_bait_overlap (r : ovr) : res Z :=
  do rl <- last_row r;
  let st := Z.max (f_start (o_bait r)) (o_end r - row_len rl + 1) in
  let en := Z.min (f_end (o_bait r)) (o_end r) in
  Ok (if en <? st then 0 else en - st + 1).

Definition row_is (x : row) (f : frag) : bool :=
  match x with RF g => f_id g =? f_id f | RG _ => false end.

Definition fragment_start_if_trimmed (r : ovr) (f : frag) : res Z :=
  if f_strand f =? 1 then
    do r0 <- first_row r;
    Ok (if row_is r0 f then f_start f + start_overhang r else f_start f)
  else
    do rl <- last_row r;
    Ok (if row_is rl f then f_start f + end_overhang r else f_start f).

Definition cut_tags (bait : frag) : list str :=
  s "Cut" :: filter (fun t => negb (str_eqb t (s "Painted"))) (f_tags bait).

(* trim_fragment(trim, keep_start, keep_end) -> (new fragment, mutated self) *)
Definition trim_fragment (r : ovr) (trim : frag) (keep_start keep_end : bool)
  : res (frag * ovr) :=
  do r0 <- first_row r;
  let at_start := row_is r0 trim in
  let s_ovr := start_overhang r in
  let move_s := at_start && (s_ovr >? 0) && negb keep_start in
  let st1 := if move_s && (f_strand trim =? 1) then f_start trim + s_ovr else f_start trim in
  let en1 := if move_s && negb (f_strand trim =? 1) then f_end trim - s_ovr else f_end trim in
  let ostart := if move_s then o_start r + s_ovr else o_start r in
  do rl <- last_row r;
  let at_end := row_is rl trim in
  let e_ovr := o_end r - f_end (o_bait r) in
  let move_e := at_end && (e_ovr >? 0) && negb keep_end in
  let en2 := if move_e && (f_strand trim =? 1) then en1 - e_ovr else en1 in
  let st2 := if move_e && negb (f_strand trim =? 1) then st1 + e_ovr else st1 in
  let oend := if move_e then o_end r - e_ovr else o_end r in
  if negb (at_start || at_end) then Err ValueError
  else
    (* a new Python object: given an id no source row has (source ids are
       >= 0) and that differs between a copy made at the start (-1) and one
       made at the end (-2) of the result, so that identity tests behave *)
    do new <- new_frag (if at_end then -2 else -1) (f_name trim) st2 en2 (f_strand trim)
                       (cut_tags (o_bait r));
    let rows' := if at_end then set_last (o_rows r) (RF new)
                 else set_nth (o_rows r) 0 (RF new) in
    Ok (new, set_span_rows r ostart oend rows').

(* to_scaffold(): name, rows, original_name, original_tags; reversed for a
   minus-strand bait *)
Definition to_scaffold_rows (r : ovr) : list row :=
  if f_strand (o_bait r) =? -1 then rows_reverse (o_rows r) else o_rows r.

Fixpoint pop_gaps_front (rows : list row) (pos : Z) : list row * Z :=
  match rows with
  | RG g :: t => pop_gaps_front t (pos + g_len g)
  | _ => (rows, pos)
  end.

Definition discard_start (r : ovr) : res ovr :=
  match o_rows r with
  | [] => Err IndexError
  | d :: t =>
      let '(rows', st) := pop_gaps_front t (o_start r + row_len d) in
      Ok (set_span_rows r st (o_end r) rows')
  end.

Fixpoint pop_gaps_back_rev (rev_rows : list row) (pos : Z) : list row * Z :=
  match rev_rows with
  | RG g :: t => pop_gaps_back_rev t (pos - g_len g)
  | _ => (rev_rows, pos)
  end.

Definition discard_end (r : ovr) : res ovr :=
  match rev (o_rows r) with
  | [] => Err IndexError
  | d :: t =>
      let '(rr, en) := pop_gaps_back_rev t (o_end r - row_len d) in
      Ok (set_span_rows r (o_start r) en (rev rr))
  end.

Fixpoint leading_gaps_len (rows : list row) : Z :=
  match rows with
  | RG g :: t => g_len g + leading_gaps_len t
  | _ => 0
  end.

Definition overhang_if_start_removed (r : ovr) : res Z :=
  match o_rows r with
  | [] => Err IndexError
  | d :: t => Ok (f_start (o_bait r) - (o_start r + row_len d + leading_gaps_len t))
  end.

Definition overhang_if_end_removed (r : ovr) : res Z :=
  match rev (o_rows r) with
  | [] => Err IndexError
  | d :: t => Ok ((o_end r - row_len d - leading_gaps_len t) - f_end (o_bait r))
  end.

Definition trim_large_overhangs (r : ovr) (err_length : Z) : res ovr :=
  if (zlen (o_rows r) =? 1) && (f_len (o_bait r) >? err_length) then Ok r
  else
    do r1 <-
      (if start_overhang r >? err_length then
         do ov <- start_row_bait_overlap r;
         if ov <? err_length then discard_start r else Ok r
       else Ok r);
    match o_rows r1 with
    | [] =>
        (* "return if we removed the only row" is tested only after a discard;
           without a discard an empty result raises in end_row_bait_overlap *)
        if (start_overhang r >? err_length) && negb (zlen (o_rows r) =? 0) then Ok r1
        else if end_overhang r1 >? err_length then
          do ov <- end_row_bait_overlap r1; Ok r1
        else Ok r1
    | _ =>
        if end_overhang r1 >? err_length then
          do ov <- end_row_bait_overlap r1;
          if ov <? err_length then discard_end r1 else Ok r1
        else Ok r1
    end.

(* ------------------------------------------------ C18 operation language *)
Inductive op :=
  | DiscardStart
  | DiscardEnd
  | TrimLarge (e : Z)
  | TrimFrag (last : bool) (keep_start keep_end : bool).

Definition apply_op (r : ovr) (o : op) : res ovr :=
  match o with
  | DiscardStart => discard_start r
  | DiscardEnd => discard_end r
  | TrimLarge e => trim_large_overhangs r e
  | TrimFrag last ks ke =>
      do x <- (if last then last_row r else first_row r);
      match x with
      | RF f => do fr <- trim_fragment r f ks ke; Ok (snd fr)
      | RG _ => Err AttributeError     (* a Gap has no .start *)
      end
  end.
