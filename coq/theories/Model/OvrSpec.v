(* C18: the invariant relating an overlap result to its source scaffold.
   Definitions only. *)
From Tola Require Import Py.Base Model.Fragment Model.Scaffold Model.Lookup Model.OverlapResult.

(* [f] is a copy of the source fragment [o] shortened by [ls] bases on the
   side that faces the scaffold start and [le] bases on the side that faces
   the scaffold end (which contig coordinate moves depends on the strand,
   exactly as in trim_fragment: strand 1 moves start for the scaffold-start
   side, any other strand moves end) *)
Definition trimmed (o f : frag) (ls le : Z) : Prop :=
  f_name f = f_name o /\ f_strand f = f_strand o /\ 0 <= ls /\ 0 <= le /\
  f_start f <= f_end f /\
  (if f_strand o =? 1
   then f_start f = f_start o + ls /\ f_end f = f_end o - le
   else f_end f = f_end o - ls /\ f_start f = f_start o + le).

(* rows of the result against the slice of the source they come from *)
Definition rows_rel (slice rows : list row) (ls le : Z) : Prop :=
  (exists o f, slice = [RF o] /\ rows = [RF f] /\ trimmed o f ls le)
  \/ (exists o1 f1 mid o2 f2,
        slice = RF o1 :: mid ++ [RF o2] /\ rows = RF f1 :: mid ++ [RF f2]
        /\ trimmed o1 f1 ls 0 /\ trimmed o2 f2 0 le).

Definition Inv (src : list row) (r : ovr) : Prop :=
  o_rows r = [] \/
  exists (i n : nat) (ls le : Z),
    (1 <= n)%nat /\ (i + n <= length src)%nat
    /\ rows_rel (firstn n (skipn i src)) (o_rows r) ls le
    /\ o_start r = 1 + rows_len (firstn i src) + ls
    /\ o_end r = rows_len (firstn (i + n) src) - le.

Definition ids_distinct (rows : list row) : Prop :=
  NoDup (map f_id (frags_of rows)) /\ Forall (fun f => 0 <= f_id f) (frags_of rows).

(* what Inv gives the reader directly *)
Definition consistent (r : ovr) : Prop :=
  o_rows r = [] \/
  (o_end r - o_start r + 1 = rows_len (o_rows r)
   /\ (exists f t, o_rows r = RF f :: t)
   /\ (exists f t, o_rows r = t ++ [RF f])
   /\ Forall (fun x => 1 <= row_len x) (o_rows r)).
