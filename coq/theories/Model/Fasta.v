(* tola.fasta.index (index_fasta_file, FastaInfo, FastaIndex.sequence_bytes,
   fwd_chunks, rev_chunks, get_gap_iter, get_sequence_iter, .fai rows) and
   tola.fasta.simple (IUPAC complement, reverse_complement, FastaSeq.fasta_bytes).
   A file is its byte string; seek/read act on that list. *)
From Tola Require Import Py.Base Py.Dec Model.Fragment.

Definition LF : ascii := ascii_of_N 10.
Definition CR : ascii := ascii_of_N 13.
Definition GT : ascii := ">"%char.

(* iteration over a binary file: lines end after each LF; a last line
   without LF is still a line *)
Fixpoint split_lines_acc (x : str) (cur : str) : list str :=
  match x with
  | [] => match cur with [] => [] | _ => [rev cur] end
  | c :: t => if Ascii.eqb c LF then rev (c :: cur) :: split_lines_acc t []
              else split_lines_acc t (c :: cur)
  end.
Definition split_lines (x : str) : list str := split_lines_acc x [].

Record finfo := mkInfo { fi_length : Z; fi_offset : Z; fi_rpl : Z; fi_mll : Z }.

Definition is_acgt (c : ascii) : bool :=
  let n := code (upper_char c) in
  (n =? 65)%N || (n =? 67)%N || (n =? 71)%N || (n =? 84)%N.

(* re.finditer(rb"[ACGTacgt]+", bytes): maximal runs as [start, end) offsets *)
Fixpoint acgt_runs (x : str) (pos : Z) (open_at : option Z) : list (Z * Z) :=
  match x with
  | [] => match open_at with Some a => [(a, pos)] | None => [] end
  | c :: t =>
      if is_acgt c then
        acgt_runs t (pos + 1) (match open_at with Some a => Some a | None => Some pos end)
      else
        match open_at with
        | Some a => (a, pos) :: acgt_runs t (pos + 1) None
        | None => acgt_runs t (pos + 1) None
        end
  end.

Record istate := mkIState {
  is_name : option str;
  is_seq_length : Z;
  is_file_offset : Z;
  is_rpl : Z;
  is_region_start : Z;
  is_region_end : option Z;
  is_regions : list (Z * Z);        (* in order *)
  is_leb : Z;                       (* line_end_bytes *)
  is_buffer : str;                  (* seq_buffer *)
  is_idx : list (str * finfo);      (* idx_dict, insertion order *)
  is_asm : list (str * list row);   (* scaffolds of the derived assembly *)
  is_pos : Z;                       (* fh.tell() *)
  is_peak : Z                       (* ghost: largest seq_buffer length seen (C13) *)
}.

Definition upd_buffer (st : istate) (b : str) : istate :=
  mkIState (is_name st) (is_seq_length st) (is_file_offset st) (is_rpl st) (is_region_start st)
           (is_region_end st) (is_regions st) (is_leb st) b (is_idx st) (is_asm st) (is_pos st)
           (Z.max (is_peak st) (zlen b)).

Definition upd_pos (st : istate) (p : Z) : istate :=
  mkIState (is_name st) (is_seq_length st) (is_file_offset st) (is_rpl st) (is_region_start st)
           (is_region_end st) (is_regions st) (is_leb st) (is_buffer st) (is_idx st) (is_asm st) p
           (is_peak st).

(* one regex match inside process_seq_buffer *)
Definition merge_run (acc : Z * option Z * list (Z * Z)) (run : Z * Z)
  : Z * option Z * list (Z * Z) :=
  let '(rs, re, regs) := acc in
  let '(st, en) := run in
  match re with
  | Some e =>
      if st =? e then (rs, Some en, regs)
      else (st, Some en, regs ++ [(rs, e)])
  | None => (st, Some en, regs)
  end.

Definition process_seq_buffer (st : istate) : istate :=
  let bytes := is_buffer st in
  let runs := map (fun '(a, b) => (is_seq_length st + a, is_seq_length st + b))
                  (acgt_runs bytes 0 None) in
  let '(rs, re, regs) :=
    fold_left merge_run runs (is_region_start st, is_region_end st, is_regions st) in
  mkIState (is_name st) (is_seq_length st + zlen bytes) (is_file_offset st) (is_rpl st) rs re regs
           (is_leb st) [] (is_idx st) (is_asm st) (is_pos st) (is_peak st).

Definition scaffold_gap : str := s "scaffold".

(* rows of the derived scaffold from the run list *)
Fixpoint region_rows (name : str) (regs : list (Z * Z)) (prev_end : Z) (seq_length : Z) : list row :=
  match regs with
  | [] => if seq_length - prev_end =? 0 then [] else [RG (mkGap (seq_length - prev_end) scaffold_gap)]
  | (st, en) :: t =>
      (if st =? prev_end then [] else [RG (mkGap (st - prev_end) scaffold_gap)])
      ++ RF (mkFrag (-1) name (st + 1) en 1 []) :: region_rows name t en seq_length
  end.

Definition store_info (st0 : istate) : res istate :=
  let st := process_seq_buffer st0 in
  let regs := match is_region_end st with
              | Some e => is_regions st ++ [(is_region_start st, e)]
              | None => is_regions st
              end in
  match is_name st with
  | None => Err TypeError
  | Some name =>
      match aget str_eqb (is_idx st) name with
      | Some _ => Err ValueError          (* more than one sequence with this name *)
      | None =>
          let info := mkInfo (is_seq_length st) (is_file_offset st) (is_rpl st) (is_rpl st + is_leb st) in
          Ok (mkIState (is_name st) (is_seq_length st) (is_file_offset st) (is_rpl st)
                       (is_region_start st) (is_region_end st) regs (is_leb st) (is_buffer st)
                       (is_idx st ++ [(name, info)])
                       (is_asm st ++ [(name, region_rows name regs 0 (is_seq_length st))])
                       (is_pos st) (is_peak st))
      end
  end.

(* white space of the BYTES methods (bytes.split(), bytes.strip()): TAB LF VT FF CR and
   space only -- unlike str.split(), FS GS RS US (28..31) do not separate *)
Definition is_bspace (c : ascii) : bool :=
  ((9 <=? code c)%N && (code c <=? 13)%N) || (code c =? 32)%N.
Fixpoint lstrip_bspace (x : str) : str :=
  match x with
  | c :: t => if is_bspace c then lstrip_bspace t else x
  | [] => []
  end.
(* bytes.split()[0]: first maximal run of non-whitespace bytes *)
Definition first_word (x : str) : option str :=
  let y := lstrip_bspace x in
  match y with
  | [] => None
  | _ => Some (fst ((fix tw (l : str) : str * str :=
                       match l with
                       | c :: t => if is_bspace c then ([], l) else let '(a, b) := tw t in (c :: a, b)
                       | [] => ([], [])
                       end) y))
  end.

Fixpoint rstrip_crlf_rev (r : str) : str :=
  match r with
  | c :: t => if Ascii.eqb c LF || Ascii.eqb c CR then rstrip_crlf_rev t else r
  | [] => []
  end.
(* line.rstrip(b"\r\n") *)
Definition rstrip_crlf (x : str) : str := rev (rstrip_crlf_rev (rev x)).

(* [legacy]: the pinned commit cut a fixed line_end_bytes off every sequence
   line (losing residues when the last line has no newline); the repaired
   code cuts it off only when the line ends in LF. *)
Definition index_line (legacy : bool) (buf : Z) (st : istate) (line : str) : res istate :=
  let pos' := is_pos st + zlen line in
  match line with
  | [] => Ok st
  | c0 :: rest =>
      if Ascii.eqb c0 GT then
        do st1 <- (match is_name st with Some _ => store_info st | None => Ok st end);
        match first_word rest with
        | None => Err IndexError
        | Some name =>
            do c2 <- py_nth line (-2);
            let leb := if Ascii.eqb c2 CR then 2 else 1 in
            Ok (mkIState (Some name) 0 pos' 0 0 None [] leb (is_buffer st1) (is_idx st1) (is_asm st1)
                         pos' (is_peak st1))
        end
      else
        let ends_lf := match last_opt line with Some c => Ascii.eqb c LF | None => false end in
        match is_name st with
        | None =>
            (* sequence line before any header: line[:-None] raises TypeError; an
               unterminated (hence last) line is kept whole and the run then
               ends in "No data in FASTA file" *)
            if legacy || ends_lf then Err TypeError
            else Ok (upd_pos st pos')
        | Some _ =>
            let seq_line := if legacy || ends_lf then firstn (Z.to_nat (zlen line - is_leb st)) line
                            else line in
            let rpl := if is_rpl st =? 0
                       then (if legacy then zlen line - is_leb st else zlen seq_line)
                       else is_rpl st in
            let st1 := mkIState (is_name st) (is_seq_length st) (is_file_offset st) rpl
                                (is_region_start st) (is_region_end st) (is_regions st) (is_leb st)
                                (is_buffer st) (is_idx st) (is_asm st) pos' (is_peak st) in
            let st2 := upd_buffer st1 (is_buffer st1 ++ seq_line) in
            Ok (if zlen (is_buffer st2) >? buf then process_seq_buffer st2 else st2)
        end
  end.

Definition init_istate : istate := mkIState None 0 0 0 0 None [] 0 [] [] [] 0 0.

Definition index_fasta_gen (legacy : bool) (file : str) (buf : Z)
  : res (list (str * finfo) * list (str * list row) * Z) :=
  do st <- foldM (index_line legacy buf) (split_lines file) init_istate;
  do st' <- (match is_name st with Some _ => store_info st | None => Ok st end);
  match is_idx st' with
  | [] => Err ValueError               (* "No data in FASTA file" *)
  | _ => Ok (is_idx st', is_asm st', is_peak st')
  end.
Definition index_fasta := index_fasta_gen false.
Definition index_fasta_legacy := index_fasta_gen true.

(* ------------------------------------------------ .fai rows and loading *)
Definition TAB : ascii := ascii_of_N 9.
Definition fai_row (name : str) (i : finfo) : str :=
  name ++ TAB :: str_of_Z (fi_length i) ++ TAB :: str_of_Z (fi_offset i)
       ++ TAB :: str_of_Z (fi_rpl i) ++ TAB :: str_of_Z (fi_mll i) ++ [LF].
Definition write_index (idx : list (str * finfo)) : str :=
  concat (map (fun '(n, i) => fai_row n i) idx).

(* str.split() with no argument: maximal runs of non-whitespace *)
Fixpoint words_acc (x : str) (cur : str) : list str :=
  match x with
  | [] => match cur with [] => [] | _ => [rev cur] end
  | c :: t => if is_space c then
                match cur with [] => words_acc t [] | _ => rev cur :: words_acc t [] end
              else words_acc t (c :: cur)
  end.
Definition words (x : str) : list str := words_acc x [].

Definition load_index_line (idx : list (str * finfo)) (line : str) : res (list (str * finfo)) :=
  match words line with
  | [name; a; b; c; d] =>
      do a' <- int_of_str a; do b' <- int_of_str b; do c' <- int_of_str c; do d' <- int_of_str d;
      Ok (aset str_eqb idx name (mkInfo a' b' c' d'))
  | _ => Err ValueError
  end.
Definition load_index (fai : str) : res (list (str * finfo)) :=
  foldM load_index_line (split_lines fai) [].

(* --------------------------------------------------------- random access *)
(* fh.read(n) at position p: n < 0 reads to the end *)
Definition fread (file : str) (p n : Z) : str :=
  if n <? 0 then skipn (Z.to_nat p) file else firstn (Z.to_nat n) (skipn (Z.to_nat p) file).

Fixpoint read_whole_lines (file : str) (k : nat) (p rpl leb : Z) : str * Z :=
  match k with
  | O => ([], p)
  | S k' =>
      let chunk := fread file p rpl in
      let '(more, p') := read_whole_lines file k' (p + zlen chunk + leb) rpl leb in
      (chunk ++ more, p')
  end.

Definition sequence_bytes (file : str) (i : finfo) (start1 en : Z) : res str :=
  let start := start1 - 1 in
  let rpl := fi_rpl i in
  let mll := fi_mll i in
  let leb := mll - rpl in
  if rpl =? 0 then Err ZeroDivisionError
  else
    let frst_line := start / rpl in
    let last_line := (en - 1) / rpl in
    let frst_offset := start mod rpl in
    let last_offset := en mod rpl in
    let p0 := fi_offset i + frst_offset + mll * frst_line in
    if p0 <? 0 then Err ValueError        (* seek to a negative position *)
    else if frst_line =? last_line then Ok (fread file p0 (en - start))
    else
      let c1 := fread file p0 (rpl - frst_offset) in
      let p1 := p0 + zlen c1 + leb in
      let last_whole := if last_offset =? 0 then last_line else last_line - 1 in
      let '(mid, p2) := read_whole_lines file (Z.to_nat (last_whole - frst_line)) p1 rpl leb in
      let tail := if last_offset =? 0 then [] else fread file p2 last_offset in
      Ok (c1 ++ mid ++ tail).

(* ------------------------------------------------------------ complement *)
Definition iupac_from : str := s "ACGTRYMKSWHBVDNacgtrymkswhbvdn".
Definition iupac_to   : str := s "TGCAYRKMSWDVBHNtgcayrkmswdvbhn".
Fixpoint table_lookup (c : ascii) (from to : str) : ascii :=
  match from, to with
  | f :: from', t :: to' => if Ascii.eqb c f then t else table_lookup c from' to'
  | _, _ => c
  end.
Definition complement (c : ascii) : ascii := table_lookup c iupac_from iupac_to.
Definition reverse_complement (x : str) : str := map complement (rev x).

(* ------------------------------------------------------- chunk iterators *)
(* for i in range(count): yield f i *)
Fixpoint for_range {A} (f : Z -> res A) (i : Z) (count : nat) : res (list A) :=
  match count with
  | O => Ok []
  | S c => do x <- f i; do xs <- for_range f (i + 1) c; Ok (x :: xs)
  end.
(* for i in range(top, -1, -1): yield f i *)
Fixpoint for_range_down {A} (f : Z -> res A) (count : nat) : res (list A) :=
  match count with
  | O => Ok []
  | S c => do x <- f (Z.of_nat c); do xs <- for_range_down f c; Ok (x :: xs)
  end.

Definition fwd_chunks (file : str) (buf : Z) (i : finfo) (start en : Z) : res (list str) :=
  if buf =? 0 then Err ZeroDivisionError
  else
    let count := 1 + (en - start) / buf in
    for_range (fun k => let cs := start + k * buf in
                        sequence_bytes file i cs (Z.min en (cs + buf - 1)))
              0 (Z.to_nat count).

Definition rev_chunks (file : str) (buf : Z) (i : finfo) (start en : Z) : res (list str) :=
  if buf =? 0 then Err ZeroDivisionError
  else
    let count := (en - start) / buf in
    for_range_down (fun k => let cs := start + k * buf in
                             do b <- sequence_bytes file i cs (Z.min en (cs + buf - 1));
                             Ok (reverse_complement b))
                   (Z.to_nat (count + 1)).

Definition gap_chunks (buf : Z) (gap_char : ascii) (len : Z) : res (list str) :=
  if buf =? 0 then Err ZeroDivisionError
  else
    let count := 1 + len / buf in
    for_range (fun k => let cs := k * buf in
                        Ok (repeat gap_char (Z.to_nat (Z.min len (cs + buf) - cs))))
              0 (Z.to_nat count).

Definition get_info (idx : list (str * finfo)) (name : str) : res finfo :=
  match aget str_eqb idx name with Some i => Ok i | None => Err ValueError end.

Definition sequence_chunks (file : str) (idx : list (str * finfo)) (buf : Z) (f : frag) : res (list str) :=
  do i <- get_info idx (f_name f);
  if f_strand f =? -1 then rev_chunks file buf i (f_start f) (f_end f)
  else fwd_chunks file buf i (f_start f) (f_end f).

(* FastaIndex.get_fasta_seq(name).sequence *)
Definition get_fasta_seq (file : str) (idx : list (str * finfo)) (name : str) : res str :=
  do i <- get_info idx name; sequence_bytes file i 1 (fi_length i).

(* FastaSeq.fasta_bytes(line_length) *)
Fixpoint wrap_lines (count : nat) (k : Z) (L : Z) (x : str) : str :=
  match count with
  | O => []
  | S c => py_slice x (k * L) (Z.min (zlen x) (k * L + L)) ++ LF :: wrap_lines c (k + 1) L x
  end.
Definition fasta_bytes (name : str) (desc : option str) (x : str) (L : Z) : res str :=
  if L =? 0 then Err ZeroDivisionError
  else Ok (GT :: name ++ (match desc with Some d => match d with [] => [] | _ => " "%char :: d end | None => [] end)
              ++ LF :: wrap_lines (Z.to_nat (1 + (zlen x - 1) / L)) 0 L x).
