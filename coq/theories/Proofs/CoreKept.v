(* C02, main clause, for EVERY map with pairwise disjoint baits (in particular
   every PretextView edit script): whenever remap_to_input completes, the
   result stored for a bait still holds every contig base of the source
   scaffold that lies at least 3 error lengths inside the bait, and a bait
   without a stored result has no such base.  Together with the C18 pipeline
   invariant (Proofs.PipelineInv.pipeline_Inv: the rows of a result are a
   contiguous run of the source scaffold, terminal fragments possibly
   shortened, covering exactly o_start .. o_end) this is: "the bases of each
   piece lying more than 3 x (1 + floor(bp per texel)) from the piece's ends
   form one contiguous collinear run in a single output piece, with the
   input's internal gaps". *)
From Tola Require Import Py.Base Py.Sort Model.Fragment Model.Scaffold Model.Lookup
  Model.OverlapResult Model.OvrSpec Model.NaturalKey Model.Namer Model.Remap Model.RemapSpec
  Proofs.BaseLemmas Proofs.Lookup Proofs.OverlapResult Proofs.RemapHead Proofs.PipelineInv
  Proofs.CoreKeptGood Proofs.CoreKeptResolver Proofs.CoreKeptLookup.
From Coq Require Import Lia ZifyBool.

(* scaffold coordinate x is a base of a fragment (contig) row of src *)
Definition contig_base (src : list row) (x : Z) : Prop :=
  exists k, frag_at src k /\ span_start src k <= x <= span_end src k.

Definition in_core (err : Z) (bait : frag) (x : Z) : Prop :=
  f_start bait + 3 * err <= x <= f_end bait - 3 * err.

(* the result r (looked up in src) still covers every core contig base of its bait *)
Definition core_kept (err : Z) (src : list row) (r : ovr) : Prop :=
  forall x, in_core err (o_bait r) x -> contig_base src x ->
    o_rows r <> [] /\ o_start r <= x <= o_end r.

Definition baits_of (pretext : list (str * list row)) : list frag :=
  flat_map (fun p => frags_of (snd p)) pretext.

Definition disjoint_baits (bs : list frag) : Prop :=
  ForallOrdPairs (fun a b => f_name a = f_name b -> f_end a < f_start b \/ f_end b < f_start a) bs.

Definition core_kept_statement : Prop :=
  forall c g prefix bpt input pretext rs,
  0 <= fst bpt -> 0 < snd bpt ->
  Forall (fun isc => pos_rows (snd isc)) input ->
  NoDup (map key_of (in_frags input)) ->
  Forall (fun b => 1 <= f_start b <= f_end b) (baits_of pretext) ->
  disjoint_baits (baits_of pretext) ->
  remap_to_input c g prefix bpt input pretext = Ok rs ->
  let err := error_length bpt in
  (* every stored result keeps its core *)
  (forall r, In r (b_store (rs_b rs)) ->
     exists src, In (f_name (o_bait r), src) (number_input input 0)
                 /\ In (o_bait r) (baits_of pretext)
                 /\ OvrSpec.Inv src r /\ core_kept err src r)
  (* and a bait without a stored result has no core contig base *)
  /\ (forall bait src, In bait (baits_of pretext) ->
        In (f_name bait, src) (number_input input 0) ->
        (forall r, In r (b_store (rs_b rs)) -> o_bait r <> bait) ->
        forall x, in_core err bait x -> ~ contig_base src x).

(* ======================================================================
   The proof.  Proofs.CoreKeptGood: the per-result invariant GoodU and the
   operations; Proofs.CoreKeptResolver: the overhang resolver;
   Proofs.CoreKeptLookup: the lookups.  Here: the bridge from GoodU to
   core_kept, the cut stage, and the composition. *)

(* ------------------------------------------------- contig bases by splitting *)
Lemma contig_base_split src x : contig_base src x ->
  exists a f c, src = a ++ RF f :: c /\ rows_len a + 1 <= x <= rows_len a + f_len f.
Proof.
  intros (k & (f & Hf) & Hx).
  destruct (nth_error_split src k Hf) as (a & c & E & L). subst k.
  destruct (split_span _ _ _ _ E) as (_ & Hs & He). cbn [row_len] in He.
  exists a, f, c. split; [exact E | lia].
Qed.

Lemma all_FNC_no_core err bait src x :
  all_at (FNC err bait) 0 src -> in_core err bait x -> ~ contig_base src x.
Proof.
  intros Ha Hc Hb. destruct (contig_base_split _ _ Hb) as (a & f & c & E & Hx).
  pose proof (all_at_split _ _ _ _ _ _ Ha E) as Hn. cbn [FNC row_len] in Hn.
  unfold nocore in Hn. unfold in_core in Hc. lia.
Qed.

Lemma all_at_bounds : forall l pos base, pos_rows l -> base <= pos ->
  all_at (fun lo hi _ => base + 1 <= lo /\ hi <= pos + rows_len l) pos l.
Proof.
  induction l as [|x t IH]; intros pos base Hp Hb; cbn [all_at]; [exact I|].
  inversion Hp as [|? ? Hx Ht]; subst. pose proof (pos_rows_len_nonneg t Ht) as Hn.
  rewrite rows_len_cons. split; [lia|].
  eapply all_at_impl; [|apply (IH (pos + row_len x) base Ht); lia].
  cbv beta. intros lo hi _ [H1 H2]. split; lia.
Qed.

Lemma GoodU_core_kept err src r : pos_rows src -> GoodU err src r -> core_kept err src r.
Proof.
  intros Hp [[E Ha] | (pre & post & Hsrc & Hh & Hl & Hs & He & Hpre & Hrows & Hpost)] x Hc Hb.
  - exfalso. eapply all_FNC_no_core; eassumption.
  - split; [destruct Hh as (f & t & ->); discriminate|].
    destruct (contig_base_split _ _ Hb) as (a & f & c & E & Hx).
    set (R := fun lo hi (y : row) => FNC err (o_bait r) lo hi y \/ (o_start r <= lo /\ hi <= o_end r)).
    assert (HR : all_at R 0 src).
    { rewrite Hsrc. apply all_at_app. split; [|apply all_at_app; split].
      - eapply all_at_impl; [|exact Hpre]. intros lo hi y H. left. exact H.
      - rewrite Hsrc in Hp. apply pos_rows_app in Hp. destruct Hp as [_ Hp].
        apply pos_rows_app in Hp. destruct Hp as [Hp _].
        eapply all_at_impl; [|apply (all_at_bounds (o_rows r) (0 + rows_len pre) (0 + rows_len pre) Hp); lia].
        cbv beta. intros lo hi y [H1 H2]. right. lia.
      - eapply all_at_impl; [|eapply all_at_pos; [exact Hpost | lia]]. intros lo hi y H. left. exact H. }
    pose proof (all_at_split _ _ _ _ _ _ HR E) as Hn. unfold R in Hn. cbn [FNC row_len] in Hn.
    unfold nocore in Hn. unfold in_core in Hc. lia.
Qed.

(* ------------------------------------------------------------ the cut stage *)
Lemma trim_fragment_facts r t ks ke new r' :
  trim_fragment r t ks ke = Ok (new, r') ->
  o_bait r' = o_bait r /\ o_rows r' <> []
  /\ (o_start r' = o_start r \/ (o_start r < f_start (o_bait r) /\ o_start r' = f_start (o_bait r)))
  /\ (o_end r' = o_end r \/ (f_end (o_bait r) < o_end r /\ o_end r' = f_end (o_bait r))).
Proof.
  intros H. unfold trim_fragment in H. bind_inv H r0 Hr0. cbv zeta in H. bind_inv H rl Hrl.
  destruct (negb (row_is r0 t || row_is rl t)); [discriminate|].
  bind_inv H nw Hnw. injection H as _ <-. cbn [set_span_rows o_bait o_rows o_start o_end].
  apply py_nth_0_inv in Hr0. destruct Hr0 as (t0 & E0).
  apply py_nth_m1_inv in Hrl. destruct Hrl as (tl & El).
  split; [reflexivity|]. split; [|split].
  - destruct (row_is rl t).
    + rewrite El, set_last_app. destruct tl; discriminate.
    + rewrite E0. cbn [set_nth]. discriminate.
  - unfold start_overhang.
    destruct (row_is r0 t && (f_start (o_bait r) - o_start r >? 0) && negb ks) eqn:Em; [right | left; reflexivity].
    split; lia.
  - destruct (row_is rl t && (o_end r - f_end (o_bait r) >? 0) && negb ke) eqn:Em; [right | left; reflexivity].
    split; lia.
Qed.

Section Cuts.
  Variable inp : list (str * list row).
  Variable err : Z.
  Variable all : list frag.
  Hypothesis Hids : NoDup (map f_id (in_frags inp)).
  Hypothesis Hidpos : Forall (fun f => 0 <= f_id f) (in_frags inp).
  Hypothesis Hposr : forall name src, In (name, src) inp -> pos_rows src.
  Hypothesis Herr : 1 <= err.

  (* the invariant of a stored result from the cuts on *)
  Definition PC (r : ovr) : Prop :=
    In (o_bait r) all /\ exists src, In (f_name (o_bait r), src) inp
                                     /\ SInv src r /\ core_kept err src r.

  Lemma RGd_PC r : RGd inp err all r -> PC r.
  Proof.
    intros (Ha & src & Hsrc & HG). split; [exact Ha|]. exists src. split; [exact Hsrc|].
    pose proof (Hposr _ _ Hsrc) as Hp. split; [eapply GoodU_SInv | eapply GoodU_core_kept]; eassumption.
  Qed.

  Lemma PC_set_name r n : PC r -> PC (set_name r n).
  Proof. intros H. exact H. Qed.

  Lemma SInv_tf name src r t ks ke new r' :
    In (name, src) inp -> In t (in_frags inp) -> SInv src r ->
    trim_fragment r t ks ke = Ok (new, r') -> SInv src r'.
  Proof.
    intros Hsrc Ht (HI & HP) H. split.
    - destruct (trim_fragment_is_op inp Hids Hidpos _ _ _ _ _ _ _ _ Hsrc Ht HP H) as (last & Hop).
      eapply apply_op_pres; [eapply Hposr; exact Hsrc
                            | eapply (src_ids_distinct inp Hids Hidpos); exact Hsrc
                            | exact HI | exact Hop].
    - destruct (trim_fragment_inv _ _ _ _ _ _ H) as (r0 & rl & Hr0 & Hrl & _ & Hneg & Erows).
      intros f Hf. rewrite Erows in Hf. destruct (row_is rl t).
      + unfold last_row in Hrl. apply py_nth_m1_inv in Hrl. destruct Hrl as (tl & El).
        rewrite El, set_last_app in Hf. apply in_app_or in Hf. destruct Hf as [Hf | [Hf | []]].
        * apply HP. rewrite El. apply in_or_app. left. exact Hf.
        * injection Hf as <-. right. exact Hneg.
      + apply set_nth_In in Hf. destruct Hf as [Hf | Hf]; [|apply HP; exact Hf].
        injection Hf as ->. right. exact Hneg.
  Qed.

  Lemma PC_tf r t ks ke new r' :
    In t (in_frags inp) -> PC r -> trim_fragment r t ks ke = Ok (new, r') -> PC r'.
  Proof.
    intros Ht (Ha & src & Hsrc & HS & HC) H.
    destruct (trim_fragment_facts _ _ _ _ _ _ H) as (B & Hne & Hst & Hen).
    split; [rewrite B; exact Ha|]. exists src. rewrite B. split; [exact Hsrc|].
    split; [eapply SInv_tf; eassumption|].
    intros x Hc Hb. rewrite B in Hc. destruct (HC x Hc Hb) as [_ Hx].
    split; [exact Hne|]. unfold in_core in Hc. lia.
  Qed.

  (* the cuts do not touch the baits *)
  Lemma trim_all_baits c f : forall ids st i last st' subs,
    trim_all c st f ids i last = Ok (st', subs) -> map o_bait st' = map o_bait st.
  Proof.
    induction ids as [|id ids IH]; intros st i last st' subs H; cbn [trim_all] in H.
    - injection H as <- _. reflexivity.
    - cbv zeta in H. bind_inv H r Hr. bind_inv H fr Hfr. destruct fr as [new r'].
      bind_inv H rest Hrest. destruct rest as [st2 subs2]. cbn [fst snd] in H. injection H as <- _.
      rewrite (IH _ _ _ _ _ Hrest).
      destruct (trim_fragment_facts _ _ _ _ _ _ Hfr) as (B & _).
      eapply put_ovr_map; eassumption.
  Qed.

  Lemma cut_fragments_baits c b k b' :
    cut_fragments c b k = Ok b' -> map o_bait (b_store b') = map o_bait (b_store b).
  Proof.
    intros H. unfold cut_fragments in H.
    destruct (aget key_eqb (b_found b) k) as [[f ids]|]; [|discriminate].
    bind_inv H keyed Hkeyed. bind_inv H r Hr. destruct r as [st subs].
    bind_inv H u Hu. injection H as <-. cbn [b_store]. eapply trim_all_baits. exact Hr.
  Qed.

  Lemma cut_remaining_baits c b b' :
    cut_remaining_overhangs c b = Ok b' -> map o_bait (b_store b') = map o_bait (b_store b).
  Proof.
    intros H. unfold cut_remaining_overhangs in H. bind_inv H b1 Hb1. injection H as <-.
    cbn [b_store].
    apply (foldM_inv (cut_fragments c) (fun b0 => map o_bait (b_store b0) = map o_bait (b_store b)))
      with (l := b_multi b) (s := b); [|reflexivity | exact Hb1].
    intros s0 a s1 Hs0 Hf. rewrite (cut_fragments_baits _ _ _ _ Hf). exact Hs0.
  Qed.
End Cuts.

(* ------------------------------------------------------------- input names *)
Lemma has_dup_names_false l : has_dup_names l = false -> NoDup l.
Proof.
  induction l as [|n t IH]; cbn [has_dup_names]; intros H; [constructor|].
  apply Bool.orb_false_iff in H. destruct H as [H1 H2]. constructor; [|apply IH; exact H2].
  intros Hin. unfold mem_str in H1.
  assert (E : existsb (str_eqb n) t = true).
  { apply existsb_exists. exists n. split; [exact Hin | apply str_eqb_refl]. }
  congruence.
Qed.

Lemma number_input_fst : forall input n, map fst (number_input input n) = map fst input.
Proof.
  induction input as [|[name rows] input IH]; intro n; cbn [number_input map fst]; [reflexivity|].
  destruct (number_rows rows n) as [rows' n']. cbn [map fst]. rewrite IH. reflexivity.
Qed.

(* =========================================================== the theorem *)
Theorem core_kept_end_to_end : core_kept_statement.
Proof.
  intros c g prefix bpt input pretext rs Hb1 Hb2 Hpos Hkeys0 Hvalid Hdisj H err.
  destruct (number_input_spec input 0) as (Ek & Hidpos & Hids).
  pose proof (number_input_pos input 0 Hpos) as Hposr.
  set (inp := number_input input 0) in *.
  set (all := baits_of pretext) in *.
  assert (Hkeys : NoDup (map key_of (in_frags inp))) by (rewrite Ek; exact Hkeys0).
  assert (Herr : 1 <= err).
  { unfold err, error_length. pose proof (Z.div_pos (fst bpt) (snd bpt) Hb1 Hb2). lia. }
  unfold remap_to_input in H. destruct (has_dup_names (map fst input)) eqn:Edup; [discriminate|].
  assert (Hnames : NoDup (map fst inp)).
  { unfold inp. rewrite number_input_fst. apply has_dup_names_false. exact Edup. }
  cbv zeta in H. fold inp in H. fold err in H.
  bind_inv H b1 Hbb1. bind_inv H b2 Hbb2. bind_inv H b3 Hbb3. bind_inv H st Hst.
  bind_inv H nl Hnl. injection H as <-. cbn [rs_b with_namer with_store b_store].
  (* lookups *)
  assert (L1 : LInv inp err all b1 []).
  { eapply (pretext_LInv inp err all Hkeys Hnames Hposr Herr Hvalid); [|exact Hbb1].
    apply LInv_init. exact Hdisj. }
  destruct L1 as (HI1 & HS1 & HF1 & Hinc1 & Hnd1 & Hc1). rewrite app_nil_r in HF1.
  (* resolver *)
  destruct (discard_loop_good inp err all Hids Hposr Herr Hvalid _ _ _ HI1 HS1 HF1 Hnd1 Hbb2)
    as (HI2 & HS2 & HB2).
  (* cuts *)
  assert (P2 : PS (PC inp err all) (b_store b2)).
  { intros r Hr. apply (RGd_PC inp err all Hposr). apply HS2. exact Hr. }
  assert (P3 : PS (PC inp err all) (b_store b3)).
  { eapply (cut_remaining_PS inp (PC inp err all)); [|apply Inv_found_in; exact HI2 | exact P2 | exact Hbb3].
    intros r t ks ke new r'. apply (PC_tf inp err all Hids Hidpos Hposr Herr). }
  pose proof (cut_remaining_baits _ _ _ Hbb3) as HB3.
  pose proof (rename_results_baits _ _ _ Hst) as HB4.
  assert (P4 : forall r, In r st -> PC inp err all r).
  { intros x Hx. destruct (rename_results_In _ _ _ Hst x Hx) as (r & Hr & [-> | (n & ->)]).
    - apply P3. exact Hr.
    - apply PC_set_name. apply P3. exact Hr. }
  split.
  - intros r Hr. destruct (P4 r Hr) as (Ha & src & Hsrc & (HI & _) & HC).
    exists src. split; [exact Hsrc|]. split; [exact Ha|]. split; [apply Inv'_Inv; exact HI | exact HC].
  - intros bait src Hb Hsrc Hno x Hc.
    destruct (Hc1 bait Hb) as [[] | [Hs | Hn]].
    + exfalso. unfold SB in Hs. rewrite <- HB2, <- HB3, <- HB4 in Hs.
      apply in_map_iff in Hs. destruct Hs as (r & E & Hr). exact (Hno r Hr E).
    + eapply all_FNC_no_core; [apply Hn; exact Hsrc | exact Hc].
Qed.

Print Assumptions core_kept_end_to_end.
