(* C02 capstone, part 1: the REST of [remap] after [remap_to_input] cannot fail
   for an untagged map.

   1. head_untagged   an invariant of the first half for maps whose baits carry
                      no tag: every stored result has rank 3, every id in
                      b_added is a valid index of the store, and a stored result
                      that still has rows is in b_added (at its own index); the
                      left-over scaffolds have rank 3.
   2. tail_total      with these facts and every contig on strand +1 / -1:
                      fuse_all, the chromosome namer (no rank-1 scaffold, so
                      nothing to name), the grouping, smart_sort and make_stats
                      all return Ok. *)
From Tola Require Import Py.Base Py.Sort Model.Fragment Model.Scaffold Model.Lookup
  Model.OverlapResult Model.OvrSpec Model.NaturalKey Model.Namer Model.Remap Model.RemapSpec
  Proofs.BaseLemmas Proofs.RemapHead Proofs.Junctions.
From Tola Require Proofs.RemapTail Proofs.NaturalKey Proofs.OverlapResult Proofs.UniqueNames
  Proofs.RoutingEndToEnd Proofs.NullMap Proofs.PretextOrder Proofs.CoreKept
  Proofs.ChromosomeNumbersHead.
From Coq Require Import Lia ZifyBool Permutation.

(* ===================================================================== 1 ==
   what no later stage undoes: the rank, and "has no rows" *)
Definition keeps (r r' : ovr) : Prop :=
  o_rank r' = o_rank r /\ (o_rows r' <> [] -> o_rows r <> []).

Lemma keeps_refl r : keeps r r.
Proof. split; auto. Qed.

Lemma keeps_trans a b c : keeps a b -> keeps b c -> keeps a c.
Proof. intros [A1 A2] [B1 B2]. split; [congruence | auto]. Qed.

Lemma keeps_set_name r n : keeps r (set_name r n).
Proof. split; [reflexivity | auto]. Qed.

Lemma keeps_discard_start r r' : discard_start r = Ok r' -> keeps r r'.
Proof.
  unfold discard_start. intros H. destruct (o_rows r) as [|d t] eqn:E; [discriminate|].
  destruct (pop_gaps_front t (o_start r + row_len d)) as [rows' st].
  injection H as <-. split; [reflexivity | intros _; rewrite E; discriminate].
Qed.

Lemma keeps_discard_end r r' : discard_end r = Ok r' -> keeps r r'.
Proof.
  unfold discard_end. intros H. destruct (rev (o_rows r)) as [|d t] eqn:E; [discriminate|].
  destruct (pop_gaps_back_rev t (o_end r - row_len d)) as [rr en].
  injection H as <-. split; [reflexivity|]. intros _ E0. rewrite E0 in E. discriminate.
Qed.

Lemma keeps_trim_large r e r' : trim_large_overhangs r e = Ok r' -> keeps r r'.
Proof.
  intros H. apply Proofs.OverlapResult.trim_large_cases in H.
  destruct H as (r1 & H1 & H2). apply (keeps_trans r r1 r').
  - destruct H1 as [-> | H1]; [apply keeps_refl | apply keeps_discard_start; exact H1].
  - destruct H2 as [-> | H2]; [apply keeps_refl | apply keeps_discard_end; exact H2].
Qed.

Lemma keeps_trim_fragment r t ks ke new r' :
  trim_fragment r t ks ke = Ok (new, r') -> keeps r r'.
Proof.
  intros H. unfold trim_fragment in H. bind_inv H r0 Hr0. cbv zeta in H. bind_inv H rl Hrl.
  destruct (negb (row_is r0 t || row_is rl t)); [discriminate|].
  bind_inv H nw Hnw. injection H as _ <-.
  apply py_nth_0_inv in Hr0. destruct Hr0 as (t0 & E0).
  split; [reflexivity|]. intros _. rewrite E0. discriminate.
Qed.

(* an indexed store invariant that survives every [keeps] update (the section
   LabelInv of Proofs.RoutingEndToEnd, for [keeps] instead of same_label) *)
Section KeepInv.
  Variable Q : nat -> ovr -> Prop.
  Hypothesis Q_ext : forall n r r', keeps r r' -> Q n r -> Q n r'.

  Definition KS (st : list ovr) : Prop := forall n r, nth_error st n = Some r -> Q n r.

  Lemma KS_nil : KS [].
  Proof. intros [|n] r H; discriminate H. Qed.

  Lemma KS_get st id r : KS st -> get_ovr st id = Ok r -> Q (Z.to_nat id) r.
  Proof.
    intros Hs H. apply Hs. unfold get_ovr in H.
    destruct (nth_error st (Z.to_nat id)) as [x|]; [injection H as ->; reflexivity | discriminate].
  Qed.

  Lemma KS_put st id x : KS st -> Q (Z.to_nat id) x -> KS (put_ovr st id x).
  Proof.
    intros Hs Hx n r H. unfold put_ovr in H. apply Proofs.RoutingEndToEnd.nth_error_set_nth_inv in H.
    destruct H as [[-> ->] | H]; [exact Hx | apply Hs; exact H].
  Qed.

  Lemma KS_update st id r r' :
    KS st -> get_ovr st id = Ok r -> keeps r r' -> KS (put_ovr st id r').
  Proof.
    intros Hs Hg Hl. apply KS_put; [exact Hs|]. apply (Q_ext _ r); [exact Hl|].
    eapply KS_get; eassumption.
  Qed.

  Lemma KS_snoc st r : KS st -> Q (length st) r -> KS (st ++ [r]).
  Proof.
    intros Hs Hr n x H. destruct (Nat.lt_ge_cases n (length st)) as [Hlt | Hge].
    - rewrite nth_error_app1 in H by exact Hlt. apply Hs. exact H.
    - rewrite nth_error_app2 in H by exact Hge.
      destruct (n - length st)%nat as [|m] eqn:E; cbn [nth_error] in H.
      + injection H as <-. replace n with (length st) by lia. exact Hr.
      + destruct m; discriminate H.
  Qed.

  Lemma KS_rename st ids st' : KS st -> rename_results st ids = Ok st' -> KS st'.
  Proof.
    intros Hs H. unfold rename_results in H. bind_inv H rs Hrs. injection H as <-.
    set (pairs := rename_by_size rs _ _).
    assert (Hp : forall id r n, In ((id, r), n) pairs -> get_ovr st id = Ok r).
    { intros id r n Hin. unfold pairs, rename_by_size in Hin. apply in_combine_l in Hin.
      unfold sort_by_Z_desc in Hin. apply In_stable_sort in Hin.
      destruct (mapM_ok_In _ _ _ Hrs _ Hin) as (id0 & _ & Hf).
      bind_inv Hf r0 Hr0. injection Hf as <- <-. exact Hr0. }
    clearbody pairs. clear Hrs.
    assert (G : forall cur, KS cur ->
      KS (fold_left (fun st0 '(id, r, n) => put_ovr st0 id (set_name r n)) pairs cur)).
    { induction pairs as [|[[id r] n] pairs IH]; intros cur Hc; cbn [fold_left]; [exact Hc|].
      apply IH.
      - intros id' r' n' Hin. apply (Hp id' r' n'). right. exact Hin.
      - apply KS_put; [exact Hc|]. apply (Q_ext _ r); [apply keeps_set_name|].
        eapply KS_get; [exact Hs|]. apply (Hp id r n). left. reflexivity. }
    apply G. exact Hs.
  Qed.

  Lemma p_apply_KS st p st' : KS st -> p_apply st p = Ok st' -> KS st'.
  Proof.
    intros Hs H. unfold p_apply in H. bind_inv H r Hr. bind_inv H r' Hr'. injection H as <-.
    eapply KS_update; [exact Hs | exact Hr|].
    destruct (pr_kind p); [apply keeps_discard_start | apply keeps_discard_end]; exact Hr'.
  Qed.

  Lemma fix_one_KS err st pl st' fx : KS st -> fix_one err st pl = Ok (st', fx) -> KS st'.
  Proof.
    intros Hs H. apply fix_one_cases in H. destruct H as [[_ ->] | (p & _ & _ & H)]; [exact Hs|].
    eapply p_apply_KS; eassumption.
  Qed.

  Lemma make_fixes_KS err : forall pls st st' fxs,
    KS st -> make_fixes err st pls = Ok (st', fxs) -> KS st'.
  Proof.
    induction pls as [|pl pls IH]; intros st st' fxs Hs H; cbn [make_fixes] in H.
    - injection H as <- _. exact Hs.
    - bind_inv H r Hr. destruct r as [st1 fx]. bind_inv H r2 Hr2. destruct r2 as [st2 fxs2].
      injection H as <- _. eapply IH; [|exact Hr2]. eapply fix_one_KS; eassumption.
  Qed.

  Lemma discard_loop_KS err : forall fuel b b',
    KS (b_store b) -> discard_loop fuel err b = Ok b' -> KS (b_store b').
  Proof.
    induction fuel as [|fuel IH]; intros b b' Hs H; cbn [discard_loop] in H; [discriminate|].
    destruct (b_multi b) as [|k0 ks] eqn:Em; [injection H as <-; exact Hs|].
    bind_inv H pls Hpls. bind_inv H r Hr. destruct r as [st fixes].
    pose proof (make_fixes_KS _ _ _ _ _ Hs Hr) as Hst.
    destruct fixes as [|fx0 fixes].
    - injection H as <-. exact Hst.
    - bind_inv H fm Hfm. destruct fm as [found multi']. eapply IH; [|exact H]. exact Hst.
  Qed.

  Lemma trim_all_KS c f : forall ids st i last st' subs,
    KS st -> trim_all c st f ids i last = Ok (st', subs) -> KS st'.
  Proof.
    induction ids as [|id ids IH]; intros st i last st' subs Hs H; cbn [trim_all] in H.
    - injection H as <- _. exact Hs.
    - cbv zeta in H. bind_inv H r Hr. bind_inv H fr Hfr. destruct fr as [new r'].
      bind_inv H rest Hrest. destruct rest as [st2 subs2]. cbn [fst snd] in H. injection H as <- _.
      eapply IH; [|exact Hrest]. eapply KS_update; [exact Hs | exact Hr|].
      eapply keeps_trim_fragment. exact Hfr.
  Qed.

  Lemma cut_fragments_KS c b k b' :
    KS (b_store b) -> cut_fragments c b k = Ok b' -> KS (b_store b').
  Proof.
    intros Hs H. unfold cut_fragments in H.
    destruct (aget key_eqb (b_found b) k) as [[f ids]|] eqn:E; [|discriminate].
    bind_inv H keyed0 Hkeyed. bind_inv H r Hr. destruct r as [st subs].
    bind_inv H u Hu. injection H as <-. cbn [b_store].
    eapply trim_all_KS; [exact Hs | exact Hr].
  Qed.

  Lemma cut_remaining_KS c b b' :
    KS (b_store b) -> cut_remaining_overhangs c b = Ok b' -> KS (b_store b').
  Proof.
    intros Hs H. unfold cut_remaining_overhangs in H. bind_inv H b1 Hb1. injection H as <-.
    cbn [b_store].
    eapply (foldM_inv _ (fun b0 => KS (b_store b0))); [|exact Hs | exact Hb1].
    intros s0 a s1 Hs0 Hf. eapply cut_fragments_KS; eassumption.
  Qed.
End KeepInv.

(* result number n has rank 3, and is in [added] if it has rows *)
Definition Q3 (added : list rid) (n : nat) (r : ovr) : Prop :=
  o_rank r = 3 /\ (o_rows r <> [] -> In (Z.of_nat n) added).

Lemma Q3_ext added n r r' : keeps r r' -> Q3 added n r -> Q3 added n r'.
Proof. intros [K1 K2] [H1 H2]. split; [congruence | auto]. Qed.

Lemma KS_mono added added' st : incl added added' -> KS (Q3 added) st -> KS (Q3 added') st.
Proof. intros I H n r Hn. destruct (H n r Hn) as [H1 H2]. split; [exact H1 | auto]. Qed.

(* ------------------------------------------------------------- the lookups *)
Lemma msn_rank3 nm pname rows nm' :
  fragment_tags rows = [] -> make_scaffold_name nm pname rows (fragment_tags rows) = Ok nm' ->
  nm_cur_rank nm' = 3.
Proof.
  intros E H. rewrite E in H. unfold make_scaffold_name in H. rewrite E in H.
  cbn [foldM bind ts_hap ts_lc ts_primary ts_name ts_painted ts_rank ts_target truthy andb negb] in H.
  bind_inv H hap_lc Hhl. destruct hap_lc as [hap lc1]. cbn [bind] in H.
  bind_inv H nr Hnr. destruct nr as [name rank].
  bind_inv Hnr fn Hfn. injection Hnr as _ <-. injection H as <-. reflexivity.
Qed.

Lemma one_bait_K inp err tags orig b bait b' :
  nm_cur_rank (b_namer b) = 3 ->
  KS (Q3 (b_added b)) (b_store b) -> one_bait inp err tags orig b bait = Ok b' ->
  KS (Q3 (b_added b')) (b_store b') /\ nm_cur_rank (b_namer b') = 3.
Proof.
  intros Hr Hs H. unfold one_bait in H.
  bind_inv H rows Hrows. bind_inv H fo Hfo. destruct fo as [fo|]; [|injection H as <-; auto].
  bind_inv H nl Hnl. destruct nl as [nm lab]. bind_inv H r1 Hr1.
  destruct (Proofs.UniqueNames.label_spec _ _ _ _ _ _ Hnl) as (_ & Hnr & _ & _ & _ & _ & Hc).
  assert (Hl : lb_rank lab = 3).
  { cbv zeta in Hc. rewrite Hr in Hc.
    destruct Hc as [(_ & _ & _ & _ & _ & [X|X]) | [(_ & _ & _ & _ & _ & X) | (_ & _ & _ & _ & _ & [X|X])]];
      exact X. }
  pose proof (keeps_trim_large _ _ _ Hr1) as [K1 K2].
  cbn [set_labels ovr_of_found o_rank o_rows] in K1.
  assert (Hn3 : nm_cur_rank nm = 3) by congruence.
  destruct (o_rows r1) as [|x0 t0] eqn:Er.
  - injection H as <-. cbn [b_store b_added b_namer]. split; [|exact Hn3].
    apply KS_snoc; [exact Hs|]. split; [congruence|]. intros X. exfalso. apply X. exact Er.
  - injection H as <-. unfold store_fragments_found.
    cbn [b_store b_added b_found b_multi b_namer b_cuts].
    destruct (fold_left _ _ _) as [found' multi']. cbn [b_store b_added b_namer].
    split; [|exact Hn3].
    apply KS_snoc.
    + eapply KS_mono; [|exact Hs]. intros z Hz. apply in_or_app. left. exact Hz.
    + split; [congruence|]. intros _. apply in_or_app. right. left. reflexivity.
Qed.

Lemma baits_fold_K inp err tags orig : forall l b b',
  nm_cur_rank (b_namer b) = 3 ->
  KS (Q3 (b_added b)) (b_store b) -> foldM (one_bait inp err tags orig) l b = Ok b' ->
  KS (Q3 (b_added b')) (b_store b') /\ nm_cur_rank (b_namer b') = 3.
Proof.
  induction l as [|bait l IH]; intros b b' Hr Hs H; cbn [foldM] in H.
  - injection H as <-. auto.
  - bind_inv H b1 Hb1. destruct (one_bait_K _ _ _ _ _ _ _ Hr Hs Hb1) as [Hs1 Hr1].
    exact (IH _ _ Hr1 Hs1 H).
Qed.

Lemma one_pretext_K inp err b pname prows b' :
  Forall (fun f => f_tags f = []) (frags_of prows) ->
  KS (Q3 (b_added b)) (b_store b) -> one_pretext_scaffold inp err b (pname, prows) = Ok b' ->
  KS (Q3 (b_added b')) (b_store b').
Proof.
  intros Hu Hs H. unfold one_pretext_scaffold in H.
  bind_inv H nm Hnm. bind_inv H b1 Hb1. bind_inv H st Hst. injection H as <-.
  cbn [with_store b_store b_added].
  pose proof (Proofs.NullMap.fragment_tags_untagged prows Hu) as Et.
  pose proof (msn_rank3 _ _ _ _ Et Hnm) as Hr.
  destruct (baits_fold_K _ _ _ _ _ (with_namer b nm) b1 Hr Hs Hb1) as [Hs1 _].
  eapply (KS_rename _ (Q3_ext (b_added b1))); eassumption.
Qed.

Lemma pretext_fold_K inp err : forall pretext b b',
  Forall (fun f => f_tags f = []) (Proofs.CoreKept.baits_of pretext) ->
  KS (Q3 (b_added b)) (b_store b) -> foldM (one_pretext_scaffold inp err) pretext b = Ok b' ->
  KS (Q3 (b_added b')) (b_store b').
Proof.
  induction pretext as [|[pname prows] pretext IH]; intros b b' Hu Hs H; cbn [foldM] in H.
  - injection H as <-. exact Hs.
  - bind_inv H b1 Hb1. unfold Proofs.CoreKept.baits_of in Hu. cbn [flat_map snd] in Hu.
    apply Forall_app in Hu. destruct Hu as [Hu1 Hu2].
    eapply IH; [exact Hu2 | | exact H]. eapply one_pretext_K; eassumption.
Qed.

Lemma asc_range hi : forall l lo, Proofs.PretextOrder.asc lo hi l -> 0 <= lo ->
  Forall (fun x => 0 <= x < hi) l.
Proof.
  induction l as [|x l IH]; intros lo H Hlo; [constructor|].
  cbn [Proofs.PretextOrder.asc] in H. destruct H as [H1 H2].
  constructor; [lia|]. apply (IH (x + 1)); [exact H2 | lia].
Qed.

(* ------------------------------------------------------- the whole first half *)
Theorem head_untagged : forall c g prefix bpt input pretext rs,
  Forall (fun f => f_tags f = []) (Proofs.CoreKept.baits_of pretext) ->
  remap_to_input c g prefix bpt input pretext = Ok rs ->
  Forall (fun id => 0 <= id < zlen (b_store (rs_b rs))) (b_added (rs_b rs))
  /\ Forall (fun r => o_rank r = 3) (b_store (rs_b rs))
  /\ (forall n r, nth_error (b_store (rs_b rs)) n = Some r -> o_rows r <> [] ->
        In (Z.of_nat n) (b_added (rs_b rs)))
  /\ Forall (fun sc => sc_rank sc = 3) (rs_left rs).
Proof.
  intros c g prefix bpt input pretext rs Hu H0.
  destruct (Proofs.PretextOrder.remap_order _ _ _ _ _ _ _ H0) as [_ HA].
  unfold Proofs.PretextOrder.OKA in HA.
  pose proof H0 as H.
  unfold remap_to_input in H. destruct (has_dup_names (map fst input)); [discriminate|].
  cbv zeta in H.
  bind_inv H b1 Hb1. bind_inv H b2 Hb2. bind_inv H b3 Hb3. bind_inv H st Hst.
  bind_inv H nl Hnl. injection H as <-. cbn [rs_b rs_left with_namer with_store b_store b_added] in *.
  assert (K1 : KS (Q3 (b_added b1)) (b_store b1)).
  { eapply pretext_fold_K; [exact Hu | | exact Hb1]. cbn [b_store b_added]. apply KS_nil. }
  destruct (Proofs.UniqueNames.discard_loop_labs _ _ _ _ Hb2) as (_ & A2 & _).
  destruct (Proofs.UniqueNames.cut_remaining_labs _ _ _ Hb3) as (_ & A3 & _).
  assert (K2 : KS (Q3 (b_added b1)) (b_store b2))
    by (eapply (discard_loop_KS _ (Q3_ext (b_added b1))); eassumption).
  assert (K3 : KS (Q3 (b_added b1)) (b_store b3))
    by (eapply (cut_remaining_KS _ (Q3_ext (b_added b1))); eassumption).
  assert (K4 : KS (Q3 (b_added b1)) st)
    by (eapply (KS_rename _ (Q3_ext (b_added b1))); eassumption).
  assert (EA : b_added b3 = b_added b1) by congruence.
  rewrite EA in *.
  split; [|split; [|split]].
  - eapply asc_range; [exact HA | lia].
  - apply Forall_forall. intros r Hr. apply In_nth_error in Hr. destruct Hr as (n & Hn).
    exact (proj1 (K4 n r Hn)).
  - intros n r Hn Hne. exact (proj2 (K4 n r Hn) Hne).
  - destruct nl as [nm' left]. cbn [snd].
    pose proof (Proofs.ChromosomeNumbersHead.leftovers_left_lab c g _ _ _ _ _ _ (Forall_nil _) Hnl) as HL.
    eapply Forall_impl; [|exact HL]. intros sc [X _]. exact X.
Qed.

(* ===================================================================== 2 ==
   the tail of [remap] is total when nothing has rank 1 and every contig is on
   strand +1 / -1 *)
Definition pm_rows (rows : list row) : Prop := Forall pm (frags_of rows).

Lemma mapM_total {A B} (f : A -> res B) : forall l,
  (forall x, In x l -> exists y, f x = Ok y) -> exists l', mapM f l = Ok l'.
Proof.
  induction l as [|x l IH]; intros H; [exists []; reflexivity|].
  destruct (H x (or_introl eq_refl)) as (y & Ey).
  destruct IH as (l' & El); [intros z Hz; apply H; right; exact Hz|].
  exists (y :: l'). cbn [mapM]. rewrite Ey. cbn [bind]. rewrite El. reflexivity.
Qed.

Lemma mapM_get_total st : forall ids,
  Forall (fun id => 0 <= id < zlen st) ids -> exists rs, mapM (get_ovr st) ids = Ok rs.
Proof.
  intros ids F. apply mapM_total. intros id Hid. rewrite Forall_forall in F. specialize (F id Hid).
  unfold get_ovr. destruct (nth_error st (Z.to_nat id)) as [r|] eqn:E; [eexists; reflexivity|].
  apply nth_error_None in E. unfold zlen in F. lia.
Qed.

Lemma pm_to_scaffold_rows r : pm_rows (o_rows r) -> pm_rows (to_scaffold_rows r).
Proof.
  unfold to_scaffold_rows, pm_rows. intro H. destruct (f_strand (o_bait r) =? -1); [|exact H].
  apply Forall_pm_reverse. exact H.
Qed.

Lemma make_stats_total inp asms :
  Forall (fun p => pm_rows (snd p)) inp ->
  Forall (fun a => Forall (fun sc => pm_rows (sc_rows sc)) (oa_scaffolds a)) asms ->
  exists r, make_stats repaired inp asms = Ok r.
Proof.
  intros Fi Fa.
  destruct (Proofs.NullMap.input_junctions_null inp [] Fi) as (ijs & E1 & _).
  assert (E1' : input_junctions_by_prefix repaired inp = Ok ijs) by exact E1.
  unfold make_stats. rewrite E1'. cbn [bind].
  match goal with |- context [mapM ?f asms] => destruct (mapM_total f asms) as (ojs & E2) end.
  { intros a Ha. rewrite Forall_forall in Fa.
    destruct (Proofs.NullMap.asm_junctions_null (oa_scaffolds a) [] (Fa a Ha)) as (js & E & _).
    assert (E' : asm_junctions repaired (oa_scaffolds a) = Ok js) by exact E.
    rewrite E'. cbn [bind]. eexists; reflexivity. }
  rewrite E2. cbn [bind]. eexists; reflexivity.
Qed.

Theorem tail_total : forall g prefix input0 rs,
  Forall (fun id => 0 <= id < zlen (b_store (rs_b rs))) (b_added (rs_b rs)) ->
  Forall (fun r => o_rank r = 3) (b_store (rs_b rs)) ->
  Forall (fun sc => sc_rank sc = 3) (rs_left rs) ->
  Forall (fun r => pm_rows (o_rows r)) (b_store (rs_b rs)) ->
  Forall (fun sc => pm_rows (sc_rows sc)) (rs_left rs) ->
  Forall (fun p => pm_rows (snd p)) (number_input input0 0) ->
  exists o, assemblies_with_scaffolds_fused repaired g prefix input0 rs = Ok o.
Proof.
  intros g prefix input0 rs Hid Hrk Hlrk Hpm Hlpm Hin.
  destruct (mapM_get_total _ _ Hid) as (results & Hres).
  pose proof (Proofs.UniqueNames.mapM_get_in _ _ _ Hres) as Hsub.
  set (pieces := map piece_of_result results ++ map (fun sc => (sc, false)) (rs_left rs)).
  set (fused0 := map snd (fold_left (fuse_step repaired g) pieces [])).
  assert (HF : fuse_all repaired g rs = Ok fused0).
  { unfold fuse_all. rewrite Hres. reflexivity. }
  (* ranks *)
  assert (R0 : Forall (fun sc => sc_rank sc = 3) fused0).
  { pose proof (Proofs.UniqueNames.fuse_all_labs
                  (fun l : Proofs.UniqueNames.labs => let '(_, _, _, rk, _) := l in rk = 3)
                  repaired g rs fused0) as X.
    cbv beta in X. unfold Proofs.UniqueNames.o_labs, Proofs.UniqueNames.sc_labs in X.
    apply X; assumption. }
  (* strands *)
  assert (P0 : Forall (fun sc => pm_rows (sc_rows sc)) fused0).
  { assert (Pp : Forall pm (flat_map (fun p : scaffold * bool => frags_of (sc_rows (fst p))) pieces)).
    { apply Forall_forall. intros f Hf. apply in_flat_map in Hf. destruct Hf as ([sc isr] & Hp & Hf).
      cbn [fst] in Hf. unfold pieces in Hp. apply in_app_or in Hp. destruct Hp as [Hp | Hp].
      - apply in_map_iff in Hp. destruct Hp as (r & E & Hr). injection E as <- _.
        cbn [sc_rows] in Hf. rewrite Forall_forall in Hsub, Hpm.
        pose proof (pm_to_scaffold_rows r (Hpm r (Hsub r Hr))) as X.
        unfold pm_rows in X. rewrite Forall_forall in X. exact (X f Hf).
      - apply in_map_iff in Hp. destruct Hp as (sc' & E & Hl). injection E as -> _.
        rewrite Forall_forall in Hlpm. pose proof (Hlpm sc Hl) as X.
        unfold pm_rows in X. rewrite Forall_forall in X. exact (X f Hf). }
    pose proof (Proofs.RemapTail.fuse_fold_frags repaired g pieces []) as PF.
    cbn [map Proofs.RemapTail.left_frags flat_map app] in PF. fold fused0 in PF.
    apply Forall_forall. intros sc Hsc. unfold pm_rows. apply Forall_forall. intros f Hf.
    rewrite Forall_forall in Pp. apply Pp. eapply Permutation_in; [exact PF|].
    unfold Proofs.RemapTail.left_frags. apply in_flat_map. exists sc. split; assumption. }
  unfold assemblies_with_scaffolds_fused. rewrite HF. cbn [bind]. cbv zeta.
  match goal with |- context [map ?f fused0] => replace (map f fused0) with fused0 end.
  2:{ symmetry. apply Proofs.NullMap.map_id_in. intros sc I. rewrite Forall_forall in R0.
      rewrite (R0 sc I). reflexivity. }
  match goal with |- context [flat_map ?f (combine ?a fused0)] =>
    replace (flat_map f (combine a fused0)) with (@nil (str * nat)) end.
  2:{ symmetry. apply Proofs.NullMap.flat_map_nil_in. intros [i sc] I. apply in_combine_r in I.
      rewrite Forall_forall in R0. rewrite (R0 sc I). reflexivity. }
  change (name_chromosomes prefix fused0 []) with (Ok fused0). cbn [bind].
  match goal with |- context [fold_left ?f fused0 []] =>
    change (fold_left f fused0 []) with (fold_left Proofs.RemapTail.group_step fused0 []) end.
  set (asms0 := fold_left Proofs.RemapTail.group_step fused0 []).
  match goal with |- context [mapM ?f asms0] => destruct (mapM_total f asms0) as (asms & EM) end.
  { intros [k [curated scs]] _.
    destruct (Proofs.NaturalKey.smart_sort_total sc_rank sc_name scs) as (srt & Es & _).
    rewrite Es. cbn [bind]. eexists; reflexivity. }
  rewrite EM. cbn [bind].
  destruct (make_stats_total (number_input input0 0) asms Hin) as ([[breaks joins] per] & ES).
  { apply Forall_forall. intros a Ha. apply Forall_forall. intros sc Hsc.
    assert (Hg : In sc (Proofs.RemapTail.grouped asms0)).
    { eapply Permutation_in; [apply (Proofs.RemapTail.sort_groups_perm _ _ EM)|].
      apply in_flat_map. exists a. split; assumption. }
    assert (Hf : In sc fused0).
    { eapply Permutation_in in Hg; [|apply (Proofs.RemapTail.group_fold_perm fused0 [])].
      exact Hg. }
    rewrite Forall_forall in P0. exact (P0 sc Hf). }
  rewrite ES. eexists; reflexivity.
Qed.

Print Assumptions head_untagged.
Print Assumptions tail_total.
