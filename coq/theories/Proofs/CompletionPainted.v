(* C02, first clause, for PAINTED maps: the curator paints scaffolds, so baits
   carry the tag "Painted".  The tag changes what the namer does (rank 1, the
   Pretext scaffold name, chromosome grouping later) but not the geometry:
   [Completion.completion_core] is proved for baits whose tag list is [] or
   ["Painted"].

   Part A  [completion_of_painted_tiling_maps]: remap_to_input completes.
   Part B  [painted_tiling_maps_complete]: the WHOLE pipeline [remap]
           completes (fusing, ChrNamer, sorting, statistics), under three
           more hypotheses, each shown necessary by a computed run:
             - every input contig is on strand +1 or -1
               ([..._needs_stranded_contigs]: make_stats raises on strand 0);
             - a painted Pretext scaffold has a non-empty name
               ([..._needs_named_painted_scaffolds]: ChrNamer raises);
             - the map has no haplotype-shaped names, [no_haplotypes pretext]
               ([..._needs_no_haplotypes]: ChrGroup "Consecutive" error).
           [no_haplotypes input] (contig names) is NOT needed.
   No axioms. *)
From Tola Require Import Py.Base Py.Dec Py.Sort Model.Fragment Model.Scaffold Model.Lookup
  Model.OverlapResult Model.NaturalKey Model.Namer Model.Remap Model.RemapSpec
  Proofs.BaseLemmas Proofs.OverlapResult Proofs.RemapHead Proofs.PipelineInv Proofs.CoreKept
  Proofs.Junctions Proofs.Routing Proofs.NaturalKey Proofs.Naming Proofs.UniqueNames
  Proofs.CompletionLookup Proofs.CompletionTail Proofs.Completion.
From Tola Require Proofs.RemapFinal Proofs.RemapTail Proofs.JoinGaps.
From Coq Require Import Lia ZifyBool Permutation.

(* ================================================================ Part A *)
Theorem completion_of_painted_tiling_maps : forall g prefix n d input pretext,
  0 < d -> d <= n ->
  Forall input_ok input -> NoDup (map fst input) ->
  NoDup (map key_of (in_frags input)) ->
  Forall (fun f => f_tags f = []) (in_frags input) ->
  Forall (fun p => exists b t, snd p = RF b :: t) pretext ->
  Forall (fun b => (f_tags b = [] \/ f_tags b = [s "Painted"]) /\ (f_strand b = 1 \/ f_strand b = -1)
                   /\ In (f_name b) (map fst input)) (baits_of pretext) ->
  Forall (scaffold_tiled n d (baits_of pretext)) input ->
  exists rs, remap_to_input repaired g prefix (n, d) input pretext = Ok rs.
Proof. exact completion_core. Qed.

(* ================================================================ Part B *)

(* ------------------------------------------------------- generic folds *)
Lemma foldM_inv_in {A S} (f : S -> A -> res S) (Pr : S -> Prop) : forall l,
  (forall s a s', In a l -> Pr s -> f s a = Ok s' -> Pr s') ->
  forall s s', Pr s -> foldM f l s = Ok s' -> Pr s'.
Proof.
  induction l as [|a l IH]; intros Hs s0 s' Hp H; cbn [foldM] in H.
  - injection H as <-. exact Hp.
  - unfold bind in H. destruct (f s0 a) as [s1|] eqn:E; [|discriminate].
    apply (IH (fun s a' s'' Ia => Hs s a' s'' (or_intror Ia)) s1 s'); [|exact H].
    exact (Hs s0 a s1 (or_introl eq_refl) Hp E).
Qed.

Lemma foldM_total {A S} (f : S -> A -> res S) : forall l,
  (forall s a, In a l -> exists s', f s a = Ok s') ->
  forall s, exists s', foldM f l s = Ok s'.
Proof.
  induction l as [|a l IH]; intros Hs s0; cbn [foldM]; [eexists; reflexivity|].
  destruct (Hs s0 a (or_introl eq_refl)) as (s1 & E). rewrite E. cbn [bind].
  apply IH. intros s a' Ia. apply Hs. right. exact Ia.
Qed.

Lemma mapM_total {A B} (f : A -> res B) : forall l,
  (forall x, In x l -> exists y, f x = Ok y) -> exists l', mapM f l = Ok l'.
Proof.
  induction l as [|x l IH]; intros Hs; cbn [mapM]; [eexists; reflexivity|].
  destruct (Hs x (or_introl eq_refl)) as (y & E). rewrite E. cbn [bind].
  destruct (IH (fun x' Ix => Hs x' (or_intror Ix))) as (l' & E'). rewrite E'. cbn [bind].
  eexists. reflexivity.
Qed.

(* ------------------------------------------- the stages of remap_to_input *)
Lemma run_stages c g prefix bpt input pretext rs :
  remap_to_input c g prefix bpt input pretext = Ok rs ->
  let inp := number_input input 0 in
  exists fuel b1 b2 b3 st nm left,
    foldM (one_pretext_scaffold inp (error_length bpt)) pretext (mkB [] [] [] [] (new_namer prefix) 0) = Ok b1
    /\ discard_loop fuel (error_length bpt) b1 = Ok b2
    /\ cut_remaining_overhangs c b2 = Ok b3
    /\ rename_results (b_store b3) (nm_hap_scaffolds (b_namer b3)) = Ok st
    /\ foldM (add_missing_one c g (b_found b3)) inp (b_namer b3, []) = Ok (nm, left)
    /\ rs = mkRun (with_namer (with_store b3 st) nm) left.
Proof.
  intros H inp. unfold remap_to_input in H.
  destruct (has_dup_names (map fst input)); [discriminate|]. cbv zeta in H. fold inp in H.
  bind_inv H b1 Hb1. bind_inv H b2 Hb2. bind_inv H b3 Hb3. bind_inv H st Hst. bind_inv H nl Hnl.
  injection H as <-. destruct nl as [nm left]. cbn [with_store b_found b_namer fst snd] in *.
  eexists _, b1, b2, b3, st, nm, left. repeat split; eassumption.
Qed.

(* ------------------------------------------ every output fragment is +-1 *)
Definition spm (rows : list row) : Prop := forall f, In (RF f) rows -> pm f.

Lemma spm_frags rows : spm rows -> Forall pm (frags_of rows).
Proof. intro H. apply Forall_forall. intros f Hf. apply H, In_frags_of_iff, Hf. Qed.

Lemma trim_fragment_strand r t ks ke new r' :
  trim_fragment r t ks ke = Ok (new, r') -> f_strand new = f_strand t.
Proof.
  intros H. unfold trim_fragment in H. bind_inv H r0 Hr0. cbv zeta in H. bind_inv H rl Hrl.
  destruct (row_is r0 t || row_is rl t); cbn [negb] in H; [|discriminate].
  bind_inv H nw Hnw. injection H as <- _. apply new_frag_ok in Hnw. destruct Hnw as [-> _]. reflexivity.
Qed.

Lemma number_input_pm input n : Forall pm (in_frags input) -> Forall pm (in_frags (number_input input n)).
Proof. apply number_input_frags. intros f id H. exact H. Qed.

Lemma store_pm c g prefix bpt input pretext rs :
  Forall pm (in_frags input) ->
  remap_to_input c g prefix bpt input pretext = Ok rs ->
  forall r, In r (b_store (rs_b rs)) -> spm (o_rows r).
Proof.
  intros Hpm H.
  pose proof (number_input_pm input 0 Hpm) as Hpm'. rewrite Forall_forall in Hpm'.
  refine (store_invariant (fun r => spm (o_rows r)) c g prefix bpt input pretext rs _ _ _ _ _ H).
  - intros r r' E _ _ P. rewrite E. exact P.
  - intros name rows bait fo Hin Hfo f Hf. cbn [ovr_of_found o_rows] in Hf.
    apply Hpm'. eapply src_frag_in; [exact Hin|]. eapply find_overlaps_rows; eassumption.
  - intros r r' P Hd f Hf. apply P. eapply discard_start_incl; eassumption.
  - intros r r' P Hd f Hf. apply P. eapply discard_end_incl; eassumption.
  - intros r t ks ke new r' Ht P Htf f Hf.
    pose proof (trim_fragment_strand _ _ _ _ _ _ Htf) as Es.
    destruct (trim_fragment_inv _ _ _ _ _ _ Htf) as (r0 & rl & _ & Hrl & _ & _ & Erows).
    assert (Pn : pm new) by (unfold pm; rewrite Es; exact (Hpm' t Ht)).
    rewrite Erows in Hf. destruct (row_is rl t).
    + unfold last_row in Hrl. apply py_nth_m1_inv in Hrl. destruct Hrl as (tl & El).
      rewrite El, set_last_app in Hf. apply in_app_or in Hf. destruct Hf as [Hf | [Hf | []]].
      * apply P. rewrite El. apply in_or_app. left. exact Hf.
      * injection Hf as <-. exact Pn.
    + apply set_nth_In in Hf. destruct Hf as [Hf | Hf]; [|apply P; exact Hf].
      injection Hf as ->. exact Pn.
Qed.

Lemma left_pm c g prefix bpt input pretext rs :
  Forall pm (in_frags input) ->
  remap_to_input c g prefix bpt input pretext = Ok rs ->
  forall sc, In sc (rs_left rs) -> spm (sc_rows sc).
Proof.
  intros Hpm H sc Hsc f Hf.
  pose proof (number_input_pm input 0 Hpm) as Hpm'. rewrite Forall_forall in Hpm'.
  destruct (run_stages _ _ _ _ _ _ _ H) as (fuel & b1 & b2 & b3 & st & nm & left & _ & _ & _ & _ & E5 & ->).
  cbn [rs_left] in Hsc. pose proof (add_missing_fold _ _ _ _ _ _ _ _ E5) as Hl.
  cbn [left_frags flat_map app] in Hl.
  assert (I : In f (left_frags left)).
  { unfold left_frags. apply in_flat_map. exists sc. split; [exact Hsc|]. apply In_frags_of_iff, Hf. }
  rewrite Hl in I. apply filter_In in I as [I _]. exact (Hpm' f I).
Qed.

(* ------------------------------------------------------------- the fusion *)
Lemma spm_reverse rows : spm rows -> spm (rows_reverse rows).
Proof.
  intros H f Hf. unfold rows_reverse in Hf. apply in_map_iff in Hf as (x & E & Hx).
  apply in_rev in Hx. destruct x as [f0|gp]; cbn [row_reverse] in E; [|discriminate].
  injection E as <-. destruct (H f0 Hx) as [P|P]; unfold pm, frag_reverse; cbn [f_strand]; lia.
Qed.

Lemma spm_append a b og : spm a -> spm b -> spm (append_rows a b og).
Proof.
  intros Ha Hb f Hf. unfold append_rows in Hf.
  destruct og as [g'|]; [destruct a as [|a0 a']|].
  - apply Hb. exact Hf.
  - apply in_app_or in Hf as [Hf|Hf]; [apply Ha; exact Hf|].
    cbn [app] in Hf. destruct Hf as [Hf|Hf]; [discriminate | apply Hb; exact Hf].
  - apply in_app_or in Hf as [Hf|Hf]; [apply Ha | apply Hb]; exact Hf.
Qed.

Lemma fuse_step_spm c g acc p :
  spm (sc_rows (fst p)) -> Forall (fun kb : fuse_key * scaffold => spm (sc_rows (snd kb))) acc ->
  Forall (fun kb : fuse_key * scaffold => spm (sc_rows (snd kb))) (fuse_step c g acc p).
Proof.
  intros Pp F. destruct p as [sc isr]. cbn [fst] in Pp. unfold fuse_step.
  destruct (sc_rows sc) as [|r0 rows0] eqn:Er; [exact F|]. rewrite <- Er.
  apply Forall_forall. intros e I. apply (in_aset _ fuse_key_eqb_eq) in I as [I| ->].
  - rewrite Forall_forall in F. exact (F e I).
  - cbn [snd sc_rows]. apply spm_append; [|rewrite Er; exact Pp].
    match goal with |- context [aget fuse_key_eqb acc ?k] => destruct (aget fuse_key_eqb acc k) as [b|] eqn:G end.
    + apply (aget_some_in _ fuse_key_eqb_eq) in G. rewrite Forall_forall in F. exact (F _ G).
    + cbn [sc_rows]. intros f [].
Qed.

Lemma fuse_all_spm c g rs fused :
  (forall r, In r (b_store (rs_b rs)) -> spm (o_rows r)) ->
  (forall sc, In sc (rs_left rs) -> spm (sc_rows sc)) ->
  fuse_all c g rs = Ok fused -> forall sc, In sc fused -> spm (sc_rows sc).
Proof.
  intros FR FL H. unfold fuse_all, bind in H.
  destruct (mapM (get_ovr (b_store (rs_b rs))) (b_added (rs_b rs))) as [results|] eqn:M; [|discriminate].
  injection H as <-.
  assert (K : forall pieces acc,
    Forall (fun p : scaffold * bool => spm (sc_rows (fst p))) pieces ->
    Forall (fun kb : fuse_key * scaffold => spm (sc_rows (snd kb))) acc ->
    Forall (fun kb : fuse_key * scaffold => spm (sc_rows (snd kb))) (fold_left (fuse_step c g) pieces acc)).
  { induction pieces as [|p pieces IH]; intros acc Fp Fa; cbn [fold_left]; [exact Fa|].
    inversion Fp as [|? ? P1 P2]; subst. apply IH; [exact P2|]. apply fuse_step_spm; assumption. }
  intros sc Hsc. apply in_map_iff in Hsc as (kb & <- & Hkb).
  match type of Hkb with In _ (fold_left _ ?ps []) => specialize (K ps []) end.
  assert (K' := fun A B => proj1 (Forall_forall _ _) (K A B) kb Hkb). apply K'; [|constructor].
  apply Forall_forall. intros p Hp. apply in_app_or in Hp as [Hp|Hp]; apply in_map_iff in Hp as (x & <- & Hx).
  - cbn [piece_of_result fst sc_rows]. pose proof (mapM_get_in _ _ _ M) as I. rewrite Forall_forall in I.
    unfold to_scaffold_rows. destruct (f_strand (o_bait x) =? -1); [apply spm_reverse|]; apply FR, I, Hx.
  - cbn [fst]. apply FL, Hx.
Qed.

(* the ids in b_added index the store: fuse_all cannot fail *)
Lemma mapM_get_total st : forall ids, Forall (fun a => 0 <= a < zlen st) ids ->
  exists rs, mapM (get_ovr st) ids = Ok rs.
Proof.
  intros ids F. apply mapM_total. intros id Hid. rewrite Forall_forall in F. specialize (F id Hid).
  unfold get_ovr. destruct (nth_error st (Z.to_nat id)) as [r|] eqn:E; [eexists; reflexivity|].
  apply nth_error_None in E. unfold zlen in F. lia.
Qed.

Lemma added_in_range c g prefix bpt input pretext rs :
  Forall (fun f => f_start f <= f_end f) (in_frags input) ->
  remap_to_input c g prefix bpt input pretext = Ok rs ->
  Forall (fun a => 0 <= a < zlen (b_store (rs_b rs))) (b_added (rs_b rs)).
Proof.
  intros Hwf0 H.
  destruct (number_input_spec input 0) as (_ & Hpos & Hids).
  assert (Hwf : Forall (fun f => f_start f <= f_end f) (in_frags (number_input input 0))).
  { apply number_input_frags; [intros f id P; exact P | exact Hwf0]. }
  destruct (run_stages _ _ _ _ _ _ _ H) as (fuel & b1 & b2 & b3 & st & nm & left & E1 & E2 & E3 & E4 & _ & ->).
  set (inp := number_input input 0) in *.
  assert (I1 : Inv inp b1) by (eapply pretext_inv; eassumption).
  assert (I2 : Inv inp b2) by (eapply discard_loop_inv; eassumption).
  unfold cut_remaining_overhangs in E3. bind_inv E3 b' Hb'. injection E3 as <-.
  pose proof I2 as (_ & _ & (_ & F2 & _) & _).
  pose proof (cut_fold_ok inp Hids Hpos Hwf RemapFinal.qc_ok c _ _ _ F2 (Inv_CInv inp Hwf b2 I2) Hb') as (_ & (_ & A) & _).
  cbn [rs_b with_namer with_store b_store b_added b_namer] in *.
  pose proof (rename_results_rows _ _ _ E4) as Er. apply (f_equal (@length _)) in Er.
  rewrite !map_length in Er. unfold zlen in *. rewrite Er. exact A.
Qed.

Lemma fuse_all_total c g prefix bpt input pretext rs :
  Forall (fun f => f_start f <= f_end f) (in_frags input) ->
  remap_to_input c g prefix bpt input pretext = Ok rs ->
  exists fused, fuse_all c g rs = Ok fused.
Proof.
  intros Hwf H. unfold fuse_all.
  destruct (mapM_get_total _ _ (added_in_range _ _ _ _ _ _ _ Hwf H)) as (results & E).
  rewrite E. cbn [bind]. eexists. reflexivity.
Qed.

(* ------------------------------------------------------------- the labels *)
(* every piece is untagged (no Contaminant: no Target tag anywhere) and either
   of rank 3 or carries a non-empty original (Pretext) name *)
Definition tro_of (l : labs) : option str * Z * option str :=
  let '(_, tag, _, rank, orig) := l in (tag, rank, orig).
Definition fine3 (t : option str * Z * option str) : Prop :=
  let '(tag, rank, orig) := t in tag = None /\ (rank = 3 \/ exists o, orig = Some o /\ o <> []).
Definition fineL (l : labs) : Prop := fine3 (tro_of l).
Definition tro (r : ovr) : option str * Z * option str := (o_tag r, o_rank r, o_orig r).
Definition ofine (r : ovr) : Prop := fine3 (tro r).

Lemma map_tro_labs st st' : map o_labs st' = map o_labs st -> map tro st' = map tro st.
Proof.
  intro M. change tro with (fun r => tro_of (o_labs r)).
  rewrite <- !(map_map o_labs tro_of), M. reflexivity.
Qed.

Lemma ofine_map st st' : map tro st' = map tro st -> Forall ofine st -> Forall ofine st'.
Proof. exact (Forall_map_eq tro fine3 st st'). Qed.

Definition TI (b : bstate) : Prop := nm_target (b_namer b) = false /\ Forall ofine (b_store b).

Lemma label_plain nm id ft st nm' l :
  nm_target nm = false -> tags_ok ft -> label_scaffold nm id ft st = Ok (nm', l) ->
  nm' = nm /\ lb_tag l = None /\ lb_rank l = nm_cur_rank nm.
Proof.
  intros T [-> | ->] H; unfold label_scaffold in H; rewrite T in H.
  - cbn [mem_str existsb orb andb] in H. injection H as <- <-. repeat split.
  - change (mem_str (s "Contaminant") [s "Painted"]) with false in H.
    change (mem_str (s "FalseDuplicate") [s "Painted"]) with false in H.
    change (mem_str (s "Haplotig") [s "Painted"]) with false in H.
    change (mem_str (s "Unloc") [s "Painted"]) with false in H.
    cbn [orb andb] in H. injection H as <- <-. repeat split.
Qed.

Lemma one_bait_TI inp err sc_tags orig b bait b' :
  tags_ok (f_tags bait) -> (nm_cur_rank (b_namer b) = 3 \/ orig <> []) ->
  TI b -> one_bait inp err sc_tags orig b bait = Ok b' -> TI b' /\ b_namer b' = b_namer b.
Proof.
  intros Ht Hr [T1 T2] H. unfold one_bait in H. unfold bind in H.
  destruct (input_rows inp (f_name bait)) as [rows|]; [|discriminate].
  destruct (find_overlaps rows (f_start bait) (f_end bait)) as [[fo|]|];
    [|injection H as <-; split; [split; assumption | reflexivity]|discriminate].
  destruct (label_scaffold (b_namer b) (zlen (b_store b)) (f_tags bait) sc_tags) as [[nm lab]|] eqn:EL; [|discriminate].
  destruct (trim_large_overhangs (set_labels (ovr_of_found bait fo) lab orig sc_tags) err) as [r1|] eqn:ET; [|discriminate].
  assert (EB : b_store b' = b_store b ++ [r1] /\ b_namer b' = nm).
  { destruct (o_rows r1); injection H as <-; [split; reflexivity|].
    unfold store_fragments_found. cbn [b_store b_found b_multi b_added b_namer b_cuts].
    destruct (fold_left _ _ _). split; reflexivity. }
  destruct EB as [E1 E2]. destruct (label_plain _ _ _ _ _ _ T1 Ht EL) as (-> & Lt & Lr).
  split; [|exact E2]. unfold TI. rewrite E1, E2. split; [exact T1|].
  apply Forall_app. split; [exact T2|]. constructor; [|constructor].
  pose proof (trim_large_labs _ _ _ ET) as L. unfold o_labs in L.
  cbn [set_labels o_name o_tag o_hap o_rank o_orig] in L. injection L as _ L2 _ L4 L5.
  unfold ofine, tro, fine3. rewrite L2, L4, L5, Lt, Lr. split; [reflexivity|].
  destruct Hr as [Hr|Hr]; [left; exact Hr | right; exists orig; split; [reflexivity | exact Hr]].
Qed.

Lemma msn_untagged_rank nm name rows f t nm' :
  rows = RF f :: t -> fragment_tags rows = [] ->
  make_scaffold_name nm name rows [] = Ok nm' -> nm_cur_rank nm' = 3.
Proof.
  intros -> Ht H. unfold make_scaffold_name in H. rewrite Ht in H.
  cbn [foldM bind ts_hap ts_lc ts_primary ts_name ts_painted ts_rank ts_target truthy andb negb
       first_row_name] in H.
  destruct (haplotype_prefix_of_name (f_name f)) as [p|];
    [destruct (get_set_haplotype (nm_hap_lc nm) p) as [h lc]|]; cbn [bind] in H;
    injection H as <-; reflexivity.
Qed.

Lemma one_pretext_scaffold_TI inp err b pname prows b' :
  (exists b0 t, prows = RF b0 :: t) ->
  Forall (fun f => tags_ok (f_tags f)) (frags_of prows) ->
  (painted_b (pname, prows) = true -> pname <> []) ->
  TI b -> one_pretext_scaffold inp err b (pname, prows) = Ok b' -> TI b'.
Proof.
  intros (f & t & Hrows) Hb Hnm [T1 T2] H. unfold one_pretext_scaffold, bind in H.
  destruct (make_scaffold_name (b_namer b) pname prows (fragment_tags prows)) as [nm|] eqn:EM; [|discriminate].
  destruct (foldM _ (frags_of prows) (with_namer b nm)) as [b1|] eqn:EF; [|discriminate].
  destruct (rename_results (b_store b1) (nm_unloc_scaffolds (b_namer b1))) as [st|] eqn:ER; [|discriminate].
  injection H as <-.
  pose proof (fragment_tags_painted prows Hb) as Ht.
  destruct (make_scaffold_name_painted (b_namer b) pname prows f t Hrows Ht) as (nm' & Em & _ & _ & Htg).
  rewrite Em in EM. injection EM as ->.
  assert (Hr : nm_cur_rank nm = 3 \/ pname <> []).
  { destruct Ht as [Ht|Ht].
    - left. rewrite Ht in Em. exact (msn_untagged_rank _ _ _ _ _ _ Hrows Ht Em).
    - right. apply Hnm. unfold painted_b. cbn [snd]. rewrite Ht. reflexivity. }
  assert (I1 : TI b1 /\ b_namer b1 = nm).
  { apply (foldM_inv_in (one_bait inp err (fragment_tags prows) pname)
             (fun b => TI b /\ b_namer b = nm) (frags_of prows)) with (3 := EF).
    - intros s0 a s1 Ia [Hs En] E. rewrite Forall_forall in Hb.
      destruct (one_bait_TI _ _ _ _ _ _ _ (Hb a Ia) ltac:(rewrite En; exact Hr) Hs E) as [K1 K2].
      split; [exact K1 | congruence].
    - split; [|reflexivity]. split; [cbn [with_namer b_namer]; congruence | exact T2]. }
  destruct I1 as [[J1 J2] J3]. destruct (rename_results_spec _ _ _ ER) as [R1 _].
  split; [exact J1|]. cbn [with_store b_store].
  apply (ofine_map (b_store b1)); [apply R1; reflexivity | exact J2].
Qed.

(* the left-over scaffolds: untagged, rank 3 *)
Lemma leftovers_fine c g found : forall inp nm left nm' left',
  Forall (fun f => f_tags f = []) (in_frags inp) -> nm_target nm = false ->
  Forall (fun sc => sc_tag sc = None /\ sc_rank sc = 3) left ->
  foldM (add_missing_one c g found) inp (nm, left) = Ok (nm', left') ->
  Forall (fun sc => sc_tag sc = None /\ sc_rank sc = 3) left'.
Proof.
  induction inp as [|[name rows] inp IH]; intros nm left nm' left' Hun T F H; cbn [foldM] in H.
  - injection H as _ <-. exact F.
  - unfold in_frags in Hun. cbn [flat_map snd] in Hun. apply Forall_app in Hun as [Hu1 Hu2].
    unfold bind in H.
    destruct (add_missing_one c g found (nm, left) (name, rows)) as [[nm1 left1]|] eqn:E; [|discriminate].
    assert (K : nm_target nm1 = false /\ Forall (fun sc => sc_tag sc = None /\ sc_rank sc = 3) left1).
    { unfold add_missing_one in E.
      pose proof (missing_rows_frags c found g rows [] 0 None) as Hfr.
      destruct (JoinGaps.missing_rows_first c found g rows [] 0) as [E0|(f & t & E0)].
      - rewrite E0 in E. injection E as <- <-. split; assumption.
      - assert (Hnt : fragment_tags (missing_rows c found g rows [] 0 None) = []).
        { apply fragment_tags_untagged. rewrite Hfr. rewrite Forall_forall in Hu1 |- *.
          intros x Hx. apply filter_In in Hx. destruct Hx as [Hx _]. apply Hu1, Hx. }
        destruct (make_scaffold_name_untagged nm name _ f t E0 Hnt) as (nm2 & Hm & _ & _ & Htg).
        rewrite E0 in E, Hm. rewrite Hm in E. cbn [bind] in E. injection E as <- <-.
        split; [congruence|]. apply Forall_app. split; [exact F|]. constructor; [|constructor].
        cbn [sc_tag sc_rank]. rewrite Htg, T. cbn [andb]. split; reflexivity. }
    destruct K as [T1 F1]. exact (IH nm1 left1 nm' left' Hu2 T1 F1 H).
Qed.

(* what the ChrNamer needs of a fused scaffold: no tag; of rank 3, or without
   haplotype and with a non-empty original name *)
Definition goodL (l : labs) : Prop :=
  let '(_, tag, hap, rank, orig) := l in
  tag = None /\ (rank = 3 \/ (hap = None /\ exists o, orig = Some o /\ o <> [])).

Lemma fused_good c g prefix bpt input pretext rs fused :
  Forall (fun f => f_tags f = []) (in_frags input) ->
  Forall (fun p => exists b t, snd p = RF b :: t) pretext ->
  Forall (fun b => tags_ok (f_tags b)) (baits_of pretext) ->
  Forall (fun p => painted_b p = true -> fst p <> []) pretext ->
  no_haplotypes pretext ->
  remap_to_input c g prefix bpt input pretext = Ok rs -> fuse_all c g rs = Ok fused ->
  Forall (fun sc => goodL (sc_labs sc)) fused.
Proof.
  intros Hunt Hpre Hb Hnm NHp H HF.
  destruct (run_stages _ _ _ _ _ _ _ H) as (fuel & b1 & b2 & b3 & st & nm & left & E1 & E2 & E3 & E4 & E5 & ->).
  assert (Hunt' : Forall (fun f => f_tags f = []) (in_frags (number_input input 0))).
  { apply number_input_frags; [intros f id P; exact P | exact Hunt]. }
  assert (O1 : TI b1 /\ HNone b1).
  { apply (foldM_inv_in _ (fun b => TI b /\ HNone b) pretext) with (3 := E1).
    - intros s0 [pname prows] s1 Ia [Hs Hh] E. rewrite Forall_forall in Hpre, Hb, Hnm. split.
      + apply (one_pretext_scaffold_TI _ _ _ _ _ _ (Hpre _ Ia)) with (4 := E); [| |exact Hs].
        * apply Forall_forall. intros x Hx. apply Hb. unfold baits_of. apply in_flat_map.
          exists (pname, prows). split; [exact Ia | exact Hx].
        * exact (Hnm _ Ia).
      + exact (one_pretext_scaffold_no_hap _ pretext NHp _ _ _ _ _ Ia Hh E).
    - split; split; [reflexivity | constructor | reflexivity | constructor]. }
  destruct (discard_loop_labs _ _ _ _ E2) as (L2 & _ & N2).
  destruct (cut_remaining_labs _ _ _ E3) as (L3 & _ & N3).
  destruct O1 as [[T1 F1] [_ G1]].
  assert (F3 : Forall ofine (b_store b3)).
  { apply (ofine_map (b_store b1)); [|exact F1]. apply map_tro_labs. congruence. }
  assert (G3 : Forall (fun r => o_hap r = None) (b_store b3)).
  { apply (Forall_map_eq o_hap (fun h => h = None) (b_store b1)); [|exact G1].
    apply map_hap_labs. congruence. }
  destruct (rename_results_spec _ _ _ E4) as [R1 _].
  assert (F4 : Forall ofine st) by (apply (ofine_map (b_store b3)); [apply R1; reflexivity | exact F3]).
  assert (G4 : Forall (fun r => o_hap r = None) st).
  { apply (Forall_map_eq o_hap (fun h => h = None) (b_store b3)); [apply R1; reflexivity | exact G3]. }
  assert (T3 : nm_target (b_namer b3) = false) by (rewrite N3, N2; exact T1).
  pose proof (leftovers_fine c g _ _ _ _ _ _ Hunt' T3 (Forall_nil _) E5) as FL.
  apply (fuse_all_labs goodL c g _ fused) with (3 := HF).
  - cbn [rs_b with_namer with_store b_store]. rewrite Forall_forall in *. intros r Hr.
    destruct (F4 r Hr) as [K1 K2]. unfold goodL, o_labs. split; [exact K1|].
    destruct K2 as [K2|K2]; [left; exact K2 | right; split; [exact (G4 r Hr) | exact K2]].
  - cbn [rs_left]. eapply Forall_impl; [|exact FL]. intros sc [K1 K2].
    unfold goodL, sc_labs. split; [exact K1 | left; exact K2].
Qed.

(* -------------------------------------------------------- the statistics *)
Lemma make_stats_total c inp asms :
  (forall isc, In isc inp -> Forall pm (frags_of (snd isc))) ->
  (forall a sc, In a asms -> In sc (oa_scaffolds a) -> Forall pm (frags_of (sc_rows sc))) ->
  exists r, make_stats c inp asms = Ok r.
Proof.
  intros Hi Ho. unfold make_stats.
  assert (E1 : exists ijs, input_junctions_by_prefix c inp = Ok ijs).
  { unfold input_junctions_by_prefix. apply foldM_total. intros acc [nm rows] Ia.
    pose proof (Hi _ Ia) as Hp. cbn [snd] in Hp.
    destruct (junction_set_ok c rows Hp) as (js & Ej).
    destruct (frags_of rows) as [|f t]; [eexists; reflexivity|].
    rewrite Ej. cbn [bind]. eexists. reflexivity. }
  destruct E1 as (ijs & ->). cbn [bind].
  assert (E2 : exists ojs,
    mapM (fun a => do js <- asm_junctions c (oa_scaffolds a); Ok (oa_key a, js)) asms = Ok ojs).
  { apply mapM_total. intros a Ia.
    assert (E : exists js, asm_junctions c (oa_scaffolds a) = Ok js).
    { unfold asm_junctions. apply foldM_total. intros acc sc Isc.
      destruct (junction_set_ok c (sc_rows sc) (Ho a sc Ia Isc)) as (js & ->).
      cbn [bind]. eexists; reflexivity. }
    destruct E as (js & ->). cbn [bind]. eexists; reflexivity. }
  destruct E2 as (ojs & ->). cbn [bind]. eexists. reflexivity.
Qed.

(* ============================================================ the theorem *)
Theorem painted_tiling_maps_complete : forall g prefix n d input pretext,
  0 < d -> d <= n ->
  Forall input_ok input -> NoDup (map fst input) ->
  NoDup (map key_of (in_frags input)) ->
  Forall (fun f => f_tags f = []) (in_frags input) ->
  Forall (fun p => exists b t, snd p = RF b :: t) pretext ->
  Forall (fun b => (f_tags b = [] \/ f_tags b = [s "Painted"]) /\ (f_strand b = 1 \/ f_strand b = -1)
                   /\ In (f_name b) (map fst input)) (baits_of pretext) ->
  Forall (scaffold_tiled n d (baits_of pretext)) input ->
  (* for the second half of the pipeline *)
  Forall (fun f => f_strand f = 1 \/ f_strand f = -1) (in_frags input) ->  (* no contig of unknown strand *)
  Forall (fun p => painted_b p = true -> fst p <> []) pretext ->          (* painted scaffolds are named *)
  no_haplotypes pretext ->                                                (* no <hap>_..._<n> scaffold names *)
  exists o, remap repaired g prefix (n, d) input pretext = Ok o.
Proof.
  intros g prefix n d input pretext Hd Hdn Hin Hnm Hkeys Hunt Hpre Hb Htile Hpm Hnames NHp.
  destruct (completion_of_painted_tiling_maps g prefix n d input pretext
              Hd Hdn Hin Hnm Hkeys Hunt Hpre Hb Htile) as (rs & Hrs).
  unfold remap. rewrite Hrs. cbn [bind].
  assert (Hwf0 : Forall (fun f => f_start f <= f_end f) (in_frags input)).
  { apply in_frags_Forall. eapply Forall_impl; [|exact Hin]. intros isc (_ & _ & _ & _ & H).
    eapply Forall_impl; [|exact H]. intros f [_ Hw]. exact Hw. }
  assert (Hb' : Forall (fun b => tags_ok (f_tags b)) (baits_of pretext)).
  { eapply Forall_impl; [|exact Hb]. intros b (T & _). exact T. }
  destruct (fuse_all_total _ g _ _ _ _ _ Hwf0 Hrs) as (fused0 & HF).
  pose proof (fused_good _ _ _ _ _ _ _ _ Hunt Hpre Hb' Hnames NHp Hrs HF) as Hgood.
  rewrite Forall_forall in Hgood.
  assert (Hrows0 : forall sc, In sc fused0 -> spm (sc_rows sc)).
  { apply (fuse_all_spm repaired g rs fused0);
      [exact (store_pm _ _ _ _ _ _ _ Hpm Hrs) | exact (left_pm _ _ _ _ _ _ _ Hpm Hrs) | exact HF]. }
  unfold assemblies_with_scaffolds_fused. rewrite HF. cbn [bind].
  change (map (fun sc => if (sc_rank sc =? 2) && negb (starts_with prefix (sc_name sc))
                         then with_name sc (prefix ++ sc_name sc) else sc) fused0)
    with (map (prefix_rank2 prefix) fused0).
  set (fused1 := map (prefix_rank2 prefix) fused0).
  change (flat_map _ (combine (seq 0 (length fused1)) fused1)) with (chr_items fused1).
  (* the ChrNamer: one haplotype ("None"), every rank-1 scaffold has an original name *)
  destruct (name_chromosomes_single_total prefix fused1 (s "None") (chr_items fused1))
    as (fused & NC & Hlen & Hsame & _).
  { apply Forall_forall. intros [h i] Hi. cbn [fst]. apply chr_items_in in Hi as (_ & sc & Hn & Hr & ->).
    apply nth_error_In in Hn. apply in_map_iff in Hn as (sc0 & <- & I0).
    rewrite (same_but_name_asm_k _ _ (prefix_rank2_sbn prefix sc0)).
    destruct (prefix_rank2_sbn prefix sc0) as (_ & _ & _ & Rk & _). rewrite Rk in Hr.
    destruct (Hgood sc0 I0) as [Tg K]. unfold sc_labs in Tg, K.
    destruct K as [K | [Hh _]]; [lia|]. unfold asm_k, asm_key_of. rewrite Tg, Hh. reflexivity. }
  { apply Forall_forall. intros [h i] Hi. cbn [snd]. apply chr_items_in in Hi as (_ & sc & Hn & Hr & _).
    rewrite Nat.sub_0_r in Hn. exists sc. pose proof (nth_error_In _ _ Hn) as I1.
    apply in_map_iff in I1 as (sc0 & <- & I0).
    destruct (prefix_rank2_sbn prefix sc0) as (_ & _ & _ & Rk & Ro & _). rewrite Rk in Hr.
    destruct (Hgood sc0 I0) as [_ K]. unfold sc_labs in K.
    destruct K as [K | (_ & o & Eo & Ho)]; [lia|]. exists o.
    split; [exact Hn|]. split; [rewrite Ro; exact Eo | exact Ho]. }
  rewrite NC. cbn [bind].
  (* every scaffold that comes out of the ChrNamer has +-1 fragments only *)
  assert (Hrows : forall sc, In sc fused -> spm (sc_rows sc)).
  { intros sc Isc. apply In_nth_error in Isc as (i & Ei).
    destruct (nth_error fused1 i) as [sc1|] eqn:E1.
    - destruct (Hsame i sc1 E1) as (sc' & E' & Er & _). rewrite Ei in E'. injection E' as <-. rewrite Er.
      apply nth_error_In in E1. apply in_map_iff in E1 as (sc0 & <- & I0).
      destruct (prefix_rank2_sbn prefix sc0) as (Rr & _). rewrite Rr. exact (Hrows0 sc0 I0).
    - apply nth_error_None in E1. assert (i < length fused)%nat by (apply nth_error_Some; congruence). lia. }
  (* grouping and sorting *)
  change (fold_left _ fused []) with (fold_left RemapTail.group_step fused []).
  match goal with |- context [mapM ?f ?a0] => destruct (mapM_total f a0) as (asms & MM) end.
  { intros [k [cur scs]] _. destruct (smart_sort_total sc_rank sc_name scs) as (r & Er & _).
    rewrite Er. cbn [bind]. eexists; reflexivity. }
  rewrite MM. cbn [bind].
  (* the statistics *)
  destruct (make_stats_total repaired (number_input input 0) asms) as ([[breaks joins] per] & MS).
  { intros isc Iisc. pose proof (number_input_pm input 0 Hpm) as Hp. rewrite Forall_forall in Hp |- *.
    intros f If. apply Hp. unfold in_frags. apply in_flat_map. exists isc. split; assumption. }
  { intros a sc Ia Isc. apply spm_frags, Hrows.
    destruct (mapM_In _ _ _ MM a Ia) as ([k [cur scs]] & I & E).
    destruct (smart_sort_total sc_rank sc_name scs) as (r & Er & Pr). rewrite Er in E. cbn [bind] in E.
    injection E as <-. cbn [oa_scaffolds] in Isc.
    pose proof (Permutation_in _ Pr Isc) as Is. rewrite (grouping_spec _ _ _ _ I) in Is.
    apply filter_In in Is as [Is _]. exact Is. }
  rewrite MS. eexists. reflexivity.
Qed.

(* ===================================== the three added hypotheses are needed *)
(* the statement with each added hypothesis switched on or off *)
Definition painted_statement (stranded named nohap : bool) : Prop :=
  forall g prefix n d input pretext,
  0 < d -> d <= n ->
  Forall input_ok input -> NoDup (map fst input) ->
  NoDup (map key_of (in_frags input)) ->
  Forall (fun f => f_tags f = []) (in_frags input) ->
  Forall (fun p => exists b t, snd p = RF b :: t) pretext ->
  Forall (fun b => (f_tags b = [] \/ f_tags b = [s "Painted"]) /\ (f_strand b = 1 \/ f_strand b = -1)
                   /\ In (f_name b) (map fst input)) (baits_of pretext) ->
  Forall (scaffold_tiled n d (baits_of pretext)) input ->
  (stranded = true -> Forall (fun f => f_strand f = 1 \/ f_strand f = -1) (in_frags input)) ->
  (named = true -> Forall (fun p => painted_b p = true -> fst p <> []) pretext) ->
  (nohap = true -> no_haplotypes pretext) ->
  exists o, remap repaired g prefix (n, d) input pretext = Ok o.

Corollary painted_statement_holds : painted_statement true true true.
Proof.
  intros g prefix n d input pretext Hd Hdn Hin Hnm Hkeys Hunt Hpre Hb Htile H1 H2 H3.
  apply painted_tiling_maps_complete; auto.
Qed.

Module Needs.
  Definition g10 := mkGap 10 (s "scaffold").
  Definition ctg (name : str) (strand : Z) : frag := mkFrag 0 name 1 100 strand [].
  Definition pbait (name : str) (E : Z) : frag := mkFrag 0 name 1 E 1 [s "Painted"].

  (* 1. a contig of unknown strand with a neighbour: make_stats raises ValueError *)
  Definition input1 := [(s "scaf1", [RF (ctg (s "cA") 0); RG g10; RF (ctg (s "cB") 1)])].
  Definition pretext1 := [(s "P1", [RF (pbait (s "scaf1") 210)])].
  Lemma run1 : remap repaired g10 (s "SUPER_") (2, 1) input1 pretext1 = Err ValueError.
  Proof. vm_compute. reflexivity. Qed.

  (* 2. a painted Pretext scaffold without a name: ChrNamer raises ValueError *)
  Definition input2 := [(s "scaf1", [RF (ctg (s "cB") 1)])].
  Definition pretext2 : list (str * list row) := [(s "", [RF (pbait (s "scaf1") 100)])].
  Lemma run2 : remap repaired g10 (s "SUPER_") (2, 1) input2 pretext2 = Err ValueError.
  Proof. vm_compute. reflexivity. Qed.

  (* 3. haplotype-shaped scaffold names: two painted scaffolds of HAP1 in a row *)
  Definition input3 := [(s "HAP1_a_1", [RF (ctg (s "cB") 1)]); (s "HAP1_b_1", [RF (ctg (s "cC") 1)]);
                        (s "HAP2_c_1", [RF (ctg (s "cD") 1)])].
  Definition pretext3 := [(s "P1", [RF (pbait (s "HAP1_a_1") 100)]); (s "P2", [RF (pbait (s "HAP1_b_1") 100)]);
                          (s "P3", [RF (pbait (s "HAP2_c_1") 100)])].
  Lemma run3 : remap repaired g10 (s "SUPER_") (2, 1) input3 pretext3 = Err ChrNamerError.
  Proof. vm_compute. reflexivity. Qed.

  (* haplotype-shaped CONTIG names are harmless ([no_haplotypes input] is not needed) *)
  Definition input4 := [(s "a", [RF (ctg (s "HAP1_x_1") 1)]); (s "b", [RF (ctg (s "HAP1_y_1") 1)]);
                        (s "c", [RF (ctg (s "HAP2_z_1") 1)])].
  Definition pretext4 := [(s "P1", [RF (pbait (s "a") 100)]); (s "P2", [RF (pbait (s "b") 100)])].
  Lemma run4 : exists o, remap repaired g10 (s "SUPER_") (2, 1) input4 pretext4 = Ok o
                         /\ no_haplotypes_b input4 = false.
  Proof. eexists. split; vm_compute; reflexivity. Qed.

  Ltac one_contig_ok c :=
    unfold input_ok; cbn [snd]; split; [discriminate|]; split; [repeat constructor; cbn; lia|];
    split; [eexists _, _; reflexivity|]; split; [exists c, []; reflexivity|];
    repeat (apply Forall_cons; [split; cbn; lia|]); apply Forall_nil.
  Ltac one_bait_tiled b E :=
    right; exists [b], E; split; [apply Permutation_refl|]; split; [cbn; lia|];
    split; [vm_compute; reflexivity|]; left; reflexivity.
End Needs.

Theorem painted_tiling_maps_complete_needs_stranded_contigs : ~ painted_statement false true true.
Proof.
  intros H.
  destruct (H Needs.g10 (s "SUPER_") 2 1 Needs.input1 Needs.pretext1) as (o & Ho).
  - lia.
  - lia.
  - constructor; [|constructor]. unfold input_ok. cbn [snd Needs.input1].
    split; [discriminate|]. split; [repeat constructor; cbn; lia|].
    split; [eexists _, _; reflexivity|].
    split; [exists (Needs.ctg (s "cB") 1), [RF (Needs.ctg (s "cA") 0); RG Needs.g10]; reflexivity|].
    repeat (apply Forall_cons; [split; cbn; lia|]). apply Forall_nil.
  - cbn. repeat constructor; cbn; intuition discriminate.
  - cbn. repeat constructor; cbn; intuition discriminate.
  - repeat constructor.
  - repeat constructor. eexists _, _. reflexivity.
  - cbn. repeat (apply Forall_cons; [split; [right; reflexivity | split; [left; reflexivity | cbn; auto]]|]). apply Forall_nil.
  - constructor; [|constructor]. Needs.one_bait_tiled (Needs.pbait (s "scaf1") 210) 210.
  - discriminate.
  - intros _. repeat constructor. intros _. discriminate.
  - intros _. apply no_haplotypes_b_sound. vm_compute. reflexivity.
  - rewrite Needs.run1 in Ho. discriminate.
Qed.

Theorem painted_tiling_maps_complete_needs_named_painted_scaffolds : ~ painted_statement true false true.
Proof.
  intros H.
  destruct (H Needs.g10 (s "SUPER_") 2 1 Needs.input2 Needs.pretext2) as (o & Ho).
  - lia.
  - lia.
  - constructor; [|constructor]. Needs.one_contig_ok (Needs.ctg (s "cB") 1).
  - cbn. repeat constructor; cbn; intuition discriminate.
  - cbn. repeat constructor; cbn; intuition discriminate.
  - repeat constructor.
  - repeat constructor. eexists _, _. reflexivity.
  - cbn. repeat (apply Forall_cons; [split; [right; reflexivity | split; [left; reflexivity | cbn; auto]]|]). apply Forall_nil.
  - constructor; [|constructor]. Needs.one_bait_tiled (Needs.pbait (s "scaf1") 100) 100.
  - intros _. repeat constructor; cbn; auto.
  - discriminate.
  - intros _. apply no_haplotypes_b_sound. vm_compute. reflexivity.
  - rewrite Needs.run2 in Ho. discriminate.
Qed.

Theorem painted_tiling_maps_complete_needs_no_haplotypes : ~ painted_statement true true false.
Proof.
  intros H.
  destruct (H Needs.g10 (s "SUPER_") 2 1 Needs.input3 Needs.pretext3) as (o & Ho).
  - lia.
  - lia.
  - constructor; [|constructor; [|constructor; [|constructor]]].
    + Needs.one_contig_ok (Needs.ctg (s "cB") 1).
    + Needs.one_contig_ok (Needs.ctg (s "cC") 1).
    + Needs.one_contig_ok (Needs.ctg (s "cD") 1).
  - cbn. repeat constructor; cbn; intuition discriminate.
  - cbn. repeat constructor; cbn; intuition discriminate.
  - repeat constructor.
  - repeat constructor; eexists _, _; reflexivity.
  - cbn. repeat (apply Forall_cons; [split; [right; reflexivity | split; [left; reflexivity | cbn; auto]]|]). apply Forall_nil.
  - constructor; [|constructor; [|constructor; [|constructor]]].
    + Needs.one_bait_tiled (Needs.pbait (s "HAP1_a_1") 100) 100.
    + Needs.one_bait_tiled (Needs.pbait (s "HAP1_b_1") 100) 100.
    + Needs.one_bait_tiled (Needs.pbait (s "HAP2_c_1") 100) 100.
  - intros _. repeat constructor; cbn; auto.
  - intros _. repeat constructor; intros _; discriminate.
  - discriminate.
  - rewrite Needs.run3 in Ho. discriminate.
Qed.

(* ============================================================== an instance *)
(* the three-piece map of Proofs/Completion.v, the scaffold P2 painted (one of
   its two baits only), P1 not: every hypothesis of the theorem holds *)
Module PaintedThreePieces.
  Import Completion.ThreePieces.
  Definition p1 := mkFrag 0 (s "scaf1") 1 200 (-1) [s "Painted"].
  Definition p2 := mkFrag 0 (s "scaf1") 201 350 1 [].
  Definition p3 := mkFrag 0 (s "scaf1") 351 520 (-1) [].
  Definition pretext := [(s "P1", [RF p3]); (s "P2", [RF p2; RF p1])].
End PaintedThreePieces.

Example painted_three_piece_map_completes :
  exists o, remap repaired ThreePieces.g10 (s "SUPER_") (7, 2)
                  ThreePieces.input PaintedThreePieces.pretext = Ok o.
Proof.
  apply painted_tiling_maps_complete.
  - lia.
  - lia.
  - constructor; [|constructor]. unfold input_ok. cbn [snd ThreePieces.input].
    split; [discriminate|]. split; [repeat constructor; cbn; lia|].
    split; [eexists _, _; reflexivity|].
    split; [exists ThreePieces.C, [RF ThreePieces.A; RG ThreePieces.g10; RF ThreePieces.B; RG ThreePieces.g10];
            reflexivity|].
    repeat (apply Forall_cons; [split; cbn; lia|]). apply Forall_nil.
  - cbn. repeat constructor; cbn; intuition discriminate.
  - cbn. repeat constructor; cbn; intuition discriminate.
  - repeat constructor.
  - repeat constructor; eexists _, _; reflexivity.
  - cbn. apply Forall_cons; [split; [left; reflexivity | split; [cbn; lia | cbn; auto]]|].
    apply Forall_cons; [split; [left; reflexivity | split; [cbn; lia | cbn; auto]]|].
    apply Forall_cons; [split; [right; reflexivity | split; [cbn; lia | cbn; auto]]|]. apply Forall_nil.
  - constructor; [|constructor]. right.
    exists [PaintedThreePieces.p1; PaintedThreePieces.p2; PaintedThreePieces.p3], 520.
    split.
    { replace (filter _ _) with (rev [PaintedThreePieces.p1; PaintedThreePieces.p2; PaintedThreePieces.p3])
        by (vm_compute; reflexivity).
      apply Permutation_sym, Permutation_rev. }
    split; [cbn; lia|]. split; [vm_compute; reflexivity|].
    right. repeat constructor; cbn; lia.
  - cbn. repeat (apply Forall_cons; [cbn; lia|]). apply Forall_nil.
  - repeat constructor; intros _; discriminate.
  - apply no_haplotypes_b_sound. vm_compute. reflexivity.
Qed.

(* the same run, by computation: P2 becomes chromosome SUPER_1, P1's piece keeps
   the input scaffold name *)
Example painted_three_piece_map_by_computation :
  exists o, remap repaired ThreePieces.g10 (s "SUPER_") (7, 2)
                  ThreePieces.input PaintedThreePieces.pretext = Ok o
            /\ map (fun a => map sc_name (oa_scaffolds a)) (out_asms o) = [[s "SUPER_1"; s "scaf1"]].
Proof. eexists. split; vm_compute; reflexivity. Qed.

Print Assumptions completion_of_painted_tiling_maps.
Print Assumptions painted_tiling_maps_complete.
Print Assumptions painted_statement_holds.
Print Assumptions painted_tiling_maps_complete_needs_stranded_contigs.
Print Assumptions painted_tiling_maps_complete_needs_named_painted_scaffolds.
Print Assumptions painted_tiling_maps_complete_needs_no_haplotypes.
Print Assumptions Needs.run4.
Print Assumptions painted_three_piece_map_completes.
