(* C02, first clause: "for every edit script PretextView can produce remapping
   completes without error".  Maps that TILE every scaffold they show:
   the baits naming one input scaffold, in ascending order, cover 1..E without
   hole or overlap, E within one texel of the scaffold length, and -- when the
   scaffold is shown in more than one piece -- every piece at least two texels
   long; any order, orientation and grouping of the pieces into Pretext
   scaffolds; any subset of scaffolds absent. *)
From Tola Require Import Py.Base Py.Sort Model.Fragment Model.Scaffold Model.Lookup
  Model.OverlapResult Model.OvrSpec Model.NaturalKey Model.Namer Model.Remap Model.RemapSpec
  Proofs.BaseLemmas Proofs.Lookup Proofs.OverlapResult Proofs.RemapHead Proofs.PipelineInv
  Proofs.CoreKept.
From Coq Require Import Lia ZifyBool Permutation.

Fixpoint tiling (bs : list frag) (from E : Z) : Prop :=
  match bs with
  | [] => False
  | [b] => f_start b = from /\ f_end b = E /\ from <= E
  | b :: t => f_start b = from /\ from <= f_end b /\ tiling t (f_end b + 1) E
  end.

Definition scaffold_tiled (n d : Z) (baits : list frag) (isc : str * list row) : Prop :=
  let mine := filter (fun b => str_eqb (f_name b) (fst isc)) baits in
  mine = []
  \/ exists sorted E, Permutation mine sorted /\ tiling sorted 1 E
       /\ d * Z.abs (E - rows_len (snd isc)) < n
       /\ (length sorted = 1%nat \/ Forall (fun b => 2 * n <= d * f_len b) sorted).

(* input scaffolds: rows, every row >= 1 bp, first and last row a contig,
   contigs well formed *)
Definition input_ok (isc : str * list row) : Prop :=
  snd isc <> [] /\ pos_rows (snd isc)
  /\ (exists f t, snd isc = RF f :: t) /\ (exists f t, snd isc = t ++ [RF f])
  /\ Forall (fun f => (f_strand f = 1 \/ f_strand f = -1 \/ f_strand f = 0) /\ f_start f <= f_end f)
            (frags_of (snd isc)).

Definition completion_statement : Prop :=
  forall g prefix n d input pretext,
  0 < d -> d <= n ->                                   (* texel size n/d >= 1 bp *)
  Forall input_ok input ->
  NoDup (map fst input) ->
  NoDup (map key_of (in_frags input)) ->
  (* every Pretext scaffold begins with a bait; baits are untagged, on strand +-1 and name an input scaffold *)
  Forall (fun p => exists b t, snd p = RF b :: t) pretext ->
  Forall (fun b => f_tags b = [] /\ (f_strand b = 1 \/ f_strand b = -1)
                   /\ In (f_name b) (map fst input)) (baits_of pretext) ->
  Forall (scaffold_tiled n d (baits_of pretext)) input ->
  exists rs, remap_to_input repaired g prefix (n, d) input pretext = Ok rs.

(* ======================================================================
   [completion_statement] as written above is FALSE: nothing in it stops an
   input contig from carrying AGP tags, and a contig that no bait finds (for
   instance a last contig shorter than the rounding of E) is appended by
   add_missing_scaffolds_from_input under a scaffold whose name is made by
   make_scaffold_name from the contig's OWN tags -- two chromosome-like tags
   raise TaggingError ([completion_statement_refuted] below).  The theorem is
   proved with one more hypothesis: the input contigs are untagged. *)
Definition completion_statement' : Prop :=
  forall g prefix n d input pretext,
  0 < d -> d <= n ->                                   (* texel size n/d >= 1 bp *)
  Forall input_ok input ->
  NoDup (map fst input) ->
  NoDup (map key_of (in_frags input)) ->
  Forall (fun f => f_tags f = []) (in_frags input) ->  (* ADDED: input contigs are untagged *)
  Forall (fun p => exists b t, snd p = RF b :: t) pretext ->
  Forall (fun b => f_tags b = [] /\ (f_strand b = 1 \/ f_strand b = -1)
                   /\ In (f_name b) (map fst input)) (baits_of pretext) ->
  Forall (scaffold_tiled n d (baits_of pretext)) input ->
  exists rs, remap_to_input repaired g prefix (n, d) input pretext = Ok rs.

From Tola Require Import Proofs.CoreKeptGood Proofs.CoreKeptResolver Proofs.CoreKeptLookup
  Proofs.CoreKeptHeld Proofs.Fuel Proofs.CompletionLookup Proofs.CompletionTail
  Proofs.CompletionResolver Proofs.CompletionCut Proofs.CompletionReady.
From Tola Require Proofs.CompletionTiling Proofs.UniqueNames.

(* ------------------------------------------------------------ small facts *)
Lemma nodup_no_dup_names l : NoDup l -> has_dup_names l = false.
Proof.
  induction 1 as [|x l Hx Hl IH]; [reflexivity|].
  cbn [has_dup_names]. rewrite IH, Bool.orb_false_r.
  destruct (mem_str x l) eqn:E; [|reflexivity]. exfalso. apply Hx.
  unfold mem_str in E. apply existsb_exists in E. destruct E as (y & Hy & E).
  apply str_eqb_eq in E. subst. exact Hy.
Qed.

Lemma number_rows_frags (P : frag -> Prop) :
  (forall f id, P f -> P (mkFrag id (f_name f) (f_start f) (f_end f) (f_strand f) (f_tags f))) ->
  forall rows n, Forall P (frags_of rows) -> Forall P (frags_of (fst (number_rows rows n))).
Proof.
  intros HP. induction rows as [|r rows IH]; intros n H; cbn [number_rows]; [constructor|].
  specialize (IH (n + 1)). destruct r as [f|g0]; destruct (number_rows rows (n + 1)) as [t' n']; cbn [fst] in *.
  - rewrite frags_of_RF in *. inversion H as [|? ? H1 H2]; subst. constructor; [apply HP; exact H1 | apply IH; exact H2].
  - rewrite frags_of_RG in *. apply IH. exact H.
Qed.

Lemma number_input_frags (P : frag -> Prop) :
  (forall f id, P f -> P (mkFrag id (f_name f) (f_start f) (f_end f) (f_strand f) (f_tags f))) ->
  forall input n, Forall P (in_frags input) -> Forall P (in_frags (number_input input n)).
Proof.
  intros HP. induction input as [|[name rows] input IH]; intros n H; cbn [number_input]; [constructor|].
  pose proof (number_rows_frags P HP rows n) as Hr.
  destruct (number_rows rows n) as [rows' n']. cbn [fst] in Hr.
  unfold in_frags in *. cbn [flat_map snd] in *. apply Forall_app in H. destruct H as [H1 H2].
  apply Forall_app. split; [apply Hr; exact H1 | apply IH; exact H2].
Qed.

Lemma number_rows_length : forall rows n, length (fst (number_rows rows n)) = length rows.
Proof.
  induction rows as [|r rows IH]; intros n; cbn [number_rows]; [reflexivity|].
  specialize (IH (n + 1)). destruct r as [f|g0]; destruct (number_rows rows (n + 1)) as [t' n'];
    cbn [fst length] in *; rewrite IH; reflexivity.
Qed.

Lemma number_input_len : forall input n name rows', In (name, rows') (number_input input n) ->
  exists rows, In (name, rows) input /\ length rows' = length rows.
Proof.
  induction input as [|[nm rows] input IH]; intros n name rows' H; cbn [number_input] in H; [destruct H|].
  pose proof (number_rows_length rows n) as Hl.
  destruct (number_rows rows n) as [rows1 n1]. cbn [fst] in Hl.
  destruct H as [E | H].
  - injection E as <- <-. exists rows. split; [left; reflexivity | exact Hl].
  - destruct (IH _ _ _ H) as (rows0 & Hin & E). exists rows0. split; [right; exact Hin | exact E].
Qed.

Lemma in_frags_Forall (P : frag -> Prop) input :
  Forall (fun isc => Forall P (frags_of (snd isc))) input -> Forall P (in_frags input).
Proof.
  induction 1 as [|isc input H _ IH]; [constructor|].
  unfold in_frags in *. cbn [flat_map]. apply Forall_app. split; assumption.
Qed.

Lemma error_length_ge1 n d : 0 < d -> d <= n -> 1 <= error_length (n, d).
Proof.
  intros Hd Hdn. unfold error_length. cbn [fst snd].
  pose proof (Z.div_pos n d ltac:(lia) Hd). lia.
Qed.

(* rename_by_size succeeds on ids that are indices of the store *)
Lemma rename_results_ok st ids :
  Forall (fun id => 0 <= id < zlen st) ids ->
  exists st', rename_results st ids = Ok st' /\ zlen st' = zlen st.
Proof.
  intro Hids. unfold rename_results.
  assert (HM : exists rs, mapM (fun id => do r <- get_ovr st id; Ok (id, r)) ids = Ok rs).
  { induction Hids as [|id ids Hid _ IH]; cbn [mapM]; [eexists; reflexivity|].
    destruct (get_ovr_ok st id Hid) as (r & Er). rewrite Er. cbn [bind].
    destruct IH as (rs & Ers). rewrite Ers. cbn [bind]. eexists. reflexivity. }
  destruct HM as (rs & Ers). rewrite Ers. cbn [bind]. eexists. split; [reflexivity|].
  assert (E : rename_results st ids = Ok (fold_left (fun st0 '(id, r, n) => put_ovr st0 id (set_name r n))
              (rename_by_size rs (fun p => o_name (snd p)) (fun p => o_length (snd p))) st)).
  { unfold rename_results. rewrite Ers. reflexivity. }
  apply rename_results_rows in E. apply (f_equal (@length _)) in E. rewrite !map_length in E.
  unfold zlen. rewrite E. reflexivity.
Qed.

(* =========================================================== the theorem *)
(* The geometric part never looks at tags: the theorem is proved from the
   PROGRESS of the lookup fold (hypothesis [Hprog]: the namer calls succeed and
   every registered haplotig id is an index of the store).  For baits untagged
   or tagged "Painted" only that is [pretext_progress] ([completion_core]);
   for consistently tagged scaffolds it is Proofs/CompletionTagged.v. *)
Lemma completion_core_gen : forall g prefix n d input pretext,
  0 < d -> d <= n ->
  Forall input_ok input ->
  NoDup (map fst input) ->
  NoDup (map key_of (in_frags input)) ->
  Forall (fun f => f_tags f = []) (in_frags input) ->
  Forall (fun b => In (f_name b) (map fst input)) (baits_of pretext) ->
  Forall (scaffold_tiled n d (baits_of pretext)) input ->
  ((forall name rows, In (name, rows) (number_input input 0) -> rows <> [] /\ pos_rows rows) ->
   Forall (fun b => 1 <= f_start b <= f_end b) (baits_of pretext) ->
   exists b1, foldM (one_pretext_scaffold (number_input input 0) (error_length (n, d))) pretext
                    (mkB [] [] [] [] (new_namer prefix) 0) = Ok b1
              /\ Forall (fun id => 0 <= id < zlen (b_store b1)) (nm_hap_scaffolds (b_namer b1))) ->
  exists rs, remap_to_input repaired g prefix (n, d) input pretext = Ok rs.
Proof.
  intros g prefix n d input pretext Hd Hdn Hin Hnm Hkeys0 Hunt Hnamed Htile Hprog.
  set (all := baits_of pretext) in *.
  pose proof (CompletionTiling.tiled_valid n d input all Hnamed Htile) as Hvalid.
  assert (Hdisj : ForallOrdPairs Rdisj all)
    by exact (CompletionTiling.tiled_disjoint n d input all Hnamed Htile).
  pose proof (CompletionTiling.tiled_next n d input all Hnamed Htile) as Hnext.
  pose proof (CompletionTiling.tiled_prev n d input all Hnamed Htile) as Hprev.
  pose proof (CompletionTiling.tiled_big n d input all Hd Hdn Hnamed Htile) as Hbig.
  unfold remap_to_input. rewrite (nodup_no_dup_names _ Hnm). cbv zeta.
  set (inp := number_input input 0). set (err := error_length (n, d)) in *.
  assert (Herr : 1 <= err) by (apply error_length_ge1; assumption).
  destruct (number_input_spec input 0) as (Ek & Hidpos & Hids). fold inp in Ek, Hidpos, Hids.
  assert (Hkeys : NoDup (map key_of (in_frags inp))) by (rewrite Ek; exact Hkeys0).
  assert (Hnames : NoDup (map fst inp)) by (unfold inp; rewrite number_input_fst; exact Hnm).
  assert (Hpos0 : Forall (fun isc => pos_rows (snd isc)) input).
  { eapply Forall_impl; [|exact Hin]. intros isc (_ & H & _). exact H. }
  pose proof (number_input_pos input 0 Hpos0) as Hposr. fold inp in Hposr.
  assert (Hne : forall name rows, In (name, rows) inp -> rows <> [] /\ pos_rows rows).
  { intros name rows H. split; [|eapply Hposr; exact H].
    destruct (number_input_len _ _ _ _ H) as (rows0 & Hin0 & El).
    rewrite Forall_forall in Hin. destruct (Hin _ Hin0) as (Hne0 & _). cbn [snd] in Hne0.
    intros ->. destruct rows0; [congruence | discriminate]. }
  assert (Hwf : Forall (fun f => strand_ok (f_strand f) = true /\ f_start f <= f_end f) (in_frags inp)).
  { apply number_input_frags; [intros f id H; exact H|].
    apply in_frags_Forall. eapply Forall_impl; [|exact Hin]. intros isc (_ & _ & _ & _ & H).
    eapply Forall_impl; [|exact H]. intros f ([-> | [-> | ->]] & Hw); split; auto. }
  assert (Hunt' : Forall (fun f => f_tags f = []) (in_frags inp)).
  { apply number_input_frags; [intros f id H; exact H | exact Hunt]. }
  (* A. the lookups *)
  set (b0 := mkB [] [] [] [] (new_namer prefix) 0).
  destruct (Hprog Hne) as (b1 & Hs1 & Hn1).
  { exact Hvalid. }
  fold inp err b0 in Hs1.
  rewrite Hs1. cbn [bind].
  assert (L1 : LInv inp err all b1 []).
  { eapply (pretext_LInv inp err all Hkeys Hnames Hposr Herr Hvalid); [|exact Hs1].
    apply LInv_init. exact Hdisj. }
  assert (L2 : LK inp all (KIn inp) b1 []).
  { eapply (pretext_LK inp err all Hnames Hposr Herr Hvalid (KIn inp)); [| | | | |exact Hs1].
    - apply KIn_ext.
    - exact (KIn_ds inp err all Hposr Herr Hvalid Hbig).
    - exact (KIn_de inp err all Hposr Herr Hvalid Hbig).
    - exact (KIn_init inp all Hnames Hposr Hvalid).
    - apply LK_init. }
  assert (L3 : IL inp b1) by (eapply (pretext_Lst inp Hkeys); [apply IL_init | exact Hs1]).
  destruct L1 as (HI1 & HS1 & HF1 & _ & Hnd1 & _). rewrite app_nil_r in HF1. unfold SB in HF1.
  destruct L2 as (HK1 & HH1 & _ & Ht1). destruct L3 as (_ & HL1).
  (* B. the overhang resolver *)
  match goal with |- context [discard_loop ?F err b1] => set (fuel := F) end.
  destruct (discard_loop_ok inp err Hids fuel b1) as (b2 & Hs2).
  { split; [exact HI1|]. split; [exact HL1 | exact Hnd1]. }
  { unfold fuel, total_result_rows. lia. }
  rewrite Hs2. cbn [bind].
  destruct (discard_loop_good inp err all Hids Hposr Herr Hvalid _ _ _ HI1 HS1 HF1 Hnd1 Hs2)
    as (HI2 & HS2 & HB2).
  destruct (discard_loop_plus inp err all Hids Hkeys Hposr Herr Hvalid (KIn inp)
              (KIn_ds inp err all Hposr Herr Hvalid Hbig) (KIn_de inp err all Hposr Herr Hvalid Hbig)
              _ _ _ HI1 HS1 HF1 Hnd1 HK1 HH1 Hs2) as (HK2 & HH2 & Hnd2).
  destruct (discard_loop_RI inp err Hids fuel b1 b2) as (_ & HL2 & _); [|exact Hs2|].
  { split; [exact HI1|]. split; [exact HL1 | exact Hnd1]. }
  assert (HF2 : ForallOrdPairs Rdisj (map o_bait (b_store b2))) by (rewrite HB2; exact HF1).
  assert (Ht2 : forall bait, In bait all -> must inp bait -> In bait (map o_bait (b_store b2))).
  { intros bait Hba Hm. rewrite HB2. destruct (Ht1 bait Hba Hm) as [[] | X]. exact X. }
  destruct (UniqueNames.discard_loop_labs _ _ _ _ Hs2) as (Hl2 & _ & Hn2).
  (* C. the cuts *)
  destruct (cut_remaining_progress inp repaired eq_refl Hids Hidpos Hwf (bt_of (b_store b2)) b2)
    as (b3 & Hs3 & Hn3).
  { destruct HI2 as (_ & _ & (_ & F2 & _) & _). exact F2. }
  { exact (ready_at_cut inp err all Hids Hposr Hvalid Hdisj Hnext Hprev b2 HI2 HS2 HF2 Hnd2 HL2 HH2 HK2 Ht2). }
  rewrite Hs3. cbn [bind].
  (* D. the haplotigs are renamed by size; the left-over scaffolds *)
  destruct (UniqueNames.cut_remaining_labs _ _ _ Hs3) as (Hl3 & _ & _).
  assert (Eh : Forall (fun id => 0 <= id < zlen (b_store b3)) (nm_hap_scaffolds (b_namer b3))).
  { rewrite Hn3, Hn2. apply (f_equal (@length _)) in Hl2, Hl3. rewrite !map_length in Hl2, Hl3.
    unfold zlen in *. rewrite Hl3, Hl2. exact Hn1. }
  destruct (rename_results_ok _ _ Eh) as (st & Hst & _). rewrite Hst. cbn [bind].
  destruct (add_missing_fold_ok repaired g (b_found (with_store b3 st)) inp
              (b_namer (with_store b3 st)) [] Hunt') as (nl & Hnl).
  rewrite Hnl. cbn [bind]. eexists. reflexivity.
Qed.

(* proved for baits that are untagged OR tagged "Painted" only (the tag changes
   what the namer does, not the geometry); the untagged statement is the
   corollary below, the Painted one is Proofs/CompletionPainted.v *)
Lemma completion_core : forall g prefix n d input pretext,
  0 < d -> d <= n ->
  Forall input_ok input ->
  NoDup (map fst input) ->
  NoDup (map key_of (in_frags input)) ->
  Forall (fun f => f_tags f = []) (in_frags input) ->
  Forall (fun p => exists b t, snd p = RF b :: t) pretext ->
  Forall (fun b => (f_tags b = [] \/ f_tags b = [s "Painted"]) /\ (f_strand b = 1 \/ f_strand b = -1)
                   /\ In (f_name b) (map fst input)) (baits_of pretext) ->
  Forall (scaffold_tiled n d (baits_of pretext)) input ->
  exists rs, remap_to_input repaired g prefix (n, d) input pretext = Ok rs.
Proof.
  intros g prefix n d input pretext Hd Hdn Hin Hnm Hkeys0 Hunt Hpre Hb Htile.
  apply completion_core_gen; try assumption.
  - eapply Forall_impl; [|exact Hb]. intros b (_ & _ & H). exact H.
  - intros Hne Hvalid.
    destruct (pretext_progress (number_input input 0) (error_length (n, d)) pretext
                (mkB [] [] [] [] (new_namer prefix) 0) Hne Hpre) as (b1 & Hs1 & Hn1).
    { rewrite Forall_forall in *. intros b Hbin. destruct (Hb b Hbin) as (T & _ & N).
      split; [exact T|]. split; [apply Hvalid; exact Hbin|]. rewrite number_input_fst. exact N. }
    exists b1. split; [exact Hs1|]. rewrite Hn1. constructor.
Qed.

Theorem completion_of_tiling_maps : completion_statement'.
Proof.
  intros g prefix n d input pretext Hd Hdn Hin Hnm Hkeys0 Hunt Hpre Hb Htile.
  apply completion_core; try assumption.
  eapply Forall_impl; [|exact Hb]. intros b (T & H). split; [left; exact T | exact H].
Qed.

(* ================================================ the added hypothesis is needed *)
Module Refutation.
  Definition g10 := mkGap 10 (s "scaffold").
  Definition A := mkFrag 0 (s "cA") 1 100 1 [].
  (* a 1 bp last contig, beyond the (rounded) end of the map, carrying two chromosome-like tags *)
  Definition C := mkFrag 0 (s "cC") 1 1 1 [s "A1"; s "B2"].
  Definition input := [(s "scaf1", [RF A; RF C])].
  Definition bt := mkFrag 0 (s "scaf1") 1 100 1 [].
  Definition pretext := [(s "P1", [RF bt])].

  Lemma run : remap_to_input repaired g10 (s "SUPER_") (2, 1) input pretext = Err TaggingError.
  Proof. vm_compute. reflexivity. Qed.
End Refutation.

Theorem completion_statement_refuted : ~ completion_statement.
Proof.
  intros H.
  destruct (H Refutation.g10 (s "SUPER_") 2 1 Refutation.input Refutation.pretext) as (rs & Hrs).
  - lia.
  - lia.
  - constructor; [|constructor]. unfold input_ok. cbn [snd Refutation.input].
    split; [discriminate|]. split; [repeat constructor; cbn; lia|].
    split; [eexists _, _; reflexivity|]. split; [exists Refutation.C, [RF Refutation.A]; reflexivity|].
    repeat (apply Forall_cons; [split; cbn; lia|]). apply Forall_nil.
  - cbn. repeat constructor; cbn; intuition discriminate.
  - cbn. repeat constructor; cbn; intuition discriminate.
  - repeat constructor. eexists _, _. reflexivity.
  - repeat constructor; cbn; auto.
  - constructor; [|constructor]. right. exists [Refutation.bt], 100.
    split; [apply Permutation_refl|]. split; [cbn; lia|]. split; [vm_compute; reflexivity|].
    left. reflexivity.
  - rewrite Refutation.run in Hrs. discriminate.
Qed.

(* ============================================================== an instance *)
(* One scaffold  A(100,+) gap(10) B(300,-) gap(10) C(100,+), 520 bp, texel 3.5 bp
   (error length 4).  The map shows it in three pieces 1-200 | 201-350 | 351-520;
   the reverse-strand contig B (scaffold 111-410) spans all three, the middle
   piece lies wholly inside it.  The pieces are shown out of order, two of
   them reversed, grouped into two Pretext scaffolds. *)
Module ThreePieces.
  Definition g10 := mkGap 10 (s "scaffold").
  Definition A := mkFrag 0 (s "cA") 1 100 1 [].
  Definition B := mkFrag 0 (s "cB") 1 300 (-1) [].
  Definition C := mkFrag 0 (s "cC") 1 100 1 [].
  Definition input := [(s "scaf1", [RF A; RG g10; RF B; RG g10; RF C])].
  Definition b1 := mkFrag 0 (s "scaf1") 1 200 (-1) [].
  Definition b2 := mkFrag 0 (s "scaf1") 201 350 1 [].
  Definition b3 := mkFrag 0 (s "scaf1") 351 520 (-1) [].
  Definition pretext := [(s "P1", [RF b3]); (s "P2", [RF b2; RF b1])].
End ThreePieces.

Example three_piece_map_completes :
  exists rs, remap_to_input repaired ThreePieces.g10 (s "SUPER_") (7, 2)
                            ThreePieces.input ThreePieces.pretext = Ok rs.
Proof.
  apply completion_of_tiling_maps.
  - lia.
  - lia.
  - constructor; [|constructor]. unfold input_ok. cbn [snd ThreePieces.input].
    split; [discriminate|]. split; [repeat constructor; cbn; lia|].
    split; [eexists _, _; reflexivity|].
    split; [exists ThreePieces.C, [RF ThreePieces.A; RG ThreePieces.g10; RF ThreePieces.B; RG ThreePieces.g10];
            reflexivity|].
    repeat (apply Forall_cons; [split; cbn; lia|]). apply Forall_nil.
  - cbn. repeat constructor; cbn; intuition discriminate.
  - cbn. repeat constructor; cbn; intuition discriminate.
  - repeat constructor.
  - repeat constructor; eexists _, _; reflexivity.
  - cbn. repeat (apply Forall_cons; [split; [reflexivity|split; [cbn; lia | cbn; auto]]|]). apply Forall_nil.
  - constructor; [|constructor]. right.
    exists [ThreePieces.b1; ThreePieces.b2; ThreePieces.b3], 520.
    split.
    { replace (filter _ _) with (rev [ThreePieces.b1; ThreePieces.b2; ThreePieces.b3])
        by (vm_compute; reflexivity).
      apply Permutation_sym, Permutation_rev. }
    split; [cbn; lia|]. split; [vm_compute; reflexivity|].
    right. repeat constructor; cbn; lia.
Qed.

(* the same run, by computation: two cuts, nothing left over *)
Example three_piece_map_by_computation :
  exists rs, remap_to_input repaired ThreePieces.g10 (s "SUPER_") (7, 2)
                            ThreePieces.input ThreePieces.pretext = Ok rs
             /\ b_cuts (rs_b rs) = 2 /\ rs_left rs = [].
Proof. eexists. split; [vm_compute; reflexivity|]. split; vm_compute; reflexivity. Qed.

Print Assumptions completion_of_tiling_maps.
Print Assumptions completion_statement_refuted.
Print Assumptions three_piece_map_completes.
