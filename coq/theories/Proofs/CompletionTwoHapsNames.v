(* What the output of a well-paired two-haplotype map looks like: both
   homologues of a pair carry the same chromosome number, numbers go by
   non-increasing length of the FIRST-haplotype scaffold (ties in map order). *)
From Tola Require Import Py.Base Py.Dec Py.Sort Model.Fragment Model.Scaffold Model.Lookup
  Model.OverlapResult Model.NaturalKey Model.Namer Model.Remap Model.RemapSpec
  Proofs.BaseLemmas Proofs.OverlapResult Proofs.RemapHead Proofs.PipelineInv Proofs.CoreKept
  Proofs.Junctions Proofs.Routing Proofs.NaturalKey Proofs.Naming Proofs.UniqueNames
  Proofs.CompletionLookup Proofs.CompletionTail Proofs.Completion Proofs.MultiHap
  Proofs.CompletionPainted Proofs.CompletionTagged Proofs.ChromosomeNumbersHead
  Proofs.CompletionTwoHapsTail Proofs.CompletionTwoHapsGlue Proofs.CompletionTwoHapsExist
  Proofs.CompletionTwoHaps.
From Tola Require Proofs.ChromosomeNumbers Proofs.RoutingEndToEnd.
From Coq Require Import Lia ZifyBool Permutation Bool Sorted.

(* ------------------------------------------------ A. the items of the run *)
Lemma two_hap_run_items : forall g prefix n d input pretext h1 h2 (hapf : str -> str) k rs fused0,
  0 < d -> d <= n ->
  Forall input_ok input -> NoDup (map fst input) ->
  NoDup (map key_of (in_frags input)) ->
  Forall (fun f => f_tags f = []) (in_frags input) ->
  Forall (fun p => exists b t, snd p = RF b :: t) pretext ->
  Forall (fun b => (f_strand b = 1 \/ f_strand b = -1) /\ In (f_name b) (map fst input)) (baits_of pretext) ->
  Forall (scaffold_tiled n d (baits_of pretext)) input ->
  lower h1 <> lower h2 -> is_hap_tag h1 = true -> is_hap_tag h2 = true ->
  hap_baits hapf pretext ->
  map hapf (map fst pretext) = alternating h1 h2 (S k) ->
  NoDup (map fst pretext) -> Forall (fun p => fst p <> []) pretext ->
  Forall (fun p => exists b src x, In b (frags_of (snd p)) /\ In (f_name b, src) (number_input input 0)
                     /\ in_core (error_length (n, d)) b x /\ contig_base src x) pretext ->
  remap_to_input repaired g prefix (n, d) input pretext = Ok rs ->
  fuse_all repaired g rs = Ok fused0 ->
  let fused1 := map (prefix_rank2 prefix) fused0 in
  (exists idxs, chr_items fused1 = combine (map hapf (map fst pretext)) idxs
                /\ Forall2 (at_off fused1 0) (map fst pretext) idxs)
  /\ (forall sc, In sc fused1 -> sc_rank sc = 1 ->
        sc_tag sc = None /\ exists nm, sc_name sc = nm /\ sc_orig sc = Some nm /\ sc_hap sc = Some (hapf nm) /\ hapf nm <> []).
Proof.
  intros g prefix n d input pretext h1 h2 hapf k rs fused0 Hd Hdn Hin Hnm Hkeys Hunt Hpre Hb Htile
    Hlow Hh1 Hh2 Hbaits Halt Hnd Hne Hcore Hrs HF fused1.
  set (names := map fst pretext) in *.
  assert (H12 : forall nm, In nm names -> is12 h1 h2 (hapf nm)).
  { intros nm I. assert (X : In (hapf nm) (alternating h1 h2 (S k))) by (rewrite <- Halt; apply in_map, I).
    clear -X. induction (S k) as [|m IH]; [destruct X|]. cbn [alternating] in X.
    destruct X as [X|[X|X]]; [left; auto | right; auto | exact (IH X)]. }
  pose proof (two_hap_store_labels g prefix (n, d) input pretext h1 h2 hapf rs Hpre Hlow Hh1 Hh2 Hbaits H12 Hne Hrs) as FQ.
  fold names in FQ.
  assert (HQ : Forall (fun sc => labP names hapf (sc_labs sc) \/ left3 (sc_labs sc)) fused0).
  { destruct (run_stages _ _ _ _ _ _ _ Hrs) as (fuel & b1 & b2 & b3 & st & nm & left & E1 & E2 & E3 & E4 & E5 & ->).
    assert (Hunt' : Forall (fun f => f_tags f = []) (in_frags (number_input input 0))).
    { apply number_input_frags; [intros f id P; exact P | exact Hunt]. }
    assert (O1 : SI h1 h2 names hapf b1).
    { apply (foldM_inv_in _ (SI h1 h2 names hapf) pretext) with (3 := E1).
      - intros s0 [pname prows] s1 Ia Hs E. unfold hap_baits in Hbaits. rewrite Forall_forall in Hpre, Hbaits, Hne.
        apply (one_pretext_SI h1 h2 Hlow Hh1 Hh2 names hapf (number_input input 0) (error_length (n, d)) s0 pname prows s1); try assumption.
        + apply (in_map fst _ _ Ia).
        + exact (Hne _ Ia).
        + exact (Hpre _ Ia).
        + exact (Hbaits _ Ia).
        + apply H12. apply (in_map fst _ _ Ia).
      - split; [|constructor]. repeat split. intros h _. left. reflexivity. }
    destruct (discard_loop_labs _ _ _ _ E2) as (L2 & _ & N2).
    destruct (cut_remaining_labs _ _ _ E3) as (L3 & _ & N3).
    destruct O1 as [(T1 & T2 & T3 & T4 & T5) F1].
    assert (Nb3 : b_namer b3 = b_namer b1) by congruence.
    assert (T3' : nm_target (b_namer b3) = false) by (rewrite Nb3; exact T1).
    pose proof (leftovers_fine repaired g _ _ _ _ _ _ Hunt' T3' (Forall_nil _) E5) as FL.
    pose proof (leftovers_left_lab repaired g _ _ _ _ _ _ (Forall_nil _) E5) as FL2.
    apply (fuse_all_labs (fun l => labP names hapf l \/ left3 l) repaired g _ fused0) with (3 := HF).
    - eapply Forall_impl; [|exact FQ]. intros r Hr. left. exact Hr.
    - cbn [rs_left]. rewrite Forall_forall in *. intros sc Isc. right.
      destruct (FL sc Isc) as [K1 K2]. destruct (FL2 sc Isc) as [_ K3]. unfold left3, sc_labs. auto. }
  destruct (fused_order repaired g prefix (n, d) input pretext rs fused0 Hnd Hrs HF) as [Hsorted _].
  pose proof (fuse_keys_nodup g rs fused0 HF) as Hkeysnd.
  rewrite Forall_forall in HQ.
  assert (Hr1 : forall sc, In sc fused0 -> sc_rank sc = 1 ->
            exists nm, In nm names /\ nm <> [] /\ sc_labs sc = lab_of hapf nm).
  { intros sc I R. destruct (HQ sc I) as [(nm & A & B & C)|L]; [exists nm; auto|].
    unfold left3, sc_labs in L. destruct L as (_ & L & _). lia. }
  split.
  - apply (items_by_names hapf fused1 0 [] names); cbn [app].
    + exact Hnd.
    + apply Forall_forall. intros sc1 I1 R1. apply in_map_iff in I1 as (sc0 & <- & I0).
      destruct (prefix_rank2_sbn prefix sc0) as (_ & _ & _ & Rk & Ro & _). rewrite Rk in R1.
      destruct (Hr1 sc0 I0 R1) as (nm & A & B & C). exists nm. split; [exact A|]. split; [exact B|].
      unfold sc_labs, lab_of in C. injection C as _ Ct Ch _ Co. split; [congruence|].
      rewrite (same_but_name_asm_k _ _ (prefix_rank2_sbn prefix sc0)). unfold asm_k, asm_key_of.
      rewrite Ct, Ch. change (truthy None) with false. cbv iota.
      pose proof (hap_tag_nonempty _ (is12_hap h1 h2 Hh1 Hh2 _ (H12 nm A))) as Xne.
      destruct (hapf nm) as [|c0 t0]; [congruence | reflexivity].
    + unfold fused1. rewrite map_map.
      erewrite map_ext; [exact Hsorted|]. intro sc0. unfold skey.
      destruct (prefix_rank2_sbn prefix sc0) as (_ & _ & _ & _ & Ro & _). rewrite Ro. reflexivity.
    + intros i j a b Ea Eb Ra Rb Eo. unfold fused1 in Ea, Eb. rewrite nth_error_map in Ea, Eb.
      destruct (nth_error fused0 i) as [a0|] eqn:Ia; [|discriminate].
      destruct (nth_error fused0 j) as [b0|] eqn:Ib; [|discriminate].
      cbn [option_map] in Ea, Eb. injection Ea as <-. injection Eb as <-.
      destruct (prefix_rank2_sbn prefix a0) as (_ & _ & _ & Rka & Roa & _).
      destruct (prefix_rank2_sbn prefix b0) as (_ & _ & _ & Rkb & Rob & _).
      rewrite Rka in Ra. rewrite Rkb in Rb. rewrite Roa, Rob in Eo.
      destruct (Hr1 a0 (nth_error_In _ _ Ia) Ra) as (na & _ & _ & Ca).
      destruct (Hr1 b0 (nth_error_In _ _ Ib) Rb) as (nb & _ & _ & Cb).
      destruct (Nat.eq_dec i j) as [E|NE]; [exact E|]. exfalso.
      apply (NoDup_map_nth fuse_key_of fused0 i j a0 b0 Hkeysnd NE Ia Ib).
      unfold sc_labs, lab_of in Ca, Cb. injection Ca as Ca1 Ca2 Ca3 _ Ca5. injection Cb as Cb1 Cb2 Cb3 _ Cb5.
      assert (na = nb) by congruence. subst nb.
      unfold fuse_key_of, key_of_piece. congruence.
    + intros nm Inm. apply in_map_iff in Inm as (p & <- & Ip).
      rewrite Forall_forall in Hcore. destruct (Hcore p Ip) as (b & src & x & Ib & Hsrc & Hc & Hbase).
      assert (Hnamed : Forall (fun b => In (f_name b) (map fst input)) (baits_of pretext)).
      { eapply Forall_impl; [|exact Hb]. intros b0 (_ & H). exact H. }
      destruct (core_scaffold_in_fused (labP names hapf) g prefix n d input pretext rs fused0
                  Hd Hdn Hin Hnm Hkeys Hnamed Htile Hrs HF FQ p b src x Ip Ib Hsrc Hc Hbase)
        as (r & v & Hr & Eo & Iv & Nv & (nv & _ & _ & Lv)).
      rewrite Forall_forall in FQ. destruct (FQ r Hr) as (nr & _ & _ & Lr).
      unfold o_labs, lab_of in Lr. injection Lr as Lr1 _ _ _ Lr5.
      assert (nr = fst p) by congruence. subst nr.
      unfold sc_labs, lab_of in Lv. injection Lv as Lv1 _ _ Lv4 Lv5.
      assert (nv = fst p) by congruence. subst nv.
      exists (prefix_rank2 prefix v).
      destruct (prefix_rank2_sbn prefix v) as (_ & _ & _ & Rk & Ro & _).
      split; [apply in_map, Iv|]. split; congruence.
  - intros sc1 I1 R1. apply in_map_iff in I1 as (sc0 & <- & I0).
    destruct (prefix_rank2_sbn prefix sc0) as (_ & St & Sh & Rk & Ro & _). rewrite Rk in R1.
    destruct (Hr1 sc0 I0 R1) as (nm & A & B & C).
    unfold sc_labs, lab_of in C. injection C as Cn Ct Ch _ Co.
    split; [congruence|]. exists nm. split; [|split; [congruence|split; [congruence|]]].
    + unfold prefix_rank2. assert (Q : (sc_rank sc0 =? 2) = false) by lia. rewrite Q. exact Cn.
    + exact (hap_tag_nonempty _ (is12_hap h1 h2 Hh1 Hh2 _ (H12 nm A))).
Qed.

(* ---------------------------------------------------- B. the pairs, explicit *)
Notation sub2 := ((str * list nat) * (str * list nat))%type (only parsing).
Fixpoint pairs_of (names : list str) (idxs : list nat) : list sub2 :=
  match names, idxs with
  | n1 :: n2 :: ns, i1 :: i2 :: is' => ((n1, [i1]), (n2, [i2])) :: pairs_of ns is'
  | _, _ => []
  end.

(* pair j: Pretext scaffolds 2j and 2j+1, the fused scaffolds painted in them *)
Definition pair_at (l : list scaffold) (names : list str) (hapf : str -> str) h1 h2 (j : nat) (p : sub2) : Prop :=
  exists n1 i1 n2 i2 s1 s2, p = ((n1, [i1]), (n2, [i2]))
    /\ nth_error names (2 * j) = Some n1 /\ nth_error names (2 * j + 1) = Some n2
    /\ hapf n1 = h1 /\ hapf n2 = h2
    /\ nth_error l i1 = Some s1 /\ sc_orig s1 = Some n1
    /\ nth_error l i2 = Some s2 /\ sc_orig s2 = Some n2.

Lemma pair_up_explicit : forall (l : list scaffold) (hapf : str -> str) h1 h2 k (names : list str) (idxs : list nat),
  map hapf names = alternating h1 h2 k -> Forall2 (at_off l 0) names idxs ->
  length (pairs_of names idxs) = k
  /\ combine (alternating h1 h2 k) idxs = items_of (map (chrom2 h1 h2) (pairs_of names idxs))
  /\ Forall (fun p => sub_ok l (fst p) /\ sub_ok l (snd p)) (pairs_of names idxs)
  /\ (forall j p, nth_error (pairs_of names idxs) j = Some p -> pair_at l names hapf h1 h2 j p).
Proof.
  intros l hapf h1 h2. induction k as [|k IH]; intros names idxs L F2.
  - destruct names; [|discriminate]. inversion F2; subst. cbn. repeat split; try constructor.
    intros [|j] p H; discriminate.
  - destruct names as [|n1 [|n2 names]]; try discriminate. cbn [map alternating] in L.
    injection L as L1 L2 L.
    inversion F2 as [|? i1 ? idxs1 P1 F2']; subst. inversion F2' as [|? i2 ? idxs2 P2 F2'']; subst.
    destruct (IH names idxs2 L F2'') as (Lp & E & Fp & Hp).
    destruct P1 as (N1 & _ & sc1 & H1 & O1). destruct P2 as (N2 & _ & sc2 & H2 & O2).
    rewrite Nat.sub_0_r in H1, H2.
    cbn [pairs_of]. split; [cbn [length]; lia|]. split; [|split].
    + cbn [alternating combine map]. rewrite E. reflexivity.
    + constructor; [|exact Fp]. cbn [fst snd].
      split; (split; [assumption|]; split; [discriminate|]; constructor; [|constructor]; cbn [fst]).
      * exists sc1. auto.
      * exists sc2. auto.
    + intros [|j] p H; cbn [nth_error] in H.
      * injection H as <-. exists n1, i1, n2, i2, sc1, sc2. repeat split; auto.
      * destruct (Hp j p H) as (m1 & j1 & m2 & j2 & s1 & s2 & -> & A1 & A2 & A3).
        exists m1, j1, m2, j2, s1, s2. split; [reflexivity|].
        replace (2 * S j)%nat with (S (S (2 * j))) by lia.
        replace (S (S (2 * j)) + 1)%nat with (S (S (2 * j + 1))) by lia.
        cbn [nth_error]. auto.
Qed.

(* ------------------------------------------------------------ C. the output *)
Definition dsc : scaffold := mkScaffold [] [] None None 0 None [].
Definition hom_of (fused : list scaffold) (p : sub2) : scaffold * scaffold :=
  (nth (first_idx (fst p)) fused dsc, nth (first_idx (snd p)) fused dsc).

Theorem two_haplotype_maps_names : forall g prefix n d input pretext h1 h2 (hapf : str -> str) k,
  0 < d -> d <= n ->
  Forall input_ok input -> NoDup (map fst input) ->
  NoDup (map key_of (in_frags input)) ->
  Forall (fun f => f_tags f = []) (in_frags input) ->
  Forall (fun f => f_strand f = 1 \/ f_strand f = -1) (in_frags input) ->
  Forall (fun p => exists b t, snd p = RF b :: t) pretext ->
  Forall (fun b => (f_strand b = 1 \/ f_strand b = -1) /\ In (f_name b) (map fst input)) (baits_of pretext) ->
  Forall (scaffold_tiled n d (baits_of pretext)) input ->
  lower h1 <> lower h2 -> is_hap_tag h1 = true -> is_hap_tag h2 = true ->
  hap_baits hapf pretext ->
  map hapf (map fst pretext) = alternating h1 h2 (S k) ->
  NoDup (map fst pretext) -> Forall (fun p => fst p <> []) pretext ->
  Forall (fun p => exists b src x, In b (frags_of (snd p)) /\ In (f_name b, src) (number_input input 0)
                     /\ in_core (error_length (n, d)) b x /\ contig_base src x) pretext ->
  exists o (homs : list (scaffold * scaffold)),
    remap repaired g prefix (n, d) input pretext = Ok o
    (* one pair of output scaffolds per pair of Pretext scaffolds, in map order *)
    /\ length homs = S k
    /\ (forall j sc1 sc2, nth_error homs j = Some (sc1, sc2) ->
          sc_orig sc1 = nth_error (map fst pretext) (2 * j)
          /\ sc_orig sc2 = nth_error (map fst pretext) (2 * j + 1)
          /\ sc_rank sc1 = 1 /\ sc_rank sc2 = 1
          /\ (exists a, In a (out_asms o) /\ oa_key a = Some h1 /\ In sc1 (oa_scaffolds a))
          /\ (exists a, In a (out_asms o) /\ oa_key a = Some h2 /\ In sc2 (oa_scaffolds a)))
    (* the pair at rank kk by non-increasing first-haplotype length (stable: ties in map order)
       is chromosome kk+1 in BOTH haplotypes *)
    /\ (forall kk sc1 sc2,
          nth_error (sort_by_Z_desc (fun p => frags_length (sc_rows (fst p))) homs) kk = Some (sc1, sc2) ->
          sc_name sc1 = prefix ++ str_of_Z (Z.of_nat kk + 1)
          /\ sc_name sc2 = prefix ++ str_of_Z (Z.of_nat kk + 1)).
Proof.
  intros g prefix n d input pretext h1 h2 hapf k Hd Hdn Hin Hnm Hkeys Hunt Hpm Hpre Hb Htile
    Hlow Hh1 Hh2 Hbaits Halt Hnd Hne Hcore.
  destruct (two_haplotype_maps_complete g prefix n d input pretext h1 h2 hapf k Hd Hdn Hin Hnm Hkeys Hunt Hpm
              Hpre Hb Htile Hlow Hh1 Hh2 Hbaits Halt Hnd Hne Hcore) as (o & Ho).
  destruct (Proofs.ChromosomeNumbers.remap_stages _ _ _ _ _ _ Ho) as (rs & fused0 & fused & Hrs & HF & NC & Pm).
  destruct (Proofs.RoutingEndToEnd.routing_end_to_end g prefix (n, d) input pretext o rs Hrs Ho) as (_ & _ & Hkey).
  destruct (two_hap_run_items g prefix n d input pretext h1 h2 hapf k rs fused0 Hd Hdn Hin Hnm Hkeys Hunt
              Hpre Hb Htile Hlow Hh1 Hh2 Hbaits Halt Hnd Hne Hcore Hrs HF) as [(idxs & Eitems & F2) Hlab].
  set (fused1 := map (prefix_rank2 prefix) fused0) in *. set (names := map fst pretext) in *.
  assert (Hdiff : h1 <> h2) by (intro E; apply Hlow; rewrite E; reflexivity).
  destruct (pair_up_explicit fused1 hapf h1 h2 (S k) names idxs Halt F2) as (Lp & E & Fp & Hp).
  set (pairs := pairs_of names idxs) in *.
  destruct pairs as [|p0 pairs'] eqn:Epairs; [discriminate Lp|].
  rewrite Halt, E in Eitems.
  assert (Hndi : NoDup (map snd (items_of (map (chrom2 h1 h2) (p0 :: pairs'))))).
  { rewrite <- Eitems. apply chr_items_nodup. }
  destruct (two_hap_names prefix fused1 h1 h2 p0 pairs' Hdiff Fp Hndi) as (fused' & NC' & [Hsame _] & Hnames).
  rewrite Eitems in NC. rewrite NC' in NC. injection NC as ->.
  (* every pair, in the final list *)
  assert (Hpair : forall j p, nth_error (p0 :: pairs') j = Some p ->
            exists n1 i1 n2 i2 s1 s2 t1 t2, p = ((n1, [i1]), (n2, [i2]))
              /\ nth_error names (2 * j) = Some n1 /\ nth_error names (2 * j + 1) = Some n2
              /\ nth_error fused1 i1 = Some s1 /\ nth_error fused1 i2 = Some s2
              /\ sc_name s1 = n1 /\ sc_name s2 = n2
              /\ nth_error fused i1 = Some t1 /\ nth_error fused i2 = Some t2
              /\ same_but_name s1 t1 /\ same_but_name s2 t2
              /\ sc_orig s1 = Some n1 /\ sc_orig s2 = Some n2
              /\ sc_rank s1 = 1 /\ sc_rank s2 = 1
              /\ sc_tag s1 = None /\ sc_tag s2 = None /\ sc_hap s1 = Some h1 /\ sc_hap s2 = Some h2
              /\ h1 <> [] /\ h2 <> []).
  { intros j p Hj. destruct (Hp j p Hj) as (n1 & i1 & n2 & i2 & s1 & s2 & -> & A1 & A2 & A3 & A4 & A5 & A6 & A7 & A8).
    destruct (Forall2_nth_error _ _ _ Hsame i1 s1 A5) as (t1 & T1 & S1).
    destruct (Forall2_nth_error _ _ _ Hsame i2 s2 A7) as (t2 & T2 & S2).
    assert (R1 : sc_rank s1 = 1 /\ sc_rank s2 = 1).
    { assert (I1 : In (h1, i1) (chr_items fused1)).
      { rewrite Eitems. apply in_flat_map. exists (chrom2 h1 h2 ((n1, [i1]), (n2, [i2]))).
        split; [apply in_map; eapply nth_error_In; exact Hj|]. cbn. auto. }
      assert (I2 : In (h2, i2) (chr_items fused1)).
      { rewrite Eitems. apply in_flat_map. exists (chrom2 h1 h2 ((n1, [i1]), (n2, [i2]))).
        split; [apply in_map; eapply nth_error_In; exact Hj|]. cbn. auto. }
      apply chr_items_in in I1 as (_ & x1 & X1 & X2 & _). apply chr_items_in in I2 as (_ & x2 & Y1 & Y2 & _).
      rewrite Nat.sub_0_r in X1, Y1. split; congruence. }
    destruct R1 as [R1 R2].
    destruct (Hlab s1 (nth_error_In _ _ A5) R1) as (Tg1 & m1 & Nm1 & Om1 & Hm1 & Ne1).
    destruct (Hlab s2 (nth_error_In _ _ A7) R2) as (Tg2 & m2 & Nm2 & Om2 & Hm2 & Ne2).
    assert (Em1 : m1 = n1) by congruence. assert (Em2 : m2 = n2) by congruence.
    rewrite Em1 in Nm1, Hm1, Ne1. rewrite Em2 in Nm2, Hm2, Ne2.
    rewrite A3 in Hm1, Ne1. rewrite A4 in Hm2, Ne2.
    destruct S1 as (S1a & S1b & S1c & S1d & S1e & S1f). destruct S2 as (S2a & S2b & S2c & S2d & S2e & S2f).
    exists n1, i1, n2, i2, s1, s2, t1, t2. repeat split; try tauto; try assumption. }
  exists o, (map (hom_of fused) (p0 :: pairs')). split; [exact Ho|]. split; [rewrite map_length; exact Lp|]. split.
  - intros j sc1 sc2 Hj. rewrite nth_error_map in Hj.
    destruct (nth_error (p0 :: pairs') j) as [p|] eqn:Ej; [|discriminate]. cbn [option_map] in Hj. assert (Hj' : hom_of fused p = (sc1, sc2)) by congruence. clear Hj. rename Hj' into Hj.
    destruct (Hpair j p Ej) as (n1 & i1 & n2 & i2 & s1 & s2 & t1 & t2 & -> & A1 & A2 & A5 & A7 & _ & _ & T1 & T2
                                 & S1 & S2 & O1 & O2 & R1 & R2 & G1 & G2 & P1 & P2 & E1 & E2).
    unfold hom_of, first_idx in Hj. cbn [fst snd hd] in Hj.
    rewrite (nth_error_nth _ _ dsc T1), (nth_error_nth _ _ dsc T2) in Hj. injection Hj as <- <-.
    destruct S1 as (_ & St1 & Sh1 & Sr1 & So1 & _). destruct S2 as (_ & St2 & Sh2 & Sr2 & So2 & _).
    split; [congruence|]. split; [congruence|]. split; [congruence|]. split; [congruence|].
    assert (M : forall t h, In t fused -> sc_tag t = None -> sc_hap t = Some h -> h <> [] ->
                  exists a, In a (out_asms o) /\ oa_key a = Some h /\ In t (oa_scaffolds a)).
    { intros t h It Tt Th Hn. apply (Permutation_in _ (Permutation_sym Pm)) in It.
      unfold Proofs.ChromosomeNumbers.out_scaffolds in It. apply in_flat_map in It as (a & Ia & Its).
      exists a. split; [exact Ia|]. split; [|exact Its]. rewrite (Hkey a t Ia Its), Tt, Th.
      unfold Proofs.RoutingEndToEnd.dest_key. destruct h; [congruence | reflexivity]. }
    split; [apply M; [eapply nth_error_In; exact T1 | congruence | congruence | exact E1]
           | apply M; [eapply nth_error_In; exact T2 | congruence | congruence | exact E2]].
  - intros kk sc1 sc2 Hk. unfold sort_by_Z_desc in Hk. rewrite stable_sort_map_comm in Hk.
    rewrite nth_error_map in Hk.
    match type of Hk with context [nth_error ?L kk] => destruct (nth_error L kk) as [p|] eqn:Ek end; [|discriminate].
    cbn [option_map] in Hk. assert (Hk' : hom_of fused p = (sc1, sc2)) by congruence. clear Hk. rename Hk' into Hk.
    assert (Ekey : forall x, In x (p0 :: pairs') ->
              frags_length (sc_rows (fst (hom_of fused x))) = sumZ (map (member_len fused1) (snd (fst x)))).
    { intros x Ix. apply In_nth_error in Ix as (j & Ej).
      destruct (Hpair j x Ej) as (n1 & i1 & n2 & i2 & s1 & s2 & t1 & t2 & -> & _ & _ & A5 & _ & _ & _ & T1 & T2 & S1 & _).
      unfold hom_of, first_idx. cbn [fst snd hd map]. rewrite (nth_error_nth _ _ dsc T1).
      unfold sumZ. cbn [fold_left]. unfold member_len. rewrite A5. destruct S1 as (Sr & _). rewrite Sr. lia. }
    rewrite (stable_sort_ext_in _ (fun a b => sumZ (map (member_len fused1) (snd (fst a)))
                                              >=? sumZ (map (member_len fused1) (snd (fst b))))) in Ek.
    2:{ intros x y Ix Iy. rewrite (Ekey x Ix), (Ekey y Iy). reflexivity. }
    assert (Ip : In p (p0 :: pairs')).
    { eapply Permutation_in; [apply (sort_desc_perm (fun a : sub2 => sumZ (map (member_len fused1) (snd (fst a)))))|].
      eapply nth_error_In. exact Ek. }
    apply In_nth_error in Ip as (j & Ej).
    destruct (Hpair j p Ej) as (n1 & i1 & n2 & i2 & s1 & s2 & t1 & t2 & -> & _ & _ & A5 & A7 & N1 & N2 & T1 & T2 & _).
    unfold hom_of, first_idx in Hk. cbn [fst snd hd] in Hk.
    rewrite (nth_error_nth _ _ dsc T1), (nth_error_nth _ _ dsc T2) in Hk. injection Hk as <- <-.
    pose proof (Hnames kk _ Ek (n1, [i1]) i1 s1 [] (or_introl eq_refl) (or_introl eq_refl) A5
                  ltac:(cbn [fst]; rewrite app_nil_r; exact N1) ltac:(intros j0 Hj0; cbn [length] in Hj0; lia)) as X1.
    pose proof (Hnames kk _ Ek (n2, [i2]) i2 s2 [] (or_intror eq_refl) (or_introl eq_refl) A7
                  ltac:(cbn [fst]; rewrite app_nil_r; exact N2) ltac:(intros j0 Hj0; cbn [length] in Hj0; lia)) as X2.
    rewrite X1 in T1. rewrite X2 in T2. injection T1 as <-. injection T2 as <-.
    cbn [with_name sc_name]. rewrite !app_nil_r. split; reflexivity.
Qed.

(* the two-pair map of CompletionTwoHaps.TwoHapEx, by computation *)
Example two_pair_map_names :
  exists o, remap repaired TwoHapEx.g10 (s "SUPER_") (2, 1) TwoHapEx.input TwoHapEx.pretext_ok = Ok o
    /\ map (fun a => (oa_key a, oa_curated a, map (fun sc => (sc_name sc, sc_orig sc)) (oa_scaffolds a))) (out_asms o)
       = [(Some (s "HAP1"), true, [(s "SUPER_1", Some (s "P1")); (s "SUPER_2", Some (s "P3"))]);
          (Some (s "HAP2"), true, [(s "SUPER_1", Some (s "P2")); (s "SUPER_2", Some (s "P4"))])].
Proof. eexists. split; vm_compute; reflexivity. Qed.

Print Assumptions two_haplotype_maps_names.
Print Assumptions two_pair_map_names.
