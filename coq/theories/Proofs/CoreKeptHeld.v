(* Deep cuts, part 1.  Two more invariants carried through the lookups and
   the overhang resolver, next to GoodU:
   - [Held]: a result that holds fragment g as a row is listed under g's key
     in the found table (the membership form of the bookkeeping that
     RemapHead states as a counting equation);
   - a generic per-result predicate K that survives every discard the
     pipeline can justify ([just_start] / [just_end]: the bait overlap of the
     dropped row is below the error length, or the overhang after the drop is
     above -3 error lengths and the result has more than one row).
   Also: a bait that meets a fragment row of its scaffold gets a stored
   result. *)
From Tola Require Import Py.Base Py.Sort Model.Fragment Model.Scaffold Model.Lookup
  Model.OverlapResult Model.OvrSpec Model.NaturalKey Model.Namer Model.Remap Model.RemapSpec
  Proofs.BaseLemmas Proofs.Lookup Proofs.OverlapResult Proofs.RemapHead Proofs.PipelineInv
  Proofs.CoreKeptGood Proofs.CoreKeptResolver Proofs.CoreKeptLookup.
From Coq Require Import Lia ZifyBool.

(* ------------------------------------------------- why a row may be dropped *)
Definition just_start (err : Z) (r : ovr) : Prop :=
  (exists ov, start_row_bait_overlap r = Ok ov /\ ov < err)
  \/ (zlen (o_rows r) <> 1 /\ exists v, overhang_if_start_removed r = Ok v /\ v > -3 * err).

Definition just_end (err : Z) (r : ovr) : Prop :=
  (exists ov, end_row_bait_overlap r = Ok ov /\ ov < err)
  \/ (zlen (o_rows r) <> 1 /\ exists v, overhang_if_end_removed r = Ok v /\ v > -3 * err).

Lemma improves_overhang' err st p r :
  p_improves st err p = Ok true -> get_ovr st (pr_rid p) = Ok r ->
  zlen (o_rows r) <> 1
  /\ exists v, match pr_kind p with
               | PStart => overhang_if_start_removed r
               | PEnd => overhang_if_end_removed r
               end = Ok v /\ v > -3 * err.
Proof.
  intros H Hg. unfold p_improves in H. rewrite Hg in H. cbv beta iota delta [bind] in H.
  destruct (zlen (o_rows r) =? 1) eqn:E1; [discriminate|]. split; [lia|].
  bind_inv H d Hd. destruct (d <? 0); [|discriminate].
  bind_inv H o Ho. destruct (o >? -3 * err) eqn:Egt; [|discriminate].
  unfold p_overhang_if_applied in Ho. rewrite Hg in Ho. cbn [bind] in Ho.
  exists o. split; [exact Ho | lia].
Qed.

Lemma fix_why_just err st pl p r :
  fix_why err st pl p -> get_ovr st (pr_rid p) = Ok r ->
  match pr_kind p with PStart => just_start err r | PEnd => just_end err r end.
Proof.
  intros [Hi | (q & v & _ & Hov & Hlt)] Hg.
  - destruct (improves_overhang' _ _ _ _ Hi Hg) as (Hz & v & Hv & Hgt).
    destruct (pr_kind p); right; (split; [exact Hz|]); exists v; split; assumption.
  - unfold p_bait_overlap in Hov. rewrite Hg in Hov. cbn [bind] in Hov.
    destruct (pr_kind p); left; exists v; split; assumption.
Qed.

(* ------------------------------------------------------------------- Held *)
Definition listed (found : list (fkey * (frag * list rid))) (k : fkey) (id : rid) : Prop :=
  exists f0 ids, aget key_eqb found k = Some (f0, ids) /\ In id ids.

Definition Held (st : list ovr) (found : list (fkey * (frag * list rid))) : Prop :=
  forall id r g, 0 <= id -> get_ovr st id = Ok r -> In (RF g) (o_rows r) ->
    listed found (key_of g) id.

Lemma aget_aset_same {V} (d : list (fkey * V)) k v : aget key_eqb (aset key_eqb d k v) k = Some v.
Proof.
  induction d as [|[k' v'] d IH]; cbn [aset aget].
  - rewrite key_eqb_refl. reflexivity.
  - destruct (key_eqb k k') eqn:E; cbn [aget]; rewrite E; [reflexivity | exact IH].
Qed.

Lemma store_found_one_mono id g found multi found' multi' k id0 :
  listed found k id0 -> store_found_one id (found, multi) g = (found', multi') ->
  listed found' k id0.
Proof.
  intros (f0 & ids & Hg & Hin) H. unfold store_found_one in H.
  destruct (aget key_eqb found (key_of g)) as [[f1 ids1]|] eqn:E.
  - injection H as <- _. destruct (key_eqb k (key_of g)) eqn:Ek.
    + apply key_eqb_eq in Ek. subst k. rewrite E in Hg. injection Hg as <- <-.
      exists f1, (ids1 ++ [id]). split; [apply aget_aset_same|]. apply in_or_app. left. exact Hin.
    + apply key_eqb_neq in Ek. exists f0, ids. split; [|exact Hin].
      rewrite (aget_aset_other key_eqb key_eqb_eq) by exact Ek. exact Hg.
  - injection H as <- _. exists f0, ids. split; [|exact Hin].
    apply (aget_app_Some key_eqb). exact Hg.
Qed.

Lemma store_found_one_reg id g found multi found' multi' :
  store_found_one id (found, multi) g = (found', multi') -> listed found' (key_of g) id.
Proof.
  intros H. unfold store_found_one in H.
  destruct (aget key_eqb found (key_of g)) as [[f1 ids1]|] eqn:E.
  - injection H as <- _. exists f1, (ids1 ++ [id]). split; [apply aget_aset_same|].
    apply in_or_app. right. left. reflexivity.
  - injection H as <- _. exists g, [id]. split; [|left; reflexivity].
    rewrite (aget_app_None key_eqb) by exact E. cbn [fst snd]. rewrite key_eqb_refl. reflexivity.
Qed.

Lemma store_found_fold_mono id k id0 : forall gs found multi found' multi',
  listed found k id0 -> fold_left (store_found_one id) gs (found, multi) = (found', multi') ->
  listed found' k id0.
Proof.
  induction gs as [|g gs IH]; intros found multi found' multi' Hl H; cbn [fold_left] in H.
  - injection H as <- _. exact Hl.
  - destruct (store_found_one id (found, multi) g) as [f1 m1] eqn:E1.
    eapply IH; [|exact H]. eapply store_found_one_mono; eassumption.
Qed.

Lemma store_found_fold_reg id : forall gs found multi found' multi' g,
  In g gs -> fold_left (store_found_one id) gs (found, multi) = (found', multi') ->
  listed found' (key_of g) id.
Proof.
  induction gs as [|g0 gs IH]; intros found multi found' multi' g Hin H; cbn [fold_left] in H; [destruct Hin|].
  destruct (store_found_one id (found, multi) g0) as [f1 m1] eqn:E1.
  destruct Hin as [-> | Hin].
  - eapply store_found_fold_mono; [|exact H]. eapply store_found_one_reg. exact E1.
  - eapply IH; eassumption.
Qed.

Lemma one_bait_Held inp err tags orig b bait b' :
  Held (b_store b) (b_found b) -> one_bait inp err tags orig b bait = Ok b' ->
  Held (b_store b') (b_found b').
Proof.
  intros HH H. destruct (one_bait_cases _ _ _ _ _ _ _ H) as (rows & fo & _ & _ & Hm).
  destruct fo as [fo|]; [|subst b'; exact HH].
  destruct Hm as (lab & r1 & _ & Hst & Hfm).
  intros id r g H0 Hg Hin. rewrite Hst in Hg.
  assert (Hlt : id < zlen (b_store b ++ [r1])) by (eapply get_ovr_lt; eassumption).
  rewrite zlen_app1 in Hlt.
  destruct (Z.eq_dec id (zlen (b_store b))) as [-> | Hne].
  - rewrite get_ovr_app_new in Hg. injection Hg as <-.
    destruct (o_rows r1) as [|x0 t0] eqn:Er1; [destruct Hin|]. rewrite <- Er1 in Hfm, Hin.
    destruct (fold_left _ _ _) as [found' multi'] eqn:Ef. injection Hfm as -> _.
    eapply store_found_fold_reg; [|exact Ef]. apply In_frags_of_iff. exact Hin.
  - rewrite get_ovr_app in Hg by lia. pose proof (HH id r g H0 Hg Hin) as Hl.
    destruct (o_rows r1) as [|x0 t0] eqn:Er1; [injection Hfm as -> _; exact Hl|].
    rewrite <- Er1 in Hfm.
    destruct (fold_left _ _ _) as [found' multi'] eqn:Ef. injection Hfm as -> _.
    eapply store_found_fold_mono; eassumption.
Qed.

Lemma Held_rows_eq st st' found :
  map o_rows st' = map o_rows st -> Held st found -> Held st' found.
Proof.
  intros Hm HH id r' g H0 Hg Hin.
  pose proof (get_ovr_nth_map o_rows _ _ _ Hg) as Hn. rewrite Hm, nth_error_map in Hn.
  destruct (nth_error st (Z.to_nat id)) as [r|] eqn:E; [|discriminate]. cbn [option_map] in Hn.
  injection Hn as Hn. apply (HH id r g H0); [unfold get_ovr; rewrite E; reflexivity|].
  rewrite Hn. exact Hin.
Qed.

(* rows only shrink *)
Definition shrinks (st st' : list ovr) : Prop :=
  forall id r', 0 <= id -> get_ovr st' id = Ok r' ->
    exists r, get_ovr st id = Ok r /\ incl (o_rows r') (o_rows r).

Lemma shrinks_refl st : shrinks st st.
Proof. intros id r' _ Hg. exists r'. split; [exact Hg | apply incl_refl]. Qed.

Lemma shrinks_trans a b c : shrinks a b -> shrinks b c -> shrinks a c.
Proof.
  intros H1 H2 id r' H0 Hg. destruct (H2 id r' H0 Hg) as (r1 & Hg1 & I1).
  destruct (H1 id r1 H0 Hg1) as (r & Hg0 & I0). exists r. split; [exact Hg0|].
  eapply incl_tran; eassumption.
Qed.

Lemma Held_shrinks st st' found : shrinks st st' -> Held st found -> Held st' found.
Proof.
  intros Hs HH id r' g H0 Hg Hin. destruct (Hs id r' H0 Hg) as (r & Hg0 & I0).
  apply (HH id r g H0 Hg0). apply I0. exact Hin.
Qed.

(* after the fix, the result no longer holds a fragment with the fix's key *)
Definition gone (st : list ovr) (p : premise) : Prop :=
  forall r' g, get_ovr st (pr_rid p) = Ok r' -> In (RF g) (o_rows r') -> key_of g <> pkey p.

Lemma gone_shrinks st st' p : 0 <= pr_rid p -> shrinks st st' -> gone st p -> gone st' p.
Proof.
  intros H0 Hs Hg r' g Hget Hin. destruct (Hs _ _ H0 Hget) as (r & Hg0 & I0).
  apply (Hg r g Hg0). apply I0. exact Hin.
Qed.

Lemma In_remove_first_other x y : forall l, In x l -> x <> y -> In x (remove_first Z.eqb y l).
Proof.
  induction l as [|z l IH]; intros Hin Hne; [destruct Hin|]. cbn [remove_first].
  destruct (y =? z) eqn:E.
  - destruct Hin as [-> | Hin]; [lia | exact Hin].
  - destruct Hin as [-> | Hin]; [left; reflexivity | right; apply IH; assumption].
Qed.

Lemma Held_bookkeeping st : forall fixes found multi found' multi',
  Held st found -> (forall p, In p fixes -> gone st p) ->
  foldM apply_fix_bookkeeping fixes (found, multi) = Ok (found', multi') ->
  Held st found'.
Proof.
  induction fixes as [|p fixes IH]; intros found multi found' multi' HH Hg H; cbn [foldM] in H.
  - injection H as <- _. exact HH.
  - bind_inv H acc Hacc. destruct acc as [found1 multi1].
    eapply IH; [| |exact H]; [|intros q Hq; apply Hg; right; exact Hq].
    unfold apply_fix_bookkeeping in Hacc. fold (pkey p) in Hacc.
    destruct (existsb (key_eqb (pkey p)) multi); [|injection Hacc as <- _; exact HH].
    destruct (aget key_eqb found (pkey p)) as [[f0 ids]|] eqn:Eg; [|discriminate].
    destruct (existsb (Z.eqb (pr_rid p)) ids); [|discriminate].
    injection Hacc as <- _.
    intros id r g H0 Hget Hin. destruct (HH id r g H0 Hget Hin) as (f1 & ids1 & Ha & Hi).
    destruct (key_eqb (key_of g) (pkey p)) eqn:Ek.
    + apply key_eqb_eq in Ek. rewrite Ek in *. rewrite Eg in Ha. injection Ha as <- <-.
      exists f0, (remove_first Z.eqb (pr_rid p) ids). split; [apply aget_aset_same|].
      apply In_remove_first_other; [exact Hi|]. intros ->.
      apply (Hg p (or_introl eq_refl) r g Hget Hin). exact Ek.
    + apply key_eqb_neq in Ek. exists f1, ids1. split; [|exact Hi].
      rewrite (aget_aset_other key_eqb key_eqb_eq) by exact Ek. exact Ha.
Qed.

Lemma NoDup_snoc_notin {A} (a : list A) x : NoDup (a ++ [x]) -> ~ In x a.
Proof.
  intros H Hin. apply (NoDup_app_disj a [x] x H Hin). left. reflexivity.
Qed.

Section Plus.
  Variable inp : list (str * list row).
  Variable err : Z.
  Variable all : list frag.
  Hypothesis Hids : NoDup (map f_id (in_frags inp)).
  Hypothesis Hidpos : Forall (fun f => 0 <= f_id f) (in_frags inp).
  Hypothesis Hkeys : NoDup (map key_of (in_frags inp)).
  Hypothesis Hnames : NoDup (map fst inp).
  Hypothesis Hposr : forall name src, In (name, src) inp -> pos_rows src.
  Hypothesis Herr : 1 <= err.
  Hypothesis Hall : Forall (fun b => 1 <= f_start b <= f_end b) all.

  Variable K : ovr -> Prop.
  Hypothesis K_ext : forall r r',
    o_bait r' = o_bait r -> o_rows r' = o_rows r -> o_start r' = o_start r -> o_end r' = o_end r ->
    K r -> K r'.
  Hypothesis K_ds : forall src r r',
    In (o_bait r) all -> In (f_name (o_bait r), src) inp -> GoodU err src r -> K r ->
    just_start err r -> discard_start r = Ok r' -> K r'.
  Hypothesis K_de : forall src r r',
    In (o_bait r) all -> In (f_name (o_bait r), src) inp -> GoodU err src r -> K r ->
    just_end err r -> discard_end r = Ok r' -> K r'.
  Hypothesis K_init : forall bait rows fo,
    In bait all -> In (f_name bait, rows) inp ->
    lookup_spec rows (f_start bait) (f_end bait) (Some fo) -> K (ovr_of_found bait fo).

  Definition KS (st : list ovr) : Prop := forall r, In r st -> K r.

  Lemma good_rows_nodup_keys name src r :
    In (name, src) inp -> GoodU err src r -> NoDup (map key_of (frags_of (o_rows r))).
  Proof.
    intros Hin [[E _] | (pre & post & Hsrc & _)]; [rewrite E; constructor|].
    pose proof (src_nodup_g key_of inp _ _ Hkeys Hin) as Hk.
    rewrite Hsrc, !frags_of_app, !map_app in Hk.
    apply NoDup_app_right in Hk. apply NoDup_app_left in Hk. exact Hk.
  Qed.

  Lemma trim_large_K src r r' :
    In (o_bait r) all -> In (f_name (o_bait r), src) inp -> GoodU err src r -> K r ->
    trim_large_overhangs r err = Ok r' -> K r'.
  Proof.
    intros Ha Hsrc HG HK H.
    assert (Hb : f_start (o_bait r) <= f_end (o_bait r)).
    { rewrite Forall_forall in Hall. pose proof (Hall _ Ha). lia. }
    apply trim_large_cases' in H. destruct H as (r1 & H1 & H2).
    assert (G1 : GoodU err src r1 /\ o_bait r1 = o_bait r /\ K r1).
    { destruct H1 as [-> | (Hd & Ho & ov & Hov & Hlt)]; [split; [exact HG | split; [reflexivity | exact HK]]|].
      destruct (GoodU_nonempty_head _ _ _ HG (discard_start_rows_head _ _ Hd)) as (f & t & Er).
      destruct (discard_start_good err src r r1 f t HG Er) as [G B]; [|exact Hd|].
      - eapply start_overlap_nocore; try eassumption; [lia|]. unfold start_overhang in Ho. lia.
      - split; [exact G|]. split; [exact B|].
        eapply K_ds; try eassumption. left. exists ov. split; assumption. }
    destruct G1 as (G1 & B1 & K1).
    destruct H2 as [-> | (Hd & Ho & ov & Hov & Hlt)]; [exact K1|].
    eapply (K_de src r1); try eassumption; try (rewrite B1; assumption).
    left. exists ov. split; assumption.
  Qed.

  (* ------------------------------------------------------------- one fix *)
  Lemma p_apply_plus st pl p st' :
    SG inp err all st -> KS st -> PLok st pl -> In p pl ->
    fix_why err st pl p -> p_apply st p = Ok st' ->
    KS st' /\ shrinks st st' /\ gone st' p.
  Proof.
    intros HS HK (Hv & _ & _) Hin Hwhy Happ.
    rewrite Forall_forall in Hv. pose proof (Hv p Hin) as (H0 & r & Hg & Hk).
    pose proof (fix_why_just _ _ _ _ _ Hwhy Hg) as Hj.
    unfold p_apply in Happ. rewrite Hg in Happ. cbn [bind] in Happ.
    bind_inv Happ r' Hr'. injection Happ as <-.
    pose proof (HS r (get_ovr_In _ _ _ Hg)) as (Ha & src & Hsrc & HG).
    pose proof (HK r (get_ovr_In _ _ _ Hg)) as HKr.
    pose proof (good_rows_nodup_keys _ _ _ Hsrc HG) as Hnk.
    assert (G : K r' /\ incl (o_rows r') (o_rows r)
                /\ forall g, In (RF g) (o_rows r') -> key_of g <> pkey p).
    { destruct (pr_kind p) eqn:Ek.
      - destruct Hk as (t & Er). split; [eapply K_ds; eassumption|].
        split; [intros x Hx; eapply discard_start_incl; eassumption|].
        destruct (discard_start_rows _ _ Hr') as (d & gaps & E & Hgp).
        rewrite E in Er. injection Er as -> _. rewrite E in Hnk.
        rewrite frags_of_RF in Hnk. cbn [map] in Hnk. inversion Hnk as [|? ? Hn _]; subst.
        intros g Hin' Eg. apply Hn. unfold pkey in Eg. rewrite <- Eg. apply in_map.
        apply In_frags_of_iff. apply in_or_app. right. exact Hin'.
      - destruct Hk as (t & Er). split; [eapply K_de; eassumption|].
        split; [intros x Hx; eapply discard_end_incl; eassumption|].
        destruct (discard_end_rows _ _ Hr') as (d & gaps & E & Hgp).
        rewrite E in Er. rewrite app_assoc in Er. apply app_inj_tail in Er. destruct Er as [_ ->].
        rewrite E, app_assoc, frags_of_app, map_app in Hnk. cbn [frags_of flat_map app map] in Hnk.
        apply NoDup_snoc_notin in Hnk.
        intros g Hin' Eg. apply Hnk. unfold pkey in Eg. rewrite <- Eg. apply in_map.
        apply In_frags_of_iff. apply in_or_app. left. exact Hin'. }
    destruct G as (G1 & G2 & G3). split; [|split].
    - intros y Hy. apply put_ovr_In in Hy. destruct Hy as [-> | Hy]; [exact G1 | apply HK; exact Hy].
    - intros id r2 Hid Hget. destruct (Z.eq_dec (pr_rid p) id) as [<- | Hne].
      + rewrite (get_put_same _ _ _ _ Hg) in Hget. injection Hget as <-. exists r. split; [exact Hg | exact G2].
      + rewrite get_put_other in Hget by assumption. exists r2. split; [exact Hget | apply incl_refl].
    - intros r2 g Hget Hin'. rewrite (get_put_same _ _ _ _ Hg) in Hget. injection Hget as <-.
      apply G3. exact Hin'.
  Qed.

  Lemma make_fixes_plus : forall pls st st' fixes,
    SG inp err all st -> ForallOrdPairs Rdisj (map o_bait st) -> KS st ->
    Forall (PLok st) pls -> ForallOrdPairs keys_apart pls ->
    make_fixes err st pls = Ok (st', fixes) ->
    KS st' /\ shrinks st st' /\ (forall p, In p fixes -> gone st' p).
  Proof.
    induction pls as [|pl pls IH]; intros st st' fixes HS HF HK Hv Hop H; cbn [make_fixes] in H.
    - injection H as <- <-. split; [exact HK|]. split; [apply shrinks_refl | intros p []].
    - bind_inv H r1 Hr1. destruct r1 as [st1 fx]. bind_inv H r2 Hr2. destruct r2 as [st2 fxs].
      injection H as <- <-.
      inversion Hv as [|? ? Hvpl Hvpls]; subst. inversion Hop as [|? ? Hap Hop']; subst.
      destruct (fix_one_good inp err all Hids Hposr Herr Hall _ _ _ _ HS HF Hvpl Hr1) as [HS1 HB1].
      assert (HF1 : ForallOrdPairs Rdisj (map o_bait st1)) by (rewrite HB1; exact HF).
      pose proof Hr1 as Hr1'. apply fix_one_cases' in Hr1'.
      destruct Hr1' as [(-> & ->) | (p & -> & Hpin & Happ & Hwhy)].
      + destruct (IH _ _ _ HS HF HK Hvpls Hop' Hr2) as (G1 & G2 & G3).
        split; [exact G1|]. split; [exact G2 | exact G3].
      + destruct (p_apply_plus _ _ _ _ HS HK Hvpl Hpin Hwhy Happ) as (HK1 & Hsh1 & Hgo1).
        pose proof Hvpl as (Hvp & _). rewrite Forall_forall in Hvp. pose proof (Hvp p Hpin) as Hpv.
        assert (Hv1 : Forall (PLok st1) pls).
        { rewrite Forall_forall in *. intros pl' Hpl'.
          destruct (Hvpls pl' Hpl') as (Q1 & Q2 & Q3). split; [|split; assumption].
          specialize (Hap pl' Hpl'). rewrite Forall_forall in *. intros q Hq.
          eapply pvalid_pres; [apply Q1; exact Hq | exact Hpv | | exact Happ].
          intros E. apply (Hap p q Hpin Hq). symmetry. exact E. }
        destruct (IH _ _ _ HS1 HF1 HK1 Hv1 Hop' Hr2) as (G1 & G2 & G3).
        split; [exact G1|]. split; [eapply shrinks_trans; eassumption|].
        intros q [<- | Hq]; [|apply G3; exact Hq].
        destruct Hpv as (P0 & _). eapply gone_shrinks; eassumption.
  Qed.

  (* --------------------------------------------------------- discard_loop *)
  Lemma discard_loop_plus : forall fuel b b',
    RemapHead.Inv inp b -> SG inp err all (b_store b) ->
    ForallOrdPairs Rdisj (map o_bait (b_store b)) -> NDI (b_found b) ->
    KS (b_store b) -> Held (b_store b) (b_found b) ->
    discard_loop fuel err b = Ok b' ->
    KS (b_store b') /\ Held (b_store b') (b_found b') /\ NDI (b_found b').
  Proof.
    induction fuel as [|fuel IH]; intros b b' HI HS HFp Hndi HK HH H; cbn [discard_loop] in H; [discriminate|].
    destruct (b_multi b) as [|k0 m0] eqn:Em.
    { injection H as <-. split; [exact HK|]. split; assumption. }
    rewrite <- Em in H. fold (round_premises b (b_multi b)) in H.
    bind_inv H pls Hpls. bind_inv H r Hr. destruct r as [st fixes].
    pose proof HI as (I1 & (A1 & A2) & HF & I4).
    pose proof HF as (F1 & F2 & F3 & F4).
    destruct (round_premises_ok inp Hids b HI _ _ F2 (incl_refl _) Hpls) as (G1 & G2 & _).
    pose proof (round_static b Hndi _ _ Hpls) as G3.
    set (pls' := filter (fun pl => match pl with [] => false | _ => true end) pls) in *.
    assert (G1' : Forall (Forall (pgood b)) pls').
    { apply Forall_forall. intros pl Hpl. apply filter_In in Hpl. rewrite Forall_forall in G1. apply G1. tauto. }
    assert (G2' : ForallOrdPairs keys_apart pls') by (apply FOP_filter; exact G2).
    assert (Hv : Forall (Forall (fun p => pvalid (b_store b) p /\ In (pr_rid p) (b_added b))) pls').
    { eapply Forall_impl; [|exact G1']. intros pl Hpl. eapply Forall_impl; [|exact Hpl].
      intros p (P1 & P2 & _). split; assumption. }
    assert (Hok : Forall (PLok (b_store b)) pls').
    { apply Forall_forall. intros pl Hpl. pose proof Hpl as Hpl0. apply filter_In in Hpl. destruct Hpl as [Hpl _].
      rewrite Forall_forall in G1', G3. destruct (G3 pl Hpl) as [S1 S2].
      split; [|split; assumption]. eapply Forall_impl; [|apply (G1' pl Hpl0)].
      intros p (P1 & _). exact P1. }
    destruct (make_fixes_ok inp err _ A1 (AddedOk_pos _ _ (conj A1 A2)) _ _ _ _ I1 Hv G2' Hr)
      as (M1 & M2 & M3 & M4 & M5).
    destruct (make_fixes_good inp err all Hids Hposr Herr Hall _ _ _ _ HS HFp Hok G2' Hr) as [HS' HB'].
    destruct (make_fixes_plus _ _ _ _ HS HFp HK Hok G2' Hr) as (HK' & Hsh & Hgo).
    pose proof (Held_shrinks _ _ _ Hsh HH) as HH'.
    assert (A2' : Forall (fun a => 0 <= a < zlen st) (b_added b)).
    { unfold zlen. rewrite M2. exact A2. }
    destruct fixes as [|p0 fx0] eqn:Efx.
    - injection H as <-. cbn [with_store b_store b_found]. split; [exact HK'|]. split; assumption.
    - rewrite <- Efx in *. clear Efx.
      bind_inv H fm Hfm. destruct fm as [found' multi'].
      assert (Hb : Forall (fix_booked (b_found b) (b_multi b)) fixes).
      { apply Forall_forall. intros p Hp. destruct (M4 p Hp) as (pl & Hpl & Hin).
        rewrite Forall_forall in G1'. specialize (G1' pl Hpl). rewrite Forall_forall in G1'.
        apply (G1' p Hin). }
      destruct (bookkeeping_ok inp _ _ _ _ _ _ HF M5 Hb Hfm) as (B1 & B2).
      pose proof (NDI_bookkeeping _ _ _ _ _ Hndi Hfm) as Hndi'.
      pose proof (Held_bookkeeping _ _ _ _ _ _ HH' Hgo Hfm) as HH''.
      apply (IH (mkB st (b_added b) found' multi' (b_namer b) (b_cuts b)) b'); cbn [b_store b_found].
      + unfold RemapHead.Inv. cbn [b_store b_added b_found b_multi].
        split; [exact M1|]. split; [split; assumption|]. split; [exact B1|].
        intros n x. pose proof (I4 n x). pose proof (M3 n x). pose proof (B2 n x). lia.
      + exact HS'.
      + rewrite HB'. exact HFp.
      + exact Hndi'.
      + exact HK'.
      + exact HH''.
      + exact H.
  Qed.

  (* -------------------------------------------------------------- lookups *)
  (* the bait meets a fragment row of the scaffold it names *)
  Definition must (bait : frag) : Prop :=
    exists src k, In (f_name bait, src) inp /\ frag_at src k
                  /\ meets src (f_start bait) (f_end bait) k.

  Definition Trk (b : bstate) (rem : list frag) : Prop :=
    forall bait, In bait all -> must bait -> In bait rem \/ In bait (SB b).

  Definition LK (b : bstate) (rem : list frag) : Prop :=
    KS (b_store b) /\ Held (b_store b) (b_found b) /\ incl rem all /\ Trk b rem.

  Lemma one_bait_LK tags orig b bait rest b' :
    LK b (bait :: rest) -> one_bait inp err tags orig b bait = Ok b' -> LK b' rest.
  Proof.
    intros (HK & HH & Hinc & Ht) H.
    pose proof (one_bait_Held _ _ _ _ _ _ _ HH H) as HH'.
    destruct (one_bait_cases _ _ _ _ _ _ _ H) as (rows & fo & Hrows & Hfo & Hm).
    assert (Hba : In bait all) by (apply Hinc; left; reflexivity).
    assert (Hbv : 1 <= f_start bait <= f_end bait) by (rewrite Forall_forall in Hall; apply Hall; exact Hba).
    pose proof (input_rows_In _ _ _ Hrows) as Hin.
    pose proof (Hposr _ _ Hin) as Hp.
    pose proof (find_overlaps_lookup _ _ _ _ Hp Hbv Hfo) as Hl.
    assert (Hinc' : incl rest all) by (intros x Hx; apply Hinc; right; exact Hx).
    destruct fo as [fo|].
    - destruct Hm as (lab & r1 & Htl & Hst & Hfm).
      set (r0 := set_labels (ovr_of_found bait fo) lab orig tags) in *.
      assert (G0 : GoodU err rows r0).
      { apply (GoodU_ext err rows (ovr_of_found bait fo)); try reflexivity.
        apply lookup_good; [lia | exact Hp | exact Hl]. }
      assert (K0 : K r0).
      { apply (K_ext (ovr_of_found bait fo)); try reflexivity. eapply K_init; eassumption. }
      assert (K1 : K r1) by (eapply (trim_large_K rows r0); eassumption).
      destruct (trim_large_good err rows r0 r1 ltac:(lia)) as [_ B1]; [cbn; lia | exact G0 | exact Htl|].
      change (o_bait r0) with bait in B1.
      split; [|split; [exact HH'|split; [exact Hinc'|]]].
      + intros r Hr. rewrite Hst in Hr. apply in_app_or in Hr.
        destruct Hr as [Hr | [<- | []]]; [apply HK; exact Hr | exact K1].
      + intros bait0 Hb0 Hm0. unfold SB. rewrite Hst, map_app. cbn [map]. rewrite B1.
        destruct (Ht bait0 Hb0 Hm0) as [[<- | Hr] | Hs].
        * right. apply in_or_app. right. left. reflexivity.
        * left. exact Hr.
        * right. apply in_or_app. left. exact Hs.
    - subst b'. split; [exact HK|]. split; [exact HH|]. split; [exact Hinc'|].
      intros bait0 Hb0 Hm0. destruct (Ht bait0 Hb0 Hm0) as [[<- | Hr] | Hs].
      + exfalso. destruct Hm0 as (src & k & Hsrc & Hf & Hmt).
        rewrite (input_rows_unique inp Hnames _ _ _ Hrows Hsrc) in *.
        cbn [lookup_spec] in Hl. exact (Hl k Hf Hmt).
      + left. exact Hr.
      + right. exact Hs.
  Qed.

  Lemma one_pretext_LK b psc rest b' :
    LK b (frags_of (snd psc) ++ baits rest) ->
    one_pretext_scaffold inp err b psc = Ok b' -> LK b' (baits rest).
  Proof.
    intros HL H. unfold one_pretext_scaffold in H. destruct psc as [pname prows]. cbn [snd] in HL.
    bind_inv H nm Hnm. bind_inv H b1 Hb1. bind_inv H st Hst. injection H as <-.
    assert (HL0 : LK (with_namer b nm) (frags_of prows ++ baits rest)) by exact HL.
    pose proof (foldM_inv_rem _ LK (one_bait_LK (fragment_tags prows) pname) _ _ _ _ HL0 Hb1)
      as (HK & HH & Hinc & Ht).
    assert (HB : map o_bait st = map o_bait (b_store b1)) by (eapply rename_results_baits; exact Hst).
    split; [|split; [|split; [exact Hinc|]]].
    - cbn [with_store b_store]. intros x Hx.
      destruct (rename_results_In _ _ _ Hst x Hx) as (r & Hr & [-> | (n & ->)]).
      + apply HK. exact Hr.
      + apply (K_ext r); try reflexivity. apply HK. exact Hr.
    - cbn [with_store b_store b_found]. eapply Held_rows_eq; [|exact HH].
      eapply rename_results_rows. exact Hst.
    - unfold Trk, SB in *. cbn [with_store b_store]. rewrite HB. exact Ht.
  Qed.

  Lemma pretext_LK pretext b0 b1 :
    LK b0 (baits pretext) -> foldM (one_pretext_scaffold inp err) pretext b0 = Ok b1 ->
    LK b1 [].
  Proof.
    intros HL H.
    apply (foldM_inv_rem (one_pretext_scaffold inp err) (fun b rem => LK b (baits rem))
             (fun s a rest s' => one_pretext_LK s a rest s') pretext [] b0 b1); [|exact H].
    rewrite app_nil_r. exact HL.
  Qed.

  Lemma LK_init nm : LK (mkB [] [] [] [] nm 0) all.
  Proof.
    split; [intros r []|]. split; [|split; [apply incl_refl|]].
    - intros id r g H0 Hg. unfold get_ovr in Hg. cbn [b_store] in Hg.
      destruct (Z.to_nat id); discriminate.
    - intros bait Hb _. left. exact Hb.
  Qed.
End Plus.
