(* Cache round trip: what index_fasta produces (the .fai index and the derived
   assembly) survives being written to and re-loaded from its two cache files. *)
From Tola Require Import Py.Base Py.Dec Model.Fragment Model.Scaffold Model.Fasta Model.Stream
  Model.FastaSpec Model.AgpTpf Model.AgpTpfSpec.
From Tola Require Import Proofs.BaseLemmas Proofs.Dec Proofs.AgpTpfRoundTrip Proofs.FastaIndex.
From Coq Require Import Lia ZifyBool.

(* ================================================================ characters *)
Definition nosp (x : str) : Prop := forallb (fun c => negb (is_space c)) x = true.

Lemma nosp_app x y : nosp x -> nosp y -> nosp (x ++ y).
Proof. unfold nosp. intros Hx Hy. rewrite forallb_app, Hx, Hy. reflexivity. Qed.

Lemma digits_nosp d : forallb is_digit d = true -> nosp d.
Proof.
  unfold nosp. induction d as [|c d IH]; [reflexivity|].
  cbn [forallb]. intro H. apply andb_true_iff in H as [H1 H2].
  rewrite (is_digit_not_space c H1), (IH H2). reflexivity.
Qed.

Lemma str_of_Z_nosp z : nosp (str_of_Z z).
Proof.
  unfold str_of_Z. destruct (Z.to_int z) as [u|u].
  - apply digits_nosp, chars_of_uint_digits.
  - change (nosp ([("-")%char] ++ chars_of_uint u)).
    apply nosp_app; [reflexivity | apply digits_nosp, chars_of_uint_digits].
Qed.

Lemma str_of_Z_nonempty z : str_of_Z z <> [].
Proof.
  destruct (Z_lt_le_dec z 0) as [Hneg|Hpos]; [|apply str_of_Z_digits, Hpos].
  destruct z as [|p|p]; try lia.
  change (str_of_Z (Z.neg p)) with ("-"%char :: str_of_Z (Z.pos p)). discriminate.
Qed.

Lemma space_ntl_false c : is_space c = false -> ntl c = true.
Proof.
  destruct c as [[] [] [] [] [] [] [] []]; vm_compute; intro H; try discriminate H; reflexivity.
Qed.

Lemma nosp_no_tab_lf x : nosp x -> no_tab_lf x.
Proof.
  unfold nosp, no_tab_lf. induction x as [|c x IH]; [reflexivity|].
  cbn [forallb]. intro H. apply andb_true_iff in H as [H1 H2].
  apply negb_true_iff in H1.
  change (ntl c && forallb (fun c => negb (Ascii.eqb c TAB) && negb (Ascii.eqb c LF)) x = true).
  rewrite (space_ntl_false c H1), (IH H2). reflexivity.
Qed.

Lemma nolf_app x y : nolf x -> nolf y -> nolf (x ++ y).
Proof. unfold nolf. intros Hx Hy. rewrite forallb_app, Hx, Hy. reflexivity. Qed.

Lemma nolf_tab_cons x : nolf x -> nolf (TAB :: x).
Proof. unfold nolf. intro H. cbn [forallb]. rewrite H. reflexivity. Qed.

(* ===================================================================== words *)
Lemma words_acc_word w : nosp w -> forall sp rest cur,
  is_space sp = true -> (cur <> [] \/ w <> []) ->
  words_acc (w ++ sp :: rest) cur = (rev cur ++ w) :: words_acc rest [].
Proof.
  unfold nosp. induction w as [|c w IH]; intros H sp rest cur Hsp Hne.
  - cbn [app words_acc]. rewrite Hsp, app_nil_r.
    destruct cur; [destruct Hne; congruence | reflexivity].
  - cbn [forallb] in H. apply andb_true_iff in H as [H1 H2]. apply negb_true_iff in H1.
    cbn [app words_acc]. rewrite H1, (IH H2 sp rest (c :: cur) Hsp) by (left; discriminate).
    cbn [rev]. rewrite <- app_assoc. reflexivity.
Qed.

Lemma words_word w sp rest : nosp w -> w <> [] -> is_space sp = true ->
  words_acc (w ++ sp :: rest) [] = w :: words_acc rest [].
Proof.
  intros Hw Hne Hsp. rewrite (words_acc_word w Hw sp rest [] Hsp) by (right; exact Hne).
  reflexivity.
Qed.

Lemma words_fai_row n i : nosp n -> n <> [] ->
  words (fai_row n i)
  = [n; str_of_Z (fi_length i); str_of_Z (fi_offset i); str_of_Z (fi_rpl i); str_of_Z (fi_mll i)].
Proof.
  intros Hn Hne. unfold words, fai_row.
  rewrite words_word by (try assumption; reflexivity).
  rewrite !words_word by (try apply str_of_Z_nosp; try apply str_of_Z_nonempty; reflexivity).
  reflexivity.
Qed.

(* ================================================================== one line *)
Lemma load_index_line_fai_row idx n i : nosp n -> n <> [] ->
  load_index_line idx (fai_row n i) = Ok (aset str_eqb idx n i).
Proof.
  intros Hn Hne. unfold load_index_line. rewrite (words_fai_row n i Hn Hne).
  rewrite !int_of_str_of_Z. cbn [bind]. destruct i; reflexivity.
Qed.

Lemma fai_row_lf_line n i : nosp n -> lf_line (fai_row n i).
Proof.
  intro Hn.
  exists (n ++ TAB :: str_of_Z (fi_length i) ++ TAB :: str_of_Z (fi_offset i)
            ++ TAB :: str_of_Z (fi_rpl i) ++ TAB :: str_of_Z (fi_mll i)).
  split.
  - unfold fai_row. rewrite <- !app_assoc. cbn [app].
    repeat (rewrite <- ?app_assoc; cbn [app]; f_equal).
  - apply nolf_app; [apply no_tab_lf_nolf, nosp_no_tab_lf, Hn|].
    repeat (apply nolf_tab_cons; try apply nolf_app;
            try (apply no_tab_lf_nolf, str_of_Z_no_tab_lf)).
Qed.

(* ====================================================================== aset *)
Lemma aset_fresh {V} (d : list (str * V)) k v :
  ~ In k (map fst d) -> aset str_eqb d k v = d ++ [(k, v)].
Proof.
  induction d as [|[k' v'] d IH]; intro H; [reflexivity|].
  cbn [aset app]. cbn [map fst In] in H.
  destruct (str_eqb k k') eqn:E.
  - apply str_eqb_eq in E. subst. exfalso. apply H. left. reflexivity.
  - rewrite IH; [reflexivity | tauto].
Qed.

(* ========================================================== 1 -- .fai round trip *)
Definition idx_ok (idx : list (str * finfo)) : Prop :=
  Forall (fun p => fst p <> [] /\ forallb (fun c => negb (is_space c)) (fst p) = true) idx
  /\ NoDup (map fst idx).

Lemma NoDup_app_fresh {A} (l1 : list A) x l2 : NoDup (l1 ++ x :: l2) -> ~ In x l1.
Proof.
  intros H Hin. apply NoDup_remove_2 in H. apply H, in_or_app. left. exact Hin.
Qed.

Lemma load_lines idx : forall pre,
  Forall (fun p => fst p <> [] /\ nosp (fst p)) idx ->
  NoDup (map fst (pre ++ idx)) ->
  foldM load_index_line (map (fun '(n, i) => fai_row n i) idx) pre = Ok (pre ++ idx).
Proof.
  induction idx as [|[n i] idx IH]; intros pre Hok Hnd.
  - cbn [map foldM]. rewrite app_nil_r. reflexivity.
  - inversion Hok as [|? ? [Hne Hn] Hok']; subst. cbn [fst] in Hne, Hn.
    cbn [map foldM]. rewrite (load_index_line_fai_row pre n i Hn Hne). cbn [bind].
    rewrite aset_fresh.
    + rewrite IH; [rewrite <- app_assoc; reflexivity | exact Hok' |].
      rewrite <- app_assoc. exact Hnd.
    + rewrite map_app in Hnd. cbn [map fst] in Hnd. apply NoDup_app_fresh in Hnd. exact Hnd.
Qed.

Theorem load_write_index : forall idx, idx_ok idx -> load_index (write_index idx) = Ok idx.
Proof.
  intros idx [Hok Hnd]. unfold load_index, write_index.
  rewrite AgpTpfRoundTrip.split_lines_concat.
  - apply (load_lines idx []); [|exact Hnd].
    eapply Forall_impl; [|exact Hok]. intros p [H1 H2]. split; assumption.
  - apply Forall_forall. intros l Hl. apply in_map_iff in Hl as ([n i] & <- & Hin).
    rewrite Forall_forall in Hok. destruct (Hok _ Hin) as [_ Hn]. apply fai_row_lf_line, Hn.
Qed.

(* ============================================== 3 -- the index of a FASTA is idx_ok *)
Lemma offsets_length w eol recs : forall pos, length (offsets w eol recs pos) = length recs.
Proof. induction recs as [|r t IH]; intro pos; cbn [offsets length]; [|rewrite IH]; reflexivity. Qed.

Lemma expected_index_names_gen w eol recs : forall pos,
  map fst (map (fun '(r, off) => (r_name r, expected_info w eol r off))
               (combine recs (offsets w eol recs pos)))
  = map r_name recs.
Proof.
  induction recs as [|r t IH]; intro pos; [reflexivity|].
  cbn [offsets combine map fst]. rewrite IH. reflexivity.
Qed.

Lemma expected_index_names w eol recs : map fst (expected_index w eol recs) = map r_name recs.
Proof. apply expected_index_names_gen. Qed.

(* the record names must also survive str.split() when the .fai is read back
   ([name_loadable]: no FS GS RS US either); a name such as "a<FS>b" is indexed
   correctly but its cached row fails to load -- loudly ([ex_fs_name_breaks]) *)
Theorem expected_index_idx_ok : forall w eol recs,
  fasta_wf w eol recs -> Forall (fun r => name_loadable (r_name r)) recs ->
  idx_ok (expected_index w eol recs).
Proof.
  intros w eol recs (_ & _ & _ & Hok & Hnd) Hload. split.
  - apply Forall_forall. intros p Hp.
    assert (Hin : In (fst p) (map r_name recs)).
    { rewrite <- (expected_index_names w eol). apply in_map, Hp. }
    apply in_map_iff in Hin as (r & <- & Hr).
    rewrite Forall_forall in Hok, Hload. destruct (Hok r Hr) as ([H1 H2] & _).
    split; [assumption | exact (Hload r Hr)].
  - rewrite expected_index_names. exact Hnd.
Qed.

Corollary cache_roundtrip_index : forall w eol recs, fasta_wf w eol recs ->
  Forall (fun r => name_loadable (r_name r)) recs ->
  load_index (write_index (expected_index w eol recs)) = Ok (expected_index w eol recs).
Proof. intros w eol recs H Hl. apply load_write_index, expected_index_idx_ok; assumption. Qed.

(* end to end: cold indexing then a .fai write / load gives the cold index *)
Corollary cold_warm_index : forall w eol final_nl recs buf idx asm,
  fasta_wf w eol recs -> Forall (fun r => name_loadable (r_name r)) recs ->
  drop_peak (index_fasta (render w eol final_nl recs) buf) = Ok (idx, asm) ->
  load_index (write_index idx) = Ok idx.
Proof.
  intros w eol fnl recs buf idx asm Hwf Hl H.
  rewrite (index_spec w eol fnl recs buf Hwf) in H. injection H as <- <-.
  apply cache_roundtrip_index; assumption.
Qed.

(* ====================================== 2 -- the derived assembly is agp_wf *)
Definition tile_row_shape (name : str) (r : row) : Prop :=
  (exists a b, r = RF (mkFrag (-1) name a b 1 []) /\ a <= b)
  \/ (exists n, r = RG (mkGap n scaffold_gap)).

Lemma take_acgt_cons c t : is_acgt c = true ->
  exists a b, take_acgt (c :: t) = (c :: a, b).
Proof.
  intro H.
  change (take_acgt (c :: t))
    with (if is_acgt c then let '(a, b) := take_acgt t in (c :: a, b) else ([], c :: t)).
  rewrite H. destruct (take_acgt t) as [a b]. eauto.
Qed.

Lemma tile_rows_shape name : forall f x pos, Forall (tile_row_shape name) (tile_rows f name x pos).
Proof.
  induction f as [|f IH]; intros x pos; [constructor|].
  destruct x as [|c t]; [constructor|].
  destruct (is_acgt c) eqn:Ec.
  - rewrite tile_rows_acgt by exact Ec.
    destruct (take_acgt_cons c t Ec) as (a & b & ->).
    constructor; [|apply IH].
    left. eexists _, _. split; [reflexivity|]. unfold zlen. cbn [length]. lia.
  - rewrite tile_rows_non by exact Ec.
    destruct (take_non (c :: t)) as [a b].
    constructor; [|apply IH]. right. eexists. reflexivity.
Qed.

Lemma tile_rows_nonempty name f c t pos : tile_rows (S f) name (c :: t) pos <> [].
Proof.
  destruct (is_acgt c) eqn:Ec.
  - rewrite tile_rows_acgt by exact Ec. destruct (take_acgt (c :: t)). discriminate.
  - rewrite tile_rows_non by exact Ec. destruct (take_non (c :: t)). discriminate.
Qed.

Lemma tile_row_shape_ok name r : no_tab_lf name -> tile_row_shape name r -> row_ok_agp r.
Proof.
  intros Hn [(a & b & -> & Hab) | (n & ->)]; cbn [row_ok_agp].
  - unfold frag_ok_agp. cbn [f_id f_name f_start f_end f_strand f_tags].
    repeat split; auto.
  - reflexivity.
Qed.

Lemma NoDup_adjacent_distinct (l : list str) : NoDup l -> adjacent_distinct l.
Proof.
  induction 1 as [|x l Hx Hl IH]; [exact I|].
  destruct l as [|y l]; [exact I|].
  cbn [adjacent_distinct]. split; [|exact IH].
  intro E. apply Hx. left. symmetry. exact E.
Qed.

Lemma expected_asm_names recs : map fst (expected_asm recs) = map r_name recs.
Proof. unfold expected_asm. rewrite map_map. reflexivity. Qed.

Theorem expected_asm_agp_wf : forall w eol recs h,
  fasta_wf w eol recs -> header_ok h ->
  (* names must also be acceptable as AGP object / component names: *)
  Forall (fun r => match r_name r with c :: _ => c <> "#"%char | [] => False end) recs ->
  agp_wf (mkAsm [h] (expected_asm recs)).
Proof.
  intros w eol recs h (_ & _ & _ & Hok & Hnd) Hh Hhash.
  unfold agp_wf. cbn [a_header a_scaffolds]. split; [|split].
  - constructor; [exact Hh | constructor].
  - unfold expected_asm. apply Forall_forall. intros sc Hsc.
    apply in_map_iff in Hsc as (r & <- & Hr). cbn [fst snd].
    rewrite Forall_forall in Hok, Hhash.
    destruct (Hok r Hr) as ([Hne Hsp] & _ & Hseq & _). specialize (Hhash r Hr).
    assert (Hntl : no_tab_lf (r_name r)).
    { unfold no_tab_lf. eapply forallb_impl; [|exact Hsp]. intros a Ha. cbn beta in Ha |- *.
      apply negb_true_iff in Ha.
      destruct (Ascii.eqb_spec a TAB) as [->|]; [discriminate Ha|].
      destruct (Ascii.eqb_spec a LF) as [->|]; [discriminate Ha|]. reflexivity. }
    split; [|split].
    + unfold scaffold_name_ok. destruct (r_name r) as [|c n]; [exact Hhash|].
      split; [exact Hhash | exact Hntl].
    + destruct (r_seq r) as [|c t]; [congruence|]. apply tile_rows_nonempty.
    + eapply Forall_impl; [|apply tile_rows_shape]. intros x. apply tile_row_shape_ok, Hntl.
  - rewrite expected_asm_names. apply NoDup_adjacent_distinct, Hnd.
Qed.

Corollary cache_roundtrip_assembly : forall w eol recs h, fasta_wf w eol recs -> header_ok h ->
  Forall (fun r => match r_name r with c :: _ => c <> "#"%char | [] => False end) recs ->
  exists t, format_agp (mkAsm [h] (expected_asm recs)) = Ok t
            /\ parse_agp t = Ok (mkAsm [h] (expected_asm recs)).
Proof.
  intros w eol recs h Hwf Hh Hhash. apply parse_format_agp.
  apply (expected_asm_agp_wf w eol); assumption.
Qed.

(* ================================================== 4 -- non-vacuity example *)
Definition ex_recs : list record :=
  [ mkRecord (s "chr1") (s " first record") (s "ACGTNNNNacgtAC");
    mkRecord (s "scaffold_2") [] (s "NNACGTACGTAC") ].
Definition ex_file : str := render 5 [LF] true ex_recs.
Definition ex_hdr : str := s "cached assembly".

Lemma ex_fasta_wf : fasta_wf 5 [LF] ex_recs.
Proof.
  unfold fasta_wf. split; [lia|]. split; [left; reflexivity|]. split; [discriminate|]. split.
  - repeat constructor; try discriminate.
  - repeat constructor; cbn; intro H; repeat (destruct H as [H|H]; try discriminate H); exact H.
Qed.

Lemma ex_header_ok : header_ok ex_hdr.
Proof. split; reflexivity. Qed.

Lemma ex_hash : Forall (fun r => match r_name r with c :: _ => c <> "#"%char | [] => False end) ex_recs.
Proof. repeat constructor; discriminate. Qed.

(* cold: the indexer on the rendered file produces the expected index and assembly;
   warm: both caches give them back, computed by the model itself *)
Example ex_cold :
  drop_peak (index_fasta ex_file 4) = Ok (expected_index 5 [LF] ex_recs, expected_asm ex_recs).
Proof. vm_compute. reflexivity. Qed.

Example ex_warm_index :
  load_index (write_index (expected_index 5 [LF] ex_recs)) = Ok (expected_index 5 [LF] ex_recs)
  /\ write_index (expected_index 5 [LF] ex_recs)
     = s "chr1	14	19	5	6
scaffold_2	12	48	5	6
".
Proof. split; vm_compute; reflexivity. Qed.

Example ex_warm_assembly :
  match format_agp (mkAsm [ex_hdr] (expected_asm ex_recs)) with
  | Ok t => parse_agp t = Ok (mkAsm [ex_hdr] (expected_asm ex_recs))
  | Err _ => False
  end.
Proof. vm_compute. reflexivity. Qed.

Example ex_by_theorem :
  load_index (write_index (expected_index 5 [LF] ex_recs)) = Ok (expected_index 5 [LF] ex_recs)
  /\ exists t, format_agp (mkAsm [ex_hdr] (expected_asm ex_recs)) = Ok t
               /\ parse_agp t = Ok (mkAsm [ex_hdr] (expected_asm ex_recs)).
Proof.
  split.
  - apply cache_roundtrip_index; [apply ex_fasta_wf | repeat constructor].
  - apply (cache_roundtrip_assembly 5 [LF]);
      [apply ex_fasta_wf | apply ex_header_ok | apply ex_hash].
Qed.

(* the hypotheses of idx_ok are needed: a name with a blank, an empty name and a
   duplicated name each break the .fai round trip *)
Example ex_space_name_breaks :
  load_index (write_index [(s "a b", mkInfo 1 2 3 4)]) = Err ValueError.
Proof. vm_compute. reflexivity. Qed.
(* FS (28) is an ordinary byte for the indexer (bytes.split) but white space for
   str.split(): the cached row of such a name cannot be read back -- an error, never
   a silently different index *)
Example ex_fs_name_breaks :
  load_index (write_index [(s "a" ++ [ascii_of_N 28] ++ s "1", mkInfo 1 2 3 4)]) = Err ValueError
  /\ name_ok (s "a" ++ [ascii_of_N 28] ++ s "1")
  /\ ~ name_loadable (s "a" ++ [ascii_of_N 28] ++ s "1").
Proof. split; [vm_compute; reflexivity|]. split; [split; [discriminate | vm_compute; reflexivity]|].
       unfold name_loadable. vm_compute. discriminate. Qed.
Example ex_empty_name_breaks :
  load_index (write_index [([], mkInfo 1 2 3 4)]) = Err ValueError.
Proof. vm_compute. reflexivity. Qed.
Example ex_dup_name_breaks :
  load_index (write_index [(s "a", mkInfo 1 2 3 4); (s "a", mkInfo 5 6 7 8)])
  = Ok [(s "a", mkInfo 5 6 7 8)].
Proof. vm_compute. reflexivity. Qed.
(* and so is the '#' side condition of item 2: a FASTA record may be called "#x",
   but the AGP parser then reads its lines as comments *)
Example ex_hash_name_breaks :
  let a := mkAsm [ex_hdr] (expected_asm [mkRecord (s "#x") [] (s "ACGT")]) in
  match format_agp a with
  | Ok t => parse_agp t <> Ok a
  | Err _ => True
  end.
Proof. vm_compute. discriminate. Qed.

Print Assumptions load_write_index.
Print Assumptions expected_index_idx_ok.
Print Assumptions cache_roundtrip_index.
Print Assumptions cold_warm_index.
Print Assumptions expected_asm_agp_wf.
Print Assumptions cache_roundtrip_assembly.
Print Assumptions ex_by_theorem.
