(* C08, last sentence: "Painting every scaffold changes only names (prefix +
   rank by size) and order, not content."

   A painted null map presents input scaffolds whole, forward and tagged
   [Painted] (nothing else): each present scaffold is one bait [1, E] under
   its own Pretext scaffold name; any subset of the input may be absent.
   Through the whole [remap]: one primary curated assembly, no cuts, no
   breaks, no joins, the multiset of row lists is the input's; the scaffolds
   present in the map become rank-1 chromosomes prefix1 .. prefixk numbered by
   non-increasing SEQUENCE length (sum of the contig lengths, gaps not
   counted), ties in Pretext order; the absent ones keep name and rank 3.

   Stages (A-D reuse Proofs.NullMap, generalised from tags [] to [Painted]):
     A. every bait finds all rows of its scaffold, nothing trimmed, b_multi
        empty; label = (Pretext name, rank 1), orig = Pretext name;
     B. no discards, no cuts, no renames;
     C. left-overs = the scaffolds no bait named, rows unchanged;
     D. fusing fuses nothing: needs the Pretext names pairwise distinct AND
        different from the name of every absent input scaffold (both
        hypotheses are necessary: [painted_dup_pname_refuted],
        [painted_name_clash_refuted]);
     E. ChrNamer: one group per Pretext scaffold, sorted (stably, descending)
        by [frags_length], numbered from 1; one assembly; junction sets of
        input and output coincide.
   No axioms. *)
From Tola Require Import Py.Base Py.Dec Py.Sort Model.Fragment Model.Scaffold Model.Lookup
  Model.OverlapResult Model.NaturalKey Model.Namer Model.Remap
  Proofs.BaseLemmas Proofs.Lookup Proofs.NaturalKey Proofs.NullMapAndCuts Proofs.Junctions
  Proofs.Routing Proofs.Naming Proofs.NullMap.
From Tola Require Proofs.RemapTail.
From Coq Require Import Lia ZifyBool Permutation Sorted.

(* ============================================================ statement *)
Definition painted_bait (name : str) (E : Z) : row := RF (mkFrag (-1) name 1 E 1 [s "Painted"]).

(* like [null_map], every bait tagged Painted *)
Inductive painted_null_map (n d : Z) : list (str * list row) -> list (str * list row) -> Prop :=
  | pnm_nil : painted_null_map n d [] []
  | pnm_absent : forall sc input ptx,
      painted_null_map n d input ptx -> painted_null_map n d (sc :: input) ptx
  | pnm_present : forall name rows E pname input ptx,
      painted_null_map n d input ptx -> 1 <= E -> rows_len (removelast rows) < E ->
      d * (rows_len rows - E) < n -> pname <> [] ->
      painted_null_map n d ((name, rows) :: input) ((pname, [painted_bait name E]) :: ptx).

(* the same without tying the Pretext order to the input order *)
Definition painted_bait_ok (n d : Z) (input : list (str * list row)) (p : str * list row) : Prop :=
  exists name rows E, snd p = [painted_bait name E] /\ In (name, rows) input
    /\ 1 <= E /\ rows_len (removelast rows) < E /\ d * (rows_len rows - E) < n /\ fst p <> [].

(* the input scaffolds named by the baits *)
Definition bait_names (ptx : list (str * list row)) : list str :=
  map f_name (flat_map (fun p => frags_of (snd p)) ptx).

Definition painted_null_map_any (n d : Z) (input ptx : list (str * list row)) : Prop :=
  Forall (painted_bait_ok n d input) ptx /\ NoDup (bait_names ptx).

(* no Pretext scaffold is called like an input scaffold that no bait names
   (it would be fused with that left-over scaffold) *)
Definition pnames_fresh (input ptx : list (str * list row)) : Prop :=
  forall nm, In nm (map fst ptx) -> In nm (map fst input) -> In nm (bait_names ptx).

Definition seq_len (sc : scaffold) : Z := frags_length (sc_rows sc).
Definition Sorted_desc (l : list Z) : Prop := StronglySorted (fun a b => a >= b) l.

(* ================================================ the present scaffolds *)
Definition ptx_of' (q : pres) : str * list row := (p_pname q, [painted_bait (p_name q) (p_E q)]).
Definition piece_of' (q : pres) : scaffold * bool :=
  (mkScaffold (p_pname q) (p_rows q) None None 1 (Some (p_pname q)) [s "Painted"], true).

Lemma bait_names_ptx_of' ps : bait_names (map ptx_of' ps) = map p_name ps.
Proof.
  unfold bait_names. induction ps as [|q ps IH]; [reflexivity|].
  cbn [map flat_map ptx_of' snd painted_bait frags_of app f_name] in *. rewrite IH. reflexivity.
Qed.

Lemma number_input_in : forall input k name rows, In (name, rows) input ->
  exists rows', In (name, rows') (number_input input k) /\ map erase_id rows' = map erase_id rows.
Proof.
  intros input k name rows I.
  apply (in_map (fun p : str * list row => (fst p, map erase_id (snd p)))) in I.
  rewrite <- (number_input_erase input k) in I. apply in_map_iff in I as ([nm rows'] & E & I).
  cbn [fst snd] in E. injection E as -> E. eauto.
Qed.

Lemma painted_any_pres n d input ptx k :
  Forall (painted_bait_ok n d input) ptx ->
  exists ps, ptx = map ptx_of' ps /\ Forall (pres_ok n d (number_input input k)) ps
    /\ Forall (fun q => p_pname q <> []) ps.
Proof.
  induction 1 as [|[pname prows] ptx (name & rows & E & H1 & H2 & H3 & H4 & H5 & H6) _ (ps & -> & F & NE)].
  - exists []. repeat split; constructor.
  - cbn [fst snd] in *. subst prows.
    destruct (number_input_in input k name rows H2) as (rows' & I & Er).
    exists (mkP pname name rows' E :: ps). split; [reflexivity|]. split; constructor; try assumption.
    unfold pres_ok. cbn [p_name p_rows p_E]. split; [exact I|]. split; [exact H3|]. split.
    + rewrite (rows_len_erase (removelast rows') (removelast rows)); [exact H4|].
      rewrite !map_removelast, Er. reflexivity.
    + rewrite (rows_len_erase rows' rows Er). exact H5.
Qed.

Lemma painted_null_map_is_any n d : forall input ptx,
  painted_null_map n d input ptx -> NoDup (map fst input) ->
  painted_null_map_any n d input ptx /\ incl (bait_names ptx) (map fst input).
Proof.
  induction 1 as [|sc input ptx H IH|name rows E pname input ptx H IH H1 H2 H3 H4]; intro N.
  - split; [split; constructor | intros x []].
  - cbn [map] in N. inversion N as [|? ? N1 N2]; subst. destruct (IH N2) as ((F & ND) & INC).
    split; [split; [|exact ND] | intros x Hx; right; apply INC, Hx].
    eapply Forall_impl; [|exact F]. intros p (nm & rw & E & Q1 & Q2 & Q3).
    exists nm, rw, E. split; [exact Q1|]. split; [right; exact Q2 | exact Q3].
  - cbn [map fst] in N. inversion N as [|? ? N1 N2]; subst. destruct (IH N2) as ((F & ND) & INC).
    split; [split|].
    + constructor.
      * exists name, rows, E. cbn [fst snd]. split; [reflexivity|]. split; [left; reflexivity|]. auto.
      * eapply Forall_impl; [|exact F]. intros p (nm & rw & E' & Q1 & Q2 & Q3).
        exists nm, rw, E'. split; [exact Q1|]. split; [right; exact Q2 | exact Q3].
    + unfold bait_names. cbn [flat_map snd painted_bait frags_of app map f_name].
      constructor; [|exact ND]. intro G. apply N1, INC, G.
    + unfold bait_names. cbn [flat_map snd painted_bait frags_of app map f_name].
      intros x [<-|Hx]; [left; reflexivity | right; apply INC, Hx].
Qed.

(* ======================================================= A. the lookups *)
(* make_scaffold_name for a scaffold tagged Painted and nothing else, whose
   first bait does not look like <hap>_..._<n>: the Pretext name, rank 1 *)
Lemma msn_painted nm pname prows fn :
  first_row_name prows = Ok fn -> haplotype_prefix_of_name fn = None -> nm_primary nm = None ->
  make_scaffold_name nm pname prows [s "Painted"] =
    Ok (mkNamer (nm_prefix nm) (Some pname) 1 None (nm_hap_n nm) (nm_hap_scaffolds nm) None
                (nm_target nm) 0 [] (nm_hap_lc nm)).
Proof.
  intros H2 H3 H4. unfold make_scaffold_name.
  change (foldM scan_tag [s "Painted"] (mkScan None None false None false (nm_target nm) (nm_hap_lc nm)))
    with (Ok (mkScan None None true None false (nm_target nm) (nm_hap_lc nm))).
  cbn [bind ts_hap ts_lc ts_primary ts_name ts_painted ts_rank ts_target truthy andb negb].
  rewrite H2. cbn [bind]. rewrite H3. cbn [bind andb]. rewrite H4. reflexivity.
Qed.

Lemma label_painted nm id name : nm_cur_name nm = Some name -> nm_target nm = false ->
  label_scaffold nm id [s "Painted"] [s "Painted"]
  = Ok (nm, mkLabel name None (nm_cur_hap nm) (nm_cur_rank nm)).
Proof. intros H1 H2. unfold label_scaffold. rewrite H1, H2. reflexivity. Qed.

Lemma one_pretext_painted n d inp q b :
  0 <= n -> 0 < d ->
  NoDup (map fst inp) -> sc_ok (p_name q, p_rows q) -> pres_ok n d inp q ->
  b_multi b = [] -> nm_inv (b_namer b) ->
  NoDup (map fst (b_found b) ++ map key_of (frags_of (p_rows q))) ->
  exists r found' nm',
    one_pretext_scaffold inp (error_length (n, d)) b (ptx_of' q)
      = Ok (mkB (b_store b ++ [r]) (b_added b ++ [zlen (b_store b)]) found' [] nm' (b_cuts b))
    /\ piece_of_result r = piece_of' q
    /\ map fst found' = map fst (b_found b) ++ map key_of (frags_of (p_rows q))
    /\ nm_inv nm'.
Proof.
  intros Hn Hd N (S1 & S2 & S3 & S4 & S5 & S6 & S7) (Q1 & Q2 & Q3 & Q4) M (I1 & I2 & I3 & I4) ND.
  destruct q as [pname name rows E]. destruct b as [store added found multi nm cuts].
  cbn [fst snd p_pname p_name p_rows p_E b_store b_added b_found b_multi b_namer b_cuts] in *. subst multi.
  destruct (null_bait_result rows name E 1 [s "Painted"] n d S1 S2 S3 S4 Q2 Q3 Hn Hd Q4)
    as (fo & F1 & F2 & F3 & F4 & _).
  set (bait := mkFrag (-1) name 1 E 1 [s "Painted"]).
  set (r := set_labels (ovr_of_found bait fo) (mkLabel pname None None 1) pname [s "Painted"]).
  assert (T : trim_large_overhangs r (error_length (n, d)) = Ok r).
  { apply trim_large_noop'.
    - unfold start_overhang, r, set_labels, ovr_of_found. cbn [o_bait o_start f_start bait]. rewrite F3.
      pose proof (error_length_pos n d Hn Hd). lia.
    - unfold end_overhang, r, set_labels, ovr_of_found. cbn [o_bait o_end f_end bait]. rewrite F4.
      pose proof (error_length_spec n d Hn Hd) as G.
      assert (L : d * (rows_len rows - E) < d * error_length (n, d)) by lia.
      apply Z.mul_lt_mono_pos_l in L; lia. }
  assert (R : o_rows r = rows) by (unfold r, set_labels, ovr_of_found; cbn [o_rows]; exact F2).
  destruct (store_found_fresh (zlen store) (frags_of rows) found ND) as (found' & E1 & E2).
  exists r, found',
    (mkNamer (nm_prefix nm) (Some pname) 1 None (nm_hap_n nm) (nm_hap_scaffolds nm) None
             (nm_target nm) 0 [] (nm_hap_lc nm)).
  split; [|split; [|split; [exact E2|]]].
  - unfold one_pretext_scaffold, ptx_of', painted_bait. cbn [p_pname p_name p_rows p_E]. fold bait.
    change (fragment_tags [RF bait]) with [s "Painted"].
    rewrite (msn_painted nm pname _ name); [|reflexivity|exact S6|exact I1].
    cbn [bind]. change (frags_of [RF bait]) with [bait].
    cbn [foldM]. unfold one_bait at 1. change (f_name bait) with name. change (f_start bait) with 1.
    change (f_end bait) with E. change (f_tags bait) with [s "Painted"].
    unfold input_rows. rewrite (aget_nodup_in inp name rows N Q1). cbn [bind].
    rewrite F1. cbn [bind]. unfold with_namer. cbn [b_store b_added b_found b_multi b_namer b_cuts].
    rewrite (label_painted _ _ pname); [|reflexivity|exact I2]. cbn [bind nm_cur_hap nm_cur_rank].
    fold r. rewrite T. cbn [bind]. rewrite R.
    destruct S3 as (f0 & t0 & S3). rewrite S3 at 1. rewrite <- S3.
    unfold store_fragments_found. cbn [b_store b_added b_found b_multi b_namer b_cuts].
    rewrite E1. cbn [bind foldM].
    unfold rename_results. cbn [b_store b_namer nm_unloc_scaffolds mapM bind].
    unfold rename_by_size. cbn [map combine fold_left]. unfold with_store.
    cbn [b_store b_added b_found b_multi b_namer b_cuts]. reflexivity.
  - unfold piece_of_result, piece_of', to_scaffold_rows, r, set_labels, ovr_of_found.
    cbn [o_name o_tag o_hap o_rank o_orig o_orig_tags o_bait o_rows f_strand lb_name lb_tag lb_hap lb_rank
         p_name p_rows p_pname bait].
    change (1 =? -1) with false. cbv iota. rewrite F2. reflexivity.
  - unfold nm_inv. cbn. auto.
Qed.

Lemma pretext_painted n d inp : 0 <= n -> 0 < d -> NoDup (map fst inp) -> Forall sc_ok inp ->
  forall ps b,
  Forall (pres_ok n d inp) ps ->
  b_multi b = [] -> nm_inv (b_namer b) -> added_ok b ->
  NoDup (map fst (b_found b) ++ map key_of (pres_frags ps)) ->
  exists b',
    foldM (one_pretext_scaffold inp (error_length (n, d))) (map ptx_of' ps) b = Ok b'
    /\ map piece_of_result (b_store b') = map piece_of_result (b_store b) ++ map piece_of' ps
    /\ map fst (b_found b') = map fst (b_found b) ++ map key_of (pres_frags ps)
    /\ b_multi b' = [] /\ nm_inv (b_namer b') /\ added_ok b' /\ b_cuts b' = b_cuts b.
Proof.
  intros Hn Hd N OK. induction ps as [|q ps IH]; intros b F M I A ND.
  - exists b. cbn [map foldM pres_frags flat_map]. rewrite !app_nil_r. auto 10.
  - inversion F as [|? ? F1 F2]; subst.
    assert (Sq : sc_ok (p_name q, p_rows q)).
    { rewrite Forall_forall in OK. apply OK. apply F1. }
    unfold pres_frags in ND. cbn [flat_map] in ND. rewrite map_app, app_assoc in ND.
    destruct (NoDup_app_inv _ _ ND) as (ND1 & _ & _).
    destruct (one_pretext_painted n d inp q b Hn Hd N Sq F1 M I ND1) as (r & found' & nm' & E & P & Fd & I').
    cbn [map foldM]. rewrite E. cbn [bind].
    destruct (IH (mkB (b_store b ++ [r]) (b_added b ++ [zlen (b_store b)]) found' [] nm' (b_cuts b)))
      as (b' & E' & P' & Fd' & M' & I'' & A' & C'); try assumption; try reflexivity.
    + unfold added_ok in *. cbn [b_added b_store]. rewrite A, app_length. cbn [length].
      rewrite Nat.add_1_r, seq_S, map_app. reflexivity.
    + cbn [b_found]. rewrite Fd. exact ND.
    + exists b'. split; [exact E'|]. cbn [b_store b_found b_cuts] in *.
      split; [|split; [|auto]].
      * rewrite P', map_app, <- app_assoc. cbn [map app]. rewrite P. reflexivity.
      * rewrite Fd', Fd. unfold pres_frags. cbn [flat_map]. rewrite map_app, <- app_assoc. reflexivity.
Qed.

(* ============================================================ E. ChrNamer *)
(* ---- small list facts *)
Section SortExt.
  Context {A : Type}.
  Lemma insert_front_ext_in (le le' : A -> A -> bool) x l :
    (forall y, In y l -> le x y = le' x y) -> insert_front le x l = insert_front le' x l.
  Proof.
    induction l as [|y l IH]; intro H; cbn [insert_front]; [reflexivity|].
    rewrite (H y (or_introl eq_refl)). destruct (le' x y); [reflexivity|]. f_equal.
    apply IH. intros z Hz. apply H. right. exact Hz.
  Qed.

  Lemma stable_sort_ext_in (le le' : A -> A -> bool) l :
    (forall x y, In x l -> In y l -> le x y = le' x y) -> stable_sort le l = stable_sort le' l.
  Proof.
    induction l as [|x l IH]; intro H; cbn [stable_sort]; [reflexivity|].
    rewrite <- IH by (intros; apply H; right; assumption).
    apply insert_front_ext_in. intros y Hy. apply H; [left; reflexivity | right].
    eapply Permutation_in; [apply (stable_sort_perm (fun a : A => a) le) | exact Hy].
  Qed.
End SortExt.

Lemma combine_seq_nth {A} : forall (l : list A) a i x,
  In (i, x) (combine (seq a (length l)) l) -> (a <= i)%nat /\ nth_error l (i - a) = Some x.
Proof.
  induction l as [|y l IH]; intros a i x H; cbn [length seq combine] in H; [destruct H|].
  destruct H as [H|H].
  - injection H as <- <-. split; [lia|]. rewrite Nat.sub_diag. reflexivity.
  - destruct (IH (S a) i x H) as (L & E). split; [lia|].
    replace (i - a)%nat with (S (i - S a)) by lia. exact E.
Qed.

Lemma nth_error_ext_eq {A} : forall (a b : list A), (forall i, nth_error a i = nth_error b i) -> a = b.
Proof.
  induction a as [|x a IH]; intros [|y b] H.
  - reflexivity.
  - specialize (H 0%nat). discriminate.
  - specialize (H 0%nat). discriminate.
  - pose proof (H 0%nat) as H0. cbn in H0. injection H0 as ->. f_equal.
    apply IH. intro i. exact (H (S i)).
Qed.

Lemma map_nth_seq {A} (d : A) : forall l1 pre l2,
  map (fun i => nth i (pre ++ l1 ++ l2) d) (seq (length pre) (length l1)) = l1.
Proof.
  induction l1 as [|x l1 IH]; intros pre l2; [reflexivity|].
  cbn [length seq map]. f_equal.
  - rewrite app_nth2 by lia. rewrite Nat.sub_diag. reflexivity.
  - specialize (IH (pre ++ [x]) l2). rewrite app_length in IH. cbn [length] in IH.
    rewrite Nat.add_1_r, <- app_assoc in IH. exact IH.
Qed.

Lemma map_by_index {X Y} (f : X -> Y) (g : nat -> Y) : forall (l : list X) a,
  (forall j x, nth_error l j = Some x -> f x = g (a + j)%nat) -> map f l = map g (seq a (length l)).
Proof.
  induction l as [|x l IH]; intros a H; [reflexivity|].
  cbn [map length seq]. f_equal.
  - rewrite (H 0%nat x eq_refl). f_equal. lia.
  - apply IH. intros j y Hj. rewrite (H (S j) y Hj). f_equal. lia.
Qed.

Lemma Forall2_map_same {X A B} (R : A -> B -> Prop) (f : X -> A) (g : X -> B) : forall l,
  (forall x, In x l -> R (f x) (g x)) -> Forall2 R (map f l) (map g l).
Proof.
  induction l as [|x l IH]; intro H; cbn [map]; constructor.
  - apply H. left. reflexivity.
  - apply IH. intros y Hy. apply H. right. exact Hy.
Qed.

Lemma StronglySorted_map_ge {A} (f : A -> Z) : forall l,
  StronglySorted (fun a b => f a >= f b) l -> StronglySorted (fun a b => a >= b) (map f l).
Proof.
  induction 1 as [|x l Hs IH Hx]; cbn [map]; constructor; [exact IH|].
  rewrite Forall_map. exact Hx.
Qed.

(* ---- one group per Pretext scaffold *)
Definition hN : str := s "None".
Definition GG (iq : nat * pres) : chr_group := one_group hN (p_pname (snd iq)) [fst iq].

Section Groups.
  Variable fused : list scaffold.

  Definition at_piece (iq : nat * pres) : Prop :=
    exists sc, nth_error fused (fst iq) = Some sc /\ sc_name sc = p_pname (snd iq)
               /\ sc_orig sc = Some (p_pname (snd iq)) /\ p_pname (snd iq) <> [].

  Lemma groups_first i sc o' : nth_error fused i = Some sc -> sc_orig sc = Some o' -> o' <> [] ->
    build_groups_step fused [hN] false (mkCg [new_group [hN]] None None) (hN, i)
    = Ok (mkCg [one_group hN o' [i]] (Some hN) (Some o')).
  Proof.
    intros Hn Ho Hne. unfold build_groups_step. rewrite Hn, Ho.
    destruct o' as [|c o'']; [congruence|]. cbv beta iota. remember (c :: o'') as orig eqn:Eo.
    cbn [cg_groups new_group map].
    change [[(hN, @nil (str * list nat))]] with ([] ++ [[(hN, @nil (str * list nat))]]).
    rewrite last_opt_snoc, group_hap_single. cbv beta iota zeta.
    rewrite last_opt_snoc, group_add_single. cbn [aget aset].
    rewrite set_last_group_snoc. reflexivity.
  Qed.

  Lemma groups_step gs o idxs lh i sc o' :
    nth_error fused i = Some sc -> sc_orig sc = Some o' -> o' <> [] -> o' <> o ->
    build_groups_step fused [hN] false (mkCg (gs ++ [one_group hN o idxs]) lh (Some o)) (hN, i)
    = Ok (mkCg ((gs ++ [one_group hN o idxs]) ++ [one_group hN o' [i]]) (Some hN) (Some o')).
  Proof.
    intros Hn Ho Hne Hd. unfold build_groups_step. rewrite Hn, Ho.
    destruct o' as [|c o'']; [congruence|]. cbv beta iota. remember (c :: o'') as orig eqn:Eo.
    cbn [cg_groups cg_last_orig cg_last_hap].
    rewrite last_opt_snoc.
    rewrite !(group_hap_single hN [(o, idxs)] : group_hap (one_group hN o idxs) hN = [(o, idxs)]).
    cbv beta iota zeta. cbn [opt_eqb].
    assert (E : str_eqb orig o = false).
    { destruct (str_eqb orig o) eqn:E; [|reflexivity]. apply str_eqb_eq in E. contradiction. }
    rewrite E. cbn [negb].
    rewrite last_opt_snoc. cbn [new_group map]. rewrite group_add_single.
    cbn [aget aset app]. rewrite set_last_group_snoc. reflexivity.
  Qed.

  Lemma groups_fold : forall L gs o idxs lh,
    Forall at_piece L -> NoDup (o :: map (fun iq => p_pname (snd iq)) L) ->
    exists lh' lo',
      foldM (build_groups_step fused [hN] false) (map (fun iq : nat * pres => (hN, fst iq)) L)
            (mkCg (gs ++ [one_group hN o idxs]) lh (Some o))
      = Ok (mkCg ((gs ++ [one_group hN o idxs]) ++ map GG L) lh' lo').
  Proof.
    induction L as [|[i q] L IH]; intros gs o idxs lh F N.
    - exists lh, (Some o). cbn [map foldM]. rewrite app_nil_r. reflexivity.
    - inversion F as [|? ? (sc & F1 & _ & F2 & F3) F4]; subst. cbn [fst snd] in *.
      cbn [map fst snd] in N. inversion N as [|? ? N1 N2]; subst.
      assert (D : p_pname q <> o) by (intro X; apply N1; left; exact X).
      cbn [map foldM fst]. rewrite (groups_step gs o idxs lh i sc (p_pname q) F1 F2 F3 D). cbn [bind].
      destruct (IH (gs ++ [one_group hN o idxs]) (p_pname q) [i] (Some hN) F4) as (lh' & lo' & E).
      { inversion N2 as [|? ? M1 M2]; subst. constructor; assumption. }
      exists lh', lo'. rewrite E. unfold GG at 2. cbn [fst snd]. rewrite <- app_assoc. reflexivity.
  Qed.

  Lemma groups_from_start L : L <> [] ->
    Forall at_piece L -> NoDup (map (fun iq => p_pname (snd iq)) L) ->
    exists lh lo,
      foldM (build_groups_step fused [hN] false) (map (fun iq : nat * pres => (hN, fst iq)) L)
            (mkCg [new_group [hN]] None None)
      = Ok (mkCg (map GG L) lh lo).
  Proof.
    destruct L as [|[i q] L]; intros NE F N; [congruence|].
    inversion F as [|? ? (sc & F1 & _ & F2 & F3) F4]; subst. cbn [fst snd] in *.
    cbn [map foldM fst snd]. rewrite (groups_first i sc (p_pname q) F1 F2 F3). cbn [bind].
    destruct (groups_fold L [] (p_pname q) [i] (Some hN) F4 N) as (lh & lo & E).
    exists lh, lo. cbn [app] in E. rewrite E. reflexivity.
  Qed.

  Lemma GG_good iq : good_group hN (GG iq).
  Proof. exists (p_pname (snd iq)), [fst iq]. split; [reflexivity | discriminate]. Qed.

  Lemma group_length_GG iq sc : nth_error fused (fst iq) = Some sc ->
    group_length fused [hN] (GG iq) = frags_length (sc_rows sc).
  Proof.
    intro H. unfold group_length, GG, one_group. rewrite group_hap_single.
    cbn [map]. rewrite H. unfold sumZ. cbn [fold_left]. lia.
  Qed.
End Groups.

(* ---- numbering the groups in sorted order *)
Lemma name_fold prefix : forall L a fs,
  NoDup (map fst L) ->
  Forall (fun iq : nat * pres => exists sc, nth_error fs (fst iq) = Some sc
             /\ sc_name sc = p_pname (snd iq) /\ p_pname (snd iq) <> []) L ->
  let fs' := fold_left (fun fs '(k, g) => name_group prefix (Z.of_nat k + 1) fs g)
                       (combine (seq a (length L)) (map GG L)) fs in
  upd_ok (map fst L) fs fs'
  /\ forall j iq, nth_error L j = Some iq ->
       exists sc', nth_error fs' (fst iq) = Some sc'
                   /\ sc_name sc' = prefix ++ str_of_Z (Z.of_nat (a + j) + 1).
Proof.
  induction L as [|[i q] L IH]; intros a fs N F fs'.
  - split; [apply upd_ok_refl|]. intros [|j] iq H; discriminate.
  - cbn [map fst] in N. inversion N as [|? ? N1 N2]; subst.
    inversion F as [|? ? (sc & F1 & F2 & F3) F4]; subst. cbn [fst snd] in *.
    subst fs'. cbn [length seq map combine fold_left].
    set (fs1 := name_group prefix (Z.of_nat a + 1) fs (GG (i, q))).
    assert (U1 : upd_ok [i] fs fs1).
    { pose proof (name_group_upd_ok prefix (Z.of_nat a + 1) fs (GG (i, q))) as U.
      unfold gall, GG, one_group in U. cbn [flat_map snd fst app] in U. exact U. }
    assert (E1 : nth_error fs1 i = Some (with_name sc (prefix ++ str_of_Z (Z.of_nat a + 1) ++ []))).
    { unfold fs1, GG, one_group. cbn [fst snd].
      apply name_group_single_effect; try assumption.
      - constructor; [intros [] | constructor].
      - left. reflexivity.
      - rewrite app_nil_r. exact F2.
      - intros j Hj. cbn [length] in Hj. lia. }
    destruct (IH (S a) fs1 N2) as (U2 & NM).
    { rewrite Forall_forall in *. intros iq Iq. destruct (F4 iq Iq) as (sc2 & G1 & G2).
      exists sc2. split; [|exact G2]. destruct U1 as (_ & U1). rewrite U1; [exact G1|].
      intros [X|[]]. apply N1. rewrite X. apply in_map, Iq. }
    split.
    + cbn [map fst]. change (i :: map fst L) with ([i] ++ map fst L). eapply upd_ok_trans; eassumption.
    + intros [|j] iq H; cbn [nth_error] in H.
      * injection H as <-. cbn [fst]. destruct U2 as (_ & U2). rewrite (U2 i N1), E1.
        eexists. split; [reflexivity|]. cbn [with_name sc_name]. rewrite app_nil_r.
        do 2 f_equal. lia.
      * destruct (NM j iq H) as (sc' & G1 & G2). exists sc'. split; [exact G1|].
        rewrite G2. do 2 f_equal. lia.
Qed.

Lemma name_chromosomes_painted prefix fused L :
  NoDup (map fst L) -> NoDup (map (fun iq : nat * pres => p_pname (snd iq)) L) ->
  Forall (at_piece fused) L ->
  let SL := sort_by_Z_desc (fun iq => group_length fused [hN] (GG iq)) L in
  exists fused', name_chromosomes prefix fused (map (fun iq : nat * pres => (hN, fst iq)) L) = Ok fused'
    /\ upd_ok (map fst L) fused fused'
    /\ forall j iq, nth_error SL j = Some iq ->
         exists sc', nth_error fused' (fst iq) = Some sc'
                     /\ sc_name sc' = prefix ++ str_of_Z (Z.of_nat j + 1).
Proof.
  intros N1 N2 F SL.
  assert (C : L = [] \/ L <> []) by (destruct L; [left; reflexivity | right; discriminate]).
  destruct C as [->|NE].
  - exists fused. split; [reflexivity|]. split; [apply upd_ok_refl|]. intros [|j] iq H; discriminate.
  - unfold name_chromosomes.
    assert (D : dedup str_eqb (map fst (map (fun iq : nat * pres => (hN, fst iq)) L)) = [hN]).
    { apply dedup_all_same; [destruct L; [congruence | discriminate]|].
      rewrite map_map. apply Forall_map. rewrite Forall_forall. intros; reflexivity. }
    rewrite D. change (1 <? zlen [hN]) with false.
    destruct (groups_from_start fused L NE F N2) as (lh & lo & E). rewrite E. cbn [bind cg_groups].
    assert (B : existsb (group_bad [hN]) (map GG L) = false).
    { destruct (existsb (group_bad [hN]) (map GG L)) eqn:B; [|reflexivity].
      apply existsb_exists in B as (g & Hg & Hb). apply in_map_iff in Hg as (iq & <- & _).
      rewrite (good_not_bad hN _ (GG_good iq)) in Hb. discriminate. }
    rewrite B. eexists. split; [reflexivity|].
    rewrite name_chromosomes_numbering.
    assert (ES : sort_by_Z_desc (group_length fused [hN]) (map GG L) = map GG SL).
    { unfold SL, sort_by_Z_desc. symmetry.
      apply (stable_sort_map GG (fun x y => group_length fused [hN] x >=? group_length fused [hN] y)). }
    rewrite ES, map_length.
    assert (PS : Permutation SL L) by apply sort_desc_perm.
    destruct (name_fold prefix SL 0 fused) as (U & NM).
    + eapply Permutation_NoDup; [apply Permutation_map, Permutation_sym, PS | exact N1].
    + eapply Permutation_Forall; [apply Permutation_sym, PS|].
      eapply Forall_impl; [|exact F]. intros iq (sc & G1 & G2 & _ & G4). eauto.
    + split.
      * eapply upd_ok_incl; [|exact U]. intros i Hi.
        eapply Permutation_in; [apply Permutation_map, PS | exact Hi].
      * exact NM.
Qed.

(* ---- the fused scaffolds: pieces (rank 1, Pretext names) then left-overs *)
Definition pc (q : pres) : scaffold := fst (piece_of' q).
Definition IPof (ps : list pres) : list (nat * pres) := combine (seq 0 (length ps)) ps.

Lemma IP_fst ps : map fst (IPof ps) = seq 0 (length ps).
Proof. apply map_fst_combine. apply seq_length. Qed.
Lemma IP_snd ps : map snd (IPof ps) = ps.
Proof. apply map_snd_combine. apply seq_length. Qed.

Lemma IP_at ps lf iq : In iq (IPof ps) -> nth_error (map pc ps ++ lf) (fst iq) = Some (pc (snd iq)).
Proof.
  destruct iq as [i q]. intro H. apply combine_seq_nth in H as (_ & H). rewrite Nat.sub_0_r in H.
  cbn [fst snd]. rewrite nth_error_app1.
  - apply map_nth_error, H.
  - rewrite map_length. apply nth_error_Some. congruence.
Qed.

Lemma IP_at_piece ps lf : Forall (fun q => p_pname q <> []) ps ->
  Forall (at_piece (map pc ps ++ lf)) (IPof ps).
Proof.
  intro NE. rewrite Forall_forall. intros iq I. exists (pc (snd iq)).
  split; [apply IP_at, I|]. split; [reflexivity|]. split; [reflexivity|].
  rewrite Forall_forall in NE. apply NE. rewrite <- (IP_snd ps). apply in_map, I.
Qed.

Lemma items_painted : forall ps a lf, Forall (fun sc => sc_rank sc = 3) lf ->
  flat_map (fun '(i, sc) => if sc_rank sc =? 1 then [(hap_str (fst (asm_key_of sc)), i)] else [])
           (combine (seq a (length (map pc ps ++ lf))) (map pc ps ++ lf))
  = map (fun iq : nat * pres => (hN, fst iq)) (combine (seq a (length ps)) ps).
Proof.
  induction ps as [|q ps IH]; intros a lf F.
  - cbn [map app length seq combine]. apply flat_map_nil_in. intros [i sc] I. apply in_combine_r in I.
    rewrite Forall_forall in F. rewrite (F sc I). reflexivity.
  - cbn [map app length seq combine flat_map fst]. rewrite (IH (S a) lf F). reflexivity.
Qed.

(* ---- one assembly: no tag, no haplotype *)
Definition untagged (sc : scaffold) : Prop := sc_tag sc = None /\ sc_hap sc = None.

Lemma asm_key_untagged sc : untagged sc -> asm_key_of sc = (None, true).
Proof. intros (T & H). unfold asm_key_of. rewrite T, H. reflexivity. Qed.

Lemma group_untagged_acc : forall l scs, Forall untagged l ->
  fold_left
    (fun acc sc =>
       let '(k, curated) := asm_key_of sc in
       match aget (opt_eqb str_eqb) acc k with
       | Some (cur, scs) => aset (opt_eqb str_eqb) acc k (cur, scs ++ [sc])
       | None => acc ++ [(k, (curated, [sc]))]
       end) l [(None, (true, scs))]
  = [(None, (true, scs ++ l))].
Proof.
  induction l as [|sc l IH]; intros scs F; cbn [fold_left].
  - rewrite app_nil_r. reflexivity.
  - inversion F as [|? ? F1 F2]; subst. rewrite (asm_key_untagged sc F1).
    cbn [aget aset opt_eqb]. rewrite (IH _ F2), <- app_assoc. reflexivity.
Qed.

Lemma group_untagged : forall l, Forall untagged l -> l <> [] ->
  fold_left
    (fun acc sc =>
       let '(k, curated) := asm_key_of sc in
       match aget (opt_eqb str_eqb) acc k with
       | Some (cur, scs) => aset (opt_eqb str_eqb) acc k (cur, scs ++ [sc])
       | None => acc ++ [(k, (curated, [sc]))]
       end) l []
  = [(None, (true, l))].
Proof.
  intros [|sc l] F NE; [congruence|]. inversion F as [|? ? F1 F2]; subst.
  cbn [fold_left]. rewrite (asm_key_untagged sc F1). cbn [aget app].
  rewrite (group_untagged_acc l [sc] F2). reflexivity.
Qed.

Lemma sbn_map {B} (f : scaffold -> B) : (forall a b, same_but_name a b -> f b = f a) ->
  forall l l', Forall2 same_but_name l l' -> map f l' = map f l.
Proof. intros H l l'. induction 1 as [|a b l l' R _ IH]; cbn [map]; [reflexivity|]. rewrite (H a b R), IH. reflexivity. Qed.

Lemma sbn_Forall (P : scaffold -> Prop) : (forall a b, same_but_name a b -> P a -> P b) ->
  forall l l', Forall2 same_but_name l l' -> Forall P l -> Forall P l'.
Proof.
  intros H l l'. induction 1 as [|a b l l' R _ IH]; intro F; [constructor|].
  inversion F; subst. constructor; [eapply H; eassumption | auto].
Qed.

Definition fusedP (ps : list pres) (ls : list (str * list row)) : list scaffold :=
  map pc ps ++ map mk_left ls.

Lemma fusedP_untagged ps ls : Forall untagged (fusedP ps ls).
Proof.
  unfold fusedP. apply Forall_app. split; rewrite Forall_map, Forall_forall; intros x _;
    unfold untagged; cbn; auto.
Qed.

Lemma assemblies_painted g prefix input0 rs ps ls :
  fuse_all repaired g rs = Ok (fusedP ps ls) -> fusedP ps ls <> [] ->
  NoDup (map p_pname ps) -> Forall (fun q => p_pname q <> []) ps ->
  Forall (fun p => pm_rows (snd p)) (number_input input0 0) ->
  (forall rows, In rows (map sc_rows (fusedP ps ls)) <-> In rows (map snd (number_input input0 0))) ->
  let SL := sort_by_Z_desc (fun iq => group_length (fusedP ps ls) [hN] (GG iq)) (IPof ps) in
  exists fused' sorted per,
    assemblies_with_scaffolds_fused repaired g prefix input0 rs
      = Ok (mkOut [mkOutAsm None true sorted] (b_cuts (rs_b rs)) 0 0 per)
    /\ Forall (fun p => snd p = (0, 0)) per
    /\ Permutation sorted fused'
    /\ upd_ok (map fst (IPof ps)) (fusedP ps ls) fused'
    /\ forall j iq, nth_error SL j = Some iq ->
         exists sc', nth_error fused' (fst iq) = Some sc'
                     /\ sc_name sc' = prefix ++ str_of_Z (Z.of_nat j + 1).
Proof.
  intros HF NE NP NN PM Same SL.
  destruct (name_chromosomes_painted prefix (fusedP ps ls) (IPof ps)) as (fused' & EN & U & NM).
  { rewrite IP_fst. apply seq_NoDup. }
  { rewrite <- (map_map snd p_pname), IP_snd. exact NP. }
  { apply IP_at_piece, NN. }
  assert (UT : Forall untagged fused').
  { eapply (sbn_Forall untagged); [|apply U|apply fusedP_untagged].
    intros a b (_ & T & H & _) (A1 & A2). split; congruence. }
  assert (NE' : fused' <> []).
  { intros ->. destruct U as (U & _). inversion U. congruence. }
  destruct (smart_sort_total sc_rank sc_name fused') as (sorted & ES & PS).
  destruct (make_stats_null (number_input input0 0) sorted PM) as (per & EM & FP).
  { intro rows. rewrite <- Same.
    replace (map sc_rows (fusedP ps ls)) with (map sc_rows fused').
    2:{ apply (sbn_map sc_rows); [|apply U]. intros a b R. apply R. }
    split; intro H; apply in_map_iff in H as (sc & <- & I); apply in_map;
      [apply (Permutation_in _ PS) | apply (Permutation_in _ (Permutation_sym PS))]; exact I. }
  exists fused', sorted, per. split; [|split; [exact FP|split; [exact PS|split; [exact U|exact NM]]]].
  unfold assemblies_with_scaffolds_fused. rewrite HF. cbn [bind]. cbv zeta.
  match goal with |- context [map ?f (fusedP ps ls)] => replace (map f (fusedP ps ls)) with (fusedP ps ls) end.
  2:{ symmetry. apply map_id_in. intros sc I. unfold fusedP in I. apply in_app_iff in I as [I|I];
        apply in_map_iff in I as (x & <- & _); reflexivity. }
  unfold fusedP at 1 2 3. rewrite (items_painted ps 0 (map mk_left ls)).
  2:{ rewrite Forall_map, Forall_forall. intros; reflexivity. }
  fold (fusedP ps ls). fold (IPof ps). rewrite EN. cbn [bind].
  rewrite (group_untagged fused' UT NE'). cbn [mapM]. rewrite ES. cbn [bind]. rewrite EM. reflexivity.
Qed.

(* ---- present (numbered by size) and absent scaffolds *)
Definition dsc : scaffold := plain_scaffold [] [].

Lemma seq_len_at ps ls iq : In iq (IPof ps) ->
  group_length (fusedP ps ls) [hN] (GG iq) = seq_len (pc (snd iq)).
Proof. intro I. unfold fusedP. apply group_length_GG. apply IP_at, I. Qed.

Lemma sorted_pieces ps ls :
  sort_by_Z_desc seq_len (map pc ps)
  = map (fun iq : nat * pres => pc (snd iq))
        (sort_by_Z_desc (fun iq => group_length (fusedP ps ls) [hN] (GG iq)) (IPof ps)).
Proof.
  replace (map pc ps) with (map (fun iq : nat * pres => pc (snd iq)) (IPof ps))
    by (rewrite <- (map_map snd pc), IP_snd; reflexivity).
  unfold sort_by_Z_desc.
  rewrite <- (stable_sort_map (fun iq : nat * pres => pc (snd iq)) (fun x y => seq_len x >=? seq_len y)).
  f_equal. apply stable_sort_ext_in. intros x y Ix Iy. rewrite !seq_len_at by assumption. reflexivity.
Qed.

Lemma painted_split prefix ps ls fused' :
  let SL := sort_by_Z_desc (fun iq => group_length (fusedP ps ls) [hN] (GG iq)) (IPof ps) in
  upd_ok (map fst (IPof ps)) (fusedP ps ls) fused' ->
  (forall j iq, nth_error SL j = Some iq ->
     exists sc', nth_error fused' (fst iq) = Some sc' /\ sc_name sc' = prefix ++ str_of_Z (Z.of_nat j + 1)) ->
  exists present, Permutation fused' (present ++ map mk_left ls)
    /\ Forall2 same_but_name (sort_by_Z_desc seq_len (map pc ps)) present
    /\ map sc_name present = map (fun i => prefix ++ str_of_Z (Z.of_nat i)) (seq 1 (length present)).
Proof.
  intros SL (F2 & UN) NM.
  unfold fusedP in F2. apply Forall2_app_inv_l in F2 as (l1 & l2 & A1 & A2 & ->).
  assert (L1 : length l1 = length ps) by (rewrite <- (Forall2_len _ _ _ A1), map_length; reflexivity).
  assert (E2 : l2 = map mk_left ls).
  { apply nth_error_ext_eq. intro j. specialize (UN (length ps + j)%nat).
    rewrite nth_error_app2 in UN by lia. unfold fusedP in UN.
    rewrite nth_error_app2 in UN by (rewrite map_length; lia).
    rewrite L1, map_length in UN. replace (length ps + j - length ps)%nat with j in UN by lia.
    apply UN. rewrite IP_fst, in_seq. lia. }
  subst l2.
  set (N := fun iq : nat * pres => nth (fst iq) (l1 ++ map mk_left ls) dsc).
  exists (map N SL). split; [|split].
  - apply Permutation_app_tail.
    assert (H : l1 = map N (IPof ps)).
    { unfold N. rewrite <- (map_map fst (fun i => nth i (l1 ++ map mk_left ls) dsc)), IP_fst, <- L1.
      symmetry. apply (map_nth_seq dsc l1 [] (map mk_left ls)). }
    rewrite H at 1. apply Permutation_map, Permutation_sym, sort_desc_perm.
  - rewrite (sorted_pieces ps ls). fold SL. apply Forall2_map_same. intros iq I.
    assert (I' : In iq (IPof ps)) by (eapply Permutation_in; [apply sort_desc_perm | exact I]).
    pose proof (IP_at ps (map mk_left ls) iq I') as E.
    destruct (Forall2_nth_error _ _ _ (Forall2_app A1 A2) _ _ E) as (y & Ey & R).
    unfold N. rewrite (nth_error_nth _ _ dsc Ey). exact R.
  - rewrite map_map, map_length. apply (map_by_index _ _ SL 1%nat). intros j iq Hj.
    destruct (NM j iq Hj) as (sc' & E & E'). unfold N. rewrite (nth_error_nth _ _ dsc E), E'.
    do 2 f_equal. lia.
Qed.

(* ===================================================== the whole run *)
Lemma remap_painted_numbered g prefix n d input0 ps :
  0 <= n -> 0 < d ->
  NoDup (map fst input0) -> Forall sc_ok (number_input input0 0) ->
  NoDup (map key_of (flat_map (fun p => frags_of (snd p)) (number_input input0 0))) ->
  Forall (pres_ok n d (number_input input0 0)) ps -> NoDup (map p_name ps) ->
  number_input input0 0 <> [] ->
  NoDup (map p_pname ps) -> Forall (fun q => p_pname q <> []) ps ->
  (forall nm, In nm (map p_pname ps) -> In nm (map fst input0) -> In nm (map p_name ps)) ->
  exists scs per present ls,
    remap repaired g prefix (n, d) input0 (map ptx_of' ps)
      = Ok (mkOut [mkOutAsm None true scs] 0 0 0 per)
    /\ Forall (fun p => snd p = (0, 0)) per
    /\ Permutation scs (present ++ map mk_left ls)
    /\ Forall2 same_but_name (sort_by_Z_desc seq_len (map pc ps)) present
    /\ map sc_name present = map (fun i => prefix ++ str_of_Z (Z.of_nat i)) (seq 1 (length present))
    /\ Permutation (map sc_of ps ++ ls) (number_input input0 0)
    /\ Forall (fun p => In p (number_input input0 0) /\ ~ In (fst p) (map p_name ps)) ls.
Proof.
  intros Hn Hd N0 OK NK PO NP NE NPP NN FR.
  set (inp := number_input input0 0) in *.
  assert (Nn : NoDup (map fst inp)) by (unfold inp; rewrite number_input_names; exact N0).
  (* A *)
  destruct (pretext_painted n d inp Hn Hd Nn OK ps (mkB [] [] [] [] (new_namer prefix) 0) PO eq_refl)
    as (b1 & E1 & P1 & Fd1 & M1 & I1 & A1 & C1).
  { unfold nm_inv. cbn. auto. }
  { reflexivity. }
  { cbn [b_found map app]. exact (pres_keys_nodup n d inp ps NK PO NP). }
  destruct b1 as [st1 ad1 fd1 mu1 nm1 cu1].
  cbn [b_store b_added b_found b_multi b_namer b_cuts map app] in *. subst mu1 cu1.
  destruct I1 as (J1 & J2 & J3 & J4). unfold added_ok in A1. cbn [b_store b_added] in A1.
  (* C *)
  pose proof (add_missing_ready n d inp ps fd1 Nn OK NK PO Fd1) as RD.
  destruct (add_missing_null repaired g fd1 eq_refl inp nm1 [] J1 J2 RD) as (nm' & E3). cbn [app] in E3.
  fold (lefts inp fd1) in E3.
  set (ls := lefts inp fd1) in *.
  (* D *)
  set (rs := mkRun (mkB st1 ad1 fd1 [] nm' 0) (map mk_left ls)).
  assert (ER : remap_to_input repaired g prefix (n, d) input0 (map ptx_of' ps) = Ok rs).
  { unfold remap_to_input. rewrite (has_dup_names_nodup _ N0). fold inp. rewrite E1. cbn [bind].
    rewrite discard_loop_nomulti by reflexivity. cbn [bind].
    rewrite cut_remaining_nomulti by reflexivity. cbn [bind b_store b_namer].
    rewrite J3, rename_results_nil. cbn [bind]. unfold with_store. cbn [b_store b_added b_found b_multi b_namer b_cuts].
    rewrite E3. cbn [bind fst snd]. reflexivity. }
  pose proof (all_perm n d inp ps fd1 Nn OK NK PO NP Fd1) as PERM. fold ls in PERM.
  assert (LS : Forall (fun p => In p inp /\ ~ In (fst p) (map p_name ps)) ls).
  { rewrite Forall_forall. intros p Ip. apply filter_In in Ip as (Ip & L). split; [exact Ip|].
    destruct (classify n d inp ps fd1 Nn OK NK PO Fd1 p Ip) as [(q & _ & _ & _ & L')|(NI & _)];
      [congruence | exact NI]. }
  assert (ND : NoDup (map p_pname ps ++ map fst ls)).
  { apply NoDup_app'; [exact NPP | apply NoDup_map_filter', Nn |].
    intros nm I G. rewrite Forall_forall in LS.
    apply in_map_iff in G as (p & <- & Ip). destruct (LS p Ip) as (L1 & L2). apply L2.
    apply FR; [exact I|]. rewrite <- (number_input_names input0 0). apply in_map, L1. }
  assert (HF : fuse_all repaired g rs = Ok (fusedP ps ls)).
  { unfold fuse_all, rs. cbn [rs_b rs_left b_store b_added]. rewrite A1.
    pose proof (mapM_get_all st1 []) as G. cbn [app length] in G. rewrite G. cbn [bind].
    rewrite P1. rewrite fuse_fold_distinct.
    - cbn [app]. rewrite map_map. cbn [snd]. unfold fusedP, pc.
      rewrite map_app, !map_map. reflexivity.
    - apply Forall_app. split; rewrite Forall_map, Forall_forall.
      + intros q Iq. cbn [piece_of' fst sc_rows].
        assert (S : sc_ok (sc_of q)).
        { rewrite Forall_forall in OK. apply OK. apply (sc_of_in n d inp ps PO q Iq). }
        apply S.
      + intros sc Isc. apply in_map_iff in Isc as (p & <- & Ip). cbn [fst mk_left sc_rows].
        apply filter_In in Ip as (Ip & _). rewrite Forall_forall in OK. apply (OK p Ip).
    - cbn [map app]. rewrite map_app, !map_map. cbn [piece_of' fst mk_left key_of_piece sc_tag sc_hap sc_name].
      apply (NoDup_map_inv (fun k : fuse_key => snd k)).
      rewrite map_app, !map_map. cbn [snd]. exact ND. }
  assert (NR : map sc_rows (fusedP ps ls) = map snd (map sc_of ps ++ ls)).
  { unfold fusedP. rewrite !map_app, !map_map. reflexivity. }
  destruct (assemblies_painted g prefix input0 rs ps ls HF) as (fused' & sorted & per & EA & FP & PS & U & NM);
    try assumption.
  - intros Z. apply (f_equal (map sc_rows)) in Z. rewrite NR in Z. cbn [map] in Z.
    apply map_eq_nil in Z. rewrite Z in PERM. apply Permutation_nil in PERM. contradiction.
  - fold inp. rewrite Forall_forall in *. intros p Ip. destruct (OK p Ip) as (_ & _ & _ & _ & S5 & _).
    unfold pm_rows, pm. rewrite Forall_forall in *. intros f If. apply (S5 f If).
  - fold inp. intro rows. rewrite NR.
    split; intro H; apply in_map_iff in H as (p & <- & Ip); apply in_map;
      [apply (Permutation_in _ PERM) | apply (Permutation_in _ (Permutation_sym PERM))]; exact Ip.
  - destruct (painted_split prefix ps ls fused' U NM) as (present & Q1 & Q2 & Q3).
    exists sorted, per, present, ls.
    split; [unfold remap; rewrite ER; cbn [bind]; rewrite EA; reflexivity|].
    split; [exact FP|]. split; [eapply perm_trans; eassumption|]. auto.
Qed.

(* ============================================================ theorems *)
(* what an output scaffold (before it is numbered) has to do with a Pretext scaffold *)
Definition piece_for (input : list (str * list row)) (sc : scaffold) (p : str * list row) : Prop :=
  sc_name sc = fst p /\ sc_orig sc = Some (fst p) /\ sc_rank sc = 1
  /\ exists name E rows, snd p = [painted_bait name E] /\ In (name, rows) input
       /\ map erase_id rows = map erase_id (sc_rows sc).

(* an output scaffold that no bait named *)
Definition absent_ok (input ptx : list (str * list row)) (sc : scaffold) : Prop :=
  sc_rank sc = 3 /\ sc_orig sc = None /\ ~ In (sc_name sc) (bait_names ptx)
  /\ exists isc, In isc input /\ fst isc = sc_name sc
                 /\ map erase_id (snd isc) = map erase_id (sc_rows sc).

Lemma number_input_in_rev : forall input k name rows', In (name, rows') (number_input input k) ->
  exists rows, In (name, rows) input /\ map erase_id rows = map erase_id rows'.
Proof.
  intros input k name rows' I.
  apply (in_map (fun p : str * list row => (fst p, map erase_id (snd p)))) in I.
  rewrite (number_input_erase input k) in I. apply in_map_iff in I as ([nm rows] & E & I).
  cbn [fst snd] in E. injection E as -> E. eauto.
Qed.

Lemma sbn_filter_orig z : forall l l', Forall2 same_but_name l l' ->
  map sc_orig (filter (fun sc => seq_len sc =? z) l') = map sc_orig (filter (fun sc => seq_len sc =? z) l).
Proof.
  induction 1 as [|a b l l' (R1 & _ & _ & _ & R5 & _) _ IH]; [reflexivity|].
  assert (EL : seq_len b = seq_len a) by (unfold seq_len; rewrite R1; reflexivity).
  cbn [filter]. rewrite EL.
  destruct (seq_len a =? z); cbn [map]; rewrite IH; [rewrite R5|]; reflexivity.
Qed.

Theorem painted_null_map_identity_any : forall g prefix n d input ptx,
  0 <= n -> 0 < d -> input <> [] ->
  NoDup (map fst input) -> Forall sc_ok input ->
  NoDup (map key_of (flat_map (fun p => frags_of (snd p)) input)) ->     (* distinct contigs *)
  NoDup (map fst ptx) ->               (* distinct Pretext names: [painted_dup_pname_refuted] *)
  pnames_fresh input ptx ->            (* ... not those of absent scaffolds: [painted_name_clash_refuted] *)
  painted_null_map_any n d input ptx ->
  exists scs per,
    remap repaired g prefix (n, d) input ptx = Ok (mkOut [mkOutAsm None true scs] 0 0 0 per)
    /\ Forall (fun p => snd p = (0, 0)) per
    (* content: the multiset of row lists is the input's *)
    /\ Permutation (map (fun sc => map erase_id (sc_rows sc)) scs)
                   (map (fun p => map erase_id (snd p)) input)
    /\ Forall (fun sc => sc_tag sc = None /\ sc_hap sc = None) scs
    (* names and ranks *)
    /\ exists pieces present absent,
         Permutation scs (present ++ absent)
         (* one piece per Pretext scaffold, in Pretext order, the rows of the scaffold it paints *)
         /\ Forall2 (piece_for input) pieces ptx
         (* [present] = the pieces sorted stably by decreasing sequence length, renamed *)
         /\ Forall2 same_but_name (sort_by_Z_desc seq_len pieces) present
         /\ map sc_name present
            = map (fun i => prefix ++ str_of_Z (Z.of_nat i)) (seq 1 (length present))
         /\ length present = length ptx
         /\ Forall (fun sc => sc_rank sc = 1) present
         /\ Sorted_desc (map seq_len present)
         (* ties: scaffolds of equal sequence length are numbered in Pretext order *)
         /\ (forall z, map sc_orig (filter (fun sc => seq_len sc =? z) present)
                       = map sc_orig (filter (fun sc => seq_len sc =? z) pieces))
         /\ Forall (absent_ok input ptx) absent.
Proof.
  intros g prefix n d input ptx Hn Hd NE N0 OK NK NPX FR (PB & NB).
  destruct (painted_any_pres n d input ptx 0 PB) as (ps & -> & PO & NN).
  rewrite bait_names_ptx_of' in NB.
  assert (EP : map fst (map ptx_of' ps) = map p_pname ps) by (rewrite map_map; reflexivity).
  rewrite EP in NPX.
  destruct (remap_painted_numbered g prefix n d input ps Hn Hd N0 (sc_ok_number input 0 OK))
    as (scs & per & present & ls & E & FP & PS & SB & NMS & PERM & LS); try assumption.
  - pose proof (RemapTail.number_input_keys input 0) as K. unfold RemapSpec.in_frags in K.
    rewrite K. exact NK.
  - intro Z. apply NE. apply (f_equal (map fst)) in Z. rewrite number_input_names in Z.
    destruct input; [reflexivity | discriminate].
  - intros nm I1 I2. unfold pnames_fresh in FR. rewrite EP, bait_names_ptx_of' in FR. apply FR; assumption.
  - set (pcs := map pc ps) in *. set (srt := sort_by_Z_desc seq_len pcs) in *.
    assert (PSRT : Permutation srt pcs) by apply sort_desc_perm.
    assert (ER : map (fun sc => map erase_id (sc_rows sc)) present
                 = map (fun sc => map erase_id (sc_rows sc)) srt).
    { apply (sbn_map (fun sc => map erase_id (sc_rows sc))); [|exact SB]. intros a b R.
      destruct R as (R & _). rewrite R. reflexivity. }
    exists scs, per. split; [exact E|]. split; [exact FP|]. split; [|split].
    + eapply perm_trans; [apply Permutation_map, PS|]. rewrite map_app, ER.
      eapply perm_trans; [apply Permutation_app_tail, Permutation_map, PSRT|].
      pose proof (number_input_erase input 0) as NI. apply (f_equal (map snd)) in NI.
      rewrite !map_map in NI. cbn [snd] in NI. rewrite <- NI.
      apply (Permutation_map (fun p : str * list row => map erase_id (snd p))) in PERM.
      rewrite map_app in PERM. unfold pcs. rewrite !map_map in *. exact PERM.
    + eapply Permutation_Forall; [apply Permutation_sym, PS|]. apply Forall_app. split.
      * eapply (sbn_Forall (fun sc => sc_tag sc = None /\ sc_hap sc = None)); [|exact SB|].
        -- intros a b (_ & T & H & _) (A1 & A2). split; congruence.
        -- eapply Permutation_Forall; [apply Permutation_sym, PSRT|].
           unfold pcs. rewrite Forall_map, Forall_forall. intros; split; reflexivity.
      * rewrite Forall_map, Forall_forall. intros; split; reflexivity.
    + exists pcs, present, (map mk_left ls).
      split; [exact PS|]. split; [|split; [exact SB|split; [exact NMS|split; [|split; [|split; [|split]]]]]].
      * unfold pcs. apply Forall2_map_same. intros q Iq. unfold piece_for, pc, piece_of', ptx_of'.
        cbn [fst snd sc_name sc_orig sc_rank sc_rows].
        split; [reflexivity|]. split; [reflexivity|]. split; [reflexivity|].
        rewrite Forall_forall in PO. destruct (PO q Iq) as (Q1 & _).
        destruct (number_input_in_rev input 0 _ _ Q1) as (rows & I & Er).
        exists (p_name q), (p_E q), rows. auto.
      * rewrite <- (Forall2_len _ _ _ SB).
        rewrite (Permutation_length PSRT). unfold pcs. rewrite !map_length. reflexivity.
      * eapply (sbn_Forall (fun sc => sc_rank sc = 1)); [|exact SB|].
        -- intros a b (_ & _ & _ & R & _) A. congruence.
        -- eapply Permutation_Forall; [apply Permutation_sym, PSRT|].
           unfold pcs. rewrite Forall_map, Forall_forall. intros; reflexivity.
      * replace (map seq_len present) with (map seq_len srt).
        -- apply StronglySorted_map_ge. apply sort_desc_sorted.
        -- symmetry. apply (sbn_map seq_len); [|exact SB]. intros a b (R & _). unfold seq_len. rewrite R. reflexivity.
      * intro z. rewrite (sbn_filter_orig z _ _ SB). unfold srt. rewrite sort_desc_stable. reflexivity.
      * rewrite Forall_map, Forall_forall. intros [nm rows'] Ip. rewrite Forall_forall in LS.
        destruct (LS _ Ip) as (L1 & L2). cbn [fst] in L2.
        unfold absent_ok, mk_left. cbn [fst snd sc_rank sc_orig sc_name sc_rows].
        split; [reflexivity|]. split; [reflexivity|]. split; [rewrite bait_names_ptx_of'; exact L2|].
        destruct (number_input_in_rev input 0 _ _ L1) as (rows & I & Er).
        exists (nm, rows). auto.
Qed.

(* the same for the inductive form (Pretext order = input order of the present scaffolds) *)
Theorem painted_null_map_identity : forall g prefix n d input ptx,
  0 <= n -> 0 < d -> input <> [] ->
  NoDup (map fst input) -> Forall sc_ok input ->
  NoDup (map key_of (flat_map (fun p => frags_of (snd p)) input)) ->
  NoDup (map fst ptx) -> pnames_fresh input ptx ->
  painted_null_map n d input ptx ->
  exists scs per,
    remap repaired g prefix (n, d) input ptx = Ok (mkOut [mkOutAsm None true scs] 0 0 0 per)
    /\ Forall (fun p => snd p = (0, 0)) per
    /\ Permutation (map (fun sc => map erase_id (sc_rows sc)) scs)
                   (map (fun p => map erase_id (snd p)) input)
    /\ Forall (fun sc => sc_tag sc = None /\ sc_hap sc = None) scs
    /\ exists pieces present absent,
         Permutation scs (present ++ absent)
         /\ Forall2 (piece_for input) pieces ptx
         /\ Forall2 same_but_name (sort_by_Z_desc seq_len pieces) present
         /\ map sc_name present
            = map (fun i => prefix ++ str_of_Z (Z.of_nat i)) (seq 1 (length present))
         /\ length present = length ptx
         /\ Forall (fun sc => sc_rank sc = 1) present
         /\ Sorted_desc (map seq_len present)
         /\ (forall z, map sc_orig (filter (fun sc => seq_len sc =? z) present)
                       = map sc_orig (filter (fun sc => seq_len sc =? z) pieces))
         /\ Forall (absent_ok input ptx) absent.
Proof.
  intros g prefix n d input ptx Hn Hd NE N0 OK NK NPX FR NM.
  apply painted_null_map_identity_any; try assumption.
  apply (painted_null_map_is_any n d input ptx NM N0).
Qed.

(* ============================================================ instances *)
Lemma pnames_fresh_dec input ptx :
  forallb (fun nm => negb (mem_str nm (map fst input)) || mem_str nm (bait_names ptx)) (map fst ptx) = true ->
  pnames_fresh input ptx.
Proof.
  intros H nm I1 I2. rewrite forallb_forall in H. specialize (H nm I1).
  apply mem_str_in in I2. rewrite I2 in H. cbn [negb orb] in H. apply mem_str_in, H.
Qed.

Definition pb (nm : String.string) (E : Z) (pn : String.string) : str * list row :=
  (s pn, [painted_bait (s nm) E]).
Arguments pb nm%string_scope E pn%string_scope.

(* four scaffolds: scaffold_1 has a gap and a reverse-strand contig (300 bp of
   sequence, 350 with the gap), scaffold_2 is absent from the map (and has a
   run of two gaps), scaffold_3 (320 bp) and scaffold_4 (310 bp) are single
   contigs.  The map presents 1, 3, 4 in this order. *)
Definition pi_input : list (str * list row) :=
  [ (s "scaffold_1", [cex_F "ctg1" 1 100 1; RG (mkGap 50 (s "scaffold")); cex_F "ctg2" 1 200 (-1)]);
    (s "scaffold_2", [cex_F "ctg3" 1 5 1; RG (mkGap 2 (s "x")); RG (mkGap 3 (s "y")); cex_F "ctg4" 1 3 1]);
    (s "scaffold_3", [cex_F "ctg5" 1 320 1]);
    (s "scaffold_4", [cex_F "ctg6" 1 310 1]) ].
Definition pi_ptx : list (str * list row) :=
  [ pb "scaffold_1" 345 "Scaffold_1"; pb "scaffold_3" 320 "Scaffold_2"; pb "scaffold_4" 305 "Scaffold_3" ].

Definition pi_gap : gap := mkGap 200 (s "scaffold").
Definition view_sc (sc : scaffold) := (sc_name sc, map erase_id (sc_rows sc), sc_rank sc, sc_orig sc).

(* by computation: numbered by SEQUENCE length (320, 310, 300): scaffold_1, the
   longest with its gap (350), comes third *)
Example painted_null_map_instance :
  exists scs per,
    remap repaired pi_gap (s "SUPER_") (10, 1) pi_input pi_ptx
      = Ok (mkOut [mkOutAsm None true scs] 0 0 0 per)
    /\ per = [(s "Primary", (0, 0))]
    /\ map view_sc scs
       = [ (s "SUPER_1", [cex_F "ctg5" 1 320 1], 1, Some (s "Scaffold_2"));
           (s "SUPER_2", [cex_F "ctg6" 1 310 1], 1, Some (s "Scaffold_3"));
           (s "SUPER_3", [cex_F "ctg1" 1 100 1; RG (mkGap 50 (s "scaffold")); cex_F "ctg2" 1 200 (-1)],
            1, Some (s "Scaffold_1"));
           (s "scaffold_2", [cex_F "ctg3" 1 5 1; RG (mkGap 2 (s "x")); RG (mkGap 3 (s "y")); cex_F "ctg4" 1 3 1],
            3, None) ].
Proof. eexists _, _. split; [vm_compute; reflexivity|]. split; vm_compute; reflexivity. Qed.

(* the hypotheses of the theorem hold of this instance ... *)
Lemma pi_sc_ok : Forall sc_ok pi_input.
Proof.
  unfold pi_input. constructor; [|constructor; [|constructor; [|constructor; [|constructor]]]];
    unfold sc_ok; cbn [fst snd].
  - split; [discriminate|]. split; [repeat constructor; cbn; lia|].
    split; [eexists _, _; reflexivity|].
    split; [exists (mkFrag (-1) (s "ctg2") 1 200 (-1) []), [cex_F "ctg1" 1 100 1; RG (mkGap 50 (s "scaffold"))]; reflexivity|].
    split; [repeat constructor; cbn; lia|].
    split; [reflexivity|]. intros f t E. injection E as <- _. reflexivity.
  - split; [discriminate|]. split; [repeat constructor; cbn; lia|].
    split; [eexists _, _; reflexivity|].
    split; [exists (mkFrag (-1) (s "ctg4") 1 3 1 []), [cex_F "ctg3" 1 5 1; RG (mkGap 2 (s "x")); RG (mkGap 3 (s "y"))]; reflexivity|].
    split; [repeat constructor; cbn; lia|].
    split; [reflexivity|]. intros f t E. injection E as <- _. reflexivity.
  - split; [discriminate|]. split; [repeat constructor; cbn; lia|].
    split; [eexists _, _; reflexivity|].
    split; [exists (mkFrag (-1) (s "ctg5") 1 320 1 []), []; reflexivity|].
    split; [repeat constructor; cbn; lia|].
    split; [reflexivity|]. intros f t E. injection E as <- _. reflexivity.
  - split; [discriminate|]. split; [repeat constructor; cbn; lia|].
    split; [eexists _, _; reflexivity|].
    split; [exists (mkFrag (-1) (s "ctg6") 1 310 1 []), []; reflexivity|].
    split; [repeat constructor; cbn; lia|].
    split; [reflexivity|]. intros f t E. injection E as <- _. reflexivity.
Qed.

Lemma pi_nodup_names : NoDup (map fst pi_input).
Proof. cbn. repeat constructor; cbn; intuition discriminate. Qed.
Lemma pi_nodup_keys : NoDup (map key_of (flat_map (fun p => frags_of (snd p)) pi_input)).
Proof. cbn. repeat constructor; cbn; intuition discriminate. Qed.
Lemma pi_nodup_pnames : NoDup (map fst pi_ptx).
Proof. cbn. repeat constructor; cbn; intuition discriminate. Qed.
Lemma pi_fresh : pnames_fresh pi_input pi_ptx.
Proof. apply pnames_fresh_dec. vm_compute. reflexivity. Qed.
Lemma pi_null_map : painted_null_map 10 1 pi_input pi_ptx.
Proof.
  unfold pi_input, pi_ptx, pb.
  apply pnm_present; [apply pnm_absent; apply pnm_present; [apply pnm_present; [constructor| | | |]| | | |]| | | |];
    cbn; try lia; discriminate.
Qed.

(* ... so the theorem applies (its hypotheses are not vacuous), and gives the
   same facts without running the model *)
Example painted_null_map_instance_by_theorem :
  exists scs per,
    remap repaired pi_gap (s "SUPER_") (10, 1) pi_input pi_ptx
      = Ok (mkOut [mkOutAsm None true scs] 0 0 0 per)
    /\ Forall (fun p => snd p = (0, 0)) per
    /\ Permutation (map (fun sc => map erase_id (sc_rows sc)) scs)
                   (map (fun p => map erase_id (snd p)) pi_input)
    /\ Forall (fun sc => sc_tag sc = None /\ sc_hap sc = None) scs
    /\ exists pieces present absent,
         Permutation scs (present ++ absent)
         /\ Forall2 (piece_for pi_input) pieces pi_ptx
         /\ Forall2 same_but_name (sort_by_Z_desc seq_len pieces) present
         /\ map sc_name present = [s "SUPER_1"; s "SUPER_2"; s "SUPER_3"]
         /\ Forall (fun sc => sc_rank sc = 1) present
         /\ Sorted_desc (map seq_len present)
         /\ Forall (absent_ok pi_input pi_ptx) absent.
Proof.
  assert (H0 : 0 <= 10) by lia. assert (H1 : 0 < 1) by lia.
  assert (H2 : pi_input <> []) by (unfold pi_input; discriminate).
  destruct (painted_null_map_identity pi_gap (s "SUPER_") 10 1 pi_input pi_ptx H0 H1 H2
              pi_nodup_names pi_sc_ok pi_nodup_keys pi_nodup_pnames pi_fresh pi_null_map)
    as (scs & per & E & FP & PC & UT & pieces & present & absent & P1 & P2 & P3 & P4 & P5 & P6 & P7 & _ & P9).
  exists scs, per. split; [exact E|]. split; [exact FP|]. split; [exact PC|]. split; [exact UT|].
  exists pieces, present, absent. split; [exact P1|]. split; [exact P2|]. split; [exact P3|].
  split; [rewrite P4, P5; reflexivity|]. split; [exact P6|]. split; [exact P7|exact P9].
Qed.

(* ties are broken by the PRETEXT order, not the input order: scaffold_2 and
   scaffold_3 have the same length; the map shows scaffold_3 first *)
Definition tie_input : list (str * list row) :=
  [ (s "scaffold_1", [cex_F "ctg1" 1 100 1]);
    (s "scaffold_2", [cex_F "ctg3" 1 300 1]);
    (s "scaffold_3", [cex_F "ctg5" 1 300 1]) ].
Definition tie_ptx : list (str * list row) :=
  [ pb "scaffold_1" 100 "Scaffold_1"; pb "scaffold_3" 300 "Scaffold_2"; pb "scaffold_2" 300 "Scaffold_3" ].

Example painted_tie_break_instance :
  painted_null_map_any 10 1 tie_input tie_ptx
  /\ exists scs per,
       remap repaired pi_gap (s "SUPER_") (10, 1) tie_input tie_ptx
         = Ok (mkOut [mkOutAsm None true scs] 0 0 0 per)
       /\ map view_sc scs
          = [ (s "SUPER_1", [cex_F "ctg5" 1 300 1], 1, Some (s "Scaffold_2"));
              (s "SUPER_2", [cex_F "ctg3" 1 300 1], 1, Some (s "Scaffold_3"));
              (s "SUPER_3", [cex_F "ctg1" 1 100 1], 1, Some (s "Scaffold_1")) ].
Proof.
  split.
  - split.
    + unfold tie_ptx, pb. repeat constructor; unfold painted_bait_ok; cbn [fst snd].
      * exists (s "scaffold_1"), [cex_F "ctg1" 1 100 1], 100. cbn. intuition (try lia; try discriminate).
      * exists (s "scaffold_3"), [cex_F "ctg5" 1 300 1], 300. cbn. intuition (try lia; try discriminate).
      * exists (s "scaffold_2"), [cex_F "ctg3" 1 300 1], 300. cbn. intuition (try lia; try discriminate).
    + cbn. repeat constructor; cbn; intuition discriminate.
  - eexists _, _. split; vm_compute; reflexivity.
Qed.

(* ----- both hypotheses on the Pretext names are necessary *)
(* two Pretext scaffolds with the same name: their rows are fused (one join) *)
Definition dup_ptx : list (str * list row) :=
  [ pb "scaffold_1" 345 "Scaffold_1"; pb "scaffold_3" 320 "Scaffold_1"; pb "scaffold_4" 305 "Scaffold_3" ].

Example painted_dup_pname_refuted :
  NoDup (map fst pi_input) /\ Forall sc_ok pi_input
  /\ NoDup (map key_of (flat_map (fun p => frags_of (snd p)) pi_input))
  /\ pnames_fresh pi_input dup_ptx /\ painted_null_map 10 1 pi_input dup_ptx
  /\ ~ NoDup (map fst dup_ptx)
  /\ exists o, remap repaired pi_gap (s "SUPER_") (10, 1) pi_input dup_ptx = Ok o
       /\ out_joins o = 1
       /\ map (fun sc => (sc_name sc, length (sc_rows sc))) (flat_map oa_scaffolds (out_asms o))
          = [(s "SUPER_1", 5%nat); (s "SUPER_2", 1%nat); (s "scaffold_2", 4%nat)].
Proof.
  split; [exact pi_nodup_names|]. split; [exact pi_sc_ok|]. split; [exact pi_nodup_keys|].
  split; [apply pnames_fresh_dec; vm_compute; reflexivity|]. split; [|split].
  - unfold pi_input, dup_ptx, pb.
    apply pnm_present; [apply pnm_absent; apply pnm_present; [apply pnm_present; [constructor| | | |]| | | |]| | | |];
      cbn; try lia; discriminate.
  - intro N. cbn in N. inversion N as [|? ? N1 _]. apply N1. left. reflexivity.
  - eexists. split; [vm_compute; reflexivity|]. split; vm_compute; reflexivity.
Qed.

(* a Pretext scaffold named like an input scaffold that the map does not show:
   it is fused with that left-over scaffold (one join) *)
Definition clash_ptx : list (str * list row) :=
  [ pb "scaffold_1" 345 "scaffold_2"; pb "scaffold_3" 320 "Scaffold_2"; pb "scaffold_4" 305 "Scaffold_3" ].

Example painted_name_clash_refuted :
  NoDup (map fst pi_input) /\ Forall sc_ok pi_input
  /\ NoDup (map key_of (flat_map (fun p => frags_of (snd p)) pi_input))
  /\ NoDup (map fst clash_ptx) /\ painted_null_map 10 1 pi_input clash_ptx
  /\ ~ pnames_fresh pi_input clash_ptx
  /\ exists o, remap repaired pi_gap (s "SUPER_") (10, 1) pi_input clash_ptx = Ok o
       /\ out_joins o = 1
       /\ map (fun sc => (sc_name sc, length (sc_rows sc))) (flat_map oa_scaffolds (out_asms o))
          = [(s "SUPER_1", 1%nat); (s "SUPER_2", 1%nat); (s "SUPER_3", 8%nat)].
Proof.
  split; [exact pi_nodup_names|]. split; [exact pi_sc_ok|]. split; [exact pi_nodup_keys|].
  split; [|split; [|split]].
  - cbn. repeat constructor; cbn; intuition discriminate.
  - unfold pi_input, clash_ptx, pb.
    apply pnm_present; [apply pnm_absent; apply pnm_present; [apply pnm_present; [constructor| | | |]| | | |]| | | |];
      cbn; try lia; discriminate.
  - intro F. specialize (F (s "scaffold_2")). cbn in F.
    assert (G : s "scaffold_1" = s "scaffold_2" \/ s "scaffold_3" = s "scaffold_2" \/ s "scaffold_4" = s "scaffold_2" \/ False)
      by (apply F; auto).
    destruct G as [G|[G|[G|[]]]]; vm_compute in G; discriminate G.
  - eexists. split; [vm_compute; reflexivity|]. split; vm_compute; reflexivity.
Qed.

Print Assumptions painted_null_map_identity_any.
Print Assumptions painted_null_map_identity.
Print Assumptions painted_null_map_instance.
Print Assumptions painted_null_map_instance_by_theorem.
Print Assumptions painted_tie_break_instance.
Print Assumptions painted_dup_pname_refuted.
Print Assumptions painted_name_clash_refuted.
