(* C18: proofs about the OverlapResult model.  No axioms. *)
From Tola Require Import Py.Base Model.Fragment Model.Scaffold Model.Lookup
  Model.OverlapResult Model.OvrSpec Proofs.BaseLemmas.
From Coq Require Import Lia ZifyBool.

Ltac spl := repeat match goal with |- _ /\ _ => split end.

(* ------------------------------------------------------------ rows_len *)
Lemma rows_len_nil : rows_len [] = 0.
Proof. reflexivity. Qed.

Lemma rows_len_cons x l : rows_len (x :: l) = row_len x + rows_len l.
Proof. unfold rows_len. cbn [map]. apply sumZ_cons. Qed.

Lemma rows_len_app a b : rows_len (a ++ b) = rows_len a + rows_len b.
Proof. unfold rows_len. rewrite map_app. apply sumZ_app. Qed.

Lemma rows_len_rev a : rows_len (rev a) = rows_len a.
Proof. unfold rows_len. rewrite map_rev. apply sumZ_rev. Qed.

Lemma rows_len_single x : rows_len [x] = row_len x.
Proof. rewrite rows_len_cons, rows_len_nil. lia. Qed.

Ltac lnorm := repeat (cbn [app]; rewrite <- app_assoc); cbn [app].
#[local] Hint Rewrite rows_len_app rows_len_cons rows_len_nil rows_len_rev : rl.

(* ------------------------------------------------------- list plumbing *)
Lemma firstn_length_app {A} (a b : list A) : firstn (length a) (a ++ b) = a.
Proof. induction a as [|x a IH]; cbn; [destruct b|]; congruence. Qed.

Lemma skipn_length_app {A} (a b : list A) : skipn (length a) (a ++ b) = b.
Proof. induction a as [|x a IH]; cbn; congruence. Qed.

Lemma firstn_add {A} (i n : nat) (l : list A) :
  firstn (i + n) l = firstn i l ++ firstn n (skipn i l).
Proof.
  revert l; induction i as [|i IH]; intros l; [reflexivity|].
  destruct l as [|x l]; cbn [Nat.add firstn skipn app].
  - destruct n; reflexivity.
  - rewrite IH. reflexivity.
Qed.

Lemma skipn_nth_cons {A} (l : list A) i x :
  nth_error l i = Some x -> skipn i l = x :: skipn (S i) l.
Proof.
  revert l; induction i as [|i IH]; intros [|y l] H; cbn in H; try discriminate.
  - injection H as ->. reflexivity.
  - cbn [skipn]. rewrite (IH l H). reflexivity.
Qed.

Lemma firstn_S_nth {A} (l : list A) k y :
  nth_error l k = Some y -> firstn (S k) l = firstn k l ++ [y].
Proof.
  revert l; induction k as [|k IH]; intros [|x l] H; cbn in H; try discriminate.
  - injection H as ->. reflexivity.
  - cbn [firstn app]. f_equal. apply IH. exact H.
Qed.

Lemma nth_error_skipn' {A} (l : list A) i k :
  nth_error (skipn i l) k = nth_error l (i + k).
Proof.
  revert l; induction i as [|i IH]; intros l; [reflexivity|].
  destruct l as [|x l]; cbn [skipn Nat.add nth_error].
  - destruct k; reflexivity.
  - apply IH.
Qed.

Lemma py_nth_first {A} (x : A) l : py_nth (x :: l) 0 = Ok x.
Proof.
  unfold py_nth, zlen. cbv zeta. cbn [length].
  change (0 <? 0) with false. cbv iota.
  destruct (Z.of_nat (S (length l)) <=? 0) eqn:E; [lia|]. reflexivity.
Qed.

Lemma py_nth_last {A} (l : list A) x : py_nth (l ++ [x]) (-1) = Ok x.
Proof.
  unfold py_nth, zlen. cbv zeta. rewrite app_length. cbn [length].
  change (-1 <? 0) with true. cbv iota.
  replace (-1 + Z.of_nat (length l + 1)) with (Z.of_nat (length l)) by lia.
  destruct (Z.of_nat (length l) <? 0) eqn:E1; [lia|].
  destruct (Z.of_nat (length l + 1) <=? Z.of_nat (length l)) eqn:E2; [lia|].
  cbn [orb]. rewrite Nat2Z.id. rewrite nth_error_app2 by lia.
  rewrite Nat.sub_diag. reflexivity.
Qed.

Lemma py_nth_nil {A} i : py_nth (@nil A) i = Err IndexError.
Proof.
  unfold py_nth, zlen. cbv zeta. cbn [length].
  destruct (i <? 0) eqn:E.
  - destruct (i + Z.of_nat 0 <? 0) eqn:E1; [reflexivity|lia].
  - destruct (i <? 0) eqn:E1; [discriminate|].
    destruct (Z.of_nat 0 <=? i) eqn:E2; [reflexivity|lia].
Qed.

Lemma py_nth_last_cons {A} (y : A) (l : list A) x : py_nth (y :: l ++ [x]) (-1) = Ok x.
Proof. apply (py_nth_last (y :: l) x). Qed.

Lemma py_nth_last_single {A} (x : A) : py_nth [x] (-1) = Ok x.
Proof. apply (py_nth_last [] x). Qed.

Lemma set_last_app {A} (l : list A) x y : set_last (l ++ [x]) y = l ++ [y].
Proof.
  unfold set_last. destruct (l ++ [x]) eqn:E.
  - destruct l; discriminate.
  - rewrite <- E. rewrite removelast_app by discriminate. cbn [removelast].
    rewrite app_nil_r. reflexivity.
Qed.

(* ----------------------------------------------------------------- gaps *)
Definition all_gaps (l : list row) : Prop := Forall (fun x => is_gap x = true) l.

Lemma split_gaps (l : list row) :
  exists gaps rest, l = gaps ++ rest /\ all_gaps gaps
    /\ (rest = [] \/ exists f rest', rest = RF f :: rest').
Proof.
  induction l as [|x l IH].
  - exists [], []. repeat split; [constructor | left; reflexivity].
  - destruct x as [f|g].
    + exists [], (RF f :: l). repeat split; [constructor | right; eauto].
    + destruct IH as (gaps & rest & -> & Hg & Hr).
      exists (RG g :: gaps), rest. repeat split; [|exact Hr].
      constructor; [reflexivity | exact Hg].
Qed.

Lemma split_gaps_back (l : list row) :
  exists rest gaps, l = rest ++ gaps /\ all_gaps gaps
    /\ (rest = [] \/ exists rest' f, rest = rest' ++ [RF f]).
Proof.
  destruct (split_gaps (rev l)) as (gaps & rest & E & Hg & Hr).
  exists (rev rest), (rev gaps). repeat split.
  - rewrite <- rev_app_distr, <- E, rev_involutive. reflexivity.
  - unfold all_gaps in *. apply Forall_rev. exact Hg.
  - destruct Hr as [-> | (f & rest' & ->)]; [left; reflexivity|].
    right. exists (rev rest'), f. reflexivity.
Qed.

Lemma pop_front_gaps gaps f tl pos :
  all_gaps gaps ->
  pop_gaps_front (gaps ++ RF f :: tl) pos = (RF f :: tl, pos + rows_len gaps).
Proof.
  intros H; revert pos; induction H as [|x gaps Hx _ IH]; intros pos.
  - cbn [app pop_gaps_front]. rewrite rows_len_nil. f_equal. lia.
  - destruct x as [f0|g]; [discriminate|].
    cbn [app pop_gaps_front]. rewrite IH, rows_len_cons. cbn [row_len]. f_equal. lia.
Qed.

Lemma pop_front_all_gaps gaps pos :
  all_gaps gaps -> pop_gaps_front gaps pos = ([], pos + rows_len gaps).
Proof.
  intros H; revert pos; induction H as [|x gaps Hx _ IH]; intros pos.
  - cbn [pop_gaps_front]. rewrite rows_len_nil. f_equal. lia.
  - destruct x as [f0|g]; [discriminate|].
    cbn [pop_gaps_front]. rewrite IH, rows_len_cons. cbn [row_len]. f_equal. lia.
Qed.

Lemma pop_back_gaps gaps f tl pos :
  all_gaps gaps ->
  pop_gaps_back_rev (gaps ++ RF f :: tl) pos = (RF f :: tl, pos - rows_len gaps).
Proof.
  intros H; revert pos; induction H as [|x gaps Hx _ IH]; intros pos.
  - cbn [app pop_gaps_back_rev]. rewrite rows_len_nil. f_equal. lia.
  - destruct x as [f0|g]; [discriminate|].
    cbn [app pop_gaps_back_rev]. rewrite IH, rows_len_cons. cbn [row_len]. f_equal. lia.
Qed.

Lemma pop_front_snd t pos : snd (pop_gaps_front t pos) = pos + leading_gaps_len t.
Proof.
  revert pos; induction t as [|x t IH]; intros pos; cbn [pop_gaps_front leading_gaps_len snd].
  - lia.
  - destruct x as [f|g]; cbn [snd]; [lia|]. rewrite IH. lia.
Qed.

Lemma pop_back_snd t pos : snd (pop_gaps_back_rev t pos) = pos - leading_gaps_len t.
Proof.
  revert pos; induction t as [|x t IH]; intros pos; cbn [pop_gaps_back_rev leading_gaps_len snd].
  - lia.
  - destruct x as [f|g]; cbn [snd]; [lia|]. rewrite IH. lia.
Qed.

(* ------------------------------------------- 4: "what if" figures agree *)
Theorem overhang_if_start_removed_agrees : forall r r',
  discard_start r = Ok r' -> overhang_if_start_removed r = Ok (start_overhang r').
Proof.
  intros r r' H. unfold discard_start, overhang_if_start_removed in *.
  destruct (o_rows r) as [|d t]; [discriminate|].
  pose proof (pop_front_snd t (o_start r + row_len d)) as Hs.
  destruct (pop_gaps_front t (o_start r + row_len d)) as [rows' st].
  cbn [snd] in Hs. injection H as <-.
  unfold start_overhang, set_span_rows. cbn [o_bait o_start]. rewrite Hs.
  f_equal; lia.
Qed.

Theorem overhang_if_end_removed_agrees : forall r r',
  discard_end r = Ok r' -> overhang_if_end_removed r = Ok (end_overhang r').
Proof.
  intros r r' H. unfold discard_end, overhang_if_end_removed in *.
  destruct (rev (o_rows r)) as [|d t]; [discriminate|].
  pose proof (pop_back_snd t (o_end r - row_len d)) as Hs.
  destruct (pop_gaps_back_rev t (o_end r - row_len d)) as [rr en].
  cbn [snd] in Hs. injection H as <-.
  unfold end_overhang, set_span_rows. cbn [o_bait o_end]. rewrite Hs.
  f_equal; lia.
Qed.

(* ------------------------------------------------- 5: interval arithmetic *)
Theorem start_row_bait_overlap_spec : forall r x v,
  first_row r = Ok x -> start_row_bait_overlap r = Ok v ->
  v = Z.max 0 (Z.min (f_end (o_bait r)) (o_start r + row_len x - 1)
               - Z.max (f_start (o_bait r)) (o_start r) + 1).
Proof.
  intros r x v Hx H. unfold start_row_bait_overlap in H. rewrite Hx in H.
  cbn [bind] in H. cbv zeta in H. injection H as <-.
  destruct (_ <? _) eqn:E; lia.
Qed.

Theorem end_row_bait_overlap_spec : forall r x v,
  last_row r = Ok x -> end_row_bait_overlap r = Ok v ->
  v = Z.max 0 (Z.min (f_end (o_bait r)) (o_end r)
               - Z.max (f_start (o_bait r)) (o_end r - row_len x + 1) + 1).
Proof.
  intros r x v Hx H. unfold end_row_bait_overlap in H. rewrite Hx in H.
  cbn [bind] in H. cbv zeta in H. injection H as <-.
  destruct (_ <? _) eqn:E; lia.
Qed.

(* --------------------------------------------------- stronger invariant *)
(* object identities: in a result of two or more rows the first row is the
   source row itself or a start-copy (-1), the last row is the source row
   itself or an end-copy (-2) *)
Definition idok (o1 f1 o2 f2 : frag) : Prop :=
  (f_id f1 = f_id o1 \/ f_id f1 = -1) /\ (f_id f2 = f_id o2 \/ f_id f2 = -2).

Definition rows_rel' (slice rows : list row) (ls le : Z) : Prop :=
  (exists o f, slice = [RF o] /\ rows = [RF f] /\ trimmed o f ls le)
  \/ (exists o1 f1 mid o2 f2,
        slice = RF o1 :: mid ++ [RF o2] /\ rows = RF f1 :: mid ++ [RF f2]
        /\ trimmed o1 f1 ls 0 /\ trimmed o2 f2 0 le /\ idok o1 f1 o2 f2).

Definition Inv' (src : list row) (r : ovr) : Prop :=
  o_rows r = [] \/
  exists pre slice post ls le,
    src = pre ++ slice ++ post
    /\ rows_rel' slice (o_rows r) ls le
    /\ o_start r = 1 + rows_len pre + ls
    /\ o_end r = rows_len pre + rows_len slice - le.

Lemma rows_rel'_weaken slice rows ls le :
  rows_rel' slice rows ls le -> rows_rel slice rows ls le.
Proof.
  intros [(o & f & H1 & H2 & H3) | (o1 & f1 & mid & o2 & f2 & H1 & H2 & H3 & H4 & _)].
  - left. exists o, f. auto.
  - right. exists o1, f1, mid, o2, f2. auto.
Qed.

Lemma Inv'_Inv src r : Inv' src r -> Inv src r.
Proof.
  intros [H | (pre & slice & post & ls & le & Hsrc & Hrel & Hs & He)]; [left; exact H|].
  right. exists (length pre), (length slice), ls, le.
  assert (Hn : (1 <= length slice)%nat).
  { destruct Hrel as [(o & f & -> & _) | (o1 & f1 & mid & o2 & f2 & -> & _)];
      cbn [length]; lia. }
  subst src. spl.
  - exact Hn.
  - rewrite !app_length. lia.
  - rewrite skipn_length_app, firstn_length_app. apply rows_rel'_weaken; exact Hrel.
  - rewrite firstn_length_app. exact Hs.
  - rewrite app_assoc, <- app_length, firstn_length_app, rows_len_app. exact He.
Qed.

Lemma trimmed_refl o : 1 <= f_len o -> trimmed o o 0 0.
Proof.
  unfold trimmed, f_len. intros H. spl; try reflexivity; try lia.
  destruct (f_strand o =? 1); lia.
Qed.

Lemma trimmed_len o f ls le :
  trimmed o f ls le -> f_len f = f_len o - ls - le /\ 1 <= f_len f.
Proof.
  unfold trimmed, f_len. intros (_ & _ & ? & ? & ? & H).
  destruct (f_strand o =? 1); lia.
Qed.

Lemma pos_rows_In src x : pos_rows src -> In x src -> 1 <= row_len x.
Proof. unfold pos_rows. rewrite Forall_forall. intros H Hx. apply H. exact Hx. Qed.

Lemma Inv'_init src bait bs be fo :
  pos_rows src -> lookup_spec src bs be (Some fo) -> Inv' src (ovr_of_found bait fo).
Proof.
  intros Hpos (i & j & Hij & Hrows & Hst & Hen & (o1 & Ho1) & (o2 & Ho2) & _).
  assert (P1 : 1 <= f_len o1).
  { apply (pos_rows_In src (RF o1) Hpos). eapply nth_error_In; exact Ho1. }
  assert (P2 : 1 <= f_len o2).
  { apply (pos_rows_In src (RF o2) Hpos). eapply nth_error_In; exact Ho2. }
  right.
  exists (firstn i src), (firstn (S j - i) (skipn i src)),
         (skipn (S j - i) (skipn i src)), 0, 0.
  cbn [ovr_of_found o_rows o_start o_end].
  spl.
  - rewrite firstn_skipn, firstn_skipn. reflexivity.
  - rewrite Hrows. destruct (Nat.eq_dec i j) as [E|Hne].
    + subst j. left. exists o1, o1.
      replace (S i - i)%nat with 1%nat by lia.
      rewrite (skipn_nth_cons _ _ _ Ho1). cbn [firstn].
      spl; try reflexivity. apply trimmed_refl; exact P1.
    + right. exists o1, o1, (firstn (j - i - 1) (skipn (S i) src)), o2, o2.
      assert (E : firstn (S j - i) (skipn i src)
                  = RF o1 :: firstn (j - i - 1) (skipn (S i) src) ++ [RF o2]).
      { replace (S j - i)%nat with (S (j - i)) by lia.
        rewrite (firstn_S_nth _ (j - i) (RF o2)).
        2:{ rewrite nth_error_skipn'. replace (i + (j - i))%nat with j by lia. exact Ho2. }
        rewrite (skipn_nth_cons _ _ _ Ho1).
        remember (j - i - 1)%nat as k eqn:Ek.
        replace (j - i)%nat with (S k) by lia. cbn [firstn app]. reflexivity. }
      spl; try exact E.
      * apply trimmed_refl; exact P1.
      * apply trimmed_refl; exact P2.
      * split; left; reflexivity.
  - rewrite Hst. unfold span_start. lia.
  - rewrite Hen. unfold span_end.
    assert (E : firstn (S j) src = firstn i src ++ firstn (S j - i) (skipn i src)).
    { rewrite <- firstn_add. f_equal. lia. }
    rewrite E, rows_len_app. lia.
Qed.

(* 1 *)
Theorem Inv_init : forall src bait bs be fo,
  pos_rows src -> lookup_spec src bs be (Some fo) -> Inv src (ovr_of_found bait fo).
Proof. intros. apply Inv'_Inv. eapply Inv'_init; eassumption. Qed.

(* 3 *)
Theorem Inv_consistent : forall src r, pos_rows src -> Inv src r -> consistent r.
Proof.
  intros src r Hpos [H | (i & n & ls & le & Hn & Hlen & Hrel & Hs & He)]; [left; exact H|].
  right.
  assert (Hsl : pos_rows (firstn n (skipn i src))).
  { unfold pos_rows in *. rewrite <- (firstn_skipn i src) in Hpos.
    apply Forall_app in Hpos as [_ Hpos].
    rewrite <- (firstn_skipn n (skipn i src)) in Hpos.
    apply Forall_app in Hpos as [Hpos _]. exact Hpos. }
  rewrite firstn_add, rows_len_app in He.
  destruct Hrel as [(o & f & Esl & Er & Ht) | (o1 & f1 & mid & o2 & f2 & Esl & Er & Ht1 & Ht2)];
    rewrite Esl in *; rewrite Er.
  - apply trimmed_len in Ht as [L1 L2].
    rewrite rows_len_single in *. cbn [row_len] in *. spl.
    + lia.
    + exists f, []. reflexivity.
    + exists f, []. reflexivity.
    + constructor; [exact L2 | constructor].
  - apply trimmed_len in Ht1 as [L1 L1']. apply trimmed_len in Ht2 as [L2 L2'].
    unfold pos_rows in Hsl. apply Forall_cons_iff in Hsl as [_ Hsl].
    apply Forall_app in Hsl as [Hmid _].
    rewrite !rows_len_cons, !rows_len_app, !rows_len_single in *. cbn [row_len] in *.
    spl.
    + lia.
    + exists f1, (mid ++ [RF f2]). reflexivity.
    + exists f2, (RF f1 :: mid). reflexivity.
    + constructor; [exact L1'|]. apply Forall_app; split; [exact Hmid|].
      constructor; [exact L2' | constructor].
Qed.

(* ----------------------------------------------------- identities differ *)
Lemma frags_of_app a b : frags_of (a ++ b) = frags_of a ++ frags_of b.
Proof. unfold frags_of. apply flat_map_app. Qed.

Lemma frags_of_RF o l : frags_of (RF o :: l) = o :: frags_of l.
Proof. reflexivity. Qed.

Lemma NoDup_two {A} (a : list A) x b y c : NoDup (a ++ x :: b ++ y :: c) -> x <> y.
Proof.
  intros H E; subst. apply NoDup_remove_2 in H. apply H.
  apply in_or_app; right. apply in_or_app; right. left; reflexivity.
Qed.

Lemma In_frags_of o l : In (RF o) l -> In o (frags_of l).
Proof.
  intros H. unfold frags_of. apply in_flat_map. exists (RF o). split; [exact H|].
  left; reflexivity.
Qed.

Lemma ids_of_slice pre o1 mid o2 post :
  ids_distinct (pre ++ (RF o1 :: mid ++ [RF o2]) ++ post) ->
  f_id o1 <> f_id o2 /\ 0 <= f_id o1 /\ 0 <= f_id o2.
Proof.
  intros [Hnd Hpos]. spl.
  - assert (E : map f_id (frags_of (pre ++ (RF o1 :: mid ++ [RF o2]) ++ post))
                = map f_id (frags_of pre) ++ f_id o1 :: map f_id (frags_of mid)
                  ++ f_id o2 :: map f_id (frags_of post)).
    { rewrite !frags_of_app, frags_of_RF, !frags_of_app, frags_of_RF.
      rewrite !map_app. cbn [map app]. rewrite !map_app. cbn [map app frags_of flat_map].
      rewrite <- app_assoc. reflexivity. }
    rewrite E in Hnd. eapply NoDup_two; exact Hnd.
  - rewrite Forall_forall in Hpos. apply Hpos. apply In_frags_of.
    apply in_or_app; right. apply in_or_app; left. left; reflexivity.
  - rewrite Forall_forall in Hpos. apply Hpos. apply In_frags_of.
    apply in_or_app; right. apply in_or_app; left. right.
    apply in_or_app; right. left; reflexivity.
Qed.

(* --------------------------------------------------------- discard_start *)
Lemma discard_start_pres src r r' :
  pos_rows src -> Inv' src r -> discard_start r = Ok r' -> Inv' src r'.
Proof.
  intros Hpos [H | (pre & slice & post & ls & le & Hsrc & Hrel & Hs & He)] Hd;
    unfold discard_start in Hd.
  - rewrite H in Hd. discriminate.
  - destruct Hrel as [(o & f & Esl & Er & Ht)
                     | (o1 & f1 & mid & o2 & f2 & Esl & Er & Ht1 & Ht2 & Hid)];
      rewrite Er in Hd.
    + cbn [pop_gaps_front] in Hd. injection Hd as <-. left. reflexivity.
    + apply trimmed_len in Ht1 as [L1 _].
      destruct (split_gaps mid) as (gaps & rest & Emid & Hg & Hrest).
      destruct Hrest as [-> | (m & rest' & ->)].
      * rewrite app_nil_r in Emid. subst mid.
        rewrite pop_front_gaps in Hd by exact Hg. injection Hd as <-. right.
        exists (pre ++ RF o1 :: gaps), [RF o2], post, 0, le.
        cbn [set_span_rows o_rows o_start o_end].
        subst slice. spl.
        -- rewrite Hsrc. lnorm. reflexivity.
        -- left. exists o2, f2. spl; try reflexivity. exact Ht2.
        -- rewrite rows_len_app, rows_len_cons. cbn [row_len]. lia.
        -- rewrite He. autorewrite with rl. lia.
      * subst mid. rewrite <- app_assoc in Hd. cbn [app] in Hd.
        rewrite pop_front_gaps in Hd by exact Hg. injection Hd as <-. right.
        exists (pre ++ RF o1 :: gaps), (RF m :: rest' ++ [RF o2]), post, 0, le.
        cbn [set_span_rows o_rows o_start o_end].
        subst slice. spl.
        -- rewrite Hsrc. lnorm. reflexivity.
        -- right. exists m, m, rest', o2, f2. spl; try reflexivity.
           ++ apply trimmed_refl. apply (pos_rows_In src (RF m) Hpos). rewrite Hsrc.
              apply in_or_app; right. apply in_or_app; left. right.
              apply in_or_app; left. apply in_or_app; right. left; reflexivity.
           ++ exact Ht2.
           ++ split; [left; reflexivity | apply Hid].
        -- rewrite rows_len_app, rows_len_cons. cbn [row_len]. lia.
        -- rewrite He. autorewrite with rl. lia.
Qed.

(* ----------------------------------------------------------- discard_end *)
Lemma rev_rows2 (x y : row) mid : rev (x :: mid ++ [y]) = y :: rev mid ++ [x].
Proof. cbn [rev]. rewrite rev_unit. reflexivity. Qed.

Lemma discard_end_pres src r r' :
  pos_rows src -> Inv' src r -> discard_end r = Ok r' -> Inv' src r'.
Proof.
  intros Hpos [H | (pre & slice & post & ls & le & Hsrc & Hrel & Hs & He)] Hd;
    unfold discard_end in Hd.
  - rewrite H in Hd. discriminate.
  - destruct Hrel as [(o & f & Esl & Er & Ht)
                     | (o1 & f1 & mid & o2 & f2 & Esl & Er & Ht1 & Ht2 & Hid)];
      rewrite Er in Hd.
    + cbn [rev app pop_gaps_back_rev] in Hd. injection Hd as <-. left. reflexivity.
    + apply trimmed_len in Ht2 as [L2 _].
      rewrite rev_rows2 in Hd.
      destruct (split_gaps_back mid) as (rest & gaps & Emid & Hg & Hrest).
      assert (Hg' : all_gaps (rev gaps)) by (apply Forall_rev; exact Hg).
      destruct Hrest as [-> | (rest' & m & ->)].
      * cbn [app] in Emid. subst mid.
        rewrite pop_back_gaps in Hd by exact Hg'. injection Hd as <-. right.
        exists pre, [RF o1], (gaps ++ [RF o2] ++ post), ls, 0.
        cbn [set_span_rows o_rows o_start o_end rev app].
        subst slice. spl.
        -- rewrite Hsrc. lnorm. reflexivity.
        -- left. exists o1, f1. spl; try reflexivity. exact Ht1.
        -- exact Hs.
        -- rewrite He. autorewrite with rl. cbn [row_len]. lia.
      * subst mid. rewrite rev_app_distr, rev_unit in Hd.
        rewrite <- app_assoc in Hd. cbn [app] in Hd.
        rewrite pop_back_gaps in Hd by exact Hg'. injection Hd as <-. right.
        exists pre, (RF o1 :: rest' ++ [RF m]), (gaps ++ [RF o2] ++ post), ls, 0.
        cbn [set_span_rows o_rows o_start o_end].
        subst slice. spl.
        -- rewrite Hsrc. lnorm. reflexivity.
        -- right. exists o1, f1, rest', m, m. spl; try reflexivity.
           ++ cbn [rev]. rewrite rev_unit, rev_involutive. reflexivity.
           ++ exact Ht1.
           ++ apply trimmed_refl. apply (pos_rows_In src (RF m) Hpos). rewrite Hsrc.
              apply in_or_app; right. apply in_or_app; left. right.
              apply in_or_app; left. apply in_or_app; left.
              apply in_or_app; right. left; reflexivity.
           ++ split; [apply Hid | left; reflexivity].
        -- exact Hs.
        -- rewrite He. autorewrite with rl. cbn [row_len]. lia.
Qed.

(* --------------------------------------------------------- trim_fragment *)
Lemma new_frag_ok id name st en strand tags nf :
  new_frag id name st en strand tags = Ok nf ->
  nf = mkFrag id name st en strand tags /\ st <= en.
Proof.
  unfold new_frag. destruct (negb (strand_ok strand)); [discriminate|].
  destruct (st >? en) eqn:E; [discriminate|]. intros H; injection H as <-. split; [reflexivity | lia].
Qed.

(* one trimming step on a single fragment *)
Lemma trimmed_step o f ls le (ms me : bool) sv ev id tags st en :
  trimmed o f ls le ->
  (ms = true -> 0 < sv) -> (me = true -> 0 < ev) ->
  st = (let st1 := if ms && (f_strand f =? 1) then f_start f + sv else f_start f in
        if me && negb (f_strand f =? 1) then st1 + ev else st1) ->
  en = (let en1 := if ms && negb (f_strand f =? 1) then f_end f - sv else f_end f in
        if me && (f_strand f =? 1) then en1 - ev else en1) ->
  st <= en ->
  trimmed o (mkFrag id (f_name f) st en (f_strand f) tags)
    (if ms then ls + sv else ls) (if me then le + ev else le).
Proof.
  unfold trimmed. intros (Hn & Hst & Hls & Hle & Hse & Hc) Hms Hme Est Een Hok.
  cbn [f_name f_strand f_start f_end]. cbv zeta in Est, Een. rewrite Hst in Est, Een.
  spl; try assumption.
  - destruct ms; [specialize (Hms eq_refl)|]; lia.
  - destruct me; [specialize (Hme eq_refl)|]; lia.
  - destruct (f_strand o =? 1), ms, me; cbn [andb negb] in Est, Een; lia.
Qed.

Lemma idok_neq pre o1 mid o2 post f1 f2 :
  ids_distinct (pre ++ (RF o1 :: mid ++ [RF o2]) ++ post) ->
  idok o1 f1 o2 f2 -> f_id f1 <> f_id f2.
Proof.
  intros Hd [H1 H2]. apply ids_of_slice in Hd as (Hne & P1 & P2). lia.
Qed.

Ltac open_new_frag Hd Hnf :=
  match type of Hd with
  | context [new_frag ?a ?b ?c ?d ?e ?g] =>
      let nf0 := fresh "nf0" in
      destruct (new_frag a b c d e g) as [nf0|] eqn:Hnf;
      [cbv beta iota delta [bind] in Hd; try rewrite set_last_app in Hd; injection Hd as <- <-; apply new_frag_ok in Hnf as [-> Hnf]
      |discriminate Hd]
  end.

Lemma trim_pres_single src r pre o post f ls le ks ke nf r' :
  src = pre ++ [RF o] ++ post ->
  o_rows r = [RF f] -> trimmed o f ls le ->
  o_start r = 1 + rows_len pre + ls ->
  o_end r = rows_len pre + rows_len [RF o] - le ->
  trim_fragment r f ks ke = Ok (nf, r') -> Inv' src r'.
Proof.
  intros Hsrc Er Ht Hs He Hd.
  unfold trim_fragment, first_row, last_row in Hd. rewrite Er in Hd.
  rewrite py_nth_first, py_nth_last_single in Hd. cbn [bind] in Hd. cbv zeta in Hd.
  unfold row_is in Hd. rewrite Z.eqb_refl in Hd. cbn [orb negb andb] in Hd.
  open_new_frag Hd Hnf.
  remember (start_overhang r) as sv eqn:Esv. remember (o_end r - f_end (o_bait r)) as ev eqn:Eev.
  remember ((sv >? 0) && negb ks) as ms eqn:Ems.
  remember ((ev >? 0) && negb ke) as me eqn:Eme.
  right. exists pre, [RF o], post, (if ms then ls + sv else ls), (if me then le + ev else le).
  cbn [set_span_rows o_rows o_start o_end]. spl.
  - exact Hsrc.
  - left. eexists o, _. spl; [reflexivity | cbn [set_last removelast app]; reflexivity |].
    eapply trimmed_step with (ms := ms) (me := me) (sv := sv) (ev := ev);
      [exact Ht | lia | lia | reflexivity | reflexivity | exact Hnf].
  - destruct ms; lia.
  - destruct me; lia.
Qed.

Lemma trim_pres_first src r pre o1 mid o2 post f1 f2 ls le ks ke nf r' :
  ids_distinct src ->
  src = pre ++ (RF o1 :: mid ++ [RF o2]) ++ post ->
  o_rows r = RF f1 :: mid ++ [RF f2] ->
  trimmed o1 f1 ls 0 -> trimmed o2 f2 0 le -> idok o1 f1 o2 f2 ->
  o_start r = 1 + rows_len pre + ls ->
  o_end r = rows_len pre + rows_len (RF o1 :: mid ++ [RF o2]) - le ->
  trim_fragment r f1 ks ke = Ok (nf, r') -> Inv' src r'.
Proof.
  intros Hids Hsrc Er Ht1 Ht2 Hid Hs He Hd.
  assert (Hne : f_id f2 =? f_id f1 = false).
  { rewrite Hsrc in Hids. pose proof (idok_neq _ _ _ _ _ _ _ Hids Hid). lia. }
  unfold trim_fragment, first_row, last_row in Hd. rewrite Er in Hd.
  rewrite py_nth_first, py_nth_last_cons in Hd. cbn [bind] in Hd. cbv zeta in Hd.
  unfold row_is in Hd. rewrite Z.eqb_refl, Hne in Hd. cbn [orb negb andb] in Hd.
  open_new_frag Hd Hnf.
  remember (start_overhang r) as sv eqn:Esv.
  remember ((sv >? 0) && negb ks) as ms eqn:Ems.
  right. exists pre, (RF o1 :: mid ++ [RF o2]), post, (if ms then ls + sv else ls), le.
  cbn [set_span_rows o_rows o_start o_end]. spl.
  - exact Hsrc.
  - right. eexists o1, _, mid, o2, f2. spl; [reflexivity | cbn [set_nth]; reflexivity | | exact Ht2 |].
    + eapply trimmed_step with (ms := ms) (me := false) (sv := sv) (ev := 0);
        [exact Ht1 | lia | discriminate | reflexivity | reflexivity | exact Hnf].
    + split; [right; reflexivity | apply Hid].
  - destruct ms; lia.
  - exact He.
Qed.

Lemma trim_pres_last src r pre o1 mid o2 post f1 f2 ls le ks ke nf r' :
  ids_distinct src ->
  src = pre ++ (RF o1 :: mid ++ [RF o2]) ++ post ->
  o_rows r = RF f1 :: mid ++ [RF f2] ->
  trimmed o1 f1 ls 0 -> trimmed o2 f2 0 le -> idok o1 f1 o2 f2 ->
  o_start r = 1 + rows_len pre + ls ->
  o_end r = rows_len pre + rows_len (RF o1 :: mid ++ [RF o2]) - le ->
  trim_fragment r f2 ks ke = Ok (nf, r') -> Inv' src r'.
Proof.
  intros Hids Hsrc Er Ht1 Ht2 Hid Hs He Hd.
  assert (Hne : f_id f1 =? f_id f2 = false).
  { rewrite Hsrc in Hids. pose proof (idok_neq _ _ _ _ _ _ _ Hids Hid). lia. }
  unfold trim_fragment, first_row, last_row in Hd. rewrite Er in Hd.
  rewrite py_nth_first, py_nth_last_cons in Hd.
  change (RF f1 :: mid ++ [RF f2]) with ((RF f1 :: mid) ++ [RF f2]) in Hd.
  cbn [bind] in Hd. cbv zeta in Hd.
  unfold row_is in Hd. rewrite Z.eqb_refl, Hne in Hd. cbn [orb negb andb] in Hd.
  open_new_frag Hd Hnf.
  remember (o_end r - f_end (o_bait r)) as ev eqn:Eev.
  remember ((ev >? 0) && negb ke) as me eqn:Eme.
  right. exists pre, (RF o1 :: mid ++ [RF o2]), post, ls, (if me then le + ev else le).
  cbn [set_span_rows o_rows o_start o_end]. spl.
  - exact Hsrc.
  - right. eexists o1, f1, mid, o2, _. spl; [reflexivity | | exact Ht1 | |].
    + reflexivity.
    + eapply trimmed_step with (ms := false) (me := me) (sv := 0) (ev := ev);
        [exact Ht2 | discriminate | lia | reflexivity | reflexivity | exact Hnf].
    + split; [apply Hid | right; reflexivity].
  - exact Hs.
  - destruct me; lia.
Qed.

Lemma trim_frag_pres src r last ks ke r' :
  ids_distinct src -> Inv' src r ->
  apply_op r (TrimFrag last ks ke) = Ok r' -> Inv' src r'.
Proof.
  intros Hids [H | (pre & slice & post & ls & le & Hsrc & Hrel & Hs & He)] Hd;
    cbn [apply_op] in Hd; unfold first_row, last_row in Hd.
  - rewrite H in Hd. rewrite !py_nth_nil in Hd. destruct last; discriminate.
  - destruct Hrel as [(o & f & Esl & Er & Ht)
                     | (o1 & f1 & mid & o2 & f2 & Esl & Er & Ht1 & Ht2 & Hid)];
      rewrite Er in Hd; subst slice.
    + rewrite py_nth_first, py_nth_last_single in Hd.
      assert (Hd' : (do fr <- trim_fragment r f ks ke; Ok (snd fr)) = Ok r')
        by (destruct last; exact Hd).
      destruct (trim_fragment r f ks ke) as [[nf r'']|] eqn:Htr; [|discriminate].
      cbn [bind snd] in Hd'. injection Hd' as <-.
      eapply trim_pres_single; eassumption.
    + rewrite py_nth_first, py_nth_last_cons in Hd. destruct last; cbn [bind] in Hd.
      * destruct (trim_fragment r f2 ks ke) as [[nf r'']|] eqn:Htr; [|discriminate].
        cbn [bind snd] in Hd. injection Hd as <-.
        eapply trim_pres_last; eassumption.
      * destruct (trim_fragment r f1 ks ke) as [[nf r'']|] eqn:Htr; [|discriminate].
        cbn [bind snd] in Hd. injection Hd as <-.
        eapply trim_pres_first; eassumption.
Qed.

(* -------------------------------------------------- trim_large_overhangs *)
Lemma trim_large_cases r e r' :
  trim_large_overhangs r e = Ok r' ->
  exists r1, (r1 = r \/ discard_start r = Ok r1) /\ (r' = r1 \/ discard_end r1 = Ok r').
Proof.
  intros H. unfold trim_large_overhangs in H.
  destruct ((zlen (o_rows r) =? 1) && (f_len (o_bait r) >? e)).
  { injection H as <-. exists r. auto. }
  match type of H with
  | bind ?X _ = _ => destruct X as [r1|] eqn:H1; [|discriminate]
  end.
  cbn [bind] in H. exists r1. split.
  - destruct (start_overhang r >? e); [|injection H1 as <-; auto].
    destruct (start_row_bait_overlap r) as [ov|]; cbn [bind] in H1; [|discriminate].
    destruct (ov <? e); [right; exact H1 | injection H1 as <-; auto].
  - destruct (o_rows r1).
    + destruct ((start_overhang r >? e) && negb (zlen (o_rows r) =? 0));
        [injection H as <-; auto|].
      destruct (end_overhang r1 >? e); [|injection H as <-; auto].
      destruct (end_row_bait_overlap r1) as [ov|]; cbn [bind] in H; [|discriminate].
      injection H as <-; auto.
    + destruct (end_overhang r1 >? e); [|injection H as <-; auto].
      destruct (end_row_bait_overlap r1) as [ov|]; cbn [bind] in H; [|discriminate].
      destruct (ov <? e); [right; exact H | injection H as <-; auto].
Qed.

Lemma apply_op_pres src r o r' :
  pos_rows src -> ids_distinct src -> Inv' src r -> apply_op r o = Ok r' -> Inv' src r'.
Proof.
  intros Hpos Hids HI H. destruct o as [| |e|last ks ke].
  - eapply discard_start_pres; eassumption.
  - eapply discard_end_pres; eassumption.
  - cbn [apply_op] in H. apply trim_large_cases in H as (r1 & [->|H1] & [->|H2]).
    + exact HI.
    + eapply discard_end_pres; eassumption.
    + eapply discard_start_pres; eassumption.
    + eapply discard_end_pres; [exact Hpos| |exact H2].
      eapply discard_start_pres; eassumption.
  - eapply trim_frag_pres; eassumption.
Qed.

Lemma foldM_pres src ops : forall r r',
  pos_rows src -> ids_distinct src -> Inv' src r ->
  foldM apply_op ops r = Ok r' -> Inv' src r'.
Proof.
  induction ops as [|o ops IH]; intros r r' Hpos Hids HI H; cbn [foldM] in H.
  - injection H as <-. exact HI.
  - destruct (apply_op r o) as [r1|] eqn:H1; cbn [bind] in H; [|discriminate].
    eapply IH; [exact Hpos | exact Hids | | exact H].
    eapply apply_op_pres; eassumption.
Qed.

(* 2 *)
Theorem C18_invariant : forall src bait bs be fo ops r,
  pos_rows src -> ids_distinct src ->
  lookup_spec src bs be (Some fo) ->
  foldM apply_op ops (ovr_of_found bait fo) = Ok r ->
  Inv src r.
Proof.
  intros src bait bs be fo ops r Hpos Hids Hl H. apply Inv'_Inv.
  eapply foldM_pres; [exact Hpos | exact Hids | | exact H].
  eapply Inv'_init; eassumption.
Qed.

(* once the rows are empty they stay empty (or the operation fails) *)
Lemma empty_stays_empty r o r' :
  o_rows r = [] -> apply_op r o = Ok r' -> o_rows r' = [].
Proof.
  intros E H. destruct o as [| |e|last ks ke]; cbn [apply_op] in H.
  - unfold discard_start in H. rewrite E in H. discriminate.
  - unfold discard_end in H. rewrite E in H. discriminate.
  - apply trim_large_cases in H as (r1 & [->|H1] & [->|H2]).
    + exact E.
    + unfold discard_end in H2. rewrite E in H2. discriminate.
    + unfold discard_start in H1. rewrite E in H1. discriminate.
    + unfold discard_start in H1. rewrite E in H1. discriminate.
  - unfold first_row, last_row in H. rewrite E, !py_nth_nil in H. destruct last; discriminate.
Qed.

(* ------------------------------------------------------- 6: non-vacuity *)
Module Example.
  Definition a := mkFrag 0 (s "c1") 1 100 1 [].
  Definition b := mkFrag 1 (s "c2") 1 50 (-1) [].
  Definition c := mkFrag 2 (s "c3") 11 30 1 [].
  Definition d := mkFrag 3 (s "c4") 1 50 (-1) [].
  Definition g10 := mkGap 10 (s "scaffold").
  Definition g20 := mkGap 20 (s "scaffold").
  (* spans: a 1-100, gap 101-110, b 111-160, gap 161-180, d 181-230 *)
  Definition src1 : list row := [RF a; RG g10; RF b; RG g20; RF d].
  (* spans: a 1-100, b 101-150, gap 151-160, c 161-180, d 181-230 *)
  Definition src2 : list row := [RF a; RF b; RG g10; RF c; RF d].
  Definition bait := mkFrag 100 (s "scf") 95 200 1 [s "Painted"].
  Definition ops1 := [TrimFrag false false false; DiscardEnd; TrimLarge 2].
  Definition ops2 := [TrimFrag true false false; TrimLarge 10; DiscardEnd].
  (* the copy of [a] that TrimFrag makes at the start of the result *)
  Definition a' := mkFrag (-1) (s "c1") 95 100 1 [s "Cut"].

  Lemma pos1 : pos_rows src1.
  Proof. repeat (constructor; [cbn; lia|]). constructor. Qed.
  Lemma pos2 : pos_rows src2.
  Proof. repeat (constructor; [cbn; lia|]). constructor. Qed.
  Lemma ids1 : ids_distinct src1.
  Proof. split; cbn; repeat constructor; cbn; intuition lia. Qed.
  Lemma ids2 : ids_distinct src2.
  Proof. split; cbn; repeat constructor; cbn; intuition lia. Qed.

  (* both sources: the bait 95..200 meets rows 0..4, which are fragments *)
  Lemma lookup_all src x y :
    length src = 5%nat -> nth_error src 0 = Some (RF x) -> nth_error src 4 = Some (RF y) ->
    rows_len (firstn 1 src) = 100 -> rows_len src = 230 -> rows_len (firstn 4 src) = 180 ->
    lookup_spec src 95 200 (Some (mkFound 1 230 src)).
  Proof.
    intros Hl Hx Hy H1 H5 H4. exists 0%nat, 4%nat. cbn [fo_rows fo_start fo_end].
    assert (E5 : firstn 5 src = src) by (rewrite <- Hl; apply firstn_all).
    unfold meets, span_start, span_end. rewrite E5, H1, H5, H4. cbn [firstn skipn Nat.sub].
    rewrite rows_len_nil. spl; try lia; try reflexivity.
    - symmetry; exact E5.
    - exists x; exact Hx.
    - exists y; exact Hy.
    - intros k [f Hf] _. assert (k < length src)%nat by (apply nth_error_Some; congruence). lia.
  Qed.
End Example.
Import Example.

Example C18_nonvacuous : exists src bait fo ops r,
  pos_rows src /\ ids_distinct src /\ length src = 5%nat
  /\ find_overlaps src (f_start bait) (f_end bait) = Ok (Some fo)
  /\ lookup_spec src (f_start bait) (f_end bait) (Some fo)
  /\ ops = [TrimFrag false false false; DiscardEnd; TrimLarge 2]
  /\ foldM apply_op ops (ovr_of_found bait fo) = Ok r
  /\ o_rows r = [RF a'; RG g10; RF b] /\ o_start r = 95 /\ o_end r = 160
  /\ Inv src r.
Proof.
  assert (L : lookup_spec src1 95 200 (Some (mkFound 1 230 src1))).
  { eapply lookup_all; vm_compute; reflexivity. }
  eexists src1, bait, (mkFound 1 230 src1), ops1, _.
  split; [exact pos1|]. split; [exact ids1|]. split; [reflexivity|].
  split; [vm_compute; reflexivity|]. split; [exact L|]. split; [reflexivity|].
  assert (F : foldM apply_op ops1 (ovr_of_found bait (mkFound 1 230 src1))
              = Ok (mkOvr bait 95 160 [RF a'; RG g10; RF b] [] None None 0 None [])).
  { vm_compute. reflexivity. }
  split; [exact F|]. split; [reflexivity|]. split; [reflexivity|]. split; [reflexivity|].
  exact (C18_invariant src1 bait 95 200 _ ops1 _ pos1 ids1 L F).
Qed.

(* a second run in which trim_large_overhangs itself discards the start row *)
Example C18_nonvacuous_trim_large : exists r,
  pos_rows src2 /\ ids_distinct src2
  /\ lookup_spec src2 95 200 (Some (mkFound 1 230 src2))
  /\ foldM apply_op ops2 (ovr_of_found bait (mkFound 1 230 src2)) = Ok r
  /\ o_rows r = [RF b; RG g10; RF c] /\ o_start r = 101 /\ o_end r = 180
  /\ Inv src2 r.
Proof.
  assert (L : lookup_spec src2 95 200 (Some (mkFound 1 230 src2))).
  { eapply lookup_all; vm_compute; reflexivity. }
  assert (F : foldM apply_op ops2 (ovr_of_found bait (mkFound 1 230 src2))
              = Ok (mkOvr bait 101 180 [RF b; RG g10; RF c] [] None None 0 None [])).
  { vm_compute. reflexivity. }
  eexists. split; [exact pos2|]. split; [exact ids2|]. split; [exact L|].
  split; [exact F|]. split; [reflexivity|]. split; [reflexivity|]. split; [reflexivity|].
  exact (C18_invariant src2 bait 95 200 _ ops2 _ pos2 ids2 L F).
Qed.

(* an emptied result: the invariant holds by its first disjunct, and every
   further operation fails or leaves the rows empty (empty_stays_empty) *)
Example C18_emptied :
  (exists r, foldM apply_op [DiscardStart; DiscardStart; DiscardStart; TrimLarge 50]
               (ovr_of_found bait (mkFound 1 230 src1)) = Ok r /\ o_rows r = [])
  /\ foldM apply_op [DiscardStart; DiscardStart; DiscardStart; TrimLarge 2]
        (ovr_of_found bait (mkFound 1 230 src1)) = Err IndexError.
Proof. split; [eexists; split|]; vm_compute; reflexivity. Qed.

Print Assumptions Inv_init.
Print Assumptions C18_invariant.
Print Assumptions Inv_consistent.
Print Assumptions overhang_if_start_removed_agrees.
Print Assumptions overhang_if_end_removed_agrees.
Print Assumptions start_row_bait_overlap_spec.
Print Assumptions end_row_bait_overlap_spec.
Print Assumptions C18_nonvacuous.
Print Assumptions C18_nonvacuous_trim_large.
Print Assumptions C18_emptied.
