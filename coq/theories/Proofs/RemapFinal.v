(* C01: composition of the two halves of the pipeline proof. *)
From Tola Require Import Py.Base Model.Fragment Model.Scaffold Model.Lookup Model.OverlapResult
  Model.Namer Model.Remap Model.RemapSpec.
From Tola Require Proofs.RemapTail Proofs.RemapHead.

Lemma qc_ok : Proofs.RemapHead.qc_partition_ok.
Proof. exact Proofs.RemapTail.qc_partition. Qed.

(* Whenever the remapping completes without an error, the output fragments
   exactly partition the input contigs -- for every input assembly with
   well-formed, pairwise distinct contigs, every Pretext assembly whatsoever,
   every texel size, prefix, join gap and tag combination. *)
Theorem remap_conserves : forall c g prefix bpt input pretext o,
  input_ok input ->
  remap c g prefix bpt input pretext = Ok o ->
  conserved input o.
Proof.
  intros c g prefix bpt input pretext o Hok H. unfold remap in H.
  destruct (remap_to_input c g prefix bpt input pretext) as [rs|] eqn:R; cbn [bind] in H; [|discriminate].
  destruct (Proofs.RemapHead.remap_head qc_ok c g prefix bpt input pretext rs Hok R) as [HP HL].
  pose proof (Proofs.RemapTail.number_input_keys input 0) as K.
  apply (Proofs.RemapTail.conserved_same_keys (number_input input 0) input o K).
  apply (Proofs.RemapTail.remap_tail_gen c g prefix (number_input input 0) input rs o); try assumption.
  apply (Proofs.RemapTail.wf_same_keys (in_frags input) (in_frags (number_input input 0))).
  - symmetry. exact K.
  - exact (proj1 Hok).
Qed.

(* the number of output fragments covering a base equals the number of input
   contigs covering it: with disjoint input contigs that is "exactly one" *)
Corollary remap_exactly_once : forall c g prefix bpt input pretext o n x,
  input_ok input ->
  remap c g prefix bpt input pretext = Ok o ->
  coverage (in_frags input) n x = 1%nat ->
  coverage (out_frags o) n x = 1%nat.
Proof.
  intros c g prefix bpt input pretext o n x Hok H C.
  destruct (remap_conserves c g prefix bpt input pretext o Hok H) as [CC _]. rewrite CC. exact C.
Qed.

(* ---- the cut counter (C11): cuts = output fragments - input contigs *)
From Tola Require Proofs.RemapCuts.
From Coq Require Import Lia Permutation.

Lemma assemblies_cuts : forall c g prefix input rs o,
  assemblies_with_scaffolds_fused c g prefix input rs = Ok o -> out_cuts o = b_cuts (rs_b rs).
Proof.
  intros c g prefix input rs o H. unfold assemblies_with_scaffolds_fused in H.
  destruct (fuse_all c g rs) as [f0|]; cbn [bind] in H; [|discriminate].
  match type of H with context [name_chromosomes ?a ?b ?d] => destruct (name_chromosomes a b d) as [fu|] end;
    cbn [bind] in H; [|discriminate].
  match type of H with context [mapM ?f ?l] => destruct (mapM f l) as [asms|] end; cbn [bind] in H; [|discriminate].
  match type of H with context [make_stats ?a ?b ?d] => destruct (make_stats a b d) as [[[br jo] per]|] end;
    cbn [bind] in H; [|discriminate].
  injection H as <-. reflexivity.
Qed.

Theorem cuts_spec : forall c g prefix bpt input pretext o,
  input_ok input ->
  remap c g prefix bpt input pretext = Ok o ->
  Z.of_nat (length (out_frags o)) = Z.of_nat (length (in_frags input)) + out_cuts o.
Proof.
  intros c g prefix bpt input pretext o Hok H. unfold remap in H.
  destruct (remap_to_input c g prefix bpt input pretext) as [rs|] eqn:R; cbn [bind] in H; [|discriminate].
  pose proof (Proofs.RemapCuts.cuts_spec_head c g prefix bpt input pretext rs Hok R) as C.
  pose proof (Proofs.RemapTail.assemblies_keys _ _ _ _ _ _ H) as K.
  apply Permutation_length in K. rewrite !map_length, app_length in K.
  rewrite (assemblies_cuts _ _ _ _ _ _ H). lia.
Qed.
