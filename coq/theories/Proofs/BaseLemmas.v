From Tola Require Import Py.Base.
From Coq Require Import Lia.

Lemma list_eqb_spec {A} (eqb : A -> A -> bool) :
  (forall x y, eqb x y = true <-> x = y) ->
  forall a b, list_eqb eqb a b = true <-> a = b.
Proof.
  intros H a; induction a as [|x a IH]; intros [|y b]; cbn; split; intro E;
    try reflexivity; try discriminate.
  - destruct (eqb x y) eqn:E1; [|discriminate]. apply H in E1. apply IH in E. congruence.
  - injection E as -> ->. assert (E1 : eqb y y = true) by (apply H; reflexivity).
    rewrite E1. apply IH. reflexivity.
Qed.

Lemma str_eqb_eq a b : str_eqb a b = true <-> a = b.
Proof. apply list_eqb_spec. intros x y. apply Ascii.eqb_eq. Qed.

Lemma str_eqb_refl a : str_eqb a a = true.
Proof. apply str_eqb_eq. reflexivity. Qed.

Lemma str_eqb_neq a b : str_eqb a b = false <-> a <> b.
Proof.
  split; intro H.
  - intro E. apply str_eqb_eq in E. congruence.
  - destruct (str_eqb a b) eqn:E; [apply str_eqb_eq in E; contradiction | reflexivity].
Qed.

Lemma str_eqb_sym a b : str_eqb a b = str_eqb b a.
Proof.
  destruct (str_eqb a b) eqn:E1, (str_eqb b a) eqn:E2; try reflexivity.
  - apply str_eqb_eq in E1. subst. rewrite str_eqb_refl in E2. discriminate.
  - apply str_eqb_eq in E2. subst. rewrite str_eqb_refl in E1. discriminate.
Qed.

Lemma strs_eqb_eq a b : strs_eqb a b = true <-> a = b.
Proof. apply list_eqb_spec. apply str_eqb_eq. Qed.

Lemma sumZ_cons x l : sumZ (x :: l) = x + sumZ l.
Proof.
  unfold sumZ. cbn [fold_left].
  assert (G : forall l a b, fold_left Z.add l (a + b) = a + fold_left Z.add l b).
  { clear. induction l as [|y l IH]; intros a b; cbn [fold_left]; [reflexivity|].
    rewrite <- IH. f_equal. lia. }
  rewrite <- G. f_equal. lia.
Qed.

Lemma sumZ_nil : sumZ [] = 0.
Proof. reflexivity. Qed.

Lemma sumZ_app a b : sumZ (a ++ b) = sumZ a + sumZ b.
Proof.
  induction a as [|x a IH]; [reflexivity|].
  cbn [app]. rewrite !sumZ_cons, IH. lia.
Qed.

Lemma sumZ_rev a : sumZ (rev a) = sumZ a.
Proof.
  induction a as [|x a IH]; [reflexivity|].
  cbn [rev]. rewrite sumZ_app, sumZ_cons, IH, sumZ_cons, sumZ_nil. lia.
Qed.
