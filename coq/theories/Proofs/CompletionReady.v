(* Completion, part 3: when the cuts begin every key of b_multi is [Ready]:
   all the results listed for the contig hold it at one of their ends,
   untouched, and their baits are a run of consecutive tiles.  The run has no
   hole because a tile lying strictly inside the contig's span has a result
   that is the single row f, and no justified discard can remove it ([KIn],
   carried by Proofs.CoreKeptHeld's generic K machinery): this is where
   "every piece is at least one error length long" is used. *)
From Tola Require Import Py.Base Py.Sort Model.Fragment Model.Scaffold Model.Lookup
  Model.OverlapResult Model.OvrSpec Model.NaturalKey Model.Namer Model.Remap Model.RemapSpec
  Proofs.BaseLemmas Proofs.Lookup Proofs.OverlapResult Proofs.RemapHead Proofs.PipelineInv
  Proofs.CoreKeptGood Proofs.CoreKeptResolver Proofs.CoreKeptLookup Proofs.CoreKeptHeld
  Proofs.CoreKeptDeepK Proofs.CoreKept Proofs.CoreKeptDeepCut
  Proofs.CompletionResolver Proofs.CompletionCut.
From Coq Require Import Lia ZifyBool Permutation.

#[local] Hint Rewrite rows_len_app rows_len_cons rows_len_nil rows_len_rev : rl.

Section Ready.
  Variable inp : list (str * list row).
  Variable err : Z.
  Variable all : list frag.
  Hypothesis Hids : NoDup (map f_id (in_frags inp)).
  Hypothesis Hidpos : Forall (fun f => 0 <= f_id f) (in_frags inp).
  Hypothesis Hkeys : NoDup (map key_of (in_frags inp)).
  Hypothesis Hnames : NoDup (map fst inp).
  Hypothesis Hposr : forall name src, In (name, src) inp -> pos_rows src.
  Hypothesis Herr : 1 <= err.
  Hypothesis Hall : Forall (fun b => 1 <= f_start b <= f_end b) all.
  Hypothesis Hdisj : ForallOrdPairs Rdisj all.
  Hypothesis Hbig : forall b, In b all -> 1 < f_start b -> err <= f_len b.
  Hypothesis Hnext : forall b b', In b all -> In b' all -> f_name b = f_name b' ->
    f_end b < f_start b' -> exists t, In t all /\ f_name t = f_name b /\ f_start t = f_end b + 1.
  Hypothesis Hprev : forall b b', In b all -> In b' all -> f_name b = f_name b' ->
    f_end b' < f_start b -> exists t, In t all /\ f_name t = f_name b /\ f_end t + 1 = f_start b.

  (* a bait strictly inside the span of contig f: its result is the single row f *)
  Definition KIn (r : ovr) : Prop :=
    forall src a0 f c0, In (f_name (o_bait r), src) inp -> src = a0 ++ RF f :: c0 ->
      rows_len a0 + 1 < f_start (o_bait r) -> f_end (o_bait r) < rows_len a0 + f_len f ->
      o_rows r = [RF f] /\ o_start r = rows_len a0 + 1 /\ o_end r = rows_len a0 + f_len f.

  Lemma KIn_ext r r' :
    o_bait r' = o_bait r -> o_rows r' = o_rows r -> o_start r' = o_start r -> o_end r' = o_end r ->
    KIn r -> KIn r'.
  Proof. intros E0 E1 E2 E3 H. unfold KIn. rewrite E0, E1, E2, E3. exact H. Qed.

  Lemma bait_ok b : In b all -> 1 <= f_start b <= f_end b.
  Proof. intros H. rewrite Forall_forall in Hall. apply Hall. exact H. Qed.

  Lemma prefix_nonneg name src a0 x c0 : In (name, src) inp -> src = a0 ++ x :: c0 -> 0 <= rows_len a0.
  Proof.
    intros Hin E. pose proof (Hposr _ _ Hin) as Hp. rewrite E in Hp.
    apply pos_rows_app in Hp. destruct Hp as [Hp _]. apply pos_rows_len_nonneg. exact Hp.
  Qed.

  Lemma KIn_init bait rows fo :
    In bait all -> In (f_name bait, rows) inp ->
    lookup_spec rows (f_start bait) (f_end bait) (Some fo) -> KIn (ovr_of_found bait fo).
  Proof.
    intros Hb Hin (i & j & L & R & S1 & E1 & (o1 & Ho1) & (o2 & Ho2) & Mi & Mj & U).
    intros src a0 f c0 Hsrc E H1 H2. cbn [ovr_of_found o_bait o_rows o_start o_end] in *.
    pose proof (In_unique_name inp _ _ _ Hnames Hsrc Hin) as ->.
    pose proof (Hposr _ _ Hin) as Hp. pose proof (bait_ok _ Hb) as V.
    destruct (split_span _ _ _ _ E) as (Hk & Hks & Hke). cbn [row_len] in Hke.
    set (k := length a0) in *.
    assert (Mk : meets rows (f_start bait) (f_end bait) k) by (unfold meets; lia).
    pose proof (U k (ex_intro _ f Hk) Mk) as Lk.
    assert (Ej : j = k).
    { destruct (Nat.eq_dec j k) as [Ee|N]; [exact Ee|]. exfalso.
      assert (G := pre_mono_le rows Hp (S k) j ltac:(lia)). unfold Lookup.pre in G.
      unfold meets, span_start, span_end in *. lia. }
    subst j.
    assert (Ei : i = k).
    { destruct (Nat.eq_dec i k) as [Ee|N]; [exact Ee|]. exfalso.
      assert (G := pre_mono_le rows Hp (S i) k ltac:(lia)). unfold Lookup.pre in G.
      unfold meets, span_start, span_end in *. lia. }
    subst i. rewrite R, S1, E1.
    replace (S k - k)%nat with 1%nat by lia. rewrite (skipn_nth_cons _ _ _ Hk).
    split; [reflexivity|]. split; lia.
  Qed.

  Lemma KIn_ds src r r' :
    In (o_bait r) all -> In (f_name (o_bait r), src) inp -> GoodU err src r -> KIn r ->
    just_start err r -> discard_start r = Ok r' -> KIn r'.
  Proof.
    intros Hb Hin HG HK Hj Hd src' a0 f c0 Hs' E H1 H2.
    destruct (discard_start_bait _ _ Hd) as [B _]. rewrite B in *.
    destruct (HK src' a0 f c0 Hs' E H1 H2) as (Er & Es & Ee).
    pose proof (prefix_nonneg _ _ _ _ _ Hs' E) as Hnn. pose proof (bait_ok _ Hb) as V.
    exfalso. destruct Hj as [(ov & Hov & Hlt) | (Hz & _)].
    - pose proof (start_row_bait_overlap_spec r (RF f) ov (first_row_cons _ _ _ Er) Hov) as Eo.
      cbn [row_len] in Eo. pose proof (Hbig _ Hb ltac:(lia)) as Hbg. unfold f_len in *. lia.
    - apply Hz. rewrite Er. reflexivity.
  Qed.

  Lemma KIn_de src r r' :
    In (o_bait r) all -> In (f_name (o_bait r), src) inp -> GoodU err src r -> KIn r ->
    just_end err r -> discard_end r = Ok r' -> KIn r'.
  Proof.
    intros Hb Hin HG HK Hj Hd src' a0 f c0 Hs' E H1 H2.
    destruct (discard_end_bait _ _ Hd) as [B _]. rewrite B in *.
    destruct (HK src' a0 f c0 Hs' E H1 H2) as (Er & Es & Ee).
    pose proof (prefix_nonneg _ _ _ _ _ Hs' E) as Hnn. pose proof (bait_ok _ Hb) as V.
    exfalso. destruct Hj as [(ov & Hov & Hlt) | (Hz & _)].
    - pose proof (end_row_bait_overlap_spec r (RF f) ov (last_row_snoc r [] _ Er) Hov) as Eo.
      cbn [row_len] in Eo. pose proof (Hbig _ Hb ltac:(lia)) as Hbg. unfold f_len in *. lia.
    - apply Hz. rewrite Er. reflexivity.
  Qed.

  (* ------------------------------------------------ one holder of the contig *)
  Section Holder.
    Variables (name : str) (src a0 c0 : list row) (f : frag).
    Hypothesis Hsrc : In (name, src) inp.
    Hypothesis Esrc : src = a0 ++ RF f :: c0.
    Let lo := rows_len a0 + 1.
    Let hi := rows_len a0 + f_len f.

    Lemma src_ids : NoDup (map f_id (frags_of src)).
    Proof. exact (src_nodup_g f_id inp name src Hids Hsrc). Qed.

    Lemma holder_pos r a c' :
      GoodU err src r -> o_rows r = a ++ RF f :: c' ->
      o_start r + rows_len a = lo
      /\ lo <= f_end (o_bait r) /\ f_start (o_bait r) <= hi.
    Proof.
      intros HG Er. destruct (good_row err src r a f c' HG Er) as [P [M1 M2]].
      assert (P0 : at_pos src f lo) by (exists a0, c0; split; [exact Esrc | reflexivity]).
      pose proof (at_pos_unique src f _ _ src_ids P P0) as E. unfold hi. lia.
    Qed.

    Lemma rows_ids r : GoodU err src r -> NoDup (map f_id (frags_of (o_rows r))).
    Proof.
      intros [[E _] | (pre & post & Hs & _)]; [rewrite E; constructor|].
      eapply rows_nodup_ids; [exact Hs | exact src_ids].
    Qed.

    Lemma rows_tail_nonneg r a x c' : GoodU err src r -> o_rows r = a ++ x :: c' -> 0 <= rows_len a /\ 0 <= rows_len c'.
    Proof.
      intros [[E _] | (pre & post & Hs & _)] Er; [rewrite E in Er; destruct a; discriminate|].
      pose proof (Hposr _ _ Hsrc) as Hp. rewrite Hs, Er in Hp.
      apply pos_rows_app in Hp. destruct Hp as [_ Hp]. apply pos_rows_app in Hp. destruct Hp as [Hp _].
      apply pos_rows_app in Hp. destruct Hp as [Hpa Hpc]. inversion Hpc as [|? ? _ Hpc']; subst.
      split; apply pos_rows_len_nonneg; assumption.
    Qed.

    (* with another holder on a disjoint bait, f sits at an end *)
    Lemma holder_geo r s2 e2 :
      GoodU err src r -> In (RF f) (o_rows r) ->
      lo <= e2 -> s2 <= hi ->
      (f_end (o_bait r) < s2 \/ e2 < f_start (o_bait r)) ->
      Geo f lo hi r.
    Proof.
      intros HG Hin M1 M2 Hd. apply in_split in Hin. destruct Hin as (a & c' & Er).
      destruct (holder_pos r a c' HG Er) as (Hpos & B1 & B2).
      pose proof (rows_ids r HG) as Hnd.
      destruct (rows_tail_nonneg r a (RF f) c' HG Er) as (Na & Nc).
      pose proof (GoodU_nonempty_head _ _ _ HG ltac:(rewrite Er; destruct a; discriminate)) as (g0 & t0 & Eh).
      pose proof (GoodU_nonempty_last _ _ _ HG ltac:(rewrite Er; destruct a; discriminate)) as (g1 & t1 & El).
      destruct a as [|x0 a'].
      - cbn [app] in Er. rewrite rows_len_nil in Hpos.
        destruct (exists_last' c') as [-> | (t & x & ->)].
        + left. split; [exact Er|]. split; [lia|].
          pose proof (good_end err src r [] f HG Er) as Ee. rewrite rows_len_nil in Ee. unfold hi. lia.
        + right. left. exists t, x. split; [exact Er|].
          assert (Ex : x = RF g1).
          { rewrite Er in El. change (RF f :: t ++ [x]) with ((RF f :: t) ++ [x]) in El.
            apply app_inj_tail in El. tauto. }
          subst x.
          assert (Hne : f_id g1 <> f_id f).
          { rewrite Er in Hnd. rewrite frags_of_RF in Hnd. cbn [map] in Hnd.
            inversion Hnd as [|? ? Hn _]; subst. intros E. apply Hn. rewrite <- E.
            apply in_map. apply In_frags_of_iff. apply in_or_app. right. left. reflexivity. }
          split; [cbn [row_is]; lia|]. split; [lia|].
          destruct (good_row err src r (RF f :: t) g1 [] HG) as [_ [N1 N2]].
          { rewrite Er. cbn [app]. reflexivity. }
          rewrite rows_len_cons in N1. cbn [row_len] in N1.
          assert (0 <= rows_len t).
          { rewrite rows_len_app in Nc. pose proof (rows_tail_nonneg r (RF f :: t) (RF g1) [] HG) as [X _].
            - rewrite Er. reflexivity.
            - rewrite rows_len_cons in X. cbn [row_len] in X.
              pose proof (Hposr _ _ Hsrc) as Hp. rewrite Esrc in Hp. apply pos_rows_app in Hp.
              destruct Hp as [_ Hp]. inversion Hp as [|? ? Hf _]; subst. cbn [row_len] in Hf.
              destruct HG as [[E0 _] | (pre & post & Hs & _)]; [rewrite E0 in Er; discriminate|].
              pose proof (Hposr _ _ Hsrc) as Hp2. rewrite Hs, Er in Hp2.
              apply pos_rows_app in Hp2. destruct Hp2 as [_ Hp2]. apply pos_rows_app in Hp2.
              destruct Hp2 as [Hp2 _]. inversion Hp2 as [|? ? _ Hp3]; subst.
              apply pos_rows_app in Hp3. destruct Hp3 as [Hp3 _]. apply pos_rows_len_nonneg. exact Hp3. }
          unfold hi. lia.
      - assert (Ex : x0 = RF g0) by (rewrite Er in Eh; cbn [app] in Eh; injection Eh as E _; exact E).
        subst x0.
        assert (Hne : f_id g0 <> f_id f).
        { rewrite Er in Hnd. cbn [app] in Hnd. rewrite frags_of_RF in Hnd. cbn [map] in Hnd.
          inversion Hnd as [|? ? Hn _]; subst. intros E. apply Hn. rewrite E.
          apply in_map. apply In_frags_of_iff. apply in_or_app. right. left. reflexivity. }
        destruct (good_row err src r [] g0 (a' ++ RF f :: c') HG) as [_ [N1 N2]].
        { rewrite Er. reflexivity. }
        rewrite rows_len_nil in N2.
        rewrite rows_len_cons in Hpos, Na. cbn [row_len] in Hpos, Na.
        assert (Na' : 0 <= rows_len a').
        { destruct HG as [[E0 _] | (pre & post & Hs & _)]; [rewrite E0 in Er; discriminate|].
          pose proof (Hposr _ _ Hsrc) as Hp2. rewrite Hs, Er in Hp2.
          apply pos_rows_app in Hp2. destruct Hp2 as [_ Hp2]. apply pos_rows_app in Hp2.
          destruct Hp2 as [Hp2 _]. cbn [app] in Hp2. inversion Hp2 as [|? ? _ Hp3]; subst.
          apply pos_rows_app in Hp3. destruct Hp3 as [Hp3 _]. apply pos_rows_len_nonneg. exact Hp3. }
        assert (Hs_lt : f_start (o_bait r) < lo) by lia.
        destruct (exists_last' c') as [-> | (t & x & ->)].
        + right. right. exists (RF g0), a'. split; [exact Er|]. split; [cbn [row_is]; lia|].
          split; [|lia].
          pose proof (good_end err src r (RF g0 :: a') f HG Er) as Ee.
          rewrite rows_len_cons in Ee. cbn [row_len] in Ee. unfold hi. lia.
        + exfalso.
          assert (Ex : x = RF g1).
          { rewrite Er in El. rewrite app_comm_cons, app_assoc in El.
            apply app_inj_tail in El. tauto. }
          subst x.
          destruct (good_row err src r ((RF g0 :: a') ++ RF f :: t) g1 [] HG) as [_ [N3 N4]].
          { rewrite Er. rewrite <- app_assoc. reflexivity. }
          rewrite rows_len_app, !rows_len_cons in N3. cbn [row_len] in N3.
          assert (0 <= rows_len t).
          { destruct HG as [[E0 _] | (pre & post & Hs & _)]; [rewrite E0 in Er; discriminate|].
            pose proof (Hposr _ _ Hsrc) as Hp2. rewrite Hs, Er in Hp2.
            apply pos_rows_app in Hp2. destruct Hp2 as [_ Hp2]. apply pos_rows_app in Hp2.
            destruct Hp2 as [Hp2 _]. apply pos_rows_app in Hp2. destruct Hp2 as [_ Hp2].
            inversion Hp2 as [|? ? _ Hp3]; subst.
            apply pos_rows_app in Hp3. destruct Hp3 as [Hp3 _]. apply pos_rows_len_nonneg. exact Hp3. }
          assert (He_gt : hi < f_end (o_bait r)) by (unfold hi; lia).
          lia.
    Qed.
  End Holder.

  (* ------------------------------------------------------- the whole state *)
  Definition dummy_frag : frag := mkFrag 0 [] 0 0 0 [].
  Definition bt_of (st : list ovr) (id : rid) : frag :=
    match get_ovr st id with Ok r => o_bait r | Err _ => dummy_frag end.

  Lemma bt_of_get st id r : get_ovr st id = Ok r -> bt_of st id = o_bait r.
  Proof. intros H. unfold bt_of. rewrite H. reflexivity. Qed.

  Lemma all_disj a b : In a all -> In b all -> a <> b -> Rdisj a b.
  Proof.
    intros Ha Hb Hne.
    apply In_nth_error in Ha. destruct Ha as (i & Hi). apply In_nth_error in Hb. destruct Hb as (j & Hj).
    eapply (FOP_Rdisj_nth all i j); [exact Hdisj | | exact Hi | exact Hj]. intros ->. congruence.
  Qed.

  Section State.
    Variable b : bstate.
    Hypothesis HI : Inv inp b.
    Hypothesis HS : SG inp err all (b_store b).
    Hypothesis HF : ForallOrdPairs Rdisj (map o_bait (b_store b)).
    Hypothesis Hndi : NDI (b_found b).
    Hypothesis HL : Lst (b_store b) (b_found b).
    Hypothesis HH : Held (b_store b) (b_found b).
    Hypothesis HK : KS (KIn) (b_store b).
    Hypothesis Htrk : forall bait, In bait all -> must inp bait -> In bait (map o_bait (b_store b)).

    Lemma holder_facts k f ids id :
      aget key_eqb (b_found b) k = Some (f, ids) -> In id ids ->
      0 <= id /\ exists r src, get_ovr (b_store b) id = Ok r /\ In (RF f) (o_rows r)
        /\ In (o_bait r) all /\ In (f_name (o_bait r), src) inp /\ GoodU err src r
        /\ In (RF f) src.
    Proof.
      intros Ha Hi. destruct (Inv_entry inp b k f ids HI Ha) as (_ & _ & _ & Kpos & _).
      split; [rewrite Forall_forall in Kpos; apply Kpos; exact Hi|].
      destruct (HL k f ids id Ha Hi) as (r & Hg & Hin).
      destruct (HS r (get_ovr_In _ _ _ Hg)) as (Hb & src & Hsrc & HG).
      exists r, src. repeat (split; [assumption|]).
      pose proof Hin as Hin'. apply in_split in Hin'. destruct Hin' as (a & c' & Er).
      destruct (good_row err src r a f c' HG Er) as [P _]. eapply at_pos_In. exact P.
    Qed.

    (* the scaffold of the contig, common to all its holders *)
    Lemma holders_same_src (f : frag) (r r' : ovr) src src' :
      In (f_name (o_bait r), src) inp -> In (RF f) src ->
      In (f_name (o_bait r'), src') inp -> In (RF f) src' ->
      f_name (o_bait r') = f_name (o_bait r) /\ src' = src.
    Proof.
      intros H1 H2 H3 H4. pose proof (same_src inp Hids _ _ _ _ f H3 H1 H4 H2) as E.
      injection E as E1 E2. split; assumption.
    Qed.

    Lemma ready_at_cut k : In k (b_multi b) -> Ready inp (bt_of (b_store b)) (b_store b) (b_found b) k.
    Proof.
      intros Hk. pose proof HI as (_ & _ & (_ & _ & _ & F4) & _).
      destruct (aget key_eqb (b_found b) k) as [[f ids]|] eqn:Ha.
      2:{ exfalso. apply (aget_None key_eqb key_eqb_eq) in Ha. apply Ha. apply F4. exact Hk. }
      destruct (Inv_entry inp b k f ids HI Ha) as (K1 & K2 & K3 & Kpos & K5).
      apply K5 in Hk.
      assert (Hnd : NoDup ids).
      { apply (aget_In key_eqb key_eqb_eq) in Ha. unfold NDI in Hndi. rewrite Forall_forall in Hndi.
        apply (Hndi _ Ha). }
      destruct ids as [|id1 [|id2 ids']]; [cbn in Hk; lia | cbn in Hk; lia|].
      set (ids := id1 :: id2 :: ids') in *.
      destruct (holder_facts k f ids id1 Ha (or_introl eq_refl))
        as (P1 & r1 & src & G1 & In1 & B1 & S1 & GU1 & Fs1).
      pose proof Fs1 as Fs1'. apply in_split in Fs1'. destruct Fs1' as (a0 & c0 & Esrc).
      set (name := f_name (o_bait r1)) in *.
      set (lo := rows_len a0 + 1). set (hi := rows_len a0 + f_len f).
      (* every holder lives on the same scaffold *)
      assert (Hall_h : forall id, In id ids ->
                0 <= id /\ exists r, get_ovr (b_store b) id = Ok r /\ In (RF f) (o_rows r)
                  /\ In (o_bait r) all /\ f_name (o_bait r) = name /\ GoodU err src r
                  /\ lo <= f_end (o_bait r) /\ f_start (o_bait r) <= hi).
      { intros id Hi. destruct (holder_facts k f ids id Ha Hi) as (P & r & src' & G & In' & B & S' & GU & Fs).
        split; [exact P|]. exists r.
        destruct (holders_same_src f r1 r src src' S1 Fs1 S' Fs) as (En & Es). subst src'.
        repeat (split; [assumption|]).
        pose proof In' as In''. apply in_split in In''. destruct In'' as (a & c' & Er).
        destruct (holder_pos name src a0 c0 f S1 Esrc r a c' GU Er) as (_ & M1 & M2).
        split; assumption. }
      assert (Hdis : forall id id' r r', In id ids -> In id' ids -> id <> id' ->
                get_ovr (b_store b) id = Ok r -> get_ovr (b_store b) id' = Ok r' ->
                f_end (o_bait r) < f_start (o_bait r') \/ f_end (o_bait r') < f_start (o_bait r)).
      { intros id id' r r' Hi Hi' Hne Hg Hg'.
        destruct (Hall_h id Hi) as (P & r0 & G0 & _ & _ & N0 & _). rewrite Hg in G0. injection G0 as <-.
        destruct (Hall_h id' Hi') as (P' & r0' & G0' & _ & _ & N0' & _). rewrite Hg' in G0'. injection G0' as <-.
        assert (Hd : Rdisj (o_bait r) (o_bait r')).
        { eapply (FOP_Rdisj_nth _ (Z.to_nat id) (Z.to_nat id')); [exact HF | lia | |].
          - apply get_ovr_nth_map. exact Hg.
          - apply get_ovr_nth_map. exact Hg'. }
        apply Hd. congruence. }
      (* a tile strictly inside the contig is a holder *)
      assert (Hinside : forall t, In t all -> f_name t = name -> lo < f_start t -> f_end t < hi ->
                exists id r, In id ids /\ get_ovr (b_store b) id = Ok r /\ o_bait r = t).
      { intros t Ht Hn H1 H2. pose proof (bait_ok t Ht) as Vt.
        assert (Hm : must inp t).
        { exists src, (length a0). rewrite Hn. split; [exact S1|].
          destruct (split_span _ _ _ _ Esrc) as (X1 & X2 & X3). cbn [row_len] in X3.
          split; [exists f; exact X1|]. unfold meets. unfold lo, hi in *. lia. }
        pose proof (Htrk t Ht Hm) as Hs. apply In_nth_error in Hs. destruct Hs as (n & Hn').
        destruct (nth_map_bait _ _ _ Hn') as (rt & Hrt & Ert & Grt).
        pose proof (HK rt (nth_error_In _ _ Hrt)) as Kt.
        destruct (Kt src a0 f c0) as (Er & _).
        - rewrite Ert, Hn. exact S1.
        - exact Esrc.
        - rewrite Ert. exact H1.
        - rewrite Ert. exact H2.
        - destruct (HH (Z.of_nat n) rt f ltac:(lia) Grt) as (f0 & ids0 & Ha0 & Hi0).
          { rewrite Er. left. reflexivity. }
          rewrite K1, Ha in Ha0. injection Ha0 as <- <-.
          exists (Z.of_nat n), rt. split; [exact Hi0|]. split; [exact Grt | exact Ert]. }
      exists f, ids, lo, hi.
      split; [exact Ha|]. split; [exact K1|]. split; [exact K2|]. split; [unfold lo, hi; lia|].
      split; [exact Hnd|]. split; [discriminate|]. split; [exact Kpos|].
      split; [|split; [|split; [|split]]].
      - (* each holder has f at an end *)
        intros id Hi. destruct (Hall_h id Hi) as (P & r & G & Inr & B & N & GU & M1 & M2).
        exists r. split; [exact G|]. split; [symmetry; apply bt_of_get; exact G|].
        (* another holder *)
        assert (Hother : exists id', In id' ids /\ id' <> id).
        { destruct (Z.eq_dec id id1) as [-> | Hne].
          - exists id2. split; [right; left; reflexivity|]. intros E. subst id2.
            inversion Hnd as [|? ? Hn _]; subst. apply Hn. left. reflexivity.
          - exists id1. split; [left; reflexivity|]. intros E. apply Hne. symmetry. exact E. }
        destruct Hother as (id' & Hi' & Hne).
        destruct (Hall_h id' Hi') as (P' & r' & G' & _ & _ & _ & _ & M1' & M2').
        apply (holder_geo name src a0 c0 f S1 Esrc r (f_start (o_bait r')) (f_end (o_bait r')));
          [exact GU | exact Inr | exact M1' | exact M2'|].
        apply (Hdis id id' r r' Hi Hi' (fun E => Hne (eq_sym E)) G G').
      - intros id Hi. destruct (Hall_h id Hi) as (P & r & G & _ & B & _ & _ & M1 & M2).
        rewrite (bt_of_get _ _ _ G). pose proof (bait_ok _ B). split; [lia|]. split; assumption.
      - intros id id' Hi Hi' Hne.
        destruct (Hall_h id Hi) as (_ & r & G & _). destruct (Hall_h id' Hi') as (_ & r' & G' & _).
        rewrite (bt_of_get _ _ _ G), (bt_of_get _ _ _ G'). exact (Hdis id id' r r' Hi Hi' Hne G G').
      - (* a holder further right: the tile abutting on the right is a holder *)
        intros id id' Hi Hi'.
        destruct (Hall_h id Hi) as (_ & r & G & _ & B & N & _ & M1 & M2).
        destruct (Hall_h id' Hi') as (_ & r' & G' & _ & B' & N' & _ & M1' & M2').
        rewrite (bt_of_get _ _ _ G), (bt_of_get _ _ _ G'). intros Hlt.
        destruct (Hnext _ _ B B' ltac:(congruence) Hlt) as (t & Ht & Hnt & Hst).
        pose proof (bait_ok _ B') as V'. pose proof (bait_ok _ Ht) as Vt.
        destruct (Z.eq_dec (f_start (o_bait r')) (f_end (o_bait r) + 1)) as [Et | Net].
        + exists id'. split; [exact Hi'|]. rewrite (bt_of_get _ _ _ G'). exact Et.
        + assert (Net' : t <> o_bait r') by (intros E; apply Net; rewrite <- E; exact Hst).
          pose proof (all_disj t (o_bait r') Ht B' Net' ltac:(congruence)) as Hd.
          destruct (Hinside t Ht ltac:(congruence) ltac:(unfold lo; lia) ltac:(unfold hi; lia))
            as (id2' & r2 & Hi2 & G2 & E2).
          exists id2'. split; [exact Hi2|]. rewrite (bt_of_get _ _ _ G2), E2. exact Hst.
      - intros id id' Hi Hi'.
        destruct (Hall_h id Hi) as (_ & r & G & _ & B & N & _ & M1 & M2).
        destruct (Hall_h id' Hi') as (_ & r' & G' & _ & B' & N' & _ & M1' & M2').
        rewrite (bt_of_get _ _ _ G), (bt_of_get _ _ _ G'). intros Hlt.
        destruct (Hprev _ _ B B' ltac:(congruence) Hlt) as (t & Ht & Hnt & Hst).
        pose proof (bait_ok _ B') as V'. pose proof (bait_ok _ Ht) as Vt. pose proof (bait_ok _ B) as V.
        destruct (Z.eq_dec (f_end (o_bait r') + 1) (f_start (o_bait r))) as [Et | Net].
        + exists id'. split; [exact Hi'|]. rewrite (bt_of_get _ _ _ G'). exact Et.
        + assert (Net' : t <> o_bait r') by (intros E; apply Net; rewrite <- E; exact Hst).
          pose proof (all_disj t (o_bait r') Ht B' Net' ltac:(congruence)) as Hd.
          destruct (Hinside t Ht ltac:(congruence) ltac:(unfold lo; lia) ltac:(unfold hi; lia))
            as (id2' & r2 & Hi2 & G2 & E2).
          exists id2'. split; [exact Hi2|]. rewrite (bt_of_get _ _ _ G2), E2. exact Hst.
    Qed.
  End State.
End Ready.

Print Assumptions ready_at_cut.
