(* Completion, part 1: the converse of [Held] ([Lst]: a result listed under a
   key still holds that fragment as a row), carried through the lookups and the
   overhang resolver; and PROGRESS of the resolver: under [Inv] + [Lst] the
   loop [discard_loop] never raises (it returns Ok or runs out of fuel, and
   Proofs.Fuel excludes the latter). *)
From Tola Require Import Py.Base Py.Sort Model.Fragment Model.Scaffold Model.Lookup
  Model.OverlapResult Model.OvrSpec Model.NaturalKey Model.Namer Model.Remap Model.RemapSpec
  Proofs.BaseLemmas Proofs.Lookup Proofs.OverlapResult Proofs.RemapHead Proofs.PipelineInv
  Proofs.CoreKeptGood Proofs.CoreKeptResolver Proofs.CoreKeptLookup Proofs.CoreKeptHeld Proofs.Fuel.
From Coq Require Import Lia ZifyBool.

(* ------------------------------------------------------------ generic bits *)
Lemma mapM_progress {A B} (f : A -> res B) : forall l,
  Forall (fun x => exists y, f x = Ok y) l -> exists l', mapM f l = Ok l'.
Proof.
  induction l as [|x l IH]; intros H; cbn [mapM]; [eauto|].
  inversion H as [|? ? (y & Hy) Hl]; subst. destruct (IH Hl) as (l' & El).
  rewrite Hy, El. cbn [bind]. eauto.
Qed.

(* ---------------------------------------------------------------- holds *)
Definition holds (st : list ovr) (id : rid) (f : frag) : Prop :=
  exists r, get_ovr st id = Ok r /\ In (RF f) (o_rows r).

Definition Lst (st : list ovr) (found : list (fkey * (frag * list rid))) : Prop :=
  forall k f ids id, aget key_eqb found k = Some (f, ids) -> In id ids -> holds st id f.

Lemma holds_app st r1 id f : holds st id f -> holds (st ++ [r1]) id f.
Proof.
  unfold holds, get_ovr. intros (r & Hg & Hin).
  destruct (nth_error st (Z.to_nat id)) as [r0|] eqn:E; [|discriminate]. injection Hg as ->.
  exists r. rewrite nth_error_app1 by (apply nth_error_Some; congruence). rewrite E. auto.
Qed.

Lemma holds_rows_eq st st' id f :
  map o_rows st' = map o_rows st -> holds st id f -> holds st' id f.
Proof.
  intros Hm (r & Hg & Hin).
  pose proof (get_ovr_nth_map o_rows _ _ _ Hg) as Hn. rewrite <- Hm, nth_error_map in Hn.
  destruct (nth_error st' (Z.to_nat id)) as [r'|] eqn:E; [|discriminate]. cbn [option_map] in Hn.
  injection Hn as Hn. exists r'. split; [unfold get_ovr; rewrite E; reflexivity|].
  rewrite Hn. exact Hin.
Qed.

Lemma Lst_rows_eq st st' found :
  map o_rows st' = map o_rows st -> Lst st found -> Lst st' found.
Proof. intros Hm HL k f ids id Ha Hi. eapply holds_rows_eq; [exact Hm|]. eapply HL; eassumption. Qed.

(* ------------------------------------------- store_found_one, read backwards *)
Lemma store_found_one_src id g found multi found' multi' k f ids' id' :
  store_found_one id (found, multi) g = (found', multi') ->
  aget key_eqb found' k = Some (f, ids') -> In id' ids' ->
  (exists ids, aget key_eqb found k = Some (f, ids) /\ In id' ids)
  \/ (id' = id /\ k = key_of g /\ (f = g \/ exists ids, aget key_eqb found k = Some (f, ids))).
Proof.
  intros H Ha Hi. unfold store_found_one in H.
  destruct (aget key_eqb found (key_of g)) as [[f1 ids1]|] eqn:E.
  - injection H as <- _. destruct (key_eqb k (key_of g)) eqn:Ek.
    + apply key_eqb_eq in Ek. subst k. rewrite aget_aset_same in Ha. injection Ha as <- <-.
      apply in_app_or in Hi. destruct Hi as [Hi | [<- | []]].
      * left. exists ids1. split; [exact E | exact Hi].
      * right. split; [reflexivity|]. split; [reflexivity|]. right. exists ids1. exact E.
    + apply key_eqb_neq in Ek. rewrite (aget_aset_other key_eqb key_eqb_eq) in Ha by exact Ek.
      left. exists ids'. split; assumption.
  - injection H as <- _. destruct (aget key_eqb found k) as [[f2 ids2]|] eqn:E2.
    + rewrite (aget_app_Some key_eqb _ _ _ _ E2) in Ha. injection Ha as <- <-.
      left. exists ids2. split; [reflexivity | exact Hi].
    + rewrite (aget_app_None key_eqb _ _ _ E2) in Ha. cbn [fst snd] in Ha.
      destruct (key_eqb k (key_of g)) eqn:Ek; [|discriminate].
      apply key_eqb_eq in Ek. injection Ha as <- <-. destruct Hi as [<- | []].
      right. split; [reflexivity|]. split; [exact Ek|]. left. reflexivity.
Qed.

Lemma store_found_one_entry id g found multi found' multi' k f ids' :
  store_found_one id (found, multi) g = (found', multi') ->
  aget key_eqb found' k = Some (f, ids') ->
  (exists ids, aget key_eqb found k = Some (f, ids)) \/ (k = key_of g /\ f = g).
Proof.
  intros H Ha. unfold store_found_one in H.
  destruct (aget key_eqb found (key_of g)) as [[f1 ids1]|] eqn:E.
  - injection H as <- _. destruct (key_eqb k (key_of g)) eqn:Ek.
    + apply key_eqb_eq in Ek. subst k. rewrite aget_aset_same in Ha. injection Ha as <- <-.
      left. exists ids1. exact E.
    + apply key_eqb_neq in Ek. rewrite (aget_aset_other key_eqb key_eqb_eq) in Ha by exact Ek.
      left. exists ids'. exact Ha.
  - injection H as <- _. destruct (aget key_eqb found k) as [[f2 ids2]|] eqn:E2.
    + rewrite (aget_app_Some key_eqb _ _ _ _ E2) in Ha. injection Ha as <- <-.
      left. exists ids2. reflexivity.
    + rewrite (aget_app_None key_eqb _ _ _ E2) in Ha. cbn [fst snd] in Ha.
      destruct (key_eqb k (key_of g)) eqn:Ek; [|discriminate].
      apply key_eqb_eq in Ek. injection Ha as <- <-. right. split; [exact Ek | reflexivity].
Qed.

Lemma store_found_fold_src id : forall gs found multi found' multi' k f ids' id',
  fold_left (store_found_one id) gs (found, multi) = (found', multi') ->
  aget key_eqb found' k = Some (f, ids') -> In id' ids' ->
  (exists ids, aget key_eqb found k = Some (f, ids) /\ In id' ids)
  \/ (id' = id /\ (exists g, In g gs /\ key_of g = k)
      /\ ((exists g, In g gs /\ key_of g = k /\ f = g)
          \/ exists ids, aget key_eqb found k = Some (f, ids))).
Proof.
  induction gs as [|g0 gs IH]; intros found multi found' multi' k f ids' id' H Ha Hi; cbn [fold_left] in H.
  - injection H as <- _. left. exists ids'. split; assumption.
  - destruct (store_found_one id (found, multi) g0) as [found1 multi1] eqn:E1.
    destruct (IH _ _ _ _ _ _ _ _ H Ha Hi) as [(ids1 & Ha1 & Hi1) | (-> & (g & Hg & Ek) & Hf)].
    + destruct (store_found_one_src _ _ _ _ _ _ _ _ _ _ E1 Ha1 Hi1) as [L | (-> & -> & Hf)].
      * left. exact L.
      * right. split; [reflexivity|]. split; [exists g0; split; [left; reflexivity | reflexivity]|].
        destruct Hf as [-> | Hf]; [left; exists g0; repeat split; left; reflexivity | right; exact Hf].
    + right. split; [reflexivity|]. split; [exists g; split; [right; exact Hg | exact Ek]|].
      destruct Hf as [(g' & Hg' & Ek' & ->) | (ids1 & Ha1)].
      * left. exists g'. split; [right; exact Hg' | split; [exact Ek' | reflexivity]].
      * destruct (store_found_one_entry _ _ _ _ _ _ _ _ _ E1 Ha1) as [L | (-> & ->)].
        -- right. exact L.
        -- left. exists g0. split; [left; reflexivity | split; reflexivity].
Qed.

Section LstLookups.
  Variable inp : list (str * list row).
  Hypothesis Hkeys : NoDup (map key_of (in_frags inp)).

  Lemma Inv_entry b k f ids : Inv inp b -> aget key_eqb (b_found b) k = Some (f, ids) ->
    key_of f = k /\ In f (in_frags inp) /\ incl ids (b_added b)
    /\ Forall (fun a => 0 <= a) ids /\ (In k (b_multi b) <-> (2 <= length ids)%nat).
  Proof.
    intros (_ & IA & (_ & _ & F3 & _) & _) Ha.
    pose proof (aget_In key_eqb key_eqb_eq _ _ _ Ha) as Hent.
    rewrite Forall_forall in F3. destruct (F3 _ Hent) as (K1 & K2 & K3 & K4 & K5).
    cbn [fst snd] in *. split; [exact K1|]. split; [exact K2|]. split; [exact K3|]. split; [|exact K5].
    apply Forall_forall. intros a Ha'. apply K3 in Ha'.
    pose proof (AddedOk_pos _ _ IA) as Hp. rewrite Forall_forall in Hp. apply Hp. exact Ha'.
  Qed.

  Lemma one_bait_Lst err tags orig b bait b' :
    Inv inp b -> Lst (b_store b) (b_found b) -> one_bait inp err tags orig b bait = Ok b' ->
    Lst (b_store b') (b_found b').
  Proof.
    intros HI HL H. pose proof (one_bait_inv inp err tags orig b bait b' HI H) as HI'.
    destruct (one_bait_cases _ _ _ _ _ _ _ H) as (rows & fo & _ & _ & Hm).
    destruct fo as [fo|]; [|subst b'; exact HL].
    destruct Hm as (lab & r1 & _ & Hst & Hfm).
    intros k f ids' id' Ha Hi. rewrite Hst.
    destruct (o_rows r1) as [|x0 t0] eqn:Er1.
    { injection Hfm as Ef _. rewrite Ef in Ha. apply holds_app. eapply HL; eassumption. }
    rewrite <- Er1 in Hfm.
    destruct (fold_left _ _ _) as [found' multi'] eqn:Ef. injection Hfm as Ef' _. rewrite Ef' in Ha.
    destruct (store_found_fold_src _ _ _ _ _ _ _ _ _ _ Ef Ha Hi)
      as [(ids & Ha0 & Hi0) | (-> & (g & Hg & Ek) & Hf)].
    - apply holds_app. eapply HL; eassumption.
    - exists r1. split; [apply get_ovr_app_new|].
      destruct Hf as [(g' & Hg' & _ & ->) | (ids & Ha0)]; [apply In_frags_of_iff; exact Hg'|].
      destruct (Inv_entry _ _ _ _ HI Ha0) as (K1 & K2 & _).
      assert (Hgin : In g (in_frags inp)).
      { destruct HI' as (S1 & _). apply (S1 r1).
        - rewrite Hst. apply in_or_app. right. left. reflexivity.
        - apply In_frags_of_iff. exact Hg. }
      assert (f = g).
      { eapply (NoDup_map_inj key_of); [exact Hkeys | exact K2 | exact Hgin | congruence]. }
      subst g. apply In_frags_of_iff. exact Hg.
  Qed.

  Definition IL (b : bstate) : Prop := Inv inp b /\ Lst (b_store b) (b_found b).

  Lemma one_pretext_Lst err b psc b' :
    IL b -> one_pretext_scaffold inp err b psc = Ok b' -> IL b'.
  Proof.
    intros (HI & HL) H. split; [eapply one_pretext_scaffold_inv; eassumption|].
    unfold one_pretext_scaffold in H. destruct psc as [pname prows].
    bind_inv H nm Hnm. bind_inv H b1 Hb1. bind_inv H st Hst. injection H as <-.
    assert (H1 : IL b1).
    { eapply (foldM_inv (one_bait inp err (fragment_tags prows) pname) IL); [| |exact Hb1].
      - intros s a s' (A1 & A2) Hs. split; [eapply one_bait_inv; eassumption|].
        eapply one_bait_Lst; eassumption.
      - split; [apply Inv_namer; exact HI | exact HL]. }
    cbn [with_store b_store b_found]. eapply Lst_rows_eq; [|apply H1].
    eapply rename_results_rows. exact Hst.
  Qed.

  Lemma pretext_Lst err pretext b0 b1 :
    IL b0 -> foldM (one_pretext_scaffold inp err) pretext b0 = Ok b1 -> IL b1.
  Proof.
    intros H0 H. eapply (foldM_inv (one_pretext_scaffold inp err) IL); [|exact H0|exact H].
    intros s a s' Hs Hstep. eapply one_pretext_Lst; eassumption.
  Qed.

  Lemma IL_init nm : IL (mkB [] [] [] [] nm 0).
  Proof. split; [apply Inv_init|]. intros k f ids id Ha. discriminate. Qed.
End LstLookups.

(* =============================================== the resolver: what stays *)
(* every fragment row of st survives in st', except the rows the fixes drop *)
Definition keepsF (st st' : list ovr) (fixes : list premise) : Prop :=
  forall id r g, 0 <= id -> get_ovr st id = Ok r -> In (RF g) (o_rows r) ->
    (forall p, In p fixes -> pr_rid p = id -> pr_frag p <> g) -> holds st' id g.

Lemma keepsF_refl st : keepsF st st [].
Proof. intros id r g _ Hg Hin _. exists r. auto. Qed.

Lemma p_apply_keeps st p st' : pvalid st p -> p_apply st p = Ok st' -> keepsF st st' [p].
Proof.
  intros (H0 & r & Hr & Hk) H id r2 g Hid Hg2 Hin Hne.
  unfold p_apply in H. rewrite Hr in H. cbn [bind] in H. bind_inv H r' Hr'. injection H as <-.
  destruct (Z.eq_dec (pr_rid p) id) as [E | N].
  2:{ exists r2. split; [|exact Hin]. rewrite get_put_other by assumption. exact Hg2. }
  subst id. rewrite Hr in Hg2. injection Hg2 as <-.
  exists r'. split; [eapply get_put_same; exact Hr|].
  specialize (Hne p (or_introl eq_refl) eq_refl).
  destruct (pr_kind p).
  - destruct Hk as (t & Et). destruct (discard_start_rows _ _ Hr') as (d & gaps & E & Hgp).
    rewrite E in Et. injection Et as -> _. rewrite E in Hin.
    destruct Hin as [Hin | Hin]; [injection Hin as Hin; congruence|].
    apply in_app_or in Hin. destruct Hin as [Hin | Hin]; [|exact Hin].
    exfalso. exact (not_gap_in g gaps Hgp Hin).
  - destruct Hk as (t & Et). destruct (discard_end_rows _ _ Hr') as (d & gaps & E & Hgp).
    rewrite E in Et. rewrite app_assoc in Et. apply app_inj_tail in Et. destruct Et as [_ ->].
    rewrite E in Hin. apply in_app_or in Hin. destruct Hin as [Hin | Hin]; [exact Hin|].
    apply in_app_or in Hin. destruct Hin as [Hin | [Hin | []]].
    + exfalso. exact (not_gap_in g gaps Hgp Hin).
    + injection Hin as Hin. congruence.
Qed.

Lemma keepsF_trans st st1 st2 fx1 fx2 :
  keepsF st st1 fx1 -> keepsF st1 st2 fx2 -> keepsF st st2 (fx1 ++ fx2).
Proof.
  intros H1 H2 id r g Hid Hg Hin Hne.
  destruct (H1 id r g Hid Hg Hin) as (r1 & Hg1 & Hin1).
  { intros p Hp. apply Hne. apply in_or_app. left. exact Hp. }
  apply (H2 id r1 g Hid Hg1 Hin1). intros p Hp. apply Hne. apply in_or_app. right. exact Hp.
Qed.

Lemma make_fixes_keeps err : forall pls st st' fixes,
  Forall (Forall (pvalid st)) pls -> ForallOrdPairs keys_apart pls ->
  make_fixes err st pls = Ok (st', fixes) -> keepsF st st' fixes.
Proof.
  induction pls as [|pl pls IH]; intros st st' fixes Hv Hop H; cbn [make_fixes] in H.
  - injection H as <- <-. apply keepsF_refl.
  - bind_inv H r1 Hr1. destruct r1 as [st1 fx]. bind_inv H r2 Hr2. destruct r2 as [st2 fxs].
    injection H as <- <-.
    inversion Hv as [|? ? Hvpl Hvpls]; subst. inversion Hop as [|? ? Hap Hop']; subst.
    apply fix_one_cases in Hr1. destruct Hr1 as [(-> & ->) | (p & -> & Hpin & Happ)].
    + apply (IH _ _ _ Hvpls Hop' Hr2).
    + rewrite Forall_forall in Hvpl. pose proof (Hvpl p Hpin) as Hpv.
      assert (Hv1 : Forall (Forall (pvalid st1)) pls).
      { rewrite Forall_forall in *. intros pl' Hpl'. specialize (Hap pl' Hpl').
        rewrite Forall_forall. intros q Hq.
        eapply pvalid_pres; [|exact Hpv| |exact Happ].
        - pose proof (Hvpls pl' Hpl') as Q. rewrite Forall_forall in Q. apply Q. exact Hq.
        - intros E. apply (Hap p q Hpin Hq). symmetry. exact E. }
      pose proof (IH _ _ _ Hv1 Hop' Hr2) as K2.
      pose proof (p_apply_keeps _ _ _ Hpv Happ) as K1.
      exact (keepsF_trans _ _ _ [p] fxs K1 K2).
Qed.

(* ------------------------------------------------ the bookkeeping and Lst *)
Definition LstW (st : list ovr) (found : list (fkey * (frag * list rid))) (fixes : list premise) : Prop :=
  forall k f ids id, aget key_eqb found k = Some (f, ids) -> In id ids ->
    (forall p, In p fixes -> pkey p = k -> pr_rid p <> id) -> holds st id f.

Lemma In_remove_first_ne x : forall l y, NoDup l -> In y (remove_first Z.eqb x l) -> In y l /\ y <> x.
Proof.
  induction l as [|z l IH]; intros y Hnd Hin; cbn [remove_first] in Hin; [destruct Hin|].
  inversion Hnd as [|? ? Hn Hnd']; subst. destruct (x =? z) eqn:E.
  - assert (x = z) by lia. subst z. split; [right; exact Hin|]. intros ->. contradiction.
  - destruct Hin as [<- | Hin]; [split; [left; reflexivity | lia]|].
    destruct (IH y Hnd' Hin) as [A B]. split; [right; exact A | exact B].
Qed.

Lemma Lst_bookkeeping st : forall fixes found multi found' multi',
  NDI found -> NoDup (map pkey fixes) -> Forall (fix_booked found multi) fixes ->
  LstW st found fixes ->
  foldM apply_fix_bookkeeping fixes (found, multi) = Ok (found', multi') ->
  Lst st found'.
Proof.
  induction fixes as [|p fixes IH]; intros found multi found' multi' Hndi Hnd Hb HW H; cbn [foldM] in H.
  - injection H as <- _. intros k f ids id Ha Hi. apply (HW k f ids id Ha Hi). intros q [].
  - bind_inv H acc Hacc. destruct acc as [found1 multi1].
    cbn [map] in Hnd. inversion Hnd as [|? ? Hnp Hnd']; subst.
    inversion Hb as [|? ? Hbp Hb']; subst.
    destruct Hbp as (Hpm & ids0 & Ha0 & Hi0).
    unfold apply_fix_bookkeeping in Hacc. fold (pkey p) in Hacc.
    apply existsb_key in Hpm. rewrite Hpm, Ha0 in Hacc.
    rewrite (existsb_Zeqb _ _ Hi0) in Hacc. injection Hacc as <- <-.
    assert (Hnd0 : NoDup ids0).
    { apply (aget_In key_eqb key_eqb_eq) in Ha0. unfold NDI in Hndi. rewrite Forall_forall in Hndi.
      apply (Hndi _ Ha0). }
    eapply IH; [| exact Hnd' | | | exact H].
    + apply Forall_aset; [exact Hndi|]. intros k'. cbn [snd]. apply NoDup_remove_first. exact Hnd0.
    + apply Forall_forall. intros q Hq. rewrite Forall_forall in Hb'.
      destruct (Hb' q Hq) as (Q1 & idsq & Q2 & Q3).
      assert (Hne : pkey q <> pkey p).
      { intros E. apply Hnp. rewrite <- E. apply in_map. exact Hq. }
      split.
      * destruct (zlen (remove_first Z.eqb (pr_rid p) ids0) <=? 1); [|exact Q1].
        apply filter_In. split; [exact Q1|]. change (negb (key_eqb (pkey p) (pkey q)) = true). apply Bool.negb_true_iff. apply key_eqb_neq.
        intros E. apply Hne. symmetry. exact E.
      * exists idsq. split; [|exact Q3].
        rewrite (aget_aset_other key_eqb key_eqb_eq) by exact Hne. exact Q2.
    + intros k f ids id Ha Hi Hq.
      destruct (key_eqb k (pkey p)) eqn:Ek.
      * apply key_eqb_eq in Ek. subst k. rewrite aget_aset_same in Ha. injection Ha as <- <-.
        destruct (In_remove_first_ne _ _ _ Hnd0 Hi) as [Hi' Hne].
        apply (HW (pkey p) (pr_frag p) ids0 id Ha0 Hi').
        intros q [<- | Hq'] Eq; [exact (fun E => Hne (eq_sym E))|]. apply Hq; assumption.
      * apply key_eqb_neq in Ek. rewrite (aget_aset_other key_eqb key_eqb_eq) in Ha by exact Ek.
        apply (HW k f ids id Ha Hi).
        intros q [<- | Hq'] Eq; [exfalso; apply Ek; symmetry; exact Eq|]. apply Hq; assumption.
Qed.

(* ================================================================ progress *)
Lemma first_row_ok r : o_rows r <> [] -> exists x, first_row r = Ok x.
Proof. destruct (o_rows r) as [|x t] eqn:E; [congruence|]. intros _. exists x. eapply first_row_cons. exact E. Qed.

Lemma last_row_ok r : o_rows r <> [] -> exists x, last_row r = Ok x.
Proof.
  intros Hne. destruct (exists_last' (o_rows r)) as [E | (t & x & E)]; [congruence|].
  exists x. eapply last_row_snoc. exact E.
Qed.

Lemma premise_for_progress st f id r :
  get_ovr st id = Ok r -> o_rows r <> [] -> exists o, premise_for st f id = Ok o.
Proof.
  intros Hg Hne. unfold premise_for. rewrite Hg. cbn [bind].
  destruct (first_row_ok r Hne) as (x & ->). destruct (last_row_ok r Hne) as (y & ->). cbn [bind].
  destruct (row_is x f); [eauto|]. destruct (row_is y f); eauto.
Qed.

Lemma premises_of_progress st f : forall ids,
  Forall (fun id => exists r, get_ovr st id = Ok r /\ o_rows r <> []) ids ->
  exists ps, premises_of st f ids = Ok ps.
Proof.
  induction ids as [|id ids IH]; intros H; cbn [premises_of]; [eauto|].
  inversion H as [|? ? (r & Hg & Hne) Hl]; subst.
  destruct (premise_for_progress st f id r Hg Hne) as (o & ->).
  destruct (IH Hl) as (ps & ->). cbn [bind]. eauto.
Qed.

Lemma pvalid_nonempty st p : pvalid st p ->
  exists r, get_ovr st (pr_rid p) = Ok r /\ o_rows r <> []
            /\ match pr_kind p with
               | PStart => exists t, o_rows r = RF (pr_frag p) :: t
               | PEnd => exists t, o_rows r = t ++ [RF (pr_frag p)]
               end.
Proof.
  intros (_ & r & Hg & Hk). exists r. split; [exact Hg|]. split; [|exact Hk].
  destruct (pr_kind p); destruct Hk as (t & ->); [discriminate | destruct t; discriminate].
Qed.

Lemma p_bait_overlap_progress st p : pvalid st p -> exists v, p_bait_overlap st p = Ok v.
Proof.
  intros Hv. destruct (pvalid_nonempty _ _ Hv) as (r & Hg & Hne & _).
  unfold p_bait_overlap. rewrite Hg. cbn [bind]. destruct (pr_kind p).
  - unfold start_row_bait_overlap. destruct (first_row_ok r Hne) as (x & ->). cbn [bind]. eauto.
  - unfold end_row_bait_overlap. destruct (last_row_ok r Hne) as (x & ->). cbn [bind]. eauto.
Qed.

Lemma p_overhang_progress st p : pvalid st p -> exists v, p_overhang_if_applied st p = Ok v.
Proof.
  intros Hv. destruct (pvalid_nonempty _ _ Hv) as (r & Hg & Hne & _).
  unfold p_overhang_if_applied. rewrite Hg. cbn [bind]. destruct (pr_kind p).
  - unfold overhang_if_start_removed. destruct (o_rows r); [congruence | eauto].
  - unfold overhang_if_end_removed. destruct (rev (o_rows r)) as [|d t] eqn:E; [|eauto].
    exfalso. apply Hne. rewrite <- (rev_involutive (o_rows r)), E. reflexivity.
Qed.

Lemma p_delta_progress st p : pvalid st p -> exists v, p_delta st p = Ok v.
Proof.
  intros Hv. destruct (pvalid_nonempty _ _ Hv) as (r & Hg & _).
  destruct (p_overhang_progress _ _ Hv) as (o & Ho).
  unfold p_delta. rewrite Hg, Ho. cbn [bind]. eauto.
Qed.

Lemma p_improves_progress st err p : pvalid st p -> exists v, p_improves st err p = Ok v.
Proof.
  intros Hv. destruct (pvalid_nonempty _ _ Hv) as (r & Hg & _).
  destruct (p_overhang_progress _ _ Hv) as (o & Ho). destruct (p_delta_progress _ _ Hv) as (dd & Hd).
  unfold p_improves. rewrite Hg. cbv beta iota delta [bind].
  destruct (zlen (o_rows r) =? 1); [eauto|]. rewrite Hd. destruct (dd <? 0); [|eauto].
  rewrite Ho. eauto.
Qed.

Lemma discard_start_ok r : o_rows r <> [] -> exists r', discard_start r = Ok r'.
Proof.
  intros Hne. unfold discard_start. destruct (o_rows r) as [|d t]; [congruence|].
  destruct (pop_gaps_front t (o_start r + row_len d)). eauto.
Qed.

Lemma discard_end_ok r : o_rows r <> [] -> exists r', discard_end r = Ok r'.
Proof.
  intros Hne. unfold discard_end. destruct (rev (o_rows r)) as [|d t] eqn:E.
  - exfalso. apply Hne. rewrite <- (rev_involutive (o_rows r)), E. reflexivity.
  - destruct (pop_gaps_back_rev t (o_end r - row_len d)). eauto.
Qed.

Lemma p_apply_progress st p : pvalid st p -> exists st', p_apply st p = Ok st'.
Proof.
  intros Hv. destruct (pvalid_nonempty _ _ Hv) as (r & Hg & Hne & _).
  unfold p_apply. rewrite Hg. cbn [bind]. destruct (pr_kind p).
  - destruct (discard_start_ok r Hne) as (r' & ->). cbn [bind]. eauto.
  - destruct (discard_end_ok r Hne) as (r' & ->). cbn [bind]. eauto.
Qed.

Lemma fix_general_progress err st pl :
  Forall (pvalid st) pl -> exists x, fix_general err st pl = Ok x.
Proof.
  intros Hv. unfold fix_general. destruct pl as [|p1 [|p2 t]]; [eauto | eauto|].
  set (pl := p1 :: p2 :: t) in *.
  destruct (mapM_progress (fun p => do d <- p_delta st p; Ok (d, p)) pl) as (ds & Hds).
  { eapply Forall_impl; [|exact Hv]. intros p Hp. destruct (p_delta_progress _ _ Hp) as (dd & ->).
    cbn [bind]. eauto. }
  rewrite Hds. cbn [bind].
  destruct (sort_by_Z fst ds) as [|[d1 bst] [|[d2 nxt] rest]] eqn:Es; [eauto | eauto|].
  assert (Hin : forall dd q, In (dd, q) (sort_by_Z fst ds) -> pvalid st q).
  { intros dd q Hq. unfold sort_by_Z in Hq. apply In_stable_sort in Hq.
    destruct (mapM_ok_In _ _ _ Hds _ Hq) as (p0 & Hp0 & Hf). bind_inv Hf d0 Hd0. injection Hf as _ <-.
    rewrite Forall_forall in Hv. apply Hv. exact Hp0. }
  assert (Hb : pvalid st bst) by (apply (Hin d1); rewrite Es; left; reflexivity).
  assert (Hn : pvalid st nxt) by (apply (Hin d2); rewrite Es; right; left; reflexivity).
  destruct (p_improves_progress st err bst Hb) as (i & ->). cbn [bind]. destruct i; [|eauto].
  destruct (p_improves_progress st err nxt Hn) as (j & ->). cbn [bind]. destruct j; cbn [negb]; [eauto|].
  destruct (p_apply_progress st bst Hb) as (st' & ->). cbn [bind]. eauto.
Qed.

Lemma fix_one_progress err st pl :
  Forall (pvalid st) pl -> exists x, fix_one err st pl = Ok x.
Proof.
  intros Hv. rewrite fix_one_unfold.
  pose proof (fix_general_progress err st pl Hv) as Hg.
  destruct pl as [|p1 [|p2 [|p3 t]]]; try exact Hg.
  inversion Hv as [|? ? Hp1 Hv2]; subst. inversion Hv2 as [|? ? Hp2 _]; subst.
  destruct (p_bait_overlap_progress st p1 Hp1) as (b1 & ->). cbn [bind].
  destruct (b1 <? err); [|exact Hg].
  destruct (p_bait_overlap_progress st p2 Hp2) as (b2 & ->). cbn [bind].
  destruct (b2 <? err); [|exact Hg].
  destruct (b1 <? b2).
  - destruct (p_apply_progress st p1 Hp1) as (st' & ->). cbn [bind]. eauto.
  - destruct (p_apply_progress st p2 Hp2) as (st' & ->). cbn [bind]. eauto.
Qed.

Lemma make_fixes_progress err : forall pls st,
  Forall (Forall (pvalid st)) pls -> ForallOrdPairs keys_apart pls ->
  exists x, make_fixes err st pls = Ok x.
Proof.
  induction pls as [|pl pls IH]; intros st Hv Hop; cbn [make_fixes]; [eauto|].
  inversion Hv as [|? ? Hvpl Hvpls]; subst. inversion Hop as [|? ? Hap Hop']; subst.
  destruct (fix_one_progress err st pl Hvpl) as ([st1 fx] & Hr1). rewrite Hr1. cbn [bind].
  assert (Hv1 : Forall (Forall (pvalid st1)) pls).
  { apply fix_one_cases in Hr1. destruct Hr1 as [(_ & ->) | (p & _ & Hpin & Happ)]; [exact Hvpls|].
    rewrite Forall_forall in Hvpl. pose proof (Hvpl p Hpin) as Hpv.
    rewrite Forall_forall in *. intros pl' Hpl'. specialize (Hap pl' Hpl').
    rewrite Forall_forall. intros q Hq.
    eapply pvalid_pres; [|exact Hpv| |exact Happ].
    - pose proof (Hvpls pl' Hpl') as Q. rewrite Forall_forall in Q. apply Q. exact Hq.
    - intros E. apply (Hap p q Hpin Hq). symmetry. exact E. }
  destruct (IH st1 Hv1 Hop') as ([st2 fxs] & ->). cbn [bind]. eauto.
Qed.

Lemma bookkeeping_progress : forall fixes found multi,
  NoDup (map pkey fixes) -> Forall (fix_booked found multi) fixes ->
  exists x, foldM apply_fix_bookkeeping fixes (found, multi) = Ok x.
Proof.
  induction fixes as [|p fixes IH]; intros found multi Hnd Hb; cbn [foldM]; [eauto|].
  cbn [map] in Hnd. inversion Hnd as [|? ? Hnp Hnd']; subst.
  inversion Hb as [|? ? Hbp Hb']; subst.
  destruct Hbp as (Hpm & ids0 & Ha0 & Hi0).
  unfold apply_fix_bookkeeping at 1. fold (pkey p).
  apply existsb_key in Hpm. rewrite Hpm, Ha0, (existsb_Zeqb _ _ Hi0). cbn [bind].
  apply IH; [exact Hnd'|].
  apply Forall_forall. intros q Hq. rewrite Forall_forall in Hb'.
  destruct (Hb' q Hq) as (Q1 & idsq & Q2 & Q3).
  assert (Hne : pkey q <> pkey p).
  { intros E. apply Hnp. rewrite <- E. apply in_map. exact Hq. }
  split.
  - destruct (zlen (remove_first Z.eqb (pr_rid p) ids0) <=? 1); [|exact Q1].
    apply filter_In. split; [exact Q1|]. change (negb (key_eqb (pkey p) (pkey q)) = true). apply Bool.negb_true_iff. apply key_eqb_neq.
    intros E. apply Hne. symmetry. exact E.
  - exists idsq. split; [|exact Q3].
    rewrite (aget_aset_other key_eqb key_eqb_eq) by exact Hne. exact Q2.
Qed.

(* ===================================================== the loop never raises *)
Section LoopProgress.
  Variable inp : list (str * list row).
  Variable err : Z.
  Hypothesis Hids : NoDup (map f_id (in_frags inp)).
  Hypothesis Hkeys : NoDup (map key_of (in_frags inp)).

  Definition RI (b : bstate) : Prop :=
    Inv inp b /\ Lst (b_store b) (b_found b) /\ NDI (b_found b).

  Lemma holds_nonempty st id f : holds st id f -> exists r, get_ovr st id = Ok r /\ o_rows r <> [].
  Proof. intros (r & Hg & Hin). exists r. split; [exact Hg|]. intros E. rewrite E in Hin. destruct Hin. Qed.

  Lemma round_premises_progress b : RI b -> exists pls, round_premises b (b_multi b) = Ok pls.
  Proof.
    intros (HI & HL & _). unfold round_premises. apply mapM_progress.
    apply Forall_forall. intros k Hk.
    pose proof HI as (_ & _ & (_ & _ & _ & F4) & _).
    destruct (aget key_eqb (b_found b) k) as [[f ids]|] eqn:Ea.
    - apply premises_of_progress. apply Forall_forall. intros id Hid.
      apply (holds_nonempty _ _ f). eapply HL; eassumption.
    - exfalso. apply (aget_None key_eqb key_eqb_eq) in Ea. apply Ea. apply F4. exact Hk.
  Qed.

  Lemma discard_loop_progress : forall fuel b, RI b ->
    discard_loop fuel err b = Err OutOfFuel \/ exists b', discard_loop fuel err b = Ok b'.
  Proof.
    induction fuel as [|fuel IH]; intros b HR; cbn [discard_loop]; [left; reflexivity|].
    destruct (b_multi b) as [|k0 m0] eqn:Em; [right; eauto|].
    rewrite <- Em. fold (round_premises b (b_multi b)).
    pose proof HR as (HI & HL & Hndi).
    destruct (round_premises_progress b HR) as (pls & Hpls). rewrite Hpls. cbn [bind].
    pose proof HI as (I1 & (A1 & A2) & HF & I4).
    pose proof HF as (F1 & F2 & F3 & F4).
    destruct (round_premises_ok inp Hids b HI _ _ F2 (incl_refl _) Hpls) as (G1 & G2 & _).
    set (pls' := filter (fun pl => match pl with [] => false | _ => true end) pls) in *.
    assert (G1' : Forall (Forall (pgood b)) pls').
    { apply Forall_forall. intros pl Hpl. apply filter_In in Hpl. rewrite Forall_forall in G1. apply G1. tauto. }
    assert (G2' : ForallOrdPairs keys_apart pls') by (apply FOP_filter; exact G2).
    assert (Hv : Forall (Forall (fun p => pvalid (b_store b) p /\ In (pr_rid p) (b_added b))) pls').
    { eapply Forall_impl; [|exact G1']. intros pl Hpl. eapply Forall_impl; [|exact Hpl].
      intros p (P1 & P2 & _). split; assumption. }
    assert (Hv0 : Forall (Forall (pvalid (b_store b))) pls').
    { eapply Forall_impl; [|exact G1']. intros pl Hpl. eapply Forall_impl; [|exact Hpl].
      intros p (P1 & _). exact P1. }
    destruct (make_fixes_progress err pls' (b_store b) Hv0 G2') as ([st fixes] & Hr).
    rewrite Hr. cbn [bind].
    destruct (make_fixes_ok inp err _ A1 (AddedOk_pos _ _ (conj A1 A2)) _ _ _ _ I1 Hv G2' Hr)
      as (M1 & M2 & M3 & M4 & M5).
    pose proof (make_fixes_keeps err _ _ _ _ Hv0 G2' Hr) as Hkeep.
    assert (A2' : Forall (fun a => 0 <= a < zlen st) (b_added b)).
    { unfold zlen. rewrite M2. exact A2. }
    destruct fixes as [|p0 fx0]; [right; eauto|].
    set (fixes := p0 :: fx0) in *.
    assert (Hb : Forall (fix_booked (b_found b) (b_multi b)) fixes).
    { apply Forall_forall. intros p Hp. destruct (M4 p Hp) as (pl & Hpl & Hin).
      rewrite Forall_forall in G1'. specialize (G1' pl Hpl). rewrite Forall_forall in G1'.
      apply (G1' p Hin). }
    destruct (bookkeeping_progress fixes (b_found b) (b_multi b) M5 Hb) as ([found' multi'] & Hfm).
    rewrite Hfm. cbn [bind]. apply IH.
    destruct (bookkeeping_ok inp _ _ _ _ _ _ HF M5 Hb Hfm) as (B1 & B2).
    split; [|split].
    - unfold Inv. cbn [b_store b_added b_found b_multi].
      split; [exact M1|]. split; [split; assumption|]. split; [exact B1|].
      intros n x. pose proof (I4 n x). pose proof (M3 n x). pose proof (B2 n x). lia.
    - cbn [b_store b_found]. eapply Lst_bookkeeping; [exact Hndi | exact M5 | exact Hb | | exact Hfm].
      intros k f ids id Ha Hi Hq.
      destruct (Inv_entry inp b k f ids HI Ha) as (K1 & _ & _ & Kpos & _).
      destruct (HL k f ids id Ha Hi) as (r & Hg & Hin).
      apply (Hkeep id r f); [|exact Hg|exact Hin|].
      + rewrite Forall_forall in Kpos. apply Kpos. exact Hi.
      + intros p Hp Erid Ef. apply (Hq p Hp); [|exact Erid]. unfold pkey. rewrite Ef. exact K1.
    - cbn [b_found]. eapply NDI_bookkeeping; eassumption.
  Qed.

  (* the invariant after one round *)
  Lemma round_RI b pls st fixes :
    RI b -> round_premises b (b_multi b) = Ok pls ->
    make_fixes err (b_store b) (filter (fun pl => match pl with [] => false | _ => true end) pls)
      = Ok (st, fixes) ->
    (fixes = [] -> RI (with_store b st))
    /\ (forall found' multi',
          foldM apply_fix_bookkeeping fixes (b_found b, b_multi b) = Ok (found', multi') ->
          RI (mkB st (b_added b) found' multi' (b_namer b) (b_cuts b))).
  Proof.
    intros HR Hpls Hr. pose proof HR as (HI & HL & Hndi).
    pose proof HI as (I1 & (A1 & A2) & HF & I4).
    pose proof HF as (F1 & F2 & F3 & F4).
    destruct (round_premises_ok inp Hids b HI _ _ F2 (incl_refl _) Hpls) as (G1 & G2 & _).
    set (pls' := filter (fun pl => match pl with [] => false | _ => true end) pls) in *.
    assert (G1' : Forall (Forall (pgood b)) pls').
    { apply Forall_forall. intros pl Hpl. apply filter_In in Hpl. rewrite Forall_forall in G1. apply G1. tauto. }
    assert (G2' : ForallOrdPairs keys_apart pls') by (apply FOP_filter; exact G2).
    assert (Hv : Forall (Forall (fun p => pvalid (b_store b) p /\ In (pr_rid p) (b_added b))) pls').
    { eapply Forall_impl; [|exact G1']. intros pl Hpl. eapply Forall_impl; [|exact Hpl].
      intros p (P1 & P2 & _). split; assumption. }
    assert (Hv0 : Forall (Forall (pvalid (b_store b))) pls').
    { eapply Forall_impl; [|exact G1']. intros pl Hpl. eapply Forall_impl; [|exact Hpl].
      intros p (P1 & _). exact P1. }
    destruct (make_fixes_ok inp err _ A1 (AddedOk_pos _ _ (conj A1 A2)) _ _ _ _ I1 Hv G2' Hr)
      as (M1 & M2 & M3 & M4 & M5).
    pose proof (make_fixes_keeps err _ _ _ _ Hv0 G2' Hr) as Hkeep.
    assert (A2' : Forall (fun a => 0 <= a < zlen st) (b_added b)).
    { unfold zlen. rewrite M2. exact A2. }
    assert (HW : LstW st (b_found b) fixes).
    { intros k f ids id Ha Hi Hq.
      destruct (Inv_entry inp b k f ids HI Ha) as (K1 & _ & _ & Kpos & _).
      destruct (HL k f ids id Ha Hi) as (r & Hg & Hin).
      apply (Hkeep id r f); [|exact Hg|exact Hin|].
      + rewrite Forall_forall in Kpos. apply Kpos. exact Hi.
      + intros p Hp Erid Ef. apply (Hq p Hp); [|exact Erid]. unfold pkey. rewrite Ef. exact K1. }
    split.
    - intros ->. split; [|split].
      + unfold Inv. cbn [with_store b_store b_added b_found b_multi].
        split; [exact M1|]. split; [split; assumption|]. split; [exact HF|].
        intros n x. rewrite <- I4, (M3 n x). cbn [map zsum]. lia.
      + cbn [with_store b_store b_found]. intros k f ids id Ha Hi. apply (HW k f ids id Ha Hi). intros q [].
      + exact Hndi.
    - intros found' multi' Hfm.
      assert (Hb : Forall (fix_booked (b_found b) (b_multi b)) fixes).
      { apply Forall_forall. intros p Hp. destruct (M4 p Hp) as (pl & Hpl & Hin).
        rewrite Forall_forall in G1'. specialize (G1' pl Hpl). rewrite Forall_forall in G1'.
        apply (G1' p Hin). }
      destruct (bookkeeping_ok inp _ _ _ _ _ _ HF M5 Hb Hfm) as (B1 & B2).
      split; [|split].
      + unfold Inv. cbn [b_store b_added b_found b_multi].
        split; [exact M1|]. split; [split; assumption|]. split; [exact B1|].
        intros n x. pose proof (I4 n x). pose proof (M3 n x). pose proof (B2 n x). lia.
      + cbn [b_store b_found]. eapply Lst_bookkeeping; [exact Hndi | exact M5 | exact Hb | exact HW | exact Hfm].
      + cbn [b_found]. eapply NDI_bookkeeping; eassumption.
  Qed.

  Lemma discard_loop_RI : forall fuel b b', RI b -> discard_loop fuel err b = Ok b' -> RI b'.
  Proof.
    induction fuel as [|fuel IH]; intros b b' HR H; cbn [discard_loop] in H; [discriminate|].
    destruct (b_multi b) as [|k0 m0] eqn:Em; [injection H as <-; exact HR|].
    rewrite <- Em in H. fold (round_premises b (b_multi b)) in H.
    bind_inv H pls Hpls. bind_inv H r Hr. destruct r as [st fixes].
    destruct (round_RI b pls st fixes HR Hpls Hr) as (R1 & R2).
    destruct fixes as [|p0 fx0].
    - injection H as <-. apply R1. reflexivity.
    - bind_inv H fm Hfm. destruct fm as [found' multi'].
      eapply IH; [|exact H]. apply R2. exact Hfm.
  Qed.

  Theorem discard_loop_ok fuel b :
    RI b -> (total_result_rows (b_store b) < fuel)%nat -> exists b', discard_loop fuel err b = Ok b'.
  Proof.
    intros HR Hf. destruct (discard_loop_progress fuel b HR) as [E | E]; [|exact E].
    exfalso. exact (discard_loop_fuel_suffices fuel err b Hf E).
  Qed.
End LoopProgress.

Print Assumptions discard_loop_ok.
Print Assumptions pretext_Lst.
