(* Proofs about the FASTA indexer model (Model/Fasta.v) against Model/FastaSpec.v.
   1. index_buffer_independent  2. index_peak_bounded  3. random_access_spec
   4. index_spec, duplicate_names_rejected, empty_file_rejected  5. index_legacy_refuted *)
From Tola Require Import Py.Base Py.Dec Model.Fragment Model.Fasta Model.FastaSpec Proofs.BaseLemmas.
From Coq Require Import Lia ZifyBool.

Definition drop_peak {A B} (r : res (A * B * Z)) : res (A * B) :=
  match r with Ok (a, b, _) => Ok (a, b) | Err e => Err e end.

Definition rmap {A B} (f : A -> B) (r : res A) : res B :=
  match r with Ok a => Ok (f a) | Err e => Err e end.

(* ------------------------------------------------------------------ *)
(* Part 1: run detection as a per-character fold                        *)
(* ------------------------------------------------------------------ *)
Definition racc := (Z * option Z * list (Z * Z))%type.

Fixpoint charfold (x : str) (p : Z) (acc : racc) : racc :=
  match x with
  | [] => acc
  | c :: t => charfold t (p + 1) (if is_acgt c then merge_run acc (p, p + 1) else acc)
  end.

Lemma merge_run_join acc a m y :
  merge_run (merge_run acc (a, m)) (m, y) = merge_run acc (a, y).
Proof.
  destruct acc as [[rs re] regs]. cbn.
  destruct re as [e|]; [destruct (a =? e)|]; cbn; rewrite Z.eqb_refl; reflexivity.
Qed.

Lemma runs_charfold L x : forall pos open acc,
  fold_left merge_run (map (fun '(a, b) => (L + a, L + b)) (acgt_runs x pos open)) acc =
  charfold x (L + pos)
    (match open with Some a => merge_run acc (L + a, L + pos) | None => acc end).
Proof.
  induction x as [|c t IH]; intros pos open acc.
  - destruct open; reflexivity.
  - cbn [acgt_runs charfold]. destruct (is_acgt c).
    + rewrite IH. replace (L + (pos + 1)) with (L + pos + 1) by lia.
      destruct open as [a|]; [|reflexivity].
      rewrite merge_run_join. reflexivity.
    + destruct open as [a|].
      * cbn [map fold_left]. rewrite IH. replace (L + (pos + 1)) with (L + pos + 1) by lia.
        reflexivity.
      * rewrite IH. replace (L + (pos + 1)) with (L + pos + 1) by lia. reflexivity.
Qed.

Lemma charfold_app a : forall b p acc,
  charfold (a ++ b) p acc = charfold b (p + zlen a) (charfold a p acc).
Proof.
  induction a as [|c a IH]; intros b p acc.
  - cbn. unfold zlen. cbn. rewrite Z.add_0_r. reflexivity.
  - cbn [app charfold]. rewrite IH. f_equal. unfold zlen. cbn [length]. lia.
Qed.

(* process_seq_buffer with the destructuring let removed *)
Definition flush (st : istate) : istate :=
  let acc := charfold (is_buffer st) (is_seq_length st)
               (is_region_start st, is_region_end st, is_regions st) in
  mkIState (is_name st) (is_seq_length st + zlen (is_buffer st)) (is_file_offset st) (is_rpl st)
           (fst (fst acc)) (snd (fst acc)) (snd acc)
           (is_leb st) [] (is_idx st) (is_asm st) (is_pos st) (is_peak st).

Lemma process_seq_buffer_flush st : process_seq_buffer st = flush st.
Proof.
  unfold process_seq_buffer, flush.
  rewrite (runs_charfold (is_seq_length st) (is_buffer st) 0 None).
  rewrite Z.add_0_r.
  destruct (charfold _ _ _) as [[rs re] regs]. reflexivity.
Qed.

(* forget the ghost *)
Definition zp (st : istate) : istate :=
  mkIState (is_name st) (is_seq_length st) (is_file_offset st) (is_rpl st) (is_region_start st)
           (is_region_end st) (is_regions st) (is_leb st) (is_buffer st) (is_idx st) (is_asm st)
           (is_pos st) 0.

Definition canon (st : istate) : istate := zp (flush st).

Lemma zlen_nil {A} : zlen (@nil A) = 0. Proof. reflexivity. Qed.
Lemma zlen_app {A} (a b : list A) : zlen (a ++ b) = zlen a + zlen b.
Proof. unfold zlen. rewrite app_length. lia. Qed.
Lemma zlen_cons {A} (x : A) l : zlen (x :: l) = 1 + zlen l.
Proof. unfold zlen. cbn [length]. lia. Qed.
Lemma zlen_nonneg {A} (l : list A) : 0 <= zlen l.
Proof. unfold zlen. lia. Qed.

Lemma surj3 (acc : racc) : (fst (fst acc), snd (fst acc), snd acc) = acc.
Proof. destruct acc as [[? ?] ?]. reflexivity. Qed.

Lemma flush_flush st : flush (flush st) = flush st.
Proof.
  unfold flush. cbn. rewrite Z.add_0_r. reflexivity.
Qed.

Lemma flush_zp st : flush (zp st) = zp (flush st).
Proof. reflexivity. Qed.

Lemma canon_flush st : canon (flush st) = canon st.
Proof. unfold canon. rewrite flush_flush. reflexivity. Qed.

Lemma canon_canon st : canon (canon st) = canon st.
Proof. unfold canon. rewrite flush_zp, flush_flush. reflexivity. Qed.

(* two states have the same canonical form as soon as the flush-invariant
   fields agree and the run folds agree *)
Lemma canon_eq_intro x y :
  is_name x = is_name y -> is_file_offset x = is_file_offset y -> is_rpl x = is_rpl y ->
  is_leb x = is_leb y -> is_idx x = is_idx y -> is_asm x = is_asm y -> is_pos x = is_pos y ->
  is_seq_length x + zlen (is_buffer x) = is_seq_length y + zlen (is_buffer y) ->
  charfold (is_buffer x) (is_seq_length x) (is_region_start x, is_region_end x, is_regions x) =
  charfold (is_buffer y) (is_seq_length y) (is_region_start y, is_region_end y, is_regions y) ->
  canon x = canon y.
Proof.
  intros. unfold canon, flush, zp. cbn. congruence.
Qed.

(* the tail of store_info after its initial flush *)
Definition store_tail (st : istate) : res istate :=
  let regs := match is_region_end st with
              | Some e => is_regions st ++ [(is_region_start st, e)]
              | None => is_regions st
              end in
  match is_name st with
  | None => Err TypeError
  | Some name =>
      match aget str_eqb (is_idx st) name with
      | Some _ => Err ValueError
      | None =>
          let info := mkInfo (is_seq_length st) (is_file_offset st) (is_rpl st) (is_rpl st + is_leb st) in
          Ok (mkIState (is_name st) (is_seq_length st) (is_file_offset st) (is_rpl st)
                       (is_region_start st) (is_region_end st) regs (is_leb st) (is_buffer st)
                       (is_idx st ++ [(name, info)])
                       (is_asm st ++ [(name, region_rows name regs 0 (is_seq_length st))])
                       (is_pos st) (is_peak st))
      end
  end.

Lemma store_info_tail st : store_info st = store_tail (flush st).
Proof. rewrite <- process_seq_buffer_flush. reflexivity. Qed.

Lemma store_tail_zp st : store_tail (zp st) = rmap zp (store_tail st).
Proof.
  unfold store_tail. cbn.
  destruct (is_name st); [|reflexivity].
  destruct (aget _ _ _); reflexivity.
Qed.

Lemma store_info_canon st : store_info (canon st) = rmap zp (store_info st).
Proof.
  rewrite !store_info_tail. unfold canon. rewrite flush_zp, flush_flush. apply store_tail_zp.
Qed.

Lemma store_tail_buffer st st' : store_tail st = Ok st' -> is_buffer st' = is_buffer st.
Proof.
  unfold store_tail. destruct (is_name st); [|discriminate].
  destruct (aget _ _ _); [discriminate|]. intro H. injection H as <-. reflexivity.
Qed.

(* invariant: no residues are buffered before the first header *)
Definition Inv (st : istate) : Prop := is_name st = None -> is_buffer st = [].

Definition cstep (c : istate) (line : str) : res istate :=
  rmap canon (index_line false 0 c line).

Lemma index_line_canon buf st line :
  Inv st ->
  rmap canon (index_line false buf st line) = cstep (canon st) line.
Proof.
  intro HI. unfold cstep, index_line.
  destruct line as [|c0 rest].
  { cbn. rewrite canon_canon. reflexivity. }
  change (is_pos (canon st)) with (is_pos st).
  change (is_name (canon st)) with (is_name st).
  destruct (Ascii.eqb c0 GT).
  - (* header *)
    destruct (is_name st) as [nm|] eqn:En.
    + rewrite store_info_canon. rewrite store_info_tail.
      destruct (store_tail (flush st)) as [s1|e] eqn:Es; [|reflexivity].
      cbn [rmap bind].
      destruct (first_word rest); [|reflexivity].
      destruct (py_nth _ _); [|reflexivity].
      cbn [bind rmap]. f_equal; try (apply canon_eq_intro; reflexivity).
    + cbn [bind].
      destruct (first_word rest); [|reflexivity].
      destruct (py_nth _ _); [|reflexivity].
      cbn [bind rmap]. f_equal. apply canon_eq_intro; try reflexivity; cbn.
      * rewrite (HI En). reflexivity.
      * rewrite (HI En). reflexivity.
  - destruct (is_name st) as [nm|] eqn:En.
    + (* sequence line inside a record *)
      cbn [orb].
      change (is_leb (canon st)) with (is_leb st).
      change (is_rpl (canon st)) with (is_rpl st).
      set (seq_line := if match last_opt (c0 :: rest) with Some c => Ascii.eqb c LF | None => false end
                       then firstn (Z.to_nat (zlen (c0 :: rest) - is_leb st)) (c0 :: rest)
                       else c0 :: rest).
      set (rpl := if is_rpl st =? 0 then zlen seq_line else is_rpl st).
      cbn [rmap].
      f_equal.
      match goal with |- canon (if ?b then process_seq_buffer ?x else ?x) = _ =>
        transitivity (canon x);
          [destruct b; [rewrite process_seq_buffer_flush; apply canon_flush | reflexivity]|] end.
      match goal with |- _ = canon (if ?b then process_seq_buffer ?x else ?x) =>
        transitivity (canon x);
          [|destruct b; [rewrite process_seq_buffer_flush; symmetry; apply canon_flush | reflexivity]] end.
      apply canon_eq_intro; try reflexivity; cbn.
      * rewrite zlen_app. lia.
      * rewrite charfold_app, surj3. reflexivity.
    + cbn [orb]. destruct (match last_opt (c0 :: rest) with Some c => Ascii.eqb c LF | None => false end);
        [reflexivity|].
      cbn [rmap]. f_equal. apply canon_eq_intro; try reflexivity; cbn; rewrite (HI En); cbn;
        try reflexivity; rewrite ?zlen_nil; lia.
Qed.

Lemma flush_name st : is_name (flush st) = is_name st.
Proof. reflexivity. Qed.

Lemma index_line_Inv legacy buf st line st' :
  Inv st -> index_line legacy buf st line = Ok st' -> Inv st'.
Proof.
  intros HI. unfold index_line.
  destruct line as [|c0 rest]; [intro H; injection H as <-; exact HI|].
  destruct (Ascii.eqb c0 GT).
  - destruct (match is_name st with Some _ => store_info st | None => Ok st end); [|discriminate].
    cbn [bind]. destruct (first_word rest); [|discriminate].
    destruct (py_nth _ _); [|discriminate]. cbn [bind].
    intro H; injection H as <-. intro C. discriminate C.
  - destruct (is_name st) as [nm|] eqn:En.
    + intro H; injection H as <-.
      match goal with |- Inv (if ?b then _ else _) => destruct b end.
      * rewrite process_seq_buffer_flush. intro C. cbn in C. congruence.
      * intro C. cbn in C. congruence.
    + destruct (_ || _); [discriminate|].
      intro H; injection H as <-. intro C. cbn. apply HI. exact En.
Qed.

Lemma foldM_canon buf lines : forall st,
  Inv st ->
  rmap canon (foldM (index_line false buf) lines st) = foldM cstep lines (canon st).
Proof.
  induction lines as [|l lines IH]; intros st HI.
  - reflexivity.
  - cbn [foldM]. rewrite <- (index_line_canon buf st l HI).
    destruct (index_line false buf st l) as [st'|e] eqn:E; [|reflexivity].
    cbn [bind rmap]. apply IH. eapply index_line_Inv; eassumption.
Qed.

Definition fin (st : istate) : res (list (str * finfo) * list (str * list row)) :=
  do st' <- (match is_name st with Some _ => store_info st | None => Ok st end);
  match is_idx st' with
  | [] => Err ValueError
  | _ => Ok (is_idx st', is_asm st')
  end.

Lemma drop_peak_index file buf :
  drop_peak (index_fasta file buf) =
  bind (foldM (index_line false buf) (split_lines file) init_istate) fin.
Proof.
  unfold index_fasta, index_fasta_gen, fin.
  destruct (foldM _ _ _) as [st|e]; [|reflexivity]. cbn [bind].
  destruct (match is_name st with Some _ => store_info st | None => Ok st end) as [st'|e];
    [|reflexivity].
  cbn [bind]. destruct (is_idx st'); reflexivity.
Qed.

Lemma fin_canon st : fin (canon st) = fin st.
Proof.
  unfold fin. change (is_name (canon st)) with (is_name st).
  destruct (is_name st).
  - rewrite store_info_canon. destruct (store_info st) as [s1|e]; reflexivity.
  - reflexivity.
Qed.

Lemma bind_rmap_canon (r : res istate) : bind (rmap canon r) fin = bind r fin.
Proof. destruct r; [apply fin_canon | reflexivity]. Qed.

Lemma Inv_init : Inv init_istate.
Proof. intro. reflexivity. Qed.

Lemma index_canonical file buf :
  drop_peak (index_fasta file buf) =
  bind (foldM cstep (split_lines file) (canon init_istate)) fin.
Proof.
  rewrite drop_peak_index, <- bind_rmap_canon, (foldM_canon buf _ _ Inv_init). reflexivity.
Qed.

(* 1 *)
Theorem index_buffer_independent : forall file b1 b2,
  drop_peak (index_fasta file b1) = drop_peak (index_fasta file b2).
Proof. intros. rewrite !index_canonical. reflexivity. Qed.

(* ------------------------------------------------------------------ *)
(* Part 2: the ghost peak                                               *)
(* ------------------------------------------------------------------ *)
Definition max_len (lines : list str) : Z := fold_right (fun l m => Z.max (zlen l) m) 0 lines.
Definition max_line (file : str) : Z := max_len (split_lines file).

Definition PInv (buf M : Z) (st : istate) : Prop :=
  zlen (is_buffer st) <= buf /\ is_peak st <= buf + M.

Lemma store_tail_peak st st' :
  store_tail st = Ok st' -> is_buffer st' = is_buffer st /\ is_peak st' = is_peak st.
Proof.
  unfold store_tail. destruct (is_name st); [|discriminate].
  destruct (aget _ _ _); [discriminate|]. intro H. injection H as <-. split; reflexivity.
Qed.

Lemma store_info_peak st st' :
  store_info st = Ok st' -> is_buffer st' = [] /\ is_peak st' = is_peak st.
Proof. rewrite store_info_tail. intro H. apply store_tail_peak in H. exact H. Qed.

Lemma zlen_firstn_le {A} n (l : list A) : zlen (firstn n l) <= zlen l.
Proof. unfold zlen. rewrite firstn_length. lia. Qed.

Lemma index_line_PInv buf M st line st' :
  0 <= buf -> 0 <= M -> zlen line <= M -> PInv buf M st ->
  index_line false buf st line = Ok st' -> PInv buf M st'.
Proof.
  intros Hb HM Hl [H1 H2]. unfold index_line.
  destruct line as [|c0 rest]; [intro H; injection H as <-; split; assumption|].
  destruct (Ascii.eqb c0 GT).
  - destruct (is_name st).
    + destruct (store_info st) as [s1|] eqn:Es; [|discriminate].
      apply store_info_peak in Es as [Eb Ep]. cbn [bind].
      destruct (first_word rest); [|discriminate].
      destruct (py_nth _ _); [|discriminate]. cbn [bind].
      intro H; injection H as <-. split; cbn; [rewrite Eb, zlen_nil; lia | lia].
    + cbn [bind]. destruct (first_word rest); [|discriminate].
      destruct (py_nth _ _); [|discriminate]. cbn [bind].
      intro H; injection H as <-. split; cbn; assumption.
  - destruct (is_name st) as [nm|] eqn:En.
    + cbn [orb].
      set (seq_line := if match last_opt (c0 :: rest) with Some c => Ascii.eqb c LF | None => false end
                       then firstn (Z.to_nat (zlen (c0 :: rest) - is_leb st)) (c0 :: rest)
                       else c0 :: rest).
      assert (Hs : zlen seq_line <= M).
      { subst seq_line. destruct (match last_opt _ with Some _ => _ | None => _ end); [|exact Hl].
        etransitivity; [apply zlen_firstn_le | exact Hl]. }
      clearbody seq_line.
      intro H; injection H as <-.
      match goal with |- PInv _ _ (if ?b then _ else _) => destruct b eqn:Eb end.
      * rewrite process_seq_buffer_flush. split; cbn; [rewrite ?zlen_nil; lia|].
        rewrite zlen_app. lia.
      * cbn in Eb. split; cbn; [lia|]. rewrite zlen_app. lia.
    + cbn [orb]. destruct (match last_opt _ with Some _ => _ | None => _ end); [discriminate|].
      intro H; injection H as <-. split; cbn; assumption.
Qed.

Lemma max_len_nonneg lines : 0 <= max_len lines.
Proof. induction lines; cbn; [lia|]. pose proof (zlen_nonneg a). lia. Qed.

Lemma foldM_PInv buf M lines : forall st st',
  0 <= buf -> max_len lines <= M -> PInv buf M st ->
  foldM (index_line false buf) lines st = Ok st' -> PInv buf M st'.
Proof.
  induction lines as [|l lines IH]; intros st st' Hb HM HP.
  - intro H; injection H as <-. exact HP.
  - cbn [foldM]. change (Z.max (zlen l) (max_len lines) <= M) in HM.
    pose proof (max_len_nonneg lines).
    destruct (index_line false buf st l) as [s1|] eqn:E; [|discriminate]. cbn [bind].
    apply IH; [assumption | lia |].
    eapply index_line_PInv; try eassumption; lia.
Qed.

(* 2 *)
Theorem index_peak_bounded : forall file buf idx asm peak,
  0 <= buf -> index_fasta file buf = Ok (idx, asm, peak) ->
  peak <= buf + max_line file.
Proof.
  intros file buf idx asm peak Hb. unfold index_fasta, index_fasta_gen.
  destruct (foldM _ _ _) as [st|] eqn:Ef; [|discriminate]. cbn [bind].
  apply (foldM_PInv buf (max_line file)) in Ef;
    [|assumption | unfold max_line; lia
     | split; cbn; [lia | pose proof (max_len_nonneg (split_lines file)); unfold max_line; lia]].
  destruct Ef as [_ Hp].
  destruct (is_name st).
  - destruct (store_info st) as [s1|] eqn:Es; [|discriminate]. cbn [bind].
    apply store_info_peak in Es as [_ Ep].
    destruct (is_idx s1); [discriminate|]. intro H; injection H as <- <- <-. lia.
  - cbn [bind]. destruct (is_idx st); [discriminate|]. intro H; injection H as <- <- <-. lia.
Qed.

(* ------------------------------------------------------------------ *)
(* Part 3: random access                                                *)
(* ------------------------------------------------------------------ *)
Lemma skipn_add {A} (l : list A) : forall a b, skipn a (skipn b l) = skipn (b + a) l.
Proof.
  induction l as [|x l IH]; intros a b.
  - rewrite !skipn_nil. reflexivity.
  - destruct b; [reflexivity|]. cbn. apply IH.
Qed.

Lemma skipn_app_r {A} (a b : list A) n : skipn (length a + n) (a ++ b) = skipn n b.
Proof. induction a; cbn; auto. Qed.

Lemma firstn_skipn_app_l {A} (a b : list A) j m :
  (j + m <= length a)%nat -> firstn m (skipn j (a ++ b)) = firstn m (skipn j a).
Proof.
  intro H. rewrite skipn_app, firstn_app, skipn_length.
  replace (m - (length a - j))%nat with 0%nat by lia. cbn. apply app_nil_r.
Qed.

(* the sequence lines of a record without their very last eol *)
Fixpoint slines (fuel w : nat) (x eol : str) : str :=
  match fuel with
  | O => []
  | S f => match skipn w x with
           | [] => x
           | rest => firstn w x ++ eol ++ slines f w rest eol
           end
  end.

Lemma seq_lines_nil fuel w eol : seq_lines fuel w [] eol = [].
Proof. destruct fuel; reflexivity. Qed.

Lemma seq_lines_slines w eol : (1 <= w)%nat -> forall fuel x,
  (length x <= fuel)%nat -> x <> [] ->
  seq_lines fuel w x eol = slines fuel w x eol ++ eol.
Proof.
  intros Hw. induction fuel as [|f IH]; intros x Hl Hx.
  - destruct x; [contradiction | cbn in Hl; lia].
  - cbn [seq_lines slines]. destruct x as [|c x']; [contradiction|].
    set (x := c :: x') in *.
    destruct (skipn w x) as [|r0 rest] eqn:Es.
    + rewrite seq_lines_nil, app_nil_r.
      pose proof (firstn_skipn w x) as E. rewrite Es, app_nil_r in E. rewrite E. reflexivity.
    + rewrite <- Es. rewrite IH.
      * rewrite <- !app_assoc. reflexivity.
      * rewrite skipn_length. lia.
      * rewrite Es. discriminate.
Qed.

Lemma read_line w eol : (1 <= w)%nat -> forall k fuel x j m post,
  (length x <= fuel)%nat -> (j + m <= w)%nat -> (k * w + j + m <= length x)%nat ->
  firstn m (skipn (k * (w + length eol) + j) (slines fuel w x eol ++ post))
  = firstn m (skipn (k * w + j) x).
Proof.
  intros Hw. induction k as [|k IH]; intros fuel x j m post Hf Hj Hk.
  - destruct m as [|m']; [reflexivity|]. set (m := S m') in *.
    cbn [Nat.mul Nat.add] in *.
    destruct fuel as [|f]; [lia|]. cbn [slines].
    destruct (skipn w x) as [|r0 rest] eqn:Es.
    + apply firstn_skipn_app_l. lia.
    + assert (Hl : (w < length x)%nat).
      { assert (E : length (skipn w x) = S (length rest)) by (rewrite Es; reflexivity).
        rewrite skipn_length in E. lia. }
      rewrite <- app_assoc.
      rewrite firstn_skipn_app_l by (rewrite firstn_length; lia).
      rewrite <- (firstn_skipn w x) at 2.
      rewrite firstn_skipn_app_l by (rewrite firstn_length; lia). reflexivity.
  - destruct m as [|m']; [reflexivity|]. set (m := S m') in *.
    destruct fuel as [|f]; [cbn in Hk; lia|]. cbn [slines].
    assert (Hl : (w < length x)%nat) by (cbn in Hk; lia).
    destruct (skipn w x) as [|r0 rest] eqn:Es.
    + assert (E : length (skipn w x) = 0%nat) by (rewrite Es; reflexivity).
      rewrite skipn_length in E. lia.
    + rewrite <- Es.
      replace (S k * (w + length eol) + j)%nat
        with (length (firstn w x ++ eol) + (k * (w + length eol) + j))%nat
        by (rewrite app_length, firstn_length; lia).
      rewrite <- !app_assoc, (app_assoc (firstn w x) eol), skipn_app_r.
      rewrite IH.
      * rewrite skipn_add. f_equal. f_equal. lia.
      * rewrite skipn_length. lia.
      * lia.
      * rewrite skipn_length. cbn in Hk. lia.
Qed.

Lemma py_slice_app {A} (x : list A) a b c :
  0 <= a -> a <= b -> b <= c -> py_slice x a b ++ py_slice x b c = py_slice x a c.
Proof.
  intros Ha Hb Hc. unfold py_slice.
  set (y := skipn (Z.to_nat a) x).
  replace (skipn (Z.to_nat b) x) with (skipn (Z.to_nat (b - a)) y)
    by (unfold y; rewrite skipn_add; f_equal; lia).
  replace (Z.to_nat (c - a)) with (Z.to_nat (b - a) + Z.to_nat (c - b))%nat by lia.
  set (d1 := Z.to_nat (b - a)). set (d2 := Z.to_nat (c - b)).
  rewrite firstn_skipn_comm.
  rewrite <- (firstn_skipn d1 (firstn (d1 + d2) y)) at 2.
  f_equal. rewrite firstn_firstn. f_equal. lia.
Qed.

Lemma py_slice_len {A} (x : list A) a b :
  0 <= a -> a <= b -> b <= zlen x -> zlen (py_slice x a b) = b - a.
Proof.
  intros. unfold py_slice, zlen in *. rewrite firstn_length, skipn_length. lia.
Qed.

Lemma py_slice_empty {A} (x : list A) a : py_slice x a a = [].
Proof. unfold py_slice. rewrite Z.sub_diag. reflexivity. Qed.

Section Access.
  Variables (w F : nat) (eol pre post x file : str).
  Hypothesis Hw : (1 <= w)%nat.
  Hypothesis HF : (length x <= F)%nat.
  Hypothesis Hfile : file = pre ++ slines F w x eol ++ post.
  Let off := zlen pre.
  Let n := zlen x.
  Let W := Z.of_nat w.
  Let le := zlen eol.

  Lemma fread_line k j m :
    0 <= k -> 0 <= j -> 0 <= m -> j + m <= W -> k * W + j + m <= n ->
    fread file (off + (W + le) * k + j) m = py_slice x (k * W + j) (k * W + j + m).
  Proof.
    intros Hk Hj Hm Hjm Hn. unfold fread, py_slice.
    replace (m <? 0) with false by lia.
    rewrite Hfile.
    replace (Z.to_nat (off + (W + le) * k + j))
      with (length pre + (Z.to_nat k * (w + length eol) + Z.to_nat j))%nat
      by (unfold off, W, le, zlen; nia).
    rewrite skipn_app_r.
    replace (k * W + j + m - (k * W + j)) with m by lia.
    replace (Z.to_nat (k * W + j)) with (Z.to_nat k * w + Z.to_nat j)%nat by (unfold W; nia).
    apply read_line; try assumption; unfold W, n, zlen in *; nia.
  Qed.

  Lemma rwl cnt : forall k, 0 <= k -> (k + Z.of_nat cnt) * W <= n ->
    read_whole_lines file cnt (off + (W + le) * k) W le
    = (py_slice x (k * W) ((k + Z.of_nat cnt) * W), off + (W + le) * (k + Z.of_nat cnt)).
  Proof.
    induction cnt as [|c IH]; intros k Hk Hn.
    - cbn [read_whole_lines]. rewrite Z.add_0_r, py_slice_empty. reflexivity.
    - cbn [read_whole_lines].
      assert (HW : 1 <= W) by (unfold W; lia).
      pose proof (fread_line k 0 W Hk) as E.
      rewrite !Z.add_0_r in E. rewrite E by nia. clear E.
      rewrite py_slice_len by nia.
      replace (off + (W + le) * k + (k * W + W - k * W) + le) with (off + (W + le) * (k + 1)) by lia.
      rewrite IH by nia.
      replace (k + 1 + Z.of_nat c) with (k + Z.of_nat (S c)) by lia.
      f_equal. replace ((k + 1) * W) with (k * W + W) by lia.
      apply py_slice_app; nia.
  Qed.

  Lemma access_layout :
    good_access file (mkInfo n off (Z.min W n) (Z.min W n + le)) x.
  Proof.
    split; [reflexivity|]. intros s0 e Hs Hse He. fold n in He.
    assert (HW : 1 <= W) by (unfold W; lia).
    assert (Hoff : 0 <= off) by apply zlen_nonneg.
    assert (Hle : 0 <= le) by apply zlen_nonneg.
    unfold sequence_bytes, slice1. cbn [fi_rpl fi_mll fi_offset].
    replace (Z.min W n + le - Z.min W n) with le by lia.
    destruct (Z.le_gt_cases n W) as [Hc|Hc].
    - (* a single line *)
      rewrite (Z.min_r W n) by lia.
      replace (n =? 0) with false by lia.
      rewrite (Z.div_small (s0 - 1) n), (Z.div_small (e - 1) n), (Z.mod_small (s0 - 1) n) by lia.
      replace (off + (s0 - 1) + (n + le) * 0 <? 0) with false by lia.
      rewrite Z.eqb_refl.
      pose proof (fread_line 0 (s0 - 1) (e - (s0 - 1))) as E.
      replace (off + (W + le) * 0 + (s0 - 1)) with (off + (s0 - 1) + (n + le) * 0) in E by lia.
      rewrite E by lia. f_equal. f_equal; lia.
    - rewrite (Z.min_l W n) by lia.
      replace (W =? 0) with false by lia.
      pose proof (Z.div_mod (s0 - 1) W ltac:(lia)) as D0.
      pose proof (Z.mod_pos_bound (s0 - 1) W ltac:(lia)) as B0.
      pose proof (Z.div_mod (e - 1) W ltac:(lia)) as D1.
      pose proof (Z.mod_pos_bound (e - 1) W ltac:(lia)) as B1.
      pose proof (Z.div_mod e W ltac:(lia)) as D2.
      pose proof (Z.mod_pos_bound e W ltac:(lia)) as B2.
      pose proof (Z.div_le_mono (s0 - 1) (e - 1) W ltac:(lia) ltac:(lia)) as Mono.
      set (k0 := (s0 - 1) / W) in *. set (j0 := (s0 - 1) mod W) in *.
      set (k1 := (e - 1) / W) in *. set (r1 := (e - 1) mod W) in *.
      set (q := e / W) in *. set (j1 := e mod W) in *.
      clearbody k0 j0 k1 r1 q j1.
      assert (Hk0 : 0 <= k0) by nia.
      assert (Hq : (j1 = 0 /\ q = k1 + 1) \/ (j1 <> 0 /\ q = k1)) by nia.
      replace (off + j0 + (W + le) * k0 <? 0) with false by nia.
      replace (off + j0 + (W + le) * k0) with (off + (W + le) * k0 + j0) by lia.
      destruct (k0 =? k1) eqn:Ek.
      + assert (k0 = k1) by lia. subst k1.
        rewrite fread_line by nia. f_equal. f_equal; lia.
      + assert (Hlt : k0 + 1 <= k1) by lia.
        assert (Hb : (k0 + 1) * W <= k1 * W) by nia.
        rewrite fread_line by nia.
        rewrite py_slice_len by nia.
        replace (off + (W + le) * k0 + j0 + (k0 * W + j0 + (W - j0) - (k0 * W + j0)) + le)
          with (off + (W + le) * (k0 + 1)) by lia.
        replace (k0 * W + j0) with (s0 - 1) by lia.
        replace (s0 - 1 + (W - j0)) with ((k0 + 1) * W) by lia.
        destruct Hq as [[Hj Hq]|[Hj Hq]].
        * replace (j1 =? 0) with true by lia.
          replace (Z.to_nat (k1 - k0)) with (Z.to_nat (k1 - k0 - 1) + 1)%nat by lia.
          rewrite rwl by nia.
          rewrite app_nil_r.
          replace ((k0 + 1 + Z.of_nat (Z.to_nat (k1 - k0 - 1) + 1)) * W) with e by nia.
          f_equal. apply py_slice_app; nia.
        * replace (j1 =? 0) with false by lia.
          rewrite rwl by nia.
          replace (k0 + 1 + Z.of_nat (Z.to_nat (k1 - 1 - k0))) with k1 by lia.
          pose proof (fread_line k1 0 j1) as E. rewrite !Z.add_0_r in E.
          rewrite E by nia. clear E.
          replace (k1 * W + j1) with e by nia.
          rewrite py_slice_app by nia.
          f_equal. apply py_slice_app; nia.
  Qed.
End Access.

(* ---- layout of a rendered file *)
Definition hdr (eol : str) (r : record) : str := GT :: r_name r ++ r_desc r ++ eol.

Lemma render_record_split w eol r : (1 <= w)%nat -> r_seq r <> [] ->
  render_record w eol r
  = hdr eol r ++ slines (S (length (r_seq r))) w (r_seq r) eol ++ eol.
Proof.
  intros Hw Hx. unfold render_record, hdr.
  rewrite (seq_lines_slines w eol Hw) by (auto; lia).
  cbn [app]. f_equal. rewrite <- !app_assoc. reflexivity.
Qed.

Lemma render_all_app w eol a b :
  render_all w eol (a ++ b) = render_all w eol a ++ render_all w eol b.
Proof. unfold render_all. rewrite map_app, concat_app. reflexivity. Qed.

Lemma render_all_cons w eol r l :
  render_all w eol (r :: l) = render_record w eol r ++ render_all w eol l.
Proof. reflexivity. Qed.

Definition has_seq (r : record) : Prop := r_seq r <> [].

Lemma render_all_ends w eol : (1 <= w)%nat -> forall l, Forall has_seq l ->
  exists p, eol ++ render_all w eol l = p ++ eol.
Proof.
  intros Hw. induction l as [|r l IH]; intro H.
  - exists []. cbn. apply app_nil_r.
  - inversion H as [|? ? Hr Hl]; subst. destruct (IH Hl) as [p Hp].
    rewrite render_all_cons, render_record_split by assumption.
    exists (eol ++ hdr eol r ++ slines (S (length (r_seq r))) w (r_seq r) eol ++ p).
    rewrite <- !app_assoc. rewrite Hp. reflexivity.
Qed.

Lemma firstn_exact {A} (a b : list A) : firstn (length a) (a ++ b) = a.
Proof. rewrite firstn_app, firstn_all, Nat.sub_diag. cbn. apply app_nil_r. Qed.

Lemma render_layout w eol fnl l1 r l2 : (1 <= w)%nat -> Forall has_seq (r :: l2) ->
  exists post, render w eol fnl (l1 ++ r :: l2)
    = (render_all w eol l1 ++ hdr eol r)
      ++ slines (S (length (r_seq r))) w (r_seq r) eol ++ post.
Proof.
  intros Hw H. inversion H as [|? ? Hr Hl]; subst.
  unfold render. rewrite render_all_app, render_all_cons, render_record_split by assumption.
  destruct fnl.
  - eexists. rewrite <- !app_assoc. reflexivity.
  - destruct (render_all_ends w eol Hw l2 Hl) as [p Hp].
    exists p.
    set (sl := slines _ _ _ _) in *.
    replace (render_all w eol l1 ++ (hdr eol r ++ sl ++ eol) ++ render_all w eol l2)
      with (((render_all w eol l1 ++ hdr eol r) ++ sl ++ p) ++ eol)
      by (rewrite <- !app_assoc; rewrite <- Hp; reflexivity).
    rewrite app_length, Nat.add_sub. apply firstn_exact.
Qed.

Lemma offsets_nth w eol l1 r l2 : forall pos,
  nth_error (offsets w eol (l1 ++ r :: l2) pos) (length l1)
  = Some (pos + zlen (render_all w eol l1) + zlen (hdr eol r)).
Proof.
  induction l1 as [|a l1 IH]; intro pos.
  - cbn. f_equal. unfold render_all, hdr, zlen. cbn. lia.
  - cbn [app length offsets nth_error]. rewrite IH. f_equal.
    rewrite render_all_cons, zlen_app. lia.
Qed.

Lemma record_ok_has_seq r : record_ok r -> has_seq r.
Proof. intros (_ & _ & H & _). exact H. Qed.

(* 3 *)
Theorem random_access_spec : forall w eol final_nl recs k r off,
  fasta_wf w eol recs -> nth_error recs k = Some r -> nth_error (offsets w eol recs 0) k = Some off ->
  good_access (render w eol final_nl recs) (expected_info w eol r off) (r_seq r).
Proof.
  intros w eol fnl recs k r off (Hw & Heol & Hne & Hok & Hnd) Hk Hoff.
  apply nth_error_split in Hk as (l1 & l2 & -> & <-).
  rewrite offsets_nth in Hoff. injection Hoff as <-.
  assert (Hs : Forall has_seq (r :: l2)).
  { apply Forall_app in Hok as [_ Hok]. eapply Forall_impl; [|exact Hok].
    apply record_ok_has_seq. }
  destruct (render_layout w eol fnl l1 r l2 Hw Hs) as [post Hfile].
  unfold expected_info.
  match goal with |- good_access _ (mkInfo _ ?o _ _) _ =>
    replace o with (zlen (render_all w eol l1 ++ hdr eol r)) by (rewrite zlen_app; lia) end.
  eapply access_layout; [exact Hw | | exact Hfile]. lia.
Qed.

Theorem empty_file_rejected : forall buf, index_fasta [] buf = Err ValueError.
Proof. reflexivity. Qed.

(* 5 *)
Lemma index_legacy_refuted : exists file, file = s ">a
ACGT" /\
  (match index_fasta_legacy file 250000 with
   | Ok (idx, _, _) => map (fun p => fi_length (snd p)) idx | Err _ => [] end) = [3]
  /\ (match index_fasta file 250000 with
      | Ok (idx, _, _) => map (fun p => fi_length (snd p)) idx | Err _ => [] end) = [4].
Proof. eexists. split; [reflexivity|]. vm_compute. split; reflexivity. Qed.

(* ------------------------------------------------------------------ *)
(* Part 4a: the run fold against tile_rows                              *)
(* ------------------------------------------------------------------ *)
Definition close (acc : racc) : list (Z * Z) :=
  match acc with
  | (rs, Some e, regs) => regs ++ [(rs, e)]
  | (_, None, regs) => regs
  end.

Definition pre_regs (pre : list (Z * Z)) (acc : racc) : racc :=
  match acc with (rs, re, regs) => (rs, re, pre ++ regs) end.

Lemma merge_run_prefix pre acc run :
  merge_run (pre_regs pre acc) run = pre_regs pre (merge_run acc run).
Proof.
  destruct acc as [[rs re] regs], run as [a b]. cbn.
  destruct re as [e|]; [destruct (a =? e)|]; cbn; rewrite ?app_assoc; reflexivity.
Qed.

Lemma charfold_prefix pre x : forall p acc,
  charfold x p (pre_regs pre acc) = pre_regs pre (charfold x p acc).
Proof.
  induction x as [|c t IH]; intros p acc; [reflexivity|].
  cbn [charfold]. destruct (is_acgt c); [rewrite merge_run_prefix|]; apply IH.
Qed.

Lemma close_prefix pre acc : close (pre_regs pre acc) = pre ++ close acc.
Proof. destruct acc as [[rs [e|]] regs]; cbn; rewrite ?app_assoc; reflexivity. Qed.

Definition acc0 : racc := (0, None, []).
Definition runs (x : str) (p : Z) : list (Z * Z) := close (charfold x p acc0).

Lemma close_charfold_sep x : forall p rs e regs, e < p ->
  close (charfold x p (rs, Some e, regs)) = regs ++ (rs, e) :: runs x p.
Proof.
  induction x as [|c t IH]; intros p rs e regs He.
  - reflexivity.
  - unfold runs. cbn [charfold]. destruct (is_acgt c).
    + cbn [merge_run acc0]. replace (p =? e) with false by lia.
      assert (E : (p, Some (p + 1), regs ++ [(rs, e)])
                  = pre_regs (regs ++ [(rs, e)]) (p, Some (p + 1), []))
        by (cbn; rewrite app_nil_r; reflexivity).
      rewrite E, charfold_prefix, close_prefix, <- app_assoc. reflexivity.
    + apply IH. lia.
Qed.

Definition all_acgt (a : str) : Prop := forallb is_acgt a = true.
Definition none_acgt (a : str) : Prop := forallb (fun c => negb (is_acgt c)) a = true.
Definition starts_non (b : str) : Prop :=
  match b with [] => True | d :: _ => is_acgt d = false end.
Definition starts_acgt (b : str) : Prop :=
  match b with [] => True | d :: _ => is_acgt d = true end.

Lemma charfold_acgt a : forall p acc, all_acgt a -> a <> [] ->
  charfold a p acc = merge_run acc (p, p + zlen a).
Proof.
  unfold all_acgt.
  induction a as [|c a IH]; intros p acc Ha Hne; [contradiction|].
  cbn in Ha. apply andb_true_iff in Ha as [Hc Ha]. cbn [charfold]. rewrite Hc.
  destruct a as [|c' a'].
  - reflexivity.
  - rewrite IH by (auto; discriminate). rewrite merge_run_join. f_equal. f_equal.
    rewrite (zlen_cons c). lia.
Qed.

Lemma charfold_non a : forall p acc, none_acgt a -> charfold a p acc = acc.
Proof.
  unfold none_acgt.
  induction a as [|c a IH]; intros p acc Ha; [reflexivity|].
  cbn in Ha. apply andb_true_iff in Ha as [Hc Ha]. cbn [charfold].
  destruct (is_acgt c); [discriminate|]. apply IH. exact Ha.
Qed.

Lemma runs_non a rest p : none_acgt a -> runs (a ++ rest) p = runs rest (p + zlen a).
Proof. intro H. unfold runs. rewrite charfold_app, (charfold_non a) by exact H. reflexivity. Qed.

Lemma runs_acgt a rest p : all_acgt a -> a <> [] -> starts_non rest ->
  runs (a ++ rest) p = (p, p + zlen a) :: runs rest (p + zlen a).
Proof.
  intros Ha Hne Hr. unfold runs at 1. rewrite charfold_app, (charfold_acgt a) by assumption.
  cbn [merge_run acc0]. destruct rest as [|d rest'].
  - reflexivity.
  - cbn in Hr. cbn [charfold]. rewrite Hr.
    rewrite close_charfold_sep by lia. cbn [app]. f_equal.
    unfold runs. cbn [charfold]. rewrite Hr. reflexivity.
Qed.

Definition take_acgt : str -> str * str :=
  fix tw (l : str) : str * str :=
    match l with
    | d :: t => if is_acgt d then let '(a, b) := tw t in (d :: a, b) else ([], l)
    | [] => ([], [])
    end.
Definition take_non : str -> str * str :=
  fix tw (l : str) : str * str :=
    match l with
    | d :: t => if is_acgt d then ([], l) else let '(a, b) := tw t in (d :: a, b)
    | [] => ([], [])
    end.

Lemma take_acgt_spec l : forall a b, take_acgt l = (a, b) ->
  l = a ++ b /\ all_acgt a /\ starts_non b.
Proof.
  unfold all_acgt.
  induction l as [|d t IH]; intros a b H; cbn in H.
  - injection H as <- <-. repeat split.
  - destruct (is_acgt d) eqn:Ed.
    + destruct (take_acgt t) as [a' b'] eqn:Et. injection H as <- <-.
      destruct (IH a' b' eq_refl) as (-> & Ha & Hb). repeat split; auto.
      cbn. rewrite Ed. exact Ha.
    + injection H as <- <-. repeat split. cbn. exact Ed.
Qed.

Lemma take_non_spec l : forall a b, take_non l = (a, b) ->
  l = a ++ b /\ none_acgt a /\ starts_acgt b.
Proof.
  unfold none_acgt.
  induction l as [|d t IH]; intros a b H; cbn in H.
  - injection H as <- <-. repeat split.
  - destruct (is_acgt d) eqn:Ed.
    + injection H as <- <-. repeat split. cbn. exact Ed.
    + destruct (take_non t) as [a' b'] eqn:Et. injection H as <- <-.
      destruct (IH a' b' eq_refl) as (-> & Ha & Hb). repeat split; auto.
      cbn. rewrite Ed. exact Ha.
Qed.

Lemma tile_rows_acgt f name c t pos : is_acgt c = true ->
  tile_rows (S f) name (c :: t) pos =
  let '(run, rest) := take_acgt (c :: t) in
  RF (mkFrag (-1) name (pos + 1) (pos + zlen run) 1 []) :: tile_rows f name rest (pos + zlen run).
Proof.
  intro H. cbn [tile_rows].
  change (take_acgt (c :: t))
    with (if is_acgt c then let '(a, b) := take_acgt t in (c :: a, b) else ([], c :: t)).
  rewrite H. reflexivity.
Qed.

Lemma tile_rows_non f name c t pos : is_acgt c = false ->
  tile_rows (S f) name (c :: t) pos =
  let '(run, rest) := take_non (c :: t) in
  RG (mkGap (zlen run) scaffold_gap) :: tile_rows f name rest (pos + zlen run).
Proof.
  intro H. cbn [tile_rows].
  change (take_non (c :: t))
    with (if is_acgt c then ([], c :: t) else let '(a, b) := take_non t in (c :: a, b)).
  rewrite H. reflexivity.
Qed.

Lemma tile_rows_nil f name pos : tile_rows f name [] pos = [].
Proof. destruct f; reflexivity. Qed.

Lemma region_rows_head name q en t p n :
  region_rows name ((q, en) :: t) p n
  = (if q =? p then [] else [RG (mkGap (q - p) scaffold_gap)]) ++ region_rows name ((q, en) :: t) q n.
Proof. cbn [region_rows]. rewrite Z.eqb_refl. reflexivity. Qed.

Lemma tile_region name : forall fuel x p, (length x <= fuel)%nat ->
  region_rows name (runs x p) p (p + zlen x) = tile_rows fuel name x p.
Proof.
  induction fuel as [|f IH]; intros x p Hl.
  - destruct x; [|cbn in Hl; lia]. cbn. rewrite ?zlen_nil.
    replace (p + 0 - p =? 0) with true by lia. reflexivity.
  - destruct x as [|c t].
    { cbn. rewrite ?zlen_nil. replace (p + 0 - p =? 0) with true by lia. reflexivity. }
    destruct (is_acgt c) eqn:Ec.
    + rewrite tile_rows_acgt by exact Ec.
      destruct (take_acgt (c :: t)) as [a rest] eqn:Et.
      pose proof (take_acgt_spec _ _ _ Et) as (E & Ha & Hr).
      assert (Hne : a <> []).
      { cbn in Et. rewrite Ec in Et. destruct (take_acgt t). injection Et as <- _. discriminate. }
      rewrite E, runs_acgt by assumption.
      cbn [region_rows]. rewrite Z.eqb_refl. cbn [app]. f_equal.
      rewrite zlen_app, Z.add_assoc. apply IH.
      assert (length (c :: t) = length (a ++ rest)) by (rewrite E; reflexivity).
      rewrite app_length in *. destruct a; [contradiction|]. cbn in *. lia.
    + rewrite tile_rows_non by exact Ec.
      destruct (take_non (c :: t)) as [g rest] eqn:Et.
      pose proof (take_non_spec _ _ _ Et) as (E & Hg & Hr).
      assert (Hne : g <> []).
      { cbn in Et. rewrite Ec in Et. destruct (take_non t). injection Et as <- _. discriminate. }
      assert (Hlen : (length rest <= f)%nat).
      { assert (length (c :: t) = length (g ++ rest)) by (rewrite E; reflexivity).
        rewrite app_length in *. destruct g; [contradiction|]. cbn in *. lia. }
      assert (Hgz : 0 < zlen g) by (destruct g; [contradiction | rewrite zlen_cons; pose proof (zlen_nonneg g); lia]).
      rewrite E, runs_non, zlen_app, Z.add_assoc by assumption.
      rewrite <- (IH rest (p + zlen g) Hlen).
      destruct rest as [|d rest'].
      * cbn. rewrite ?zlen_nil.
        replace (p + zlen g + 0 - p =? 0) with false by lia.
        replace (p + zlen g + 0 - (p + zlen g) =? 0) with true by lia.
        do 3 f_equal. lia.
      * cbn in Hr.
        destruct (take_acgt (d :: rest')) as [a rest2] eqn:Et2.
        pose proof (take_acgt_spec _ _ _ Et2) as (E2 & Ha & Hr2).
        assert (Hne2 : a <> []).
        { cbn in Et2. rewrite Hr in Et2. destruct (take_acgt rest'). injection Et2 as <- _. discriminate. }
        rewrite E2, runs_acgt by assumption.
        rewrite region_rows_head.
        replace (p + zlen g =? p) with false by lia.
        cbn [app]. do 3 f_equal. lia.
Qed.

Lemma tile_region0 name x :
  region_rows name (close (charfold x 0 acc0)) 0 (zlen x)
  = tile_rows (S (length x)) name x 0.
Proof. apply (tile_region name (S (length x)) x 0). lia. Qed.

(* ------------------------------------------------------------------ *)
(* Part 4b: the lines of a rendered file                                *)
(* ------------------------------------------------------------------ *)
Definition lf_free (b : str) : Prop := forallb (fun c => negb (Ascii.eqb c LF)) b = true.

Lemma split_lines_acc_line body : forall rest cur, lf_free body ->
  split_lines_acc (body ++ LF :: rest) cur = (rev cur ++ body ++ [LF]) :: split_lines_acc rest [].
Proof.
  unfold lf_free. induction body as [|c body IH]; intros rest cur H.
  - cbn. reflexivity.
  - cbn [forallb] in H. apply andb_true_iff in H as [Hc H]. cbn [app split_lines_acc].
    apply negb_true_iff in Hc. rewrite Hc.
    rewrite IH by exact H. cbn [rev]. rewrite <- app_assoc. reflexivity.
Qed.

Lemma split_lines_acc_last body : forall cur, lf_free body -> (body <> [] \/ cur <> []) ->
  split_lines_acc body cur = [rev cur ++ body].
Proof.
  unfold lf_free. induction body as [|c body IH]; intros cur H Hne.
  - cbn. destruct cur; [destruct Hne; contradiction|]. rewrite app_nil_r. reflexivity.
  - cbn [forallb] in H. apply andb_true_iff in H as [Hc H]. cbn [split_lines_acc].
    apply negb_true_iff in Hc. rewrite Hc.
    rewrite IH by (auto; right; discriminate). cbn [rev]. rewrite <- app_assoc. reflexivity.
Qed.

Definition good_line (l : str) : Prop := exists b, l = b ++ [LF] /\ lf_free b.

Lemma split_lines_concat ls : Forall good_line ls -> forall tail, lf_free tail ->
  split_lines (concat ls ++ tail) = ls ++ (match tail with [] => [] | _ => [tail] end).
Proof.
  unfold split_lines. induction 1 as [|l ls (b & -> & Hb) Hls IH]; intros tail Ht.
  - cbn [concat app]. destruct tail as [|c t]; [reflexivity|].
    rewrite split_lines_acc_last by (auto; left; discriminate). reflexivity.
  - cbn [concat]. rewrite <- !app_assoc. cbn [app].
    rewrite split_lines_acc_line by exact Hb. cbn [rev app]. rewrite IH by exact Ht. reflexivity.
Qed.

Fixpoint chunks (fuel w : nat) (x : str) : list str :=
  match fuel with
  | O => []
  | S f => match x with
           | [] => []
           | _ => firstn w x :: chunks f w (skipn w x)
           end
  end.

Lemma seq_lines_chunks w eol : forall fuel x,
  seq_lines fuel w x eol = concat (map (fun ch => ch ++ eol) (chunks fuel w x)).
Proof.
  induction fuel as [|f IH]; intro x; [reflexivity|].
  destruct x as [|c x']; [reflexivity|].
  cbn [seq_lines chunks map concat]. rewrite IH, <- app_assoc. reflexivity.
Qed.

Definition chunk_ok (ch : str) : Prop := ch <> [] /\ forallb residue_ok ch = true.

Lemma forallb_firstn {A} (f : A -> bool) n l : forallb f l = true -> forallb f (firstn n l) = true.
Proof.
  intro H. rewrite <- (firstn_skipn n l), forallb_app in H. apply andb_true_iff in H. tauto.
Qed.
Lemma forallb_skipn {A} (f : A -> bool) n l : forallb f l = true -> forallb f (skipn n l) = true.
Proof.
  intro H. rewrite <- (firstn_skipn n l), forallb_app in H. apply andb_true_iff in H. tauto.
Qed.

Lemma chunks_ok w : (1 <= w)%nat -> forall fuel x,
  forallb residue_ok x = true -> Forall chunk_ok (chunks fuel w x).
Proof.
  intros Hw. induction fuel as [|f IH]; intros x Hx; [constructor|].
  destruct x as [|c x']; [constructor|]. cbn [chunks]. constructor.
  - split; [|apply forallb_firstn; exact Hx]. destruct w; [lia|]. discriminate.
  - apply IH. apply forallb_skipn. exact Hx.
Qed.

Lemma chunks_concat w : (1 <= w)%nat -> forall fuel x, (length x <= fuel)%nat ->
  concat (chunks fuel w x) = x.
Proof.
  intros Hw. induction fuel as [|f IH]; intros x Hl.
  - destruct x; [reflexivity | cbn in Hl; lia].
  - destruct x as [|c x']; [reflexivity|]. cbn [chunks concat].
    rewrite IH; [apply firstn_skipn|]. rewrite skipn_length. cbn [length] in *. lia.
Qed.

Definition rec_lines (w : nat) (eol : str) (r : record) : list str :=
  hdr eol r :: map (fun ch => ch ++ eol) (chunks (S (length (r_seq r))) w (r_seq r)).
Definition all_lines (w : nat) (eol : str) (recs : list record) : list str :=
  flat_map (rec_lines w eol) recs.

Lemma render_record_lines w eol r : render_record w eol r = concat (rec_lines w eol r).
Proof.
  unfold render_record, rec_lines, hdr. rewrite seq_lines_chunks. cbn [concat app].
  f_equal. rewrite <- !app_assoc. reflexivity.
Qed.

Lemma render_all_lines w eol recs : render_all w eol recs = concat (all_lines w eol recs).
Proof.
  induction recs as [|r recs IH]; [reflexivity|].
  rewrite render_all_cons. unfold all_lines. cbn [flat_map]. rewrite concat_app.
  rewrite render_record_lines. f_equal. exact IH.
Qed.

Lemma all_lines_app w eol a b : all_lines w eol (a ++ b) = all_lines w eol a ++ all_lines w eol b.
Proof. unfold all_lines. apply flat_map_app. Qed.

(* ---- facts about characters *)
Lemma LF_space c : is_bspace c = false -> Ascii.eqb c LF = false.
Proof.
  intro H. destruct (Ascii.eqb_spec c LF) as [->|]; [|reflexivity]. discriminate H.
Qed.
Lemma CR_space c : is_bspace c = false -> Ascii.eqb c CR = false.
Proof.
  intro H. destruct (Ascii.eqb_spec c CR) as [->|]; [|reflexivity]. discriminate H.
Qed.

Lemma forallb_impl {A} (f g : A -> bool) l :
  (forall a, f a = true -> g a = true) -> forallb f l = true -> forallb g l = true.
Proof.
  intros H. induction l as [|a l IH]; [reflexivity|]. cbn.
  intro E. apply andb_true_iff in E as [E1 E2]. rewrite (H a E1), (IH E2). reflexivity.
Qed.

Definition nocrlf (c : ascii) : bool := negb (Ascii.eqb c LF) && negb (Ascii.eqb c CR).

Lemma name_nocrlf n : name_ok n -> forallb nocrlf n = true.
Proof.
  intros [_ H]. eapply forallb_impl; [|exact H]. intros a Ha. unfold nocrlf.
  apply negb_true_iff in Ha. rewrite (LF_space a Ha), (CR_space a Ha). reflexivity.
Qed.
Lemma desc_nocrlf d : desc_ok d -> forallb nocrlf d = true.
Proof. destruct d; [reflexivity|]. intros [_ H]. exact H. Qed.
Lemma residue_nocrlf x : forallb residue_ok x = true -> forallb nocrlf x = true.
Proof.
  apply forallb_impl. intros a Ha. unfold residue_ok in Ha. unfold nocrlf.
  apply andb_true_iff in Ha as [Ha _]. exact Ha.
Qed.
Lemma nocrlf_lf_free x : forallb nocrlf x = true -> lf_free x.
Proof.
  apply forallb_impl. intros a Ha. unfold nocrlf in Ha. apply andb_true_iff in Ha as [Ha _]. exact Ha.
Qed.

(* the part of a header line before the eol *)
Definition hbody (r : record) : str := GT :: r_name r ++ r_desc r.

Lemma hdr_hbody eol r : hdr eol r = hbody r ++ eol.
Proof. unfold hdr, hbody. cbn [app]. rewrite <- app_assoc. reflexivity. Qed.

Lemma hbody_nocrlf r : record_ok r -> forallb nocrlf (hbody r) = true.
Proof.
  intros (Hn & Hd & _). unfold hbody. cbn [forallb]. rewrite forallb_app.
  rewrite (name_nocrlf _ Hn), (desc_nocrlf _ Hd). reflexivity.
Qed.

Lemma good_line_eol eol b : eol_ok eol -> forallb nocrlf b = true -> good_line (b ++ eol).
Proof.
  intros [->| ->] Hb.
  - exists b. split; [reflexivity | apply nocrlf_lf_free; exact Hb].
  - exists (b ++ [CR]). split; [rewrite <- app_assoc; reflexivity|].
    unfold lf_free. rewrite forallb_app. apply nocrlf_lf_free in Hb. unfold lf_free in Hb.
    rewrite Hb. reflexivity.
Qed.

Lemma rec_lines_good w eol r : (1 <= w)%nat -> eol_ok eol -> record_ok r ->
  Forall good_line (rec_lines w eol r).
Proof.
  intros Hw He Hr. unfold rec_lines. constructor.
  - rewrite hdr_hbody. apply good_line_eol; [exact He | apply hbody_nocrlf; exact Hr].
  - apply Forall_map. destruct Hr as (_ & _ & _ & Hx).
    eapply Forall_impl; [|apply (chunks_ok w Hw _ _ Hx)].
    intros ch [_ Hc]. apply good_line_eol; [exact He | apply residue_nocrlf; exact Hc].
Qed.

Lemma all_lines_good w eol recs : (1 <= w)%nat -> eol_ok eol -> Forall record_ok recs ->
  Forall good_line (all_lines w eol recs).
Proof.
  intros Hw He. induction 1 as [|r recs Hr _ IH]; [constructor|].
  unfold all_lines. cbn [flat_map]. apply Forall_app. split; [apply rec_lines_good; assumption | exact IH].
Qed.

Lemma split_lines_render_true w eol recs : (1 <= w)%nat -> eol_ok eol -> Forall record_ok recs ->
  split_lines (render w eol true recs) = all_lines w eol recs.
Proof.
  intros Hw He Hr. unfold render. rewrite render_all_lines.
  rewrite <- (app_nil_r (concat _)).
  rewrite (split_lines_concat _ (all_lines_good w eol recs Hw He Hr) []) by reflexivity.
  apply app_nil_r.
Qed.

(* ------------------------------------------------------------------ *)
(* Part 4c: one line of a rendered file through index_line              *)
(* ------------------------------------------------------------------ *)
Definition word_split : str -> str * str :=
  fix tw (l : str) : str * str :=
    match l with
    | c :: t => if is_bspace c then ([], l) else let '(a, b) := tw t in (c :: a, b)
    | [] => ([], [])
    end.

Lemma first_word_eq x :
  first_word x = match lstrip_bspace x with [] => None | y => Some (fst (word_split y)) end.
Proof. unfold first_word. destruct (lstrip_bspace x); reflexivity. Qed.

Definition starts_space (x : str) : Prop :=
  match x with c :: _ => is_bspace c = true | [] => True end.

Lemma word_split_name n : forall rest,
  forallb (fun c => negb (is_bspace c)) n = true -> starts_space rest ->
  word_split (n ++ rest) = (n, rest).
Proof.
  induction n as [|c n IH]; intros rest Hn Hr.
  - cbn [app]. destruct rest as [|d rest]; [reflexivity|]. cbn in Hr. cbn. rewrite Hr. reflexivity.
  - cbn [forallb] in Hn. apply andb_true_iff in Hn as [Hc Hn]. apply negb_true_iff in Hc.
    cbn [app]. change (word_split (c :: n ++ rest))
      with (if is_bspace c then ([], c :: n ++ rest)
            else let '(a, b) := word_split (n ++ rest) in (c :: a, b)).
    rewrite Hc, IH by assumption. reflexivity.
Qed.

Lemma first_word_hdr eol r : eol_ok eol -> record_ok r ->
  first_word (r_name r ++ r_desc r ++ eol) = Some (r_name r).
Proof.
  intros He ((Hne & Hn) & Hd & _). rewrite first_word_eq.
  destruct (r_name r) as [|c n] eqn:En; [contradiction|].
  assert (Hc : is_bspace c = false).
  { cbn [forallb] in Hn. apply andb_true_iff in Hn as [Hc _]. apply negb_true_iff in Hc. exact Hc. }
  cbn [app lstrip_bspace]. rewrite Hc.
  change (c :: n ++ r_desc r ++ eol) with ((c :: n) ++ r_desc r ++ eol).
  rewrite word_split_name; [reflexivity | exact Hn |].
  destruct (r_desc r) as [|d ds].
  - destruct He as [-> | ->]; reflexivity.
  - destruct Hd as [[-> | ->] _]; reflexivity.
Qed.

Lemma py_nth_m2 {A} (a : list A) x y : py_nth (a ++ [x; y]) (-2) = Ok x.
Proof.
  unfold py_nth. rewrite zlen_app. change (zlen [x; y]) with 2.
  pose proof (zlen_nonneg a).
  replace (-2 <? 0) with true by lia.
  replace ((-2 + (zlen a + 2) <? 0) || (zlen a + 2 <=? -2 + (zlen a + 2))) with false by lia.
  replace (Z.to_nat (-2 + (zlen a + 2))) with (length a + 0)%nat by (unfold zlen; lia).
  rewrite nth_error_app2 by lia. replace (length a + 0 - length a)%nat with 0%nat by lia.
  reflexivity.
Qed.

Lemma py_nth_hdr eol r : eol_ok eol -> record_ok r ->
  exists c2, py_nth (hdr eol r) (-2) = Ok c2 /\ (if Ascii.eqb c2 CR then 2 else 1) = zlen eol.
Proof.
  intros He Hr. rewrite hdr_hbody. destruct He as [-> | ->].
  - pose proof (hbody_nocrlf r Hr) as Hb.
    destruct (exists_last (l := hbody r)) as (hb & z & E); [unfold hbody; discriminate|].
    rewrite E in *. rewrite <- app_assoc. cbn [app]. exists z. split; [apply py_nth_m2|].
    rewrite forallb_app in Hb. apply andb_true_iff in Hb as [_ Hz]. cbn [forallb] in Hz.
    unfold nocrlf in Hz. rewrite andb_true_r in Hz. apply andb_true_iff in Hz as [_ Hz].
    apply negb_true_iff in Hz. rewrite Hz. reflexivity.
  - exists CR. split; [apply py_nth_m2 | reflexivity].
Qed.

Lemma index_line_hdr buf eol c r : eol_ok eol -> record_ok r ->
  index_line false buf c (hdr eol r) =
  do st1 <- (match is_name c with Some _ => store_info c | None => Ok c end);
  Ok (mkIState (Some (r_name r)) 0 (is_pos c + zlen (hdr eol r)) 0 0 None [] (zlen eol)
               (is_buffer st1) (is_idx st1) (is_asm st1)
               (is_pos c + zlen (hdr eol r)) (is_peak st1)).
Proof.
  intros He Hr.
  destruct (py_nth_hdr eol r He Hr) as (c2 & Hc2 & Hleb).
  unfold index_line.
  change (hdr eol r) with (GT :: (r_name r ++ r_desc r ++ eol)) at 1.
  cbv iota beta.
  rewrite Ascii.eqb_refl, (first_word_hdr eol r He Hr).
  change (GT :: r_name r ++ r_desc r ++ eol) with (hdr eol r).
  rewrite Hc2. cbn [bind]. rewrite Hleb. reflexivity.
Qed.

Lemma last_opt_snoc {A} (a : list A) z : last_opt (a ++ [z]) = Some z.
Proof. unfold last_opt. rewrite rev_app_distr. reflexivity. Qed.

Lemma residue_not_lf c : residue_ok c = true -> Ascii.eqb c LF = false.
Proof.
  unfold residue_ok. intro H. apply andb_true_iff in H as [H _]. apply andb_true_iff in H as [H _].
  apply negb_true_iff in H. exact H.
Qed.
Lemma residue_not_gt c : residue_ok c = true -> Ascii.eqb c GT = false.
Proof.
  unfold residue_ok. intro H. apply andb_true_iff in H as [_ H].
  apply negb_true_iff in H. exact H.
Qed.

Definition seq_st (c : istate) (ch : str) (pos' : Z) : istate :=
  upd_buffer
    (mkIState (is_name c) (is_seq_length c) (is_file_offset c)
              (if is_rpl c =? 0 then zlen ch else is_rpl c)
              (is_region_start c) (is_region_end c) (is_regions c) (is_leb c)
              (is_buffer c) (is_idx c) (is_asm c) pos' (is_peak c))
    (is_buffer c ++ ch).

Lemma ends_lf_eol ch eol : eol_ok eol -> last_opt (ch ++ eol) = Some LF.
Proof.
  intros [-> | ->].
  - apply last_opt_snoc.
  - change [CR; LF] with ([CR] ++ [LF]). rewrite app_assoc. apply last_opt_snoc.
Qed.

Lemma index_line_seq buf c nm ch tl :
  is_name c = Some nm -> chunk_ok ch ->
  (tl = [] \/ (eol_ok tl /\ is_leb c = zlen tl)) ->
  index_line false buf c (ch ++ tl) =
  Ok (let st2 := seq_st c ch (is_pos c + zlen (ch ++ tl)) in
      if zlen (is_buffer st2) >? buf then process_seq_buffer st2 else st2).
Proof.
  intros Hn [Hne Hch] Htl.
  destruct ch as [|c0 ch']; [contradiction|].
  assert (Hgt : Ascii.eqb c0 GT = false).
  { cbn [forallb] in Hch. apply andb_true_iff in Hch as [H _]. apply residue_not_gt. exact H. }
  unfold index_line.
  change ((c0 :: ch') ++ tl) with (c0 :: (ch' ++ tl)) at 1.
  cbv iota beta zeta. rewrite Hgt, Hn. cbn [orb].
  change (c0 :: ch' ++ tl) with ((c0 :: ch') ++ tl).
  set (ch := c0 :: ch') in *.
  destruct Htl as [-> | [He Hl]].
  - destruct (exists_last Hne) as (a & z & E).
    assert (Hz : Ascii.eqb z LF = false).
    { rewrite E, forallb_app in Hch. apply andb_true_iff in Hch as [_ Hz]. cbn [forallb] in Hz.
      rewrite andb_true_r in Hz. apply residue_not_lf. exact Hz. }
    assert (HL : last_opt ch = Some z) by (rewrite E; apply last_opt_snoc).
    rewrite app_nil_r. rewrite HL, Hz. unfold seq_st. rewrite Hn. reflexivity.
  - rewrite (ends_lf_eol ch tl He). rewrite Ascii.eqb_refl.
    rewrite Hl.
    replace (Z.to_nat (zlen (ch ++ tl) - zlen tl)) with (length ch)
      by (rewrite zlen_app; unfold zlen; lia).
    rewrite firstn_exact. unfold seq_st. rewrite Hn, Hl. reflexivity.
Qed.

Lemma index_line_seq_noname buf c ch eol :
  is_name c = None -> chunk_ok ch -> eol_ok eol ->
  index_line false buf c (ch ++ eol) = Err TypeError.
Proof.
  intros Hn [Hne Hch] He.
  destruct ch as [|c0 ch']; [contradiction|].
  assert (Hgt : Ascii.eqb c0 GT = false).
  { cbn [forallb] in Hch. apply andb_true_iff in Hch as [H _]. apply residue_not_gt. exact H. }
  unfold index_line.
  change ((c0 :: ch') ++ eol) with (c0 :: (ch' ++ eol)) at 1.
  cbv iota beta zeta. rewrite Hgt, Hn. cbn [orb].
  change (c0 :: ch' ++ eol) with ((c0 :: ch') ++ eol).
  rewrite (ends_lf_eol _ eol He). rewrite Ascii.eqb_refl. reflexivity.
Qed.

Lemma canon_maybe_flush (b : bool) x : canon (if b then process_seq_buffer x else x) = canon x.
Proof. destruct b; [rewrite process_seq_buffer_flush; apply canon_flush | reflexivity]. Qed.

Lemma cstep_seq c nm ch tl :
  is_name c = Some nm -> chunk_ok ch ->
  (tl = [] \/ (eol_ok tl /\ is_leb c = zlen tl)) ->
  cstep c (ch ++ tl) = Ok (canon (seq_st c ch (is_pos c + zlen (ch ++ tl)))).
Proof.
  intros Hn Hc Ht. unfold cstep. rewrite (index_line_seq 0 c nm ch tl Hn Hc Ht).
  cbv zeta. cbn [rmap]. rewrite canon_maybe_flush. reflexivity.
Qed.

(* ------------------------------------------------------------------ *)
(* Part 4d: canonical states while reading a rendered file              *)
(* ------------------------------------------------------------------ *)
Ltac prj := cbn [is_name is_seq_length is_file_offset is_rpl is_region_start is_region_end
                 is_regions is_leb is_buffer is_idx is_asm is_pos is_peak fst snd].

Definition cst (name : str) (L fo rpl : Z) (acc : racc) (leb : Z)
           (idx : list (str * finfo)) (asm : list (str * list row)) (pos : Z) : istate :=
  mkIState (Some name) L fo rpl (fst (fst acc)) (snd (fst acc)) (snd acc) leb [] idx asm pos 0.

Lemma canon_seq_st_cst name L fo rpl acc leb idx asm pos ch pos' :
  canon (seq_st (cst name L fo rpl acc leb idx asm pos) ch pos') =
  cst name (L + zlen ch) fo (if rpl =? 0 then zlen ch else rpl) (charfold ch L acc) leb idx asm pos'.
Proof.
  destruct acc as [[rs re] regs]. reflexivity.
Qed.

Lemma cstep_seq_cst eol name L fo rpl acc idx asm pos ch :
  chunk_ok ch -> eol_ok eol ->
  cstep (cst name L fo rpl acc (zlen eol) idx asm pos) (ch ++ eol) =
  Ok (cst name (L + zlen ch) fo (if rpl =? 0 then zlen ch else rpl) (charfold ch L acc)
          (zlen eol) idx asm (pos + zlen (ch ++ eol))).
Proof.
  intros Hc He.
  rewrite (cstep_seq _ name ch eol); [| reflexivity | exact Hc | right; split; [exact He | reflexivity]].
  rewrite canon_seq_st_cst. reflexivity.
Qed.

Lemma chunk_ok_pos ch : chunk_ok ch -> 0 < zlen ch.
Proof. intros [H _]. destruct ch; [contradiction|]. rewrite zlen_cons. pose proof (zlen_nonneg ch). lia. Qed.

Lemma body_fold eol name fo idx asm : eol_ok eol -> forall chs L rpl acc pos,
  Forall chunk_ok chs ->
  foldM cstep (map (fun ch => ch ++ eol) chs) (cst name L fo rpl acc (zlen eol) idx asm pos) =
  Ok (cst name (L + zlen (concat chs)) fo
          (if rpl =? 0 then match chs with [] => 0 | c1 :: _ => zlen c1 end else rpl)
          (charfold (concat chs) L acc) (zlen eol) idx asm
          (pos + zlen (concat (map (fun ch => ch ++ eol) chs)))).
Proof.
  intros He. induction chs as [|ch chs IH]; intros L rpl acc pos Hc.
  - cbn [map foldM concat charfold]. rewrite zlen_nil, !Z.add_0_r.
    destruct (rpl =? 0) eqn:E; [|reflexivity]. replace rpl with 0 by lia. reflexivity.
  - inversion Hc as [|? ? Hch Hchs]; subst. cbn [map foldM concat].
    rewrite cstep_seq_cst by assumption. cbn [bind]. rewrite IH by assumption.
    pose proof (chunk_ok_pos ch Hch).
    f_equal. f_equal.
    + rewrite zlen_app. lia.
    + destruct (rpl =? 0) eqn:E.
      * replace (zlen ch =? 0) with false by lia. reflexivity.
      * rewrite E. reflexivity.
    + rewrite charfold_app. reflexivity.
    + rewrite (zlen_app (ch ++ eol)). lia.
Qed.

Lemma flush_cst name L fo rpl acc leb idx asm pos :
  flush (cst name L fo rpl acc leb idx asm pos) = cst name L fo rpl acc leb idx asm pos.
Proof. unfold flush, cst. prj. cbn [charfold]. prj. rewrite zlen_nil, Z.add_0_r. reflexivity. Qed.

Lemma store_info_cst name L fo rpl acc leb idx asm pos :
  store_info (cst name L fo rpl acc leb idx asm pos) =
  match aget str_eqb idx name with
  | Some _ => Err ValueError
  | None =>
      Ok (mkIState (Some name) L fo rpl (fst (fst acc)) (snd (fst acc)) (close acc) leb []
                   (idx ++ [(name, mkInfo L fo rpl (rpl + leb))])
                   (asm ++ [(name, region_rows name (close acc) 0 L)]) pos 0)
  end.
Proof.
  rewrite store_info_tail, flush_cst. unfold store_tail, cst. prj.
  destruct acc as [[rs [e|]] regs]; prj; destruct (aget str_eqb idx name); reflexivity.
Qed.

Lemma cstep_hdr_cst eol r name L fo rpl acc leb idx asm pos :
  eol_ok eol -> record_ok r -> aget str_eqb idx name = None ->
  cstep (cst name L fo rpl acc leb idx asm pos) (hdr eol r) =
  Ok (cst (r_name r) 0 (pos + zlen (hdr eol r)) 0 acc0 (zlen eol)
          (idx ++ [(name, mkInfo L fo rpl (rpl + leb))])
          (asm ++ [(name, region_rows name (close acc) 0 L)])
          (pos + zlen (hdr eol r))).
Proof.
  intros He Hr Ha. unfold cstep. rewrite index_line_hdr by assumption.
  change (is_name (cst name L fo rpl acc leb idx asm pos)) with (Some name).
  rewrite store_info_cst, Ha. reflexivity.
Qed.

Lemma cstep_hdr_dup eol r name L fo rpl acc leb idx asm pos v :
  eol_ok eol -> record_ok r -> aget str_eqb idx name = Some v ->
  cstep (cst name L fo rpl acc leb idx asm pos) (hdr eol r) = Err ValueError.
Proof.
  intros He Hr Ha. unfold cstep. rewrite index_line_hdr by assumption.
  change (is_name (cst name L fo rpl acc leb idx asm pos)) with (Some name).
  rewrite store_info_cst, Ha. reflexivity.
Qed.

Lemma cstep_hdr_init eol r : eol_ok eol -> record_ok r ->
  cstep (canon init_istate) (hdr eol r) =
  Ok (cst (r_name r) 0 (zlen (hdr eol r)) 0 acc0 (zlen eol) [] [] (zlen (hdr eol r))).
Proof.
  intros He Hr. unfold cstep. rewrite index_line_hdr by assumption. reflexivity.
Qed.

(* ---- expected_index / expected_asm of a prefix *)
Lemma offsets_app w eol l1 : forall l2 pos,
  offsets w eol (l1 ++ l2) pos
  = offsets w eol l1 pos ++ offsets w eol l2 (pos + zlen (render_all w eol l1)).
Proof.
  induction l1 as [|a l1 IH]; intros l2 pos.
  - cbn [app offsets]. unfold render_all. cbn. rewrite Z.add_0_r. reflexivity.
  - cbn [app offsets]. rewrite IH. do 3 f_equal. rewrite render_all_cons, zlen_app. lia.
Qed.

Lemma offsets_length w eol l : forall pos, length (offsets w eol l pos) = length l.
Proof. induction l as [|a l IH]; intro pos; [reflexivity|]. cbn. rewrite IH. reflexivity. Qed.

Lemma combine_app {A B} (a b : list A) : forall (c d : list B), length a = length c ->
  combine (a ++ b) (c ++ d) = combine a c ++ combine b d.
Proof.
  induction a as [|x a IH]; intros [|y c] d H; try discriminate; [reflexivity|].
  cbn. rewrite IH by (cbn in H; lia). reflexivity.
Qed.

Lemma expected_index_snoc w eol l1 r :
  expected_index w eol (l1 ++ [r])
  = expected_index w eol l1
    ++ [(r_name r, expected_info w eol r (zlen (render_all w eol l1) + zlen (hdr eol r)))].
Proof.
  unfold expected_index. rewrite offsets_app, combine_app by (rewrite offsets_length; reflexivity).
  rewrite map_app. reflexivity.
Qed.

Lemma expected_asm_snoc l1 r :
  expected_asm (l1 ++ [r])
  = expected_asm l1 ++ [(r_name r, tile_rows (S (length (r_seq r))) (r_name r) (r_seq r) 0)].
Proof. unfold expected_asm. rewrite map_app. reflexivity. Qed.

Lemma index_names_gen w eol l : forall offs, length offs = length l ->
  map fst (map (fun '(r, off) => (r_name r, expected_info w eol r off)) (combine l offs))
  = map r_name l.
Proof.
  induction l as [|a l IH]; intros [|o offs] H; try discriminate; [reflexivity|].
  cbn. rewrite IH by (cbn in H; lia). reflexivity.
Qed.

Lemma expected_index_names w eol l : map fst (expected_index w eol l) = map r_name l.
Proof. apply index_names_gen. apply offsets_length. Qed.

Lemma aget_notin {V} (d : list (str * V)) k : ~ In k (map fst d) -> aget str_eqb d k = None.
Proof.
  induction d as [|[k' v] d IH]; intro H; [reflexivity|]. cbn in *.
  destruct (str_eqb k k') eqn:E.
  - apply str_eqb_eq in E. subst. tauto.
  - apply IH. tauto.
Qed.

Lemma aget_in {V} (d : list (str * V)) k : In k (map fst d) -> exists v, aget str_eqb d k = Some v.
Proof.
  induction d as [|[k' v] d IH]; intro H; [contradiction|]. cbn in *.
  destruct (str_eqb k k') eqn:E; [eexists; reflexivity|].
  apply IH. destruct H as [H|H]; [|exact H]. subst. rewrite str_eqb_refl in E. discriminate.
Qed.

Section Rendered.
  Variables (w : nat) (eol : str).
  Hypothesis Hw : (1 <= w)%nat.
  Hypothesis He : eol_ok eol.

  (* all lines of l1 ++ [r] read; r still open *)
  Definition Open (l1 : list record) (r : record) : istate :=
    cst (r_name r) (zlen (r_seq r))
        (zlen (render_all w eol l1) + zlen (hdr eol r))
        (Z.min (Z.of_nat w) (zlen (r_seq r)))
        (charfold (r_seq r) 0 acc0) (zlen eol)
        (expected_index w eol l1) (expected_asm l1)
        (zlen (render_all w eol (l1 ++ [r]))).

  Lemma fold_body_Open l1 r : record_ok r ->
    foldM cstep (map (fun ch => ch ++ eol) (chunks (S (length (r_seq r))) w (r_seq r)))
      (cst (r_name r) 0 (zlen (render_all w eol l1) + zlen (hdr eol r)) 0 acc0 (zlen eol)
           (expected_index w eol l1) (expected_asm l1)
           (zlen (render_all w eol l1) + zlen (hdr eol r)))
    = Ok (Open l1 r).
  Proof.
    intros (_ & _ & Hne & Hx).
    rewrite (body_fold eol _ _ _ _ He) by (apply chunks_ok; assumption).
    rewrite chunks_concat by (auto; lia).
    unfold Open. f_equal. f_equal.
    - destruct (r_seq r) as [|c x'] eqn:Ex; [contradiction|].
      cbn [chunks Z.eqb]. unfold zlen. rewrite firstn_length. lia.
    - rewrite render_all_app, render_all_cons, zlen_app, zlen_app.
      rewrite render_record_lines. unfold rec_lines. cbn [concat]. rewrite zlen_app.
      change (render_all w eol []) with (@nil ascii). rewrite zlen_nil. lia.
  Qed.

  Lemma fold_rec_init r : record_ok r ->
    foldM cstep (rec_lines w eol r) (canon init_istate) = Ok (Open [] r).
  Proof.
    intro Hr. unfold rec_lines. cbn [foldM]. rewrite cstep_hdr_init by assumption. cbn [bind].
    apply (fold_body_Open [] r Hr).
  Qed.

  Lemma Open_aget_none l1 r : ~ In (r_name r) (map r_name l1) ->
    aget str_eqb (expected_index w eol l1) (r_name r) = None.
  Proof. intro H. apply aget_notin. rewrite expected_index_names. exact H. Qed.

  Lemma fold_rec_step l1 r r' : record_ok r' -> ~ In (r_name r) (map r_name l1) ->
    foldM cstep (rec_lines w eol r') (Open l1 r) = Ok (Open (l1 ++ [r]) r').
  Proof.
    intros Hr' Hnin. unfold rec_lines. cbn [foldM]. unfold Open at 1.
    rewrite cstep_hdr_cst by (auto using Open_aget_none). cbn [bind].
    rewrite tile_region0.
    change (mkInfo (zlen (r_seq r)) (zlen (render_all w eol l1) + zlen (hdr eol r))
                   (Z.min (Z.of_nat w) (zlen (r_seq r)))
                   (Z.min (Z.of_nat w) (zlen (r_seq r)) + zlen eol))
      with (expected_info w eol r (zlen (render_all w eol l1) + zlen (hdr eol r))).
    rewrite <- expected_index_snoc, <- expected_asm_snoc.
    apply (fold_body_Open (l1 ++ [r]) r' Hr').
  Qed.

  Lemma foldM_app {A S} (f : S -> A -> res S) a : forall b s,
    foldM f (a ++ b) s = bind (foldM f a s) (foldM f b).
  Proof.
    induction a as [|x a IH]; intros b s; [reflexivity|].
    cbn [app foldM]. destruct (f s x); [apply IH | reflexivity].
  Qed.

  (* central lemma *)
  Lemma fold_all_Open : forall l1 r,
    Forall record_ok (l1 ++ [r]) -> NoDup (map r_name l1) ->
    foldM cstep (all_lines w eol (l1 ++ [r])) (canon init_istate) = Ok (Open l1 r).
  Proof.
    induction l1 as [|r0 l1 IH] using rev_ind; intros r Hok Hnd.
    - cbn [app]. unfold all_lines. cbn [flat_map]. rewrite app_nil_r.
      apply fold_rec_init. inversion Hok; assumption.
    - rewrite all_lines_app, foldM_app.
      apply Forall_app in Hok as [Hok1 Hok2].
      rewrite map_app in Hnd. cbn [map] in Hnd.
      apply NoDup_remove in Hnd as [Hnd Hnin]. rewrite app_nil_r in *.
      rewrite IH by assumption. cbn [bind].
      unfold all_lines. cbn [flat_map]. rewrite app_nil_r.
      apply fold_rec_step; [inversion Hok2; assumption | exact Hnin].
  Qed.

  Lemma fin_Open_ok l1 r : ~ In (r_name r) (map r_name l1) ->
    fin (Open l1 r) = Ok (expected_index w eol (l1 ++ [r]), expected_asm (l1 ++ [r])).
  Proof.
    intro Hnin. unfold fin. change (is_name (Open l1 r)) with (Some (r_name r)).
    unfold Open. rewrite store_info_cst, (Open_aget_none l1 r Hnin). cbn [bind]. prj.
    rewrite tile_region0.
    change (mkInfo (zlen (r_seq r)) (zlen (render_all w eol l1) + zlen (hdr eol r))
                   (Z.min (Z.of_nat w) (zlen (r_seq r)))
                   (Z.min (Z.of_nat w) (zlen (r_seq r)) + zlen eol))
      with (expected_info w eol r (zlen (render_all w eol l1) + zlen (hdr eol r))).
    rewrite <- expected_index_snoc, <- expected_asm_snoc.
    destruct (expected_index w eol (l1 ++ [r])) eqn:E; [|reflexivity].
    rewrite expected_index_snoc in E. apply app_eq_nil in E as [_ E]. discriminate.
  Qed.

  Lemma fin_Open_dup l1 r : In (r_name r) (map r_name l1) -> fin (Open l1 r) = Err ValueError.
  Proof.
    intro Hin. unfold fin. change (is_name (Open l1 r)) with (Some (r_name r)).
    unfold Open. rewrite store_info_cst.
    rewrite <- (expected_index_names w eol) in Hin. apply aget_in in Hin as [v Hv].
    rewrite Hv. reflexivity.
  Qed.

  Lemma index_spec_true recs buf : fasta_wf w eol recs ->
    drop_peak (index_fasta (render w eol true recs) buf)
    = Ok (expected_index w eol recs, expected_asm recs).
  Proof.
    intros (_ & _ & Hne & Hok & Hnd).
    rewrite index_canonical, split_lines_render_true by assumption.
    destruct (exists_last Hne) as (l1 & r & ->).
    rewrite map_app in Hnd. cbn [map] in Hnd.
    apply NoDup_remove in Hnd as [Hnd Hnin]. rewrite app_nil_r in *.
    rewrite fold_all_Open by assumption. cbn [bind]. apply fin_Open_ok. exact Hnin.
  Qed.
End Rendered.

(* ------------------------------------------------------------------ *)
(* Part 4e: a missing final newline does not matter                     *)
(* ------------------------------------------------------------------ *)
Lemma fin_upd_pos st p : fin (upd_pos st p) = fin st.
Proof.
  unfold fin. change (is_name (upd_pos st p)) with (is_name st).
  destruct (is_name st); [|reflexivity].
  rewrite !store_info_tail. change (flush (upd_pos st p)) with (upd_pos (flush st) p).
  set (t := flush st). clearbody t.
  assert (E : store_tail (upd_pos t p) = rmap (fun u => upd_pos u p) (store_tail t)).
  { unfold store_tail. prj. change (is_name (upd_pos t p)) with (is_name t).
    destruct (is_name t); [|reflexivity].
    change (is_idx (upd_pos t p)) with (is_idx t).
    destruct (aget str_eqb (is_idx t) s0); reflexivity. }
  rewrite E. destruct (store_tail t); reflexivity.
Qed.

Lemma fin_seq_pos c ch p1 p2 : fin (canon (seq_st c ch p1)) = fin (canon (seq_st c ch p2)).
Proof.
  change (canon (seq_st c ch p1)) with (upd_pos (canon (seq_st c ch 0)) p1).
  change (canon (seq_st c ch p2)) with (upd_pos (canon (seq_st c ch 0)) p2).
  rewrite !fin_upd_pos. reflexivity.
Qed.

Section Trim.
  Variables (w : nat) (eol : str).
  Hypothesis Hw : (1 <= w)%nat.
  Hypothesis He : eol_ok eol.

  Definition line_ok (l : str) : Prop :=
    (exists r, record_ok r /\ l = hdr eol r) \/ (exists ch, chunk_ok ch /\ l = ch ++ eol).

  Lemma J_step c l c' :
    (is_name c = None \/ is_leb c = zlen eol) -> line_ok l -> cstep c l = Ok c' ->
    is_name c' <> None /\ is_leb c' = zlen eol.
  Proof.
    intros J [(r & Hr & ->) | (ch & Hch & ->)] H.
    - unfold cstep in H. rewrite index_line_hdr in H by assumption.
      destruct (match is_name c with Some _ => store_info c | None => Ok c end) as [st1|];
        [|discriminate].
      cbn [bind rmap] in H. injection H as <-. split; [discriminate | reflexivity].
    - destruct (is_name c) as [nm|] eqn:En.
      + destruct J as [J|J]; [discriminate|].
        rewrite (cstep_seq c nm ch eol En Hch (or_intror (conj He J))) in H.
        injection H as <-. split; [|exact J].
        change (is_name c <> None). rewrite En. discriminate.
      + unfold cstep in H. rewrite index_line_seq_noname in H by assumption. discriminate.
  Qed.

  Lemma J_fold ls : Forall line_ok ls -> forall c c',
    (is_name c = None \/ is_leb c = zlen eol) -> ls <> [] -> foldM cstep ls c = Ok c' ->
    is_name c' <> None /\ is_leb c' = zlen eol.
  Proof.
    induction 1 as [|l ls Hl Hls IH]; intros c c' J Hne H; [contradiction|].
    cbn [foldM] in H. destruct (cstep c l) as [c1|] eqn:E; [|discriminate]. cbn [bind] in H.
    pose proof (J_step c l c1 J Hl E) as [J1 J2].
    destruct ls as [|l' ls'].
    - injection H as <-. split; assumption.
    - eapply IH; [right; exact J2 | discriminate | exact H].
  Qed.

  Lemma all_lines_ok recs : Forall record_ok recs -> Forall line_ok (all_lines w eol recs).
  Proof.
    induction 1 as [|r recs Hr _ IH]; [constructor|].
    unfold all_lines. cbn [flat_map]. apply Forall_app. split; [|exact IH].
    unfold rec_lines. constructor.
    - left. exists r. split; [exact Hr | reflexivity].
    - apply Forall_map. destruct Hr as (_ & _ & _ & Hx).
      eapply Forall_impl; [|apply (chunks_ok w Hw _ _ Hx)].
      intros ch Hch. right. exists ch. split; [exact Hch | reflexivity].
  Qed.

  Lemma all_lines_last recs : recs <> [] -> Forall record_ok recs ->
    exists front chL, all_lines w eol recs = front ++ [chL ++ eol] /\ chunk_ok chL /\ front <> [].
  Proof.
    intros Hne Hok. destruct (exists_last Hne) as (l1 & r & ->).
    apply Forall_app in Hok as [_ Hok]. inversion Hok as [|? ? Hr _]; subst.
    destruct Hr as (_ & _ & Hx & Hres).
    pose proof (chunks_ok w Hw (S (length (r_seq r))) (r_seq r) Hres) as Hch.
    destruct (exists_last (l := chunks (S (length (r_seq r))) w (r_seq r))) as (cf & chL & E).
    { destruct (r_seq r); [contradiction | discriminate]. }
    exists (all_lines w eol l1 ++ hdr eol r :: map (fun ch => ch ++ eol) cf), chL.
    split; [|split].
    - rewrite all_lines_app. unfold all_lines at 2. cbn [flat_map]. unfold rec_lines.
      rewrite E, map_app, app_nil_r. cbn [map]. rewrite <- app_assoc. reflexivity.
    - rewrite E in Hch. apply Forall_app in Hch as [_ Hch]. inversion Hch; assumption.
    - intro C. apply app_eq_nil in C as [_ C]. discriminate.
  Qed.

  Theorem final_nl_irrelevant recs buf : recs <> [] -> Forall record_ok recs ->
    drop_peak (index_fasta (render w eol false recs) buf)
    = drop_peak (index_fasta (render w eol true recs) buf).
  Proof.
    intros Hne Hok.
    destruct (all_lines_last recs Hne Hok) as (front & chL & Hlines & Hch & Hfne).
    pose proof (all_lines_good w eol recs Hw He Hok) as Hgood.
    pose proof (all_lines_ok recs Hok) as Hlok.
    rewrite Hlines in Hgood, Hlok.
    apply Forall_app in Hgood as [Hgood _]. apply Forall_app in Hlok as [Hlok _].
    rewrite !index_canonical, split_lines_render_true by assumption.
    assert (Hsplit : split_lines (render w eol false recs) = front ++ [chL]).
    { unfold render. rewrite render_all_lines, Hlines, concat_app. cbn [concat].
      rewrite app_nil_r, app_assoc, app_length, Nat.add_sub, firstn_exact.
      rewrite (split_lines_concat front Hgood chL).
      - destruct chL; [destruct Hch; contradiction | reflexivity].
      - apply nocrlf_lf_free, residue_nocrlf. apply Hch. }
    rewrite Hsplit, Hlines, !foldM_app.
    destruct (foldM cstep front (canon init_istate)) as [c|e] eqn:Ef; [|reflexivity].
    cbn [bind foldM].
    destruct (J_fold front Hlok (canon init_istate) c (or_introl eq_refl) Hfne Ef) as [Hn Hl].
    destruct (is_name c) as [nm|] eqn:En; [|contradiction].
    pose proof (cstep_seq c nm chL [] En Hch (or_introl eq_refl)) as E0.
    rewrite app_nil_r in E0. rewrite E0.
    rewrite (cstep_seq c nm chL eol En Hch (or_intror (conj He Hl))).
    cbn [bind]. apply fin_seq_pos.
  Qed.
End Trim.

(* 4 *)
Theorem index_spec : forall w eol final_nl recs buf,
  fasta_wf w eol recs ->
  drop_peak (index_fasta (render w eol final_nl recs) buf)
  = Ok (expected_index w eol recs, expected_asm recs).
Proof.
  intros w eol fnl recs buf Hwf. pose proof Hwf as (Hw & He & Hne & Hok & _).
  destruct fnl; [|rewrite final_nl_irrelevant by assumption]; apply index_spec_true; assumption.
Qed.

Lemma dup_split (recs : list record) :
  (exists l1 r l2, recs = l1 ++ r :: l2 /\ NoDup (map r_name l1) /\ In (r_name r) (map r_name l1))
  \/ NoDup (map r_name recs).
Proof.
  induction recs as [|r recs IH] using rev_ind; [right; constructor|].
  destruct IH as [(l1 & r0 & l2 & -> & Hnd & Hin) | Hnd].
  - left. exists l1, r0, (l2 ++ [r]). rewrite <- app_assoc. auto.
  - destruct (in_dec (list_eq_dec ascii_dec) (r_name r) (map r_name recs)) as [Hin|Hnin].
    + left. exists recs, r, []. auto.
    + right. rewrite map_app. cbn [map].
      rewrite <- (rev_involutive (map r_name recs ++ [r_name r])). apply NoDup_rev.
      rewrite rev_app_distr. cbn [rev app]. constructor.
      * rewrite <- in_rev. exact Hnin.
      * apply NoDup_rev. exact Hnd.
Qed.

Lemma drop_peak_err {A B} (r : res (A * B * Z)) e : drop_peak r = Err e -> r = Err e.
Proof. destruct r as [[[? ?] ?]|]; [discriminate | cbn; intro H; injection H as ->; reflexivity]. Qed.

Lemma duplicate_true w eol recs buf :
  (1 <= w)%nat -> eol_ok eol -> Forall record_ok recs -> ~ NoDup (map r_name recs) ->
  drop_peak (index_fasta (render w eol true recs) buf) = Err ValueError.
Proof.
  intros Hw He Hok Hdup.
  destruct (dup_split recs) as [(l1 & r & l2 & -> & Hnd & Hin) | H]; [|contradiction].
  rewrite index_canonical, split_lines_render_true by assumption.
  replace (l1 ++ r :: l2) with ((l1 ++ [r]) ++ l2) in * by (rewrite <- app_assoc; reflexivity).
  apply Forall_app in Hok as [Hok1 Hok2].
  rewrite all_lines_app, foldM_app, (fold_all_Open w eol Hw He) by assumption. cbn [bind].
  destruct l2 as [|r' l2'].
  - cbn [all_lines flat_map foldM bind]. apply fin_Open_dup. exact Hin.
  - unfold all_lines. cbn [flat_map]. unfold rec_lines at 1. cbn [app foldM].
    rewrite <- (expected_index_names w eol) in Hin. apply aget_in in Hin as [v Hv].
    unfold Open. rewrite (cstep_hdr_dup eol r' _ _ _ _ _ _ _ _ _ v); [reflexivity | exact He | | exact Hv].
    inversion Hok2; assumption.
Qed.

Theorem duplicate_names_rejected : forall w eol final_nl recs buf,
  (1 <= w)%nat -> eol_ok eol -> recs <> [] -> Forall record_ok recs -> ~ NoDup (map r_name recs) ->
  index_fasta (render w eol final_nl recs) buf = Err ValueError.
Proof.
  intros w eol fnl recs buf Hw He Hne Hok Hdup. apply drop_peak_err.
  destruct fnl; [|rewrite final_nl_irrelevant by assumption]; apply duplicate_true; assumption.
Qed.

Print Assumptions index_buffer_independent.
Print Assumptions index_peak_bounded.
Print Assumptions random_access_spec.
Print Assumptions index_spec.
Print Assumptions final_nl_irrelevant.
Print Assumptions duplicate_names_rejected.
Print Assumptions empty_file_rejected.
Print Assumptions index_legacy_refuted.
