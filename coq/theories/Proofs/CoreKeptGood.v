(* C02 core clause, part 1: the per-result invariant [GoodU] (an untrimmed
   result is a contiguous run of its source scaffold whose rows all meet the
   bait, and no fragment row outside the run has a base in the bait's core),
   its establishment by the lookup, and its preservation by discard_start /
   discard_end (under the "no core base in the dropped row" side condition)
   and by trim_large_overhangs. *)
From Tola Require Import Py.Base Py.Sort Model.Fragment Model.Scaffold Model.Lookup
  Model.OverlapResult Model.OvrSpec Model.NaturalKey Model.Namer Model.Remap Model.RemapSpec
  Proofs.BaseLemmas Proofs.Lookup Proofs.OverlapResult Proofs.RemapHead Proofs.PipelineInv.
From Coq Require Import Lia ZifyBool.

(* ------------------------------------------------ rows with their positions *)
(* [all_at P pos rows]: every row x of [rows], laid out from scaffold
   coordinate pos + 1 on, satisfies P lo hi x for its span lo .. hi *)
Fixpoint all_at (P : Z -> Z -> row -> Prop) (pos : Z) (rows : list row) : Prop :=
  match rows with
  | [] => True
  | x :: t => P (pos + 1) (pos + row_len x) x /\ all_at P (pos + row_len x) t
  end.

Lemma P_cong (P : Z -> Z -> row -> Prop) lo hi lo' hi' x :
  P lo hi x -> lo = lo' -> hi = hi' -> P lo' hi' x.
Proof. intros H -> ->. exact H. Qed.

Lemma all_at_pos (P : Z -> Z -> row -> Prop) pos pos' rows : all_at P pos rows -> pos = pos' -> all_at P pos' rows.
Proof. intros H ->. exact H. Qed.

Lemma all_at_app (P : Z -> Z -> row -> Prop) : forall a b pos,
  all_at P pos (a ++ b) <-> all_at P pos a /\ all_at P (pos + rows_len a) b.
Proof.
  induction a as [|x a IH]; intros b pos; cbn [app all_at].
  - rewrite rows_len_nil, Z.add_0_r. tauto.
  - rewrite IH, rows_len_cons, Z.add_assoc. tauto.
Qed.

Lemma all_at_impl (P Q : Z -> Z -> row -> Prop) :
  (forall lo hi x, P lo hi x -> Q lo hi x) ->
  forall rows pos, all_at P pos rows -> all_at Q pos rows.
Proof.
  intros Hpq. induction rows as [|x t IH]; intros pos H; cbn [all_at] in *; [exact I|].
  destruct H as [H1 H2]. split; [apply Hpq; exact H1 | apply IH; exact H2].
Qed.

Lemma all_at_gaps (P : Z -> Z -> row -> Prop) :
  (forall lo hi g, P lo hi (RG g)) ->
  forall gaps pos, all_gaps gaps -> all_at P pos gaps.
Proof.
  intros Hg. induction gaps as [|x t IH]; intros pos H; cbn [all_at]; [exact I|].
  inversion H as [|? ? Hx Ht]; subst. destruct x as [f|g]; [discriminate|].
  split; [apply Hg | apply IH; exact Ht].
Qed.

Lemma all_at_split (P : Z -> Z -> row -> Prop) pos rows a x c :
  all_at P pos rows -> rows = a ++ x :: c ->
  P (pos + rows_len a + 1) (pos + rows_len a + row_len x) x.
Proof.
  intros H ->. apply all_at_app in H. destruct H as [_ H]. cbn [all_at] in H. apply H.
Qed.

Lemma all_at_intro (P : Z -> Z -> row -> Prop) : forall rows pos,
  (forall a x c, rows = a ++ x :: c ->
     P (pos + rows_len a + 1) (pos + rows_len a + row_len x) x) ->
  all_at P pos rows.
Proof.
  induction rows as [|x t IH]; intros pos H; cbn [all_at]; [exact I|]. split.
  - eapply P_cong; [apply (H [] x t eq_refl) | |]; rewrite rows_len_nil; lia.
  - apply IH. intros a y c E.
    eapply P_cong; [apply (H (x :: a) y c) | |].
    + rewrite E. reflexivity.
    + rewrite rows_len_cons. lia.
    + rewrite rows_len_cons. lia.
Qed.

(* ------------------------------------------------------- spans by splitting *)
Lemma split_span src a x c : src = a ++ x :: c ->
  nth_error src (length a) = Some x
  /\ span_start src (length a) = 1 + rows_len a
  /\ span_end src (length a) = rows_len a + row_len x.
Proof.
  intros ->. split; [|split].
  - rewrite nth_error_app2 by lia. rewrite Nat.sub_diag. reflexivity.
  - unfold span_start. rewrite firstn_length_app. reflexivity.
  - unfold span_end.
    replace (a ++ x :: c) with ((a ++ [x]) ++ c) by (rewrite <- app_assoc; reflexivity).
    replace (S (length a)) with (length (a ++ [x])) by (rewrite app_length; cbn [length]; lia).
    rewrite firstn_length_app, rows_len_app, rows_len_single. reflexivity.
Qed.

Lemma pos_rows_app a b : pos_rows (a ++ b) <-> pos_rows a /\ pos_rows b.
Proof. unfold pos_rows. apply Forall_app. Qed.

Lemma pos_rows_len_nonneg l : pos_rows l -> 0 <= rows_len l.
Proof.
  induction 1 as [|x t Hx _ IH]; [rewrite rows_len_nil; lia|]. rewrite rows_len_cons. lia.
Qed.

Lemma leading_gaps_nonneg t : pos_rows t -> 0 <= leading_gaps_len t.
Proof.
  induction 1 as [|x t Hx _ IH]; cbn [leading_gaps_len]; [lia|].
  destruct x as [f|g]; [lia|]. cbn [row_len] in Hx. lia.
Qed.

(* ------------------------------------------------------------ the invariant *)
(* rows lo .. hi hold no base of the bait's core *)
Definition nocore (err : Z) (b : frag) (lo hi : Z) : Prop :=
  hi < f_start b + 3 * err \/ f_end b - 3 * err < lo
  \/ f_end b - 3 * err < f_start b + 3 * err.

Definition FNC (err : Z) (b : frag) (lo hi : Z) (x : row) : Prop :=
  match x with RF _ => nocore err b lo hi | RG _ => True end.

Definition RMeets (b : frag) (lo hi : Z) (x : row) : Prop :=
  lo <= f_end b /\ f_start b <= hi.

Definition GoodU (err : Z) (src : list row) (r : ovr) : Prop :=
  (o_rows r = [] /\ all_at (FNC err (o_bait r)) 0 src)
  \/ exists pre post,
       src = pre ++ o_rows r ++ post
       /\ head_frag (o_rows r) /\ last_frag (o_rows r)
       /\ o_start r = 1 + rows_len pre
       /\ o_end r = rows_len pre + rows_len (o_rows r)
       /\ all_at (FNC err (o_bait r)) 0 pre
       /\ all_at (RMeets (o_bait r)) (rows_len pre) (o_rows r)
       /\ all_at (FNC err (o_bait r)) (rows_len pre + rows_len (o_rows r)) post.

Lemma GoodU_ext err src r r' :
  o_bait r' = o_bait r -> o_rows r' = o_rows r -> o_start r' = o_start r -> o_end r' = o_end r ->
  GoodU err src r -> GoodU err src r'.
Proof. intros E0 E1 E2 E3. unfold GoodU. rewrite E0, E1, E2, E3. tauto. Qed.

Lemma FNC_gap err b lo hi g : FNC err b lo hi (RG g).
Proof. exact I. Qed.

#[local] Hint Rewrite rows_len_app rows_len_cons rows_len_nil rows_len_rev : rl.

(* ------------------------------------------------------------ discard_start *)
Lemma discard_start_good err src r r' f t :
  GoodU err src r -> o_rows r = RF f :: t ->
  nocore err (o_bait r) (o_start r) (o_start r + f_len f - 1) ->
  discard_start r = Ok r' ->
  GoodU err src r' /\ o_bait r' = o_bait r.
Proof.
  intros HG Er Hnc Hd.
  destruct HG as [[E _] | (pre & post & Hsrc & Hh & Hl & Hs & He & Hpre & Hrows & Hpost)];
    [rewrite E in Er; discriminate|].
  unfold discard_start in Hd. rewrite Er in Hd, Hsrc, Hl, He, Hrows, Hpost.
  cbn [row_len] in Hd.
  assert (Hf : FNC err (o_bait r) (rows_len pre + 1) (rows_len pre + f_len f) (RF f)).
  { cbn [FNC]. unfold nocore in *. lia. }
  destruct (split_gaps t) as (gaps & rest & Et & Hg & Hrest).
  destruct Hrest as [-> | (m & rest' & ->)].
  - rewrite app_nil_r in Et. subst t.
    rewrite pop_front_all_gaps in Hd by exact Hg. injection Hd as <-.
    cbn [set_span_rows o_bait]. split; [|reflexivity].
    left. cbn [set_span_rows o_rows o_bait]. split; [reflexivity|].
    rewrite Hsrc. apply all_at_app. split; [exact Hpre|].
    cbn [app all_at]. split; [eapply P_cong; [exact Hf | lia | cbn [row_len]; lia]|].
    apply all_at_app. split; [apply all_at_gaps; [apply FNC_gap | exact Hg]|].
    eapply all_at_pos; [exact Hpost|]. autorewrite with rl. cbn [row_len]. lia.
  - subst t. rewrite pop_front_gaps in Hd by exact Hg. injection Hd as <-.
    cbn [set_span_rows o_bait]. split; [|reflexivity].
    right. exists (pre ++ RF f :: gaps), post. cbn [set_span_rows o_rows o_bait o_start o_end].
    split; [rewrite Hsrc; repeat (cbn [app]; rewrite <- app_assoc); reflexivity|].
    split; [exists m, rest'; reflexivity|].
    split.
    { apply (last_frag_app_r (RF f :: gaps)); [discriminate | exact Hl]. }
    split; [autorewrite with rl; cbn [row_len]; lia|].
    split; [rewrite He; autorewrite with rl; cbn [row_len]; lia|].
    change (RF f :: gaps ++ RF m :: rest') with ((RF f :: gaps) ++ RF m :: rest') in Hrows.
    apply all_at_app in Hrows. destruct Hrows as [_ Hrows].
    split; [|split].
    + apply all_at_app. split; [exact Hpre|]. cbn [all_at].
      split; [eapply P_cong; [exact Hf | lia | cbn [row_len]; lia]|].
      apply all_at_gaps; [apply FNC_gap | exact Hg].
    + eapply all_at_pos; [exact Hrows|]. autorewrite with rl. cbn [row_len]. lia.
    + eapply all_at_pos; [exact Hpost|]. autorewrite with rl. cbn [row_len]. lia.
Qed.

(* -------------------------------------------------------------- discard_end *)
Lemma discard_end_good err src r r' f t :
  GoodU err src r -> o_rows r = t ++ [RF f] ->
  nocore err (o_bait r) (o_end r - f_len f + 1) (o_end r) ->
  discard_end r = Ok r' ->
  GoodU err src r' /\ o_bait r' = o_bait r.
Proof.
  intros HG Er Hnc Hd.
  destruct HG as [[E _] | (pre & post & Hsrc & Hh & Hl & Hs & He & Hpre & Hrows & Hpost)];
    [rewrite E in Er; destruct t; discriminate|].
  unfold discard_end in Hd. rewrite Er in Hd, Hsrc, Hh, He, Hrows, Hpost.
  rewrite rev_unit in Hd. cbn [row_len] in Hd.
  rewrite rows_len_app, rows_len_single in He, Hpost. cbn [row_len] in He, Hpost.
  assert (Hf : FNC err (o_bait r) (rows_len pre + rows_len t + 1)
                   (rows_len pre + rows_len t + f_len f) (RF f)).
  { cbn [FNC]. unfold nocore in *. lia. }
  apply all_at_app in Hrows. destruct Hrows as [Hrows _].
  destruct (split_gaps_back t) as (rest & gaps & Et & Hg & Hrest).
  assert (Hg' : all_gaps (rev gaps)) by (apply Forall_rev; exact Hg).
  destruct Hrest as [-> | (rest' & m & ->)].
  - cbn [app] in Et. subst t.
    assert (Hp : pop_gaps_back_rev (rev gaps) (o_end r - f_len f)
                 = ([], o_end r - f_len f - rows_len (rev gaps))).
    { clear - Hg'. generalize (o_end r - f_len f). induction Hg' as [|x l Hx _ IH]; intros pos.
      - cbn [pop_gaps_back_rev]. rewrite rows_len_nil. f_equal. lia.
      - destruct x as [f0|g]; [discriminate|]. cbn [pop_gaps_back_rev].
        rewrite IH, rows_len_cons. cbn [row_len]. f_equal. lia. }
    rewrite Hp in Hd. injection Hd as <-.
    cbn [set_span_rows o_bait]. split; [|reflexivity].
    left. cbn [set_span_rows o_rows o_bait rev]. split; [reflexivity|].
    rewrite Hsrc. apply all_at_app. split; [exact Hpre|].
    rewrite <- app_assoc. apply all_at_app.
    split; [apply all_at_gaps; [apply FNC_gap | exact Hg]|].
    cbn [app all_at]. split; [eapply P_cong; [exact Hf | lia | cbn [row_len]; lia]|].
    eapply all_at_pos; [exact Hpost|]. cbn [row_len]. lia.
  - subst t. rewrite rev_app_distr, rev_unit in Hd.
    rewrite pop_back_gaps in Hd by exact Hg'. injection Hd as <-.
    cbn [set_span_rows o_bait]. split; [|reflexivity].
    right. exists pre, (gaps ++ [RF f] ++ post). cbn [set_span_rows o_rows o_bait o_start o_end rev].
    rewrite rev_involutive.
    split; [rewrite Hsrc; repeat (cbn [app]; rewrite <- app_assoc); reflexivity|].
    split.
    { apply (head_frag_app_l (rest' ++ [RF m]) (gaps ++ [RF f])).
      - destruct rest'; discriminate.
      - rewrite <- app_assoc in Hh. exact Hh. }
    split; [exists m, rest'; reflexivity|].
    split; [exact Hs|].
    split; [rewrite He; autorewrite with rl; cbn [row_len]; lia|].
    split; [exact Hpre|].
    apply all_at_app in Hrows. destruct Hrows as [Hrows _].
    split; [exact Hrows|].
    apply all_at_app. split; [apply all_at_gaps; [apply FNC_gap | exact Hg]|].
    cbn [app all_at]. split.
    + eapply P_cong; [exact Hf | |]; autorewrite with rl; cbn [row_len]; lia.
    + eapply all_at_pos; [exact Hpost|]. autorewrite with rl. cbn [row_len]. lia.
Qed.

(* -------------------------------------------------------------- the lookup *)
Lemma lookup_good err src bait fo :
  0 <= err -> pos_rows src ->
  lookup_spec src (f_start bait) (f_end bait) (Some fo) ->
  GoodU err src (ovr_of_found bait fo).
Proof.
  intros Herr Hp (i & j & L & R & S1 & E1 & (o1 & Ho1) & (o2 & Ho2) & Mi & Mj & U).
  right. exists (firstn i src), (skipn (S j - i) (skipn i src)).
  cbn [ovr_of_found o_rows o_bait o_start o_end]. rewrite R.
  set (pr := firstn i src). set (rws := firstn (S j - i) (skipn i src)).
  set (pst := skipn (S j - i) (skipn i src)).
  assert (Hsrc : src = pr ++ rws ++ pst).
  { unfold pr, rws, pst. rewrite !firstn_skipn. reflexivity. }
  assert (Lpr : length pr = i) by (apply firstn_length_le; lia).
  assert (Lrws : length rws = (S j - i)%nat).
  { unfold rws. rewrite firstn_length, skipn_length. lia. }
  assert (Hlen : length src = (i + (S j - i) + length pst)%nat).
  { rewrite Hsrc at 1. rewrite !app_length. lia. }
  unfold meets in Mi, Mj.
  split; [exact Hsrc|].
  split.
  { destruct (slice_shape src i j o1 o2 ltac:(lia) Ho1 Ho2) as [[E _] | E]; fold rws in E; rewrite E.
    - exists o1, []. reflexivity.
    - eexists o1, _. reflexivity. }
  split.
  { destruct (slice_shape src i j o1 o2 ltac:(lia) Ho1 Ho2) as [[E _] | E]; fold rws in E; rewrite E.
    - exists o1, []. reflexivity.
    - exists o2, (RF o1 :: firstn (j - i - 1) (skipn (S i) src)). reflexivity. }
  split; [rewrite S1; reflexivity|].
  split.
  { rewrite E1. unfold span_end.
    assert (E : firstn (S j) src = pr ++ rws).
    { unfold pr, rws. rewrite <- firstn_add. f_equal. lia. }
    rewrite E, rows_len_app. reflexivity. }
  split; [|split].
  - apply all_at_intro. intros a x c Ea.
    assert (Es : src = a ++ x :: (c ++ rws ++ pst)).
    { rewrite Hsrc, Ea. rewrite <- app_assoc. reflexivity. }
    destruct (split_span _ _ _ _ Es) as (Hn & Hss & Hse).
    assert (Lk : (length a < i)%nat).
    { rewrite <- Lpr, Ea, app_length. cbn [length]. lia. }
    destruct x as [f|g]; [|exact I]. cbn [FNC].
    assert (Nm : ~ meets src (f_start bait) (f_end bait) (length a)).
    { intros Hm. assert (G := U (length a) (ex_intro _ f Hn) Hm). lia. }
    unfold meets in Nm.
    assert (G := pre_mono_le src Hp (length a) i ltac:(lia)). unfold Lookup.pre in G.
    unfold span_start in *. unfold nocore. lia.
  - apply all_at_intro. intros a x c Ea.
    assert (Es : src = (pr ++ a) ++ x :: (c ++ pst)).
    { rewrite Hsrc, Ea. rewrite <- !app_assoc. reflexivity. }
    destruct (split_span _ _ _ _ Es) as (Hn & Hss & Hse).
    assert (Lk : (i <= length (pr ++ a) <= j)%nat).
    { rewrite app_length, Lpr. assert (X := f_equal (@length row) Ea).
      rewrite Lrws, app_length in X. cbn [length] in X. lia. }
    assert (G1 := pre_mono_le src Hp (length (pr ++ a)) j ltac:(lia)).
    assert (G2 := pre_mono_le src Hp (S i) (S (length (pr ++ a))) ltac:(lia)).
    unfold Lookup.pre in G1, G2. unfold span_start, span_end in *.
    rewrite rows_len_app in Hss, Hse. unfold RMeets. lia.
  - apply all_at_intro. intros a x c Ea.
    assert (Es : src = (pr ++ rws ++ a) ++ x :: c).
    { rewrite Hsrc, Ea. rewrite <- !app_assoc. reflexivity. }
    destruct (split_span _ _ _ _ Es) as (Hn & Hss & Hse).
    assert (Lk : (j < length (pr ++ rws ++ a))%nat).
    { rewrite !app_length, Lpr, Lrws. lia. }
    assert (Lk2 : (length (pr ++ rws ++ a) < length src)%nat).
    { apply nth_error_Some. congruence. }
    destruct x as [f|g]; [|exact I]. cbn [FNC].
    assert (Nm : ~ meets src (f_start bait) (f_end bait) (length (pr ++ rws ++ a))).
    { intros Hm. assert (G := U _ (ex_intro _ f Hn) Hm). lia. }
    unfold meets in Nm.
    assert (G := pre_mono_le src Hp (S j) (S (length (pr ++ rws ++ a))) ltac:(lia)).
    unfold Lookup.pre in G. unfold span_start, span_end in *.
    rewrite !rows_len_app in Hss, Hse. unfold nocore. lia.
Qed.

(* no fragment row meets the bait: no contig base in the bait at all *)
Lemma lookup_none_all err src bait :
  0 <= err -> pos_rows src ->
  lookup_spec src (f_start bait) (f_end bait) None ->
  all_at (FNC err bait) 0 src.
Proof.
  intros Herr Hp U. cbn [lookup_spec] in U.
  apply all_at_intro. intros a x c Ea.
  destruct (split_span _ _ _ _ Ea) as (Hn & Hss & Hse).
  destruct x as [f|g]; [|exact I]. cbn [FNC].
  assert (Nm := U (length a) (ex_intro _ f Hn)). unfold meets in Nm.
  unfold nocore. cbn [row_len] in *. lia.
Qed.

(* --------------------------------------------------- rows and their places *)
Definition at_pos (src : list row) (f : frag) (lo : Z) : Prop :=
  exists a c, src = a ++ RF f :: c /\ lo = rows_len a + 1.

Lemma good_row err src r a f c :
  GoodU err src r -> o_rows r = a ++ RF f :: c ->
  at_pos src f (o_start r + rows_len a)
  /\ RMeets (o_bait r) (o_start r + rows_len a) (o_start r + rows_len a + f_len f - 1) (RF f).
Proof.
  intros HG Er.
  destruct HG as [[E _] | (pre & post & Hsrc & Hh & Hl & Hs & He & Hpre & Hrows & Hpost)];
    [rewrite E in Er; destruct a; discriminate|].
  split.
  - exists (pre ++ a), (c ++ post). split.
    + rewrite Hsrc, Er. rewrite <- !app_assoc. reflexivity.
    + rewrite rows_len_app. lia.
  - pose proof (all_at_split _ _ _ _ _ _ Hrows Er) as H. cbn [row_len] in H.
    unfold RMeets in *. lia.
Qed.

Lemma good_first err src r f t :
  GoodU err src r -> o_rows r = RF f :: t ->
  at_pos src f (o_start r)
  /\ RMeets (o_bait r) (o_start r) (o_start r + f_len f - 1) (RF f).
Proof.
  intros HG Er. destruct (good_row err src r [] f t HG Er) as [H1 H2].
  rewrite rows_len_nil, Z.add_0_r in H1, H2. split; assumption.
Qed.

Lemma good_end err src r t f :
  GoodU err src r -> o_rows r = t ++ [RF f] ->
  o_end r = o_start r + rows_len t + f_len f - 1.
Proof.
  intros HG Er.
  destruct HG as [[E _] | (pre & post & Hsrc & Hh & Hl & Hs & He & Hpre & Hrows & Hpost)];
    [rewrite E in Er; destruct t; discriminate|].
  rewrite He, Hs, Er, rows_len_app, rows_len_single. cbn [row_len]. lia.
Qed.

Lemma good_last err src r t f :
  GoodU err src r -> o_rows r = t ++ [RF f] ->
  at_pos src f (o_end r - f_len f + 1)
  /\ RMeets (o_bait r) (o_end r - f_len f + 1) (o_end r) (RF f).
Proof.
  intros HG Er. destruct (good_row err src r t f [] HG Er) as [H1 H2].
  pose proof (good_end err src r t f HG Er) as He.
  assert (E1 : o_end r - f_len f + 1 = o_start r + rows_len t) by lia. rewrite E1.
  split; [exact H1|]. unfold RMeets in *. lia.
Qed.

Lemma split_unique {A} (x : A) : forall a c a' c',
  ~ In x a -> ~ In x a' -> a ++ x :: c = a' ++ x :: c' -> a = a'.
Proof.
  induction a as [|y a IH]; intros c [|y' a'] c' H1 H2 E; cbn [app] in E.
  - reflexivity.
  - injection E as E _. exfalso. apply H2. left. congruence.
  - injection E as E _. exfalso. apply H1. left. congruence.
  - injection E as E1 E2. subst y'. f_equal. eapply IH; [| |exact E2].
    + intros H. apply H1. right. exact H.
    + intros H. apply H2. right. exact H.
Qed.

Lemma nodup_ids_notin a f c :
  NoDup (map f_id (frags_of (a ++ RF f :: c))) -> ~ In (RF f) a.
Proof.
  intros H Hin. rewrite frags_of_app, frags_of_RF, map_app in H. cbn [map] in H.
  apply NoDup_remove_2 in H. apply H. apply in_or_app. left.
  apply in_map. apply In_frags_of_iff. exact Hin.
Qed.

Lemma at_pos_unique src f lo lo' :
  NoDup (map f_id (frags_of src)) -> at_pos src f lo -> at_pos src f lo' -> lo = lo'.
Proof.
  intros Hnd (a & c & E & ->) (a' & c' & E' & ->).
  assert (a = a').
  { eapply (split_unique (RF f)); [| |rewrite <- E; exact E'].
    - apply (nodup_ids_notin a f c). rewrite <- E. exact Hnd.
    - apply (nodup_ids_notin a' f c'). rewrite <- E'. exact Hnd. }
  subst a'. reflexivity.
Qed.

Lemma at_pos_In src f lo : at_pos src f lo -> In (RF f) src.
Proof. intros (a & c & -> & _). apply in_or_app. right. left. reflexivity. Qed.

(* ------------------------------------------------ the C18 invariant follows *)
Lemma GoodU_SInv err src r : pos_rows src -> GoodU err src r -> SInv src r.
Proof.
  intros Hp [[E _] | (pre & post & Hsrc & Hh & Hl & Hs & He & _)].
  - split; [left; exact E|]. rewrite E. intros f [].
  - split.
    + right. exists pre, (o_rows r), post, 0, 0.
      split; [exact Hsrc|]. split; [|split; lia].
      destruct Hh as (f & t & Et). destruct Hl as (f' & t' & Et').
      assert (P1 : 1 <= f_len f).
      { apply (pos_rows_In src (RF f) Hp). rewrite Hsrc, Et.
        apply in_or_app. right. left. reflexivity. }
      assert (P2 : 1 <= f_len f').
      { apply (pos_rows_In src (RF f') Hp). rewrite Hsrc, Et'.
        apply in_or_app. right. apply in_or_app. left. apply in_or_app. right. left. reflexivity. }
      destruct (exists_last' t) as [-> | (mid & x & ->)].
      * left. exists f, f. rewrite Et. split; [reflexivity|]. split; [reflexivity|].
        apply trimmed_refl. exact P1.
      * right. rewrite Et in Et'.
        change (RF f :: mid ++ [x]) with ((RF f :: mid) ++ [x]) in Et'.
        apply app_inj_tail in Et'. destruct Et' as [_ ->].
        exists f, f, mid, f', f'. rewrite Et.
        split; [reflexivity|]. split; [reflexivity|].
        split; [apply trimmed_refl; exact P1|]. split; [apply trimmed_refl; exact P2|].
        split; left; reflexivity.
    + intros g Hg. left. rewrite Hsrc. apply in_or_app. right. apply in_or_app. left. exact Hg.
Qed.

(* ----------------------------------------------------- bait-overlap figures *)
Lemma first_row_cons r x t : o_rows r = x :: t -> first_row r = Ok x.
Proof. intros E. unfold first_row. rewrite E. apply py_nth_first. Qed.

Lemma last_row_snoc r t x : o_rows r = t ++ [x] -> last_row r = Ok x.
Proof. intros E. unfold last_row. rewrite E. apply py_nth_last. Qed.

(* the dropped first row, when the result still begins at or before the bait *)
Lemma start_overlap_nocore err src r f t ov :
  0 <= err -> f_start (o_bait r) <= f_end (o_bait r) ->
  GoodU err src r -> o_rows r = RF f :: t ->
  start_row_bait_overlap r = Ok ov -> ov < err ->
  o_start r <= f_start (o_bait r) ->
  nocore err (o_bait r) (o_start r) (o_start r + f_len f - 1).
Proof.
  intros Herr Hb HG Er Hov Hlt Hle.
  destruct (good_first err src r f t HG Er) as [_ [M1 M2]].
  pose proof (start_row_bait_overlap_spec r (RF f) ov (first_row_cons _ _ _ Er) Hov) as E.
  cbn [row_len] in E. unfold nocore. lia.
Qed.

Lemma end_overlap_nocore err src r f t ov :
  0 <= err -> f_start (o_bait r) <= f_end (o_bait r) ->
  GoodU err src r -> o_rows r = t ++ [RF f] ->
  end_row_bait_overlap r = Ok ov -> ov < err ->
  f_end (o_bait r) <= o_end r ->
  nocore err (o_bait r) (o_end r - f_len f + 1) (o_end r).
Proof.
  intros Herr Hb HG Er Hov Hlt Hle.
  destruct (good_last err src r t f HG Er) as [_ [M1 M2]].
  pose proof (end_row_bait_overlap_spec r (RF f) ov (last_row_snoc _ _ _ Er) Hov) as E.
  cbn [row_len] in E. unfold nocore. lia.
Qed.

(* --------------------------------------------------- trim_large_overhangs *)
Lemma trim_large_cases' r e r' :
  trim_large_overhangs r e = Ok r' ->
  exists r1,
    (r1 = r \/ (discard_start r = Ok r1 /\ start_overhang r > e
                /\ exists ov, start_row_bait_overlap r = Ok ov /\ ov < e))
    /\ (r' = r1 \/ (discard_end r1 = Ok r' /\ end_overhang r1 > e
                    /\ exists ov, end_row_bait_overlap r1 = Ok ov /\ ov < e)).
Proof.
  intros H. unfold trim_large_overhangs in H.
  destruct ((zlen (o_rows r) =? 1) && (f_len (o_bait r) >? e)).
  { injection H as <-. exists r. auto. }
  match type of H with
  | bind ?X _ = _ => destruct X as [r1|] eqn:H1; [|discriminate]
  end.
  cbn [bind] in H. exists r1. split.
  - destruct (start_overhang r >? e) eqn:E1; [|injection H1 as <-; auto].
    destruct (start_row_bait_overlap r) as [ov|] eqn:Eov; cbn [bind] in H1; [|discriminate].
    destruct (ov <? e) eqn:E2; [|injection H1 as <-; auto].
    right. split; [exact H1|]. split; [lia|]. exists ov. split; [reflexivity | lia].
  - destruct (o_rows r1).
    + destruct ((start_overhang r >? e) && negb (zlen (o_rows r) =? 0));
        [injection H as <-; auto|].
      destruct (end_overhang r1 >? e); [|injection H as <-; auto].
      destruct (end_row_bait_overlap r1) as [ov|]; cbn [bind] in H; [|discriminate].
      injection H as <-; auto.
    + destruct (end_overhang r1 >? e) eqn:E1; [|injection H as <-; auto].
      destruct (end_row_bait_overlap r1) as [ov|] eqn:Eov; cbn [bind] in H; [|discriminate].
      destruct (ov <? e) eqn:E2; [|injection H as <-; auto].
      right. split; [exact H|]. split; [lia|]. exists ov. split; [reflexivity | lia].
Qed.

Lemma discard_start_rows_head r r' : discard_start r = Ok r' -> o_rows r <> [].
Proof. unfold discard_start. destruct (o_rows r); [discriminate|]. intros _. discriminate. Qed.

Lemma discard_end_rows_last r r' : discard_end r = Ok r' -> o_rows r <> [].
Proof.
  unfold discard_end. destruct (o_rows r) as [|x l]; [discriminate|]. intros _. discriminate.
Qed.

Lemma GoodU_nonempty_head err src r :
  GoodU err src r -> o_rows r <> [] -> exists f t, o_rows r = RF f :: t.
Proof.
  intros [[E _] | (pre & post & _ & Hh & _)] Hne; [contradiction | exact Hh].
Qed.

Lemma GoodU_nonempty_last err src r :
  GoodU err src r -> o_rows r <> [] -> exists f t, o_rows r = t ++ [RF f].
Proof.
  intros [[E _] | (pre & post & _ & _ & Hl & _)] Hne; [contradiction | exact Hl].
Qed.

Lemma trim_large_good err src r r' :
  0 <= err -> f_start (o_bait r) <= f_end (o_bait r) ->
  GoodU err src r -> trim_large_overhangs r err = Ok r' ->
  GoodU err src r' /\ o_bait r' = o_bait r.
Proof.
  intros Herr Hb HG H.
  apply trim_large_cases' in H. destruct H as (r1 & H1 & H2).
  assert (G1 : GoodU err src r1 /\ o_bait r1 = o_bait r).
  { destruct H1 as [-> | (Hd & Ho & ov & Hov & Hlt)]; [split; [exact HG | reflexivity]|].
    destruct (GoodU_nonempty_head _ _ _ HG (discard_start_rows_head _ _ Hd)) as (f & t & Er).
    eapply discard_start_good; [exact HG | exact Er | | exact Hd].
    eapply start_overlap_nocore; try eassumption. unfold start_overhang in Ho. lia. }
  destruct G1 as [G1 B1].
  destruct H2 as [-> | (Hd & Ho & ov & Hov & Hlt)]; [split; assumption|].
  destruct (GoodU_nonempty_last _ _ _ G1 (discard_end_rows_last _ _ Hd)) as (f & t & Er).
  rewrite <- B1 in Hb.
  destruct (discard_end_good err src r1 r' f t G1 Er) as [G2 B2]; [|exact Hd|].
  - eapply end_overlap_nocore; try eassumption. unfold end_overhang in Ho. lia.
  - split; [exact G2 | congruence].
Qed.
