(* Tag routing: which tag a piece gets (label_scaffold), Target mode is
   monotone, the namer does not depend on the iteration order of the tag set
   (C17), and pieces are routed through the fusion key (tag, haplotype, name)
   to the assembly of their tag (C09). *)
From Tola Require Import Py.Base Py.Dec Py.Sort Model.Fragment Model.Scaffold Model.Lookup
  Model.OverlapResult Model.NaturalKey Model.Namer Model.Remap Proofs.BaseLemmas.
From Coq Require Import Lia ZifyBool Permutation.

(* ================================================================== 1 == *)
Definition expected_tag (target : bool) (frag_tags scaffold_tags : list str) : option str :=
  if mem_str (s "FalseDuplicate") frag_tags then Some (s "FalseDuplicate")
  else if mem_str (s "Haplotig") frag_tags then Some (s "Haplotig")
  else if mem_str (s "Contaminant") frag_tags || (target && negb (mem_str (s "Target") scaffold_tags)) then Some (s "Contaminant")
  else None.

Theorem label_tag_spec : forall nm id ft st nm' l,
  label_scaffold nm id ft st = Ok (nm', l) ->
  lb_tag l = expected_tag (nm_target nm) ft st
  /\ lb_hap l = nm_cur_hap nm
  /\ (lb_tag l <> None -> lb_rank l = 3)
  /\ nm_target nm' = nm_target nm /\ nm_cur_hap nm' = nm_cur_hap nm
  /\ nm_cur_name nm' = nm_cur_name nm /\ nm_cur_rank nm' = nm_cur_rank nm.
Proof.
  intros nm id ft st nm' l H. unfold label_scaffold in H. unfold expected_tag.
  destruct (mem_str (s "FalseDuplicate") ft).
  { injection H as <- <-. cbn [lb_tag lb_hap lb_rank]. repeat split. }
  destruct (mem_str (s "Haplotig") ft).
  { injection H as <- <-.
    cbn [lb_tag lb_hap lb_rank nm_target nm_cur_hap nm_cur_name nm_cur_rank]. repeat split. }
  set (c := mem_str (s "Contaminant") ft || (nm_target nm && negb (mem_str (s "Target") st))) in *.
  assert (G : forall name nm0, nm_target nm0 = nm_target nm -> nm_cur_hap nm0 = nm_cur_hap nm ->
            nm_cur_name nm0 = nm_cur_name nm -> nm_cur_rank nm0 = nm_cur_rank nm ->
            Ok (nm0, mkLabel name (if c then Some (s "Contaminant") else None) (nm_cur_hap nm)
                             (if c then 3 else nm_cur_rank nm)) = Ok (nm', l) ->
            lb_tag l = (if c then Some (s "Contaminant") else None)
            /\ lb_hap l = nm_cur_hap nm /\ (lb_tag l <> None -> lb_rank l = 3)
            /\ nm_target nm' = nm_target nm /\ nm_cur_hap nm' = nm_cur_hap nm
            /\ nm_cur_name nm' = nm_cur_name nm /\ nm_cur_rank nm' = nm_cur_rank nm).
  { intros name nm0 E1 E2 E3 E4 E. injection E as <- <-. cbn [lb_tag lb_hap lb_rank].
    repeat split; auto. destruct c; [reflexivity | intro N; exfalso; apply N; reflexivity]. }
  destruct (mem_str (s "Unloc") ft).
  - destruct (negb (mem_str (s "Painted") st)); [discriminate|].
    eapply G; [| | | | exact H]; reflexivity.
  - eapply G; [| | | | exact H]; reflexivity.
Qed.

Theorem label_fails_only_unloc_unpainted : forall nm id ft st,
  label_scaffold nm id ft st = Err ValueError <->
  (mem_str (s "FalseDuplicate") ft = false /\ mem_str (s "Haplotig") ft = false
   /\ mem_str (s "Unloc") ft = true /\ mem_str (s "Painted") st = false).
Proof.
  intros nm id ft st. unfold label_scaffold.
  destruct (mem_str (s "FalseDuplicate") ft).
  { split; [discriminate | intros (E & _); discriminate]. }
  destruct (mem_str (s "Haplotig") ft).
  { split; [discriminate | intros (_ & E & _); discriminate]. }
  destruct (mem_str (s "Unloc") ft).
  - destruct (mem_str (s "Painted") st); cbn [negb].
    + split; [discriminate | intros (_ & _ & _ & E); discriminate].
    + split; auto.
  - split; [discriminate | intros (_ & _ & E & _); discriminate].
Qed.

(* ... and label_scaffold never returns any other error *)
Theorem label_err_is_value_error : forall nm id ft st e,
  label_scaffold nm id ft st = Err e -> e = ValueError.
Proof.
  intros nm id ft st e. unfold label_scaffold.
  destruct (mem_str (s "FalseDuplicate") ft); [discriminate|].
  destruct (mem_str (s "Haplotig") ft); [discriminate|].
  destruct (mem_str (s "Unloc") ft); [|discriminate].
  destruct (negb (mem_str (s "Painted") st)); [|discriminate].
  intros [= <-]. reflexivity.
Qed.

(* ================================================================== 2 == *)
(* make_scaffold_name = scan of the (effective) tag set, then [finish] *)
Definition scan0 (nm : namer) : tagscan :=
  mkScan None None false None false (nm_target nm) (nm_hap_lc nm).
Definition eff_tags (rows : list row) (tags : list str) : list str :=
  match tags with [] => fragment_tags rows | _ => tags end.

Definition fin_hap (rows : list row) (sc : tagscan) : res (option str * list (str * str)) :=
  if truthy (ts_hap sc) then Ok (ts_hap sc, ts_lc sc)
  else
    do fn <- first_row_name rows;
    match haplotype_prefix_of_name fn with
    | Some p => let '(h, lc) := get_set_haplotype (ts_lc sc) p in Ok (Some h, lc)
    | None => Ok (None, ts_lc sc)
    end.

Definition fin_prim (nm : namer) (sc : tagscan) (hap : option str) (lc1 : list (str * str))
  : res (option str * list (str * str)) :=
  if ts_primary sc && negb (truthy (nm_primary nm)) then
    match hap with
    | Some (c :: h') => let '(p, lc2) := get_set_haplotype lc1 (c :: h') in Ok (Some p, lc2)
    | _ => Err TaggingError
    end
  else Ok (nm_primary nm, lc1).

Definition fin_name (sc_name0 : str) (rows : list row) (sc : tagscan) : res (str * Z) :=
  match ts_name sc with
  | Some n => Ok (n, match ts_rank sc with Some r => r | None => 2 end)
  | None =>
      if ts_painted sc then Ok (sc_name0, match ts_rank sc with Some r => r | None => 1 end)
      else do fn <- first_row_name rows; Ok (fn, 3)
  end.

Definition finish (nm : namer) (sc_name0 : str) (rows : list row) (sc : tagscan) : res namer :=
  do hap_lc <- fin_hap rows sc;
  let '(hap, lc1) := hap_lc in
  do prim_lc <- fin_prim nm sc hap lc1;
  let '(prim, lc2) := prim_lc in
  do nr <- fin_name sc_name0 rows sc;
  let '(name, rank) := nr in
  let cur_hap :=
    if truthy prim then
      (if opt_eqb str_eqb hap prim then Some (s "Primary") else hap)
    else hap in
  Ok (mkNamer (nm_prefix nm) (Some name) rank cur_hap (nm_hap_n nm) (nm_hap_scaffolds nm)
              prim (ts_target sc) 0 [] lc2).

Lemma make_scaffold_name_eq nm n rows tags :
  make_scaffold_name nm n rows tags =
  (do sc <- foldM scan_tag (eff_tags rows tags) (scan0 nm); finish nm n rows sc).
Proof. reflexivity. Qed.

Ltac dm H :=
  match type of H with
  | context [match ?x with _ => _ end] => destruct x eqn:?
  end.

Lemma finish_target nm n rows sc nm' :
  finish nm n rows sc = Ok nm' -> nm_target nm' = ts_target sc.
Proof.
  unfold finish, bind. intro H.
  repeat (dm H; try discriminate). all: injection H as <-; reflexivity.
Qed.

Lemma scan_tag_target_mono st tag st' :
  scan_tag st tag = Ok st' -> ts_target st = true -> ts_target st' = true.
Proof.
  unfold scan_tag. intros H T.
  repeat (dm H; try discriminate). all: injection H as <-; cbn [ts_target]; auto.
Qed.

Lemma scan_tag_Target st :
  scan_tag st (s "Target") =
  Ok (mkScan (ts_name st) (ts_hap st) (ts_painted st) (ts_rank st) (ts_primary st) true (ts_lc st)).
Proof. reflexivity. Qed.

Lemma foldM_scan_target_mono tags : forall st st',
  foldM scan_tag tags st = Ok st' -> ts_target st = true -> ts_target st' = true.
Proof.
  induction tags as [|t tags IH]; intros st st' H T; cbn [foldM] in H.
  - injection H as <-. exact T.
  - unfold bind in H. destruct (scan_tag st t) as [a|] eqn:E; [|discriminate].
    eapply IH; [exact H|]. eapply scan_tag_target_mono; eauto.
Qed.

Lemma foldM_scan_target_set tags : forall st st',
  foldM scan_tag tags st = Ok st' -> In (s "Target") tags -> ts_target st' = true.
Proof.
  induction tags as [|t tags IH]; intros st st' H I; [destruct I|].
  cbn [foldM] in H. unfold bind in H. destruct (scan_tag st t) as [a|] eqn:E; [|discriminate].
  destruct I as [-> | I].
  - rewrite scan_tag_Target in E. injection E as <-.
    eapply foldM_scan_target_mono; [exact H | reflexivity].
  - eapply IH; eauto.
Qed.

Theorem target_monotone_make : forall nm n rows tags nm',
  make_scaffold_name nm n rows tags = Ok nm' -> nm_target nm = true -> nm_target nm' = true.
Proof.
  intros nm n rows tags nm' H T. rewrite make_scaffold_name_eq in H. unfold bind in H.
  destruct (foldM scan_tag (eff_tags rows tags) (scan0 nm)) as [sc|] eqn:E; [|discriminate].
  rewrite (finish_target _ _ _ _ _ H).
  eapply foldM_scan_target_mono; [exact E | exact T].
Qed.

Theorem target_set_by_tag : forall nm n rows tags nm',
  make_scaffold_name nm n rows tags = Ok nm' ->
  tags <> [] -> In (s "Target") tags -> nm_target nm' = true.
Proof.
  intros nm n rows tags nm' H NE I. rewrite make_scaffold_name_eq in H. unfold bind in H.
  destruct (foldM scan_tag (eff_tags rows tags) (scan0 nm)) as [sc|] eqn:E; [|discriminate].
  rewrite (finish_target _ _ _ _ _ H).
  eapply foldM_scan_target_set; [exact E|].
  destruct tags; [contradiction | exact I].
Qed.

(* label_scaffold keeps Target mode (part of label_tag_spec), so Target mode
   survives any interleaving of the two operations. *)
Theorem target_monotone_label : forall nm id ft st nm' l,
  label_scaffold nm id ft st = Ok (nm', l) -> nm_target nm = true -> nm_target nm' = true.
Proof.
  intros nm id ft st nm' l H T. apply label_tag_spec in H.
  destruct H as (_ & _ & _ & E & _). congruence.
Qed.

(* ================================================================== 4 == *)
Theorem asm_key_of_tagged : forall sc t, sc_tag sc = Some t -> t <> [] -> asm_key_of sc = (Some t, false).
Proof.
  intros sc t E NE. unfold asm_key_of. rewrite E. destruct t; [contradiction | reflexivity].
Qed.

Theorem asm_key_of_untagged : forall sc, truthy (sc_tag sc) = false ->
  asm_key_of sc = (if truthy (sc_hap sc) then (sc_hap sc, true) else (None, true)).
Proof. intros sc E. unfold asm_key_of. rewrite E. reflexivity. Qed.

Lemma opt_str_eqb_eq a b : opt_eqb str_eqb a b = true <-> a = b.
Proof.
  destruct a as [x|], b as [y|]; cbn [opt_eqb]; try (split; [discriminate | congruence]).
  - rewrite str_eqb_eq. split; congruence.
  - split; reflexivity.
Qed.

Lemma fuse_key_eqb_eq a b : fuse_key_eqb a b = true <-> a = b.
Proof.
  destruct a as [[t1 h1] n1], b as [[t2 h2] n2]. unfold fuse_key_eqb.
  rewrite !andb_true_iff, !opt_str_eqb_eq, str_eqb_eq.
  split; [intros [[-> ->] ->]; reflexivity | intros [= -> -> ->]; auto].
Qed.

Section AssocLemmas.
  Context {K V : Type} (keqb : K -> K -> bool).
  Hypothesis Hk : forall a b, keqb a b = true <-> a = b.

  Lemma keqb_refl k : keqb k k = true.
  Proof. apply Hk. reflexivity. Qed.

  Lemma keqb_neq a b : a <> b -> keqb a b = false.
  Proof. intro N. destruct (keqb a b) eqn:E; [apply Hk in E; contradiction | reflexivity]. Qed.

  Lemma aget_aset_same (d : list (K * V)) k v : aget keqb (aset keqb d k v) k = Some v.
  Proof.
    induction d as [|[k0 v0] d IH]; cbn [aset aget].
    - rewrite keqb_refl. reflexivity.
    - destruct (keqb k k0) eqn:E; cbn [aget]; rewrite E; auto.
  Qed.

  Lemma aget_aset_other (d : list (K * V)) k k' v :
    k' <> k -> aget keqb (aset keqb d k v) k' = aget keqb d k'.
  Proof.
    intro N. induction d as [|[k0 v0] d IH]; cbn [aset aget].
    - rewrite (keqb_neq _ _ N). reflexivity.
    - destruct (keqb k k0) eqn:E; cbn [aget].
      + apply Hk in E. subst k0. rewrite (keqb_neq _ _ N). reflexivity.
      + destruct (keqb k' k0); auto.
  Qed.
End AssocLemmas.

Definition key_of_piece (sc : scaffold) : fuse_key := (sc_tag sc, sc_hap sc, sc_name sc).
Definition fused_ok (acc : list (fuse_key * scaffold)) : Prop :=
  forall k b, aget fuse_key_eqb acc k = Some b -> key_of_piece b = k.

(* the scaffold being built for [sc], and its successor *)
Definition step_build (acc : list (fuse_key * scaffold)) (sc : scaffold) : scaffold :=
  match aget fuse_key_eqb acc (key_of_piece sc) with
  | Some b => b
  | None => mkScaffold (sc_name sc) [] (sc_tag sc) (sc_hap sc) (sc_rank sc) (sc_orig sc) (sc_orig_tags sc)
  end.
Definition step_build' (g : gap) (acc : list (fuse_key * scaffold)) (sc : scaffold) : scaffold :=
  let b := step_build acc sc in
  mkScaffold (sc_name b) (append_rows (sc_rows b) (sc_rows sc) (Some g))
             (sc_tag b) (sc_hap b) (sc_rank b) (sc_orig b) (sc_orig_tags b).

Lemma fuse_step_repaired g acc sc isr :
  sc_rows sc <> [] ->
  fuse_step repaired g acc (sc, isr) = aset fuse_key_eqb acc (key_of_piece sc) (step_build' g acc sc).
Proof.
  intro NE. unfold fuse_step, step_build', step_build, key_of_piece.
  destruct (sc_rows sc) eqn:R; [contradiction|].
  cbn [repaired fix_tag_key fix_leftover_gap]. rewrite orb_true_r. reflexivity.
Qed.

Lemma fuse_step_empty c g acc sc isr : sc_rows sc = [] -> fuse_step c g acc (sc, isr) = acc.
Proof. intro R. unfold fuse_step. rewrite R. reflexivity. Qed.

Lemma append_rows_suffix a b g : exists pre, append_rows a b g = pre ++ b.
Proof.
  unfold append_rows. destruct g as [g'|]; [destruct a as [|r a]|].
  - exists []. reflexivity.
  - exists ((r :: a) ++ [RG g']). rewrite <- app_assoc. reflexivity.
  - exists a. reflexivity.
Qed.

Lemma append_rows_prefix a b g : exists suf, append_rows a b g = a ++ suf.
Proof.
  unfold append_rows. destruct g as [g'|]; [destruct a as [|r a]|]; eexists; reflexivity.
Qed.

Lemma step_build_key acc sc : fused_ok acc -> key_of_piece (step_build acc sc) = key_of_piece sc.
Proof.
  intro F. unfold step_build.
  destruct (aget fuse_key_eqb acc (key_of_piece sc)) as [b|] eqn:E; [apply F; exact E | reflexivity].
Qed.

Theorem fuse_step_keeps_keys : forall g acc p, fused_ok acc -> fused_ok (fuse_step repaired g acc p).
Proof.
  intros g acc [sc isr] F.
  destruct (sc_rows sc) eqn:R; [rewrite fuse_step_empty by exact R; exact F|].
  rewrite fuse_step_repaired by congruence.
  intros k b H.
  destruct (fuse_key_eqb k (key_of_piece sc)) eqn:E.
  - apply fuse_key_eqb_eq in E. subst k. rewrite (aget_aset_same _ fuse_key_eqb_eq) in H.
    injection H as <-. rewrite <- (step_build_key acc sc F). reflexivity.
  - assert (N : k <> key_of_piece sc) by (intro X; apply fuse_key_eqb_eq in X; congruence).
    rewrite (aget_aset_other _ fuse_key_eqb_eq) in H by exact N. apply F. exact H.
Qed.

Theorem fuse_step_places_piece : forall g acc sc isr, fused_ok acc -> sc_rows sc <> [] ->
  exists b pre, aget fuse_key_eqb (fuse_step repaired g acc (sc, isr)) (key_of_piece sc) = Some b
    /\ sc_rows b = pre ++ sc_rows sc /\ sc_tag b = sc_tag sc /\ sc_hap b = sc_hap sc /\ sc_name b = sc_name sc.
Proof.
  intros g acc sc isr F NE. rewrite fuse_step_repaired by exact NE.
  rewrite (aget_aset_same _ fuse_key_eqb_eq).
  destruct (append_rows_suffix (sc_rows (step_build acc sc)) (sc_rows sc) (Some g)) as [pre P].
  exists (step_build' g acc sc), pre. split; [reflexivity|].
  pose proof (step_build_key acc sc F) as Kq. unfold key_of_piece in Kq. injection Kq as E1 E2 E3.
  unfold step_build'. cbn [sc_rows sc_tag sc_hap sc_name]. auto.
Qed.

Theorem fuse_step_only_appends : forall g acc p k b, aget fuse_key_eqb acc k = Some b ->
  exists b' suf, aget fuse_key_eqb (fuse_step repaired g acc p) k = Some b' /\ sc_rows b' = sc_rows b ++ suf
    /\ sc_tag b' = sc_tag b /\ sc_hap b' = sc_hap b /\ sc_name b' = sc_name b.
Proof.
  intros g acc [sc isr] k b H.
  destruct (sc_rows sc) eqn:R.
  { rewrite fuse_step_empty by exact R. exists b, []. rewrite app_nil_r. auto. }
  rewrite fuse_step_repaired by congruence.
  destruct (fuse_key_eqb k (key_of_piece sc)) eqn:E.
  - apply fuse_key_eqb_eq in E. subst k. rewrite (aget_aset_same _ fuse_key_eqb_eq).
    assert (B : step_build acc sc = b) by (unfold step_build; rewrite H; reflexivity).
    destruct (append_rows_prefix (sc_rows b) (sc_rows sc) (Some g)) as [suf P].
    exists (step_build' g acc sc), suf. unfold step_build'. rewrite B.
    cbn [sc_rows sc_tag sc_hap sc_name]. auto.
  - assert (N : k <> key_of_piece sc) by (intro X; apply fuse_key_eqb_eq in X; congruence).
    rewrite (aget_aset_other _ fuse_key_eqb_eq) by exact N.
    exists b, []. rewrite app_nil_r. auto.
Qed.

Lemma fused_ok_nil : fused_ok [].
Proof. intros k b H. discriminate. Qed.

Lemma fold_fuse_keeps_keys g pieces : forall acc,
  fused_ok acc -> fused_ok (fold_left (fuse_step repaired g) pieces acc).
Proof.
  induction pieces as [|p pieces IH]; intros acc F; cbn [fold_left]; [exact F|].
  apply IH. apply fuse_step_keeps_keys. exact F.
Qed.

Lemma fold_fuse_only_appends g pieces : forall acc k b, aget fuse_key_eqb acc k = Some b ->
  exists b' suf, aget fuse_key_eqb (fold_left (fuse_step repaired g) pieces acc) k = Some b'
    /\ sc_rows b' = sc_rows b ++ suf
    /\ sc_tag b' = sc_tag b /\ sc_hap b' = sc_hap b /\ sc_name b' = sc_name b.
Proof.
  induction pieces as [|p pieces IH]; intros acc k b H; cbn [fold_left].
  - exists b, []. rewrite app_nil_r. auto.
  - destruct (fuse_step_only_appends g acc p k b H) as (b1 & s1 & H1 & R1 & T1 & Hp1 & N1).
    destruct (IH _ _ _ H1) as (b2 & s2 & H2 & R2 & T2 & Hp2 & N2).
    exists b2, (s1 ++ s2). rewrite R2, R1, <- app_assoc. repeat split; congruence.
Qed.

Lemma routing_gen g pieces : forall acc sc isr,
  fused_ok acc -> In (sc, isr) pieces -> sc_rows sc <> [] ->
  exists b pre suf,
    aget fuse_key_eqb (fold_left (fuse_step repaired g) pieces acc) (key_of_piece sc) = Some b
    /\ sc_rows b = pre ++ sc_rows sc ++ suf
    /\ sc_tag b = sc_tag sc /\ sc_hap b = sc_hap sc /\ sc_name b = sc_name sc.
Proof.
  induction pieces as [|p pieces IH]; intros acc sc isr F I NE; [destruct I|].
  cbn [fold_left]. destruct I as [-> | I].
  - destruct (fuse_step_places_piece g acc sc isr F NE) as (b1 & pre & H1 & R1 & T1 & Hp1 & N1).
    destruct (fold_fuse_only_appends g pieces _ _ _ H1) as (b2 & suf & H2 & R2 & T2 & Hp2 & N2).
    exists b2, pre, suf. rewrite R2, R1, <- app_assoc. repeat split; congruence.
  - eapply IH; eauto. apply fuse_step_keeps_keys. exact F.
Qed.

Lemma asm_key_of_ext a b : sc_tag a = sc_tag b -> sc_hap a = sc_hap b -> asm_key_of a = asm_key_of b.
Proof. intros E1 E2. unfold asm_key_of. rewrite E1, E2. reflexivity. Qed.

Theorem routing : forall g pieces sc isr, In (sc, isr) pieces -> sc_rows sc <> [] ->
  exists b pre suf, aget fuse_key_eqb (fold_left (fuse_step repaired g) pieces []) (key_of_piece sc) = Some b
    /\ sc_rows b = pre ++ sc_rows sc ++ suf /\ fst (asm_key_of b) = fst (asm_key_of sc).
Proof.
  intros g pieces sc isr I NE.
  destruct (routing_gen g pieces [] sc isr fused_ok_nil I NE) as (b & pre & suf & H & R & T & Hp & _).
  exists b, pre, suf. repeat split; auto. f_equal. apply asm_key_of_ext; auto.
Qed.

(* a tagged piece never sits in a fused scaffold that goes to a curated assembly *)
Corollary routing_tagged_not_curated : forall g pieces sc isr t,
  In (sc, isr) pieces -> sc_rows sc <> [] -> sc_tag sc = Some t -> t <> [] ->
  exists b pre suf, aget fuse_key_eqb (fold_left (fuse_step repaired g) pieces []) (key_of_piece sc) = Some b
    /\ sc_rows b = pre ++ sc_rows sc ++ suf /\ asm_key_of b = (Some t, false).
Proof.
  intros g pieces sc isr t I NE T Tn.
  destruct (routing_gen g pieces [] sc isr fused_ok_nil I NE) as (b & pre & suf & H & R & Tb & Hp & _).
  exists b, pre, suf. repeat split; auto. apply asm_key_of_tagged; congruence.
Qed.

(* ================================================================== 5 == *)
Theorem legacy_fusion_refuted : exists g p1 p2 b, let c := mkCfg true true false true true in
  sc_tag (fst p2) = Some (s "Contaminant") /\ sc_rows (fst p2) <> [] /\
  aget fuse_key_eqb (fold_left (fuse_step c g) [p1; p2] []) (None, sc_hap (fst p2), sc_name (fst p2)) = Some b
  /\ sc_tag b = None /\ (exists pre, sc_rows b = pre ++ sc_rows (fst p2)).
Proof.
  pose (f1 := mkFrag 0 (s "c1") 1 5 1 []).
  pose (f2 := mkFrag 1 (s "c2") 1 7 1 [s "Contaminant"]).
  pose (g := mkGap 200 (s "scaffold")).
  exists g, (mkScaffold (s "S") [RF f1] None None 3 None [], true),
         (mkScaffold (s "S") [RF f2] (Some (s "Contaminant")) None 3 None [], true),
         (mkScaffold (s "S") [RF f1; RG g; RF f2] None None 3 None []).
  cbv zeta. split; [reflexivity|]. split; [discriminate|]. split; [vm_compute; reflexivity|].
  split; [reflexivity|]. exists [RF f1; RG g]. reflexivity.
Qed.

(* ================================================================== 3 == *)
(* "both fail, or both succeed with the same value" *)
Definition req {A} (a b : res A) : Prop :=
  match a, b with
  | Ok x, Ok y => x = y
  | Err _, Err _ => True
  | _, _ => False
  end.

Lemma req_refl {A} (a : res A) : req a a.
Proof. destruct a; cbn; auto. Qed.

Lemma req_trans {A} (a b c : res A) : req a b -> req b c -> req a c.
Proof. destruct a, b, c; cbn; intros; try congruence; try contradiction; auto. Qed.

Lemma req_bind {A B} (a b : res A) (f : A -> res B) : req a b -> req (bind a f) (bind b f).
Proof. destruct a, b; cbn; intros H; try contradiction; [subst; apply req_refl | exact I]. Qed.

(* the six classes of a tag; the empty string is no tag at all ("if not tag:
   continue") and goes with the tags that leave the scan state alone *)
Inductive tcls := CPainted | CTarget | CPrimary | CChr | CHap | COther.

Definition cls (tag : str) : tcls :=
  match tag with
  | [] => COther
  | _ :: _ =>
      if str_eqb tag (s "Painted") then CPainted
      else if str_eqb tag (s "Target") then CTarget
      else if str_eqb tag (s "Primary") then CPrimary
      else if looks_like_chr_name tag then CChr
      else if negb (mem_str tag other_known_tags) then CHap
      else COther
  end.

Definition scan_cls (st : tagscan) (tag : str) (c : tcls) : res tagscan :=
  match c with
  | CPainted => Ok (mkScan (ts_name st) (ts_hap st) true (ts_rank st) (ts_primary st) (ts_target st) (ts_lc st))
  | CTarget => Ok (mkScan (ts_name st) (ts_hap st) (ts_painted st) (ts_rank st) (ts_primary st) true (ts_lc st))
  | CPrimary => Ok (mkScan (ts_name st) (ts_hap st) (ts_painted st) (ts_rank st) true (ts_target st) (ts_lc st))
  | CChr =>
      match ts_name st with
      | Some n => if negb (str_eqb tag n) then Err TaggingError
                  else Ok (mkScan (Some tag) (ts_hap st) (ts_painted st) (Some 2) (ts_primary st) (ts_target st) (ts_lc st))
      | None => Ok (mkScan (Some tag) (ts_hap st) (ts_painted st) (Some 2) (ts_primary st) (ts_target st) (ts_lc st))
      end
  | CHap =>
      if truthy (ts_hap st) then Err TaggingError
      else
        let '(h, lc) := get_set_haplotype (ts_lc st) tag in
        Ok (mkScan (ts_name st) (Some h) (ts_painted st) (ts_rank st) (ts_primary st) (ts_target st) lc)
  | COther => Ok st
  end.

Lemma scan_tag_cls st tag : scan_tag st tag = scan_cls st tag (cls tag).
Proof.
  unfold scan_tag, cls. destruct tag as [|c0 tag0]; [reflexivity|].
  destruct (str_eqb (c0 :: tag0) (s "Painted")); [reflexivity|].
  destruct (str_eqb (c0 :: tag0) (s "Target")); [reflexivity|].
  destruct (str_eqb (c0 :: tag0) (s "Primary")); [reflexivity|].
  destruct (looks_like_chr_name (c0 :: tag0)); [reflexivity|].
  destruct (negb (mem_str (c0 :: tag0) other_known_tags)); reflexivity.
Qed.

(* only a non-empty string is ever taken for a haplotype *)
Lemma cls_hap_nonempty tag : cls tag = CHap -> tag <> [].
Proof. destruct tag; [discriminate | intros _; discriminate]. Qed.

(* invariant of the lower-case haplotype dict: no empty spelling *)
Definition lc_ok (lc : list (str * str)) : Prop := Forall (fun p => snd p <> []) lc.

Lemma aget_str_In (lc : list (str * str)) k v : aget str_eqb lc k = Some v -> exists k', In (k', v) lc.
Proof.
  induction lc as [|[k0 v0] lc IH]; cbn [aget]; [discriminate|].
  destruct (str_eqb k k0).
  - intros [= <-]. exists k0. left. reflexivity.
  - intro H. destruct (IH H) as [k' I]. exists k'. right. exact I.
Qed.

Lemma get_set_haplotype_ok lc h h' lc' :
  lc_ok lc -> h <> [] -> get_set_haplotype lc h = (h', lc') -> h' <> [] /\ lc_ok lc'.
Proof.
  intros L NE. unfold get_set_haplotype.
  destruct (aget str_eqb lc (lower h)) as [v|] eqn:E; intros [= <- <-].
  - split; [|exact L]. destruct (aget_str_In _ _ _ E) as [k' I].
    unfold lc_ok in L. rewrite Forall_forall in L. exact (L _ I).
  - split; [exact NE|]. apply Forall_app. split; [exact L|]. constructor; [exact NE | constructor].
Qed.

Lemma scan_cls_lc_ok st tag c st' :
  lc_ok (ts_lc st) -> (c = CHap -> tag <> []) -> scan_cls st tag c = Ok st' -> lc_ok (ts_lc st').
Proof.
  intros L NE H. destruct c; cbn [scan_cls] in H.
  1-3: injection H as <-; exact L.
  - destruct (ts_name st) as [n|]; [destruct (negb (str_eqb tag n)); [discriminate|]|];
      injection H as <-; exact L.
  - destruct (truthy (ts_hap st)); [discriminate|].
    destruct (get_set_haplotype (ts_lc st) tag) as [h lc] eqn:G. injection H as <-.
    cbn [ts_lc]. eapply get_set_haplotype_ok; eauto.
  - injection H as <-. exact L.
Qed.

(* two different chromosome-name tags always fail *)
Lemma chr_chr_fails st x y : x <> y ->
  (do a <- scan_cls st x CChr; scan_cls a y CChr) = Err TaggingError.
Proof.
  intro N. assert (E : str_eqb y x = false) by (apply str_eqb_neq; congruence).
  cbn [scan_cls]. destruct (ts_name st) as [n|]; [destruct (negb (str_eqb x n)); [reflexivity|]|];
    cbn [bind ts_name]; rewrite E; reflexivity.
Qed.

(* two haplotype tags always fail *)
Lemma hap_hap_fails st x y : lc_ok (ts_lc st) -> x <> [] ->
  (do a <- scan_cls st x CHap; scan_cls a y CHap) = Err TaggingError.
Proof.
  intros L NE. cbn [scan_cls]. destruct (truthy (ts_hap st)); [reflexivity|].
  destruct (get_set_haplotype (ts_lc st) x) as [h lc] eqn:G.
  destruct (get_set_haplotype_ok _ _ _ _ L NE G) as [Hh _].
  cbn [bind ts_hap]. destruct h; [contradiction | reflexivity].
Qed.

Lemma scan_cls_swap st x y cx cy :
  lc_ok (ts_lc st) -> (cx = CHap -> x <> []) -> (cy = CHap -> y <> []) -> x <> y ->
  req (do a <- scan_cls st x cx; scan_cls a y cy) (do a <- scan_cls st y cy; scan_cls a x cx).
Proof.
  intros L Nx Ny N.
  destruct cx, cy;
    try (rewrite (chr_chr_fails st x y N), (chr_chr_fails st y x (not_eq_sym N)); exact I);
    try (rewrite (hap_hap_fails st x y L (Nx eq_refl)), (hap_hap_fails st y x L (Ny eq_refl)); exact I);
    repeat (cbn [scan_cls bind ts_name ts_hap ts_painted ts_rank ts_primary ts_target ts_lc];
            match goal with
            | H : ?z = _ |- context [match ?z with _ => _ end] => rewrite H
            | |- context [match ?z with _ => _ end] => destruct z eqn:?
            end);
    cbn [req scan_cls bind ts_name ts_hap ts_painted ts_rank ts_primary ts_target ts_lc];
    try reflexivity; try exact I; try congruence.
Qed.

Definition scan_tag' (st : tagscan) (tag : str) : res tagscan := scan_cls st tag (cls tag).

Lemma foldM_ext {A S} (f g : S -> A -> res S) : (forall s a, f s a = g s a) ->
  forall l s, foldM f l s = foldM g l s.
Proof.
  intros E l. induction l as [|x l IH]; intro s0; cbn [foldM]; [reflexivity|].
  rewrite E. destruct (g s0 x); cbn [bind]; auto.
Qed.

(* no side condition on the list: equal neighbours swap trivially, empty
   strings leave the state alone *)
Lemma scan_perm l l' : Permutation l l' ->
  forall st, lc_ok (ts_lc st) -> req (foldM scan_tag' l st) (foldM scan_tag' l' st).
Proof.
  induction 1 as [| x l l' P IH | x y l | l l' l'' P1 IH1 P2 IH2]; intros st L.
  - apply req_refl.
  - cbn [foldM].
    destruct (scan_tag' st x) as [a|e] eqn:E; cbn [bind]; [|exact I].
    apply IH. unfold scan_tag' in E. eapply scan_cls_lc_ok; [exact L | apply cls_hap_nonempty | exact E].
  - destruct (str_eqb y x) eqn:Eyx; [apply str_eqb_eq in Eyx; subst y; apply req_refl|].
    apply str_eqb_neq in Eyx. cbn [foldM].
    pose proof (scan_cls_swap st y x (cls y) (cls x) L (cls_hap_nonempty y) (cls_hap_nonempty x) Eyx) as Hs.
    unfold scan_tag'.
    destruct (scan_cls st y (cls y)) as [a|]; destruct (scan_cls st x (cls x)) as [b|]; cbn [bind] in *.
    + destruct (scan_cls a x (cls x)) as [a'|]; destruct (scan_cls b y (cls y)) as [b'|];
        cbn [req bind] in *; try contradiction; [subst; apply req_refl | exact I].
    + destruct (scan_cls a x (cls x)) as [a'|]; cbn [req bind] in *; [contradiction | exact I].
    + destruct (scan_cls b y (cls y)) as [b'|]; cbn [req bind] in *; [contradiction | exact I].
    + exact I.
  - eapply req_trans; [apply IH1; assumption|]. apply IH2. exact L.
Qed.

(* the scan of a tag set does not depend on the iteration order *)
Lemma scan_tag_perm l l' st : Permutation l l' -> lc_ok (ts_lc st) ->
  req (foldM scan_tag l st) (foldM scan_tag l' st).
Proof.
  intros P L.
  rewrite !(foldM_ext scan_tag scan_tag' scan_tag_cls). apply scan_perm; assumption.
Qed.

(* C17 for EVERY namer is false: a namer whose haplotype dict maps a lower-case
   haplotype to the empty spelling makes the first haplotype tag falsy, so a
   second one is accepted or rejected depending on the order. *)
Theorem tags_perm_needs_lc_ok : exists nm n rows tags tags',
  Permutation tags tags' /\ NoDup tags /\ ~ In [] tags /\ tags <> [] /\
  is_ok (make_scaffold_name nm n rows tags) = true /\
  is_ok (make_scaffold_name nm n rows tags') = false.
Proof.
  exists (mkNamer (s "SUPER_") None 0 None 0 [] None false 0 [] [(s "hap1", [])]),
         (s "Scaffold_1"), [RF (mkFrag 0 (s "c") 1 5 1 [])],
         [s "Hap1"; s "Hap2"], [s "Hap2"; s "Hap1"].
  split; [apply perm_swap|]. split.
  { constructor; [intros [X|[]]; discriminate X | constructor; [intros [] | constructor]]. }
  split; [intros [X|[X|[]]]; discriminate X|]. split; [discriminate|].
  split; vm_compute; reflexivity.
Qed.

(* ... and true of every namer whose haplotype dict has no empty spelling, for
   ANY two orders of the same tags (duplicates, empty strings and the empty
   set -- which falls back to fragment_tags on both sides -- included) *)
Theorem tags_perm_invariant : forall nm n rows tags tags',
  lc_ok (nm_hap_lc nm) ->
  Permutation tags tags' ->
  match make_scaffold_name nm n rows tags, make_scaffold_name nm n rows tags' with
  | Ok a, Ok b => a = b
  | Err _, Err _ => True
  | _, _ => False
  end.
Proof.
  intros nm n rows tags tags' L P.
  change (req (make_scaffold_name nm n rows tags) (make_scaffold_name nm n rows tags')).
  rewrite !make_scaffold_name_eq. apply req_bind.
  destruct tags as [|t0 tags0].
  { apply Permutation_nil in P. subst tags'. apply req_refl. }
  destruct tags' as [|t0' tags0'].
  { apply Permutation_sym, Permutation_nil in P. discriminate P. }
  cbn [eff_tags]. apply scan_tag_perm; [exact P | exact L].
Qed.

(* the same for the fall-back: any order of the fragment tags of the rows *)
Theorem fragment_tags_perm_invariant : forall nm n rows l,
  lc_ok (nm_hap_lc nm) -> l <> [] -> Permutation (fragment_tags rows) l ->
  match make_scaffold_name nm n rows [], make_scaffold_name nm n rows l with
  | Ok a, Ok b => a = b
  | Err _, Err _ => True
  | _, _ => False
  end.
Proof.
  intros nm n rows l L NE P.
  change (req (make_scaffold_name nm n rows []) (make_scaffold_name nm n rows l)).
  rewrite !make_scaffold_name_eq. apply req_bind.
  replace (eff_tags rows l) with l by (destruct l; [contradiction | reflexivity]).
  cbn [eff_tags]. apply scan_tag_perm; [exact P | exact L].
Qed.

(* ---- the pinned-commit scan (no "if not tag: continue"): the EMPTY tag is a
   falsy haplotype, and the outcome depends on the order of the tag set *)
Definition scan_tag_legacy (st : tagscan) (tag : str) : res tagscan :=
  if str_eqb tag (s "Painted") then
    Ok (mkScan (ts_name st) (ts_hap st) true (ts_rank st) (ts_primary st) (ts_target st) (ts_lc st))
  else if str_eqb tag (s "Target") then
    Ok (mkScan (ts_name st) (ts_hap st) (ts_painted st) (ts_rank st) (ts_primary st) true (ts_lc st))
  else if str_eqb tag (s "Primary") then
    Ok (mkScan (ts_name st) (ts_hap st) (ts_painted st) (ts_rank st) true (ts_target st) (ts_lc st))
  else if looks_like_chr_name tag then
    match ts_name st with
    | Some n => if negb (str_eqb tag n) then Err TaggingError
                else Ok (mkScan (Some tag) (ts_hap st) (ts_painted st) (Some 2) (ts_primary st) (ts_target st) (ts_lc st))
    | None => Ok (mkScan (Some tag) (ts_hap st) (ts_painted st) (Some 2) (ts_primary st) (ts_target st) (ts_lc st))
    end
  else if negb (mem_str tag other_known_tags) then
    if truthy (ts_hap st) then Err TaggingError
    else
      let '(h, lc) := get_set_haplotype (ts_lc st) tag in
      Ok (mkScan (ts_name st) (Some h) (ts_painted st) (ts_rank st) (ts_primary st) (ts_target st) lc)
  else Ok st.

Definition make_scaffold_name_legacy (nm : namer) (sc_name0 : str) (rows : list row) (tags : list str)
  : res namer :=
  do sc <- foldM scan_tag_legacy (eff_tags rows tags) (scan0 nm); finish nm sc_name0 rows sc.

(* the two scans differ on the empty string only *)
Lemma scan_tag_legacy_nonempty st tag : tag <> [] -> scan_tag_legacy st tag = scan_tag st tag.
Proof. destruct tag; [contradiction | reflexivity]. Qed.

Lemma make_scaffold_name_legacy_agrees nm n rows tags :
  ~ In [] (eff_tags rows tags) ->
  make_scaffold_name_legacy nm n rows tags = make_scaffold_name nm n rows tags.
Proof.
  intro NI. rewrite make_scaffold_name_eq. unfold make_scaffold_name_legacy. f_equal.
  generalize (scan0 nm). induction (eff_tags rows tags) as [|t l IH]; intro st; cbn [foldM]; [reflexivity|].
  rewrite scan_tag_legacy_nonempty by (intro X; apply NI; left; exact X).
  destruct (scan_tag st t); cbn [bind]; [|reflexivity].
  apply IH. intro X. apply NI. right. exact X.
Qed.

Theorem tags_order_matters_with_empty_tag : exists nm n rows t1 t2,
  Permutation t1 t2 /\ is_ok (make_scaffold_name_legacy nm n rows t1) = true
  /\ is_ok (make_scaffold_name_legacy nm n rows t2) = false.
Proof.
  exists (new_namer (s "SUPER_")), (s "Scaffold_1"), [RF (mkFrag 0 (s "c") 1 5 1 [])],
         [[]; s "Hap1"], [s "Hap1"; []].
  split; [apply perm_swap|]. split; vm_compute; reflexivity.
Qed.

(* the repaired scan accepts that witness in both orders, with the same result *)
Theorem empty_tag_witness_repaired :
  let nm := new_namer (s "SUPER_") in
  let rows := [RF (mkFrag 0 (s "c") 1 5 1 [])] in
  exists r, make_scaffold_name nm (s "Scaffold_1") rows [[]; s "Hap1"] = Ok r
         /\ make_scaffold_name nm (s "Scaffold_1") rows [s "Hap1"; []] = Ok r.
Proof. vm_compute. eexists. split; reflexivity. Qed.

(* ---- [lc_ok] is an invariant of the namer: it holds initially and is kept by
   label_scaffold and by make_scaffold_name *)
Lemma lc_ok_new_namer p : lc_ok (nm_hap_lc (new_namer p)).
Proof. constructor. Qed.

Lemma label_scaffold_hap_lc nm id ft st nm' l :
  label_scaffold nm id ft st = Ok (nm', l) -> nm_hap_lc nm' = nm_hap_lc nm.
Proof.
  unfold label_scaffold. intro H.
  repeat (dm H; try discriminate). all: injection H as <- _; reflexivity.
Qed.

Lemma haplotype_prefix_nonempty name p : haplotype_prefix_of_name name = Some p -> p <> [].
Proof.
  unfold haplotype_prefix_of_name. intro H.
  repeat (dm H; try discriminate). injection H as <-. discriminate.
Qed.

Lemma fin_hap_lc_ok rows sc hap lc1 : lc_ok (ts_lc sc) -> fin_hap rows sc = Ok (hap, lc1) -> lc_ok lc1.
Proof.
  intros L H. unfold fin_hap, bind in H.
  destruct (truthy (ts_hap sc)); [injection H as _ <-; exact L|].
  destruct (first_row_name rows) as [fn|]; [|discriminate].
  destruct (haplotype_prefix_of_name fn) as [p|] eqn:Ep; [|injection H as _ <-; exact L].
  destruct (get_set_haplotype (ts_lc sc) p) as [h lc] eqn:G. injection H as _ <-.
  eapply get_set_haplotype_ok; [exact L | eapply haplotype_prefix_nonempty; exact Ep | exact G].
Qed.

Lemma fin_prim_lc_ok nm sc hap lc1 prim lc2 : lc_ok lc1 -> fin_prim nm sc hap lc1 = Ok (prim, lc2) -> lc_ok lc2.
Proof.
  intros L H. unfold fin_prim in H.
  destruct (ts_primary sc && negb (truthy (nm_primary nm))); [|injection H as _ <-; exact L].
  destruct hap as [[|c h']|]; try discriminate.
  destruct (get_set_haplotype lc1 (c :: h')) as [p lc] eqn:G. injection H as _ <-.
  refine (proj2 (get_set_haplotype_ok lc1 (c :: h') p _ L _ G)). discriminate.
Qed.

Lemma foldM_scan_lc_ok tags : forall st st', lc_ok (ts_lc st) ->
  foldM scan_tag tags st = Ok st' -> lc_ok (ts_lc st').
Proof.
  induction tags as [|t tags IH]; intros st st' L H; cbn [foldM] in H.
  - injection H as <-. exact L.
  - unfold bind in H. destruct (scan_tag st t) as [a|] eqn:E; [|discriminate].
    eapply IH; [| exact H].
    rewrite scan_tag_cls in E. eapply scan_cls_lc_ok; [exact L | apply cls_hap_nonempty | exact E].
Qed.

Theorem make_scaffold_name_lc_ok : forall nm n rows tags nm',
  lc_ok (nm_hap_lc nm) ->
  make_scaffold_name nm n rows tags = Ok nm' -> lc_ok (nm_hap_lc nm').
Proof.
  intros nm n rows tags nm' L H. rewrite make_scaffold_name_eq in H. unfold bind in H.
  destruct (foldM scan_tag (eff_tags rows tags) (scan0 nm)) as [sc|] eqn:E; [|discriminate].
  pose proof (foldM_scan_lc_ok _ (scan0 nm) _ L E) as L1.
  unfold finish, bind in H.
  destruct (fin_hap rows sc) as [[hap lc1]|] eqn:E1; [|discriminate].
  destruct (fin_prim nm sc hap lc1) as [[prim lc2]|] eqn:E2; [|discriminate].
  destruct (fin_name n rows sc) as [[name rank]|]; [|discriminate].
  injection H as <-. cbn [nm_hap_lc].
  eapply fin_prim_lc_ok; [|exact E2]. eapply fin_hap_lc_ok; [exact L1 | exact E1].
Qed.

(* ------------------------------------------------------------ summary *)
Print Assumptions label_tag_spec.
Print Assumptions label_fails_only_unloc_unpainted.
Print Assumptions label_err_is_value_error.
Print Assumptions target_monotone_make.
Print Assumptions target_set_by_tag.
Print Assumptions target_monotone_label.
Print Assumptions tags_perm_invariant.
Print Assumptions fragment_tags_perm_invariant.
Print Assumptions tags_perm_needs_lc_ok.
Print Assumptions make_scaffold_name_lc_ok.
Print Assumptions make_scaffold_name_legacy_agrees.
Print Assumptions tags_order_matters_with_empty_tag.
Print Assumptions empty_tag_witness_repaired.
Print Assumptions asm_key_of_tagged.
Print Assumptions asm_key_of_untagged.
Print Assumptions fuse_step_keeps_keys.
Print Assumptions fuse_step_places_piece.
Print Assumptions fuse_step_only_appends.
Print Assumptions routing.
Print Assumptions routing_tagged_not_curated.
Print Assumptions legacy_fusion_refuted.
