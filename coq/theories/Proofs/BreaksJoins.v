(* C11, END TO END through [remap]: the reported number of manual breaks is the
   number of DISTINCT input adjacencies (canonical junctions between consecutive
   contigs of an input scaffold) that occur in no output scaffold of any output
   assembly; the reported number of manual joins is the number of distinct
   output adjacencies that occur in no input scaffold. *)
From Tola Require Import Py.Base Py.Sort Model.Fragment Model.Scaffold Model.Lookup
  Model.OverlapResult Model.NaturalKey Model.Namer Model.Remap Model.RemapSpec
  Proofs.BaseLemmas Proofs.Junctions Proofs.RemapTail.
From Coq Require Import Lia ZifyBool Permutation.

(* j is an adjacency of the input / of the output *)
Definition input_adjacency (input : list (str * list row)) (j : junction) : Prop :=
  exists isc js, In isc input /\ junction_set repaired (snd isc) = Ok js /\ In j js.
Definition output_adjacency (o : outputs) (j : junction) : Prop :=
  exists a sc js, In a (out_asms o) /\ In sc (oa_scaffolds a)
                  /\ junction_set repaired (sc_rows sc) = Ok js /\ In j js.

Definition breaks_joins_statement : Prop :=
  forall g prefix bpt input pretext o,
  remap repaired g prefix bpt input pretext = Ok o ->
  exists broken joined : list junction,
    NoDup broken /\ NoDup joined
    /\ (forall j, In j broken <-> input_adjacency input j /\ ~ output_adjacency o j)
    /\ (forall j, In j joined <-> output_adjacency o j /\ ~ input_adjacency input j)
    /\ out_breaks o = zlen broken /\ out_joins o = zlen joined.

(* ================================================================== *)
(* 1. membership in a fold of [union_j]                                *)
(* ================================================================== *)
Definition in_some_value {K} (l : list (K * list junction)) (j : junction) : Prop :=
  exists p, In p l /\ In j (snd p).
Definition values_nodup {K} (l : list (K * list junction)) : Prop :=
  forall p, In p l -> NoDup (snd p).

Lemma fold_union_in_gen {K} : forall (l : list (K * list junction)) acc j,
  In j (fold_left (fun acc p => union_j acc (snd p)) l acc) <-> In j acc \/ in_some_value l j.
Proof.
  induction l as [|p l IH]; intros acc j; cbn [fold_left].
  - split; [intro H; left; exact H|].
    intros [H|(p & [] & _)]. exact H.
  - rewrite IH, union_j_in. unfold in_some_value. split.
    + intros [[Ha|Hp]|(q & Hq & Hj)].
      * left. exact Ha.
      * right. exists p. split; [left; reflexivity|exact Hp].
      * right. exists q. split; [right; exact Hq|exact Hj].
    + intros [Ha|(q & [<-|Hq] & Hj)].
      * left. left. exact Ha.
      * left. right. exact Hj.
      * right. exists q. split; assumption.
Qed.

Lemma fold_union_in {K} (l : list (K * list junction)) j :
  In j (fold_left (fun acc p => union_j acc (snd p)) l []) <-> in_some_value l j.
Proof.
  rewrite fold_union_in_gen. split; [intros [[]|H]; exact H|intro H; right; exact H].
Qed.

Lemma fold_union_nodup_gen {K} : forall (l : list (K * list junction)) acc,
  NoDup acc -> values_nodup l ->
  NoDup (fold_left (fun acc p => union_j acc (snd p)) l acc).
Proof.
  induction l as [|p l IH]; intros acc Ha Hl; cbn [fold_left]; [exact Ha|].
  apply IH.
  - apply union_j_nodup; [exact Ha|]. apply Hl. left. reflexivity.
  - intros q Hq. apply Hl. right. exact Hq.
Qed.

Lemma fold_union_nodup {K} (l : list (K * list junction)) :
  values_nodup l -> NoDup (fold_left (fun acc p => union_j acc (snd p)) l []).
Proof. apply fold_union_nodup_gen. constructor. Qed.

(* ================================================================== *)
(* 2. the values of an insertion-ordered dict after [aset]             *)
(* ================================================================== *)
Lemma aset_in_inv {K V} (keqb : K -> K -> bool) : forall (d : list (K * V)) k v p,
  In p (aset keqb d k v) -> In p d \/ snd p = v.
Proof.
  induction d as [|[k' v'] d IH]; intros k v p H; cbn [aset] in H.
  - destruct H as [<-|[]]. right. reflexivity.
  - destruct (keqb k k') eqn:E.
    + destruct H as [<-|H]; [right; reflexivity|left; right; exact H].
    + destruct H as [<-|H]; [left; left; reflexivity|].
      destruct (IH k v p H) as [H1|H1]; [left; right; exact H1|right; exact H1].
Qed.

Lemma aset_has {K V} (keqb : K -> K -> bool) : forall (d : list (K * V)) k v,
  exists p, In p (aset keqb d k v) /\ snd p = v.
Proof.
  induction d as [|[k' v'] d IH]; intros k v; cbn [aset].
  - exists (k, v). split; [left|]; reflexivity.
  - destruct (keqb k k') eqn:E.
    + exists (k', v). split; [left|]; reflexivity.
    + destruct (IH k v) as (p & Hp & Hv). exists p. split; [right; exact Hp|exact Hv].
Qed.

Lemma aset_keep {K V} (keqb : K -> K -> bool) : forall (d : list (K * V)) k v p,
  In p d -> In p (aset keqb d k v) \/ aget keqb d k = Some (snd p).
Proof.
  induction d as [|[k' v'] d IH]; intros k v p H; [destruct H|].
  cbn [aset aget]. destruct (keqb k k') eqn:E.
  - destruct H as [<-|H]; [right; reflexivity|left; right; exact H].
  - destruct H as [<-|H]; [left; left; reflexivity|].
    destruct (IH k v p H) as [H1|H1]; [left; right; exact H1|right; exact H1].
Qed.

Lemma aget_in {K V} (keqb : K -> K -> bool) : forall (d : list (K * V)) k v,
  aget keqb d k = Some v -> exists p, In p d /\ snd p = v.
Proof.
  induction d as [|[k' v'] d IH]; intros k v H; cbn [aget] in H; [discriminate|].
  destruct (keqb k k') eqn:E.
  - injection H as <-. exists (k', v'). split; [left|]; reflexivity.
  - destruct (IH k v H) as (p & Hp & Hv). exists p. split; [right; exact Hp|exact Hv].
Qed.

(* ================================================================== *)
(* 3. the junctions of a list of input scaffolds                       *)
(* ================================================================== *)
Definition adjacency_of (c : cfg) (input : list (str * list row)) (j : junction) : Prop :=
  exists isc js, In isc input /\ junction_set c (snd isc) = Ok js /\ In j js.

Lemma junction_set_no_frags c rows : frags_of rows = [] -> junction_set c rows = Ok [].
Proof.
  intro H. unfold junction_set, scaffold_junctions. rewrite H. cbn [bind].
  destruct (fix_canon_junction c); reflexivity.
Qed.

Definition ijp_step (c : cfg) (acc : list (option str * list junction)) (isc : str * list row)
  : res (list (option str * list junction)) :=
  let '(_, rows) := isc in
  match frags_of rows with
  | [] => Ok acc
  | f :: _ =>
      let k := asm_prefix_of (f_name f) in
      do js <- junction_set c rows;
      let old := match aget (opt_eqb str_eqb) acc k with Some l => l | None => [] end in
      Ok (aset (opt_eqb str_eqb) acc k (union_j old js))
  end.

Lemma ijp_unfold c input : input_junctions_by_prefix c input = foldM (ijp_step c) input [].
Proof. reflexivity. Qed.

Lemma ijp_step_spec c acc name rows acc' :
  ijp_step c acc (name, rows) = Ok acc' -> values_nodup acc ->
  exists js, junction_set c rows = Ok js /\ values_nodup acc'
    /\ forall j, in_some_value acc' j <-> in_some_value acc j \/ In j js.
Proof.
  intros H Hnd. cbn [ijp_step] in H. destruct (frags_of rows) as [|f t] eqn:F.
  - injection H as <-. exists []. split; [apply junction_set_no_frags; exact F|].
    split; [exact Hnd|]. intro j. split; [intro Hj; left; exact Hj|intros [Hj|[]]; exact Hj].
  - destruct (junction_set c rows) as [js|e] eqn:J; cbn [bind] in H; [|discriminate].
    injection H as <-. exists js. split; [reflexivity|].
    pose proof (junction_set_nodup _ _ _ J) as Njs.
    set (k := asm_prefix_of (f_name f)).
    set (old := match aget (opt_eqb str_eqb) acc k with Some l => l | None => [] end).
    assert (Hold : NoDup old /\ forall j, In j old -> in_some_value acc j).
    { unfold old. destruct (aget (opt_eqb str_eqb) acc k) as [l|] eqn:G.
      - destruct (aget_in _ _ _ _ G) as (p & Hp & Hv). split.
        + rewrite <- Hv. apply Hnd. exact Hp.
        + intros j Hj. exists p. split; [exact Hp|]. rewrite Hv. exact Hj.
      - split; [constructor|intros j []]. }
    destruct Hold as [Nold Iold]. split.
    + intros p Hp. apply aset_in_inv in Hp. destruct Hp as [Hp|Hp].
      * apply Hnd. exact Hp.
      * rewrite Hp. apply union_j_nodup; assumption.
    + intro j. split.
      * intros (p & Hp & Hj). apply aset_in_inv in Hp. destruct Hp as [Hp|Hp].
        -- left. exists p. split; assumption.
        -- rewrite Hp in Hj. apply union_j_in in Hj. destruct Hj as [Hj|Hj].
           ++ left. apply Iold. exact Hj.
           ++ right. exact Hj.
      * destruct (aset_has (opt_eqb str_eqb) acc k (union_j old js)) as (q & Hq & Hqv).
        intros [(p & Hp & Hj)|Hj].
        -- destruct (aset_keep (opt_eqb str_eqb) acc k (union_j old js) p Hp) as [Hk|Hk].
           ++ exists p. split; assumption.
           ++ exists q. split; [exact Hq|]. rewrite Hqv. apply union_j_in. left.
              unfold old. fold k. rewrite Hk. exact Hj.
        -- exists q. split; [exact Hq|]. rewrite Hqv. apply union_j_in. right. exact Hj.
Qed.

Lemma ijp_fold_spec c : forall input acc r,
  foldM (ijp_step c) input acc = Ok r -> values_nodup acc ->
  values_nodup r
  /\ (forall isc, In isc input -> exists js, junction_set c (snd isc) = Ok js)
  /\ forall j, in_some_value r j <-> in_some_value acc j \/ adjacency_of c input j.
Proof.
  induction input as [|[name rows] input IH]; intros acc r H Hnd; cbn [foldM] in H.
  - injection H as <-. split; [exact Hnd|]. split; [intros isc []|].
    intro j. split; [intro Hj; left; exact Hj|].
    intros [Hj|(isc & js & [] & _)]. exact Hj.
  - destruct (ijp_step c acc (name, rows)) as [acc'|e] eqn:S; cbn [bind] in H; [|discriminate].
    destruct (ijp_step_spec _ _ _ _ _ S Hnd) as (js & J & Nd' & I').
    destruct (IH acc' r H Nd') as (Nr & Oks & Ir). split; [exact Nr|]. split.
    + intros isc [<-|Hi]; [exists js; exact J|apply Oks; exact Hi].
    + intro j. rewrite Ir, I'. unfold adjacency_of. split.
      * intros [[Hj|Hj]|(isc & js' & Hi & J' & Hj)].
        -- left. exact Hj.
        -- right. exists (name, rows), js. split; [left; reflexivity|]. split; assumption.
        -- right. exists isc, js'. split; [right; exact Hi|]. split; assumption.
      * intros [Hj|(isc & js' & [<-|Hi] & J' & Hj)].
        -- left. left. exact Hj.
        -- left. right. cbn [snd] in J'. rewrite J in J'. injection J' as <-. exact Hj.
        -- right. exists isc, js'. split; [exact Hi|]. split; assumption.
Qed.

Theorem input_junctions_spec c input ijs :
  input_junctions_by_prefix c input = Ok ijs ->
  values_nodup ijs
  /\ (forall isc, In isc input -> exists js, junction_set c (snd isc) = Ok js)
  /\ forall j, in_some_value ijs j <-> adjacency_of c input j.
Proof.
  intro H. rewrite ijp_unfold in H.
  destruct (ijp_fold_spec c input [] ijs H) as (N & O & I); [intros p []|].
  split; [exact N|]. split; [exact O|]. intro j. rewrite I.
  split; [intros [(p & [] & _)|Hj]; exact Hj|intro Hj; right; exact Hj].
Qed.

(* ================================================================== *)
(* 4. the junctions of the output assemblies                           *)
(* ================================================================== *)
Definition sc_adjacency_of (c : cfg) (scs : list scaffold) (j : junction) : Prop :=
  exists sc js, In sc scs /\ junction_set c (sc_rows sc) = Ok js /\ In j js.

Lemma asm_junctions_gen c : forall scs acc r,
  foldM (fun acc sc => do js <- junction_set c (sc_rows sc); Ok (union_j acc js)) scs acc = Ok r ->
  NoDup acc ->
  NoDup r /\ forall j, In j r <-> In j acc \/ sc_adjacency_of c scs j.
Proof.
  induction scs as [|sc scs IH]; intros acc r H Na; cbn [foldM] in H.
  - injection H as <-. split; [exact Na|]. intro j. split; [intro Hj; left; exact Hj|].
    intros [Hj|(sc & js & [] & _)]. exact Hj.
  - destruct (junction_set c (sc_rows sc)) as [js|e] eqn:J; cbn [bind] in H; [|discriminate].
    pose proof (junction_set_nodup _ _ _ J) as Njs.
    destruct (IH (union_j acc js) r H (union_j_nodup _ _ Na Njs)) as (Nr & Ir).
    split; [exact Nr|]. intro j. rewrite Ir, union_j_in. unfold sc_adjacency_of. split.
    + intros [[Hj|Hj]|(sc' & js' & Hs & J' & Hj)].
      * left. exact Hj.
      * right. exists sc, js. split; [left; reflexivity|]. split; assumption.
      * right. exists sc', js'. split; [right; exact Hs|]. split; assumption.
    + intros [Hj|(sc' & js' & [<-|Hs] & J' & Hj)].
      * left. left. exact Hj.
      * left. right. rewrite J in J'. injection J' as <-. exact Hj.
      * right. exists sc', js'. split; [exact Hs|]. split; assumption.
Qed.

Lemma asm_junctions_spec c scs r :
  asm_junctions c scs = Ok r -> NoDup r /\ forall j, In j r <-> sc_adjacency_of c scs j.
Proof.
  intro H. destruct (asm_junctions_gen c scs [] r H) as (N & I); [constructor|].
  split; [exact N|]. intro j. rewrite I.
  split; [intros [[]|Hj]; exact Hj|intro Hj; right; exact Hj].
Qed.

Definition asms_adjacency_of (c : cfg) (asms : list out_asm) (j : junction) : Prop :=
  exists a sc js, In a asms /\ In sc (oa_scaffolds a)
                  /\ junction_set c (sc_rows sc) = Ok js /\ In j js.

Lemma output_junctions_spec c : forall asms ojs,
  mapM (fun a => do js <- asm_junctions c (oa_scaffolds a); Ok (oa_key a, js)) asms = Ok ojs ->
  values_nodup ojs /\ forall j, in_some_value ojs j <-> asms_adjacency_of c asms j.
Proof.
  induction asms as [|a asms IH]; intros ojs H; cbn [mapM] in H.
  - injection H as <-. split; [intros p []|]. intro j.
    split; [intros (p & [] & _)|intros (a & sc & js & [] & _)].
  - destruct (asm_junctions c (oa_scaffolds a)) as [js|e] eqn:A; cbn [bind] in H; [|discriminate].
    match type of H with context [mapM ?f asms] => destruct (mapM f asms) as [rest|e] eqn:M end;
      cbn [bind] in H; [|discriminate].
    injection H as <-. destruct (IH rest eq_refl) as (Nr & Ir).
    destruct (asm_junctions_spec _ _ _ A) as (Njs & Ijs). split.
    + intros p [<-|Hp]; [exact Njs|apply Nr; exact Hp].
    + intro j. unfold in_some_value, asms_adjacency_of. split.
      * intros (p & [<-|Hp] & Hj).
        -- cbn [snd] in Hj. apply Ijs in Hj. destruct Hj as (sc & js' & Hs & J & Hj).
           exists a, sc, js'. split; [left; reflexivity|]. repeat split; assumption.
        -- assert (Hin : in_some_value rest j) by (exists p; split; assumption).
           apply Ir in Hin. destruct Hin as (a' & sc & js' & Ha & Hs & J & Hj').
           exists a', sc, js'. split; [right; exact Ha|]. repeat split; assumption.
      * intros (a' & sc & js' & [<-|Ha] & Hs & J & Hj).
        -- exists (oa_key a, js). split; [left; reflexivity|]. cbn [snd]. apply Ijs.
           exists sc, js'. repeat split; assumption.
        -- assert (Hin : in_some_value rest j).
           { apply Ir. exists a', sc, js'. repeat split; assumption. }
           destruct Hin as (p & Hp & Hj'). exists p. split; [right; exact Hp|exact Hj'].
Qed.

(* ================================================================== *)
(* 5. [make_stats]: what the two totals count                          *)
(* ================================================================== *)
Theorem make_stats_breaks_joins c input asms breaks joins per :
  make_stats c input asms = Ok (breaks, joins, per) ->
  exists broken joined : list junction,
    NoDup broken /\ NoDup joined
    /\ (forall j, In j broken <-> adjacency_of c input j /\ ~ asms_adjacency_of c asms j)
    /\ (forall j, In j joined <-> asms_adjacency_of c asms j /\ ~ adjacency_of c input j)
    /\ breaks = zlen broken /\ joins = zlen joined.
Proof.
  intro H. unfold make_stats in H.
  destruct (input_junctions_by_prefix c input) as [ijs|e] eqn:I; cbn [bind] in H; [|discriminate].
  match type of H with context [mapM ?f asms] => destruct (mapM f asms) as [ojs|e] eqn:M end;
    cbn [bind] in H; [|discriminate].
  destruct (input_junctions_spec _ _ _ I) as (Ni & _ & Ii).
  destruct (output_junctions_spec _ _ _ M) as (No & Io).
  set (input_set := fold_left (fun acc p => union_j acc (snd p)) ijs []) in *.
  set (output_set := fold_left (fun acc p => union_j acc (snd p)) ojs []) in *.
  assert (Iin : forall j, In j input_set <-> adjacency_of c input j).
  { intro j. unfold input_set. rewrite fold_union_in. apply Ii. }
  assert (Iout : forall j, In j output_set <-> asms_adjacency_of c asms j).
  { intro j. unfold output_set. rewrite fold_union_in. apply Io. }
  injection H as Hb Hj _.
  exists (diff_j input_set output_set), (diff_j output_set input_set).
  split; [apply diff_j_nodup, fold_union_nodup, Ni|].
  split; [apply diff_j_nodup, fold_union_nodup, No|].
  split; [intro j; rewrite diff_j_in, Iin, Iout; reflexivity|].
  split; [intro j; rewrite diff_j_in, Iin, Iout; reflexivity|].
  split; symmetry; assumption.
Qed.

(* ================================================================== *)
(* 6. object ids do not matter to junctions                            *)
(* ================================================================== *)
Definition noid (f : frag) : frag :=
  mkFrag 0 (f_name f) (f_start f) (f_end f) (f_strand f) (f_tags f).

Lemma junction_tuple_noid a b : junction_tuple (noid a) (noid b) = junction_tuple a b.
Proof. reflexivity. Qed.

Lemma junction_tuple_same a a' b b' :
  noid a = noid a' -> noid b = noid b' -> junction_tuple a b = junction_tuple a' b'.
Proof.
  intros Ha Hb. rewrite <- (junction_tuple_noid a b), <- (junction_tuple_noid a' b'), Ha, Hb.
  reflexivity.
Qed.

Lemma cons_inj {A} (a b : A) l l' : a :: l = b :: l' -> a = b /\ l = l'.
Proof. intro H. injection H as H1 H2. split; assumption. Qed.

Lemma junctions_of_frags_same : forall t t' f f',
  noid f = noid f' -> map noid t = map noid t' ->
  junctions_of_frags f t = junctions_of_frags f' t'.
Proof.
  induction t as [|g t IH]; intros t' f f' Hf Ht; destruct t' as [|g' t']; cbn [map] in Ht;
    try discriminate; [reflexivity|].
  apply cons_inj in Ht. destruct Ht as [Hg Ht]. cbn [junctions_of_frags].
  rewrite (junction_tuple_same f f' g g' Hf Hg), (IH t' g g' Hg Ht). reflexivity.
Qed.

Lemma junction_set_same c rows rows' :
  map noid (frags_of rows) = map noid (frags_of rows') ->
  junction_set c rows = junction_set c rows'.
Proof.
  intro H. unfold junction_set, scaffold_junctions.
  destruct (frags_of rows) as [|f t]; destruct (frags_of rows') as [|f' t']; cbn [map] in H;
    try discriminate; [reflexivity|].
  apply cons_inj in H. destruct H as [Hf Ht]. rewrite (junctions_of_frags_same t t' f f' Hf Ht). reflexivity.
Qed.

Lemma number_rows_noid : forall rows n,
  map noid (frags_of (fst (number_rows rows n))) = map noid (frags_of rows).
Proof.
  induction rows as [|r rows IH]; intro n; [reflexivity|].
  cbn [number_rows]. specialize (IH (n + 1)).
  destruct r as [f|gp]; destruct (number_rows rows (n + 1)) as [t' n']; cbn [fst] in *.
  - change (frags_of (RF ?x :: ?t)) with (x :: frags_of t). cbn [map]. rewrite IH. reflexivity.
  - change (frags_of (RG gp :: ?t)) with (frags_of t). exact IH.
Qed.

Lemma junction_set_number_rows c rows n :
  junction_set c (fst (number_rows rows n)) = junction_set c rows.
Proof. apply junction_set_same, number_rows_noid. Qed.

Lemma adjacency_of_number_input c : forall input n j,
  adjacency_of c (number_input input n) j <-> adjacency_of c input j.
Proof.
  induction input as [|[name rows] input IH]; intros n j; [reflexivity|].
  cbn [number_input]. pose proof (junction_set_number_rows c rows n) as K.
  destruct (number_rows rows n) as [rows' n']. cbn [fst] in K.
  specialize (IH n' j). unfold adjacency_of in *. split.
  - intros (isc & js & [<-|Hi] & J & Hj).
    + exists (name, rows), js. cbn [snd] in *. rewrite K in J.
      split; [left; reflexivity|]. split; assumption.
    + destruct (proj1 IH) as (isc' & js' & Hi' & J' & Hj'); [exists isc, js; repeat split; assumption|].
      exists isc', js'. split; [right; exact Hi'|]. split; assumption.
  - intros (isc & js & [<-|Hi] & J & Hj).
    + exists (name, rows'), js. cbn [snd] in *. rewrite <- K in J.
      split; [left; reflexivity|]. split; assumption.
    + destruct (proj2 IH) as (isc' & js' & Hi' & J' & Hj'); [exists isc, js; repeat split; assumption|].
      exists isc', js'. split; [right; exact Hi'|]. split; assumption.
Qed.

(* ================================================================== *)
(* 7. through [remap]                                                  *)
(* ================================================================== *)
Lemma assemblies_stats : forall c g prefix input rs o,
  assemblies_with_scaffolds_fused c g prefix input rs = Ok o ->
  make_stats c (number_input input 0) (out_asms o) = Ok (out_breaks o, out_joins o, out_per_asm o).
Proof.
  intros c g prefix input rs o H. unfold assemblies_with_scaffolds_fused in H.
  destruct (fuse_all c g rs) as [f0|]; cbn [bind] in H; [|discriminate].
  match type of H with context [name_chromosomes ?a ?b ?d] => destruct (name_chromosomes a b d) as [fu|] end;
    cbn [bind] in H; [|discriminate].
  match type of H with context [mapM ?f ?l] => destruct (mapM f l) as [asms|] end; cbn [bind] in H; [|discriminate].
  match type of H with context [make_stats ?a ?b ?d] =>
    destruct (make_stats a b d) as [[[br jo] per]|] eqn:MS end;
    cbn [bind] in H; [|discriminate].
  injection H as <-. cbn [out_asms out_breaks out_joins out_per_asm]. exact MS.
Qed.

Lemma remap_stats : forall c g prefix bpt input pretext o,
  remap c g prefix bpt input pretext = Ok o ->
  make_stats c (number_input input 0) (out_asms o) = Ok (out_breaks o, out_joins o, out_per_asm o).
Proof.
  intros c g prefix bpt input pretext o H. unfold remap in H.
  destruct (remap_to_input c g prefix bpt input pretext) as [rs|] eqn:R; cbn [bind] in H; [|discriminate].
  exact (assemblies_stats _ _ _ _ _ _ H).
Qed.

(* for every configuration of the model, not only the repaired one *)
Theorem breaks_joins_any_cfg : forall c g prefix bpt input pretext o,
  remap c g prefix bpt input pretext = Ok o ->
  exists broken joined : list junction,
    NoDup broken /\ NoDup joined
    /\ (forall j, In j broken <-> adjacency_of c input j /\ ~ asms_adjacency_of c (out_asms o) j)
    /\ (forall j, In j joined <-> asms_adjacency_of c (out_asms o) j /\ ~ adjacency_of c input j)
    /\ out_breaks o = zlen broken /\ out_joins o = zlen joined.
Proof.
  intros c g prefix bpt input pretext o H.
  destruct (make_stats_breaks_joins _ _ _ _ _ _ (remap_stats _ _ _ _ _ _ _ H))
    as (broken & joined & Nb & Nj & Ib & Ij & Eb & Ej).
  exists broken, joined. split; [exact Nb|]. split; [exact Nj|].
  split; [intro j; rewrite Ib, adjacency_of_number_input; reflexivity|].
  split; [intro j; rewrite Ij, adjacency_of_number_input; reflexivity|].
  split; assumption.
Qed.

Theorem breaks_joins_end_to_end : breaks_joins_statement.
Proof.
  intros g prefix bpt input pretext o H.
  exact (breaks_joins_any_cfg repaired g prefix bpt input pretext o H).
Qed.

(* ================================================================== *)
(* 8. reversing one input scaffold changes nothing                     *)
(* ================================================================== *)
Lemma neighbour_exists {A} (l : list A) x : (2 <= length l)%nat -> In x l ->
  exists y, adjacent l x y \/ adjacent l y x.
Proof.
  intros Hlen Hx. apply in_split in Hx. destruct Hx as (l1 & l2 & ->).
  destruct l2 as [|y l2].
  - destruct (exists_last (l := l1)) as (l1' & y & ->).
    + intros ->. cbn [app length] in Hlen. lia.
    + exists y. right. exists l1', []. rewrite <- app_assoc. reflexivity.
  - exists y. left. exists l1, l2. reflexivity.
Qed.

Lemma junction_set_short c rows : (length (frags_of rows) <= 1)%nat -> junction_set c rows = Ok [].
Proof.
  intro H. unfold junction_set, scaffold_junctions.
  destruct (frags_of rows) as [|f [|g t]]; cbn [junctions_of_frags bind].
  - destruct (fix_canon_junction c); reflexivity.
  - destruct (fix_canon_junction c); reflexivity.
  - cbn [length] in H. lia.
Qed.

Lemma junction_set_ok_pm c rows js : (2 <= length (frags_of rows))%nat ->
  junction_set c rows = Ok js -> Forall pm (frags_of rows).
Proof.
  intros Hlen J. destruct (junction_set_in _ _ _ J) as (l & S & _).
  unfold scaffold_junctions in S. apply Forall_forall. intros x Hx.
  destruct (neighbour_exists _ x Hlen Hx) as (y & Hadj).
  destruct (frags_of rows) as [|f t]; [destruct Hx|].
  destruct Hadj as [Hadj|Hadj].
  - exact (proj1 (junctions_of_frags_ok_inv t f l S x y Hadj)).
  - exact (proj2 (junctions_of_frags_ok_inv t f l S y x Hadj)).
Qed.

(* no hypothesis on the strands: whenever the junction set of a scaffold
   exists, so does that of the reversed scaffold, with the same members *)
Theorem junction_set_reverse_total : forall rows js,
  junction_set repaired rows = Ok js ->
  exists jr, junction_set repaired (rows_reverse rows) = Ok jr /\ forall j, In j js <-> In j jr.
Proof.
  intros rows js J. destruct (Nat.le_gt_cases (length (frags_of rows)) 1) as [Hs|Hl].
  - exists []. rewrite (junction_set_short repaired rows Hs) in J. injection J as <-. split.
    + apply junction_set_short. rewrite frags_of_reverse, map_length, rev_length. exact Hs.
    + intro j. reflexivity.
  - assert (Hpm : Forall pm (frags_of rows)) by (apply (junction_set_ok_pm repaired rows js); [lia|exact J]).
    destruct (junction_set_ok repaired (rows_reverse rows) (Forall_pm_reverse rows Hpm)) as (jr & Jr).
    exists jr. split; [exact Jr|]. exact (junction_set_reverse rows js jr Hpm J Jr).
Qed.

Lemma input_adjacency_reverse_incl l1 l2 name name' rows j :
  input_adjacency (l1 ++ (name, rows) :: l2) j ->
  input_adjacency (l1 ++ (name', rows_reverse rows) :: l2) j.
Proof.
  intros (isc & js & Hi & J & Hj). apply in_app_or in Hi. destruct Hi as [Hi|[<-|Hi]].
  - exists isc, js. split; [apply in_or_app; left; exact Hi|]. split; assumption.
  - cbn [snd] in J. destruct (junction_set_reverse_total rows js J) as (jr & Jr & E).
    exists (name', rows_reverse rows), jr. split; [apply in_or_app; right; left; reflexivity|].
    split; [exact Jr|]. apply E. exact Hj.
  - exists isc, js. split; [apply in_or_app; right; right; exact Hi|]. split; assumption.
Qed.

(* the input scaffold [rows] presented in the other direction (possibly under
   another name): the same input adjacencies *)
Theorem input_adjacency_reverse : forall l1 l2 name name' rows j,
  input_adjacency (l1 ++ (name, rows) :: l2) j <->
  input_adjacency (l1 ++ (name', rows_reverse rows) :: l2) j.
Proof.
  intros l1 l2 name name' rows j. split; [apply input_adjacency_reverse_incl|].
  intro H. apply (input_adjacency_reverse_incl l1 l2 name' name (rows_reverse rows) j) in H.
  rewrite rows_reverse_involutive in H. exact H.
Qed.

(* hence the breaks and joins reported for a run are just as well the breaks and
   joins against the input with one scaffold read in the other direction *)
Corollary breaks_joins_reversal_invariant : forall g prefix bpt l1 name rows l2 pretext o,
  remap repaired g prefix bpt (l1 ++ (name, rows) :: l2) pretext = Ok o ->
  exists broken joined : list junction,
    NoDup broken /\ NoDup joined
    /\ (forall j, In j broken <->
          input_adjacency (l1 ++ (name, rows_reverse rows) :: l2) j /\ ~ output_adjacency o j)
    /\ (forall j, In j joined <->
          output_adjacency o j /\ ~ input_adjacency (l1 ++ (name, rows_reverse rows) :: l2) j)
    /\ out_breaks o = zlen broken /\ out_joins o = zlen joined.
Proof.
  intros g prefix bpt l1 name rows l2 pretext o H.
  destruct (breaks_joins_end_to_end g prefix bpt _ pretext o H)
    as (broken & joined & Nb & Nj & Ib & Ij & Eb & Ej).
  exists broken, joined. split; [exact Nb|]. split; [exact Nj|].
  split; [intro j; rewrite Ib, (input_adjacency_reverse l1 l2 name name rows j); reflexivity|].
  split; [intro j; rewrite Ij, (input_adjacency_reverse l1 l2 name name rows j); reflexivity|].
  split; assumption.
Qed.

(* ================================================================== *)
(* 9. a concrete run: one adjacency broken, two made                   *)
(* ================================================================== *)
(* input scaffold_1 = A -100- B, scaffold_2 = C; the map puts C between A and
   B: the adjacency A|B is broken, A|C and C|B are made *)
Definition bj_F (nm : string) (a b st : Z) : row :=
  RF (mkFrag (-1) (list_ascii_of_string nm) a b st []).
Arguments bj_F nm%string_scope a b st.
Definition bj_gap : gap := mkGap 200 (s "scaffold").
Definition bj_input : list (str * list row) :=
  [ (s "scaffold_1", [bj_F "ctgA" 1 1000 1; RG (mkGap 100 (s "scaffold")); bj_F "ctgB" 1 1000 1]);
    (s "scaffold_2", [bj_F "ctgC" 1 1000 1]) ].
Definition bj_ptx : list (str * list row) :=
  [ (s "Scaffold_1", [bj_F "scaffold_1" 1 1000 1; RG bj_gap; bj_F "scaffold_2" 1 1000 1; RG bj_gap;
                      bj_F "scaffold_1" 1101 2100 1]) ].
Definition bj_o : outputs :=
  Eval vm_compute in
    match remap repaired bj_gap (s "SUPER_") (10, 1) bj_input bj_ptx with
    | Ok o => o
    | Err _ => mkOut [] 0 0 0 []
    end.
Definition bj_AB : junction := JSISI (s "ctgA") 1000 (s "ctgB") 1.
Definition bj_AC : junction := JSISI (s "ctgA") 1000 (s "ctgC") 1.
Definition bj_CB : junction := JSISI (s "ctgC") 1000 (s "ctgB") 1.

Lemma bj_run : remap repaired bj_gap (s "SUPER_") (10, 1) bj_input bj_ptx = Ok bj_o.
Proof. vm_compute. reflexivity. Qed.

Lemma bj_input_adjacency j : input_adjacency bj_input j <-> j = bj_AB.
Proof.
  split.
  - intros (isc & js & Hi & J & Hj). destruct Hi as [<-|[<-|[]]]; vm_compute in J; injection J as <-.
    + destruct Hj as [<-|[]]. reflexivity.
    + destruct Hj.
  - intros ->. exists (s "scaffold_1", [bj_F "ctgA" 1 1000 1; RG (mkGap 100 (s "scaffold")); bj_F "ctgB" 1 1000 1]),
      [bj_AB]. split; [left; reflexivity|]. split; [vm_compute; reflexivity|left; reflexivity].
Qed.

Lemma bj_output_adjacency j : output_adjacency bj_o j <-> j = bj_AC \/ j = bj_CB.
Proof.
  split.
  - intros (a & sc & js & Ha & Hs & J & Hj). unfold bj_o in Ha. cbn [out_asms In] in Ha.
    destruct Ha as [<-|[]]. cbn [oa_scaffolds In] in Hs. destruct Hs as [<-|[]].
    vm_compute in J. injection J as <-. destruct Hj as [<-|[<-|[]]].
    + left. reflexivity.
    + right. reflexivity.
  - intro H. unfold output_adjacency, bj_o. cbn [out_asms].
    eexists. eexists. exists [bj_AC; bj_CB]. split; [left; reflexivity|]. cbn [oa_scaffolds].
    split; [left; reflexivity|]. split; [vm_compute; reflexivity|].
    destruct H as [->| ->]; [left|right; left]; reflexivity.
Qed.

Example breaks_joins_instance :
  remap repaired bj_gap (s "SUPER_") (10, 1) bj_input bj_ptx = Ok bj_o
  /\ out_breaks bj_o = 1 /\ out_joins bj_o = 2
  /\ exists broken joined : list junction,
       NoDup broken /\ NoDup joined
       /\ (forall j, In j broken <-> j = bj_AB)
       /\ (forall j, In j joined <-> j = bj_AC \/ j = bj_CB)
       /\ zlen broken = 1 /\ zlen joined = 2.
Proof.
  split; [exact bj_run|]. split; [reflexivity|]. split; [reflexivity|].
  destruct (breaks_joins_end_to_end _ _ _ _ _ _ bj_run)
    as (broken & joined & Nb & Nj & Ib & Ij & Eb & Ej).
  exists broken, joined. split; [exact Nb|]. split; [exact Nj|]. split; [|split; [|split]].
  - intro j. rewrite Ib, bj_input_adjacency, bj_output_adjacency. split.
    + intros [H _]. exact H.
    + intros ->. split; [reflexivity|]. intros [H|H]; discriminate H.
  - intro j. rewrite Ij, bj_input_adjacency, bj_output_adjacency. split.
    + intros [H _]. exact H.
    + intro H. split; [exact H|]. intros ->. destruct H as [H|H]; discriminate H.
  - rewrite <- Eb. reflexivity.
  - rewrite <- Ej. reflexivity.
Qed.

Print Assumptions breaks_joins_reversal_invariant.
Print Assumptions breaks_joins_instance.
Print Assumptions breaks_joins_end_to_end.
