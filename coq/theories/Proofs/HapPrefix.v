(* C09: the haplotype an unplaced scaffold belongs to is read off its name:
   re.search(r"^([^_]+)_.+_\d+$", name) -- "Hap2_scaffold_17" belongs to Hap2. *)
From Coq Require Import ZArith List Bool Ascii String Lia.
From Tola Require Import Py.Base Model.Fragment Model.Scaffold Model.Namer.
Import ListNotations.
Local Open Scope Z_scope.

Definition us : ascii := "_"%char.
Definition not_us (c : ascii) : bool := negb (Ascii.eqb c us).
Definition not_nl (c : ascii) : bool := negb (Ascii.eqb c (ascii_of_N 10)).

Lemma span'_app (p : ascii -> bool) : forall a x b,
  forallb p a = true -> p x = false -> span' p (a ++ x :: b) = (a, x :: b).
Proof.
  induction a as [|c a IH]; intros x b Ha Hx; cbn [app span'].
  - rewrite Hx. reflexivity.
  - cbn [forallb] in Ha. apply andb_true_iff in Ha as [Hc Ha]. rewrite Hc, (IH x b Ha Hx). reflexivity.
Qed.

Lemma span'_all (p : ascii -> bool) : forall a, forallb p a = true -> span' p a = (a, []).
Proof.
  induction a as [|c a IH]; intro Ha; cbn [span']; [reflexivity|].
  cbn [forallb] in Ha. apply andb_true_iff in Ha as [Hc Ha]. rewrite Hc, (IH Ha). reflexivity.
Qed.

Lemma forallb_rev {A} (p : A -> bool) l : forallb p (List.rev l) = forallb p l.
Proof.
  induction l as [|x l IH]; [reflexivity|]. cbn [List.rev forallb].
  rewrite forallb_app, IH. cbn [forallb]. rewrite andb_true_r, andb_comm. reflexivity.
Qed.

Lemma digit_not_nl c : is_digit c = true -> not_nl c = true.
Proof.
  unfold is_digit, not_nl, code. intro H. apply andb_true_iff in H as [H1 _].
  destruct (Ascii.eqb c (ascii_of_N 10)) eqn:E; [|reflexivity].
  apply Ascii.eqb_eq in E. subst c. vm_compute in H1. discriminate.
Qed.

Lemma digit_not_us c : is_digit c = true -> Ascii.eqb c us = false.
Proof.
  unfold is_digit, code. intro H. apply andb_true_iff in H as [_ H2].
  destruct (Ascii.eqb c us) eqn:E; [|reflexivity].
  apply Ascii.eqb_eq in E. subst c. vm_compute in H2. discriminate.
Qed.

(* every name of the shape <hap>_<anything>_<digits> yields <hap> *)
Theorem hap_prefix_of_shaped_name : forall h mid ds,
  h <> [] -> forallb not_us h = true ->
  mid <> [] -> forallb not_nl mid = true ->
  ds <> [] -> forallb is_digit ds = true ->
  haplotype_prefix_of_name (h ++ us :: mid ++ us :: ds) = Some h.
Proof.
  intros h mid ds Hh Hu Hm Hn Hd Hg. unfold haplotype_prefix_of_name.
  change (fun c => negb (Ascii.eqb c "_"%char)) with not_us.
  rewrite (span'_app not_us h us (mid ++ us :: ds) Hu) by reflexivity.
  destruct h as [|h0 h']; [contradiction|].
  rewrite rev_app_distr. cbn [List.rev]. rewrite <- app_assoc. cbn [app].
  rewrite (span'_app is_digit (List.rev ds) us (List.rev mid)); [|rewrite forallb_rev; exact Hg|reflexivity].
  destruct (List.rev ds) as [|d0 dr] eqn:Ed.
  { apply (f_equal (@List.rev ascii)) in Ed. rewrite rev_involutive in Ed. cbn in Ed. contradiction. }
  change (Ascii.eqb us "_"%char) with true. cbv iota.
  destruct (List.rev mid) as [|m0 mr] eqn:Em.
  { apply (f_equal (@List.rev ascii)) in Em. rewrite rev_involutive in Em. cbn in Em. contradiction. }
  change (fun c => negb (Ascii.eqb c (ascii_of_N 10))) with not_nl.
  rewrite forallb_app. cbn [forallb]. rewrite Hn.
  assert (forallb not_nl ds = true) as ->.
  { rewrite forallb_forall in *. intros c Hc. apply digit_not_nl, Hg, Hc. }
  reflexivity.
Qed.

(* conversely, whatever it returns is the part of the name before its first
   underscore, non-empty, and the name ends in _<digits> *)
Theorem hap_prefix_some_shape : forall name h,
  haplotype_prefix_of_name name = Some h ->
  h <> [] /\ forallb not_us h = true
  /\ exists after, name = h ++ us :: after
     /\ exists mid ds, List.rev after = ds ++ us :: mid /\ ds <> [] /\ forallb is_digit ds = true /\ mid <> [].
Proof.
  intros name h H. unfold haplotype_prefix_of_name in H.
  change (fun c => negb (Ascii.eqb c "_"%char)) with not_us in H.
  assert (SP : forall x a b, span' not_us x = (a, b) ->
             x = a ++ b /\ forallb not_us a = true /\ match b with [] => True | c :: _ => not_us c = false end).
  { induction x as [|c x IH]; intros a b E; cbn [span'] in E.
    - injection E as <- <-. auto.
    - destruct (not_us c) eqn:Ec.
      + destruct (span' not_us x) as [a' b'] eqn:E'. injection E as <- <-.
        destruct (IH a' b' eq_refl) as (-> & Fa & Fb). cbn [app forallb]. rewrite Ec, Fa. auto.
      + injection E as <- <-. cbn. rewrite Ec. auto. }
  assert (SD : forall x a b, span' is_digit x = (a, b) -> x = a ++ b /\ forallb is_digit a = true).
  { induction x as [|c x IH]; intros a b E; cbn [span'] in E.
    - injection E as <- <-. auto.
    - destruct (is_digit c) eqn:Ec.
      + destruct (span' is_digit x) as [a' b'] eqn:E'. injection E as <- <-.
        destruct (IH a' b' eq_refl) as (-> & Fa). cbn [app forallb]. rewrite Ec, Fa. auto.
      + injection E as <- <-. auto. }
  destruct (span' not_us name) as [p rest] eqn:E1.
  destruct (SP name p rest E1) as (En & Fp & Fr).
  destruct p as [|p0 p']; [discriminate|]. destruct rest as [|r0 after]; [discriminate|].
  destruct (span' is_digit (List.rev after)) as [dr r1] eqn:E2.
  destruct (SD _ _ _ E2) as (Er & Fd).
  destruct dr as [|d0 dr']; [discriminate|]. destruct r1 as [|u mid]; [discriminate|].
  destruct (Ascii.eqb u "_"%char) eqn:Eu; [|discriminate].
  destruct mid as [|m0 mid']; [discriminate|].
  destruct (forallb _ after); [|discriminate]. injection H as <-.
  apply Ascii.eqb_eq in Eu. subst u.
  unfold not_us in Fr. apply negb_false_iff, Ascii.eqb_eq in Fr. subst r0.
  split; [discriminate|]. split; [exact Fp|].
  exists after. split; [exact En|]. exists (m0 :: mid'), (d0 :: dr'). repeat split; try discriminate; assumption.
Qed.

(* names without two underscores, or not ending in digits, give nothing *)
Example hap_prefix_examples :
  haplotype_prefix_of_name (s "Hap2_scaffold_17") = Some (s "Hap2")
  /\ haplotype_prefix_of_name (s "HAP1_SUPER_3_unloc_2") = Some (s "HAP1")
  /\ haplotype_prefix_of_name (s "scaffold_17") = None
  /\ haplotype_prefix_of_name (s "ptg000012l") = None
  /\ haplotype_prefix_of_name (s "_x_1") = None
  /\ haplotype_prefix_of_name (s "Hap2_scaffold_17b") = None.
Proof. vm_compute. repeat split; reflexivity. Qed.

Print Assumptions hap_prefix_of_shaped_name.
Print Assumptions hap_prefix_some_shape.
