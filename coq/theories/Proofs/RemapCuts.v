(* The cut counter: (fragments held by the results) + (left-over fragments)
   = (input contigs) + b_cuts.  Counting analogue of the coverage equation of
   RemapHead.v:  #result fragments = sum over found entries of |ids|  before
   the cuts; a cut of a fragment held by m results adds m - 1 to b_cuts and
   replaces rows one for one.  No axioms; qc_partition_ok is not needed. *)
From Tola Require Import Py.Base Py.Sort Model.Fragment Model.Scaffold Model.Lookup
  Model.OverlapResult Model.Namer Model.Remap Model.RemapSpec
  Proofs.BaseLemmas Proofs.Lookup Proofs.OverlapResult Proofs.RemapHead.
From Coq Require Import Lia ZifyBool Permutation.

(* ---------------------------------------------------------------- counts *)
Definition cntR (rows : list row) : Z := Z.of_nat (length (frags_of rows)).
Definition CntS (st : list ovr) (added : list rid) : Z :=
  zsum (fun id => cntR (rows_at st id)) added.
Definition isum (found : list (fkey * (frag * list rid))) : Z :=
  zsum (fun e => zlen (snd (snd e))) found.

Lemma length_flat_map_zsum {A B} (h : A -> list B) l :
  Z.of_nat (length (flat_map h l)) = zsum (fun x => Z.of_nat (length (h x))) l.
Proof. induction l as [|a l IH]; cbn [flat_map zsum length]; [reflexivity|]. rewrite app_length. lia. Qed.

Lemma result_count b : Z.of_nat (length (result_frags b)) = CntS (b_store b) (b_added b).
Proof. rewrite result_frags_alt. apply length_flat_map_zsum. Qed.

Lemma cntR_app a b : cntR (a ++ b) = cntR a + cntR b.
Proof. unfold cntR. rewrite frags_of_app, app_length. lia. Qed.

Lemma cntR_gaps gaps : all_gaps gaps -> cntR gaps = 0.
Proof. intros H. unfold cntR. rewrite frags_of_gaps by exact H. reflexivity. Qed.

Lemma cntR_RF f l : cntR (RF f :: l) = 1 + cntR l.
Proof. unfold cntR. rewrite frags_of_RF. cbn [length]. lia. Qed.

Lemma cntR_single f : cntR [RF f] = 1.
Proof. reflexivity. Qed.

Lemma CntS_map st st' added : map o_rows st = map o_rows st' -> CntS st added = CntS st' added.
Proof.
  intros H. unfold CntS. apply zsum_ext. intros id _. rewrite (rows_at_map _ _ _ H). reflexivity.
Qed.

Lemma CntS_put_notin st id r' added :
  0 <= id -> Forall (fun a => 0 <= a) added -> ~ In id added ->
  CntS (put_ovr st id r') added = CntS st added.
Proof.
  intros H0 Hpos Hn. unfold CntS. apply zsum_ext. intros a Ha.
  unfold rows_at. rewrite get_put_other; [reflexivity | exact H0 | | intros E; subst; contradiction].
  rewrite Forall_forall in Hpos. apply Hpos. exact Ha.
Qed.

Lemma CntS_put st id r r' added :
  NoDup added -> Forall (fun a => 0 <= a) added -> In id added ->
  get_ovr st id = Ok r ->
  CntS (put_ovr st id r') added + cntR (o_rows r) = CntS st added + cntR (o_rows r').
Proof.
  intros Hnd Hpos Hin Hget. induction added as [|a added IH]; [destruct Hin|].
  inversion Hnd as [|? ? Hn Hnd']; subst. inversion Hpos as [|? ? Ha Hpos']; subst.
  destruct Hin as [-> | Hin].
  - unfold CntS. cbn [zsum]. fold (CntS (put_ovr st id r') added). fold (CntS st added).
    rewrite CntS_put_notin by assumption.
    unfold rows_at at 1 2. rewrite (get_put_same _ _ _ _ Hget), Hget. lia.
  - assert (Hne : id <> a) by (intros ->; contradiction).
    assert (H0 : 0 <= id) by (rewrite Forall_forall in Hpos'; apply Hpos'; exact Hin).
    unfold CntS. cbn [zsum]. fold (CntS (put_ovr st id r') added). fold (CntS st added).
    specialize (IH Hnd' Hpos' Hin).
    unfold rows_at at 1 2. rewrite get_put_other by assumption. lia.
Qed.

Lemma CntS_app_old st r added :
  Forall (fun a => 0 <= a < zlen st) added -> CntS (st ++ [r]) added = CntS st added.
Proof.
  intros H. unfold CntS. apply zsum_ext. intros a Ha. rewrite Forall_forall in H.
  unfold rows_at. rewrite get_ovr_app by (apply H; exact Ha). reflexivity.
Qed.

(* replacing a result by one with as many fragments changes no count *)
Lemma rows_at_put_cnt st id r r' : get_ovr st id = Ok r -> cntR (o_rows r') = cntR (o_rows r) ->
  forall a, cntR (rows_at (put_ovr st id r') a) = cntR (rows_at st a).
Proof.
  intros Hget Hc a. unfold rows_at, get_ovr, put_ovr in *.
  destruct (Nat.eq_dec (Z.to_nat id) (Z.to_nat a)) as [E | E].
  - rewrite <- E. destruct (nth_error st (Z.to_nat id)) as [r0|] eqn:En; [|discriminate].
    injection Hget as ->. rewrite set_nth_same by (apply nth_error_Some; congruence). exact Hc.
  - rewrite set_nth_other by exact E. reflexivity.
Qed.

(* pre-cut counting invariant *)
Definition Cnt (b : bstate) : Prop :=
  CntS (b_store b) (b_added b) = isum (b_found b) /\ b_cuts b = 0.

(* ------------------------------------------------------ store_found_one *)
Lemma isum_app a b : isum (a ++ b) = isum a + isum b.
Proof. apply zsum_app. Qed.

Lemma isum_cons k f ids l : isum ((k, (f, ids)) :: l) = zlen ids + isum l.
Proof. reflexivity. Qed.

Lemma store_found_one_cnt id found multi g found' multi' :
  store_found_one id (found, multi) g = (found', multi') -> isum found' = isum found + 1.
Proof.
  unfold store_found_one. intros H.
  destruct (aget key_eqb found (key_of g)) as [[f0 ids]|] eqn:E.
  - destruct (aget_split key_eqb key_eqb_eq _ _ _ E) as (l1 & l2 & Ef & _ & Hs).
    rewrite Hs in H. injection H as <- _. rewrite Ef, !isum_app, !isum_cons.
    unfold zlen. rewrite app_length. cbn [length]. lia.
  - injection H as <- _. rewrite isum_app, isum_cons. unfold isum, zlen. cbn [zsum length]. lia.
Qed.

Lemma store_found_fold_cnt id : forall gs found multi found' multi',
  fold_left (store_found_one id) gs (found, multi) = (found', multi') ->
  isum found' = isum found + Z.of_nat (length gs).
Proof.
  induction gs as [|g gs IH]; intros found multi found' multi' H; cbn [fold_left] in H.
  - injection H as <- _. cbn [length]. lia.
  - destruct (store_found_one id (found, multi) g) as [f1 m1] eqn:E1.
    rewrite (IH _ _ _ _ H), (store_found_one_cnt _ _ _ _ _ _ E1). cbn [length]. lia.
Qed.

(* ---------------------------------------------- one_bait, pretext scaffolds *)
Lemma one_bait_cnt inp err sc_tags orig b bait b' :
  Inv inp b -> Cnt b -> one_bait inp err sc_tags orig b bait = Ok b' -> Cnt b'.
Proof.
  intros (_ & (A1 & A2) & _ & _) (C1 & C2) H. unfold one_bait in H.
  bind_inv H rows Hrows. bind_inv H fo Hfo. destruct fo as [fo|]; [|injection H as <-; split; assumption].
  bind_inv H nl Hnl. destruct nl as [nm lab]. bind_inv H r1 Hr1.
  destruct (o_rows r1) as [|x0 t0] eqn:Er1.
  - injection H as <-. unfold Cnt. cbn [b_store b_added b_found b_cuts]. split; [|exact C2].
    rewrite CntS_app_old by exact A2. exact C1.
  - rewrite <- Er1 in H. injection H as <-. unfold store_fragments_found.
    cbn [b_store b_added b_found b_multi b_namer b_cuts].
    destruct (fold_left (store_found_one (zlen (b_store b))) (frags_of (o_rows r1)) (b_found b, b_multi b))
      as [found' multi'] eqn:Ef.
    unfold Cnt. cbn [b_store b_added b_found b_cuts]. split; [|exact C2].
    rewrite (store_found_fold_cnt _ _ _ _ _ _ Ef). unfold CntS. rewrite zsum_app. cbn [zsum].
    fold (CntS (b_store b ++ [r1]) (b_added b)). rewrite CntS_app_old by exact A2.
    unfold rows_at. rewrite get_ovr_app_new. rewrite C1. unfold cntR. lia.
Qed.

Lemma Cnt_store_map b st' : Cnt b -> map o_rows st' = map o_rows (b_store b) -> Cnt (with_store b st').
Proof.
  intros (C1 & C2) Hm. unfold Cnt. cbn [with_store b_store b_added b_found b_cuts]. split; [|exact C2].
  rewrite (CntS_map _ _ _ Hm). exact C1.
Qed.

Definition IC (inp : list (str * list row)) (b : bstate) : Prop := Inv inp b /\ Cnt b.

Lemma one_pretext_scaffold_cnt inp err b psc b' :
  IC inp b -> one_pretext_scaffold inp err b psc = Ok b' -> IC inp b'.
Proof.
  intros [HI HC] H. split; [eapply one_pretext_scaffold_inv; eassumption|].
  unfold one_pretext_scaffold in H. destruct psc as [pname prows].
  bind_inv H nm Hnm. bind_inv H b1 Hb1. bind_inv H st Hst. injection H as <-.
  apply Cnt_store_map; [|eapply rename_results_rows; exact Hst].
  assert (G : IC inp b1).
  { eapply (foldM_inv _ (IC inp)); [| |exact Hb1].
    - intros s0 a s1 [Hs1 Hs2] Hf. split; [eapply one_bait_inv; eassumption | eapply one_bait_cnt; eassumption].
    - split; [apply (Inv_namer inp b nm); exact HI | exact HC]. }
  apply G.
Qed.

Lemma pretext_cnt inp err pretext nm b1 :
  foldM (one_pretext_scaffold inp err) pretext (mkB [] [] [] [] nm 0) = Ok b1 -> IC inp b1.
Proof.
  intros H. eapply (foldM_inv _ (IC inp)); [| |exact H].
  - intros s0 a s1 Hs Hf. eapply one_pretext_scaffold_cnt; eassumption.
  - split; [apply Inv_init|]. split; reflexivity.
Qed.

(* ------------------------------------------------------------- make_fixes *)
Lemma p_apply_cnt st p st' : pvalid st p -> p_apply st p = Ok st' ->
  exists r r', get_ovr st (pr_rid p) = Ok r /\ st' = put_ovr st (pr_rid p) r'
   /\ cntR (o_rows r) = cntR (o_rows r') + 1.
Proof.
  intros (H0 & r & Hr & Hk) H. unfold p_apply in H. rewrite Hr in H. cbn [bind] in H.
  bind_inv H r' Hr'. injection H as <-. exists r, r'. split; [exact Hr|]. split; [reflexivity|].
  destruct (pr_kind p).
  - destruct Hk as (t & Et). destruct (discard_start_rows _ _ Hr') as (d & gaps & E & Hg).
    rewrite E in Et. injection Et as -> _. rewrite E.
    rewrite cntR_RF, cntR_app, (cntR_gaps _ Hg). lia.
  - destruct Hk as (t & Et). destruct (discard_end_rows _ _ Hr') as (d & gaps & E & Hg).
    rewrite E in Et. rewrite app_assoc in Et. apply app_inj_tail in Et. destruct Et as [_ ->].
    rewrite E, !cntR_app, (cntR_gaps _ Hg), cntR_single. lia.
Qed.

Lemma make_fixes_cnt err added : NoDup added -> Forall (fun a => 0 <= a) added ->
  forall pls st st' fixes,
  Forall (Forall (fun p => pvalid st p /\ In (pr_rid p) added)) pls ->
  ForallOrdPairs keys_apart pls ->
  make_fixes err st pls = Ok (st', fixes) ->
  CntS st added = CntS st' added + Z.of_nat (length fixes).
Proof.
  intros Hnd Hadd. induction pls as [|pl pls IH]; intros st st' fixes Hv Hop H; cbn [make_fixes] in H.
  - injection H as <- <-. cbn [length]. lia.
  - bind_inv H r1 Hr1. destruct r1 as [st1 fx]. bind_inv H r2 Hr2. destruct r2 as [st2 fxs].
    injection H as <- <-.
    inversion Hv as [|? ? Hvpl Hvpls]; subst. inversion Hop as [|? ? Hap Hop']; subst.
    apply fix_one_cases in Hr1. destruct Hr1 as [(-> & ->) | (p & -> & Hpin & Happ)].
    + apply (IH _ _ _ Hvpls Hop' Hr2).
    + rewrite Forall_forall in Hvpl. destruct (Hvpl p Hpin) as (Hpv & Hpa).
      destruct (p_apply_cnt _ _ _ Hpv Happ) as (r & r' & Hr & Est & Hc).
      assert (Hv1 : Forall (Forall (fun q => pvalid st1 q /\ In (pr_rid q) added)) pls).
      { rewrite Forall_forall in *. intros pl' Hpl'. specialize (Hvpls pl' Hpl'). specialize (Hap pl' Hpl').
        rewrite Forall_forall in *. intros q Hq. destruct (Hvpls q Hq) as (Q1 & Q2). split; [|exact Q2].
        eapply pvalid_pres; [exact Q1 | exact Hpv | | exact Happ].
        intros E. apply (Hap p q Hpin Hq). symmetry. exact E. }
      pose proof (IH _ _ _ Hv1 Hop' Hr2) as G.
      pose proof (CntS_put st (pr_rid p) r r' added Hnd Hadd Hpa Hr) as Hcp.
      rewrite <- Est in Hcp. cbn [length]. lia.
Qed.

(* ------------------------------------------------------------ bookkeeping *)
Lemma bookkeeping_cnt : forall fixes found multi found' multi',
  NoDup (map pkey fixes) -> Forall (fix_booked found multi) fixes ->
  foldM apply_fix_bookkeeping fixes (found, multi) = Ok (found', multi') ->
  isum found = isum found' + Z.of_nat (length fixes).
Proof.
  induction fixes as [|p fixes IH]; intros found multi found' multi' Hnd Hb H; cbn [foldM] in H.
  - injection H as <- _. cbn [length]. lia.
  - bind_inv H acc Hacc. destruct acc as [found1 multi1].
    inversion Hnd as [|? ? Hnk Hnd']; subst. inversion Hb as [|? ? Hbp Hb']; subst.
    destruct Hbp as (Hkm & ids & Hget & Hrid).
    unfold apply_fix_bookkeeping in Hacc. fold (pkey p) in Hacc.
    assert (Ex : existsb (key_eqb (pkey p)) multi = true) by (apply existsb_key; exact Hkm).
    rewrite Ex, Hget in Hacc. rewrite (existsb_Zeqb _ _ Hrid) in Hacc.
    destruct (aget_split key_eqb key_eqb_eq _ _ _ Hget) as (l1 & l2 & Ef & Hn1 & Hs).
    rewrite Hs in Hacc. injection Hacc as <- <-.
    set (ids' := remove_first Z.eqb (pr_rid p) ids) in *.
    assert (Hlen : S (length ids') = length ids) by (apply remove_first_length; apply existsb_Zeqb; exact Hrid).
    clearbody ids'.
    set (multi1 := if zlen ids' <=? 1 then filter (fun k' => negb (key_eqb (pkey p) k')) multi else multi) in *.
    assert (Hother : forall k', k' <> pkey p -> In k' multi -> In k' multi1).
    { intros k' Hk' Hin. unfold multi1. destruct (zlen ids' <=? 1); [|exact Hin].
      apply filter_In. split; [exact Hin|].
      assert (E : key_eqb (pkey p) k' = false) by (apply key_eqb_neq; congruence). rewrite E. reflexivity. }
    assert (Hb1 : Forall (fix_booked (l1 ++ (pkey p, (pr_frag p, ids')) :: l2) multi1) fixes).
    { rewrite Forall_forall in *. intros q Hq. destruct (Hb' q Hq) as (B1 & ids2 & B2 & B3).
      assert (Hqk : pkey q <> pkey p).
      { intros E. apply Hnk. rewrite <- E. apply in_map. exact Hq. }
      split; [apply Hother; assumption|]. exists ids2. split; [|exact B3].
      pose proof (aget_aset_other key_eqb key_eqb_eq found (pkey p) (pkey q) (pr_frag p, ids') Hqk) as Ha.
      rewrite Hs, B2 in Ha. exact Ha. }
    pose proof (IH _ _ _ _ Hnd' Hb1 H) as G.
    rewrite Ef. rewrite !isum_app, !isum_cons in *. unfold zlen in *. unfold rid in *. cbn [length]. lia.
Qed.

(* ----------------------------------------------------------- discard_loop *)
Lemma discard_loop_cnt inp : NoDup (map f_id (in_frags inp)) -> forall err fuel b b',
  IC inp b -> discard_loop fuel err b = Ok b' -> IC inp b'.
Proof.
  intros Hids err. induction fuel as [|fuel IH]; intros b b' [HI HC] H; cbn [discard_loop] in H; [discriminate|].
  destruct (b_multi b) as [|k0 m0] eqn:Em; [injection H as <-; split; assumption|].
  rewrite <- Em in H. fold (round_premises b (b_multi b)) in H.
  bind_inv H pls Hpls. bind_inv H r Hr. destruct r as [st fixes].
  pose proof HI as (I1 & (A1 & A2) & HF & I4).
  pose proof HF as (F1 & F2 & F3 & F4). destruct HC as (C1 & C2).
  destruct (round_premises_ok inp Hids b HI _ _ F2 (incl_refl _) Hpls) as (G1 & G2 & _).
  set (pls' := filter (fun pl => match pl with [] => false | _ => true end) pls) in *.
  assert (G1' : Forall (Forall (pgood b)) pls').
  { apply Forall_forall. intros pl Hpl. apply filter_In in Hpl. rewrite Forall_forall in G1. apply G1. tauto. }
  assert (G2' : ForallOrdPairs keys_apart pls') by (apply FOP_filter; exact G2).
  assert (Hv : Forall (Forall (fun p => pvalid (b_store b) p /\ In (pr_rid p) (b_added b))) pls').
  { eapply Forall_impl; [|exact G1']. intros pl Hpl. eapply Forall_impl; [|exact Hpl].
    intros p (P1 & P2 & _). split; assumption. }
  pose proof (AddedOk_pos _ _ (conj A1 A2)) as Hadd.
  destruct (make_fixes_ok inp err _ A1 Hadd _ _ _ _ I1 Hv G2' Hr) as (M1 & M2 & M3 & M4 & M5).
  pose proof (make_fixes_cnt err _ A1 Hadd _ _ _ _ Hv G2' Hr) as MC.
  assert (A2' : Forall (fun a => 0 <= a < zlen st) (b_added b)).
  { unfold zlen. rewrite M2. exact A2. }
  destruct fixes as [|p0 fx0] eqn:Efx.
  - injection H as <-. split.
    + unfold Inv. cbn [with_store b_store b_added b_found b_multi].
      split; [exact M1|]. split; [split; assumption|]. split; [exact HF|].
      intros n x. rewrite <- I4, (M3 n x). cbn [map zsum]. lia.
    + unfold Cnt. cbn [with_store b_store b_added b_found b_cuts]. split; [|exact C2].
      cbn [length] in MC. lia.
  - rewrite <- Efx in *. clear Efx.
    bind_inv H fm Hfm. destruct fm as [found' multi'].
    assert (Hb : Forall (fix_booked (b_found b) (b_multi b)) fixes).
    { apply Forall_forall. intros p Hp. destruct (M4 p Hp) as (pl & Hpl & Hin).
      rewrite Forall_forall in G1'. specialize (G1' pl Hpl). rewrite Forall_forall in G1'.
      apply (G1' p Hin). }
    destruct (bookkeeping_ok inp _ _ _ _ _ _ HF M5 Hb Hfm) as (B1 & B2).
    pose proof (bookkeeping_cnt _ _ _ _ _ M5 Hb Hfm) as BC.
    eapply IH; [|exact H]. split.
    + unfold Inv. cbn [b_store b_added b_found b_multi].
      split; [exact M1|]. split; [split; assumption|]. split; [exact B1|].
      intros n x. pose proof (I4 n x). pose proof (M3 n x). pose proof (B2 n x). lia.
    + unfold Cnt. cbn [b_store b_added b_found b_cuts]. split; [lia | exact C2].
Qed.

(* --------------------------------------------------------------- the cuts *)
Lemma trim_fragment_cnt r f ks ke new r' :
  trim_fragment r f ks ke = Ok (new, r') -> cntR (o_rows r') = cntR (o_rows r).
Proof.
  intros H. unfold trim_fragment in H. bind_inv H r0 Hr0. cbv zeta in H. bind_inv H rl Hrl.
  set (at_start := row_is r0 f) in *. set (at_end := row_is rl f) in *.
  destruct (negb (at_start || at_end)) eqn:Eat; [discriminate|].
  bind_inv H nw Hnw. injection H as _ <-. cbn [set_span_rows o_rows].
  apply py_nth_0_inv in Hr0. destruct Hr0 as (t0 & E0).
  apply py_nth_m1_inv in Hrl. destruct Hrl as (tl & El).
  destruct at_end eqn:Ee.
  - apply row_is_true in Ee. destruct Ee as (g & -> & _).
    rewrite El, set_last_app, !cntR_app, !cntR_single. reflexivity.
  - assert (Es : at_start = true) by (destruct at_start; [reflexivity | discriminate]).
    apply row_is_true in Es. destruct Es as (g & -> & _).
    rewrite E0. cbn [set_nth]. rewrite !cntR_RF. reflexivity.
Qed.

Lemma trim_all_cnt c f : forall ids st i last st' subs,
  trim_all c st f ids i last = Ok (st', subs) ->
  length subs = length ids /\ forall a, cntR (rows_at st' a) = cntR (rows_at st a).
Proof.
  induction ids as [|id ids IH]; intros st i last st' subs H; cbn [trim_all] in H.
  - injection H as <- <-. split; reflexivity.
  - cbv zeta in H. bind_inv H r Hr. bind_inv H fr Hfr. destruct fr as [new r'].
    bind_inv H rest Hrest. destruct rest as [st2 subs2]. cbn [fst snd] in H. injection H as <- <-.
    destruct (IH _ _ _ _ _ Hrest) as (G1 & G2). split; [cbn [length]; rewrite G1; reflexivity|].
    intros a. rewrite G2. apply (rows_at_put_cnt _ _ r); [exact Hr|].
    eapply trim_fragment_cnt. exact Hfr.
Qed.

Lemma cut_fragments_cnt c b k b' : cut_fragments c b k = Ok b' ->
  exists f ids, aget key_eqb (b_found b) k = Some (f, ids)
    /\ b_found b' = b_found b /\ b_added b' = b_added b
    /\ b_cuts b' = b_cuts b + zlen ids - 1
    /\ CntS (b_store b') (b_added b') = CntS (b_store b) (b_added b).
Proof.
  intros H. unfold cut_fragments in H.
  destruct (aget key_eqb (b_found b) k) as [[f ids]|] eqn:Eg; [|discriminate].
  bind_inv H keyed Hkeyed. bind_inv H r Hr. destruct r as [st subs]. bind_inv H u Hu. injection H as <-.
  exists f, ids. cbn [b_store b_added b_found b_cuts].
  destruct (trim_all_cnt _ _ _ _ _ _ _ _ Hr) as (T1 & T2).
  split; [reflexivity|]. split; [reflexivity|]. split; [reflexivity|]. split.
  - unfold zlen. rewrite T1. unfold sort_by_Z. rewrite map_length, stable_sort_length.
    rewrite (mapM_ok_length _ _ _ Hkeyed). unfold rid. lia.
  - unfold CntS. apply zsum_ext. intros a _. apply T2.
Qed.

Definition T (todo : list fkey) (found : list (fkey * (frag * list rid))) : Z := zsum (wt todo) found.

Lemma T_step todo found k f ids :
  NoDup (map fst found) -> aget key_eqb found k = Some (f, ids) -> ~ In k todo ->
  T (k :: todo) found = T todo found + (zlen ids - 1).
Proof.
  intros Hnd Hget Hn. destruct (aget_split key_eqb key_eqb_eq _ _ _ Hget) as (l1 & l2 & Ef & _ & _).
  assert (Hne : forall e, In e (l1 ++ l2) -> fst e <> k).
  { rewrite Ef in Hnd. eapply split_keys_ne. exact Hnd. }
  assert (Hsame : forall l, (forall e, In e l -> fst e <> k) -> T (k :: todo) l = T todo l).
  { intros l Hl. unfold T. apply zsum_ext. intros e He. unfold wt. cbn [existsb].
    assert (E : key_eqb (fst e) k = false) by (apply key_eqb_neq; apply Hl; exact He).
    rewrite E. reflexivity. }
  rewrite Ef. unfold T. rewrite !zsum_app. cbn [zsum].
  fold (T (k :: todo) l1) (T todo l1) (T (k :: todo) l2) (T todo l2).
  rewrite (Hsame l1) by (intros e He; apply Hne; apply in_or_app; left; exact He).
  rewrite (Hsame l2) by (intros e He; apply Hne; apply in_or_app; right; exact He).
  unfold wt. cbn [fst snd existsb]. rewrite key_eqb_refl. cbn [orb].
  assert (E : existsb (key_eqb k) todo = false) by (apply existsb_key_false; exact Hn).
  rewrite E. lia.
Qed.

Lemma cut_fold_cnt c : forall todo b b',
  NoDup todo -> NoDup (map fst (b_found b)) -> foldM (cut_fragments c) todo b = Ok b' ->
  b_found b' = b_found b /\ b_added b' = b_added b
  /\ CntS (b_store b') (b_added b') = CntS (b_store b) (b_added b)
  /\ b_cuts b' + T [] (b_found b) = b_cuts b + T todo (b_found b).
Proof.
  induction todo as [|k todo IH]; intros b b' Hnd Hf H; cbn [foldM] in H.
  - injection H as <-. repeat split; reflexivity.
  - bind_inv H b1 Hb1. inversion Hnd as [|? ? Hn Hnd']; subst.
    destruct (cut_fragments_cnt _ _ _ _ Hb1) as (f & ids & Eg & E1 & E2 & E3 & E4).
    rewrite <- E1 in Hf. destruct (IH _ _ Hnd' Hf H) as (G1 & G2 & G3 & G4).
    rewrite E1 in *. rewrite (T_step todo _ k f ids Hf Eg Hn).
    split; [congruence|]. split; [congruence|]. split; [congruence|]. lia.
Qed.

Lemma T_nil found : T [] found = Z.of_nat (length found).
Proof. unfold T. rewrite <- zsum_const_len. apply zsum_ext. intros e _. reflexivity. Qed.

Lemma T_multi inp added found multi : FInv inp added found multi -> T multi found = isum found.
Proof.
  intros (_ & _ & F3 & _). unfold T, isum. apply zsum_ext. intros e He.
  rewrite Forall_forall in F3. destruct (F3 e He) as (_ & _ & _ & K4 & K5).
  unfold wt. destruct (existsb (key_eqb (fst e)) multi) eqn:Ex; [reflexivity|].
  apply existsb_key_false in Ex. unfold zlen.
  assert (E : (length (snd (snd e)) = 1)%nat) by (destruct (le_lt_dec 2 (length (snd (snd e)))); [exfalso; tauto | lia]).
  rewrite E. reflexivity.
Qed.

(* ------------------------------------------- found entries / input contigs *)
Lemma found_count inp b : NoDup (map key_of (in_frags inp)) -> Inv inp b ->
  length (b_found b) = length (filter (is_found b) (in_frags inp)).
Proof.
  intros Hkeys (_ & _ & (F1 & _ & F3 & _) & _).
  rewrite <- (map_length fst (b_found b)), <- (map_length key_of (filter _ _)).
  apply Permutation_length. apply NoDup_Permutation.
  - exact F1.
  - apply NoDup_map_filter. exact Hkeys.
  - intros k. split.
    + intros Hk. apply in_map_iff in Hk. destruct Hk as (e & <- & He).
      rewrite Forall_forall in F3. destruct (F3 e He) as (K1 & K2 & _).
      apply in_map_iff. exists (fst (snd e)). split; [exact K1|]. apply filter_In. split; [exact K2|].
      apply is_found_iff. rewrite K1. apply in_map. exact He.
    + intros Hk. apply in_map_iff in Hk. destruct Hk as (f & <- & Hf). apply filter_In in Hf.
      apply is_found_iff. tauto.
Qed.

Lemma filter_split_length {A} (p : A -> bool) l :
  (length (filter p l) + length (filter (fun x => negb (p x)) l) = length l)%nat.
Proof. induction l as [|x l IH]; cbn [filter length]; [reflexivity|]. destruct (p x); cbn [negb length]; lia. Qed.

(* ------------------------------------------------------------ composition *)
Theorem cuts_spec_head : forall c g prefix bpt input pretext rs,
  input_ok input -> remap_to_input c g prefix bpt input pretext = Ok rs ->
  Z.of_nat (length (result_frags (rs_b rs)))
  + Z.of_nat (length (flat_map (fun sc => frags_of (sc_rows sc)) (rs_left rs)))
  = Z.of_nat (length (in_frags input)) + b_cuts (rs_b rs).
Proof.
  intros c g prefix bpt input pretext rs (Hwf0 & Hkeys0) H.
  set (inp := number_input input 0).
  destruct (number_input_spec input 0) as (Ek & Hpos & Hids). fold inp in Ek, Hpos, Hids.
  assert (Hkeys : NoDup (map key_of (in_frags inp))) by (rewrite Ek; exact Hkeys0).
  assert (Hlen : length (in_frags inp) = length (in_frags input)).
  { rewrite <- (map_length key_of (in_frags inp)), Ek, map_length. reflexivity. }
  unfold remap_to_input in H. destruct (has_dup_names (map fst input)); [discriminate|].
  cbv zeta in H. fold inp in H.
  bind_inv H b1 Hb1. bind_inv H b2 Hb2. bind_inv H b3 Hb3. bind_inv H st Hst. bind_inv H nl Hnl.
  injection H as <-. cbn [rs_b rs_left].
  assert (I1 : IC inp b1) by (eapply pretext_cnt; eassumption).
  assert (I2 : IC inp b2) by (eapply discard_loop_cnt; eassumption).
  destruct I2 as (HI2 & C1 & C2).
  pose proof HI2 as (_ & _ & HF & _). pose proof HF as (F1 & F2 & _).
  unfold cut_remaining_overhangs in Hb3. bind_inv Hb3 b3' Hb3'. injection Hb3 as <-.
  destruct (cut_fold_cnt c _ _ _ F2 F1 Hb3') as (E1 & E2 & E3 & E4).
  rewrite (T_multi _ _ _ _ HF), T_nil in E4.
  rewrite result_count. cbn [with_namer with_store b_store b_added b_found b_cuts] in *.
  rewrite (CntS_map _ _ _ (rename_results_rows _ _ _ Hst)).
  destruct nl as [nm left]. cbn [fst snd].
  pose proof (add_missing_fold _ _ _ _ _ _ _ _ Hnl) as Hl. unfold left_frags in Hl. cbn [flat_map app] in Hl.
  rewrite Hl, E1.
  assert (Hnf : filter (not_found (b_found b2)) (in_frags inp)
                = filter (fun f => negb (is_found b2 f)) (in_frags inp)).
  { apply filter_ext. intros f. unfold not_found, is_found.
    destruct (aget key_eqb (b_found b2) (key_of f)); reflexivity. }
  rewrite Hnf.
  pose proof (found_count inp b2 Hkeys HI2) as Hfc.
  pose proof (filter_split_length (is_found b2) (in_frags inp)) as Hsp.
  rewrite E2 in E3. rewrite E2. unfold rid in *. lia.
Qed.

Print Assumptions cuts_spec_head.
