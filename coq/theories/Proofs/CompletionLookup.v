(* Progress of the first stage of remap_to_input: with baits untagged or tagged Painted only, that
   name existing, non-empty input scaffolds, the fold of one_pretext_scaffold
   over the Pretext scaffolds returns Ok, and registers no haplotig. *)
From Tola Require Import Py.Base Py.Sort Model.Fragment Model.Scaffold Model.Lookup
  Model.OverlapResult Model.Namer Model.Remap Model.RemapSpec
  Proofs.BaseLemmas Proofs.Lookup Proofs.OverlapResult Proofs.RemapHead Proofs.CoreKept.
From Coq Require Import Lia ZifyBool.

(* ---------------------------------------------------------- untagged rows *)
Lemma flat_map_tags_nil' : forall l : list frag,
  Forall (fun f => f_tags f = []) l -> flat_map f_tags l = [].
Proof.
  induction l as [|f l IH]; intro H; [reflexivity|].
  inversion H as [|f' l' Hf Hl]; subst. cbn [flat_map]. rewrite Hf, (IH Hl). reflexivity.
Qed.

Lemma fragment_tags_untagged' rows :
  Forall (fun f => f_tags f = []) (frags_of rows) -> fragment_tags rows = [].
Proof. intro H. unfold fragment_tags. rewrite (flat_map_tags_nil' _ H). reflexivity. Qed.

(* ------------------------------------------------- rows tagged Painted only *)
Definition tags_ok (l : list str) : Prop := l = [] \/ l = [s "Painted"].

Lemma dedup_acc_all_seen (p : str) : forall l seen,
  Forall (eq p) l -> existsb (str_eqb p) seen = true -> dedup_acc str_eqb seen l = [].
Proof.
  induction l as [|x l IH]; intros seen H Hs; [reflexivity|].
  inversion H as [|x' l' Hx Hl]; subst. cbn [dedup_acc]. rewrite Hs. apply IH; assumption.
Qed.

Lemma dedup_all_same (p : str) l : Forall (eq p) l -> dedup str_eqb l = [] \/ dedup str_eqb l = [p].
Proof.
  intro H. unfold dedup. destruct l as [|x l]; [left; reflexivity|].
  inversion H as [|x' l' Hx Hl]; subst. right. cbn [dedup_acc existsb].
  rewrite (dedup_acc_all_seen x l [x] Hl); [reflexivity|].
  cbn [existsb]. rewrite str_eqb_refl. reflexivity.
Qed.

Lemma flat_map_tags_painted : forall l : list frag,
  Forall (fun f => tags_ok (f_tags f)) l -> Forall (eq (s "Painted")) (flat_map f_tags l).
Proof.
  induction l as [|f l IH]; intro H; [constructor|].
  inversion H as [|f' l' Hf Hl]; subst. cbn [flat_map]. apply Forall_app. split; [|exact (IH Hl)].
  destruct Hf as [-> | ->]; repeat constructor.
Qed.

Lemma fragment_tags_painted rows :
  Forall (fun f => tags_ok (f_tags f)) (frags_of rows) -> tags_ok (fragment_tags rows).
Proof. intro H. unfold fragment_tags. apply dedup_all_same, flat_map_tags_painted, H. Qed.

(* ----------------------------------- make_scaffold_name without any tag *)
Lemma make_scaffold_name_untagged' nm name rows f t :
  rows = RF f :: t -> fragment_tags rows = [] ->
  exists nm', make_scaffold_name nm name rows [] = Ok nm'
              /\ nm_unloc_scaffolds nm' = []
              /\ nm_hap_scaffolds nm' = nm_hap_scaffolds nm
              /\ nm_target nm' = nm_target nm.
Proof.
  intros Hrows Htags. unfold make_scaffold_name. rewrite Htags. subst rows.
  cbn [foldM bind ts_hap ts_lc ts_primary ts_name ts_painted ts_rank ts_target truthy andb negb
       first_row_name].
  destruct (haplotype_prefix_of_name (f_name f)) as [p|] eqn:Ehp.
  - destruct (get_set_haplotype (nm_hap_lc nm) p) as [h lc] eqn:Egs.
    cbn [bind]. eexists. split; [reflexivity|].
    cbn [nm_unloc_scaffolds nm_hap_scaffolds nm_target]. repeat split; reflexivity.
  - cbn [bind]. eexists. split; [reflexivity|].
    cbn [nm_unloc_scaffolds nm_hap_scaffolds nm_target]. repeat split; reflexivity.
Qed.

Lemma scan_painted st :
  scan_tag st (s "Painted")
  = Ok (mkScan (ts_name st) (ts_hap st) true (ts_rank st) (ts_primary st) (ts_target st) (ts_lc st)).
Proof. reflexivity. Qed.

(* [tags] = fragment_tags rows, as one_pretext_scaffold passes it *)
Lemma make_scaffold_name_painted nm name rows f t :
  rows = RF f :: t -> tags_ok (fragment_tags rows) ->
  exists nm', make_scaffold_name nm name rows (fragment_tags rows) = Ok nm'
              /\ nm_unloc_scaffolds nm' = []
              /\ nm_hap_scaffolds nm' = nm_hap_scaffolds nm
              /\ nm_target nm' = nm_target nm.
Proof.
  intros Hrows [Htags | Htags].
  - rewrite Htags. exact (make_scaffold_name_untagged' nm name rows f t Hrows Htags).
  - rewrite Htags. unfold make_scaffold_name. subst rows.
    cbn [foldM]. rewrite scan_painted.
    cbn [bind ts_hap ts_lc ts_primary ts_name ts_painted ts_rank ts_target truthy andb negb
         first_row_name].
    destruct (haplotype_prefix_of_name (f_name f)) as [p|] eqn:Ehp.
    + destruct (get_set_haplotype (nm_hap_lc nm) p) as [h lc] eqn:Egs.
      cbn [bind]. eexists. split; [reflexivity|].
      cbn [nm_unloc_scaffolds nm_hap_scaffolds nm_target]. repeat split; reflexivity.
    + cbn [bind]. eexists. split; [reflexivity|].
      cbn [nm_unloc_scaffolds nm_hap_scaffolds nm_target]. repeat split; reflexivity.
Qed.

(* ------------------------------------------------ trim_large_overhangs *)
Lemma first_row_ok r : o_rows r <> [] -> exists x, first_row r = Ok x.
Proof.
  intro H. unfold first_row. destruct (o_rows r) as [|x t]; [congruence|].
  exists x. apply py_nth_first.
Qed.

Lemma last_row_ok r : o_rows r <> [] -> exists x, last_row r = Ok x.
Proof.
  intro H. unfold last_row. destruct (exists_last' (o_rows r)) as [E|(l' & x & E)]; [congruence|].
  rewrite E. exists x. apply py_nth_last.
Qed.

Lemma start_overlap_ok r : o_rows r <> [] -> exists v, start_row_bait_overlap r = Ok v.
Proof.
  intro H. unfold start_row_bait_overlap. destruct (first_row_ok r H) as (x & E).
  rewrite E. cbn [bind]. eexists. reflexivity.
Qed.

Lemma end_overlap_ok r : o_rows r <> [] -> exists v, end_row_bait_overlap r = Ok v.
Proof.
  intro H. unfold end_row_bait_overlap. destruct (last_row_ok r H) as (x & E).
  rewrite E. cbn [bind]. eexists. reflexivity.
Qed.

Lemma discard_start_ok r : o_rows r <> [] -> exists r', discard_start r = Ok r'.
Proof.
  intro H. unfold discard_start. destruct (o_rows r) as [|d t]; [congruence|].
  destruct (pop_gaps_front t (o_start r + row_len d)) as [rows' st]. eexists. reflexivity.
Qed.

Lemma discard_end_ok r : o_rows r <> [] -> exists r', discard_end r = Ok r'.
Proof.
  intro H. unfold discard_end. destruct (rev (o_rows r)) as [|d t] eqn:E.
  - exfalso. apply H. rewrite <- (rev_involutive (o_rows r)), E. reflexivity.
  - destruct (pop_gaps_back_rev t (o_end r - row_len d)) as [rr en]. eexists. reflexivity.
Qed.

Lemma zlen_nonempty {A} (l : list A) : l <> [] -> (zlen l =? 0) = false.
Proof. intro H. destruct l as [|x t]; [congruence|]. unfold zlen. cbn [length]. lia. Qed.

Lemma trim_large_overhangs_ok r e : o_rows r <> [] -> exists r', trim_large_overhangs r e = Ok r'.
Proof.
  intro Hne. unfold trim_large_overhangs.
  destruct ((zlen (o_rows r) =? 1) && (f_len (o_bait r) >? e)) eqn:E0; [eexists; reflexivity|].
  assert (H1 : exists r1,
    (if start_overhang r >? e
     then do ov <- start_row_bait_overlap r; if ov <? e then discard_start r else Ok r
     else Ok r) = Ok r1 /\ (o_rows r1 = [] -> (start_overhang r >? e) = true)).
  { destruct (start_overhang r >? e) eqn:Es.
    - destruct (start_overlap_ok r Hne) as (v & Ev). rewrite Ev. cbn [bind].
      destruct (v <? e) eqn:Ev2.
      + destruct (discard_start_ok r Hne) as (r1 & Er1). exists r1. split; [exact Er1|reflexivity].
      + exists r. split; [reflexivity|reflexivity].
    - exists r. split; [reflexivity|]. intro Hr. congruence. }
  destruct H1 as (r1 & Er1 & Hr1). rewrite Er1. cbn [bind].
  destruct (o_rows r1) as [|x t] eqn:Erows.
  - rewrite (Hr1 eq_refl), (zlen_nonempty _ Hne). cbn [negb andb]. eexists. reflexivity.
  - assert (Hne1 : o_rows r1 <> []) by (rewrite Erows; discriminate).
    destruct (end_overhang r1 >? e) eqn:Ee; [|eexists; reflexivity].
    destruct (end_overlap_ok r1 Hne1) as (v & Ev). rewrite Ev. cbn [bind].
    destruct (v <? e) eqn:Ev2; [|eexists; reflexivity].
    apply discard_end_ok, Hne1.
Qed.

(* ---------------------------------------------------------------- one_bait *)
Lemma aget_str_In {V} : forall (inp : list (str * V)) name,
  In name (map fst inp) -> exists rows, aget str_eqb inp name = Some rows /\ In (name, rows) inp.
Proof.
  induction inp as [|[k v] inp IH]; intros name Hin; cbn [map fst In] in Hin; [contradiction|].
  cbn [aget]. destruct (str_eqb name k) eqn:Ek.
  - apply str_eqb_eq in Ek. subst k. exists v. split; [reflexivity|left; reflexivity].
  - apply str_eqb_neq in Ek. destruct Hin as [Hin|Hin]; [congruence|].
    destruct (IH name Hin) as (rows & Ea & Hr). exists rows. split; [exact Ea|right; exact Hr].
Qed.

Lemma label_untagged nm id tags : exists lab, label_scaffold nm id [] tags = Ok (nm, lab).
Proof. unfold label_scaffold. cbn [mem_str existsb orb]. eexists. reflexivity. Qed.

Lemma label_painted nm id tags : exists lab, label_scaffold nm id [s "Painted"] tags = Ok (nm, lab).
Proof.
  unfold label_scaffold.
  change (mem_str (s "FalseDuplicate") [s "Painted"]) with false.
  change (mem_str (s "Haplotig") [s "Painted"]) with false.
  change (mem_str (s "Unloc") [s "Painted"]) with false.
  cbv iota. eexists. reflexivity.
Qed.

Lemma found_rows_nonempty rows bs be fo :
  lookup_spec rows bs be (Some fo) -> fo_rows fo <> [].
Proof.
  cbn [lookup_spec]. intros (i & j & Hij & Hrows & _). rewrite Hrows. intro H.
  apply (f_equal (@length row)) in H. rewrite firstn_length, skipn_length in H.
  cbn [length] in H. lia.
Qed.

Lemma store_fragments_found_namer b id rows :
  b_namer (store_fragments_found b id rows) = b_namer b.
Proof.
  unfold store_fragments_found.
  destruct (fold_left (store_found_one id) (frags_of rows) (b_found b, b_multi b)) as [found multi].
  reflexivity.
Qed.

Definition inp_ok (inp : list (str * list row)) : Prop :=
  forall name rows, In (name, rows) inp -> rows <> [] /\ pos_rows rows.

Definition bait_ok (inp : list (str * list row)) (b : frag) : Prop :=
  tags_ok (f_tags b) /\ 1 <= f_start b <= f_end b /\ In (f_name b) (map fst inp).

Lemma one_bait_ok inp err tags orig b bait :
  inp_ok inp -> bait_ok inp bait ->
  exists b', one_bait inp err tags orig b bait = Ok b' /\ b_namer b' = b_namer b.
Proof.
  intros Hinp (Htags & Hpos & Hname). unfold one_bait, input_rows.
  destruct (aget_str_In inp (f_name bait) Hname) as (rows & Ea & Hr). rewrite Ea. cbn [bind].
  destruct (Hinp _ _ Hr) as [Hne Hp].
  destruct (find_overlaps_spec rows (f_start bait) (f_end bait) Hne Hp Hpos) as (fo & Efo & Hspec).
  rewrite Efo. cbn [bind]. destruct fo as [fo'|]; [|exists b; split; reflexivity].
  cbv zeta.
  assert (HL : exists lab, label_scaffold (b_namer b) (zlen (b_store b)) (f_tags bait) tags
                           = Ok (b_namer b, lab)).
  { destruct Htags as [-> | ->]; [apply label_untagged | apply label_painted]. }
  destruct HL as (lab & El). rewrite El. cbn [bind].
  destruct (trim_large_overhangs_ok (set_labels (ovr_of_found bait fo') lab orig tags) err)
    as (r1 & E1).
  { cbn [set_labels o_rows ovr_of_found]. exact (found_rows_nonempty _ _ _ _ Hspec). }
  rewrite E1. cbn [bind].
  destruct (o_rows r1) as [|x t] eqn:Erows.
  - eexists. split; [reflexivity|reflexivity].
  - eexists. split; [reflexivity|]. rewrite store_fragments_found_namer. reflexivity.
Qed.

Lemma one_bait_fold_ok inp err tags orig : inp_ok inp ->
  forall baits b, Forall (bait_ok inp) baits ->
  exists b', foldM (one_bait inp err tags orig) baits b = Ok b' /\ b_namer b' = b_namer b.
Proof.
  intro Hinp. induction baits as [|bait baits IH]; intros b Hb; cbn [foldM].
  - exists b. split; reflexivity.
  - inversion Hb as [|x l Hx Hl]; subst.
    destruct (one_bait_ok inp err tags orig b bait Hinp Hx) as (b1 & E1 & Hn1).
    rewrite E1. cbn [bind].
    destruct (IH b1 Hl) as (b2 & E2 & Hn2). exists b2. split; [exact E2|congruence].
Qed.

(* ---------------------------------------------------- one_pretext_scaffold *)
Lemma one_pretext_ok inp err b p :
  inp_ok inp ->
  (exists b0 t, snd p = RF b0 :: t) ->
  Forall (bait_ok inp) (frags_of (snd p)) ->
  exists b1, one_pretext_scaffold inp err b p = Ok b1
             /\ nm_hap_scaffolds (b_namer b1) = nm_hap_scaffolds (b_namer b).
Proof.
  destruct p as [pname prows]. cbn [snd]. intros Hinp (f & t & Hrows) Hb.
  unfold one_pretext_scaffold.
  assert (Ht : tags_ok (fragment_tags prows)).
  { apply fragment_tags_painted. rewrite Forall_forall in Hb |- *. intros g Hg.
    exact (proj1 (Hb g Hg)). }
  cbv zeta.
  destruct (make_scaffold_name_painted (b_namer b) pname prows f t Hrows Ht)
    as (nm' & Em & Hu & Hh & _).
  rewrite Em. cbn [bind].
  destruct (one_bait_fold_ok inp err (fragment_tags prows) pname Hinp (frags_of prows) (with_namer b nm') Hb)
    as (b1 & E1 & Hn).
  rewrite E1. cbn [bind]. rewrite Hn. cbn [with_namer b_namer]. rewrite Hu.
  change (rename_results (b_store b1) []) with (Ok (b_store b1)). cbn [bind].
  eexists. split; [reflexivity|].
  cbn [with_store b_namer]. rewrite Hn. cbn [with_namer b_namer]. exact Hh.
Qed.

(* ------------------------------------------------------------ the fold *)
Lemma pretext_progress inp err pretext b0 :
  (forall name rows, In (name, rows) inp -> rows <> [] /\ pos_rows rows) ->
  Forall (fun p => exists b t, snd p = RF b :: t) pretext ->
  Forall (fun b => tags_ok (f_tags b) /\ 1 <= f_start b <= f_end b /\ In (f_name b) (map fst inp))
         (baits_of pretext) ->
  exists b1, foldM (one_pretext_scaffold inp err) pretext b0 = Ok b1
             /\ nm_hap_scaffolds (b_namer b1) = nm_hap_scaffolds (b_namer b0).
Proof.
  intro Hinp. revert b0. induction pretext as [|p pretext IH]; intros b0 Hshape Hb; cbn [foldM].
  - exists b0. split; reflexivity.
  - inversion Hshape as [|x l Hp Hrest]; subst.
    unfold baits_of in Hb. cbn [flat_map] in Hb. apply Forall_app in Hb. destruct Hb as [Hb1 Hb2].
    destruct (one_pretext_ok inp err b0 p Hinp Hp Hb1) as (b1 & E1 & Hn1).
    rewrite E1. cbn [bind].
    destruct (IH b1 Hrest Hb2) as (b2 & E2 & Hn2). exists b2. split; [exact E2|congruence].
Qed.

Print Assumptions trim_large_overhangs_ok.
Print Assumptions pretext_progress.
