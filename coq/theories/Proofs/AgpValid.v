(* C06: the lines format_agp writes are valid AGP: coordinates tile each object,
   part numbers count from 1, gap / sequence columns are the ones the AGP
   specification asks for, and the writer is total on valid strands. *)
From Tola Require Import Py.Base Py.Dec Model.Fragment Model.Fasta Model.AgpTpf Model.AgpTpfSpec.
From Tola Require Import Proofs.BaseLemmas.
From Coq Require Import Lia ZifyBool.

(* the lines format_agp writes for a scaffold are the rendering of the numeric view *)
Theorem agp_rows_render : forall name rows p i,
  agp_rows name rows p i = mapM (render_num name) (agp_nums rows p i).
Proof.
  intros name rows; induction rows as [|r t IH]; intros p i; [reflexivity|].
  cbn [agp_rows agp_nums mapM]. rewrite IH.
  unfold render_num. cbn [an_beg an_end an_part an_row].
  destruct r; reflexivity.
Qed.

Theorem agp_nums_tiles : forall rows p i, tiles (agp_nums rows p i) (p + 1) (i + 1).
Proof.
  induction rows as [|r t IH]; intros p i; [exact I|].
  cbn [agp_nums tiles an_beg an_end an_part an_row].
  repeat split.
  - destruct r as [f|g]; cbn [row_len]; unfold f_len; lia.
  - apply IH.
Qed.

Lemma last_opt_cons {A} (x : A) l :
  last_opt (x :: l) = match last_opt l with Some y => Some y | None => Some x end.
Proof.
  unfold last_opt. cbn [rev]. destruct (rev l); reflexivity.
Qed.

Lemma last_end_cons x l d : last_end (x :: l) d = last_end l (an_end x).
Proof.
  unfold last_end. rewrite last_opt_cons. destruct (last_opt l); reflexivity.
Qed.

Lemma rows_len_cons r t : rows_len (r :: t) = row_len r + rows_len t.
Proof. unfold rows_len. cbn [map]. apply sumZ_cons. Qed.

Theorem agp_nums_last_end : forall rows p i, last_end (agp_nums rows p i) p = p + rows_len rows.
Proof.
  induction rows as [|r t IH]; intros p i.
  - unfold rows_len, last_end; cbn. lia.
  - cbn [agp_nums]. rewrite last_end_cons. cbn [an_end].
    rewrite IH, rows_len_cons. lia.
Qed.

Theorem agp_nums_rows : forall rows p i, map an_row (agp_nums rows p i) = rows.
Proof.
  induction rows as [|r t IH]; intros p i; [reflexivity|].
  cbn [agp_nums map an_row]. rewrite IH. reflexivity.
Qed.

Theorem render_num_gap : forall name l g cols, an_row l = RG g -> render_num name l = Ok cols ->
  nth_error cols 4 = Some (s "U") /\ nth_error cols 5 = Some (str_of_Z (g_len g)) /\ nth_error cols 6 = Some (g_type g)
  /\ nth_error cols 7 = Some (s "yes") /\ length cols = 9%nat.
Proof.
  intros name l g cols Hr H. unfold render_num in H. rewrite Hr in H.
  injection H as <-. repeat split.
Qed.

Theorem render_num_frag : forall name l f cols, an_row l = RF f -> render_num name l = Ok cols ->
  nth_error cols 4 = Some (s "W") /\ nth_error cols 5 = Some (f_name f)
  /\ nth_error cols 6 = Some (str_of_Z (f_start f)) /\ nth_error cols 7 = Some (str_of_Z (f_end f)).
Proof.
  intros name l f cols Hr H. unfold render_num in H. rewrite Hr in H.
  destruct (strand_str_agp (f_strand f)); cbn [bind] in H; [|discriminate].
  injection H as <-. repeat split.
Qed.

Definition strands_ok (rows : list row) : Prop :=
  Forall (fun r => match r with RF f => f_strand f = 0 \/ f_strand f = 1 \/ f_strand f = -1 | RG _ => True end) rows.

Lemma strand_str_agp_ok st : st = 0 \/ st = 1 \/ st = -1 -> exists x, strand_str_agp st = Ok x.
Proof. intros [->|[->| ->]]; eexists; reflexivity. Qed.

Lemma agp_rows_total name rows : strands_ok rows -> forall p i, exists ls, agp_rows name rows p i = Ok ls.
Proof.
  induction 1 as [|r t Hr Ht IH]; intros p i; [eexists; reflexivity|].
  cbn [agp_rows]. destruct (IH (p + row_len r) (i + 1)) as [rest ->].
  destruct r as [f|g].
  - destruct (strand_str_agp_ok _ Hr) as [x ->]. eexists; reflexivity.
  - eexists; reflexivity.
Qed.

Lemma agp_lines_total a :
  Forall (fun sc => strands_ok (snd sc)) (a_scaffolds a) -> exists ls, agp_lines a = Ok ls.
Proof.
  unfold agp_lines. induction 1 as [|[n rows] t Hr Ht IH]; [eexists; reflexivity|].
  cbn [mapM]. destruct (agp_rows_total n rows Hr 0 0) as [l ->].
  cbn [bind]. destruct (mapM _ t); [|destruct IH; discriminate].
  eexists; reflexivity.
Qed.

(* format_agp succeeds exactly when every fragment strand is 0, 1 or -1 *)
Theorem format_agp_total : forall a,
  Forall (fun sc => Forall (fun r => match r with RF f => f_strand f = 0 \/ f_strand f = 1 \/ f_strand f = -1 | RG _ => True end) (snd sc)) (a_scaffolds a) ->
  exists t, format_agp a = Ok t.
Proof.
  intros a H. unfold format_agp. destruct (agp_lines_total a H) as [ls ->].
  eexists; reflexivity.
Qed.

(* the converse direction of "exactly when" *)
Lemma strand_str_agp_inv st x : strand_str_agp st = Ok x -> st = 0 \/ st = 1 \/ st = -1.
Proof.
  unfold strand_str_agp.
  destruct (st =? 0) eqn:E0; [lia|]. destruct (st =? 1) eqn:E1; [lia|].
  destruct (st =? -1) eqn:E2; [lia|discriminate].
Qed.

Lemma agp_rows_ok_strands name rows : forall p i ls, agp_rows name rows p i = Ok ls -> strands_ok rows.
Proof.
  induction rows as [|r t IH]; intros p i ls H; [constructor|].
  cbn [agp_rows] in H.
  destruct (agp_rows name t (p + row_len r) (i + 1)) eqn:E.
  - constructor; [|eapply IH; exact E].
    destruct r as [f|g]; [|exact I].
    destruct (strand_str_agp (f_strand f)) eqn:Es; [|discriminate].
    eapply strand_str_agp_inv; exact Es.
  - destruct r as [f|g]; [destruct (strand_str_agp (f_strand f))|]; discriminate.
Qed.

Theorem format_agp_ok_strands : forall a t, format_agp a = Ok t ->
  Forall (fun sc => strands_ok (snd sc)) (a_scaffolds a).
Proof.
  intros a t. unfold format_agp, agp_lines.
  destruct (mapM _ (a_scaffolds a)) as [ls|] eqn:E; [intros _|discriminate].
  revert ls E. induction (a_scaffolds a) as [|[n rows] l IH]; intros ls E; [constructor|].
  cbn [mapM] in E. destruct (agp_rows n rows 0 0) eqn:E1; [|discriminate].
  cbn [bind] in E. destruct (mapM _ l) eqn:E2; [|discriminate].
  constructor; [eapply agp_rows_ok_strands; exact E1 | eapply IH; reflexivity].
Qed.

Print Assumptions agp_rows_render.
Print Assumptions agp_nums_tiles.
Print Assumptions agp_nums_last_end.
Print Assumptions agp_nums_rows.
Print Assumptions render_num_gap.
Print Assumptions render_num_frag.
Print Assumptions format_agp_total.
Print Assumptions format_agp_ok_strands.
