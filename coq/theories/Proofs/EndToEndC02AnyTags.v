(* The landing clause of the C02 capstone for maps with ANY tags: steps 2-4 of
   the capstone never look at the tags.  On every map that TILES the scaffolds
   it shows (pieces >= 2 texels when a scaffold is shown in several pieces),
   whenever the whole run completes, every piece with a contig base in its core
   has a stored result satisfying the C18 invariant and core_kept whose rows sit
   as ONE contiguous block in a scaffold of an output assembly -- whatever the
   tags route it to (haplotype assemblies, Haplotig, Contaminant ...).  Whether
   the run completes is C02_completion_tagged (first half) / C02_painted_maps_complete. *)
From Tola Require Import Py.Base Model.Fragment Model.Scaffold Model.Lookup Model.OverlapResult
  Model.OvrSpec Model.Namer Model.Remap Model.RemapSpec Proofs.EndToEndC02 Proofs.EndToEndC02PaintedHead.
From Tola Require Proofs.Completion Proofs.CompletionTiling Proofs.CoreKept Proofs.RoutingEndToEnd Proofs.NullMap.
From Coq Require Import Lia.

Theorem c02_cores_land_any_tags : forall g prefix n d input pretext o,
  0 < d -> d <= n ->
  Forall Proofs.Completion.input_ok input -> NoDup (map fst input) ->
  NoDup (map key_of (Model.RemapSpec.in_frags input)) ->
  Forall (fun b => In (f_name b) (map fst input)) (Proofs.CoreKept.baits_of pretext) ->
  Forall (Proofs.Completion.scaffold_tiled n d (Proofs.CoreKept.baits_of pretext)) input ->
  remap repaired g prefix (n, d) input pretext = Ok o ->
  exists rs,
    remap_to_input repaired g prefix (n, d) input pretext = Ok rs
    /\ let err := error_length (n, d) in
       forall bait src x,
         In bait (Proofs.CoreKept.baits_of pretext) ->
         In (f_name bait, src) (number_input input 0) ->
         Proofs.CoreKept.in_core err bait x -> Proofs.CoreKept.contig_base src x ->
         exists r a sc pre suf,
           In r (b_store (rs_b rs)) /\ o_bait r = bait
           /\ Model.OvrSpec.Inv src r /\ Proofs.CoreKept.core_kept err src r
           /\ In a (out_asms o) /\ In sc (oa_scaffolds a)
           /\ sc_rows sc = pre ++ to_scaffold_rows r ++ suf
           /\ sc_tag sc = o_tag r /\ sc_hap sc = o_hap r.
Proof.
  intros g prefix n d input pretext o Hd Hdn Hin Hnm Hkeys Hnamed Htile Hremap.
  set (all := Proofs.CoreKept.baits_of pretext) in *.
  destruct (remap_to_input repaired g prefix (n, d) input pretext) as [rs|e] eqn:Hrs.
  2:{ unfold remap in Hremap. rewrite Hrs in Hremap. cbn [bind] in Hremap. discriminate. }
  pose proof (Proofs.CompletionTiling.tiled_valid n d input all Hnamed Htile) as Hvalid.
  pose proof (Proofs.CompletionTiling.tiled_disjoint n d input all Hnamed Htile) as Hdisj.
  assert (Hpos0 : Forall (fun isc => pos_rows (snd isc)) input).
  { eapply Forall_impl; [|exact Hin]. intros isc (_ & H & _). exact H. }
  assert (Hn0 : 0 <= fst (n, d)) by (cbn [fst]; lia).
  assert (Hd0 : 0 < snd (n, d)) by (cbn [snd]; lia).
  pose proof (Proofs.CoreKept.core_kept_end_to_end repaired g prefix (n, d) input pretext rs
                Hn0 Hd0 Hpos0 Hkeys Hvalid Hdisj Hrs) as HAB.
  cbv zeta in HAB. destruct HAB as [HA HB].
  destruct (head_added repaired g prefix (n, d) input pretext rs Hrs) as (_ & Hadd).
  destruct (Proofs.RoutingEndToEnd.routing_end_to_end g prefix (n, d) input pretext o rs Hrs Hremap)
    as (Hroute & _ & _).
  set (inp := number_input input 0) in *.
  exists rs. split; [reflexivity|].
  cbv zeta. intros bait src x Hbait Hsrc Hcore Hbase.
  destruct (store_find (b_store (rs_b rs)) bait) as [(r & Hr & Eb) | Hnone].
  2:{ exfalso. exact (HB bait src Hbait Hsrc Hnone x Hcore Hbase). }
  destruct (HA r Hr) as (src' & Hsrc' & _ & HI & HK).
  assert (Es : src' = src).
  { assert (Hnn : NoDup (map fst inp)) by (unfold inp; rewrite Proofs.CoreKept.number_input_fst; exact Hnm).
    rewrite Eb in Hsrc'. exact (Proofs.NullMap.nodup_names_inj inp _ _ _ Hnn Hsrc' Hsrc). }
  subst src'.
  assert (Hne : o_rows r <> []).
  { rewrite <- Eb in Hcore. exact (proj1 (HK x Hcore Hbase)). }
  apply In_nth_error in Hr. destruct Hr as (k & Hk).
  pose proof (Hadd k r Hk Hne) as Hin_added.
  assert (Hget : get_ovr (b_store (rs_b rs)) (Z.of_nat k) = Ok r).
  { unfold get_ovr. rewrite Nat2Z.id, Hk. reflexivity. }
  destruct (Hroute (Z.of_nat k) r Hin_added Hget Hne) as (a & sc & pre & suf & Ha & Hsc & Erows & Etag & Ehap & _).
  exists r, a, sc, pre, suf.
  split; [eapply nth_error_In; exact Hk|]. split; [exact Eb|]. split; [exact HI|].
  split; [exact HK|]. split; [exact Ha|]. split; [exact Hsc|]. split; [exact Erows|]. split; [exact Etag | exact Ehap].
Qed.
Print Assumptions c02_cores_land_any_tags.
