(* C02 CAPSTONE for PAINTED maps: the statement of Proofs.EndToEndC02 about the
   FINAL output of [remap], for maps whose baits are untagged or tagged
   ["Painted"] and that tile the scaffolds they show.  Hypotheses: those of
   Proofs.CompletionPainted.painted_tiling_maps_complete (each of the three
   extra ones is refuted there without).  It composes

     CompletionPainted.completion_of_painted_tiling_maps   remap_to_input = Ok
     CompletionPainted.painted_tiling_maps_complete        remap = Ok
     CoreKept.core_kept_end_to_end                         the stored result keeps its core
     EndToEndC02PaintedHead.head_added                     a result with rows is in b_added
     RoutingEndToEnd.routing_end_to_end                    ... and is written whole into an
                                                           output scaffold
   and, for the order clause,
     EndToEndC02PaintedHead.same_scaffold_same_key_painted one fusion key per Pretext scaffold
     EndToEndC02Order.store_order / asc_split, PretextOrder.pretext_order_pairs,
     RoutingEndToEnd.fused_in_output. *)
From Tola Require Import Py.Base Model.Fragment Model.Scaffold Model.Lookup Model.OverlapResult
  Model.OvrSpec Model.Namer Model.Remap Model.RemapSpec Proofs.Junctions Proofs.EndToEndC02Total
  Proofs.EndToEndC02 Proofs.EndToEndC02PaintedHead.
From Tola Require Proofs.Completion Proofs.CompletionTiling Proofs.CompletionPainted Proofs.CoreKept
  Proofs.RoutingEndToEnd Proofs.RemapTail Proofs.NullMap Proofs.RemapHead Proofs.PipelineInv
  Proofs.PretextOrder Proofs.EndToEndC02Order Proofs.UniqueNames.
From Coq Require Import Lia ZifyBool Permutation.

(* ================================================================ PART A *)
Theorem c02_end_to_end_painted : forall g prefix n d input pretext,
  0 < d -> d <= n ->
  Forall Proofs.Completion.input_ok input -> NoDup (map fst input) ->
  NoDup (map key_of (Model.RemapSpec.in_frags input)) ->
  Forall (fun f => f_tags f = []) (Model.RemapSpec.in_frags input) ->
  Forall (fun p => exists b t, snd p = RF b :: t) pretext ->
  Forall (fun b => (f_tags b = [] \/ f_tags b = [s "Painted"]) /\ (f_strand b = 1 \/ f_strand b = -1)
                   /\ In (f_name b) (map fst input)) (Proofs.CoreKept.baits_of pretext) ->
  Forall (Proofs.Completion.scaffold_tiled n d (Proofs.CoreKept.baits_of pretext)) input ->
  (* for the second half of the pipeline *)
  Forall (fun f => f_strand f = 1 \/ f_strand f = -1) (Model.RemapSpec.in_frags input) ->
  Forall (fun p => Proofs.UniqueNames.painted_b p = true -> fst p <> []) pretext ->
  Proofs.UniqueNames.no_haplotypes pretext ->
  exists rs o,
    remap_to_input repaired g prefix (n, d) input pretext = Ok rs
    /\ remap repaired g prefix (n, d) input pretext = Ok o
    /\ let err := error_length (n, d) in
       forall bait src x,
         In bait (Proofs.CoreKept.baits_of pretext) ->
         In (f_name bait, src) (number_input input 0) ->
         Proofs.CoreKept.in_core err bait x -> Proofs.CoreKept.contig_base src x ->
         exists r a sc pre suf,
           In r (b_store (rs_b rs)) /\ o_bait r = bait
           /\ Model.OvrSpec.Inv src r /\ Proofs.CoreKept.core_kept err src r
           /\ In a (out_asms o) /\ In sc (oa_scaffolds a)
           /\ sc_rows sc = pre ++ to_scaffold_rows r ++ suf.
Proof.
  intros g prefix n d input pretext Hd Hdn Hin Hnm Hkeys Hunt Hpre Hb Htile Hstr Hnames NHp.
  set (all := Proofs.CoreKept.baits_of pretext) in *.
  (* 1. both halves complete *)
  destruct (Proofs.CompletionPainted.completion_of_painted_tiling_maps g prefix n d input pretext
              Hd Hdn Hin Hnm Hkeys Hunt Hpre Hb Htile) as (rs & Hrs).
  destruct (Proofs.CompletionPainted.painted_tiling_maps_complete g prefix n d input pretext
              Hd Hdn Hin Hnm Hkeys Hunt Hpre Hb Htile Hstr Hnames NHp) as (o & Hremap).
  (* 2. the hypotheses of core_kept_end_to_end from the tiling *)
  assert (Hnamed : Forall (fun b => In (f_name b) (map fst input)) all).
  { eapply Forall_impl; [|exact Hb]. intros b (_ & _ & H). exact H. }
  pose proof (Proofs.CompletionTiling.tiled_valid n d input all Hnamed Htile) as Hvalid.
  pose proof (Proofs.CompletionTiling.tiled_disjoint n d input all Hnamed Htile) as Hdisj.
  assert (Hpos0 : Forall (fun isc => pos_rows (snd isc)) input).
  { eapply Forall_impl; [|exact Hin]. intros isc (_ & H & _). exact H. }
  assert (Hn0 : 0 <= fst (n, d)) by (cbn [fst]; lia).
  assert (Hd0 : 0 < snd (n, d)) by (cbn [snd]; lia).
  pose proof (Proofs.CoreKept.core_kept_end_to_end repaired g prefix (n, d) input pretext rs
                Hn0 Hd0 Hpos0 Hkeys Hvalid Hdisj Hrs) as HAB.
  cbv zeta in HAB. destruct HAB as [HA HB].
  (* 3. every result with rows is added *)
  destruct (head_added repaired g prefix (n, d) input pretext rs Hrs) as (_ & Hadd).
  destruct (Proofs.RoutingEndToEnd.routing_end_to_end g prefix (n, d) input pretext o rs Hrs Hremap)
    as (Hroute & _ & _).
  set (inp := number_input input 0) in *.
  exists rs, o. split; [exact Hrs|]. split; [exact Hremap|].
  cbv zeta. intros bait src x Hbait Hsrc Hcore Hbase.
  (* 4. the result of this bait *)
  destruct (store_find (b_store (rs_b rs)) bait) as [(r & Hr & Eb) | Hnone].
  2:{ exfalso. exact (HB bait src Hbait Hsrc Hnone x Hcore Hbase). }
  destruct (HA r Hr) as (src' & Hsrc' & _ & HI & HK).
  assert (Es : src' = src).
  { assert (Hnn : NoDup (map fst inp)) by (unfold inp; rewrite Proofs.CoreKept.number_input_fst; exact Hnm).
    rewrite Eb in Hsrc'. exact (Proofs.NullMap.nodup_names_inj inp _ _ _ Hnn Hsrc' Hsrc). }
  subst src'.
  assert (Hne : o_rows r <> []).
  { rewrite <- Eb in Hcore. exact (proj1 (HK x Hcore Hbase)). }
  apply In_nth_error in Hr. destruct Hr as (k & Hk).
  pose proof (Hadd k r Hk Hne) as Hin_added.
  assert (Hget : get_ovr (b_store (rs_b rs)) (Z.of_nat k) = Ok r).
  { unfold get_ovr. rewrite Nat2Z.id, Hk. reflexivity. }
  destruct (Hroute (Z.of_nat k) r Hin_added Hget Hne) as (a & sc & pre & suf & Ha & Hsc & Erows & _).
  exists r, a, sc, pre, suf.
  split; [eapply nth_error_In; exact Hk|]. split; [exact Eb|]. split; [exact HI|].
  split; [exact HK|]. split; [exact Ha|]. split; [exact Hsc | exact Erows].
Qed.

(* ================================================================ PART B
   the Pretext-order clause on the FINAL output, for painted maps *)
Theorem c02_end_to_end_painted_order : forall g prefix n d input pretext,
  0 < d -> d <= n ->
  Forall Proofs.Completion.input_ok input -> NoDup (map fst input) ->
  NoDup (map key_of (Model.RemapSpec.in_frags input)) ->
  Forall (fun f => f_tags f = []) (Model.RemapSpec.in_frags input) ->
  Forall (fun p => exists b t, snd p = RF b :: t) pretext ->
  Forall (fun b => (f_tags b = [] \/ f_tags b = [s "Painted"]) /\ (f_strand b = 1 \/ f_strand b = -1)
                   /\ In (f_name b) (map fst input)) (Proofs.CoreKept.baits_of pretext) ->
  Forall (Proofs.Completion.scaffold_tiled n d (Proofs.CoreKept.baits_of pretext)) input ->
  Forall (fun f => f_strand f = 1 \/ f_strand f = -1) (Model.RemapSpec.in_frags input) ->
  Forall (fun p => Proofs.UniqueNames.painted_b p = true -> fst p <> []) pretext ->
  Proofs.UniqueNames.no_haplotypes pretext ->
  exists rs o,
    remap_to_input repaired g prefix (n, d) input pretext = Ok rs
    /\ remap repaired g prefix (n, d) input pretext = Ok o
    /\ let err := error_length (n, d) in
       forall pname prows l1 b1 l2 b2 l3 src1 x1 src2 x2,
         In (pname, prows) pretext ->
         frags_of prows = l1 ++ b1 :: l2 ++ b2 :: l3 ->
         In (f_name b1, src1) (number_input input 0) ->
         Proofs.CoreKept.in_core err b1 x1 -> Proofs.CoreKept.contig_base src1 x1 ->
         In (f_name b2, src2) (number_input input 0) ->
         Proofs.CoreKept.in_core err b2 x2 -> Proofs.CoreKept.contig_base src2 x2 ->
         exists r1 r2 a sc pre mid post,
           In r1 (b_store (rs_b rs)) /\ o_bait r1 = b1
           /\ Model.OvrSpec.Inv src1 r1 /\ Proofs.CoreKept.core_kept err src1 r1
           /\ In r2 (b_store (rs_b rs)) /\ o_bait r2 = b2
           /\ Model.OvrSpec.Inv src2 r2 /\ Proofs.CoreKept.core_kept err src2 r2
           /\ In a (out_asms o) /\ In sc (oa_scaffolds a)
           /\ sc_rows sc = pre ++ to_scaffold_rows r1 ++ mid ++ to_scaffold_rows r2 ++ post.
Proof.
  intros g prefix n d input pretext Hd Hdn Hin Hnm Hkeys Hunt Hpre Hb Htile Hstr Hnames NHp.
  destruct (c02_end_to_end_painted g prefix n d input pretext Hd Hdn Hin Hnm Hkeys Hunt Hpre Hb Htile
              Hstr Hnames NHp) as (rs & o & Hrs & Ho & HA).
  cbv zeta in HA.
  exists rs, o. split; [exact Hrs|]. split; [exact Ho|]. cbv zeta.
  intros pname prows l1 b1 l2 b2 l3 src1 x1 src2 x2 He Hfr Hs1 Hc1 Hx1 Hs2 Hc2 Hx2.
  set (all := Proofs.CoreKept.baits_of pretext) in *.
  (* the baits are pairwise different, untagged or Painted *)
  assert (Hnamed : Forall (fun b => In (f_name b) (map fst input)) all).
  { eapply Forall_impl; [|exact Hb]. intros b (_ & _ & H). exact H. }
  pose proof (Proofs.CompletionTiling.tiled_valid n d input all Hnamed Htile) as Hvalid.
  pose proof (Proofs.CompletionTiling.tiled_disjoint n d input all Hnamed Htile) as Hdisj.
  pose proof (Proofs.EndToEndC02Order.disjoint_valid_nodup all Hdisj Hvalid) as ND.
  assert (Hbu : Forall (fun f => tags_ok (f_tags f)) all).
  { eapply Forall_impl; [|exact Hb]. intros b (H & _). exact H. }
  (* b1, b2 are baits of the map, b1 first *)
  assert (Hb1p : In b1 (frags_of prows)).
  { rewrite Hfr. apply in_or_app. right. left. reflexivity. }
  assert (Hb2p : In b2 (frags_of prows)).
  { rewrite Hfr. apply in_or_app. right. right. apply in_or_app. right. left. reflexivity. }
  assert (Hb1 : In b1 all) by (eapply (Proofs.EndToEndC02Order.in_baits_of (pname, prows)); eassumption).
  assert (Hb2 : In b2 all) by (eapply (Proofs.EndToEndC02Order.in_baits_of (pname, prows)); eassumption).
  destruct (in_split _ _ He) as (P1 & P2 & EP).
  assert (EQ : all = (Proofs.CoreKept.baits_of P1 ++ l1) ++ b1 :: l2 ++ b2 :: (l3 ++ Proofs.CoreKept.baits_of P2)).
  { unfold all. rewrite EP. change ((pname, prows) :: P2) with ([(pname, prows)] ++ P2).
    rewrite !Proofs.EndToEndC02Order.baits_of_app.
    unfold Proofs.CoreKept.baits_of at 2. cbn [flat_map snd]. rewrite app_nil_r, Hfr.
    rewrite <- !app_assoc. cbn [app]. rewrite <- !app_assoc. reflexivity. }
  (* their results, by part A *)
  destruct (HA b1 src1 x1 Hb1 Hs1 Hc1 Hx1) as (r1 & _ & _ & _ & _ & Hr1 & Eb1 & HI1 & HK1 & _).
  destruct (HA b2 src2 x2 Hb2 Hs2 Hc2 Hx2) as (r2 & _ & _ & _ & _ & Hr2 & Eb2 & HI2 & HK2 & _).
  assert (Hne1 : o_rows r1 <> []) by (rewrite <- Eb1 in Hc1; exact (proj1 (HK1 x1 Hc1 Hx1))).
  assert (Hne2 : o_rows r2 <> []) by (rewrite <- Eb2 in Hc2; exact (proj1 (HK2 x2 Hc2 Hx2))).
  (* their ids, in b_added in this order *)
  destruct (head_added repaired g prefix (n, d) input pretext rs Hrs) as (_ & Hadd).
  destruct (In_nth_error _ _ Hr1) as (k1 & Hk1). destruct (In_nth_error _ _ Hr2) as (k2 & Hk2).
  assert (Lt : (k1 < k2)%nat).
  { eapply (Proofs.EndToEndC02Order.store_order repaired g prefix (n, d) input pretext rs k1 k2 r1 r2);
      [exact ND | exact Hrs | exact Hk1 | exact Hk2|]. rewrite Eb1, Eb2. exact EQ. }
  destruct (Proofs.PretextOrder.remap_order _ _ _ _ _ _ _ Hrs) as [_ HO].
  unfold Proofs.PretextOrder.OKA in HO.
  destruct (Proofs.EndToEndC02Order.asc_split _ _ _ (Z.of_nat k1) (Z.of_nat k2) HO
              (Hadd k1 r1 Hk1 Hne1) (Hadd k2 r2 Hk2 Hne2)) as (a1 & a2 & a3 & Eadd); [lia|].
  assert (Hg1 : get_ovr (b_store (rs_b rs)) (Z.of_nat k1) = Ok r1)
    by (unfold get_ovr; rewrite Nat2Z.id, Hk1; reflexivity).
  assert (Hg2 : get_ovr (b_store (rs_b rs)) (Z.of_nat k2) = Ok r2)
    by (unfold get_ovr; rewrite Nat2Z.id, Hk2; reflexivity).
  (* one fusion key *)
  assert (HKeq : Proofs.PretextOrder.result_key r1 = Proofs.PretextOrder.result_key r2).
  { eapply (same_scaffold_same_key_painted repaired g prefix (n, d) input pretext rs
              Hbu ND Hrs r1 r2 pname prows Hr1 Hr2 He); [rewrite Eb1 | rewrite Eb2]; assumption. }
  (* the fused scaffold and its place in the output *)
  pose proof Ho as Ho'. unfold remap in Ho'. rewrite Hrs in Ho'. cbn [bind] in Ho'.
  destruct (Proofs.RoutingEndToEnd.assemblies_out_core _ _ _ _ _ _ Ho') as (fused0 & fused & F & _).
  destruct (Proofs.PretextOrder.pretext_order_pairs g prefix (n, d) input pretext rs fused0
              a1 (Z.of_nat k1) a2 (Z.of_nat k2) a3 r1 r2 Hrs F Eadd Hg1 Hg2 Hne1 Hne2 HKeq)
    as (results & b & _ & Hbf & _ & (pre & mid & post & Erows) & _).
  destruct (Proofs.RoutingEndToEnd.fused_in_output _ _ _ _ _ _ _ b Ho' F Hbf)
    as (a & sc & Ha & Hsc & Ec & _).
  unfold Proofs.RoutingEndToEnd.core in Ec. injection Ec as Er _ _.
  exists r1, r2, a, sc, pre, mid, post.
  repeat (split; [assumption|]). rewrite Er. exact Erows.
Qed.

(* ============================================================== non-vacuity
   the painted three-piece map of Proofs.CompletionPainted (P1 = [p3], P2 =
   [p2; p1 Painted]) satisfies every hypothesis; the two baits of P2 both have
   contig bases in their cores, so the order clause applies to them *)
Module Instance.
  Import Proofs.Completion.ThreePieces Proofs.CompletionPainted.PaintedThreePieces.

  Lemma hyps :
    (0 < 2) /\ (2 <= 7)
    /\ Forall Proofs.Completion.input_ok input /\ NoDup (map fst input)
    /\ NoDup (map key_of (Model.RemapSpec.in_frags input))
    /\ Forall (fun f => f_tags f = []) (Model.RemapSpec.in_frags input)
    /\ Forall (fun p => exists b t, snd p = RF b :: t) pretext
    /\ Forall (fun b => (f_tags b = [] \/ f_tags b = [s "Painted"]) /\ (f_strand b = 1 \/ f_strand b = -1)
                     /\ In (f_name b) (map fst input)) (Proofs.CoreKept.baits_of pretext)
    /\ Forall (Proofs.Completion.scaffold_tiled 7 2 (Proofs.CoreKept.baits_of pretext)) input
    /\ Forall (fun f => f_strand f = 1 \/ f_strand f = -1) (Model.RemapSpec.in_frags input)
    /\ Forall (fun p => Proofs.UniqueNames.painted_b p = true -> fst p <> []) pretext
    /\ Proofs.UniqueNames.no_haplotypes pretext.
  Proof.
    split; [lia|]. split; [lia|].
    split.
    { constructor; [|constructor]. unfold Proofs.Completion.input_ok. cbn [snd input].
      split; [discriminate|]. split; [repeat constructor; cbn; lia|].
      split; [eexists _, _; reflexivity|].
      split; [exists C, [RF A; RG g10; RF B; RG g10]; reflexivity|].
      repeat (apply Forall_cons; [split; cbn; lia|]). apply Forall_nil. }
    split; [cbn; repeat constructor; cbn; intuition discriminate|].
    split; [cbn; repeat constructor; cbn; intuition discriminate|].
    split; [repeat constructor|].
    split; [repeat constructor; eexists _, _; reflexivity|].
    split.
    { cbn. apply Forall_cons; [split; [left; reflexivity | split; [cbn; lia | cbn; auto]]|].
      apply Forall_cons; [split; [left; reflexivity | split; [cbn; lia | cbn; auto]]|].
      apply Forall_cons; [split; [right; reflexivity | split; [cbn; lia | cbn; auto]]|]. apply Forall_nil. }
    split.
    { constructor; [|constructor]. right. exists [p1; p2; p3], 520.
      split.
      { replace (filter _ _) with (rev [p1; p2; p3]) by (vm_compute; reflexivity).
        apply Permutation_sym, Permutation_rev. }
      split; [cbn; lia|]. split; [vm_compute; reflexivity|].
      right. repeat constructor; cbn; lia. }
    split; [cbn; repeat (apply Forall_cons; [cbn; lia|]); apply Forall_nil|].
    split; [repeat constructor; intros _; discriminate|].
    apply Proofs.UniqueNames.no_haplotypes_b_sound. vm_compute. reflexivity.
  Qed.
End Instance.

Example c02_end_to_end_painted_instance :
  exists o, remap repaired Proofs.Completion.ThreePieces.g10 (s "SUPER_") (7, 2)
              Proofs.Completion.ThreePieces.input Proofs.CompletionPainted.PaintedThreePieces.pretext = Ok o.
Proof.
  destruct Instance.hyps as (H1 & H2 & H3 & H4 & H5 & H6 & H7 & H8 & H9 & H10 & H11 & H12).
  destruct (c02_end_to_end_painted_order Proofs.Completion.ThreePieces.g10 (s "SUPER_") 7 2
              Proofs.Completion.ThreePieces.input Proofs.CompletionPainted.PaintedThreePieces.pretext
              H1 H2 H3 H4 H5 H6 H7 H8 H9 H10 H11 H12) as (rs & o & _ & Ho & _).
  exists o. exact Ho.
Qed.

(* the order clause applied to the two baits of P2 = [p2; p1 (Painted)]: base 250
   lies in the core of p2 (201..350), base 50 in the core of p1 (1..200) *)
Example c02_end_to_end_painted_order_instance :
  exists o a sc r1 r2 pre mid post,
    remap repaired Proofs.Completion.ThreePieces.g10 (s "SUPER_") (7, 2)
          Proofs.Completion.ThreePieces.input Proofs.CompletionPainted.PaintedThreePieces.pretext = Ok o
    /\ In a (out_asms o) /\ In sc (oa_scaffolds a)
    /\ o_bait r1 = Proofs.CompletionPainted.PaintedThreePieces.p2
    /\ o_bait r2 = Proofs.CompletionPainted.PaintedThreePieces.p1
    /\ sc_rows sc = pre ++ to_scaffold_rows r1 ++ mid ++ to_scaffold_rows r2 ++ post.
Proof.
  destruct Instance.hyps as (H1 & H2 & H3 & H4 & H5 & H6 & H7 & H8 & H9 & H10 & H11 & H12).
  destruct (c02_end_to_end_painted_order Proofs.Completion.ThreePieces.g10 (s "SUPER_") 7 2
              Proofs.Completion.ThreePieces.input Proofs.CompletionPainted.PaintedThreePieces.pretext
              H1 H2 H3 H4 H5 H6 H7 H8 H9 H10 H11 H12) as (rs & o & _ & Ho & HC).
  cbv zeta in HC.
  set (src := snd (hd (s "", []) (number_input Proofs.Completion.ThreePieces.input 0))).
  destruct (HC (s "P2") [RF Proofs.CompletionPainted.PaintedThreePieces.p2;
                         RF Proofs.CompletionPainted.PaintedThreePieces.p1]
               [] Proofs.CompletionPainted.PaintedThreePieces.p2
               [] Proofs.CompletionPainted.PaintedThreePieces.p1 [] src 250 src 50)
    as (r1 & r2 & a & sc & pre & mid & post & _ & E1 & _ & _ & _ & E2 & _ & _ & Ha & Hsc & Er).
  - right. left. reflexivity.
  - reflexivity.
  - vm_compute. left. reflexivity.
  - unfold Proofs.CoreKept.in_core. vm_compute. split; discriminate.
  - exists 2%nat. split; [eexists; vm_compute; reflexivity|]. vm_compute. split; discriminate.
  - vm_compute. left. reflexivity.
  - unfold Proofs.CoreKept.in_core. vm_compute. split; discriminate.
  - exists 0%nat. split; [eexists; vm_compute; reflexivity|]. vm_compute. split; discriminate.
  - exists o, a, sc, r1, r2, pre, mid, post. repeat (split; [assumption|]). exact Er.
Qed.

Print Assumptions c02_end_to_end_painted.
Print Assumptions c02_end_to_end_painted_order.
Print Assumptions c02_end_to_end_painted_instance.
Print Assumptions c02_end_to_end_painted_order_instance.
