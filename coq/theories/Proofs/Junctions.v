(* Junction tuples (Fragment.junction_tuple), their canonical form
   (canon_junction, the C11 repair), the junction set of a scaffold and the
   set operations used by AssemblyStats.make_stats.

   Main results
     junction_reverse_pair   canon (a,b) = canon (reverse b, reverse a)
     junction_set_reverse    junction set of a scaffold = that of its reverse
     junction_set_ok         success when every strand is +1 / -1
     junction_set_err        ValueError when a fragment with a neighbour has another strand
     junction_injective      canonical junction <-> unordered pair of facing contig ends
     canon_idempotent, junction_eqb_eq
     union_j_in, diff_j_in, inter_j_in, *_nodup, junction_set_nodup
     legacy_junction_refuted the un-canonicalised encoding is not reverse-invariant
     junction_set_reverse_example  non-vacuity of junction_set_reverse *)
From Coq Require Import Lia ZifyBool Permutation.
From Tola Require Import Py.Base Model.Fragment Model.Scaffold Model.Remap
  Proofs.BaseLemmas Proofs.NaturalKey.

(* ------------------------------------------------------------------ *)
(* 4. junction_eqb decides equality; canon_junction is idempotent      *)
(* ------------------------------------------------------------------ *)

Lemma eqb4_spec p1 q1 p2 q2 n1 m1 n2 m2 :
  (if p1 =? q1 then if p2 =? q2 then if str_eqb n1 m1 then str_eqb n2 m2 else false else false else false) = true
  <-> p1 = q1 /\ p2 = q2 /\ n1 = m1 /\ n2 = m2.
Proof.
  destruct (Z.eqb_spec p1 q1) as [->|N1]; [|split; [discriminate | intros (E & _); contradiction]].
  destruct (Z.eqb_spec p2 q2) as [->|N2]; [|split; [discriminate | intros (_ & E & _); contradiction]].
  destruct (str_eqb n1 m1) eqn:E1.
  - apply str_eqb_eq in E1. subst m1. rewrite str_eqb_eq. tauto.
  - apply str_eqb_neq in E1. split; [discriminate | intros (_ & _ & E & _); contradiction].
Qed.

Theorem junction_eqb_eq : forall a b, junction_eqb a b = true <-> a = b.
Proof.
  intros [n1 p1 n2 p2|n1 p1 p2 n2|p1 n1 n2 p2] [m1 q1 m2 q2|m1 q1 q2 m2|q1 m1 m2 q2];
    cbn [junction_eqb]; try (split; discriminate);
    rewrite eqb4_spec; (split; [intros (-> & -> & -> & ->); reflexivity | intro E; injection E; auto]).
Qed.

Lemma junction_eqb_refl j : junction_eqb j j = true.
Proof. apply junction_eqb_eq. reflexivity. Qed.

Lemma junction_eq_dec (a b : junction) : {a = b} + {a <> b}.
Proof.
  destruct (junction_eqb a b) eqn:E.
  - left. apply junction_eqb_eq. exact E.
  - right. intro H. apply junction_eqb_eq in H. congruence.
Qed.

(* the other reading direction of a junction tuple: tuple reversal for the
   two mixed shapes; JSISI already encodes rev,rev as fwd,fwd from the other side *)
Definition junction_swap (j : junction) : junction :=
  match j with
  | JSISI _ _ _ _ => j
  | JSIIS n1 p1 p2 n2 => JSIIS n2 p2 p1 n1
  | JISSI p1 n1 n2 p2 => JISSI p2 n2 n1 p1
  end.

Lemma junction_swap_involutive j : junction_swap (junction_swap j) = j.
Proof. destruct j; reflexivity. Qed.

(* canon_junction picks one of the two reading directions ... *)
Lemma canon_cases j : canon_junction j = j \/ canon_junction j = junction_swap j.
Proof.
  destruct j as [n1 p1 n2 p2|n1 p1 p2 n2|p1 n1 n2 p2]; unfold canon_junction, junction_swap.
  - left; reflexivity.
  - destruct (str_cmp n1 n2); [destruct (p1 <=? p2)| |]; auto.
  - destruct (p1 <? p2); [auto|]. destruct (p2 <? p1); [auto|]. destruct (str_cmp n1 n2); auto.
Qed.

(* ... and picks the same one from either direction *)
Lemma canon_swap j : canon_junction (junction_swap j) = canon_junction j.
Proof.
  destruct j as [n1 p1 n2 p2|n1 p1 p2 n2|p1 n1 n2 p2]; unfold canon_junction, junction_swap.
  - reflexivity.
  - rewrite (str_cmp_sym n1 n2). destruct (str_cmp n1 n2) eqn:E; cbn [CompOpp]; try reflexivity.
    apply str_cmp_eq in E. subst n2.
    destruct (Z.leb_spec p1 p2), (Z.leb_spec p2 p1); try reflexivity; try lia.
    assert (p1 = p2) by lia. subst. reflexivity.
  - rewrite (str_cmp_sym n1 n2).
    destruct (Z.ltb_spec p1 p2), (Z.ltb_spec p2 p1); try reflexivity; try lia.
    assert (p1 = p2) by lia. subst p2.
    destruct (str_cmp n1 n2) eqn:E; cbn [CompOpp]; try reflexivity.
    apply str_cmp_eq in E. subst. reflexivity.
Qed.

Theorem canon_idempotent : forall j, canon_junction (canon_junction j) = canon_junction j.
Proof.
  intros [n1 p1 n2 p2|n1 p1 p2 n2|p1 n1 n2 p2]; unfold canon_junction.
  - reflexivity.
  - destruct (str_cmp n1 n2) eqn:E.
    + destruct (Z.leb_spec p1 p2) as [L|L].
      * rewrite E. destruct (Z.leb_spec p1 p2); [reflexivity | lia].
      * apply str_cmp_eq in E. subst n2. rewrite str_cmp_refl.
        destruct (Z.leb_spec p2 p1); [reflexivity | lia].
    + rewrite E. reflexivity.
    + rewrite (str_cmp_sym n1 n2), E. reflexivity.
  - destruct (Z.ltb_spec p1 p2) as [L|L].
    + destruct (Z.ltb_spec p1 p2); [reflexivity | lia].
    + destruct (Z.ltb_spec p2 p1) as [L'|L'].
      * destruct (Z.ltb_spec p2 p1); [reflexivity | lia].
      * destruct (str_cmp n1 n2) eqn:E.
        -- destruct (Z.ltb_spec p1 p2); [lia|]. destruct (Z.ltb_spec p2 p1); [lia|]. rewrite E. reflexivity.
        -- destruct (Z.ltb_spec p1 p2); [lia|]. destruct (Z.ltb_spec p2 p1); [lia|]. rewrite E. reflexivity.
        -- destruct (Z.ltb_spec p2 p1); [lia|]. destruct (Z.ltb_spec p1 p2); [lia|].
           rewrite (str_cmp_sym n1 n2), E. reflexivity.
Qed.

(* two junctions have the same canonical form iff they are the same tuple
   up to reading direction *)
Lemma canon_eq_iff j1 j2 :
  canon_junction j1 = canon_junction j2 <-> j1 = j2 \/ j1 = junction_swap j2.
Proof.
  split.
  - intro E.
    destruct (canon_cases j1) as [H1|H1], (canon_cases j2) as [H2|H2]; rewrite H1, H2 in E.
    + auto.
    + auto.
    + right. rewrite <- E. symmetry. apply junction_swap_involutive.
    + left. rewrite <- (junction_swap_involutive j1), E. apply junction_swap_involutive.
  - intros [->| ->]; [reflexivity | apply canon_swap].
Qed.

(* ------------------------------------------------------------------ *)
(* 5. set operations                                                   *)
(* ------------------------------------------------------------------ *)

Section Dedup.
  Context {A : Type} (eqb : A -> A -> bool).
  Hypothesis eqb_eq : forall x y, eqb x y = true <-> x = y.

  Lemma existsb_eqb_in x l : existsb (eqb x) l = true <-> In x l.
  Proof.
    rewrite existsb_exists. split.
    - intros (y & Hy & E). apply eqb_eq in E. subst. exact Hy.
    - intro H. exists x. split; [exact H | apply eqb_eq; reflexivity].
  Qed.

  Lemma existsb_eqb_notin x l : existsb (eqb x) l = false <-> ~ In x l.
  Proof.
    rewrite <- existsb_eqb_in. destruct (existsb (eqb x) l); split; congruence.
  Qed.

  Lemma dedup_acc_in seen l x : In x (dedup_acc eqb seen l) <-> In x l /\ ~ In x seen.
  Proof.
    revert seen. induction l as [|a l IH]; intro seen; cbn [dedup_acc In].
    - tauto.
    - destruct (existsb (eqb a) seen) eqn:E.
      + apply existsb_eqb_in in E. rewrite IH. split.
        * intros [H1 H2]. auto.
        * intros [[->|H1] H2]; [contradiction | auto].
      + apply existsb_eqb_notin in E. cbn [In]. rewrite IH. cbn [In]. split.
        * intros [->|[H1 H2]]; [auto | split; [auto | tauto]].
        * intros [[->|H1] H2]; [auto|].
          destruct (eqb a x) eqn:Eax.
          -- apply eqb_eq in Eax. auto.
          -- right. split; [exact H1|]. intros [->|H3]; [|contradiction].
             assert (eqb x x = true) by (apply eqb_eq; reflexivity). congruence.
  Qed.

  Lemma dedup_acc_nodup seen l : NoDup (dedup_acc eqb seen l).
  Proof.
    revert seen. induction l as [|a l IH]; intro seen; cbn [dedup_acc].
    - constructor.
    - destruct (existsb (eqb a) seen); [apply IH|].
      constructor; [|apply IH].
      rewrite dedup_acc_in. cbn [In]. tauto.
  Qed.

  Lemma dedup_in l x : In x (dedup eqb l) <-> In x l.
  Proof. unfold dedup. rewrite dedup_acc_in. cbn [In]. tauto. Qed.

  Lemma dedup_nodup l : NoDup (dedup eqb l).
  Proof. apply dedup_acc_nodup. Qed.
End Dedup.

Lemma existsb_jeqb_in x l : existsb (junction_eqb x) l = true <-> In x l.
Proof. apply existsb_eqb_in, junction_eqb_eq. Qed.

Lemma negb_existsb_jeqb x l : negb (existsb (junction_eqb x) l) = true <-> ~ In x l.
Proof.
  rewrite negb_true_iff. apply existsb_eqb_notin, junction_eqb_eq.
Qed.

Lemma in_j_dec (x : junction) l : In x l \/ ~ In x l.
Proof.
  destruct (existsb (junction_eqb x) l) eqn:E.
  - left. apply existsb_jeqb_in. exact E.
  - right. apply (existsb_eqb_notin _ junction_eqb_eq). exact E.
Qed.

Theorem union_j_in : forall a b x, In x (union_j a b) <-> In x a \/ In x b.
Proof.
  intros a b x. unfold union_j. rewrite in_app_iff, filter_In, negb_existsb_jeqb.
  destruct (in_j_dec x a); tauto.
Qed.

Theorem diff_j_in : forall a b x, In x (diff_j a b) <-> In x a /\ ~ In x b.
Proof. intros a b x. unfold diff_j. rewrite filter_In, negb_existsb_jeqb. tauto. Qed.

Theorem inter_j_in : forall a b x, In x (inter_j a b) <-> In x a /\ In x b.
Proof. intros a b x. unfold inter_j. rewrite filter_In, existsb_jeqb_in. tauto. Qed.

Lemma NoDup_filter' {A} (f : A -> bool) l : NoDup l -> NoDup (filter f l).
Proof.
  induction 1 as [|x l Hx Hl IH]; cbn [filter]; [constructor|].
  destruct (f x); [|exact IH]. constructor; [|exact IH].
  rewrite filter_In. tauto.
Qed.

Lemma NoDup_app' {A} (a b : list A) :
  NoDup a -> NoDup b -> (forall x, In x a -> ~ In x b) -> NoDup (a ++ b).
Proof.
  induction 1 as [|x a Hx Ha IH]; intros Hb D; cbn [app]; [exact Hb|].
  constructor.
  - rewrite in_app_iff. intros [H|H]; [contradiction|]. apply (D x); [left; reflexivity | exact H].
  - apply IH; [exact Hb|]. intros y Hy. apply D. right. exact Hy.
Qed.

Theorem union_j_nodup : forall a b, NoDup a -> NoDup b -> NoDup (union_j a b).
Proof.
  intros a b Ha Hb. unfold union_j. apply NoDup_app'; [exact Ha | apply NoDup_filter'; exact Hb|].
  intros x Hx. rewrite filter_In, negb_existsb_jeqb. tauto.
Qed.

Theorem diff_j_nodup : forall a b, NoDup a -> NoDup (diff_j a b).
Proof. intros a b Ha. apply NoDup_filter'. exact Ha. Qed.

Theorem inter_j_nodup : forall a b, NoDup a -> NoDup (inter_j a b).
Proof. intros a b Ha. apply NoDup_filter'. exact Ha. Qed.

Theorem junction_set_nodup : forall c rows js, junction_set c rows = Ok js -> NoDup js.
Proof.
  intros c rows js. unfold junction_set.
  destruct (scaffold_junctions rows) as [l|e]; cbn [bind]; [|discriminate].
  intro E. injection E as <-. apply dedup_nodup, junction_eqb_eq.
Qed.

(* the membership characterisation of junction_set *)
Lemma junction_set_in c rows js :
  junction_set c rows = Ok js ->
  exists l, scaffold_junctions rows = Ok l /\
    forall x, In x js <-> In x (if fix_canon_junction c then map canon_junction l else l).
Proof.
  unfold junction_set.
  destruct (scaffold_junctions rows) as [l|e]; cbn [bind]; [|discriminate].
  intro E. injection E as <-. exists l. split; [reflexivity|].
  intro x. apply dedup_in, junction_eqb_eq.
Qed.

(* ------------------------------------------------------------------ *)
(* contig ends                                                         *)
(* ------------------------------------------------------------------ *)

(* a contig end: name, coordinate, side (true = the contig's end
   coordinate, false = its start coordinate) *)
Definition cend := (str * Z * bool)%type.
(* the end of fragment f that faces the scaffold end / the scaffold start *)
Definition tail_end (f : frag) : cend :=
  if f_strand f =? 1 then (f_name f, f_end f, true) else (f_name f, f_start f, false).
Definition head_end (f : frag) : cend :=
  if f_strand f =? 1 then (f_name f, f_start f, false) else (f_name f, f_end f, true).
Definition pm (f : frag) : Prop := f_strand f = 1 \/ f_strand f = -1.

Lemma pm_reverse f : pm f -> pm (frag_reverse f).
Proof. unfold pm, frag_reverse. cbn [f_strand]. lia. Qed.

Lemma frag_reverse_involutive f : frag_reverse (frag_reverse f) = f.
Proof. destruct f. unfold frag_reverse. cbn. f_equal. lia. Qed.

Lemma tail_end_reverse f : pm f -> tail_end (frag_reverse f) = head_end f.
Proof.
  unfold tail_end, head_end, frag_reverse. cbn [f_strand f_name f_start f_end].
  intros [H|H]; rewrite H; reflexivity.
Qed.

Lemma head_end_reverse f : pm f -> head_end (frag_reverse f) = tail_end f.
Proof.
  unfold tail_end, head_end, frag_reverse. cbn [f_strand f_name f_start f_end].
  intros [H|H]; rewrite H; reflexivity.
Qed.

Lemma junction_tuple_ok a b : pm a -> pm b -> exists j, junction_tuple a b = Ok j.
Proof.
  unfold junction_tuple. intros [Ha|Ha] [Hb|Hb]; rewrite Ha, Hb; cbn; eexists; reflexivity.
Qed.

Lemma junction_tuple_ok_inv a b j : junction_tuple a b = Ok j -> pm a /\ pm b.
Proof.
  unfold junction_tuple, pm.
  destruct (Z.eqb_spec (f_strand a) 1), (Z.eqb_spec (f_strand a) (-1)),
    (Z.eqb_spec (f_strand b) 1), (Z.eqb_spec (f_strand b) (-1)); try discriminate; auto.
Qed.

Lemma junction_tuple_err a b e : junction_tuple a b = Err e -> e = ValueError.
Proof.
  unfold junction_tuple.
  destruct (f_strand a =? 1), (f_strand a =? -1), (f_strand b =? 1), (f_strand b =? -1);
    intro E; try discriminate; injection E as <-; reflexivity.
Qed.

(* ------------------------------------------------------------------ *)
(* 1. reading a junction from the other side                           *)
(* ------------------------------------------------------------------ *)

(* the raw tuples are related by junction_swap *)
Lemma junction_reverse_pair_swap a b ja jb : pm a -> pm b ->
  junction_tuple a b = Ok ja -> junction_tuple (frag_reverse b) (frag_reverse a) = Ok jb ->
  jb = junction_swap ja.
Proof.
  unfold junction_tuple, frag_reverse. cbn [f_strand f_name f_start f_end].
  intros [Ha|Ha] [Hb|Hb]; rewrite Ha, Hb; cbn; intros E1 E2;
    injection E1 as <-; injection E2 as <-; reflexivity.
Qed.

Theorem junction_reverse_pair : forall a b ja jb, pm a -> pm b ->
  junction_tuple a b = Ok ja -> junction_tuple (frag_reverse b) (frag_reverse a) = Ok jb ->
  canon_junction ja = canon_junction jb.
Proof.
  intros a b ja jb Ha Hb E1 E2.
  rewrite (junction_reverse_pair_swap a b ja jb Ha Hb E1 E2). symmetry. apply canon_swap.
Qed.

(* ------------------------------------------------------------------ *)
(* 2. the junction set of a scaffold and of its reverse                *)
(* ------------------------------------------------------------------ *)

Lemma frags_of_app r1 r2 : frags_of (r1 ++ r2) = frags_of r1 ++ frags_of r2.
Proof. unfold frags_of. apply flat_map_app. Qed.

Lemma frags_of_reverse rows : frags_of (rows_reverse rows) = map frag_reverse (rev (frags_of rows)).
Proof.
  unfold rows_reverse. induction rows as [|r rows IH]; [reflexivity|].
  cbn [rev]. rewrite map_app, frags_of_app, IH.
  destruct r as [f|g]; cbn.
  - change (frags_of (RF f :: rows)) with (f :: frags_of rows). cbn [rev].
    rewrite map_app. reflexivity.
  - change (frags_of (RG g :: rows)) with (frags_of rows). apply app_nil_r.
Qed.

Lemma rows_reverse_involutive rows : rows_reverse (rows_reverse rows) = rows.
Proof.
  unfold rows_reverse. rewrite <- map_rev, rev_involutive, map_map.
  rewrite <- (map_id rows) at 2. apply map_ext.
  intros [f|g]; cbn; [rewrite frag_reverse_involutive|]; reflexivity.
Qed.

(* [adjacent l a b]: a is immediately followed by b in l *)
Definition adjacent {A} (l : list A) (a b : A) : Prop :=
  exists l1 l2, l = l1 ++ a :: b :: l2.

Lemma adjacent_rev_map {A B} (f : A -> B) l a b :
  adjacent l a b -> adjacent (map f (rev l)) (f b) (f a).
Proof.
  intros (l1 & l2 & ->). exists (map f (rev l2)), (map f (rev l1)).
  rewrite rev_app_distr. cbn [rev]. rewrite !map_app, <- !app_assoc. reflexivity.
Qed.

Lemma adjacent_in {A} (l : list A) a b : adjacent l a b -> In a l /\ In b l.
Proof.
  intros (l1 & l2 & ->). rewrite !in_app_iff. cbn [In]. auto.
Qed.

Lemma adjacent_cons {A} (x y : A) t a b :
  adjacent (x :: y :: t) a b <-> (x = a /\ y = b) \/ adjacent (y :: t) a b.
Proof.
  split.
  - intros (l1 & l2 & E). destruct l1 as [|z l1]; cbn [app] in E.
    + injection E as -> -> _. auto.
    + injection E as -> E. right. exists l1, l2. exact E.
  - intros [[-> ->]|(l1 & l2 & E)].
    + exists [], t. reflexivity.
    + exists (x :: l1), l2. cbn [app]. rewrite E. reflexivity.
Qed.

Lemma adjacent_single {A} (x a b : A) : ~ adjacent [x] a b.
Proof.
  intros (l1 & l2 & E). apply (f_equal (@length A)) in E.
  rewrite app_length in E. cbn [length] in E. lia.
Qed.

(* membership in the junction list = junction of some adjacent pair *)
Lemma junctions_of_frags_in t : forall f js, junctions_of_frags f t = Ok js ->
  forall j, In j js <-> exists a b, adjacent (f :: t) a b /\ junction_tuple a b = Ok j.
Proof.
  induction t as [|g t IH]; intros f js E j; cbn [junctions_of_frags] in E.
  - injection E as <-. split; [intros []|].
    intros (a & b & H & _). exfalso. exact (adjacent_single _ _ _ H).
  - destruct (junction_tuple f g) as [j0|e] eqn:E0; cbn [bind] in E; [|discriminate].
    destruct (junctions_of_frags g t) as [js'|e] eqn:E1; cbn [bind] in E; [|discriminate].
    injection E as <-. cbn [In]. rewrite (IH g js' E1 j). split.
    + intros [->|(a & b & H & Hj)].
      * exists f, g. split; [apply adjacent_cons; auto | exact E0].
      * exists a, b. split; [apply adjacent_cons; auto | exact Hj].
    + intros (a & b & H & Hj). apply adjacent_cons in H. destruct H as [[-> ->]|H].
      * left. congruence.
      * right. exists a, b. auto.
Qed.

Lemma junctions_of_frags_ok t : forall f, Forall pm (f :: t) ->
  exists js, junctions_of_frags f t = Ok js.
Proof.
  induction t as [|g t IH]; intros f H; cbn [junctions_of_frags].
  - eexists; reflexivity.
  - inversion H as [|? ? Hf Ht]; subst. inversion Ht as [|? ? Hg _]; subst.
    destruct (junction_tuple_ok f g Hf Hg) as (j & ->).
    destruct (IH g Ht) as (js & ->). cbn [bind]. eexists; reflexivity.
Qed.

(* every adjacent pair of a successful run has strands +1/-1; every failure is a ValueError *)
Lemma junctions_of_frags_ok_inv t : forall f js, junctions_of_frags f t = Ok js ->
  forall a b, adjacent (f :: t) a b -> pm a /\ pm b.
Proof.
  induction t as [|g t IH]; intros f js E a b H; cbn [junctions_of_frags] in E.
  - exfalso. exact (adjacent_single _ _ _ H).
  - destruct (junction_tuple f g) as [j0|e] eqn:E0; cbn [bind] in E; [|discriminate].
    destruct (junctions_of_frags g t) as [js'|e] eqn:E1; cbn [bind] in E; [|discriminate].
    apply adjacent_cons in H. destruct H as [[<- <-]|H].
    + exact (junction_tuple_ok_inv _ _ _ E0).
    + exact (IH g js' E1 a b H).
Qed.

Lemma junctions_of_frags_err t : forall f e, junctions_of_frags f t = Err e -> e = ValueError.
Proof.
  induction t as [|g t IH]; intros f e E; cbn [junctions_of_frags] in E; [discriminate|].
  destruct (junction_tuple f g) as [j0|e0] eqn:E0; cbn [bind] in E.
  - destruct (junctions_of_frags g t) as [js'|e1] eqn:E1; cbn [bind] in E; [discriminate|].
    injection E as <-. exact (IH g e1 E1).
  - injection E as <-. exact (junction_tuple_err _ _ _ E0).
Qed.

Lemma scaffold_junctions_in rows js : scaffold_junctions rows = Ok js ->
  forall j, In j js <-> exists a b, adjacent (frags_of rows) a b /\ junction_tuple a b = Ok j.
Proof.
  unfold scaffold_junctions. destruct (frags_of rows) as [|f t].
  - intros E j. injection E as <-. split; [intros []|].
    intros (a & b & (l1 & l2 & H) & _). destruct l1; discriminate.
  - apply junctions_of_frags_in.
Qed.

Lemma scaffold_junctions_ok rows : Forall pm (frags_of rows) ->
  exists js, scaffold_junctions rows = Ok js.
Proof.
  unfold scaffold_junctions. destruct (frags_of rows) as [|f t]; intro H.
  - eexists; reflexivity.
  - apply junctions_of_frags_ok. exact H.
Qed.

(* success of junction_set, for either configuration *)
Theorem junction_set_ok : forall c rows, Forall pm (frags_of rows) ->
  exists js, junction_set c rows = Ok js.
Proof.
  intros c rows H. unfold junction_set.
  destruct (scaffold_junctions_ok rows H) as (js & ->). cbn [bind]. eexists; reflexivity.
Qed.

(* failure: a fragment with a neighbour whose strand is neither +1 nor -1
   (strand 0 in particular) makes junction_set raise ValueError *)
Theorem junction_set_err : forall c rows a b, adjacent (frags_of rows) a b ->
  ~ pm a \/ ~ pm b -> junction_set c rows = Err ValueError.
Proof.
  intros c rows a b H N. unfold junction_set, scaffold_junctions.
  destruct (frags_of rows) as [|f t].
  - destruct H as (l1 & l2 & H). destruct l1; discriminate.
  - destruct (junctions_of_frags f t) as [js|e] eqn:E; cbn [bind].
    + destruct (junctions_of_frags_ok_inv t f js E a b H). tauto.
    + rewrite (junctions_of_frags_err t f e E). reflexivity.
Qed.

Corollary junction_set_err_strand0 : forall c rows a b, adjacent (frags_of rows) a b ->
  f_strand a = 0 \/ f_strand b = 0 -> junction_set c rows = Err ValueError.
Proof.
  intros c rows a b H N. apply (junction_set_err c rows a b H). unfold pm. lia.
Qed.

Lemma Forall_pm_reverse rows : Forall pm (frags_of rows) -> Forall pm (frags_of (rows_reverse rows)).
Proof.
  rewrite frags_of_reverse, !Forall_forall. intros H x Hx.
  apply in_map_iff in Hx. destruct Hx as (y & <- & Hy). apply in_rev in Hy.
  apply pm_reverse, H, Hy.
Qed.

Lemma junction_set_reverse_incl rows js jr :
  Forall pm (frags_of rows) ->
  junction_set repaired rows = Ok js -> junction_set repaired (rows_reverse rows) = Ok jr ->
  forall j, In j js -> In j jr.
Proof.
  intros Hpm E1 E2 j Hj.
  destruct (junction_set_in _ _ _ E1) as (l1 & S1 & I1).
  destruct (junction_set_in _ _ _ E2) as (l2 & S2 & I2).
  cbn [repaired fix_canon_junction] in I1, I2.
  apply I1 in Hj. apply I2. apply in_map_iff in Hj. destruct Hj as (j0 & <- & Hj0).
  apply (scaffold_junctions_in _ _ S1) in Hj0. destruct Hj0 as (a & b & Hadj & Hab).
  destruct (adjacent_in _ _ _ Hadj) as [Ia Ib].
  rewrite Forall_forall in Hpm. pose proof (Hpm a Ia) as Pa. pose proof (Hpm b Ib) as Pb.
  destruct (junction_tuple_ok (frag_reverse b) (frag_reverse a) (pm_reverse b Pb) (pm_reverse a Pa))
    as (jb & Hjb).
  apply in_map_iff. exists jb. split.
  - symmetry. exact (junction_reverse_pair a b j0 jb Pa Pb Hab Hjb).
  - apply (scaffold_junctions_in _ _ S2). exists (frag_reverse b), (frag_reverse a).
    split; [|exact Hjb]. rewrite frags_of_reverse. apply adjacent_rev_map. exact Hadj.
Qed.

Theorem junction_set_reverse : forall rows js jr,
  Forall pm (frags_of rows) ->
  junction_set repaired rows = Ok js -> junction_set repaired (rows_reverse rows) = Ok jr ->
  forall j, In j js <-> In j jr.
Proof.
  intros rows js jr Hpm E1 E2 j. split.
  - exact (junction_set_reverse_incl rows js jr Hpm E1 E2 j).
  - apply (junction_set_reverse_incl (rows_reverse rows) jr js).
    + apply Forall_pm_reverse. exact Hpm.
    + exact E2.
    + rewrite rows_reverse_involutive. exact E1.
Qed.

(* both sides are duplicate-free, so the two sets are permutations of each
   other and in particular have the same size (what make_stats counts) *)
Corollary junction_set_reverse_perm : forall rows js jr,
  Forall pm (frags_of rows) ->
  junction_set repaired rows = Ok js -> junction_set repaired (rows_reverse rows) = Ok jr ->
  Permutation js jr.
Proof.
  intros rows js jr Hpm E1 E2. apply NoDup_Permutation.
  - exact (junction_set_nodup _ _ _ E1).
  - exact (junction_set_nodup _ _ _ E2).
  - exact (junction_set_reverse rows js jr Hpm E1 E2).
Qed.

(* ------------------------------------------------------------------ *)
(* 3. the canonical junction identifies the unordered pair of ends     *)
(* ------------------------------------------------------------------ *)

Theorem junction_injective : forall a b c d j1 j2, pm a -> pm b -> pm c -> pm d ->
  junction_tuple a b = Ok j1 -> junction_tuple c d = Ok j2 ->
  (canon_junction j1 = canon_junction j2 <->
   (tail_end a = tail_end c /\ head_end b = head_end d) \/
   (tail_end a = head_end d /\ head_end b = tail_end c)).
Proof.
  intros a b c d j1 j2 Pa Pb Pc Pd. rewrite canon_eq_iff.
  unfold junction_tuple, tail_end, head_end.
  destruct Pa as [Ha|Ha], Pb as [Hb|Hb], Pc as [Hc|Hc], Pd as [Hd|Hd];
    rewrite Ha, Hb, Hc, Hd; cbn; intros E1 E2; injection E1 as <-; injection E2 as <-; cbn;
    (split;
     [ intros [E|E]; try discriminate; injection E; intros;
       solve [left; split; congruence | right; split; congruence]
     | intros [[E E']|[E E']]; try discriminate; injection E; injection E'; intros;
       solve [left; congruence | right; congruence] ]).
Qed.

(* the strand hypotheses already follow from the success of junction_tuple *)
Corollary junction_injective_ok : forall a b c d j1 j2,
  junction_tuple a b = Ok j1 -> junction_tuple c d = Ok j2 ->
  (canon_junction j1 = canon_junction j2 <->
   (tail_end a = tail_end c /\ head_end b = head_end d) \/
   (tail_end a = head_end d /\ head_end b = tail_end c)).
Proof.
  intros a b c d j1 j2 E1 E2.
  destruct (junction_tuple_ok_inv _ _ _ E1), (junction_tuple_ok_inv _ _ _ E2).
  apply junction_injective; assumption.
Qed.

(* corner cases checked by computation: 1-bp contigs with one and the same
   name.  The shape of the tuple carries the sides, so the four strand
   combinations give three distinct canonical junctions; (+,+) and (-,-)
   coincide because for x = y the pair (x-, y-) is (reverse y, reverse x). *)
Definition ex_x (strand : Z) : frag := mkFrag 0 (s "x") 5 5 strand [].
Example junction_corner_1bp_same_name :
  junction_tuple (ex_x 1) (ex_x 1) = Ok (JSISI (s "x") 5 (s "x") 5) /\
  junction_tuple (ex_x (-1)) (ex_x (-1)) = Ok (JSISI (s "x") 5 (s "x") 5) /\
  junction_tuple (ex_x 1) (ex_x (-1)) = Ok (JSIIS (s "x") 5 5 (s "x")) /\
  junction_tuple (ex_x (-1)) (ex_x 1) = Ok (JISSI 5 (s "x") (s "x") 5) /\
  canon_junction (JSIIS (s "x") 5 5 (s "x")) <> canon_junction (JISSI 5 (s "x") (s "x") 5) /\
  canon_junction (JSISI (s "x") 5 (s "x") 5) <> canon_junction (JSIIS (s "x") 5 5 (s "x")) /\
  canon_junction (JSISI (s "x") 5 (s "x") 5) <> canon_junction (JISSI 5 (s "x") (s "x") 5) /\
  tail_end (ex_x 1) = head_end (ex_x (-1)) /\ head_end (ex_x 1) = tail_end (ex_x (-1)) /\
  tail_end (ex_x 1) <> head_end (ex_x 1).
Proof. repeat split; try (vm_compute; reflexivity); vm_compute; discriminate. Qed.

(* ------------------------------------------------------------------ *)
(* 6. the legacy encoding is refuted                                   *)
(* ------------------------------------------------------------------ *)

Definition legacy : cfg := mkCfg true true true false true.

Definition ex_A : frag := mkFrag 1 (s "A") 1 100 1 [].
Definition ex_B : frag := mkFrag 2 (s "B") 1 200 (-1) [].
Definition ex_rows2 : list row := [RF ex_A; RF ex_B].

Theorem legacy_junction_refuted : exists rows js jr,
  Forall pm (frags_of rows) /\ junction_set (mkCfg true true true false true) rows = Ok js
  /\ junction_set (mkCfg true true true false true) (rows_reverse rows) = Ok jr
  /\ ~ (forall j, In j js <-> In j jr).
Proof.
  exists ex_rows2, [JSIIS (s "A") 100 200 (s "B")], [JSIIS (s "B") 200 100 (s "A")].
  split; [|split; [|split]].
  - cbn. repeat apply Forall_cons; try apply Forall_nil; unfold pm; cbn; auto.
  - vm_compute. reflexivity.
  - vm_compute. reflexivity.
  - intro H. destruct (proj1 (H (JSIIS (s "A") 100 200 (s "B")))) as [E|[]].
    + left. reflexivity.
    + discriminate E.
Qed.

(* the repaired encoding on the same scaffold: one junction, the same from both sides *)
Example repaired_on_legacy_example :
  junction_set repaired ex_rows2 = Ok [JSIIS (s "A") 100 200 (s "B")] /\
  junction_set repaired (rows_reverse ex_rows2) = Ok [JSIIS (s "A") 100 200 (s "B")].
Proof. split; vm_compute; reflexivity. Qed.

(* ------------------------------------------------------------------ *)
(* 7. non-vacuity of junction_set_reverse                              *)
(* ------------------------------------------------------------------ *)

Definition ex_rows4 : list row :=
  [ RF (mkFrag 1 (s "ctg_1") 1 1000 1 []);
    RF (mkFrag 2 (s "ctg_2") 1 500 (-1) []);
    RG (mkGap 200 (s "scaffold"));
    RF (mkFrag 3 (s "ctg_1") 1001 2000 (-1) [s "Painted"]);
    RF (mkFrag 4 (s "ctg_3") 7 7 1 []) ].

Definition ex_set4 : list junction :=
  [ JSIIS (s "ctg_1") 1000 500 (s "ctg_2");
    JSISI (s "ctg_1") 2000 (s "ctg_2") 1;
    JISSI 7 (s "ctg_3") (s "ctg_1") 1001 ].

Example junction_set_reverse_example :
  Forall pm (frags_of ex_rows4) /\
  junction_set repaired ex_rows4 = Ok ex_set4 /\
  junction_set repaired (rows_reverse ex_rows4) = Ok (rev ex_set4) /\
  (forall j, In j ex_set4 <-> In j (rev ex_set4)) /\
  (* the legacy encoding disagrees on the two mixed junctions of this scaffold *)
  junction_set legacy ex_rows4 =
    Ok [ JSIIS (s "ctg_1") 1000 500 (s "ctg_2"); JSISI (s "ctg_1") 2000 (s "ctg_2") 1;
         JISSI 1001 (s "ctg_1") (s "ctg_3") 7 ] /\
  junction_set legacy (rows_reverse ex_rows4) =
    Ok [ JISSI 7 (s "ctg_3") (s "ctg_1") 1001; JSISI (s "ctg_1") 2000 (s "ctg_2") 1;
         JSIIS (s "ctg_2") 500 1000 (s "ctg_1") ].
Proof.
  split; [|split; [|split; [|split; [|split]]]].
  - cbn. repeat apply Forall_cons; try apply Forall_nil; unfold pm; cbn; auto.
  - vm_compute. reflexivity.
  - vm_compute. reflexivity.
  - apply (junction_set_reverse ex_rows4).
    + cbn. repeat apply Forall_cons; try apply Forall_nil; unfold pm; cbn; auto.
    + vm_compute. reflexivity.
    + vm_compute. reflexivity.
  - vm_compute. reflexivity.
  - vm_compute. reflexivity.
Qed.

Print Assumptions junction_reverse_pair.
Print Assumptions junction_set_reverse.
Print Assumptions junction_set_reverse_perm.
Print Assumptions junction_set_ok.
Print Assumptions junction_set_err.
Print Assumptions junction_set_err_strand0.
Print Assumptions junction_injective.
Print Assumptions junction_injective_ok.
Print Assumptions junction_corner_1bp_same_name.
Print Assumptions canon_idempotent.
Print Assumptions canon_eq_iff.
Print Assumptions junction_eqb_eq.
Print Assumptions union_j_in.
Print Assumptions diff_j_in.
Print Assumptions inter_j_in.
Print Assumptions union_j_nodup.
Print Assumptions diff_j_nodup.
Print Assumptions inter_j_nodup.
Print Assumptions junction_set_nodup.
Print Assumptions legacy_junction_refuted.
Print Assumptions repaired_on_legacy_example.
Print Assumptions junction_set_reverse_example.
