From Tola Require Import Py.Base Py.Dec Py.Sort Model.Fragment Model.Scaffold Model.Namer Model.Remap
  Proofs.BaseLemmas Proofs.Naming Proofs.UniqueNames Proofs.MultiHap Proofs.ChromosomeNumbersHead.
From Coq Require Import Lia ZifyBool Permutation Sorted.

(* h1 h2 h1 h2 ... *)
Fixpoint alternating (h1 h2 : str) (k : nat) : list str :=
  match k with O => [] | S k' => h1 :: h2 :: alternating h1 h2 k' end.

Lemma index_of_app_later : forall done x t todo, ~ In x done -> x <> t ->
  (length done < index_of x (done ++ t :: todo))%nat.
Proof.
  induction done as [|y done IH]; intros x t todo NI NE; cbn [app index_of length].
  - destruct (str_eqb x t) eqn:E; [|lia]. apply str_eqb_eq in E. contradiction.
  - destruct (str_eqb x y) eqn:E.
    + apply str_eqb_eq in E. exfalso. apply NI. left. auto.
    + assert (~ In x done) by (intro; apply NI; right; assumption).
      specialize (IH x t todo H NE). lia.
Qed.

Lemma nodup_app_disj {A} (l1 l2 : list A) x : NoDup (l1 ++ l2) -> In x l1 -> In x l2 -> False.
Proof.
  induction l1 as [|y l1 IH]; cbn [app]; intros N I1 I2; [destruct I1|].
  inversion N as [|? ? NI N']; subst. destruct I1 as [->|I1]; [|auto].
  apply NI. apply in_or_app. right. exact I2.
Qed.

Lemma Forall2_impl' {A B} (P Q : A -> B -> Prop) : (forall a b, P a b -> Q a b) ->
  forall l l', Forall2 P l l' -> Forall2 Q l l'.
Proof. intros H l l' F. induction F; constructor; auto. Qed.

(* the i-th item of the map: index i (offset a) holds a scaffold painted in nm *)
Definition at_off (l : list scaffold) (a : nat) (nm : str) (i : nat) : Prop :=
  nm <> [] /\ (a <= i)%nat /\ exists sc, nth_error l (i - a) = Some sc /\ sc_orig sc = Some nm.

Lemma items_by_names : forall (hapf : str -> str) (l : list scaffold) (a : nat) (done todo : list str),
  NoDup (done ++ todo) ->
  Forall (fun sc => sc_rank sc = 1 ->
            exists nm, In nm todo /\ nm <> [] /\ sc_orig sc = Some nm /\ hap_str (asm_k sc) = hapf nm) l ->
  StronglySorted le (map (skey (done ++ todo)) l) ->
  (forall i j x y, nth_error l i = Some x -> nth_error l j = Some y ->
     sc_rank x = 1 -> sc_rank y = 1 -> sc_orig x = sc_orig y -> i = j) ->
  (forall nm, In nm todo -> exists sc, In sc l /\ sc_rank sc = 1 /\ sc_orig sc = Some nm) ->
  exists idxs, chr_items_from a l = combine (map hapf todo) idxs /\ Forall2 (at_off l a) todo idxs.
Proof.
  intros hapf. induction l as [|x l IH]; intros a done todo ND F Hs AM AL.
  - destruct todo as [|t todo].
    + exists []. split; [reflexivity|constructor].
    + destruct (AL t (or_introl eq_refl)) as (sc & [] & _).
  - unfold chr_items_from. cbn [length seq combine flat_map]. fold (chr_items_from (Datatypes.S a) l).
    inversion F as [|? ? Fx Fl]; subst. cbn [map] in Hs. inversion Hs as [|? ? Sl Sx]; subst.
    assert (AM' : forall i j x y, nth_error l i = Some x -> nth_error l j = Some y ->
              sc_rank x = 1 -> sc_rank y = 1 -> sc_orig x = sc_orig y -> i = j).
    { intros i j u v Hi Hj Ru Rv E.
      assert (Datatypes.S i = Datatypes.S j) by (apply (AM _ _ u v); auto). lia. }
    destruct (sc_rank x =? 1) eqn:R.
    + apply Z.eqb_eq in R. destruct (Fx R) as (nm & Inm & NE & O & Hh).
      destruct todo as [|t todo]; [destruct Inm|].
      assert (NIt : ~ In t done).
      { intro I. apply NoDup_remove_2 in ND. apply ND. apply in_or_app. left. exact I. }
      assert (nm = t).
      { destruct (AL t (or_introl eq_refl)) as (sc & Isc & Rsc & Osc).
        destruct Isc as [<-|Isc]; [congruence|].
        destruct (list_eq_dec Ascii.ascii_dec nm t) as [|NEt]; [assumption|exfalso].
        rewrite Forall_forall in Sx. specialize (Sx (skey (done ++ t :: todo) sc) (in_map _ _ _ Isc)).
        unfold skey in Sx. rewrite O, Osc in Sx. cbn [pos] in Sx.
        rewrite (index_of_app_new done t todo NIt) in Sx.
        assert (~ In nm done).
        { intro I. destruct Inm as [->|Inm]; [congruence|].
          apply (nodup_app_disj _ _ nm ND I). right. exact Inm. }
        pose proof (index_of_app_later done nm t todo H NEt). lia. }
      subst nm.
      assert (NDt : ~ In t todo).
      { intro I. apply NoDup_remove_2 in ND. apply ND. apply in_or_app. right. exact I. }
      destruct (IH (Datatypes.S a) (done ++ [t]) todo) as (idxs & E & F2).
      * rewrite <- app_assoc. exact ND.
      * rewrite Forall_forall in Fl |- *. intros sc Isc Rsc.
        destruct (Fl sc Isc Rsc) as (nm & I & NEn & Osc & Hsc). exists nm. repeat split; auto.
        destruct I as [<-|I]; [|exact I]. exfalso.
        apply In_nth_error in Isc as [n Hn].
        assert (0%nat = Datatypes.S n) by (apply (AM _ _ x sc); auto; congruence). discriminate.
      * rewrite <- app_assoc. exact Sl.
      * exact AM'.
      * intros nm I. destruct (AL nm (or_intror I)) as (sc & Isc & Rsc & Osc).
        exists sc. repeat split; auto. destruct Isc as [<-|Isc]; [|exact Isc].
        exfalso. assert (t = nm) by congruence. subst. contradiction.
      * exists (a :: idxs). cbn [map combine app]. rewrite E. split.
        { unfold asm_k in Hh. rewrite Hh. reflexivity. }
        constructor.
        { split; [exact NE|]. split; [lia|]. exists x. rewrite Nat.sub_diag. split; [reflexivity|exact O]. }
        eapply Forall2_impl'; [|exact F2]. intros nm i (N1 & L & sc & Hn & Osc).
        split; [exact N1|]. split; [lia|]. exists sc. split; [|exact Osc].
        replace (i - a)%nat with (Datatypes.S (i - Datatypes.S a)) by lia. exact Hn.
    + assert (R' : sc_rank x <> 1) by (intro X; rewrite X in R; discriminate).
      destruct (IH (Datatypes.S a) done todo) as (idxs & E & F2); auto.
      * intros nm I. destruct (AL nm I) as (sc & Isc & Rsc & Osc).
        exists sc. repeat split; auto. destruct Isc as [<-|Isc]; [contradiction|exact Isc].
      * exists idxs. cbn [app]. split; [exact E|].
        eapply Forall2_impl'; [|exact F2]. intros nm i (N1 & L & sc & Hn & Osc).
        split; [exact N1|]. split; [lia|]. exists sc. split; [|exact Osc].
        replace (i - a)%nat with (Datatypes.S (i - Datatypes.S a)) by lia. exact Hn.
Qed.

Lemma pair_up : forall (l : list scaffold) h1 h2 k (names : list str) (idxs : list nat),
  length names = (2 * k)%nat -> Forall2 (at_off l 0) names idxs ->
  exists pairs : list ((str * list nat) * (str * list nat)), length pairs = k
    /\ combine (alternating h1 h2 k) idxs = items_of (map (chrom2 h1 h2) pairs)
    /\ Forall (fun p => sub_ok l (fst p) /\ sub_ok l (snd p)) pairs.
Proof.
  intros l h1 h2. induction k as [|k IH]; intros names idxs L F2.
  - exists []. repeat split; constructor.
  - destruct names as [|n1 [|n2 names]]; cbn [length] in L; try lia.
    inversion F2 as [|? i1 ? idxs1 P1 F2']; subst. inversion F2' as [|? i2 ? idxs2 P2 F2'']; subst.
    destruct (IH names idxs2) as (pairs & Lp & E & Fp); [lia|exact F2''|].
    exists (((n1, [i1]), (n2, [i2])) :: pairs). split; [cbn [length]; lia|]. split.
    + cbn [alternating combine map]. rewrite E. reflexivity.
    + constructor; [|exact Fp]. cbn [fst snd].
      destruct P1 as (N1 & _ & sc1 & H1 & O1). destruct P2 as (N2 & _ & sc2 & H2 & O2).
      rewrite Nat.sub_0_r in H1, H2.
      split; (split; [assumption|]; split; [discriminate|]; constructor; [|constructor]; cbn [fst]).
      * exists sc1. auto.
      * exists sc2. auto.
Qed.

Lemma two_hap_items_shape : forall (fused1 : list scaffold) (names : list str) (hapf : str -> str) h1 h2 k,
  NoDup names ->
  (* every rank-1 scaffold was painted in a named Pretext scaffold and carries that scaffold's haplotype *)
  Forall (fun sc => sc_rank sc = 1 ->
            exists nm, In nm names /\ nm <> [] /\ sc_orig sc = Some nm /\ hap_str (asm_k sc) = hapf nm) fused1 ->
  (* in Pretext order *)
  StronglySorted le (map (skey names) fused1) ->
  (* at most one per Pretext scaffold *)
  (forall i j a b, nth_error fused1 i = Some a -> nth_error fused1 j = Some b ->
     sc_rank a = 1 -> sc_rank b = 1 -> sc_orig a = sc_orig b -> i = j) ->
  (* at least one per Pretext scaffold *)
  (forall nm, In nm names -> exists sc, In sc fused1 /\ sc_rank sc = 1 /\ sc_orig sc = Some nm) ->
  map hapf names = alternating h1 h2 (S k) ->
  exists p0 pairs,
    chr_items fused1 = items_of (map (chrom2 h1 h2) (p0 :: pairs))
    /\ Forall (fun p => sub_ok fused1 (fst p) /\ sub_ok fused1 (snd p)) (p0 :: pairs)
    /\ NoDup (map snd (items_of (map (chrom2 h1 h2) (p0 :: pairs)))).
Proof.
  intros fused1 names hapf h1 h2 k ND F Hs AM AL EH.
  destruct (items_by_names hapf fused1 0 [] names ND F Hs AM AL) as (idxs & E & F2).
  assert (L : length names = (2 * Datatypes.S k)%nat).
  { rewrite <- (map_length hapf), EH. clear. generalize (Datatypes.S k). intro n.
    induction n as [|n IHn]; cbn [alternating length]; lia. }
  destruct (pair_up fused1 h1 h2 (Datatypes.S k) names idxs L F2) as (pairs & Lp & Ep & Fp).
  destruct pairs as [|p0 pairs]; [discriminate|].
  exists p0, pairs. fold (chr_items fused1) in E. rewrite EH in E. rewrite Ep in E.
  split; [exact E|]. split; [exact Fp|]. rewrite <- E. apply chr_items_nodup.
Qed.

Print Assumptions two_hap_items_shape.
